#!/bin/bash
# usage: seedverify.sh Cxx   -- confirm a sub-agent's seed in its scratch worktree:
# tests pass with the patch; demo fails with it and passes without it.
id=$1; wt=/tmp/wt/$id; out=/tmp/seed-out/$id
cd $wt || exit 2
git checkout -q -- . ; git clean -fdq -e target
export CARGO_TARGET_DIR=$wt/target CARGO_NET_OFFLINE=true
git apply $out/patch.diff || { echo "PATCH DOES NOT APPLY"; exit 2; }
t=$(cargo test --workspace --offline 2>&1 | grep -E "^test result" | awk '{p+=$4; f+=$6} END {print p" passed "f" failed"}')
echo "with patch: test suite: $t"
bash $out/run_demo.sh $wt >/tmp/seed-out/$id/demo_with.log 2>&1; echo "with patch: demo rc=$?"
git checkout -q -- . ; git clean -fdq -e target
bash $out/run_demo.sh $wt >/tmp/seed-out/$id/demo_without.log 2>&1; echo "without patch: demo rc=$?"
git checkout -q -- . ; git clean -fdq -e target
