// C04, inverse clause, "HSL saturation/lightness outside 0-1".
// Copy to <tree>/tests/repro_1.rs and run: cargo test --offline --test repro_1
// Fails on the unmodified tree: from_hsla clamps s (and l) to [0,1] BEFORE the hexcone
// transform instead of transforming and then clamping each sRGB channel.
use pastel::Color;

/// Published hexcone HSL -> RGB (no clamping of the inputs), then clamp each channel, round.
fn reference(h: f64, s: f64, l: f64) -> (u8, u8, u8) {
    let c = (1.0 - (2.0 * l - 1.0).abs()) * s;
    let hp = (h % 360.0 + 360.0) % 360.0 / 60.0;
    let x = c * (1.0 - (hp % 2.0 - 1.0).abs());
    let m = l - c / 2.0;
    let (r, g, b) = match hp as u32 {
        0 => (c, x, 0.0),
        1 => (x, c, 0.0),
        2 => (0.0, c, x),
        3 => (0.0, x, c),
        4 => (x, 0.0, c),
        _ => (c, 0.0, x),
    };
    let q = |v: f64| (255.0 * (v + m).max(0.0).min(1.0)).round() as u8;
    (q(r), q(g), q(b))
}

#[test]
fn hsl_saturation_outside_unit_interval() {
    // (h, s, l): l strictly inside (0,1), s outside [0,1]
    let cases = [
        (30.0, 2.0, 0.25),   // reference (191, 64, 0)    pastel (128, 64, 0)
        (0.0, -1.0, 0.5),    // reference (0, 255, 255)   pastel (128, 128, 128)
        (200.0, 1.5, 0.7),   // reference (64, 217, 255)  pastel (102, 204, 255)
        (120.0, -0.5, 0.25), // reference (96, 32, 96)    pastel (64, 64, 64)
    ];
    let mut bad = 0;
    for &(h, s, l) in &cases {
        let o = Color::from_hsla(h, s, l, 1.0).to_rgba();
        let got = (o.r, o.g, o.b);
        let want = reference(h, s, l);
        println!("hsl({h}, {s}, {l}): pastel {got:?}  reference {want:?}");
        if got != want {
            bad += 1;
        }
    }
    // sanity: inside the unit ranges the same reference agrees with pastel
    let o = Color::from_hsla(30.0, 1.0, 0.25, 1.0).to_rgba();
    assert_eq!((o.r, o.g, o.b), reference(30.0, 1.0, 0.25));
    assert_eq!(bad, 0, "{bad} of {} out-of-range HSL inputs differ from transform-then-clamp", cases.len());
}
