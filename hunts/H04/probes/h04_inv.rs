use pastel::*;

// tiny deterministic rng
struct R(u64);
impl R {
    fn u(&mut self) -> f64 {
        self.0 ^= self.0 << 13;
        self.0 ^= self.0 >> 7;
        self.0 ^= self.0 << 17;
        (self.0 >> 11) as f64 / (1u64 << 53) as f64
    }
    fn range(&mut self, a: f64, b: f64) -> f64 {
        a + (b - a) * self.u()
    }
    // wide: mixture of scales
    fn wide(&mut self, scale: f64) -> f64 {
        let k = (self.u() * 6.0) as i32;
        let m = match k {
            0 => 1.0,
            1 => 2.0,
            2 => 10.0,
            3 => 1e3,
            4 => 1e6,
            _ => 0.1,
        };
        self.range(-1.0, 1.0) * m * scale
    }
}

fn gam(c: f64) -> f64 {
    if c <= 0.0031308 {
        12.92 * c
    } else {
        1.055 * c.powf(1.0 / 2.4) - 0.055
    }
}
// returns pre-rounding 255*channel values
fn q(v: f64) -> f64 {
    255.0 * v.max(0.0).min(1.0)
}
fn xyz2rgb(x: f64, y: f64, z: f64) -> [f64; 3] {
    [
        q(gam(3.2406 * x - 1.5372 * y - 0.4986 * z)),
        q(gam(-0.9689 * x + 1.8758 * y + 0.0415 * z)),
        q(gam(0.0557 * x - 0.2040 * y + 1.0570 * z)),
    ]
}
fn lab2rgb(l: f64, a: f64, b: f64) -> [f64; 3] {
    let d: f64 = 6.0 / 29.0;
    let fi = |t: f64| if t > d { t * t * t } else { 3.0 * d * d * (t - 4.0 / 29.0) };
    let fy = (l + 16.0) / 116.0;
    xyz2rgb(0.95047 * fi(fy + a / 500.0), fi(fy), 1.08883 * fi(fy - b / 200.0))
}
fn lms2rgb(l: f64, m: f64, s: f64) -> [f64; 3] {
    xyz2rgb(
        1.91020 * l - 1.112120 * m + 0.201908 * s,
        0.37095 * l + 0.629054 * m,
        s,
    )
}
fn ok2rgb(l: f64, a: f64, b: f64) -> [f64; 3] {
    let l_ = (l + 0.39633779 * a + 0.21580376 * b).powi(3);
    let m_ = (1.00000001 * l - 0.10556134 * a - 0.06385417 * b).powi(3);
    let s_ = (1.00000005 * l - 0.08948418 * a - 1.29148554 * b).powi(3);
    xyz2rgb(
        1.22701385 * l_ - 0.55779998 * m_ + 0.28125615 * s_,
        -0.04058018 * l_ + 1.11225687 * m_ - 0.07167668 * s_,
        -0.07638128 * l_ - 0.42148198 * m_ + 1.58616322 * s_,
    )
}
fn hexcone(h: f64, c: f64, m: f64) -> [f64; 3] {
    let mut hp = (h % 360.0) / 60.0;
    if hp < 0.0 {
        hp += 6.0;
    }
    if hp >= 6.0 {
        hp -= 6.0;
    }
    let x = c * (1.0 - (hp % 2.0 - 1.0).abs());
    let t = match hp as i32 {
        0 => [c, x, 0.0],
        1 => [x, c, 0.0],
        2 => [0.0, c, x],
        3 => [0.0, x, c],
        4 => [x, 0.0, c],
        _ => [c, 0.0, x],
    };
    [q(t[0] + m), q(t[1] + m), q(t[2] + m)]
}
fn hsl2rgb(h: f64, s: f64, l: f64) -> [f64; 3] {
    let c = (1.0 - (2.0 * l - 1.0).abs()) * s;
    hexcone(h, c, l - c / 2.0)
}
fn hsv2rgb(h: f64, s: f64, v: f64) -> [f64; 3] {
    let c = v * s;
    hexcone(h, c, v - c)
}

struct Stat {
    n: u64,
    bad: u64,
    bad_far: u64, // reference pre-rounding value further than 1e-6 from a .5 tie in the offending channel
    shown: u32,
}
fn cmp(name: &str, st: &mut Stat, input: [f64; 3], c: Color, want: [f64; 3]) {
    st.n += 1;
    let o = c.to_rgba();
    let got = [o.r as f64, o.g as f64, o.b as f64];
    let mut bad = false;
    let mut far = false;
    for i in 0..3 {
        if want[i].is_nan() || got[i] != want[i].round() {
            bad = true;
            let frac = want[i] - want[i].floor();
            if (frac - 0.5).abs() > 1e-6 {
                far = true;
            }
        }
    }
    if bad {
        st.bad += 1;
        if far {
            st.bad_far += 1;
        }
        if (far && st.shown < 6) || (!far && st.shown < 3) {
            st.shown += 1;
            println!("  {} {:?} -> got {:?} want(pre-round) {:?} far={}", name, input, got, want, far);
        }
    }
}

#[test]
fn inverse_all() {
    let mut r = R(0x9E3779B97F4A7C15);
    let n = 3_000_000;
    macro_rules! run {
        ($name:expr, $gen:expr, $mk:expr, $rf:expr) => {{
            let mut st = Stat { n: 0, bad: 0, bad_far: 0, shown: 0 };
            for _ in 0..n {
                let v: [f64; 3] = $gen(&mut r);
                cmp($name, &mut st, v, $mk(v), $rf(v));
            }
            println!("{}: n={} mismatches={} (far from tie: {})", $name, st.n, st.bad, st.bad_far);
        }};
    }
    run!("xyz", |r: &mut R| [r.wide(1.0), r.wide(1.0), r.wide(1.0)],
         |v: [f64; 3]| Color::from_xyz(v[0], v[1], v[2], 1.0), |v: [f64; 3]| xyz2rgb(v[0], v[1], v[2]));
    run!("xyz-in", |r: &mut R| [r.range(0.0, 0.95), r.range(0.0, 1.0), r.range(0.0, 1.09)],
         |v: [f64; 3]| Color::from_xyz(v[0], v[1], v[2], 1.0), |v: [f64; 3]| xyz2rgb(v[0], v[1], v[2]));
    run!("lms", |r: &mut R| [r.wide(1.0), r.wide(1.0), r.wide(1.0)],
         |v: [f64; 3]| Color::from_lms(v[0], v[1], v[2], 1.0), |v: [f64; 3]| lms2rgb(v[0], v[1], v[2]));
    run!("lms-in", |r: &mut R| [r.range(0.0, 1.0), r.range(0.0, 1.0), r.range(0.0, 1.09)],
         |v: [f64; 3]| Color::from_lms(v[0], v[1], v[2], 1.0), |v: [f64; 3]| lms2rgb(v[0], v[1], v[2]));
    run!("lab", |r: &mut R| [r.wide(100.0), r.wide(100.0), r.wide(100.0)],
         |v: [f64; 3]| Color::from_lab(v[0], v[1], v[2], 1.0), |v: [f64; 3]| lab2rgb(v[0], v[1], v[2]));
    run!("lab-in", |r: &mut R| [r.range(-20.0, 120.0), r.range(-130.0, 130.0), r.range(-130.0, 130.0)],
         |v: [f64; 3]| Color::from_lab(v[0], v[1], v[2], 1.0), |v: [f64; 3]| lab2rgb(v[0], v[1], v[2]));
    run!("lch", |r: &mut R| [r.range(-50.0, 150.0), r.range(-200.0, 200.0), r.wide(360.0)],
         |v: [f64; 3]| Color::from_lch(v[0], v[1], v[2], 1.0),
         |v: [f64; 3]| { let h = (v[2] % 360.0).to_radians(); lab2rgb(v[0], v[1] * h.cos(), v[1] * h.sin()) });
    run!("oklab", |r: &mut R| [r.wide(1.0), r.wide(0.5), r.wide(0.5)],
         |v: [f64; 3]| Color::from_oklab(v[0], v[1], v[2], 1.0), |v: [f64; 3]| ok2rgb(v[0], v[1], v[2]));
    run!("oklab-in", |r: &mut R| [r.range(-0.1, 1.1), r.range(-0.4, 0.4), r.range(-0.4, 0.4)],
         |v: [f64; 3]| Color::from_oklab(v[0], v[1], v[2], 1.0), |v: [f64; 3]| ok2rgb(v[0], v[1], v[2]));
    run!("hsv", |r: &mut R| [r.wide(360.0), r.u(), r.u()],
         |v: [f64; 3]| Color::from_hsva(v[0], v[1], v[2], 1.0), |v: [f64; 3]| hsv2rgb(v[0], v[1], v[2]));
    run!("hsl-in", |r: &mut R| [r.wide(360.0), r.u(), r.u()],
         |v: [f64; 3]| Color::from_hsla(v[0], v[1], v[2], 1.0), |v: [f64; 3]| hsl2rgb(v[0], v[1], v[2]));
    run!("hsl-L-out", |r: &mut R| [r.wide(360.0), r.u(), r.wide(1.0)],
         |v: [f64; 3]| Color::from_hsla(v[0], v[1], v[2], 1.0), |v: [f64; 3]| hsl2rgb(v[0], v[1], v[2]));
    run!("hsl-S-gt1", |r: &mut R| [r.wide(360.0), r.range(1.0, 3.0), r.u()],
         |v: [f64; 3]| Color::from_hsla(v[0], v[1], v[2], 1.0), |v: [f64; 3]| hsl2rgb(v[0], v[1], v[2]));
    run!("hsl-S-neg", |r: &mut R| [r.wide(360.0), r.range(-3.0, 0.0), r.u()],
         |v: [f64; 3]| Color::from_hsla(v[0], v[1], v[2], 1.0), |v: [f64; 3]| hsl2rgb(v[0], v[1], v[2]));
    run!("rgbf", |r: &mut R| [r.wide(1.0), r.wide(1.0), r.wide(1.0)],
         |v: [f64; 3]| Color::from_rgba_float(v[0], v[1], v[2], 1.0), |v: [f64; 3]| [q(v[0]), q(v[1]), q(v[2])]);

    // grids of "nice" decimal inputs, where exact ties happen
    let mut st = Stat { n: 0, bad: 0, bad_far: 0, shown: 0 };
    for hi in 0..=72 {
        for si in 0..=100 {
            for vi in 0..=100 {
                let v = [hi as f64 * 5.0, si as f64 / 100.0, vi as f64 / 100.0];
                cmp("hsv-grid", &mut st, v, Color::from_hsva(v[0], v[1], v[2], 1.0), hsv2rgb(v[0], v[1], v[2]));
            }
        }
    }
    println!("hsv-grid: n={} mismatches={} (far {})", st.n, st.bad, st.bad_far);
    let mut st = Stat { n: 0, bad: 0, bad_far: 0, shown: 0 };
    for hi in 0..=72 {
        for si in 0..=100 {
            for vi in 0..=100 {
                let v = [hi as f64 * 5.0, si as f64 / 100.0, vi as f64 / 100.0];
                cmp("hsl-grid", &mut st, v, Color::from_hsla(v[0], v[1], v[2], 1.0), hsl2rgb(v[0], v[1], v[2]));
            }
        }
    }
    println!("hsl-grid: n={} mismatches={} (far {})", st.n, st.bad, st.bad_far);
}

#[test]
fn specials() {
    let show = |n: &str, c: Color| {
        let o = c.to_rgba();
        println!("{:40} -> ({}, {}, {})", n, o.r, o.g, o.b);
    };
    show("hsl(30, 2, .25)", Color::from_hsla(30.0, 2.0, 0.25, 1.0));
    show("hsl(0, -1, .5)", Color::from_hsla(0.0, -1.0, 0.5, 1.0));
    show("hsl(0, 1.5, .5)", Color::from_hsla(0.0, 1.5, 0.5, 1.0));
    show("hsl(0, 1, 1.2)", Color::from_hsla(0.0, 1.0, 1.2, 1.0));
    show("hsl(-0.0, 1, .5)", Color::from_hsla(-0.0, 1.0, 0.5, 1.0));
    show("hsl(-1e-20, 1, .5)", Color::from_hsla(-1e-20, 1.0, 0.5, 1.0));
    show("hsl(360, 1, .5)", Color::from_hsla(360.0, 1.0, 0.5, 1.0));
    show("hsl(720, 1, .5)", Color::from_hsla(720.0, 1.0, 0.5, 1.0));
    show("hsl(359.99999999999994, 1, .5)", Color::from_hsla(359.99999999999994, 1.0, 0.5, 1.0));
    show("hsv(0,1e-17,1)", Color::from_hsva(0.0, 1e-17, 1.0, 1.0));
    show("hsv(0,1,5e-324)", Color::from_hsva(0.0, 1.0, 5e-324, 1.0));
    show("hsv(120,1,1)", Color::from_hsva(120.0, 1.0, 1.0, 1.0));
    show("hsv(0,0.5,0.1)", Color::from_hsva(0.0, 0.5, 0.1, 1.0));
    show("xyz(-0,-0,-0)", Color::from_xyz(-0.0, -0.0, -0.0, 1.0));
    show("xyz(1e6,1e6,1e6)", Color::from_xyz(1e6, 1e6, 1e6, 1.0));
    show("xyz(-1e6,1e6,-1e6)", Color::from_xyz(-1e6, 1e6, -1e6, 1.0));
    show("lab(1e6,0,0)", Color::from_lab(1e6, 0.0, 0.0, 1.0));
    show("lab(-1e6,1e6,-1e6)", Color::from_lab(-1e6, 1e6, -1e6, 1.0));
    show("lab(50,1e6,0)", Color::from_lab(50.0, 1e6, 0.0, 1.0));
    show("lch(50,-50,40)", Color::from_lch(50.0, -50.0, 40.0, 1.0));
    show("lch(50,50,220)", Color::from_lch(50.0, 50.0, 220.0, 1.0));
    show("lch(50,50,-1e6)", Color::from_lch(50.0, 50.0, -1e6, 1.0));
    show("oklab(1e6,1e6,-1e6)", Color::from_oklab(1e6, 1e6, -1e6, 1.0));
    show("oklab(-1,0,0)", Color::from_oklab(-1.0, 0.0, 0.0, 1.0));
    show("rgbf(0.5,0.5,0.5)", Color::from_rgb_float(0.5, 0.5, 0.5));
    show("rgbf(-0,1e6,-1e6)", Color::from_rgb_float(-0.0, 1e6, -1e6));
    show("rgbf(.5/255, 1.5/255, 2.5/255)", Color::from_rgb_float(0.5 / 255.0, 1.5 / 255.0, 2.5 / 255.0));
    let c = Color::from_hsla(360.0, 1.0, 0.5, 1.0);
    println!("to_hsla of hsl(360,..): {:?}", c.to_hsla());
}
