use pastel::*;

fn lin(c: f64) -> f64 {
    if c <= 0.04045 {
        c / 12.92
    } else {
        ((c + 0.055) / 1.055).powf(2.4)
    }
}
fn labf(t: f64) -> f64 {
    let d: f64 = 6.0 / 29.0;
    if t > d * d * d {
        t.cbrt()
    } else {
        t / (3.0 * d * d) + 4.0 / 29.0
    }
}

struct Worst {
    name: &'static str,
    err: f64,
    at: (u8, u8, u8),
    got: f64,
    want: f64,
}

fn upd(w: &mut Vec<Worst>, name: &'static str, got: f64, want: f64, at: (u8, u8, u8)) {
    let e = if got.is_nan() || want.is_nan() {
        f64::INFINITY
    } else {
        (got - want).abs()
    };
    for x in w.iter_mut() {
        if x.name == name {
            if e > x.err {
                x.err = e;
                x.at = at;
                x.got = got;
                x.want = want;
            }
            return;
        }
    }
    w.push(Worst {
        name,
        err: e,
        at,
        got,
        want,
    });
}

#[test]
fn forward_all() {
    let mut w: Vec<Worst> = vec![];
    let mut rt_fail = [0u64; 8];
    let mut rt_first: [Option<(u8, u8, u8)>; 8] = [None; 8];
    for r in 0..=255u8 {
        for g in 0..=255u8 {
            for b in 0..=255u8 {
                let at = (r, g, b);
                let c = Color::from_rgb(r, g, b);
                let (rf, gf, bf) = (r as f64 / 255.0, g as f64 / 255.0, b as f64 / 255.0);
                let (rl, gl, bl) = (lin(rf), lin(gf), lin(bf));
                let x = 0.4124 * rl + 0.3576 * gl + 0.1805 * bl;
                let y = 0.2126 * rl + 0.7152 * gl + 0.0722 * bl;
                let z = 0.0193 * rl + 0.1192 * gl + 0.9505 * bl;
                let p = c.to_xyz();
                upd(&mut w, "xyz.x", p.x, x, at);
                upd(&mut w, "xyz.y", p.y, y, at);
                upd(&mut w, "xyz.z", p.z, z, at);
                let p = c.to_lms();
                upd(&mut w, "lms.l", p.l, 0.38971 * x + 0.68898 * y - 0.07868 * z, at);
                upd(&mut w, "lms.m", p.m, -0.22981 * x + 1.18340 * y + 0.04641 * z, at);
                upd(&mut w, "lms.s", p.s, z, at);
                let (fx, fy, fz) = (labf(x / 0.95047), labf(y), labf(z / 1.08883));
                let (ll, la, lb) = (116.0 * fy - 16.0, 500.0 * (fx - fy), 200.0 * (fy - fz));
                let p = c.to_lab();
                upd(&mut w, "lab.l", p.l, ll, at);
                upd(&mut w, "lab.a", p.a, la, at);
                upd(&mut w, "lab.b", p.b, lb, at);
                let p = c.to_lch();
                upd(&mut w, "lch.l", p.l, ll, at);
                upd(&mut w, "lch.c", p.c, la.hypot(lb), at);
                let mut hh = lb.atan2(la).to_degrees();
                if hh < 0.0 {
                    hh += 360.0;
                }
                upd(&mut w, "lch.h", p.h, hh, at);
                let l_ = (0.8189330101 * x + 0.3618667424 * y - 0.1288597137 * z).cbrt();
                let m_ = (0.0329845436 * x + 0.9293118715 * y + 0.0361456387 * z).cbrt();
                let s_ = (0.0482003018 * x + 0.2643662691 * y + 0.6338517070 * z).cbrt();
                let p = c.to_oklab();
                upd(&mut w, "ok.l", p.l, 0.2104542553 * l_ + 0.7936177850 * m_ - 0.0040720468 * s_, at);
                upd(&mut w, "ok.a", p.a, 1.9779984951 * l_ - 2.4285922050 * m_ + 0.4505937099 * s_, at);
                upd(&mut w, "ok.b", p.b, 0.0259040371 * l_ + 0.7827717662 * m_ - 0.8086757660 * s_, at);
                // hexcone
                let mx = r.max(g).max(b) as i32;
                let mn = r.min(g).min(b) as i32;
                let ch = mx - mn;
                let (ri, gi, bi) = (r as i32, g as i32, b as i32);
                let h = if ch == 0 {
                    0.0
                } else if mx == ri {
                    let t = 60.0 * ((gi - bi) as f64 / ch as f64);
                    if t < 0.0 {
                        t + 360.0
                    } else {
                        t
                    }
                } else if mx == gi {
                    60.0 * ((bi - ri) as f64 / ch as f64 + 2.0)
                } else {
                    60.0 * ((ri - gi) as f64 / ch as f64 + 4.0)
                };
                let sum = mx + mn;
                let l = sum as f64 / 510.0;
                let s = if ch == 0 {
                    0.0
                } else {
                    ch as f64 / (if sum <= 255 { sum } else { 510 - sum }) as f64
                };
                let p = c.to_hsla();
                upd(&mut w, "hsl.h", p.h, h, at);
                upd(&mut w, "hsl.s", p.s, s, at);
                upd(&mut w, "hsl.l", p.l, l, at);
                let p = c.to_hsva();
                upd(&mut w, "hsv.h", p.h, h, at);
                upd(&mut w, "hsv.s", p.s, if mx == 0 { 0.0 } else { ch as f64 / mx as f64 }, at);
                upd(&mut w, "hsv.v", p.v, mx as f64 / 255.0, at);
                let p = c.to_cmyk();
                let k = 1.0 - mx as f64 / 255.0;
                let q = |v: i32| if mx == 0 { 0.0 } else { (mx - v) as f64 / mx as f64 };
                upd(&mut w, "cmyk.c", p.c, q(ri), at);
                upd(&mut w, "cmyk.m", p.m, q(gi), at);
                upd(&mut w, "cmyk.y", p.y, q(bi), at);
                upd(&mut w, "cmyk.k", p.k, k, at);
                upd(&mut w, "lum", c.luminance(), y, at);
                // WCAG 2.0 original threshold
                let wl = |c: f64| if c <= 0.03928 { c / 12.92 } else { ((c + 0.055) / 1.055).powf(2.4) };
                upd(&mut w, "lum(0.03928)", c.luminance(), 0.2126 * wl(rf) + 0.7152 * wl(gf) + 0.0722 * wl(bf), at);
                upd(&mut w, "bright", c.brightness(), (299.0 * rf + 587.0 * gf + 114.0 * bf) / 1000.0, at);
                let pf = c.to_rgba_float();
                upd(&mut w, "rgbf.r", pf.r, rf, at);
                upd(&mut w, "rgbf.g", pf.g, gf, at);
                upd(&mut w, "rgbf.b", pf.b, bf, at);

                // round trips
                let me = c.to_rgba();
                let mut chk = |i: usize, d: Color| {
                    let o = d.to_rgba();
                    if (o.r, o.g, o.b) != (r, g, b) {
                        rt_fail[i] += 1;
                        if rt_first[i].is_none() {
                            rt_first[i] = Some(at);
                        }
                    }
                };
                chk(0, Color::from_rgba(me.r, me.g, me.b, 1.0));
                let t = c.to_xyz();
                chk(1, Color::from_xyz(t.x, t.y, t.z, 1.0));
                let t = c.to_lms();
                chk(2, Color::from_lms(t.l, t.m, t.s, 1.0));
                let t = c.to_lab();
                chk(3, Color::from_lab(t.l, t.a, t.b, 1.0));
                let t = c.to_lch();
                chk(4, Color::from_lch(t.l, t.c, t.h, 1.0));
                let t = c.to_oklab();
                chk(5, Color::from_oklab(t.l, t.a, t.b, 1.0));
                let t = c.to_hsva();
                chk(6, Color::from_hsva(t.h, t.s, t.v, 1.0));
                let t = c.to_cmyk();
                chk(7, Color::from_cmyk(t.c, t.m, t.y, t.k));
            }
        }
    }
    for x in &w {
        println!(
            "{:14} maxerr {:.3e} at {:?} got {:.17e} want {:.17e}",
            x.name, x.err, x.at, x.got, x.want
        );
    }
    println!("roundtrip fails [rgb xyz lms lab lch oklab hsv cmyk] {:?} first {:?}", rt_fail, rt_first);
}
