use pastel::*;
struct R(u64);
impl R { fn u(&mut self)->f64{ self.0^=self.0<<13; self.0^=self.0>>7; self.0^=self.0<<17; (self.0>>11) as f64/(1u64<<53) as f64 } }
fn gam(c:f64)->f64{ if c<=0.0031308 {12.92*c} else {1.055*c.powf(1.0/2.4)-0.055} }
fn q(v:f64)->u8{ (255.0*v.max(0.0).min(1.0)).round() as u8 }
fn xyz2rgb(x:f64,y:f64,z:f64)->(u8,u8,u8){ (q(gam(3.2406*x-1.5372*y-0.4986*z)), q(gam(-0.9689*x+1.8758*y+0.0415*z)), q(gam(0.0557*x-0.2040*y+1.0570*z))) }
#[test]
fn alt() {
    let mut r=R(88172645463325252);
    let n=2_000_000u64;
    let (mut lms_bad, mut ok_exact_bad, mut ok_pub_bad)=(0u64,0u64,0u64);
    let mut first_lms=None; let mut first_ok=None;
    for _ in 0..n {
        // in-gamut points: take a random sRGB float colour, go forward with reference maths
        let c=Color::from_rgb_float(r.u(),r.u(),r.u());
        let jit=[(r.u()-0.5)*0.01,(r.u()-0.5)*0.01,(r.u()-0.5)*0.01];
        let p=c.to_lms(); let (l,m,s)=(p.l+jit[0],p.m+jit[1],p.s+jit[2]);
        let got=Color::from_lms(l,m,s,1.0).to_rgba();
        let want=xyz2rgb(1.9101968340520348*l-1.1121238927878747*m+0.20190795676749937*s,
                         0.37095008824868864*l+0.62905425739261323*m-8.0551421843585167e-06*s, s);
        if (got.r,got.g,got.b)!=want { lms_bad+=1; if first_lms.is_none(){first_lms=Some(((l,m,s),(got.r,got.g,got.b),want));} }
        let p=c.to_oklab(); let (l,a,b)=(p.l+jit[0],p.a+jit[1],p.b+jit[2]);
        let got=Color::from_oklab(l,a,b,1.0).to_rgba();
        let m1=|l_:f64,m_:f64,s_:f64| xyz2rgb(1.2270138511035211*l_-0.55779998065182224*m_+0.28125614896646783*s_,
                -0.040580178423280593*l_+1.11225686961683*m_-0.071676678665601207*s_,
                -0.076381284505706887*l_-0.42148197841801271*m_+1.5861632204407947*s_);
        let we=m1((0.99999999845051979*l+0.39633779217376786*a+0.2158037580607588*b).powi(3),
                  (1.0000000088817609*l-0.10556134232365635*a-0.063854174771705907*b).powi(3),
                  (1.0000000546724108*l-0.089484182094965753*a-1.2914855378640917*b).powi(3));
        let wp=m1((l+0.3963377774*a+0.2158037573*b).powi(3),(l-0.1055613458*a-0.0638541728*b).powi(3),(l-0.0894841775*a-1.2914855480*b).powi(3));
        if (got.r,got.g,got.b)!=we { ok_exact_bad+=1; if first_ok.is_none(){first_ok=Some(((l,a,b),(got.r,got.g,got.b),we));} }
        if (got.r,got.g,got.b)!=wp { ok_pub_bad+=1; }
    }
    println!("n={} lms vs exact-inverse: {} first {:?}", n, lms_bad, first_lms);
    println!("oklab vs exact inverses: {} first {:?}; vs Ottosson published M2^-1: {}", ok_exact_bad, first_ok, ok_pub_bad);
}
