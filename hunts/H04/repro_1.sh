#!/bin/sh
# C04 inverse clause through the CLI: hsl() with saturation 200 % at lightness 25 %.
# usage: repro_1.sh [tree]   (default /tmp/wt/H04); exits non-zero on the unmodified tree.
T=${1:-/tmp/wt/H04}
cd "$T" || exit 2
export CARGO_TARGET_DIR=${CARGO_TARGET_DIR:-$T/target}
cargo build --offline --release -q 2>/dev/null || exit 2
got=$("$CARGO_TARGET_DIR/release/pastel" format rgb 'hsl(30,200%,25%)')
want='rgb(191, 64, 0)'   # hexcone: C=1, X=.5, m=-.25 -> (.75,.25,-.25) -> clamp -> round
echo "got:  $got"; echo "want: $want"
[ "$got" = "$want" ]
