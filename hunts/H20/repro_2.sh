#!/bin/sh
# H20 / C20 finding 2.  usage: repro_2.sh /path/to/pastel     (exits 1 on the unmodified tree)
#
# Observed at `pastel colorblind deuter 0000ff` with stdout not a terminal (the documented pipeline use,
# "pastel distinct 3 | pastel colorblind deuter"): the simulated colour is serialised as
# hsl(<hue rounded to whole degrees>,..) = "hsl(238,100.0%,50.0%)", which denotes rgb(0,8,255).  The dichromat
# projection of #0000ff (and Color::simulate_colorblindness, and the tty view "Hex: #000aff") is rgb(0,10,255):
# the colour the CLI emits is 2 steps off in G.  Over all 2^24 x 3 inputs: 345336 outputs are >1 step off
# (max 2).  Alpha is likewise cut to 3 decimals (#ff000080 -> 0.502 instead of 128/255).
P=${1:-pastel}
got=$("$P" colorblind deuter 0000ff | "$P" format hex)
echo "piped output of 'colorblind deuter 0000ff' denotes $got ; projection is #000aff"
g=$(printf '%d' "0x$(echo "$got" | cut -c4-5)")
d=$((g - 10)); [ $d -lt 0 ] && d=$((-d))
[ "$d" -le 1 ] || { echo "FAIL: G channel $g is $d steps from 10"; exit 1; }
got2=$("$P" colorblind trit ff0000 | "$P" format hex)   # projection: #ff001b
b=$(printf '%d' "0x$(echo "$got2" | cut -c6-7)")
d=$((b - 27)); [ $d -lt 0 ] && d=$((-d))
[ "$d" -le 1 ] || { echo "FAIL: trit ff0000 -> $got2, B channel $b is $d steps from 27"; exit 1; }
echo ok
