// H20 / C20 finding 1.  Drop into <pastel>/tests/ and run
//   cargo test --offline --release --test repro_1
// Fails on the unmodified tree.
//
// The coefficients in Color::simulate_colorblindness are the ones published at
// https://ixora.io/projects/colorblindness/color-blindness-simulation-research/ .  They were derived there
// for the Hunt-Pointer-Estevez matrix NORMALISED TO D65 (0.4002 0.7076 -0.0808 / -0.2263 1.1653 0.0457 /
// 0 0 0.9182), chosen so that white and blue (prot, deuter) resp. white and red (trit) are fixed points.
// pastel pairs them with the EQUAL-ENERGY HPE matrix (0.38971 ...), in which D65 white is not (1,1,1), so
// the neutral axis is no longer invariant: greys and white come out tinted and almost every colour is more
// than one 8-bit step away from the published projection.
use pastel::{Color, ColorblindnessType};

type M3 = [[f64; 3]; 3];
fn mul(m: &M3, v: [f64; 3]) -> [f64; 3] {
    let r = |i: usize| m[i][0] * v[0] + m[i][1] * v[1] + m[i][2] * v[2];
    [r(0), r(1), r(2)]
}
fn inv(m: &M3) -> M3 {
    let c = |i: usize, j: usize| {
        m[(j + 1) % 3][(i + 1) % 3] * m[(j + 2) % 3][(i + 2) % 3]
            - m[(j + 1) % 3][(i + 2) % 3] * m[(j + 2) % 3][(i + 1) % 3]
    };
    let d = m[0][0] * c(0, 0) + m[0][1] * c(1, 0) + m[0][2] * c(2, 0);
    let mut r = [[0.0; 3]; 3];
    for i in 0..3 {
        for j in 0..3 {
            r[i][j] = c(i, j) / d;
        }
    }
    r
}
const RGB2XYZ: M3 = [[0.4124, 0.3576, 0.1805], [0.2126, 0.7152, 0.0722], [0.0193, 0.1192, 0.9505]];
const HPE_D65: M3 = [[0.4002, 0.7076, -0.0808], [-0.2263, 1.1653, 0.0457], [0.0, 0.0, 0.9182]];
fn lin(c: f64) -> f64 { if c <= 0.04045 { c / 12.92 } else { ((c + 0.055) / 1.055).powf(2.4) } }
fn gam(c: f64) -> f64 { if c <= 0.0031308 { 12.92 * c } else { 1.055 * c.powf(1.0 / 2.4) - 0.055 } }
fn q(c: f64) -> i32 { (255.0 * c).max(0.0).min(255.0).round() as i32 }

/// the published projection: linear RGB -> LMS (HPE, D65) -> replace missing cone -> back -> clip
fn published(ty: usize, rgb: [u8; 3]) -> [i32; 3] {
    let l = [lin(rgb[0] as f64 / 255.0), lin(rgb[1] as f64 / 255.0), lin(rgb[2] as f64 / 255.0)];
    let [l_, m_, s_] = mul(&HPE_D65, mul(&RGB2XYZ, l));
    let p = match ty {
        0 => [1.05118294 * m_ - 0.05116099 * s_, m_, s_],
        1 => [l_, 0.9513092 * l_ + 0.04866992 * s_, s_],
        _ => [l_, m_, -0.86744736 * l_ + 1.86727089 * m_],
    };
    let o = mul(&inv(&RGB2XYZ), mul(&inv(&HPE_D65), p));
    [q(gam(o[0])), q(gam(o[1])), q(gam(o[2]))]
}

#[test]
fn colorblind_matches_published_projection_and_keeps_neutrals() {
    let ty_of = |t: usize| match t {
        0 => ColorblindnessType::Protanopia,
        1 => ColorblindnessType::Deuteranopia,
        _ => ColorblindnessType::Tritanopia,
    };
    let mut failures = vec![];
    for rgb in [[255u8, 255, 255], [128, 128, 128], [64, 64, 64], [255, 0, 0], [0, 0, 255], [6, 253, 0]] {
        for t in 0..3 {
            let o = Color::from_rgb(rgb[0], rgb[1], rgb[2]).simulate_colorblindness(ty_of(t)).to_rgba();
            let got = [o.r as i32, o.g as i32, o.b as i32];
            let want = published(t, rgb);
            let d = (0..3).map(|i| (got[i] - want[i]).abs()).max().unwrap();
            println!("{:?} type {}: pastel {:?}  published {:?}  (max channel diff {})", rgb, t, got, want, d);
            if d > 1 {
                failures.push((rgb, t, got, want));
            }
        }
    }
    assert!(failures.is_empty(), "more than one 8-bit step from the published projection: {:?}", failures);
}
