// C05 / J05 finding 1: an angle written in turns (or gradians) that is an exact whole number of turns
// does not denote the same color as hue 0. Copy to tests/repro_1.rs; `cargo test --offline --test repro_1`
// fails on the unmodified tree.
use pastel::parser::parse_color;
use pastel::Color;

#[test]
fn whole_turns_in_turn_and_grad_units() {
    let hex = |c: Color| c.to_rgb_hex_string(true);
    // every literal below is exactly representable as f64 and is a whole number of turns
    // (1e22 = 2^22 * 5^22, 5^22 < 2^53; 400 grad = 1 turn)
    let cases = [
        ("hsl(1e22turn,100%,50%)", "hsl(0,100%,50%)"),
        ("hsl(3383097192101072turn,100%,50%)", "hsl(0,100%,50%)"),
        ("hsv(1e22turn,100%,100%)", "hsv(0,100%,100%)"),
        ("lch(50,60,1e22turn)", "lch(50,60,0)"),
        ("hsl(9604351428059290000grad,100%,50%)", "hsl(0,100%,50%)"), // = 24010878570148225 turns
    ];
    let mut failures = vec![];
    for (shifted, base) in cases {
        let (a, b) = (hex(parse_color(shifted).unwrap()), hex(parse_color(base).unwrap()));
        println!("{shifted} -> {a}   {base} -> {b}");
        if a != b {
            failures.push(shifted);
        }
    }
    // the same angle in degrees is handled exactly (3.6e24 = 360 * 1e22, exactly representable)
    assert_eq!(hex(parse_color("hsl(3.6e24,100%,50%)").unwrap()), "#ff0000");
    assert!(failures.is_empty(), "whole turns changed the color: {failures:?}");
}
