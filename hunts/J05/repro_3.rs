// C05 / carried over from H05 finding 2 (NOT repaired in this tree): the LCh formatter reports hue 360,
// outside the half-open range [0,360). Copy to tests/repro_3.rs; fails on the unmodified tree.
#[test]
fn lch_formatter_hue_is_below_360() {
    let s = pastel::Color::from_rgb(255, 0, 136).to_lch_string(pastel::Format::Spaces);
    let hue: f64 = s.trim_end_matches(')').rsplit(", ").next().unwrap().parse().unwrap();
    assert!((0.0..360.0).contains(&hue), "{s}");
}
