#!/bin/sh
# C05 / J05 finding 1 (CLI). Usage: repro_1.sh [path-to-pastel]; exits non-zero on the unmodified tree.
P=${1:-/tmp/wt/J05/target/debug/pastel}; export NO_COLOR=1; rc=0
chk() { o=$($P format hex "$1"); echo "$1 -> $o (want $2)"; [ "$o" = "$2" ] || rc=1; }
chk 'hsl(1e22turn,100%,50%)' '#ff0000'
chk 'hsl(3383097192101072turn,100%,50%)' '#ff0000'
chk 'hsv(1e22turn,100%,100%)' '#ff0000'
chk 'lch(50,60,1e22turn)' "$($P format hex 'lch(50,60,0)')"
chk 'hsl(9604351428059290000grad,100%,50%)' '#ff0000'
exit $rc
