// C05 / J05 finding 2: the public `ColorSpace::mix` of HSLA / HSVA / LCh treats a hue shifted by whole
// turns as a different color (interpolate_angle only looks one turn to either side).
// Copy to tests/repro_2.rs; `cargo test --offline --test repro_2` fails on the unmodified tree.
use pastel::colorspace::ColorSpace;
use pastel::{Fraction, HSLA, HSVA, LCh};

#[test]
fn mix_of_a_hue_shifted_by_whole_turns() {
    let half = Fraction::from(0.5);
    let hex = |c: pastel::Color| c.to_rgb_hex_string(true);

    let red = HSLA { h: 0.0, s: 1.0, l: 0.5, alpha: 1.0 };
    let a = HSLA { h: 10.0, s: 1.0, l: 0.5, alpha: 1.0 };
    let b = HSLA { h: 10.0 + 720.0, s: 1.0, l: 0.5, alpha: 1.0 };
    // both denote the same color ...
    assert_eq!(hex(a.clone().into_color()), hex(b.clone().into_color()));
    // ... but not when they are mixed with red: hue 5 (#ff1500) versus hue 185 (#00eaff)
    let (ma, mb) = (hex(a.mix(&red, half).into_color()), hex(b.mix(&red, half).into_color()));
    println!("HSLA: {ma} vs {mb}");

    let v0 = HSVA { h: 0.0, s: 1.0, v: 1.0, alpha: 1.0 };
    let va = HSVA { h: 10.0, s: 1.0, v: 1.0, alpha: 1.0 }.mix(&v0, half).into_color();
    let vb = HSVA { h: 10.0 - 720.0, s: 1.0, v: 1.0, alpha: 1.0 }.mix(&v0, half).into_color();
    println!("HSVA: {} vs {}", hex(va.clone()), hex(vb.clone()));

    let l0 = LCh { l: 50.0, c: 40.0, h: 0.0, alpha: 1.0 };
    let la = LCh { l: 50.0, c: 40.0, h: 10.0, alpha: 1.0 }.mix(&l0, half).into_color();
    let lb = LCh { l: 50.0, c: 40.0, h: 730.0, alpha: 1.0 }.mix(&l0, half).into_color();
    println!("LCh: {} vs {}", hex(la.clone()), hex(lb.clone()));

    assert_eq!(ma, mb);
    assert_eq!(hex(va), hex(vb));
    assert_eq!(hex(la), hex(lb));
}
