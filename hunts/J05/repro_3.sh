#!/bin/sh
# C05 / carried over from H05 finding 2 (CLI). Usage: repro_3.sh [path-to-pastel]; exits non-zero on the unmodified tree.
P=${1:-/tmp/wt/J05/target/debug/pastel}; export NO_COLOR=1; rc=0
o=$($P format lch '#ff0088');     echo "format lch #ff0088     -> $o"; case "$o" in *", 360)") rc=1;; esac
o=$($P format lch-hue '#fa2f8a'); echo "format lch-hue #fa2f8a -> $o"; [ "$o" = "360.00" ] && rc=1
exit $rc
