#!/bin/sh
# C19 "Colors given as arguments, on stdin one per line, or via '-' are treated identically."
# `mix`: the base color (1st positional) given as '-' is resolved only AFTER the first color to be
# mixed has been read, so '-' tokens are bound to stdin lines out of positional order.
# Fails (exit 1) on the unmodified tree.
P=${PASTEL:-/tmp/wt/J19/target/release/pastel}
want=$($P mix -f 0.9 red blue)                          # base red, color blue
got1=$(printf 'red\nblue\n' | $P mix -f 0.9 - -)         # same two colors, both via '-'
got2=$(printf 'red\nblue\ngreen\n' | $P mix -)           # base via '-', colors on stdin
want2=$($P mix red blue green)
echo "args      : $want"; echo "via - -   : $got1"
echo "args      : $want2" | tr '\n' ' '; echo; echo "- + stdin : $got2" | tr '\n' ' '; echo
[ "$want" = "$got1" ] && [ "$want2" = "$got2" ] || { echo "VIOLATION: '-' base is read after the first color"; exit 1; }
