#!/bin/sh
# C19 "an external color-picker tool ... prints garbage" / "When a color cannot be parsed the error
# names the offending text": a gdbus reply with a -inf (or -1e999) component passes gdbus_parse_color
# (Rust's f64 parser accepts "-inf"), is rewritten to 'rgb(-inf%,0%,0%)', which the nom parser then
# rejects ("-inf" is not a nom double). The error names the rewritten text, which the picker never
# printed, instead of the picker's output. Neighbour of fix a327e61. Fails (exit 1) on the unmodified tree.
P=${PASTEL:-/tmp/wt/J19/target/release/pastel}
d=$(mktemp -d); cat > $d/gdbus <<'EOS'
#!/bin/sh
if [ "$1" = introspect ]; then echo "node /org/gnome/Shell/Screenshot {"; exit 0; fi
echo "({'color': <(-inf, 0.0, 0.0)>},)"
EOS
chmod +x $d/gdbus
msg=$(PATH=$d $P color pick 2>&1 >/dev/null | grep -a 'pastel error'); rm -rf $d
echo "$msg"
case "$msg" in *"({'color': <(-inf, 0.0, 0.0)>},)"*) exit 0;; esac
echo "VIOLATION: the error does not name what the picker printed"; exit 1
