#!/bin/sh
# C19 "Colors given as arguments ... or via '-' are treated identically."
# `paint --on <bg-color>`: the background color is parsed with parse_color directly, so '-'
# (and 'pick') are not honoured there, unlike the foreground color of the same command.
# Fails (exit 1) on the unmodified tree.
P=${PASTEL:-/tmp/wt/J19/target/release/pastel}
want=$($P -f paint red --on blue text | od -c)
got=$(printf 'blue\n' | $P -f paint red --on - text 2>&1 | od -c); 
printf 'blue\n' | $P -f paint red --on - text >/dev/null 2>/tmp/j19_r2.err; rc=$?
echo "rc=$rc stderr=$(cat /tmp/j19_r2.err)"; rm -f /tmp/j19_r2.err
# the fg color accepts the same spelling:
printf 'blue\n' | $P -f paint - --on red text >/dev/null || exit 3
[ "$rc" = 0 ] && [ "$want" = "$got" ] || { echo "VIOLATION: --on - is rejected (Could not parse color '-')"; exit 1; }
