#!/bin/sh
# NOT NEW: this is H06 finding #2 (lossy `hsl(h:.0, s:.1%, l:.1%)` carrier between piped pastel
# commands); it is NOT repaired in the tree at 5d40e31 and still falsifies C06's own observation
# path `pastel set P V C | pastel format P`.
P=${PASTEL:-/tmp/wt/J06/target/release/pastel}
fail=0
check() { exp=$1; got=$2; if [ "$got" != "$exp" ]; then echo "FAIL: got $got, expected $exp"; fail=1; else echo "ok: $got"; fi; }
check 'rgb(5, 0, 84)'    "$($P set red 5 '#000054' | $P format rgb)"
check 'rgb(10, 241, 96)' "$($P set red 10 '#40f160' | $P format rgb)"
check '#fe0503'          "$($P lighten 0 '#fe0503' | $P format hex)"
check '#40f160'          "$($P complement '#40f160' | $P complement | $P format hex)"
exit $fail
