#!/bin/sh
# C06, `set` clause, quantifier "all finite values ... out-of-range values":
# a finite but very large OkLab / LCh value overflows to +-inf inside Color::from_oklab /
# from_lch -> from_xyz, the XYZ->RGB matrix forms inf - inf = NaN, and NaN is "clamped" to 255.
# The colour is then not rebuilt from the coordinates at all: every channel becomes 255 (white).
P=${PASTEL:-/tmp/wt/J06/target/release/pastel}
fail=0
check() { # expected, command...
  exp=$1; shift
  got=$("$@")
  if [ "$got" != "$exp" ]; then echo "FAIL: $* -> $got (expected $exp)"; fail=1; else echo "ok:   $* -> $got"; fi
}
# OkLab lightness far below 0: black for -1e102, must stay black
check 'hsl(0,0.0%,0.0%)'     $P set oklab-l -1e102 white
check 'hsl(0,0.0%,0.0%)'     $P set oklab-l -1e103 white
check 'hsl(0,0.0%,0.0%)'     $P set oklab-l -1e200 black
# OkLab a far above range: red for 1e100, must stay red
check 'hsl(0,100.0%,50.0%)'  $P set oklab-a 1e100 gray
check 'hsl(0,100.0%,50.0%)'  $P set oklab-a 1e200 gray
# OkLab b far below range: magenta for -1e100
check 'hsl(300,100.0%,50.0%)' $P set oklab-b -1e100 gray
check 'hsl(300,100.0%,50.0%)' $P set oklab-b -1e200 gray
# LCh chroma of blue (LCh hue 306): cyan for 1e100, must not turn white
check 'hsl(180,100.0%,50.0%)' $P set chroma 1e100 blue
check 'hsl(180,100.0%,50.0%)' $P set chroma 1e308 blue
exit $fail
