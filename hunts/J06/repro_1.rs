// C06 (`set` rebuilds the color from the coordinates of its space), library building blocks of
// SetCommand. Copy to tests/repro_1.rs and run
//   CARGO_TARGET_DIR=/tmp/wt/J06/target cargo test --offline --release --test repro_1
// A finite, very large coordinate overflows (powi(3) / powf(t, 3.0)) to +-inf, the XYZ->RGB
// matrix forms inf - inf = NaN and `clamp(0, 255, NaN)` is 255: the result is white, whatever
// the sign and direction of the coordinate.
use pastel::Color;

#[test]
fn huge_finite_coordinates_do_not_become_white() {
    let rgb = |c: Color| { let c = c.to_rgba(); (c.r, c.g, c.b) };

    // OkLab L far below 0 is black (it is for -1e102) ...
    assert_eq!(rgb(Color::from_oklab(-1e102, 0.0, 0.0, 1.0)), (0, 0, 0));
    // ... but white from -1e103 on
    assert_eq!(rgb(Color::from_oklab(-1e103, 0.0, 0.0, 1.0)), (0, 0, 0));
    assert_eq!(rgb(Color::from_oklab(-1e200, 0.0, 0.0, 1.0)), (0, 0, 0));

    // OkLab a: red for 1e100, white for 1e200
    assert_eq!(rgb(Color::from_oklab(0.6, 1e100, 0.0, 1.0)), (255, 0, 0));
    assert_eq!(rgb(Color::from_oklab(0.6, 1e200, 0.0, 1.0)), (255, 0, 0));

    // LCh chroma of blue: cyan for 1e100, white for 1e308
    let lch = Color::blue().to_lch();
    assert_eq!(rgb(Color::from_lch(lch.l, 1e100, lch.h, 1.0)), (0, 255, 255));
    assert_eq!(rgb(Color::from_lch(lch.l, 1e308, lch.h, 1.0)), (0, 255, 255));
}
