// C05 / H05 finding 2: the LCh formatter reports hue 360, outside [0,360).
// Place in tests/ of the unmodified tree: cargo test --offline --test repro_2   (fails)
use pastel::{Color, Format};

#[test]
fn lch_string_hue_is_below_360() {
    let c = Color::from_rgb(255, 0, 136); // to_lch().h = 359.7296..., c = 85.15
    let s = c.to_lch_string(Format::Spaces); // "LCh(55, 85, 360)"
    let hue: f64 = s.trim_end_matches(')').rsplit(", ").next().unwrap().parse().unwrap();
    assert!((0.0..360.0).contains(&hue), "{} reports LCh hue {}", s, hue);
}
