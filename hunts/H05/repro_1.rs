// C05 / H05 finding 1: to_oklab reports NaN for a valid, constructible colour.
// Place in tests/ of the unmodified tree: cargo test --offline --test repro_1   (fails)
use pastel::{Color, Fraction, OkLab};

#[test]
fn oklab_of_a_nearly_black_colour_is_finite() {
    let c = Color::from_hsl(0.0, 1.0, 3e-17); // hsl stored as (0, 1, 3e-17): a valid colour, #000000
    let ok = c.to_oklab();
    assert!(
        ok.l.is_finite() && ok.a.is_finite() && ok.b.is_finite(),
        "to_oklab reported a non-finite number: {:?}",
        ok
    );
}

#[test]
fn mixing_two_blacks_in_oklab_is_black() {
    let c = Color::from_hsl(0.0, 1.0, 3e-17); // #000000
    let m = c.mix::<OkLab>(&Color::black(), Fraction::from(0.5));
    assert_eq!(m.to_rgb_hex_string(true), "#000000"); // code: #ffffff (NaN -> clamp -> 255)
}
