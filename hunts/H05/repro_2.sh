#!/bin/sh
# C05 / H05 finding 2 (CLI). Usage: repro_2.sh [path-to-pastel]; exits non-zero on the unmodified tree.
P=${1:-/tmp/wt/H05/target/debug/pastel}; export NO_COLOR=1; rc=0
o=$($P format lch '#ff0088');     echo "format lch     -> $o"; case "$o" in *", 360)") rc=1;; esac
o=$($P format lch-hue '#fa2f8a'); echo "format lch-hue -> $o"; [ "$o" != "360.00" ] || rc=1
exit $rc
