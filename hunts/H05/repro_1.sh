#!/bin/sh
# C05 / H05 finding 1 (CLI). Usage: repro_1.sh [path-to-pastel]; exits non-zero on the unmodified tree.
P=${1:-/tmp/wt/H05/target/debug/pastel}; export NO_COLOR=1; rc=0
o=$($P format oklab 'hsl(0,100%,3e-15%)');                       echo "format oklab  -> $o";  case "$o" in *NaN*) rc=1;; esac
o=$($P mix -s OkLab -f 0.5 'hsl(0,100%,3e-15%)' black | $P format hex); echo "mix OkLab     -> $o (want #000000)"; [ "$o" = "#000000" ] || rc=1
o=$($P set oklab-a 0 'hsl(0,100%,3e-15%)' | $P format hex);      echo "set oklab-a 0 -> $o (want #000000)"; [ "$o" = "#000000" ] || rc=1
exit $rc
