#!/bin/sh
# C13, clause "with color off no subcommand writes an ESC byte of its own to stdout".
# `pastel --color-mode off help` (also `help paint`, `paint --help`, and the same with PASTEL_COLOR_MODE=off
# instead of the flag) on a terminal: the color mode is off by the first / third rule of the statement, yet the
# `help` subcommand writes ~400 ESC bytes (ESC[32m, ESC[33m, ESC[0m) to stdout.
P=${PASTEL:-/tmp/wt/J13/target/debug/pastel}
fail=0
for cmd in "$P --color-mode off help" "$P --color-mode off help paint" "$P --color-mode off paint --help" "$P help"; do
  n=$(env -i PATH=/usr/bin:/bin TERM=xterm PASTEL_COLOR_MODE=off script -qec "$cmd" /dev/null | tr -cd '\033' | wc -c)
  echo "ESC bytes on stdout: $n   <- $cmd   (PASTEL_COLOR_MODE=off, stdout a tty)"
  [ "$n" -eq 0 ] || fail=1
done
# control: an ordinary subcommand under the same configuration is clean
n=$(env -i PATH=/usr/bin:/bin TERM=xterm PASTEL_COLOR_MODE=off script -qec "$P --color-mode off color red" /dev/null | tr -cd '\033' | wc -c)
echo "control (color red): $n"
exit $fail
