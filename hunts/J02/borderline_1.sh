#!/bin/sh
# Borderline, NOT counted as a C02 violation: with --print-minimal-distance, `pastel distinct`
# prints a number (e.g. 171.199) instead of colors, so piping it onward is a parse error.
P=${PASTEL:-/tmp/wt/J02/target/release/pastel}
"$P" distinct 3 --print-minimal-distance | "$P" format hex
