#!/bin/sh
# C13, "PASTEL_COLOR_MODE (24bit, truecolor, 8bit, off; anything else is an error)":
# a value that is not valid UTF-8 is silently treated as unset (falls through to NO_COLOR / COLORTERM).
# Exits non-zero when the violation is present.
PASTEL=${PASTEL:-/tmp/wt/H13/target/debug/pastel}
[ -x "$PASTEL" ] || (cd /tmp/wt/H13 && CARGO_TARGET_DIR=/tmp/wt/H13/target cargo build --offline -q) || exit 2
bad=$(printf '24bit\377')
out=$(env -i PATH=/usr/bin:/bin TERM=xterm COLORTERM=truecolor PASTEL_COLOR_MODE="$bad" \
      script -qec "$PASTEL paint red hi; echo rc=\$?" /dev/null | tr -d '\r')
echo "$out" | od -c | head -4
# control: a valid-UTF-8 unknown value is an error
env -i PATH=/usr/bin:/bin TERM=xterm PASTEL_COLOR_MODE=24bitx \
      script -qec "$PASTEL paint red hi; echo rc=\$?" /dev/null | tr -d '\r' | grep -q 'rc=1' || { echo "control failed"; exit 2; }
if echo "$out" | grep -q 'rc=0'; then echo "VIOLATION: unknown PASTEL_COLOR_MODE value accepted, colour mode taken from COLORTERM"; exit 1; fi
exit 0
