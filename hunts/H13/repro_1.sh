#!/bin/sh
# C13, mode-decision clause: --color-mode 24bit (or a piped stdout) must decide the mode before
# PASTEL_COLOR_MODE is ever consulted. `distinct` consults it anyway (for its stderr brush) and dies.
# Exits non-zero when the violation is present.
PASTEL=${PASTEL:-/tmp/wt/H13/target/debug/pastel}
[ -x "$PASTEL" ] || (cd /tmp/wt/H13 && CARGO_TARGET_DIR=/tmp/wt/H13/target cargo build --offline -q) || exit 2
fail=0
# (a) under a pseudo-terminal (stdout and stderr are the pty), flag given explicitly
out=$(env -i PATH=/usr/bin:/bin TERM=xterm PASTEL_COLOR_MODE=bogus \
      script -qec "$PASTEL --color-mode 24bit distinct 2; echo rc=\$?" /dev/null | tr -d '\r')
echo "$out" | tail -2
echo "$out" | grep -q 'rc=0' || { echo "VIOLATION (a): --color-mode 24bit distinct 2 fails because of PASTEL_COLOR_MODE"; fail=1; }
# control: same configuration, `paint` honours the order
env -i PATH=/usr/bin:/bin TERM=xterm PASTEL_COLOR_MODE=bogus \
      script -qec "$PASTEL --color-mode 24bit paint red hi; echo rc=\$?" /dev/null | tr -d '\r' | grep -q 'rc=0' || { echo "control failed"; fail=2; }
# (b) stdout is a pipe (mode must be off, PASTEL_COLOR_MODE never reached), stderr is the pty
out=$(env -i PATH=/usr/bin:/bin TERM=xterm PASTEL_COLOR_MODE=bogus \
      script -qec "$PASTEL distinct 2 | cat; true" /dev/null | tr -d '\r')
echo "$out" | tail -1
echo "$out" | grep -q '^hsl(' || { echo "VIOLATION (b): piped 'distinct 2' prints no colours, errors on PASTEL_COLOR_MODE"; fail=1; }
exit $fail
