// C07 clause: "fraction 0 returns a and fraction 1 returns b exactly ... a color mixed with itself is unchanged"
// Run: cp repro_1.rs /tmp/wt/H07/tests/ && (cd /tmp/wt/H07 && CARGO_TARGET_DIR=/tmp/wt/H07/target cargo test --offline --test repro_1); rm /tmp/wt/H07/tests/repro_1.rs
use pastel::{Color, Fraction, LCh, Lab, OkLab};

#[test]
fn endpoints_and_self_mix_return_the_operand() {
    let a: Color = "hsl(326,94%,53%)".parse().unwrap(); // rgb(248, 22, 150)
    let k = Color::from_rgb(0, 0, 0);
    assert_eq!(a.to_rgba().g, 22);
    // fraction 0 returns a
    assert_eq!(a.mix::<Lab>(&k, Fraction::from(0.0)), a, "Lab f=0");
    assert_eq!(a.mix::<LCh>(&k, Fraction::from(0.0)), a, "LCh f=0");
    assert_eq!(a.mix::<OkLab>(&k, Fraction::from(0.0)), a, "OkLab f=0");
}

#[test]
fn fraction_one_returns_b() {
    let a: Color = "hsl(326,94%,53%)".parse().unwrap();
    let k = Color::from_rgb(0, 0, 0);
    assert_eq!(k.mix::<Lab>(&a, Fraction::from(1.0)), a, "Lab f=1");
    assert_eq!(k.mix::<OkLab>(&a, Fraction::from(1.0)), a, "OkLab f=1");
}

#[test]
fn self_mix_unchanged() {
    let a: Color = "hsl(326,94%,53%)".parse().unwrap();
    assert_eq!(a.mix::<Lab>(&a, Fraction::from(0.3)), a, "Lab self");
    assert_eq!(a.mix::<OkLab>(&a, Fraction::from(0.3)), a, "OkLab self");
}

#[test]
fn exact_tie_channel_even_in_rgb_hsv() {
    // hsl(90,40%,30%) has r = 76.5 exactly -> rgb(77,107,46)
    use pastel::{HSVA, RGBA};
    let b = Color::from_hsl(90.0, 0.4, 0.3);
    let a = Color::from_rgb(10, 10, 10);
    assert_eq!(a.mix::<RGBA<f64>>(&b, Fraction::from(1.0)), b, "RGB f=1");
    assert_eq!(a.mix::<HSVA>(&b, Fraction::from(1.0)), b, "HSV f=1");
}
