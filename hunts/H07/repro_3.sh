#!/bin/sh
# C07: achromatic operand adopts the other's hue; `darken 0.5 lime` prints hsl(120,100.0%,0.0%) = black.
P=${PASTEL:-/tmp/wt/H07/target/release/pastel}
got=$($P darken 0.5 lime | $P mix -s hsl -f 0.5 blue | $P format hex)
echo "mix -s hsl blue <black spelled hsl(120,100%,0%)> = $got (hue must stay 240: #000080 by coordinates, #202060 for plain black; never cyan-ish)"
case "$got" in "#000080"|"#202060") exit 0;; *) exit 1;; esac
