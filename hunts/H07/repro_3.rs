// C07 clause: "an achromatic operand adopts the hue of the other operand" (HSL space).
// Run: cp repro_3.rs /tmp/wt/H07/tests/ && (cd /tmp/wt/H07 && CARGO_TARGET_DIR=/tmp/wt/H07/target cargo test --offline --test repro_3); rm /tmp/wt/H07/tests/repro_3.rs
use pastel::{Color, Fraction, HSLA};

#[test]
fn black_adopts_the_hue_of_blue() {
    let blue = Color::from_rgb(0, 0, 255);
    let black = Color::from_rgb(0, 255, 0).darken(0.5); // hsl(120,100%,0%): black, R=G=B=0
    assert_eq!(black, Color::from_rgb(0, 0, 0));
    let m = black.mix::<HSLA>(&blue, Fraction::from(0.5)).to_hsla();
    println!("mix = hsl({}, {}, {})", m.h, m.s, m.l);
    // black has no hue: the mix must stay on blue's hue (240), not pass through cyan (180)
    assert!((m.h - 240.0).abs() < 1e-9, "hue {} (rgb {:?})", m.h, Color::from_hsl(m.h, m.s, m.l).to_rgba());
}

#[test]
fn white_adopts_the_hue_of_blue() {
    let blue = Color::from_rgb(0, 0, 255);
    let white = Color::from_rgb(255, 0, 0).lighten(0.5); // hsl(0,100%,100%): white
    assert_eq!(white, Color::from_rgb(255, 255, 255));
    let m = white.mix::<HSLA>(&blue, Fraction::from(0.5)).to_hsla();
    assert!((m.h - 240.0).abs() < 1e-9, "hue {}", m.h);
}
