// C07 clause: "fraction 1 returns b exactly" / "interpolation ... (alpha included)"; 8-bit translucent colours.
// Run: cp repro_2.rs /tmp/wt/H07/tests/ && (cd /tmp/wt/H07 && CARGO_TARGET_DIR=/tmp/wt/H07/target cargo test --offline --test repro_2); rm /tmp/wt/H07/tests/repro_2.rs
use pastel::{Color, Fraction, Lab, HSLA, RGBA};

#[test]
fn fraction_one_returns_b_including_alpha() {
    let a = Color::from_rgba(10, 20, 30, 0.92);
    let b = Color::from_rgba(200, 100, 50, 0.05);
    let m = a.mix::<RGBA<f64>>(&b, Fraction::from(1.0));
    println!("alpha of mix = {:e}, alpha of b = {:e}", m.to_rgba().alpha, b.to_rgba().alpha);
    assert_eq!(m, b, "RGB f=1"); // Color::eq compares 8-bit rgb and alpha
    assert_eq!(a.mix::<HSLA>(&b, Fraction::from(1.0)), b, "HSL f=1");
    assert_eq!(a.mix::<Lab>(&b, Fraction::from(7.0)), b, "Lab f=7 (clamped to 1)");
}
