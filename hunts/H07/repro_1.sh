#!/bin/sh
# C07 CLI clause: "F=0 gives color" (default colorspace Lab). Needs util-linux `script` for a tty (exact hex is only printed in tty mode).
P=${PASTEL:-/tmp/wt/H07/target/release/pastel}
hex() { script -qc "$1" /dev/null | sed 's/\x1b\[[0-9;]*m//g' | grep -a -o 'Hex: #[0-9a-f]*' | head -1; }
want=$(hex "$P color 'hsl(326,94%,53%)'")
got=$(hex "$P mix -f 0 black 'hsl(326,94%,53%)'")
echo "color: $want   mix -f 0 black color: $got"
[ -n "$want" ] && [ "$want" = "$got" ]
