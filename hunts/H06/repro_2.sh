#!/bin/sh
# C06 / CLI observation `pastel set P V C | pastel format P`: the non-interactive output of
# `set` (and of lighten/darken/saturate/desaturate/rotate) is `hsl(H,S%,L%)` with H rounded to a
# whole degree and S,L to 0.1 %, which cannot carry an 8-bit RGB colour. The coordinate that was
# just set, and the "otherwise unchanged" ones, come back different.
# Exits non-zero on the unmodified tree.
P="${PASTEL:-/tmp/wt/H06/target/release/pastel}"
fail=0
a=$("$P" set red 5 '#000054' | "$P" format rgb)
[ "$a" = 'rgb(5, 0, 84)' ] || { echo "FAIL: set red 5 #000054 | format rgb -> $a (expected rgb(5, 0, 84))"; fail=1; }
b=$("$P" set red 10 '#40f160' | "$P" format rgb)
[ "$b" = 'rgb(10, 241, 96)' ] || { echo "FAIL: set red 10 #40f160 | format rgb -> $b (expected rgb(10, 241, 96))"; fail=1; }
c=$("$P" set blue 3 '#fe0500' | "$P" format rgb)
[ "$c" = 'rgb(254, 5, 3)' ] || { echo "FAIL: set blue 3 #fe0500 | format rgb -> $c (expected rgb(254, 5, 3))"; fail=1; }
d=$("$P" lighten 0 '#fe0503' | "$P" format hex)
[ "$d" = '#fe0503' ] || { echo "FAIL: lighten 0 #fe0503 | format hex -> $d (expected #fe0503)"; fail=1; }
exit $fail
