#!/bin/sh
# C06: "rotate adds to the hue modulo 360 degrees, so whole turns are the identity" -
# rotate_hue computes hue + delta in f64 *before* reducing modulo 360, so the hue is absorbed
# by a large delta. 3.6e18 = 360 * 1e16 and 3.6e17 = 360 * 1e15 are exact whole turns in f64.
# Exits non-zero on the unmodified tree.
P="${PASTEL:-/tmp/wt/H06/target/release/pastel}"
fail=0
a=$("$P" rotate 3600000000000000000 'hsl(240,100%,50%)')
[ "$a" = 'hsl(240,100.0%,50.0%)' ] || { echo "FAIL: rotate 3.6e18 blue -> $a (expected hsl(240,100.0%,50.0%))"; fail=1; }
b=$("$P" rotate 360000000000000000 'hsl(240,100%,50%)')
[ "$b" = 'hsl(240,100.0%,50.0%)' ] || { echo "FAIL: rotate 3.6e17 blue -> $b (expected hsl(240,100.0%,50.0%))"; fail=1; }
exit $fail
