#!/bin/sh
# C06 / CLI: negative amounts, angles and values are rejected by the argument parser
# (allow_negative_numbers is set on the top-level command only, not on the subcommands).
# Exits non-zero on the unmodified tree.
P="${PASTEL:-/tmp/wt/H06/target/release/pastel}"
fail=0
check() { # expected, then command...
  exp="$1"; shift
  out=$("$@" 2>/dev/null); rc=$?
  if [ $rc -ne 0 ] || [ "$out" != "$exp" ]; then echo "FAIL: $* -> rc=$rc out='$out' (expected '$exp')"; fail=1; fi
}
check 'hsl(270,100.0%,50.0%)' "$P" rotate -90 red
check 'hsl(0,100.0%,40.0%)'  "$P" lighten -0.1 red
check 'hsl(0,100.0%,60.0%)'  "$P" darken -0.1 red
check 'hsl(0,90.0%,50.0%)'   "$P" saturate -0.1 red
check 'hsl(0,50.0%,50.0%)'   "$P" desaturate -0.5 'hsl(0,0%,50%)'
check 'hsl(270,100.0%,50.0%)' "$P" set hsl-hue -90 red
# lab-a = -20 is an ordinary in-range value; any successful exit would do here
"$P" set lab-a -20 red >/dev/null 2>&1 || { echo "FAIL: set lab-a -20 red -> rc=$?"; fail=1; }
exit $fail
