// Copy to tests/repro_3.rs and run:
//   CARGO_TARGET_DIR=... cargo test --offline --test repro_3
// C06: whole turns must be the identity for all finite angles ("angles of many turns").
use pastel::Color;

fn hue_dist(a: f64, b: f64) -> f64 {
    let e = (a - b).rem_euclid(360.0);
    e.min(360.0 - e)
}

#[test]
fn whole_turns_are_the_identity() {
    let blue = Color::from_hsl(240.0, 1.0, 0.5);
    for &turns in &[1e12_f64, 1e14, 1e15, 1e16] {
        let delta = 360.0 * turns; // exactly representable, (delta % 360.0) == 0.0
        assert_eq!(delta % 360.0, 0.0);
        for &c in &[&blue, &Color::from_hsl(32.0123, 0.5, 0.5)] {
            let h0 = c.to_hsla().h;
            let h1 = c.rotate_hue(delta).to_hsla().h;
            assert!(
                hue_dist(h0, h1) <= 1e-9 * 360.0,
                "rotate_hue(360*{:e}) moved the hue {} -> {} ; rgb {:?} -> {:?}",
                turns, h0, h1, c.to_rgba(), c.rotate_hue(delta).to_rgba()
            );
        }
    }
}
