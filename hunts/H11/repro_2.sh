#!/bin/sh
# Runs repro_2.rs as an integration test of the pastel tree (default /tmp/wt/H11); exits non-zero on the unmodified tree.
TREE=${1:-/tmp/wt/H11}
HERE=$(cd "$(dirname "$0")" && pwd)
cp "$HERE/repro_2.rs" "$TREE/tests/repro_2.rs" || exit 2
( cd "$TREE" && CARGO_TARGET_DIR="${CARGO_TARGET_DIR:-$TREE/target}" cargo test --offline --test repro_2 )
rc=$?
rm -f "$TREE/tests/repro_2.rs"
exit $rc
