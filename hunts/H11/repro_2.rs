// C11, clause "CIE76 ... finite ... for all Lab inputs" (quantifier: "... and beyond").
// Drop into tests/ of the pastel tree and run: cargo test --offline --test repro_2
use pastel::delta_e::cie76;
use pastel::Lab;

#[test]
fn cie76_overflows_although_the_distance_is_representable() {
    let x = Lab { l: 50.0, a: 1.0e154, b: 0.0, alpha: 1.0 };
    let y = Lab { l: 50.0, a: 0.0, b: 1.0e154, alpha: 1.0 };
    // the true distance is 1.4142e154, far below f64::MAX (1.8e308);
    // (c1.a - c2.a).powi(2) + (c1.b - c2.b).powi(2) = 2e308 overflows to inf
    let d = cie76(&x, &y);
    assert!(d.is_finite(), "cie76(x, y) = {}", d);
    assert!((d / 1.0e154 - std::f64::consts::SQRT_2).abs() < 1e-9);
}
