// C11, clause "CIEDE2000 is finite ... zero for identical inputs ... for all Lab inputs"
// (quantifier: "a, b in [-128,128] and beyond").
// Drop into tests/ of the pastel tree and run: cargo test --offline --test repro_1
use pastel::delta_e::ciede2000;
use pastel::Lab;

#[test]
fn ciede2000_is_nan_once_mean_chroma_exceeds_1_1e44() {
    let x = Lab { l: 50.0, a: 1.1e44, b: 0.0, alpha: 1.0 };
    let y = Lab { l: 50.0, a: 0.0, b: 1.1e44, alpha: 1.0 };
    // just below the threshold the value is the finite large-chroma limit
    let x0 = Lab { l: 50.0, a: 1.0e44, b: 0.0, alpha: 1.0 };
    let y0 = Lab { l: 50.0, a: 0.0, b: 1.0e44, alpha: 1.0 };
    assert!((ciede2000(&x0, &y0) - 139.07707272139416).abs() < 1e-6);
    assert_eq!(ciede2000(&x0, &x0), 0.0);
    // c_bar.powi(7) overflows to inf, inf / (inf + 25^7) = NaN
    let d_same = ciede2000(&x, &x);
    let d = ciede2000(&x, &y);
    assert_eq!(d_same, 0.0, "ciede2000(x, x) = {} for x = {:?}", d_same, x);
    assert!(d.is_finite() && d >= 0.0, "ciede2000(x, y) = {}", d);
}
