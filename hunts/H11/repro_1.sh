#!/bin/sh
# Runs repro_1.rs as an integration test of the pastel tree (default /tmp/wt/H11); exits non-zero on the unmodified tree.
TREE=${1:-/tmp/wt/H11}
HERE=$(cd "$(dirname "$0")" && pwd)
cp "$HERE/repro_1.rs" "$TREE/tests/repro_1.rs" || exit 2
( cd "$TREE" && CARGO_TARGET_DIR="${CARGO_TARGET_DIR:-$TREE/target}" cargo test --offline --test repro_1 )
rc=$?
rm -f "$TREE/tests/repro_1.rs"
exit $rc
