// C08, clause "a color scale behaves as the map from distinct positions to the color most
// recently added at each position, independent of insertion order" (observed at the Debug
// rendering of ColorScale and at Fraction::value()).
//
// Copy to tests/repro_1.rs and run `cargo test --offline --test repro_1` (dev profile, the
// default of `cargo test` / `cargo build`).  In the dev profile Fraction::from(-0.0) keeps the
// sign of the zero (clamp = max(min(1, x), 0) and f64::max(-0.0, 0.0) is allowed to return
// either zero); add_stop treats -0.0 and 0.0 as the same position (==) and keeps the position of
// the stop that was inserted FIRST, so the same set of add_stop calls in two orders gives two
// different scales.
use pastel::{Color, ColorScale, Fraction};

fn neg_zero() -> f64 {
    std::hint::black_box(-1.0) * 0.0
}

#[test]
fn fraction_of_negative_zero_is_canonical() {
    let f = Fraction::from(neg_zero());
    assert!(
        f.value().is_sign_positive(),
        "Fraction::from(-0.0).value() = {:?}",
        f.value()
    );
}

#[test]
fn scale_is_independent_of_insertion_order() {
    // the same three operations, in two orders; in both the map is {0 -> red, 1 -> blue}
    let mut a = ColorScale::empty();
    a.add_stop(Color::red(), Fraction::from(0.0))
        .add_stop(Color::red(), Fraction::from(neg_zero()))
        .add_stop(Color::blue(), Fraction::from(1.0));

    let mut b = ColorScale::empty();
    b.add_stop(Color::blue(), Fraction::from(1.0))
        .add_stop(Color::red(), Fraction::from(neg_zero()))
        .add_stop(Color::red(), Fraction::from(0.0));

    assert_eq!(format!("{:?}", a), format!("{:?}", b));
}
