#!/bin/sh
# Usage: repro_1.sh [worktree]   (default /tmp/wt/J08). Exits non-zero while the defect is present.
# Runs repro_1.rs as an integration test in the dev profile and removes it again.
WT=${1:-/tmp/wt/J08}
HERE=$(cd "$(dirname "$0")" && pwd)
cd "$WT" || exit 2
cp "$HERE/repro_1.rs" tests/repro_1.rs || exit 2
CARGO_TARGET_DIR=${CARGO_TARGET_DIR:-$WT/target} cargo test --offline --test repro_1
rc=$?
rm -f tests/repro_1.rs
exit $rc
