// put into tests/ of the project: cargo test --offline --test repro_2
use pastel::parser::parse_color;
#[test]
fn finite_angles_that_overflow_in_the_unit_conversion() {
    // float(1e308) mod 400 == 336
    assert_eq!(parse_color("hsl(1e308grad,100%,50%)"), parse_color("hsl(336grad,100%,50%)"));
    // every float >= 2^53 is a whole number of turns
    assert_eq!(parse_color("lch(50,60,1e306turn)"), parse_color("lch(50,60,0)"));
    assert_eq!(parse_color("lch(50,60,1e308grad)"), parse_color("lch(50,60,336grad)"));
}
