// put into tests/ of the project: cargo test --offline --test repro_4
use pastel::parser::parse_color;
use pastel::Color;
#[test]
fn hsv_saturation_and_value_are_clamped() {
    assert_eq!(parse_color("hsv(0,200%,100%)"), Some(Color::from_rgb(255, 0, 0))); // is black
    assert_eq!(parse_color("hsv(0,100%,200%)"), Some(Color::from_rgb(255, 0, 0))); // is white
    assert_eq!(parse_color("hsv(0,-50%,50%)"), Some(Color::from_rgb(128, 128, 128))); // is #9f9f9f
}
