#!/bin/sh
# C01 "out-of-range channels clamped" - H01's finding 1 is NOT repaired in this tree:
# From<&HSVA> still derives HSL from the raw s and v.
P=${P:-/tmp/wt/J01/target/debug/pastel}
fail=0
eq() { a=$($P format hex -- "$1"); if [ "$a" != "$2" ]; then echo "FAIL: $1 -> $a, must be $2"; fail=1; fi; }
eq "hsv(0,200%,100%)" "#ff0000"   # gives #000000
eq "hsv(0,100%,200%)" "#ff0000"   # gives #ffffff
eq "hsv(0,-50%,50%)"  "#808080"   # gives #9f9f9f
exit $fail
