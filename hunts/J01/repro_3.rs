// put into tests/ of the project: cargo test --offline --test repro_3
use pastel::parser::parse_color;
use pastel::Color;
#[test]
fn huge_lab_coordinates_clamp_to_the_gamut_not_to_white() {
    // X = 0.95*(a/500)^3, Z = 1.089*(-b/200)^3 = 17.9 X: R = 3.24X-0.50Z < 0, G = -0.97X+0.04Z < 0, B > 0
    assert_eq!(parse_color("lab(50,1e100,-1e100)"), Some(Color::from_rgb(0, 0, 255)));
    assert_eq!(parse_color("lab(50,1e106,-1e106)"), Some(Color::from_rgb(0, 0, 255))); // is white
    assert_eq!(parse_color("oklab(0.5,1e103,-1e103)"), parse_color("oklab(0.5,1e100,-1e100)"));
}
