#!/bin/sh
# C01 "angles reduced modulo a turn": the unit conversion overflows to infinity for finite
# tokens (turns*360 from 5e305 turn, grads*360 from 5e305 grad). hsl()/hsv() then store hue 0,
# lch() computes NaN coordinates and yields white.
# float(1e308) mod 400 = 336, so 1e308grad is the angle 336grad = 302.4deg;
# every float >= 2^53 is an integer, so 1e306turn is the angle 0.
P=${P:-/tmp/wt/J01/target/debug/pastel}
fail=0
eq() { a=$($P format hex -- "$1"); b=$($P format hex -- "$2"); if [ "$a" != "$b" ]; then echo "FAIL: $1 -> $a but $2 -> $b"; fail=1; fi; }
eq "hsl(1e308grad,100%,50%)" "hsl(336grad,100%,50%)"   # gives #ff0000, must be #ff00f5
eq "lch(50,60,1e306turn)"    "lch(50,60,0)"            # gives #ffffff, must be #cf4179
eq "lch(50,60,1e308grad)"    "lch(50,60,336grad)"      # gives #ffffff
exit $fail
