#!/bin/sh
# C01 "denotes exactly the color those numbers specify (out-of-range channels clamped)":
# for |a|,|b| above ~3e105 (lab/lch) or ~1e102 (oklab) the cube overflows, X and Z are both
# +inf, the XYZ->RGB rows with mixed signs give inf-inf = NaN and clamp() maps NaN to 255.
# The numbers specify R<0, G<0, B>0 (Z = 17.9 X), i.e. blue after clamping - as the code
# itself says for 1e100.
P=${P:-/tmp/wt/J01/target/debug/pastel}
fail=0
eq() { a=$($P format hex -- "$1"); b=$($P format hex -- "$2"); if [ "$a" != "$b" ]; then echo "FAIL: $1 -> $a but $2 -> $b"; fail=1; fi; }
eq "lab(50,1e106,-1e106)"   "lab(50,1e100,-1e100)"    # #ffffff vs #0000ff
eq "lch(50,1e106,315)"      "lch(50,1e100,315)"       # #ffffff vs #0000ff
eq "oklab(0.5,1e103,-1e103)" "oklab(0.5,1e100,-1e100)" # #ffffff vs #ff00ff
exit $fail
