#!/bin/sh
# C01 "angles reduced modulo a turn": 'turn' and 'grad' angles are converted to degrees
# (turns*360, grads*360/400, rounded) BEFORE the reduction, so whole turns are not the identity.
# 1000000000000001 < 2^53 and 1234567800000000000 = 400 * 3086419500000000 are exact in f64.
P=${P:-/tmp/wt/J01/target/debug/pastel}
fail=0
eq() { a=$($P format hex -- "$1"); b=$($P format hex -- "$2"); if [ "$a" != "$b" ]; then echo "FAIL: $1 -> $a but $2 -> $b"; fail=1; fi; }
eq "hsl(1000000000000001turn,100%,50%)"    "hsl(0,100%,50%)"      # gives #ff6600 (hue 24), must be #ff0000
eq "hsv(1000000000000001turn,100%,100%)"   "hsv(0,100%,100%)"
eq "hsl(1234567800000000000grad,100%,50%)" "hsl(0grad,100%,50%)"  # gives #00ff22 (hue 128), must be #ff0000
eq "lch(50,60,1000000000000001turn)"       "lch(50,60,0)"         # gives #d04651, must be #cf4179
exit $fail
