// put into tests/ of the project: cargo test --offline --test repro_1
use pastel::parser::parse_color;
#[test]
fn whole_turns_are_the_identity() {
    let red = parse_color("hsl(0,100%,50%)").unwrap();
    // 1000000000000001 < 2^53, exactly representable; an integer number of turns is hue 0
    let c = parse_color("hsl(1000000000000001turn,100%,50%)").unwrap();
    assert_eq!(c.to_hsla().h % 360.0, 0.0, "hue of 1000000000000001turn"); // is 24.0
    assert_eq!(c, red);
    // 1234567800000000000 = 400 * 3086419500000000, exactly representable
    let c = parse_color("hsl(1234567800000000000grad,100%,50%)").unwrap();
    assert_eq!(c.to_hsla().h % 360.0, 0.0, "hue of 1234567800000000000grad"); // is 128.0
    assert_eq!(c, red);
    assert_eq!(parse_color("lch(50,60,1000000000000001turn)"), parse_color("lch(50,60,0)"));
}
