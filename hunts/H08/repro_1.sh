#!/bin/sh
# C08, CLI clause "the first being c1": c1 = hsl(0,100%,25%) is #800000 (maroon);
# `pastel gradient` in Lab / LCh / OkLab prints #7f0000 as its first colour.
# Run from the project root after `cargo build --offline`. Exits non-zero on the unmodified tree.
P=${PASTEL:-${CARGO_TARGET_DIR:-target}/debug/pastel}
rc=0
want=$("$P" format hex 'hsl(0,100%,25%)')
for s in rgb hsl lab lch oklab; do
  first=$("$P" gradient -n 2 -s $s 'hsl(0,100%,25%)' black | head -n 1 | "$P" format hex)
  mid=$("$P" gradient -n 3 -s $s black 'hsl(0,100%,25%)' white | sed -n 2p | "$P" format hex)
  echo "$s: c1=$want first=$first  stop-in-the-middle=$mid"
  [ "$first" = "$want" ] && [ "$mid" = "$want" ] || rc=1
done
exit $rc
