// C08, clause "returns a stop's own color exactly at that stop's position".
// Copy to tests/repro_1.rs and run `cargo test --offline --test repro_1`. Fails on the unmodified tree.
use pastel::{Color, ColorScale, Fraction, Lab, LCh, OkLab};

fn check(name: &str, mix: &dyn Fn(&Color, &Color, Fraction) -> Color) {
    let stop = Color::from_hsl(0.0, 1.0, 0.25); // == Color::from_rgb(128, 0, 0) under Color's PartialEq
    assert_eq!(stop, Color::from_rgb(128, 0, 0));
    let mut scale = ColorScale::empty();
    scale
        .add_stop(Color::black(), Fraction::from(0.0))
        .add_stop(stop.clone(), Fraction::from(0.5))
        .add_stop(Color::white(), Fraction::from(1.0));
    let got = scale.sample(Fraction::from(0.5), mix).unwrap();
    assert_eq!(got, stop, "{}: sample at the stop's own position is not the stop's colour", name);
}

#[test]
fn lab() { check("Lab", &|a, b, f| a.mix::<Lab>(b, f)); }
#[test]
fn lch() { check("LCh", &|a, b, f| a.mix::<LCh>(b, f)); }
#[test]
fn oklab() { check("OkLab", &|a, b, f| a.mix::<OkLab>(b, f)); }
