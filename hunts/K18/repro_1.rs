// K18 repro 1 (marginal): `pastel format name` on a colour given in HSL notation (not on the 8-bit
// lattice) returns a name whose *standard* (Sharma/Wu/Dalal) CIEDE2000 distance exceeds the table
// minimum by more than 0.001.  pastel's own ciede2000 (src/delta_e.rs: get_upcase_h_bar_prime) has no
// `h1'+h2' >= 360 -> subtract 360` branch, so its distances near the hue wrap differ from the standard
// by ~1e-5; together with the 0.001 truncation in similar_colors the excess passes 0.001.
//
// Copy to tests/repro_1.rs and run:  cargo test --offline --test repro_1
use pastel::named::NAMED_COLORS;
use pastel::Lab;
use std::process::Command;

fn sharma(c1: &Lab, c2: &Lab) -> f64 {
    let (l1, a1, b1) = (c1.l, c1.a, c1.b);
    let (l2, a2, b2) = (c2.l, c2.a, c2.b);
    let cs1 = (a1 * a1 + b1 * b1).sqrt();
    let cs2 = (a2 * a2 + b2 * b2).sqrt();
    let cb = (cs1 + cs2) / 2.0;
    let g = 0.5 * (1.0 - (cb.powi(7) / (cb.powi(7) + 25f64.powi(7))).sqrt());
    let ap1 = (1.0 + g) * a1;
    let ap2 = (1.0 + g) * a2;
    let cp1 = (ap1 * ap1 + b1 * b1).sqrt();
    let cp2 = (ap2 * ap2 + b2 * b2).sqrt();
    let hp = |b: f64, a: f64| {
        if b == 0.0 && a == 0.0 { 0.0 } else {
            let mut h = b.atan2(a).to_degrees();
            if h < 0.0 { h += 360.0 }
            h
        }
    };
    let hp1 = hp(b1, ap1);
    let hp2 = hp(b2, ap2);
    let dl = l2 - l1;
    let dc = cp2 - cp1;
    let dh = if cp1 * cp2 == 0.0 { 0.0 } else {
        let d = hp2 - hp1;
        if d.abs() <= 180.0 { d } else if d > 180.0 { d - 360.0 } else { d + 360.0 }
    };
    let dhh = 2.0 * (cp1 * cp2).sqrt() * (dh.to_radians() / 2.0).sin();
    let lb = (l1 + l2) / 2.0;
    let cbp = (cp1 + cp2) / 2.0;
    let hb = if cp1 * cp2 == 0.0 { hp1 + hp2 } else if (hp1 - hp2).abs() <= 180.0 { (hp1 + hp2) / 2.0 }
        else if hp1 + hp2 < 360.0 { (hp1 + hp2 + 360.0) / 2.0 } else { (hp1 + hp2 - 360.0) / 2.0 };
    let t = 1.0 - 0.17 * (hb - 30.0).to_radians().cos() + 0.24 * (2.0 * hb).to_radians().cos()
        + 0.32 * (3.0 * hb + 6.0).to_radians().cos() - 0.20 * (4.0 * hb - 63.0).to_radians().cos();
    let dth = 30.0 * (-((hb - 275.0) / 25.0).powi(2)).exp();
    let rc = 2.0 * (cbp.powi(7) / (cbp.powi(7) + 25f64.powi(7))).sqrt();
    let sl = 1.0 + 0.015 * (lb - 50.0).powi(2) / (20.0 + (lb - 50.0).powi(2)).sqrt();
    let sc = 1.0 + 0.045 * cbp;
    let sh = 1.0 + 0.015 * cbp * t;
    let rt = -(2.0 * dth).to_radians().sin() * rc;
    ((dl / sl).powi(2) + (dc / sc).powi(2) + (dhh / sh).powi(2) + rt * (dc / sc) * (dhh / sh)).sqrt()
}


#[test]
fn format_name_is_within_0_001_of_the_ciede2000_minimum() {
    let input = "hsl(333.7757088356732,98.91146925498234%,80.1458093104121%)";
    let out = Command::new(env!("CARGO_BIN_EXE_pastel"))
        .args(["format", "name", input])
        .env("PASTEL_COLOR_MODE", "off")
        .output()
        .unwrap();
    assert!(out.status.success());
    let name = String::from_utf8(out.stdout).unwrap().trim().to_string();
    let color = pastel::parser::parse_color(input).unwrap();
    let lab = color.to_lab();
    let d = |n: &pastel::named::NamedColor| sharma(&n.color.to_lab(), &lab);
    let chosen = NAMED_COLORS.iter().find(|n| n.name == name).expect("a table name");
    let best = NAMED_COLORS
        .iter()
        .min_by(|a, b| d(a).partial_cmp(&d(b)).unwrap())
        .unwrap();
    let excess = d(chosen) - d(best);
    println!("chosen {} d={:.9}; best {} d={:.9}; excess {:.9}", chosen.name, d(chosen), best.name, d(best), excess);
    assert!(excess <= 0.001, "`format name` gave {} (CIEDE2000 {:.9}) but {} is at {:.9}: excess {:.9} > 0.001",
        chosen.name, d(chosen), best.name, d(best), excess);
}
