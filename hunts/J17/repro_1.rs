// C17 - "colors with equal keys keeping their input order".  Copy to tests/repro_1.rs and run
//   CARGO_TARGET_DIR=/tmp/wt/J17/target cargo test --offline --test repro_1
// #333333 and #033992 have exactly equal brightness (299r+587g+114b = 51000, i.e. 0.2), yet
// `sort-by brightness` swaps them: brightness() is 0.20000000000000004 resp. 0.19999999999999982 and
// key_function truncates (x*1000.0) as i32 to 200 resp. 199.
use std::process::Command;

fn run(args: &[&str]) -> Vec<String> {
    let out = Command::new(env!("CARGO_BIN_EXE_pastel")).args(args).output().unwrap();
    assert!(out.status.success());
    String::from_utf8(out.stdout).unwrap().lines().map(|l| l.replace(' ', "")).collect()
}

#[test]
fn equal_brightness_keeps_input_order() {
    assert_eq!(299 * 0x33 + 587 * 0x33 + 114 * 0x33, 299 * 0x03 + 587 * 0x39 + 114 * 0x92); // same brightness, exactly
    let expected = run(&["format", "hsl", "#333333", "#033992"]); // the input order
    let got = run(&["sort-by", "brightness", "#333333", "#033992"]);
    assert_eq!(expected, got);
}

#[test]
fn equal_brightness_unique_is_in_packed_rgb_order() {
    assert_eq!(299 * 0x06 + 587 * 0x4e + 114 * 0x1e, 299 * 0x0a + 587 * 0x44 + 114 * 0x47);
    let expected = run(&["format", "hsl", "#064e1e", "#0a4447"]); // 0x064e1e < 0x0a4447
    let got = run(&["sort-by", "brightness", "--unique", "#0a4447", "#064e1e"]);
    assert_eq!(expected, got);
}
