#!/bin/sh
# C17, clause "colors with equal keys keeping their input order (their packed-RGB order under --unique)".
# #333333 and #033992 have exactly the same brightness: (299r+587g+114b)/255000 = 51000/255000 = 0.2
# (likewise #064e1e and #0a4447).  sort-by brightness must therefore keep their input order.
# The key is truncated with `(brightness*1000.0) as i32`; brightness() returns 0.20000000000000004 for
# #333333 (key 200) but 0.19999999999999982 for #033992 (key 199), so the pair is swapped.
# Usage: repro_1.sh [path-to-pastel]   (default: build/run from the worktree /tmp/wt/J17)
P=${1:-${PASTEL:-/tmp/wt/J17/target/release/pastel}}
if [ ! -x "$P" ]; then
  (cd /tmp/wt/J17 && CARGO_TARGET_DIR=/tmp/wt/J17/target cargo build --offline --release >/dev/null 2>&1) || exit 3
fi
fail=0
exp=$("$P" format hsl '#333333' '#033992' | tr -d ' ')           # input order = expected order (equal keys)
got=$("$P" sort-by brightness '#333333' '#033992')
if [ "$exp" != "$got" ]; then echo "FAIL args: expected [$exp] got [$got]"; fail=1; fi
got=$(printf '#333333\n#033992\n' | "$P" sort-by brightness)
if [ "$exp" != "$got" ]; then echo "FAIL stdin: expected [$exp] got [$got]"; fail=1; fi
rexp=$("$P" format hsl '#033992' '#333333' | tr -d ' ')           # --reverse: exact reverse of that sequence
got=$("$P" sort-by brightness --reverse '#333333' '#033992')
if [ "$rexp" != "$got" ]; then echo "FAIL reverse: expected [$rexp] got [$got]"; fail=1; fi
# --unique: equal keys in packed-RGB order, 0x064e1e < 0x0a4447
exp=$("$P" format hsl '#064e1e' '#0a4447' | tr -d ' ')
got=$("$P" sort-by brightness --unique '#0a4447' '#064e1e')
if [ "$exp" != "$got" ]; then echo "FAIL unique: expected [$exp] got [$got]"; fail=1; fi
[ $fail -eq 0 ] && echo "ok"
exit $fail
