// C16, clause "every gray level is reachable with roughly equal frequency".
// Copy to tests/repro_1.rs and run:  cargo test --offline --test repro_1
// Fails on the unmodified tree: gray levels 0 and 255 get half the share of every other level.
use pastel::random::strategies::UniformGray;
use pastel::random::RandomizationStrategy;
use rand::{RngCore, SeedableRng};

/// Evenly spaced sweep of the 53-bit mantissa space: draw i yields the f64 i/steps.
struct Sweep {
    i: u64,
    steps: u64,
}
impl RngCore for Sweep {
    fn next_u32(&mut self) -> u32 {
        self.next_u64() as u32
    }
    fn next_u64(&mut self) -> u64 {
        // random::<f64>() is (next_u64() >> 11) * 2^-53
        let v = ((self.i as u128 * (1u128 << 53)) / self.steps as u128) as u64;
        self.i += 1;
        v << 11
    }
    fn fill_bytes(&mut self, dst: &mut [u8]) {
        for b in dst.iter_mut() {
            *b = self.next_u64() as u8;
        }
    }
}

fn level(c: &pastel::Color) -> usize {
    let q = c.to_rgba();
    assert!(q.r == q.g && q.g == q.b && q.alpha == 1.0);
    q.r as usize
}

#[test]
fn gray_levels_seeded_uniform_stream() {
    let mut rng = rand_xoshiro::Xoshiro256StarStar::seed_from_u64(16);
    let n = 4_000_000usize;
    let mut hist = [0usize; 256];
    for _ in 0..n {
        hist[level(&UniformGray.generate_with(&mut rng))] += 1;
    }
    let p = 1.0 / 256.0;
    let expect = n as f64 * p;
    let sd = (n as f64 * p * (1.0 - p)).sqrt();
    let mut bad = vec![];
    for (lvl, &k) in hist.iter().enumerate() {
        let z = (k as f64 - expect) / sd;
        if z.abs() > 12.0 {
            bad.push((lvl, k, z));
        }
    }
    assert!(
        bad.is_empty(),
        "expected {expect:.0} +- 12*{sd:.0} per gray level, outliers (level, count, z): {bad:?}"
    );
}

#[test]
fn gray_levels_even_sweep() {
    // 510 * 1000 equally spaced draws covering [0, 1): an exactly uniform stream
    let steps = 510_000u64;
    let mut rng = Sweep { i: 0, steps };
    let mut hist = [0usize; 256];
    for _ in 0..steps {
        hist[level(&UniformGray.generate_with(&mut rng))] += 1;
    }
    let (min, max) = (hist.iter().min().unwrap(), hist.iter().max().unwrap());
    assert!(
        *max as f64 <= 1.1 * *min as f64,
        "black {} white {} level 1 {} level 128 {}",
        hist[0], hist[255], hist[1], hist[128]
    );
}
