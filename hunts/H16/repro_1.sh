#!/bin/sh
# C16: `pastel random -s gray`: black and white come up half as often as any other gray level.
# Counts the printed lightness values (0.0% .. 100.0%, 1001 levels) of N colours.
# usage: repro_1.sh [path-to-pastel]   (exit 1 = violation reproduced)
P=${1:-${CARGO_TARGET_DIR:-target}/release/pastel}
[ -x "$P" ] || P=${CARGO_TARGET_DIR:-target}/debug/pastel
N=2000000
"$P" random -s gray -n $N | sort | uniq -c | awk -v n=$N '
  { cnt[$2]=$1; levels++ }
  END {
    p = 1/1001; e = n*p; sd = sqrt(n*p*(1-p)); bad = 0
    for (k in cnt) { z = (cnt[k]-e)/sd; if (z > 12 || z < -12) { printf "%s: %d of %d draws, expected %.0f, z = %.1f\n", k, cnt[k], n, e, z; bad = 1 } }
    printf "%d printed levels; 0.0%%: %d, 0.1%%: %d, 50.0%%: %d, 99.9%%: %d, 100.0%%: %d\n", levels, cnt["hsl(0,0.0%,0.0%)"], cnt["hsl(0,0.0%,0.1%)"], cnt["hsl(0,0.0%,50.0%)"], cnt["hsl(0,0.0%,99.9%)"], cnt["hsl(0,0.0%,100.0%)"]
    exit bad
  }'
