#!/bin/sh
# BORDERLINE (not a confirmed C02 violation under the strict reading):
# `pastel format rgb-float` prints rgb() text that the parser reads as 0-255 numbers.
# Exits non-zero on the unmodified tree.
P=${PASTEL:-/tmp/wt/H02/target/release/pastel}
out=$("$P" format rgb-float ff0000 | "$P" format hex)
echo "format rgb-float ff0000 | format hex -> $out (expected #ff0000)"
[ "$out" = "#ff0000" ]
