#!/bin/sh
# C01 CLI clause: a string outside the grammar is reported as 'Could not parse color'.
# "-" and "pick" are outside the grammar (parse_color rejects both) but the CLI never says so.
P=${PASTEL:-/tmp/wt/H01/target/debug/pastel}; rc=0
out=$(echo red | "$P" format hex - 2>&1); st=$?
case "$out" in *"Could not parse color"*) ;; *) echo "FAIL '-': exit $st, output: $out"; rc=1;; esac
out=$(PATH=/nonexistent "$P" format hex pick 2>&1 </dev/null | tail -1)
case "$out" in *"Could not parse color"*) ;; *) echo "FAIL 'pick': $out"; rc=1;; esac
exit $rc
