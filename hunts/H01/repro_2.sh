#!/bin/sh
# C01 "angles reduced modulo a turn": lch() does not reduce the hue, large angles give another colour
P=${PASTEL:-/tmp/wt/H01/target/debug/pastel}; rc=0
same() { a=$("$P" format hex -- "$1" 2>&1); b=$("$P" format hex -- "$2" 2>&1); [ "$a" = "$b" ] || { echo "FAIL $1 -> $a but $2 -> $b"; rc=1; }; }
same "lch(50,60,1e19)" "lch(50,60,280)"; same "lch(50,60,1e15turn)" "lch(50,60,0)"
same "lch(50,60,360000000000000000)" "lch(50,60,0)"; same "lch(50,60,4e17grad)" "lch(50,60,0)"
exit $rc
