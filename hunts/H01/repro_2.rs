// C01, clause "angles reduced modulo a turn" (lch()/cielch() notation, large angles).
// Drop into <pastel>/tests/ and run: cargo test --offline --test repro_2
use pastel::parser::parse_color;

fn hex(s: &str) -> String {
    let c = parse_color(s).unwrap_or_else(|| panic!("{s:?} was rejected"));
    let r = c.to_rgba();
    format!("#{:02x}{:02x}{:02x}", r.r, r.g, r.b)
}

#[test]
fn lch_hue_is_reduced_modulo_a_turn() {
    // the same angles in hsl() are reduced exactly (fmod), so the numbers are fine:
    assert_eq!(hex("hsl(1e19,100%,50%)"), hex("hsl(280,100%,50%)"));
    assert_eq!(hex("hsl(1e15turn,100%,50%)"), hex("hsl(0,100%,50%)"));
    // 1e19 is exactly representable and 10^19 = 280 (mod 360)
    assert_eq!(hex("lch(50,60,1e19)"), hex("lch(50,60,280)")); // code: #be5a25 vs #0077dc
    // a whole number of turns is hue 0; 3.6e17 = 360 * 1e15 exactly
    assert_eq!(hex("lch(50,60,1e15turn)"), hex("lch(50,60,0)")); // code: #b74fa7 vs #cf4179
    assert_eq!(hex("lch(50,60,360000000000000000)"), hex("lch(50,60,0)"));
    assert_eq!(hex("lch(50,60,4e17grad)"), hex("lch(50,60,0)"));
}
