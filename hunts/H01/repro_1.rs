// C01, clause "out-of-range channels clamped" (hsv()/hsva() notation).
// Drop into <pastel>/tests/ and run: cargo test --offline --test repro_1
use pastel::parser::parse_color;
use pastel::Color;

fn hex(s: &str) -> String {
    let c = parse_color(s).unwrap_or_else(|| panic!("{s:?} was rejected"));
    let r = c.to_rgba();
    format!("#{:02x}{:02x}{:02x}", r.r, r.g, r.b)
}

#[test]
fn hsv_out_of_range_saturation_and_value_are_clamped() {
    // s = 200% clamps to 100%: pure red (the code returns #000000)
    assert_eq!(hex("hsv(0,200%,100%)"), hex("hsv(0,100%,100%)"));
    assert_eq!(hex("hsv(0,200%,100%)"), "#ff0000");
    // v = 200% clamps to 100%: pure red (the code returns #ffffff)
    assert_eq!(hex("hsv(0,100%,200%)"), "#ff0000");
    // s = -50% clamps to 0%: mid gray (the code returns #9f9f9f)
    assert_eq!(hex("hsv(0,-50%,50%)"), "#808080");
    // v = 150% clamps to 100%: light green (the code returns #ffffff)
    assert_eq!(hex("hsv(120,50%,150%)"), "#80ff80");
    // same thing through the library constructor the parser calls
    assert_eq!(Color::from_hsva(0.0, 2.0, 1.0, 1.0), Color::from_rgb(255, 0, 0));
}
