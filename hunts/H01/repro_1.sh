#!/bin/sh
# C01 "out-of-range channels clamped": hsv() with s or v outside 0..100%
P=${PASTEL:-/tmp/wt/H01/target/debug/pastel}; rc=0
chk() { got=$("$P" format hex -- "$1" 2>&1); [ "$got" = "$2" ] || { echo "FAIL $1: got $got, want $2"; rc=1; }; }
chk "hsv(0,200%,100%)" "#ff0000"; chk "hsv(0,100%,200%)" "#ff0000"
chk "hsv(0,-50%,50%)" "#808080";  chk "hsv(120,50%,150%)" "#80ff80"
exit $rc
