#!/bin/sh
# C10 repro driver. Exits non-zero on the unmodified tree (the three tests in repro_1.rs fail).
# Usage: repro_1.sh [path-to-pastel-checkout]   (default /tmp/wt/H10)
WT="${1:-/tmp/wt/H10}"
HERE="$(cd "$(dirname "$0")" && pwd)"
cp "$HERE/repro_1.rs" "$WT/tests/repro_1.rs" || exit 2
(cd "$WT" && CARGO_TARGET_DIR="${CARGO_TARGET_DIR:-$WT/target}" cargo test --offline --release --test repro_1)
rc=$?
rm -f "$WT/tests/repro_1.rs"
exit $rc
