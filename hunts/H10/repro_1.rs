// C10 repro: compositing two fully transparent colours (As = Ab = 0) divides 0 by 0,
// NaN is cast to 0, and every channel of the result becomes 0.
// Usage: copy to <pastel>/tests/repro_1.rs and run
//   cargo test --offline --test repro_1
// Each test FAILS on the unmodified tree.
use pastel::Color;

fn rgb(c: &Color) -> (u8, u8, u8) {
    let x = c.to_rgba();
    (x.r, x.g, x.b)
}

#[test]
fn same_colour_over_itself_keeps_the_colour() {
    let red0 = Color::from_rgba(255, 0, 0, 0.0);
    let out = red0.composite(&red0); // source red0 over backdrop red0
    assert_eq!(out.to_rgba().alpha, 0.0); // alpha clause holds: 0 + 0*(1-0) = 0
    // "a color composited over the same color keeps that color"
    assert_eq!(rgb(&out), (255, 0, 0), "got {:?}", out.to_rgba());
}

#[test]
fn channels_stay_between_the_inputs() {
    let source = Color::from_rgba(136, 47, 93, 0.0);
    let backdrop = Color::from_rgba(191, 184, 239, 0.0);
    let o = backdrop.composite(&source).to_rgba();
    // "color channels ... always between the two inputs' channels"
    assert!((136..=191).contains(&o.r), "r = {} not in [136, 191]", o.r);
    assert!((47..=184).contains(&o.g), "g = {} not in [47, 184]", o.g);
    assert!((93..=239).contains(&o.b), "b = {} not in [93, 239]", o.b);
}

#[test]
fn parsed_transparent_colours_too() {
    // reachable from parsed input as well: any alpha <= 0 (or -0, or a negative percentage) clamps to 0
    let s: Color = "#ffffff00".parse().unwrap();
    let b: Color = "rgba(255, 255, 255, -1)".parse().unwrap();
    assert_eq!(rgb(&b.composite(&s)), (255, 255, 255));
}
