#!/bin/sh
# NOT a confirmed C09 violation (see findings.md, "Near miss"). Exits non-zero on the unmodified tree.
# `pastel to-gray X | pastel to-gray` prints a different text than `pastel to-gray X`
# (same 8-bit colour #272727, so Color equality / the statement as written still holds).
P=${PASTEL:-/tmp/wt/H09/target/release/pastel}
once=$($P to-gray 00008f | cat)
twice=$($P to-gray 00008f | $P to-gray | cat)
echo "once=$once twice=$twice"
[ "$once" = "$twice" ]
