//! `pv-harness query`: answers questions about colours through the real library, for the
//! CLI-level checks (clirun).  One request per stdin line, one answer per stdout line.
use crate::wire::{c_in, hex_str, unhex};
use pastel::parser::parse_color;
use pastel::{Color, Format};
use std::io::{BufRead, Write};

fn info(c: &Color) -> String {
    let lch = c.to_lch();
    format!(
        "ok {} {} {} {} {} {} {}",
        hex_str(&c.to_hsl_string(Format::NoSpaces)),
        c.to_u32(),
        (c.brightness() * 1000.0) as i32,
        (c.luminance() * 1000.0) as i32,
        (lch.h * 1000.0) as i32,
        (lch.c * 1000.0) as i32,
        c_in(c)
    )
}

pub fn run() {
    let stdin = std::io::stdin();
    let stdout = std::io::stdout();
    let mut out = stdout.lock();
    for line in stdin.lock().lines() {
        let line = match line {
            Ok(l) => l,
            Err(_) => break,
        };
        let toks: Vec<&str> = line.split(' ').collect();
        let ans = match toks.as_slice() {
            // info <hex utf8 of a colour string>: how the library reads and prints it
            ["info", t] => match unhex(t).and_then(|b| String::from_utf8(b).ok()) {
                Some(s) => match std::panic::catch_unwind(|| parse_color(&s)) {
                    Ok(Some(c)) => info(&c),
                    Ok(None) => "none".to_string(),
                    Err(_) => "panic".to_string(),
                },
                None => "bad".to_string(),
            },
            // nearest <hex utf8 colour string>: brute-force CIEDE2000 over the name table
            ["nearest", t] => match unhex(t).and_then(|b| String::from_utf8(b).ok()).and_then(|s| parse_color(&s)) {
                Some(c) => {
                    let mut best = f64::MAX;
                    let mut names: Vec<(String, f64)> = vec![];
                    let mut differs: Vec<(f64, f64)> = vec![];
                    // distances by the independent transcription of the Sharma-Wu-Dalal formula (sharma.rs)
                    // on the Lab coordinates, not by the library's own colour-distance function
                    let lc = c.to_lab();
                    // coordinates for the independent judge: from the published definitions (sharma::lab_of_srgb)
                    let fc = c.to_rgba_float();
                    let ic = crate::sharma::lab_of_srgb(fc.r, fc.g, fc.b);
                    for nc in pastel::named::NAMED_COLORS.iter() {
                        let ln = nc.color.to_lab();
                        let fnm = nc.color.to_rgba_float();
                        let inm = crate::sharma::lab_of_srgb(fnm.r, fnm.g, fnm.b);
                        let d = crate::sharma::ciede2000(inm, ic);
                        // does the library's own formula differ from the transcription by more than C11 allows? (a hint
                        // for the directed search of C18; pairs with exactly opposite hues excepted)
                        let dl = pastel::delta_e::ciede2000(&ln, &lc);
                        if (dl - d).abs() > 1e-3 && (crate::sharma::hue_gap(inm, ic) - 180.0).abs() > 1e-9 {
                            differs.push((d, (dl - d).abs()));
                        }
                        names.push((nc.name.to_string(), d));
                        if d < best {
                            best = d;
                        }
                    }
                    // 0.001 is the key resolution of the name lookup, another 0.001 the agreement C11 allows between the two formulas
                    let within: Vec<String> = names.iter().filter(|(_, d)| *d <= best + 0.002).map(|(n, _)| n.clone()).collect();
                    let exact: Vec<String> = pastel::named::NAMED_COLORS.iter().filter(|nc| nc.color.to_rgba() == c.to_rgba()).map(|nc| nc.name.to_string()).collect();
                    format!("ok {} {} {} {}", crate::wire::f(best), within.join(","), if exact.is_empty() { "-".to_string() } else { exact.join(",") },
                        // the risk: the largest such difference on a name that competes for the choice (within 2 units of the nearest), in 1e-6 units
                        (differs.iter().filter(|(d, _)| *d <= best + 2.0).map(|(_, e)| *e).fold(0.0, f64::max) * 1e6) as u64)
                }
                None => "none".to_string(),
            },
            // dmat <cie76|ciede2000> <hex colour string>...: the integer keys (distance x 1000 truncated
            // to i32) of rearrange_sequence between every two of the colours, row by row
            ["dmat", metric, cols @ ..] => {
                let parsed: Option<Vec<Color>> = cols.iter().map(|t| unhex(t).and_then(|b| String::from_utf8(b).ok()).and_then(|s| parse_color(&s))).collect();
                match parsed {
                    Some(cs) => {
                        let mut v = vec![];
                        for a in &cs {
                            for b in &cs {
                                let d = if *metric == "cie76" { pastel::delta_e::cie76(&a.to_lab(), &b.to_lab()) } else { pastel::delta_e::ciede2000(&a.to_lab(), &b.to_lab()) };
                                v.push(((d * 1000.0) as i32).to_string());
                            }
                        }
                        format!("ok {}", v.join(","))
                    }
                    None => "none".to_string(),
                }
            }
            // closepairs <threshold>: pairs of named colours (different RGB) closer than the threshold
            ["closepairs", thr] => {
                let thr: f64 = thr.parse().unwrap_or(2.0);
                let t = &pastel::named::NAMED_COLORS;
                let mut v: Vec<(f64, String)> = vec![];
                for i in 0..t.len() {
                    for j in (i + 1)..t.len() {
                        let (la, lb) = (t[i].color.to_lab(), t[j].color.to_lab());
                        let d = crate::sharma::ciede2000([la.l, la.a, la.b], [lb.l, lb.a, lb.b]);
                        if t[i].color.to_rgba() != t[j].color.to_rgba() && d < thr {
                            let (a, b) = (t[i].color.to_rgba(), t[j].color.to_rgba());
                            v.push((d, format!("{}:{}:{}:{}:{}:{}", a.r, a.g, a.b, b.r, b.g, b.b)));
                        }
                    }
                }
                v.sort_by(|x, y| x.0.partial_cmp(&y.0).unwrap_or(std::cmp::Ordering::Equal));
                format!("ok {}", v.iter().map(|x| x.1.clone()).collect::<Vec<_>>().join(","))
            }
            // consts: the named constructor functions of `Color` and what they return
            ["consts"] => {
                let v: Vec<(&str, Color)> = vec![
                    ("black", Color::black()), ("white", Color::white()), ("red", Color::red()), ("green", Color::green()),
                    ("blue", Color::blue()), ("yellow", Color::yellow()), ("fuchsia", Color::fuchsia()), ("aqua", Color::aqua()),
                    ("lime", Color::lime()), ("maroon", Color::maroon()), ("olive", Color::olive()), ("navy", Color::navy()),
                    ("purple", Color::purple()), ("teal", Color::teal()), ("silver", Color::silver()), ("gray", Color::gray()),
                ];
                format!("ok {}", v.iter().map(|(n, c)| format!("{}={}:{}", n, c.to_rgb_hex_string(false), c.to_rgba().alpha)).collect::<Vec<_>>().join(","))
            }
            // c01gen <n> <seed>: n strings from the C01 generators (valid notations, edited ones, noise)
            ["c01gen", n, seed] => {
                let v = crate::props::c01::sample_strings(n.parse().unwrap_or(0), seed.parse().unwrap_or(1));
                format!("ok {}", v.iter().map(|t| hex_str(t)).collect::<Vec<_>>().join(","))
            }
            // grad <space> <n> <hex colour string>...: the gradient the property describes, built
            // through the library: stops at i/(k-1), samples at j/(n-1); answers the printed lines
            ["grad", sp, n, cols @ ..] => {
                let n: usize = n.parse().unwrap_or(0);
                let parsed: Option<Vec<Color>> = cols.iter().map(|t| unhex(t).and_then(|b| String::from_utf8(b).ok()).and_then(|s| parse_color(&s))).collect();
                match parsed {
                    Some(cs) if cs.len() >= 2 && n >= 2 => {
                        let r = std::panic::catch_unwind(|| {
                            let mut sc = pastel::ColorScale::empty();
                            let k = cs.len();
                            for (i, c) in cs.iter().enumerate() {
                                sc.add_stop(c.clone(), pastel::Fraction::from(i as f64 / (k as f64 - 1.0)));
                            }
                            let mixf = |a: &Color, b: &Color, f: pastel::Fraction| -> Color {
                                match *sp {
                                    "rgb" => a.mix::<pastel::RGBA<f64>>(b, f),
                                    "hsl" => a.mix::<pastel::HSLA>(b, f),
                                    "lab" => a.mix::<pastel::Lab>(b, f),
                                    "lch" => a.mix::<pastel::LCh>(b, f),
                                    _ => a.mix::<pastel::OkLab>(b, f),
                                }
                            };
                            let mut lines = vec![];
                            for j in 0..n {
                                match sc.sample(pastel::Fraction::from(j as f64 / (n as f64 - 1.0)), &mixf) {
                                    Some(c) => lines.push(hex_str(&c.to_hsl_string(Format::NoSpaces))),
                                    None => lines.push("-".to_string()),
                                }
                            }
                            lines.join(",")
                        });
                        match r {
                            Ok(l) => format!("ok {}", l),
                            Err(_) => "panic".to_string(),
                        }
                    }
                    _ => "none".to_string(),
                }
            }
            _ => "bad".to_string(),
        };
        writeln!(out, "{}", ans).ok();
    }
}

/// Lean source of the table of the live `NAMED_COLORS`.
pub fn generated_named() -> String {
    let mut s = String::from("/- GENERATED on every run by `pv-harness gen-named` from the live `pastel::named::NAMED_COLORS`. -/\nnamespace Pastel.Generated\n\ndef namedTable : List (String × Nat × Nat × Nat) := [\n");
    let n = pastel::named::NAMED_COLORS.len();
    for (i, nc) in pastel::named::NAMED_COLORS.iter().enumerate() {
        let q = nc.color.to_rgba();
        let name: String = nc.name.chars().flat_map(|c| c.escape_default()).collect();
        s.push_str(&format!("  (\"{}\", {}, {}, {}){}\n", name, q.r, q.g, q.b, if i + 1 == n { "" } else { "," }));
    }
    s.push_str("]\n\nend Pastel.Generated\n");
    s
}
