//! Wire format of the line protocol (DESIGN.md §8).
use pastel::Color;

pub fn f(x: f64) -> String {
    format!("{:016x}", x.to_bits())
}

pub fn parse_f(s: &str) -> Option<f64> {
    if s.len() != 16 {
        return None;
    }
    u64::from_str_radix(s, 16).ok().map(f64::from_bits)
}

pub fn hex_str(s: &str) -> String {
    hex_bytes(s.as_bytes())
}

pub fn hex_bytes(b: &[u8]) -> String {
    if b.is_empty() {
        return "-".into();
    }
    let mut out = String::with_capacity(b.len() * 2);
    for x in b {
        out.push_str(&format!("{:02x}", x));
    }
    out
}

pub fn unhex(s: &str) -> Option<Vec<u8>> {
    if s == "-" {
        return Some(vec![]);
    }
    if s.len() % 2 != 0 {
        return None;
    }
    (0..s.len() / 2)
        .map(|i| u8::from_str_radix(&s[2 * i..2 * i + 2], 16).ok())
        .collect()
}

/// A colour travelling to the model: the four arguments of `from_hsla`.
pub fn c_in(c: &Color) -> String {
    let h = c.to_hsla();
    format!("{} {} {} {}", f(h.h), f(h.s), f(h.l), f(h.alpha))
}

/// One expected output field.
#[derive(Clone, Debug)]
pub enum Field {
    /// a float: NaN-ness and infinities exact, finite values to 1e-9 relative
    F(f64),
    /// an exact token (integers, bytes, hex strings, status words)
    X(String),
    /// a float compared with an absolute tolerance; exceeding it is a property violation
    /// (the model is the reference evaluation), not just a broken tie
    FA(f64, f64),
    /// an 8-bit channel: any difference breaks the tie, a difference above 1 violates the
    /// property ("within one 8-bit step of the independent evaluation")
    B1(u8),
    /// a token the comparison ignores (an index that may legitimately differ at an exact tie; a direct
    /// oracle judges it)
    Any,
}

pub fn x<T: ToString>(t: T) -> Field {
    Field::X(t.to_string())
}

/// A colour coming back: `to_hsla()` then the 8-bit channels.
pub fn c_out(c: &Color) -> Vec<Field> {
    let h = c.to_hsla();
    let r = c.to_rgba();
    vec![
        Field::F(h.h),
        Field::F(h.s),
        Field::F(h.l),
        Field::F(h.alpha),
        x(r.r),
        x(r.g),
        x(r.b),
    ]
}

pub fn ok(mut fields: Vec<Field>) -> Vec<Field> {
    let mut v = vec![x("ok")];
    v.append(&mut fields);
    v
}

pub fn fields_to_string(fs: &[Field]) -> String {
    fs.iter()
        .map(|fl| match fl {
            Field::F(v) => f(*v),
            Field::X(s) => s.clone(),
            Field::FA(v, _) => f(*v),
            Field::B1(b) => b.to_string(),
            Field::Any => "*".to_string(),
        })
        .collect::<Vec<_>>()
        .join(" ")
}

pub fn show_color(c: &Color) -> String {
    let h = c.to_hsla();
    let r = c.to_rgba();
    format!(
        "hsla({:?},{:?},{:?},{:?})=rgb({},{},{})",
        h.h, h.s, h.l, h.alpha, r.r, r.g, r.b
    )
}
