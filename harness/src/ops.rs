//! Protocol operations: each helper executes the real pastel code (under
//! `catch_unwind`), records the operation line for the model and the fields the
//! model's answer is compared with, and returns the implementation's value.
use crate::session::Session;
use crate::wire::{self, c_in, c_out, f, ok, x, Field};
use pastel::{Color, ColorblindnessType, Fraction, LCh, Lab, OkLab, HSLA, HSVA, RGBA};
use std::panic::{catch_unwind, AssertUnwindSafe};

pub fn guard<T>(g: impl FnOnce() -> T) -> Option<T> {
    catch_unwind(AssertUnwindSafe(g)).ok()
}

fn record<T>(s: &mut Session, op: String, v: &Option<T>, fields: impl FnOnce(&T) -> Vec<Field>, nontrivial: bool) {
    match v {
        Some(t) => s.op(op, ok(fields(t)), nontrivial),
        None => {
            s.fail("no-panic", "panic", op.clone(), "the implementation panicked".into());
            s.op(op, vec![x("panic")], nontrivial)
        }
    }
}

pub const SPACES9: [&str; 9] = ["hsla", "hsva", "rgbaf", "xyz", "lms", "lab", "lch", "oklab", "cmyk"];

/// `to <space> C`: returns the four coordinates.
pub fn to_space(s: &mut Session, kind: &str, c: &Color, nontrivial: bool) -> Option<[f64; 4]> {
    let v = guard(|| match kind {
        "hsla" => {
            let q = c.to_hsla();
            [q.h, q.s, q.l, q.alpha]
        }
        "hsva" => {
            let q = c.to_hsva();
            [q.h, q.s, q.v, q.alpha]
        }
        "rgbaf" => {
            let q = c.to_rgba_float();
            [q.r, q.g, q.b, q.alpha]
        }
        "xyz" => {
            let q = c.to_xyz();
            [q.x, q.y, q.z, q.alpha]
        }
        "lms" => {
            let q = c.to_lms();
            [q.l, q.m, q.s, q.alpha]
        }
        "lab" => {
            let q = c.to_lab();
            [q.l, q.a, q.b, q.alpha]
        }
        "lch" => {
            let q = c.to_lch();
            [q.l, q.c, q.h, q.alpha]
        }
        "oklab" => {
            let q = c.to_oklab();
            [q.l, q.a, q.b, q.alpha]
        }
        "cmyk" => {
            let q = c.to_cmyk();
            [q.c, q.m, q.y, q.k]
        }
        _ => unreachable!(),
    });
    record(
        s,
        format!("to {} {}", kind, c_in(c)),
        &v,
        |q| q.iter().map(|v| Field::F(*v)).collect(),
        nontrivial,
    );
    v
}

pub fn to_rgba8(s: &mut Session, c: &Color, nontrivial: bool) -> Option<(u8, u8, u8, f64)> {
    let v = guard(|| {
        let q = c.to_rgba();
        (q.r, q.g, q.b, q.alpha)
    });
    record(
        s,
        format!("to rgba8 {}", c_in(c)),
        &v,
        |q| vec![x(q.0), x(q.1), x(q.2), Field::F(q.3)],
        nontrivial,
    );
    v
}

pub fn to_u32(s: &mut Session, c: &Color, nontrivial: bool) -> Option<u32> {
    let v = guard(|| c.to_u32());
    record(s, format!("to u32 {}", c_in(c)), &v, |n| vec![x(n)], nontrivial);
    v
}

pub fn from_u32(s: &mut Session, n: u32, nontrivial: bool) -> Option<Color> {
    let v = guard(|| Color::from_u32(n));
    record(s, format!("from u32 {}", n), &v, |c| c_out(c), nontrivial);
    v
}

pub fn construct(kind: &str, a: f64, b: f64, c: f64, d: f64) -> Color {
    match kind {
        "hsla" => Color::from_hsla(a, b, c, d),
        "hsva" => Color::from_hsva(a, b, c, d),
        "rgbaf" => Color::from_rgba_float(a, b, c, d),
        "xyz" => Color::from_xyz(a, b, c, d),
        "lms" => Color::from_lms(a, b, c, d),
        "lab" => Color::from_lab(a, b, c, d),
        "lch" => Color::from_lch(a, b, c, d),
        "oklab" => Color::from_oklab(a, b, c, d),
        "cmyk" => Color::from_cmyk(a, b, c, d),
        _ => unreachable!(),
    }
}

/// `from <space> F F F F`.
pub fn from_space(s: &mut Session, kind: &str, a: f64, b: f64, c: f64, d: f64, nontrivial: bool) -> Option<Color> {
    let v = guard(|| construct(kind, a, b, c, d));
    record(
        s,
        format!("from {} {} {} {} {}", kind, f(a), f(b), f(c), f(d)),
        &v,
        |c| c_out(c),
        nontrivial,
    );
    v
}

pub fn from_rgba8(s: &mut Session, r: u8, g: u8, b: u8, a: f64, nontrivial: bool) -> Option<Color> {
    let v = guard(|| Color::from_rgba(r, g, b, a));
    record(
        s,
        format!("from rgba8 {} {} {} {}", r, g, b, f(a)),
        &v,
        |c| c_out(c),
        nontrivial,
    );
    v
}

pub fn adjust(kind: &str, c: &Color, amount: f64) -> Color {
    match kind {
        "lighten" => c.lighten(amount),
        "darken" => c.darken(amount),
        "saturate" => c.saturate(amount),
        "desaturate" => c.desaturate(amount),
        "rotate" => c.rotate_hue(amount),
        "complement" => c.complementary(),
        "togray" => c.to_gray(),
        "textcolor" => c.text_color(),
        "cb:prot" => c.simulate_colorblindness(ColorblindnessType::Protanopia),
        "cb:deuter" => c.simulate_colorblindness(ColorblindnessType::Deuteranopia),
        "cb:trit" => c.simulate_colorblindness(ColorblindnessType::Tritanopia),
        _ => unreachable!(),
    }
}

pub const ADJ_WITH_AMOUNT: [&str; 5] = ["lighten", "darken", "saturate", "desaturate", "rotate"];
pub const ADJ_UNARY: [&str; 6] = ["complement", "togray", "textcolor", "cb:prot", "cb:deuter", "cb:trit"];

/// `adj <name> C [F]`.
pub fn adj(s: &mut Session, kind: &str, c: &Color, amount: Option<f64>, nontrivial: bool) -> Option<Color> {
    let v = guard(|| adjust(kind, c, amount.unwrap_or(0.0)));
    let op = match amount {
        Some(a) => format!("adj {} {} {}", kind, c_in(c), f(a)),
        None => format!("adj {} {}", kind, c_in(c)),
    };
    record(s, op, &v, |c| c_out(c), nontrivial);
    v
}

/// `num luminance|brightness C`.
pub fn num1(s: &mut Session, kind: &str, c: &Color, nontrivial: bool) -> Option<f64> {
    let v = guard(|| match kind {
        "luminance" => c.luminance(),
        "brightness" => c.brightness(),
        _ => unreachable!(),
    });
    record(s, format!("num {} {}", kind, c_in(c)), &v, |v| vec![Field::F(*v)], nontrivial);
    v
}

/// `num contrast|cie76|ciede2000 C C`.
pub fn num2(s: &mut Session, kind: &str, c: &Color, d: &Color, nontrivial: bool) -> Option<f64> {
    let v = guard(|| match kind {
        "contrast" => c.contrast_ratio(d),
        "cie76" => c.distance_delta_e_cie76(d),
        "ciede2000" => c.distance_delta_e_ciede2000(d),
        _ => unreachable!(),
    });
    record(
        s,
        format!("num {} {} {}", kind, c_in(c), c_in(d)),
        &v,
        |v| vec![Field::F(*v)],
        nontrivial,
    );
    v
}

pub fn lab(l: f64, a: f64, b: f64) -> Lab {
    Lab { l, a, b, alpha: 1.0 }
}

/// `de cie76|ciede2000 F*6` on raw Lab triples.
pub fn de(s: &mut Session, kind: &str, p: [f64; 3], q: [f64; 3], nontrivial: bool) -> Option<f64> {
    let v = guard(|| {
        let x = lab(p[0], p[1], p[2]);
        let y = lab(q[0], q[1], q[2]);
        match kind {
            "cie76" => pastel::delta_e::cie76(&x, &y),
            "ciede2000" => pastel::delta_e::ciede2000(&x, &y),
            _ => unreachable!(),
        }
    });
    record(
        s,
        format!("de {} {} {} {} {} {} {}", kind, f(p[0]), f(p[1]), f(p[2]), f(q[0]), f(q[1]), f(q[2])),
        &v,
        |v| vec![Field::F(*v)],
        nontrivial,
    );
    v
}

pub const MIX_SPACES: [&str; 6] = ["rgb", "hsl", "hsv", "lab", "lch", "oklab"];

pub fn mix_impl(space: &str, a: &Color, b: &Color, fr: f64) -> Color {
    let fr = Fraction::from(fr);
    match space {
        "rgb" => a.mix::<RGBA<f64>>(b, fr),
        "hsl" => a.mix::<HSLA>(b, fr),
        "hsv" => a.mix::<HSVA>(b, fr),
        "lab" => a.mix::<Lab>(b, fr),
        "lch" => a.mix::<LCh>(b, fr),
        "oklab" => a.mix::<OkLab>(b, fr),
        _ => unreachable!(),
    }
}

/// `mix <space> C C F`.
pub fn mix(s: &mut Session, space: &str, a: &Color, b: &Color, fr: f64, nontrivial: bool) -> Option<Color> {
    let v = guard(|| mix_impl(space, a, b, fr));
    record(
        s,
        format!("mix {} {} {} {}", space, c_in(a), c_in(b), f(fr)),
        &v,
        |c| c_out(c),
        nontrivial,
    );
    v
}

/// `comp C(backdrop) C(source)`.
pub fn comp(s: &mut Session, backdrop: &Color, source: &Color, nontrivial: bool) -> Option<Color> {
    let v = guard(|| backdrop.composite(source));
    record(
        s,
        format!("comp {} {}", c_in(backdrop), c_in(source)),
        &v,
        |c| c_out(c),
        nontrivial,
    );
    v
}

pub fn show4(q: &[f64; 4]) -> String {
    format!("({:?}, {:?}, {:?}, {:?})", q[0], q[1], q[2], q[3])
}

pub fn _unused() {
    let _ = wire::hex_str("");
}
