//! CIEDE2000 transcribed from Sharma, Wu, Dalal (2005), "The CIEDE2000 Color-Difference Formula:
//! Implementation Notes, Supplementary Test Data, and Mathematical Observations", equations 2-22.
//! Written independently of pastel's `delta_e.rs` (angles in degrees, `atan2` based hue, the
//! standard's four-case mean hue). Used where an oracle must not lean on the code under test.

fn hue_deg(b: f64, ap: f64) -> f64 {
    if b == 0.0 && ap == 0.0 {
        0.0
    } else {
        let h = b.atan2(ap).to_degrees();
        if h < 0.0 {
            h + 360.0
        } else {
            h
        }
    }
}

/// CIE L*a*b* (D65, white 0.95047 / 1 / 1.08883) of float sRGB channels in [0,1], from the published definitions
/// (IEC 61966-2-1 transfer curve with the cut at 0.04045 and its matrix; CIE 1976 with the (6/29)^3 cut): written
/// here so that an oracle that measures distances does not take its coordinates from the code under test.
pub fn lab_of_srgb(r: f64, g: f64, b: f64) -> [f64; 3] {
    fn lin(c: f64) -> f64 {
        if c <= 0.04045 {
            c / 12.92
        } else {
            ((c + 0.055) / 1.055).powf(2.4)
        }
    }
    fn f(t: f64) -> f64 {
        let d: f64 = 6.0 / 29.0;
        if t > d * d * d {
            t.cbrt()
        } else {
            t / (3.0 * d * d) + 4.0 / 29.0
        }
    }
    let (r, g, b) = (lin(r), lin(g), lin(b));
    let x = 0.4124 * r + 0.3576 * g + 0.1805 * b;
    let y = 0.2126 * r + 0.7152 * g + 0.0722 * b;
    let z = 0.0193 * r + 0.1192 * g + 0.9505 * b;
    let (fx, fy, fz) = (f(x / 0.95047), f(y), f(z / 1.08883));
    [116.0 * fy - 16.0, 500.0 * (fx - fy), 200.0 * (fy - fz)]
}

/// |h1' - h2'| in degrees (0 when either chroma' vanishes): the quantity whose value 180 is the standard's
/// discontinuity.
pub fn hue_gap(lab1: [f64; 3], lab2: [f64; 3]) -> f64 {
    let c1 = (lab1[1] * lab1[1] + lab1[2] * lab1[2]).sqrt();
    let c2 = (lab2[1] * lab2[1] + lab2[2] * lab2[2]).sqrt();
    let cbar7 = ((c1 + c2) / 2.0).powi(7);
    let g = 0.5 * (1.0 - (cbar7 / (cbar7 + 25f64.powi(7))).sqrt());
    let (a1p, a2p) = ((1.0 + g) * lab1[1], (1.0 + g) * lab2[1]);
    let c1p = (a1p * a1p + lab1[2] * lab1[2]).sqrt();
    let c2p = (a2p * a2p + lab2[2] * lab2[2]).sqrt();
    if c1p * c2p == 0.0 {
        0.0
    } else {
        (hue_deg(lab1[2], a1p) - hue_deg(lab2[2], a2p)).abs()
    }
}

pub fn ciede2000(lab1: [f64; 3], lab2: [f64; 3]) -> f64 {
    let (l1, a1, b1) = (lab1[0], lab1[1], lab1[2]);
    let (l2, a2, b2) = (lab2[0], lab2[1], lab2[2]);
    // (2)-(7)
    let c1 = (a1 * a1 + b1 * b1).sqrt();
    let c2 = (a2 * a2 + b2 * b2).sqrt();
    let cbar = (c1 + c2) / 2.0;
    let cbar7 = cbar.powi(7);
    let g = 0.5 * (1.0 - (cbar7 / (cbar7 + 25f64.powi(7))).sqrt());
    let a1p = (1.0 + g) * a1;
    let a2p = (1.0 + g) * a2;
    let c1p = (a1p * a1p + b1 * b1).sqrt();
    let c2p = (a2p * a2p + b2 * b2).sqrt();
    let h1p = hue_deg(b1, a1p);
    let h2p = hue_deg(b2, a2p);
    // (8)-(11)
    let dl = l2 - l1;
    let dc = c2p - c1p;
    let dh_small = if c1p * c2p == 0.0 {
        0.0
    } else {
        let d = h2p - h1p;
        if d.abs() <= 180.0 {
            d
        } else if d > 180.0 {
            d - 360.0
        } else {
            d + 360.0
        }
    };
    let dh = 2.0 * (c1p * c2p).sqrt() * (dh_small / 2.0).to_radians().sin();
    // (12)-(16)
    let lbar = (l1 + l2) / 2.0;
    let cbarp = (c1p + c2p) / 2.0;
    let hbarp = if c1p * c2p == 0.0 {
        h1p + h2p
    } else if (h1p - h2p).abs() <= 180.0 {
        (h1p + h2p) / 2.0
    } else if h1p + h2p < 360.0 {
        (h1p + h2p + 360.0) / 2.0
    } else {
        (h1p + h2p - 360.0) / 2.0
    };
    let t = 1.0 - 0.17 * (hbarp - 30.0).to_radians().cos() + 0.24 * (2.0 * hbarp).to_radians().cos() + 0.32 * (3.0 * hbarp + 6.0).to_radians().cos()
        - 0.20 * (4.0 * hbarp - 63.0).to_radians().cos();
    // (17)-(22)
    let dtheta = 30.0 * (-((hbarp - 275.0) / 25.0).powi(2)).exp();
    let cbarp7 = cbarp.powi(7);
    let rc = 2.0 * (cbarp7 / (cbarp7 + 25f64.powi(7))).sqrt();
    let sl = 1.0 + 0.015 * (lbar - 50.0).powi(2) / (20.0 + (lbar - 50.0).powi(2)).sqrt();
    let sc = 1.0 + 0.045 * cbarp;
    let sh = 1.0 + 0.015 * cbarp * t;
    let rt = -(2.0 * dtheta).to_radians().sin() * rc;
    let (tl, tc, th) = (dl / sl, dc / sc, dh / sh);
    (tl * tl + tc * tc + th * th + rt * tc * th).sqrt()
}

#[cfg(test)]
mod tests {
    #[test]
    fn sharma_pairs() {
        let pairs = [
            ([50.0, 2.6772, -79.7751], [50.0, 0.0, -82.7485], 2.0425),
            ([50.0, 3.1571, -77.2803], [50.0, 0.0, -82.7485], 2.8615),
            ([50.0, -1.3802, -84.2814], [50.0, 0.0, -82.7485], 1.0000),
            ([50.0, 2.5, 0.0], [50.0, 0.0, -2.5], 4.3065),
            ([50.0, 2.5, 0.0], [73.0, 25.0, -18.0], 27.1492),
            ([60.2574, -34.0099, 36.2677], [60.4626, -34.1751, 39.4387], 1.2644),
            ([2.0776, 0.0795, -1.1350], [0.9033, -0.0636, -0.5514], 0.9082),
        ];
        for (a, b, want) in pairs {
            assert!((super::ciede2000(a, b) - want).abs() < 1e-4, "{:?} {:?}", a, b);
        }
    }
}
