//! C10 — alpha is clamped, preserved by transformations and composited correctly.
use crate::gen::{self, Rng};
use crate::ops::{self, ADJ_UNARY, ADJ_WITH_AMOUNT};
use crate::session::Session;
use crate::wire::show_color;
use crate::Ctx;
use pastel::{Color, Format};

fn between(v: u8, a: u8, b: u8) -> bool {
    v >= a.min(b) && v <= a.max(b)
}

fn alpha_gen(rng: &mut Rng) -> f64 {
    match rng.below(8) {
        0 => 0.0,
        1 => 1.0,
        2 => 1e-9,
        3 => 1.0 - 1e-9,
        4 => rng.u8() as f64 / 255.0,
        5 => 1.0 - 10f64.powf(rng.range(-4.0, -1.0)), // just below 1: where leaving alpha out starts to matter
        _ => rng.unit(),
    }
}

pub fn run(s: &mut Session, ctx: &Ctx) {
    let mut rng = Rng::new(ctx.seed);
    let n = if ctx.thorough { 400_000 } else { 20_000 };

    // ---- alpha is clamped by every constructor ----
    for &a in &gen::boundary_floats() {
        for kind in ["hsla", "hsva", "rgbaf", "xyz", "lms", "lab", "lch", "oklab"] {
            if let Some(c) = ops::from_space(s, kind, 0.3, 0.4, 0.5, a, true) {
                let got = c.to_rgba().alpha;
                let want = if a.is_nan() { got } else { a.max(0.0).min(1.0) };
                s.check(got >= 0.0 && got <= 1.0 && got == want, "alpha-clamped", &format!("Color::from_{}", kind), || format!("from_{}(0.3,0.4,0.5,{:?})", kind, a), || format!("alpha {:?}", got));
            }
        }
        if let Some(c) = ops::from_rgba8(s, 1, 2, 3, a, true) {
            let got = c.to_rgba().alpha;
            s.check(got >= 0.0 && got <= 1.0, "alpha-clamped", "Color::from_rgba", || format!("from_rgba(1,2,3,{:?})", a), || format!("alpha {:?}", got));
        }
    }

    // ---- unary transformations carry alpha unchanged; printed iff != 1 ----
    for i in 0..n {
        let base = gen::color(&mut rng);
        let h = base.to_hsla();
        let c = Color::from_hsla(h.h, h.s, h.l, alpha_gen(&mut rng));
        let a0 = c.to_rgba().alpha;
        let x = rng.range(-1.0, 1.0);
        let kind = if i % 2 == 0 { ADJ_WITH_AMOUNT[(i / 2) % 5] } else { ADJ_UNARY[(i / 2) % 6] };
        if kind == "textcolor" {
            continue; // text_color returns opaque black/white by definition
        }
        // amounts: mostly ordinary; one in eight is huge or not finite (C10's "every transformation" does not
        // exclude them, and a guard for such amounts is a separate code path)
        let odd = [f64::INFINITY, f64::NEG_INFINITY, f64::NAN, 1e300, -1e300, f64::MAX, 0.0, -0.0];
        let amount = if ADJ_WITH_AMOUNT.contains(&kind) {
            Some(if i % 8 == 2 { odd[(i / 8) % odd.len()] } else if kind == "rotate" { x * 720.0 } else { x })
        } else {
            None
        };
        if let Some(r) = ops::adj(s, kind, &c, amount, a0 != 1.0) {
            let a1 = r.to_rgba().alpha;
            s.check(a1 == a0, "alpha-preserved", &format!("Color::{}", match kind {
                "rotate" => "rotate_hue",
                "togray" => "to_gray",
                "complement" => "complementary",
                k if k.starts_with("cb:") => "simulate_colorblindness",
                k => k,
            }), || format!("{}.{}({:?})", show_color(&c), kind, amount), || format!("alpha {:?} -> {:?}", a0, a1));
        }
        // printed only when it differs from 1
        let strings = [
            ("hex", c.to_rgb_hex_string(true)),
            ("rgb", c.to_rgb_string(Format::Spaces)),
            ("hsl", c.to_hsl_string(Format::NoSpaces)),
            ("hsv", c.to_hsv_string(Format::Spaces)),
            ("lab", c.to_lab_string(Format::Spaces)),
            ("lch", c.to_lch_string(Format::NoSpaces)),
            ("oklab", c.to_oklab_string(Format::Spaces)),
        ];
        s.count_case("", a0 != 1.0);
        for (name, st) in strings.iter() {
            let has_alpha = if *name == "hex" { st.len() == 9 } else { st.matches(',').count() == 3 };
            // printed only when it differs from 1 (C10); when it is left out, the alpha read back is 1, which
            // must reproduce the alpha to the printed precision (C02: three decimals, or 1/255 steps in hex)
            if a0 == 1.0 {
                s.check(!has_alpha, "alpha-printed-only-when-not-1", &format!("to_{}_string", name), || format!("{} alpha {:?}", show_color(&c), a0), || st.clone());
            } else if !has_alpha {
                let tol = if *name == "hex" { 0.5 / 255.0 } else { 0.0005 };
                s.check((1.0 - a0).abs() <= tol + 1e-12, "alpha-left-out-only-when-it-prints-as-1", &format!("to_{}_string", name), || format!("{} alpha {:?}", show_color(&c), a0), || st.clone());
            }
        }
    }

    // ---- compositing ----
    for i in 0..n {
        let (r1, g1, b1) = gen::rgb8(&mut rng);
        let bd = Color::from_rgba(r1, g1, b1, if i % 16 == 0 { 0.0 } else { alpha_gen(&mut rng) });
        let src = match i % 5 {
            0 => Color::from_rgba(r1, g1, b1, if i % 16 == 0 { 0.0 } else { alpha_gen(&mut rng) }), // same colour
            1 => {
                let (r, g, b) = gen::rgb8(&mut rng);
                Color::from_rgba(r, g, b, 1.0) // opaque source
            }
            2 => {
                let (r, g, b) = gen::rgb8(&mut rng);
                Color::from_rgba(r, g, b, 0.0) // transparent source
            }
            _ => {
                let (r, g, b) = gen::rgb8(&mut rng);
                Color::from_rgba(r, g, b, alpha_gen(&mut rng))
            }
        };
        let inp = || format!("{} over {}", show_color(&src), show_color(&bd));
        let out = match ops::comp(s, &bd, &src, true) {
            Some(o) => o,
            None => continue,
        };
        let (b, sc, o) = (bd.to_rgba(), src.to_rgba(), out.to_rgba());
        let ao = sc.alpha + b.alpha * (1.0 - sc.alpha);
        s.check((o.alpha - ao).abs() <= 1e-12, "composite-alpha", "Color::composite", inp, || format!("alpha {:?}, expected {:?}", o.alpha, ao));
        if ao == 0.0 {
            // both fully transparent: no average is defined, but the result still lies between the
            // inputs, and the same colour stays that colour
            for (name, cs, cb, co) in [("r", sc.r, b.r, o.r), ("g", sc.g, b.g, o.g), ("b", sc.b, b.b, o.b)] {
                s.check(between(co, cs, cb), "composite-between", "Color::composite", inp, || format!("channel {} = {} not between {} and {}", name, co, cs, cb));
            }
        }
        if ao > 0.0 {
            for (name, cs, cb, co) in [("r", sc.r, b.r, o.r), ("g", sc.g, b.g, o.g), ("b", sc.b, b.b, o.b)] {
                let avg = (cs as f64 * sc.alpha + cb as f64 * b.alpha * (1.0 - sc.alpha)) / ao;
                s.check((co as f64 - avg).abs() <= 1.0 + 1e-9, "composite-weighted-average", "Color::composite", inp, || format!("channel {} = {}, weighted average {:?}", name, co, avg));
                s.check(between(co, cs, cb), "composite-between", "Color::composite", inp, || format!("channel {} = {} not between {} and {}", name, co, cs, cb));
            }
            if sc.alpha == 1.0 {
                s.check((o.r, o.g, o.b) == (sc.r, sc.g, sc.b), "composite-opaque-source-replaces", "Color::composite", inp, || format!("{:?}", o));
            }
            if sc.alpha == 0.0 && b.alpha > 0.0 {
                s.check((o.r, o.g, o.b) == (b.r, b.g, b.b), "composite-transparent-source-keeps-backdrop", "Color::composite", inp, || format!("{:?}", o));
            }
            if (sc.r, sc.g, sc.b) == (b.r, b.g, b.b) {
                s.check((o.r, o.g, o.b) == (b.r, b.g, b.b), "composite-same-colour-kept", "Color::composite", inp, || format!("{:?}", o));
            }
        }
    }
    // ---- alpha is interpolated linearly by mixing (all six spaces; also the same RGB with two alphas,
    // where nothing but alpha can move) ----
    for i in 0..(n / 10) {
        let a = gen::color8(&mut rng);
        let q = a.to_rgba();
        let (a1, a2) = (alpha_gen(&mut rng), alpha_gen(&mut rng));
        let x = Color::from_rgba(q.r, q.g, q.b, a1);
        let y = if i % 3 == 0 {
            Color::from_rgba(q.r, q.g, q.b, a2)
        } else {
            let p = gen::color8(&mut rng).to_rgba();
            Color::from_rgba(p.r, p.g, p.b, a2)
        };
        let fr = match i % 5 {
            0 => 0.5,
            1 => 0.0,
            2 => 1.0,
            _ => rng.unit(),
        };
        let sp = ops::MIX_SPACES[i % 6];
        s.count_case("", true);
        match ops::guard(|| ops::mix_impl(sp, &x, &y, fr)) {
            None => s.fail("no-panic", &format!("Color::mix::<{}>", sp), format!("{} {} f={:?}", show_color(&x), show_color(&y), fr), "panic".into()),
            Some(m) => {
                let want = a1 + fr * (a2 - a1);
                let got = m.to_rgba().alpha;
                s.check((got - want).abs() <= 1e-12, "mix-alpha-linear", &format!("Color::mix::<{}>", sp), || format!("mix {} {} {} f={:?}", sp, show_color(&x), show_color(&y), fr), || format!("alpha {:?}, expected {:?}", got, want));
            }
        }
    }
}
