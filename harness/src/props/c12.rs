//! C12 — ANSI 8-bit: palette decoded exactly; quantisation near-optimal.
use crate::gen::{self, Rng};
use crate::ops::guard;
use crate::session::Session;
use crate::wire::{c_in, ok, show_color, x};
use crate::Ctx;
use pastel::ansi::AnsiColor;
use pastel::Color;

/// The xterm-256 palette as published (independent of the decoding arithmetic).
pub fn xterm(code: u8) -> (u8, u8, u8) {
    const SYS: [(u8, u8, u8); 16] = [
        (0, 0, 0), (128, 0, 0), (0, 128, 0), (128, 128, 0), (0, 0, 128), (128, 0, 128), (0, 128, 128), (192, 192, 192),
        (128, 128, 128), (255, 0, 0), (0, 255, 0), (255, 255, 0), (0, 0, 255), (255, 0, 255), (0, 255, 255), (255, 255, 255),
    ];
    const LV: [u8; 6] = [0, 95, 135, 175, 215, 255];
    if code < 16 {
        SYS[code as usize]
    } else if code < 232 {
        let i = code - 16;
        (LV[(i / 36) as usize], LV[(i / 6 % 6) as usize], LV[(i % 6) as usize])
    } else {
        let k = code - 232;
        (8 + 10 * k, 8 + 10 * k, 8 + 10 * k)
    }
}

/// Lean source of the table the live `from_ansi_8bit` produces (kernel-checked against the
/// published palette on every run).
pub fn generated_table() -> String {
    let mut s = String::from("/- GENERATED on every run by `pv-harness gen-ansi` from the live `Color::from_ansi_8bit`. -/\nnamespace Pastel.Generated\n\ndef ansiTable : List (Nat × Nat × Nat) := [\n");
    for code in 0..=255u8 {
        let q = Color::from_ansi_8bit(code).to_rgba();
        s.push_str(&format!("  ({}, {}, {}){}\n", q.r, q.g, q.b, if code == 255 { "" } else { "," }));
    }
    s.push_str("]\n\nend Pastel.Generated\n");
    s
}

pub fn run(s: &mut Session, ctx: &Ctx) {
    let mut rng = Rng::new(ctx.seed);
    // ---- decoding: all 256 codes ----
    for code in 0..=255u8 {
        let got = guard(|| {
            let q = Color::from_ansi_8bit(code).to_rgba();
            (q.r, q.g, q.b, q.alpha)
        });
        match got {
            None => s.fail("no-panic", "AnsiColor::from_ansi_8bit", format!("code {}", code), "panic".into()),
            Some((r, g, b, a)) => {
                s.op(format!("ansi from {}", code), ok(vec![x(r), x(g), x(b)]), code >= 16);
                s.check((r, g, b) == xterm(code) && a == 1.0, "palette-is-xterm", "AnsiColor::from_ansi_8bit", || format!("code {}", code), || format!("got ({},{},{}), xterm {:?}", r, g, b, xterm(code)));
            }
        }
    }
    s.exhaustive.push("all 256 codes decoded".into());
    // ---- quantisation ----
    let palette: Vec<(u8, pastel::Lab)> = (16..=255u8).map(|c| (c, Color::from_ansi_8bit(c).to_lab())).collect();
    let mut colors: Vec<Color> = vec![];
    for code in 16..=255u8 {
        let (r, g, b) = xterm(code);
        colors.push(Color::from_rgb(r, g, b)); // every palette colour
    }
    for g in 0..=255u8 {
        colors.push(Color::from_rgb(g, g, g)); // grays between ramp and cube
    }
    colors.push(Color::from_rgb(73, 39, 50));
    colors.push(Color::from_rgb(16, 51, 30));
    colors.push(Color::from_rgb(29, 54, 90));
    let step = if ctx.thorough { 5 } else { 17 };
    let mut r = 0usize;
    while r < 256 {
        let mut g = 0usize;
        while g < 256 {
            let mut b = 0usize;
            while b < 256 {
                colors.push(Color::from_rgb(r as u8, g as u8, b as u8));
                b += step;
            }
            g += step;
        }
        r += step;
    }
    let n = if ctx.thorough { 20_000 } else { 1_500 };
    for _ in 0..n {
        colors.push(gen::color(&mut rng));
    }
    let mut suspects: Vec<(f64, Color)> = vec![];
    for (i, c) in colors.iter().enumerate() {
        let got = guard(|| c.to_ansi_8bit());
        let code = match got {
            None => {
                s.fail("no-panic", "AnsiColor::to_ansi_8bit", show_color(c), "panic".into());
                continue;
            }
            Some(v) => v,
        };
        s.op(format!("ansi to {}", c_in(c)), ok(vec![x(code)]), true);
        let inp = || format!("{}.to_ansi_8bit()", show_color(c));
        s.check(code >= 16, "never-a-system-colour", "AnsiColor::to_ansi_8bit", inp, || format!("code {}", code));
        let (mine, risk) = near_optimal(s, c, code, &palette);
        if risk > 0.0 {
            suspects.push((risk, c.clone()));
        }
        // painted output: the 8-bit sequences of a style (foreground and background) and the colour's
        // own sequence carry exactly this code - never a system colour
        let seqs = guard(|| {
            let mut st = pastel::ansi::Style::default();
            st.foreground(c);
            let mut sb = pastel::ansi::Style::default();
            sb.on(c);
            (st.escape_sequence(pastel::ansi::Mode::Ansi8Bit), sb.escape_sequence(pastel::ansi::Mode::Ansi8Bit), c.to_ansi_sequence(pastel::ansi::Mode::Ansi8Bit))
        });
        match seqs {
            None => s.fail("no-panic", "Style::escape_sequence", show_color(c), "panic".into()),
            Some((fg, bg, own)) => {
                let (wf, wb) = (format!("\x1b[38;5;{}m", code), format!("\x1b[48;5;{}m", code));
                s.check(fg == wf && bg == wb && own == wf, "painted-8bit-code-is-to_ansi_8bit", "Style::escape_sequence(Ansi8Bit)", inp, || format!("fg {:?} bg {:?} own {:?}, expected code {}", fg, bg, own, code));
            }
        }
        if i < 240 {
            s.check(mine < 1.0, "palette-colour-maps-near-itself", "AnsiColor::to_ansi_8bit", inp, || format!("code {} at distance {:?}", code, mine));
        }
    }
    // Directed search. Where the library's CIEDE2000 and the independent transcription differ by more than the
    // 0.001 C11 allows on some (colour, palette entry) pair, the bound "less than 1.0 farther" is no longer
    // guaranteed near that colour: look there, densely, for a colour on which C12 itself fails. (A metric
    // difference alone is C11's business and is not reported here.)
    if !suspects.is_empty() {
        s.tag_n("directed-search:metric-differs-from-independent-formula", suspects.len() as u64);
        suspects.sort_by(|a, b| b.0.partial_cmp(&a.0).unwrap_or(std::cmp::Ordering::Equal));
        suspects.truncate(64);
        let per = if ctx.thorough { 4000 } else { 600 };
        for (_, c0) in suspects.iter() {
            let q = c0.to_rgba();
            for _ in 0..per {
                let d = |v: u8, r: &mut Rng| -> u8 { (v as i32 + r.below(41) as i32 - 20).clamp(0, 255) as u8 };
                let c = Color::from_rgb(d(q.r, &mut rng), d(q.g, &mut rng), d(q.b, &mut rng));
                if let Some(code) = guard(|| c.to_ansi_8bit()) {
                    s.count_case("", true);
                    near_optimal(s, &c, code, &palette);
                }
            }
        }
    }
}


/// The near-optimality clause on one colour, judged with the library's metric and with the independent
/// transcription. Returns the library's distance to the chosen entry and the largest disagreement (beyond 0.001)
/// of the two metrics on an entry that competes for the choice (pairs with exactly opposite hues excepted).
fn near_optimal(s: &mut Session, c: &Color, code: u8, palette: &[(u8, pastel::Lab)]) -> (f64, f64) {
    let inp = || format!("{}.to_ansi_8bit()", show_color(c));
    let lab = c.to_lab();
    // the independent judge takes its coordinates from the published definitions too (sharma::lab_of_srgb on
    // the float channels; the palette from the published xterm table), not from the library's to_lab
    let fl = c.to_rgba_float();
    let l3 = crate::sharma::lab_of_srgb(fl.r, fl.g, fl.b);
    let (mut best, mut best_code, mut mine) = (f64::MAX, 0u8, f64::NAN);
    let (mut sbest, mut sbest_code, mut smine) = (f64::MAX, 0u8, f64::NAN);
    let mut diffs: Vec<(f64, f64)> = Vec::with_capacity(palette.len()); // (independent distance, |difference|)
    for (pc, pl) in palette {
        let d = pastel::delta_e::ciede2000(&lab, pl);
        let (xr, xg, xb) = xterm(*pc);
        let p3 = crate::sharma::lab_of_srgb(xr as f64 / 255.0, xg as f64 / 255.0, xb as f64 / 255.0);
        let ds = crate::sharma::ciede2000(l3, p3);
        if (d - ds).abs() > 1e-3 && (crate::sharma::hue_gap(l3, p3) - 180.0).abs() > 1e-9 {
            diffs.push((ds, (d - ds).abs()));
        }
        if d < best {
            best = d;
            best_code = *pc;
        }
        if ds < sbest {
            sbest = ds;
            sbest_code = *pc;
        }
        if *pc == code {
            mine = d;
            smine = ds;
        }
    }
    s.check(mine < best + 1.0, "within-1.0-of-closest", "AnsiColor::to_ansi_8bit", inp, || format!("code {} at {:?}, closest is {} at {:?}", code, mine, best_code, best));
    // the same with distances from an independent transcription of the Sharma-Wu-Dalal formula (the
    // library's own ciede2000 is what to_ansi_8bit minimises, so it cannot judge itself); 0.001 is
    // the agreement C11 allows between the two
    s.check(smine < sbest + 1.0 + 0.001, "within-1.0-of-closest-by-independent-ciede2000", "AnsiColor::to_ansi_8bit", inp, || format!("code {} at {:?}, closest is {} at {:?} (Sharma-Wu-Dalal formula)", code, smine, sbest_code, sbest));
    // the risk: how much the two metrics differ on entries that compete for the choice (within 2 units of the closest)
    let risk = diffs.iter().filter(|(ds, _)| *ds <= sbest + 2.0).map(|(_, e)| *e).fold(0.0, f64::max);
    (mine, risk)
}
