//! C12 — ANSI 8-bit: palette decoded exactly; quantisation near-optimal.
use crate::gen::{self, Rng};
use crate::ops::guard;
use crate::session::Session;
use crate::wire::{c_in, ok, show_color, x};
use crate::Ctx;
use pastel::ansi::AnsiColor;
use pastel::Color;

/// The xterm-256 palette as published (independent of the decoding arithmetic).
pub fn xterm(code: u8) -> (u8, u8, u8) {
    const SYS: [(u8, u8, u8); 16] = [
        (0, 0, 0), (128, 0, 0), (0, 128, 0), (128, 128, 0), (0, 0, 128), (128, 0, 128), (0, 128, 128), (192, 192, 192),
        (128, 128, 128), (255, 0, 0), (0, 255, 0), (255, 255, 0), (0, 0, 255), (255, 0, 255), (0, 255, 255), (255, 255, 255),
    ];
    const LV: [u8; 6] = [0, 95, 135, 175, 215, 255];
    if code < 16 {
        SYS[code as usize]
    } else if code < 232 {
        let i = code - 16;
        (LV[(i / 36) as usize], LV[(i / 6 % 6) as usize], LV[(i % 6) as usize])
    } else {
        let k = code - 232;
        (8 + 10 * k, 8 + 10 * k, 8 + 10 * k)
    }
}

/// Lean source of the table the live `from_ansi_8bit` produces (kernel-checked against the
/// published palette on every run).
pub fn generated_table() -> String {
    let mut s = String::from("/- GENERATED on every run by `pv-harness gen-ansi` from the live `Color::from_ansi_8bit`. -/\nnamespace Pastel.Generated\n\ndef ansiTable : List (Nat × Nat × Nat) := [\n");
    for code in 0..=255u8 {
        let q = Color::from_ansi_8bit(code).to_rgba();
        s.push_str(&format!("  ({}, {}, {}){}\n", q.r, q.g, q.b, if code == 255 { "" } else { "," }));
    }
    s.push_str("]\n\nend Pastel.Generated\n");
    s
}

pub fn run(s: &mut Session, ctx: &Ctx) {
    let mut rng = Rng::new(ctx.seed);
    // ---- decoding: all 256 codes ----
    for code in 0..=255u8 {
        let got = guard(|| {
            let q = Color::from_ansi_8bit(code).to_rgba();
            (q.r, q.g, q.b, q.alpha)
        });
        match got {
            None => s.fail("no-panic", "AnsiColor::from_ansi_8bit", format!("code {}", code), "panic".into()),
            Some((r, g, b, a)) => {
                s.op(format!("ansi from {}", code), ok(vec![x(r), x(g), x(b)]), code >= 16);
                s.check((r, g, b) == xterm(code) && a == 1.0, "palette-is-xterm", "AnsiColor::from_ansi_8bit", || format!("code {}", code), || format!("got ({},{},{}), xterm {:?}", r, g, b, xterm(code)));
            }
        }
    }
    s.exhaustive.push("all 256 codes decoded".into());
    // ---- quantisation ----
    let palette: Vec<(u8, pastel::Lab)> = (16..=255u8).map(|c| (c, Color::from_ansi_8bit(c).to_lab())).collect();
    let mut colors: Vec<Color> = vec![];
    for code in 16..=255u8 {
        let (r, g, b) = xterm(code);
        colors.push(Color::from_rgb(r, g, b)); // every palette colour
    }
    for g in 0..=255u8 {
        colors.push(Color::from_rgb(g, g, g)); // grays between ramp and cube
    }
    colors.push(Color::from_rgb(73, 39, 50));
    colors.push(Color::from_rgb(16, 51, 30));
    colors.push(Color::from_rgb(29, 54, 90));
    let step = if ctx.thorough { 5 } else { 17 };
    let mut r = 0usize;
    while r < 256 {
        let mut g = 0usize;
        while g < 256 {
            let mut b = 0usize;
            while b < 256 {
                colors.push(Color::from_rgb(r as u8, g as u8, b as u8));
                b += step;
            }
            g += step;
        }
        r += step;
    }
    let n = if ctx.thorough { 20_000 } else { 1_500 };
    for _ in 0..n {
        colors.push(gen::color(&mut rng));
    }
    for (i, c) in colors.iter().enumerate() {
        let got = guard(|| c.to_ansi_8bit());
        let code = match got {
            None => {
                s.fail("no-panic", "AnsiColor::to_ansi_8bit", show_color(c), "panic".into());
                continue;
            }
            Some(v) => v,
        };
        s.op(format!("ansi to {}", c_in(c)), ok(vec![x(code)]), true);
        let inp = || format!("{}.to_ansi_8bit()", show_color(c));
        s.check(code >= 16, "never-a-system-colour", "AnsiColor::to_ansi_8bit", inp, || format!("code {}", code));
        let lab = c.to_lab();
        let mut best = f64::MAX;
        let mut best_code = 0u8;
        let mut mine = f64::NAN;
        for (pc, pl) in &palette {
            let d = pastel::delta_e::ciede2000(&lab, pl);
            if d < best {
                best = d;
                best_code = *pc;
            }
            if *pc == code {
                mine = d;
            }
        }
        s.check(mine < best + 1.0, "within-1.0-of-closest", "AnsiColor::to_ansi_8bit", inp, || format!("code {} at {:?}, closest is {} at {:?}", code, mine, best_code, best));
        // the same with distances from an independent transcription of the Sharma-Wu-Dalal formula (the
        // library's own ciede2000 is what to_ansi_8bit minimises, so it cannot judge itself); 0.001 is
        // the agreement C11 allows between the two
        let l3 = [lab.l, lab.a, lab.b];
        let mut sbest = f64::MAX;
        let mut sbest_code = 0u8;
        let mut smine = f64::NAN;
        for (pc, pl) in &palette {
            let d = crate::sharma::ciede2000(l3, [pl.l, pl.a, pl.b]);
            if d < sbest {
                sbest = d;
                sbest_code = *pc;
            }
            if *pc == code {
                smine = d;
            }
        }
        s.check(smine < sbest + 1.0 + 0.001, "within-1.0-of-closest-by-independent-ciede2000", "AnsiColor::to_ansi_8bit", inp, || format!("code {} at {:?}, closest is {} at {:?} (Sharma-Wu-Dalal formula)", code, smine, sbest_code, sbest));
        // painted output: the 8-bit sequences of a style (foreground and background) and the colour's
        // own sequence carry exactly this code - never a system colour
        let seqs = guard(|| {
            let mut st = pastel::ansi::Style::default();
            st.foreground(c);
            let mut sb = pastel::ansi::Style::default();
            sb.on(c);
            (st.escape_sequence(pastel::ansi::Mode::Ansi8Bit), sb.escape_sequence(pastel::ansi::Mode::Ansi8Bit), c.to_ansi_sequence(pastel::ansi::Mode::Ansi8Bit))
        });
        match seqs {
            None => s.fail("no-panic", "Style::escape_sequence", show_color(c), "panic".into()),
            Some((fg, bg, own)) => {
                let (wf, wb) = (format!("\x1b[38;5;{}m", code), format!("\x1b[48;5;{}m", code));
                s.check(fg == wf && bg == wb && own == wf, "painted-8bit-code-is-to_ansi_8bit", "Style::escape_sequence(Ansi8Bit)", inp, || format!("fg {:?} bg {:?} own {:?}, expected code {}", fg, bg, own, code));
            }
        }
        if i < 240 {
            s.check(mine < 1.0, "palette-colour-maps-near-itself", "AnsiColor::to_ansi_8bit", inp, || format!("code {} at distance {:?}", code, mine));
        }
    }
}
