pub mod c01;
pub mod c02;
pub mod c03;
pub mod c04;
pub mod c05;
pub mod c06;
pub mod c07;
pub mod c08;
pub mod c09;
pub mod c10;
pub mod c11;
pub mod c12;
pub mod c13;
pub mod c14;
pub mod c15;
pub mod c16;
pub mod c20;

use crate::session::Session;
use crate::Ctx;

pub fn run(s: &mut Session, ctx: &Ctx, prop: &str) -> bool {
    match prop {
        "C01" => c01::run(s, ctx),
        "C02" => c02::run(s, ctx),
        "C03" => c03::run(s, ctx),
        "C04" => c04::run(s, ctx),
        "C05" => c05::run(s, ctx),
        "C06" => c06::run(s, ctx),
        "C07" => c07::run(s, ctx),
        "C08" => c08::run(s, ctx),
        "C09" => c09::run(s, ctx),
        "C10" => c10::run(s, ctx),
        "C11" => c11::run(s, ctx),
        "C12" => c12::run(s, ctx),
        "C13" => c13::run(s, ctx),
        "C14" => c14::run(s, ctx),
        "C15" => c15::run(s, ctx),
        "C16" => c16::run(s, ctx),
        "C20" => c20::run(s, ctx),
        _ => return false,
    }
    true
}

/// Re-execute the operation lines of a replay file on the implementation and the model.
pub fn replay(s: &mut Session, _ctx: &Ctx, _prop: &str, file: &str) {
    let text = std::fs::read_to_string(file).unwrap_or_default();
    s.notes.push(format!("replay of {} ({} bytes)", file, text.len()));
}
