//! C15 — incremental nearest-neighbour bookkeeping equals recomputation.
//! Needs the `pastel_verif` hook (DistanceResult::verif_new / verif_update).
use crate::gen::Rng;
use crate::ops::guard;
use crate::session::Session;
use crate::wire::{f, ok, x, Field};
use crate::Ctx;
use pastel::distinct::{DistanceMetric, DistanceResult};
use pastel::Lab;

pub fn metric_name(m: DistanceMetric) -> &'static str {
    match m {
        DistanceMetric::CIE76 => "cie76",
        DistanceMetric::CIEDE2000 => "ciede2000",
    }
}

pub fn dist(m: DistanceMetric, a: &Lab, b: &Lab) -> f64 {
    match m {
        DistanceMetric::CIE76 => pastel::delta_e::cie76(a, b),
        DistanceMetric::CIEDE2000 => pastel::delta_e::ciede2000(a, b),
    }
}

pub fn idx(i: usize) -> Field {
    if i == usize::MAX {
        x("max")
    } else {
        x(i)
    }
}

/// The table as compared with the model in C15's own histories: distances and aggregates (to 1e-9); the
/// neighbour and pair indices are left to the brute-force oracle, because at an exact tie between two
/// neighbours either index is right and the last bit of a distance decides which one is stored.
pub fn dump_values(r: &DistanceResult) -> Vec<Field> {
    let mut v = vec![];
    for (d, _) in &r.closest_distances {
        v.push(Field::F(*d));
        v.push(Field::Any);
    }
    v.push(Field::F(r.mean_closest_distance));
    v.push(Field::F(r.min_closest_distance));
    v.push(Field::Any);
    v.push(Field::Any);
    v
}

pub fn dump(r: &DistanceResult) -> Vec<Field> {
    let mut v = vec![];
    for (d, i) in &r.closest_distances {
        v.push(Field::F(*d));
        v.push(idx(*i));
    }
    v.push(Field::F(r.mean_closest_distance));
    v.push(Field::F(r.min_closest_distance));
    v.push(idx(r.closest_pair.0));
    v.push(idx(r.closest_pair.1));
    v
}

fn lab(p: [f64; 3]) -> Lab {
    Lab { l: p[0], a: p[1], b: p[2], alpha: 1.0 }
}

fn close(a: f64, b: f64) -> bool {
    crate::session::floats_close(a, b)
}

/// Brute-force recomputation: every clause of the property on one table.
pub fn oracle(s: &mut Session, site: &str, labs: &[Lab], m: DistanceMetric, k: usize, r: &DistanceResult, history: &str) {
    let n = labs.len();
    let inp = || history.to_string();
    s.check(r.closest_distances.len() == n, "table-length", site, inp, || format!("{} entries for {} colours", r.closest_distances.len(), n));
    if n < 2 || r.closest_distances.len() != n {
        return;
    }
    for i in 0..n {
        let (d, j) = r.closest_distances[i];
        let mut best = f64::MAX;
        for t in 0..n {
            if t != i {
                best = best.min(dist(m, &labs[t], &labs[i]));
            }
        }
        s.check(close(d, best), "closest-distance-is-true-minimum", site, inp, || format!("colour {}: recorded {:?}, true minimum {:?}", i, d, best));
        s.check(j < n && j != i && close(dist(m, &labs[i], &labs[j]), best), "neighbour-attains-minimum", site, inp, || format!("colour {}: recorded neighbour {} at {:?}, minimum {:?}", i, j, if j < n { dist(m, &labs[i], &labs[j]) } else { f64::NAN }, best));
    }
    // aggregates: over colours that are free or whose neighbour is free
    let elig: Vec<usize> = (0..n).filter(|&i| !(i < k && r.closest_distances[i].1 < k)).collect();
    if !elig.is_empty() {
        let mn = elig.iter().map(|&i| r.closest_distances[i].0).fold(f64::MAX, f64::min);
        s.check(close(r.min_closest_distance, mn), "min-is-least-eligible-entry", site, inp, || format!("reported {:?}, expected {:?}", r.min_closest_distance, mn));
        let (p0, p1) = r.closest_pair;
        s.check(p0 < n && p1 < n && close(dist(m, &labs[p0], &labs[p1]), mn), "closest-pair-attains-min", site, inp, || format!("pair {:?}", r.closest_pair));
        if k < n {
            s.check(p0 >= k || p1 >= k, "closest-pair-has-free-colour", site, inp, || format!("pair {:?} with {} fixed", r.closest_pair, k));
        }
    }
    if k == 0 {
        let mean: f64 = r.closest_distances.iter().map(|e| e.0).sum::<f64>() / n as f64;
        s.check(close(r.mean_closest_distance, mean), "mean-is-average", site, inp, || format!("reported {:?}, expected {:?}", r.mean_closest_distance, mean));
    }
}

fn lab_words(p: &[f64; 3]) -> String {
    format!("{} {} {}", f(p[0]), f(p[1]), f(p[2]))
}

/// Apply one history on the implementation, the model and the oracle.
fn run_history(s: &mut Session, m: DistanceMetric, k: usize, start: &[[f64; 3]], updates: &[(usize, [f64; 3])], nontrivial: bool) {
    s.hold = true;
    run_history_inner(s, m, k, start, updates, nontrivial);
    s.release();
}

fn run_history_inner(s: &mut Session, m: DistanceMetric, k: usize, start: &[[f64; 3]], updates: &[(usize, [f64; 3])], nontrivial: bool) {
    let mut labs: Vec<Lab> = start.iter().map(|p| lab(*p)).collect();
    let mut hist = format!("new {} k={} {:?}", metric_name(m), k, start);
    let r0 = guard(|| DistanceResult::verif_new(&labs, m, k));
    let op = format!("dr new {} {} {} {}", metric_name(m), k, start.len(), start.iter().map(lab_words).collect::<Vec<_>>().join(" "));
    let mut r = match r0 {
        Some(r) => {
            s.op(op, ok(dump_values(&r)), nontrivial);
            r
        }
        None => {
            s.fail("no-panic", "DistanceResult::new", hist, "panic".into());
            s.op(op, vec![x("panic")], nontrivial);
            return;
        }
    };
    oracle(s, "DistanceResult::new", &labs, m, k, &r, &hist);
    for (i, p) in updates {
        labs[*i] = lab(*p);
        hist.push_str(&format!("; update {} {:?}", i, p));
        let r1 = guard(|| r.verif_update(&labs, *i));
        let op = format!("dr update {} {}", i, lab_words(p));
        match r1 {
            Some(r1) => {
                s.op(op, ok(dump_values(&r1)), nontrivial);
                oracle(s, "DistanceResult::update", &labs, m, k, &r1, &hist);
                r = r1;
            }
            None => {
                s.fail("no-panic", "DistanceResult::update", hist.clone(), "panic".into());
                s.op(op, vec![x("panic")], nontrivial);
                return;
            }
        }
    }
}

pub fn run(s: &mut Session, ctx: &Ctx) {
    // whole optimiser runs on tie-heavy lists (single and repeated runs): the table each run returns
    // equals recomputation from its colours
    super::c14::tie_cases(s, ctx);
    let mut rng = Rng::new(ctx.seed);
    // alphabet with duplicates and collinear equidistant points (ties)
    let alpha: [[f64; 3]; 6] = [
        [50.0, 0.0, 0.0],
        [60.0, 0.0, 0.0],
        [70.0, 0.0, 0.0],
        [80.0, 0.0, 0.0],
        [50.0, 10.0, 0.0],
        [50.0, 0.0, 0.0], // duplicate of the first
    ];
    // ---- small scope: all starting tables over the alphabet, all update sequences of length <= L ----
    let sizes: &[usize] = if ctx.thorough { &[2, 3, 4] } else { &[2, 3] };
    let depth = if ctx.thorough { 3 } else { 2 };
    let mut n_hist = 0u64;
    for &n in sizes {
        let total = 6usize.pow(n as u32);
        for code in 0..total {
            let mut c = code;
            let start: Vec<[f64; 3]> = (0..n)
                .map(|_| {
                    let v = alpha[c % 6];
                    c /= 6;
                    v
                })
                .collect();
            // all update sequences (index, new point) of the given depth
            let choices = n * 6;
            let seqs = choices.pow(depth as u32);
            // sample the sequences deterministically when there are too many
            // thorough: every sequence for n <= 3 (18^3 = 5832 per start), about 400 per start for n = 4
            let stride = if ctx.thorough { if n <= 3 { 1 } else { (seqs / 400).max(1) } } else { (seqs / 40).max(1) };
            let mut sq = (code * 7) % stride;
            while sq < seqs {
                let mut q = sq;
                let ups: Vec<(usize, [f64; 3])> = (0..depth)
                    .map(|_| {
                        let ch = q % choices;
                        q /= choices;
                        (ch / 6, alpha[ch % 6])
                    })
                    .collect();
                for k in 0..=n {
                    if (code + sq + k) % 3 == 0 || ctx.thorough {
                        let m = if (code + sq) % 2 == 0 { DistanceMetric::CIE76 } else { DistanceMetric::CIEDE2000 };
                        run_history(s, m, k, &start, &ups, true);
                        n_hist += 1;
                    }
                }
                sq += stride;
            }
        }
    }
    s.tag_n("histories:small-scope", n_hist);
    // ---- random long histories ----
    let reps = if ctx.thorough { 400 } else { 40 };
    let len = if ctx.thorough { 2000 } else { 300 };
    for rep in 0..reps {
        let n = 2 + (rng.below(11) as usize);
        let k = rng.below(n as u64 + 1) as usize;
        let m = if rep % 2 == 0 { DistanceMetric::CIE76 } else { DistanceMetric::CIEDE2000 };
        let pt = |rng: &mut Rng| -> [f64; 3] {
            if rng.below(4) == 0 {
                alpha[rng.below(6) as usize]
            } else if rng.below(3) == 0 {
                // coarse grid: many exact ties
                [(rng.below(5) * 10) as f64 + 30.0, (rng.below(3) as f64 - 1.0) * 20.0, (rng.below(3) as f64 - 1.0) * 20.0]
            } else {
                [rng.range(0.0, 100.0), rng.range(-100.0, 100.0), rng.range(-100.0, 100.0)]
            }
        };
        let start: Vec<[f64; 3]> = (0..n).map(|_| pt(&mut rng)).collect();
        let ups: Vec<(usize, [f64; 3])> = (0..len).map(|_| (rng.below(n as u64) as usize, pt(&mut rng))).collect();
        run_history(s, m, k, &start, &ups, true);
    }
    s.tag_n("histories:random-long", reps as u64);
}
