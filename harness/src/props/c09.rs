//! C09 — luminance, contrast, text colour and gray conversion are consistent.
use crate::gen::{self, Rng};
use crate::ops;
use crate::par::{self, Acc};
use crate::session::Session;
use crate::wire::show_color;
use crate::Ctx;
use pastel::Color;

/// A colour with (approximately) the given float channels, built through HSL (hexcone formulas).
fn from_rgbf(r: f64, g: f64, b: f64) -> Color {
    let mx = r.max(g).max(b);
    let mn = r.min(g).min(b);
    let c = mx - mn;
    let l = (mx + mn) / 2.0;
    let h = if c == 0.0 {
        0.0
    } else if mx == r {
        60.0 * (((g - b) / c) % 6.0)
    } else if mx == g {
        60.0 * ((b - r) / c + 2.0)
    } else {
        60.0 * ((r - g) / c + 4.0)
    };
    let s = if l <= 0.0 || l >= 1.0 { 0.0 } else { c / (1.0 - (2.0 * l - 1.0).abs()) };
    Color::from_hsl(h, s, l)
}

pub fn run(s: &mut Session, ctx: &Ctx) {
    let mut rng = Rng::new(ctx.seed);
    let black = Color::black();
    let white = Color::white();
    s.check(black.luminance() == 0.0, "luminance-black-0", "Color::luminance", || "black".into(), || format!("{:?}", black.luminance()));
    s.check((white.luminance() - 1.0).abs() <= 1e-12, "luminance-white-1", "Color::luminance", || "white".into(), || format!("{:?}", white.luminance()));

    // gray luminances, for the "within one 8-bit gray step" clause
    let gray_lum: Vec<f64> = (0..=255u8).map(|k| Color::from_rgb(k, k, k).luminance()).collect();

    // ---- float channels around the cut of the sRGB linearisation: raising one channel a little
    // must not lower the luminance (beyond float noise) ----
    {
        let mut rng = crate::gen::Rng::new(ctx.seed ^ 0x9e37);
        let n = if ctx.thorough { 200_000 } else { 6_000 };
        for i in 0..n {
            let cut = *rng.pick(&[0.03928, 0.04045, 0.0031308]);
            let lo = cut - rng.unit() * rng.unit() * 3e-5;
            let hi = lo + rng.unit() * rng.unit() * 6e-5;
            let (u, v) = (rng.unit(), rng.unit());
            // (from_rgba_float quantises to 8 bits, so the float colour is built through HSL)
            let (u, v) = if i % 2 == 0 { (u * 0.1, v * 0.1) } else { (u, v) };
            let (a, b) = match i % 3 {
                0 => (from_rgbf(lo, u, v), from_rgbf(hi, u, v)),
                1 => (from_rgbf(u, lo, v), from_rgbf(u, hi, v)),
                _ => (from_rgbf(u, v, lo), from_rgbf(u, v, hi)),
            };
            // compare only when the stored colour really moved that one channel up and no other down
            let (fa, fb) = (a.to_rgba_float(), b.to_rgba_float());
            if !(fb.r >= fa.r && fb.g >= fa.g && fb.b >= fa.b) {
                continue;
            }
            let (la, lb) = (a.luminance(), b.luminance());
            s.count_case("", true);
            s.check(lb >= la - 1e-12, "luminance-nondecreasing-in-float-channel", "Color::luminance", || format!("channels ({:?},{:?},{:?}) -> ({:?},{:?},{:?})", fa.r, fa.g, fa.b, fb.r, fb.g, fb.b), || format!("luminance {:?} -> {:?}", la, lb));
        }
    }

    // ---- all 2^24 colours (quick: every 2nd level per channel = 2^21; thorough: all) ----
    let step = if ctx.thorough { 1 } else { 2 };
    let gl = &gray_lum;
    let accs = par::for_all_rgb(step, Acc::default, |r, g, b, acc: &mut Acc| {
        acc.cases += 1;
        let c = Color::from_rgb(r, g, b);
        let inp = || format!("rgb({},{},{})", r, g, b);
        let lum = c.luminance();
        // strictly increasing in each channel
        if r < 255 {
            let l2 = Color::from_rgb(r + 1, g, b).luminance();
            acc.check(l2 > lum, "luminance-strictly-increasing", "Color::luminance", inp, || format!("r+1: {:?} vs {:?}", l2, lum));
        }
        if g < 255 {
            let l2 = Color::from_rgb(r, g + 1, b).luminance();
            acc.check(l2 > lum, "luminance-strictly-increasing", "Color::luminance", inp, || format!("g+1: {:?} vs {:?}", l2, lum));
        }
        if b < 255 {
            let l2 = Color::from_rgb(r, g, b + 1).luminance();
            acc.check(l2 > lum, "luminance-strictly-increasing", "Color::luminance", inp, || format!("b+1: {:?} vs {:?}", l2, lum));
        }
        // is_light is "brightness above one half"
        acc.check(c.is_light() == (c.brightness() > 0.5), "is-light-iff-brightness-above-half", "Color::is_light", inp, || format!("is_light {} brightness {:?}", c.is_light(), c.brightness()));
        // text colour
        let t = c.text_color();
        let tr = t.to_rgba();
        let is_black = (tr.r, tr.g, tr.b) == (0, 0, 0);
        let is_white = (tr.r, tr.g, tr.b) == (255, 255, 255);
        acc.check((is_black || is_white) && tr.alpha == 1.0, "text-color-black-or-white", "Color::text_color", inp, || format!("{:?}", tr));
        let chosen = c.contrast_ratio(&t);
        let other = c.contrast_ratio(&if is_black { Color::white() } else { Color::black() });
        acc.check(chosen >= 4.5, "text-contrast-at-least-4.5", "Color::text_color", inp, || format!("contrast {:?}", chosen));
        acc.check(chosen >= other - 0.01, "text-contrast-near-best", "Color::text_color", inp, || format!("chosen {:?} other {:?}", chosen, other));
        acc.max("min-text-contrast-neg", -chosen);
        acc.max("max-text-contrast-gap", other - chosen);
        // to_gray
        let gcol = c.to_gray();
        let gr = gcol.to_rgba();
        acc.check(gr.r == gr.g && gr.g == gr.b, "gray-achromatic", "Color::to_gray", inp, || format!("{:?}", gr));
        let k = gr.r as usize;
        let lo = gl[k.saturating_sub(1)];
        let hi = gl[(k + 1).min(255)];
        acc.check(lum >= lo - 1e-12 && lum <= hi + 1e-12, "gray-luminance-within-one-step", "Color::to_gray", inp, || format!("luminance {:?}, gray level {} has {:?}, neighbours {:?}..{:?}", lum, k, gl[k], lo, hi));
        let g2 = gcol.to_gray().to_rgba();
        acc.check((g2.r, g2.g, g2.b) == (gr.r, gr.g, gr.b), "gray-idempotent", "Color::to_gray", inp, || format!("{:?} then {:?}", gr, g2));
        if r == g && g == b {
            acc.check(gr.r == r, "gray-fixes-grays", "Color::to_gray", inp, || format!("{:?}", gr));
        }
    });
    let maxima = par::merge(s, accs);
    // the corners and faces of the cube at full resolution in every tier (the lattice above skips odd
    // levels): every colour with at least two channels within 3 of 0 or 255, each step of the free
    // channel and of the pinned ones
    {
        let edge: [u8; 8] = [0, 1, 2, 3, 252, 253, 254, 255];
        let lum_of = |r: u8, g: u8, b: u8| Color::from_rgb(r, g, b).luminance();
        for &e1 in &edge {
            for &e2 in &edge {
                for v in 0..=255u8 {
                    for (r, g, b) in [(v, e1, e2), (e1, v, e2), (e1, e2, v)] {
                        let lum = lum_of(r, g, b);
                        s.count_case("", true);
                        if r < 255 {
                            s.check(lum_of(r + 1, g, b) > lum, "luminance-strictly-increasing", "Color::luminance", || format!("rgb({},{},{})", r, g, b), || format!("r+1: {:?} vs {:?}", lum_of(r + 1, g, b), lum));
                        }
                        if g < 255 {
                            s.check(lum_of(r, g + 1, b) > lum, "luminance-strictly-increasing", "Color::luminance", || format!("rgb({},{},{})", r, g, b), || format!("g+1: {:?} vs {:?}", lum_of(r, g + 1, b), lum));
                        }
                        if b < 255 {
                            s.check(lum_of(r, g, b + 1) > lum, "luminance-strictly-increasing", "Color::luminance", || format!("rgb({},{},{})", r, g, b), || format!("b+1: {:?} vs {:?}", lum_of(r, g, b + 1), lum));
                        }
                    }
                }
            }
        }
    }
    if step == 1 {
        s.exhaustive.push("all 2^24 8-bit colours: luminance monotone per channel, text colour, to_gray".into());
    } else {
        s.notes.push("quick tier: lattice of every 2nd level per channel (2^21 colours)".into());
    }
    for (k, v) in maxima {
        s.notes.push(format!("{} = {:?}", k, v));
    }

    // ---- contrast ratio on pairs ----
    let st = gen::structured_colors();
    let n = if ctx.thorough { 400_000 } else { 20_000 };
    let mut pairs: Vec<(Color, Color)> = vec![];
    for a in &st {
        for b in &st {
            pairs.push((a.clone(), b.clone()));
        }
    }
    for _ in 0..n {
        let a = gen::color(&mut rng);
        let b = if rng.below(10) == 0 { a.clone() } else { gen::color(&mut rng) };
        pairs.push((a, b));
    }
    for (a, b) in &pairs {
        let inp = || format!("contrast {} {}", show_color(a), show_color(b));
        if let (Some(c1), Some(c2)) = (ops::num2(s, "contrast", a, b, a.to_rgba() != b.to_rgba()), ops::guard(|| b.contrast_ratio(a))) {
            s.check(c1 == c2, "contrast-symmetric", "Color::contrast_ratio", inp, || format!("{:?} vs {:?}", c1, c2));
            s.check(c1 >= 1.0 && c1 <= 21.0 + 1e-9, "contrast-range", "Color::contrast_ratio", inp, || format!("{:?}", c1));
            let (la, lb) = (a.luminance(), b.luminance());
            s.check((c1 == 1.0) == (la == lb), "contrast-1-iff-equal-luminance", "Color::contrast_ratio", inp, || format!("contrast {:?}, luminances {:?} {:?}", c1, la, lb));
        }
    }
    // correspondence for luminance / brightness / textcolor / togray on a sample
    let m = if ctx.thorough { 300_000 } else { 15_000 };
    for _ in 0..m {
        let c = gen::color(&mut rng);
        ops::num1(s, "luminance", &c, true);
        ops::num1(s, "brightness", &c, true);
        ops::adj(s, "textcolor", &c, None, true);
        ops::adj(s, "togray", &c, None, true);
    }
    // the luminance-0.179 shell: grays around the threshold and colours near it
    for k in 0..=255u8 {
        let c = Color::from_rgb(k, k, k);
        ops::adj(s, "textcolor", &c, None, true);
        ops::num1(s, "luminance", &c, true);
    }
}
