//! C13 — escape sequences (library level: `Style::escape_sequence`, `Brush::paint`,
//! `to_ansi_sequence`).  The colour-mode decision and the ESC scan of every subcommand run
//! against the binary (clirun).
use crate::gen::{self, Rng};
use crate::ops::guard;
use crate::session::Session;
use crate::wire::{c_in, hex_str, ok, show_color, x};
use crate::Ctx;
use pastel::ansi::{AnsiColor, Brush, Mode, Style};
use pastel::Color;

fn expected_sequence(fg: Option<&Color>, bg: Option<&Color>, bits: u8, mode: Mode) -> String {
    let mut params: Vec<String> = vec![];
    let mut color = |base: u8, c: &Color| match mode {
        Mode::Ansi8Bit => {
            params.push(base.to_string());
            params.push("5".into());
            params.push(c.to_ansi_8bit().to_string());
        }
        Mode::TrueColor => {
            let q = c.to_rgba();
            params.push(base.to_string());
            params.push("2".into());
            params.push(q.r.to_string());
            params.push(q.g.to_string());
            params.push(q.b.to_string());
        }
    };
    if let Some(c) = fg {
        color(38, c);
    }
    if let Some(c) = bg {
        color(48, c);
    }
    if bits & 1 != 0 {
        params.push("1".into());
    }
    if bits & 2 != 0 {
        params.push("3".into());
    }
    if bits & 4 != 0 {
        params.push("4".into());
    }
    if params.is_empty() {
        params.push("0".into());
    }
    format!("\x1b[{}m", params.join(";"))
}

pub fn run(s: &mut Session, ctx: &Ctx) {
    let mut rng = Rng::new(ctx.seed);
    let texts = ["x", "", "hello world", "ünïcödé ▀▄", "with \x1b[31m escape", "multi\nline", " "];
    let n = if ctx.thorough { 2_000 } else { 150 };
    let mut cols: Vec<Color> = gen::structured_colors();
    for _ in 0..n {
        cols.push(gen::color(&mut rng));
    }
    for (ci, c) in cols.iter().enumerate() {
        let other = &cols[(ci * 7 + 1) % cols.len()];
        for bits in 0..8u8 {
            for (has_fg, has_bg) in [(false, false), (true, false), (false, true), (true, true)] {
                for (mi, mode) in [Some(Mode::TrueColor), Some(Mode::Ansi8Bit), None].iter().enumerate() {
                    // quick tier: a third of the combinations per colour (all 32 styles x 3 modes are
                    // covered across colours)
                    if !ctx.thorough && (ci + bits as usize + mi + has_fg as usize * 2 + has_bg as usize) % 3 != 0 {
                        continue;
                    }
                    let text = texts[(ci + bits as usize + mi) % texts.len()];
                    let mut st = Style::default();
                    if has_fg {
                        st.foreground(c);
                    }
                    if has_bg {
                        st.on(other);
                    }
                    st.bold(bits & 1 != 0).italic(bits & 2 != 0).underline(bits & 4 != 0);
                    let st2 = st.clone();
                    let out = guard(move || Brush::from_mode(*mode).paint(text, st2));
                    let op = format!(
                        "style {} {} {} {} {}",
                        if has_fg { format!("c {}", c_in(c)) } else { "-".into() },
                        if has_bg { format!("c {}", c_in(other)) } else { "-".into() },
                        bits,
                        match mode {
                            Some(Mode::TrueColor) => "24",
                            Some(Mode::Ansi8Bit) => "8",
                            None => "off",
                        },
                        hex_str(text)
                    );
                    let inp = || format!("paint {:?} fg={} bg={} bits={} mode={:?}", text, if has_fg { show_color(c) } else { "-".into() }, if has_bg { show_color(other) } else { "-".into() }, bits, mode);
                    let out = match out {
                        None => {
                            s.fail("no-panic", "Brush::paint", inp(), "panic".into());
                            s.op(op, vec![x("panic")], true);
                            continue;
                        }
                        Some(o) => o,
                    };
                    if *mode == Some(Mode::Ansi8Bit) && (has_fg || has_bg) {
                        // the 8-bit parameter is "its quantised code": whichever entry to_ansi_8bit names (C12 says
                        // which entries are admissible); the direct oracle below builds the sequence with that code
                        s.count_case(&op, true);
                        s.tag("op:style (8-bit code taken from to_ansi_8bit, direct oracle only)");
                    } else {
                        s.op(op, ok(vec![x(hex_str(&out))]), has_fg || has_bg || bits != 0);
                    }
                    match mode {
                        None => s.check(out == text, "paint-off-is-identity", "Brush::paint", inp, || format!("{:?}", out)),
                        Some(m) => {
                            let want = format!("{}{}\x1b[0m", expected_sequence(if has_fg { Some(c) } else { None }, if has_bg { Some(other) } else { None }, bits, *m), text);
                            s.check(out == want, "paint-is-seq-text-reset", "Brush::paint", inp, || format!("got {:?} expected {:?}", out, want));
                        }
                    }
                }
            }
        }
        // to_ansi_sequence
        for (m, name) in [(Mode::TrueColor, "24"), (Mode::Ansi8Bit, "8")] {
            if let Some(seq) = guard(|| c.to_ansi_sequence(m)) {
                if m == Mode::TrueColor {
                    s.op(format!("ansi seq {} {}", name, c_in(c)), ok(vec![x(hex_str(&seq))]), true);
                } else {
                    s.count_case(&format!("ansi seq {} {}", name, c_in(c)), true); // the code is to_ansi_8bit's choice (C12): direct oracle below
                }
                let q = c.to_rgba();
                let want = match m {
                    Mode::TrueColor => format!("\x1b[38;2;{};{};{}m", q.r, q.g, q.b),
                    Mode::Ansi8Bit => format!("\x1b[38;5;{}m", c.to_ansi_8bit()),
                };
                s.check(seq == want, "ansi-sequence-shape", "AnsiColor::to_ansi_sequence", || show_color(c), || format!("{:?} vs {:?}", seq, want));
            }
        }
    }
}
