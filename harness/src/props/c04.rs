//! C04 — reported coordinates agree with the published definitions (the Lean
//! colour model, written from the standards, is the independent evaluation).
use crate::gen::{self, Rng};
use crate::ops::{self, SPACES9};
use crate::session::Session;
use crate::Ctx;
use pastel::Color;

pub fn run(s: &mut Session, ctx: &Ctx) {
    let mut rng = Rng::new(ctx.seed);

    // ---- forward: coordinates of 8-bit colours ----
    let mut colors: Vec<(u8, u8, u8)> = vec![
        (255, 0, 0),
        (0, 255, 0),
        (0, 0, 255), // the primaries read the matrix columns off directly
        (255, 255, 255),
        (0, 0, 0),
    ];
    // neighbours of the transfer-function thresholds: 0.04045*255 = 10.3, 0.03928*255 = 10.02
    for a in [0u8, 1, 2, 9, 10, 11, 12] {
        for b in [0u8, 10, 11, 255] {
            colors.push((a, b, b));
            colors.push((b, a, b));
            colors.push((b, b, a));
        }
    }
    for g in 0..=255u8 {
        colors.push((g, g, g));
    }
    let step = if ctx.thorough { 3 } else { 15 };
    let mut r = 0usize;
    while r < 256 {
        let mut g = 0usize;
        while g < 256 {
            let mut b = 0usize;
            while b < 256 {
                colors.push((r as u8, g as u8, b as u8));
                b += step;
            }
            g += step;
        }
        r += step;
    }
    let n_random = if ctx.thorough { 300_000 } else { 6_000 };
    for _ in 0..n_random {
        colors.push(gen::rgb8(&mut rng));
    }
    for (r, g, b) in colors {
        let c = Color::from_rgb(r, g, b);
        let nontrivial = !(r == g && g == b);
        for kind in SPACES9 {
            ops::to_space(s, kind, &c, nontrivial);
        }
        ops::num1(s, "luminance", &c, nontrivial);
        ops::num1(s, "brightness", &c, nontrivial);
    }

    // ---- inverse: arbitrary coordinates, inside and far outside the gamut ----
    let n_inv = if ctx.thorough { 600_000 } else { 25_000 };
    for i in 0..n_inv {
        let kind = ["hsla", "hsva", "rgbaf", "xyz", "lms", "lab", "lch", "oklab"][i % 8];
        let a = gen::alpha(&mut rng);
        let (x, y, z) = match kind {
            "hsla" => (
                gen::finite_coord(&mut rng, 0.0, 360.0),
                gen::finite_coord(&mut rng, 0.0, 1.0),
                gen::finite_coord(&mut rng, 0.0, 1.0),
            ),
            // HSV only within its natural ranges (as the property says)
            "hsva" => (gen::finite_coord(&mut rng, 0.0, 360.0), rng.unit(), rng.unit()),
            "rgbaf" => (
                gen::finite_coord(&mut rng, 0.0, 1.0),
                gen::finite_coord(&mut rng, 0.0, 1.0),
                gen::finite_coord(&mut rng, 0.0, 1.0),
            ),
            "xyz" => (
                gen::finite_coord(&mut rng, 0.0, 0.95),
                gen::finite_coord(&mut rng, 0.0, 1.0),
                gen::finite_coord(&mut rng, 0.0, 1.09),
            ),
            "lms" => (
                gen::finite_coord(&mut rng, 0.0, 1.0),
                gen::finite_coord(&mut rng, 0.0, 1.0),
                gen::finite_coord(&mut rng, 0.0, 1.09),
            ),
            "lab" => (
                gen::finite_coord(&mut rng, 0.0, 100.0),
                gen::finite_coord(&mut rng, -128.0, 128.0),
                gen::finite_coord(&mut rng, -128.0, 128.0),
            ),
            "lch" => (
                gen::finite_coord(&mut rng, 0.0, 100.0),
                gen::finite_coord(&mut rng, 0.0, 150.0),
                gen::finite_coord(&mut rng, 0.0, 360.0),
            ),
            _ => (
                gen::finite_coord(&mut rng, 0.0, 1.0),
                gen::finite_coord(&mut rng, -0.4, 0.4),
                gen::finite_coord(&mut rng, -0.4, 0.4),
            ),
        };
        // "far outside" means finite magnitudes up to 1e6 here
        let lim = 1e6;
        if x.abs() > lim || y.abs() > lim || z.abs() > lim {
            continue;
        }
        ops::from_space(s, kind, x, y, z, a, true);
    }

    // ---- inverse, directed at the rounding ties: XYZ coordinates whose encoded sRGB channel lies a hair below
    // or above k + 1/2 (relative distance 1e-8 ... 1e-6) - where a constant that is off in the sixth digit
    // changes the 8-bit result. The coordinates are obtained by decoding the wanted channel values with the
    // published curve and solving the implementation's own 3x3 matrix for X, Y, Z.
    {
        let m = [[3.2406, -1.5372, -0.4986], [-0.9689, 1.8758, 0.0415], [0.0557, -0.2040, 1.0570]];
        let det = |a: [[f64; 3]; 3]| -> f64 {
            a[0][0] * (a[1][1] * a[2][2] - a[1][2] * a[2][1]) - a[0][1] * (a[1][0] * a[2][2] - a[1][2] * a[2][0]) + a[0][2] * (a[1][0] * a[2][1] - a[1][1] * a[2][0])
        };
        let solve = |t: [f64; 3]| -> [f64; 3] {
            let d = det(m);
            let mut out = [0.0; 3];
            for c in 0..3 {
                let mut a = m;
                for r in 0..3 {
                    a[r][c] = t[r];
                }
                out[c] = det(a) / d;
            }
            out
        };
        let decode = |e: f64| -> f64 { if e <= 0.04045 { e / 12.92 } else { ((e + 0.055) / 1.055).powf(2.4) } };
        let ks: Vec<u32> = if ctx.thorough { (0..255).collect() } else { (0..255).filter(|k| *k < 24 || k % 5 == 0).collect() };
        for k in ks {
            for ch in 0..3 {
                for delta in [-1e-6, -1e-7, -1e-8, 1e-8, 1e-7, 1e-6] {
                    let mut e = [rng.unit(), rng.unit(), rng.unit()];
                    e[ch] = (k as f64 + 0.5) * (1.0 + delta) / 255.0;
                    let xyz = solve([decode(e[0]), decode(e[1]), decode(e[2])]);
                    ops::from_space(s, "xyz", xyz[0], xyz[1], xyz[2], 1.0, true);
                    s.tag("inverse:directed-at-a-rounding-tie");
                }
            }
        }
    }

    // ---- HSL far outside its ranges, against the statement itself: the hexcone inverse evaluated on the
    // coordinates as given, then each sRGB channel clamped to [0,1] and rounded (no model involved) ----
    let n_hsl = if ctx.thorough { 400_000 } else { 20_000 };
    for i in 0..n_hsl {
        let h = if rng.below(4) == 0 { rng.range(-1e6, 1e6) } else { rng.range(-720.0, 720.0) };
        let out = |rng: &mut Rng| if rng.bool() { rng.range(1.0 + 1e-9, 3.0) } else { rng.range(-3.0, -1e-9) };
        let unit = |rng: &mut Rng| match rng.below(6) { 0 => 0.0, 1 => 1.0, _ => rng.unit() };
        // even cases: saturation outside [0,1] (lightness anywhere); odd cases: saturation inside, lightness outside
        let (sat, light, clause) = if i % 2 == 0 {
            (out(&mut rng), if rng.bool() { unit(&mut rng) } else { rng.range(-0.5, 1.5) }, "hsl-saturation-outside-0-1-is-transform-then-clamp")
        } else {
            (unit(&mut rng), out(&mut rng), "hsl-lightness-outside-0-1-is-transform-then-clamp")
        };
        let want = hexcone_then_clamp(h, sat, light);
        let want = match want {
            Some(w) => w,
            None => continue, // a channel within 1e-9 of a rounding tie
        };
        let got = match ops::guard(|| pastel::Color::from_hsla(h, sat, light, 1.0).to_rgba()) {
            Some(q) => [q.r, q.g, q.b],
            None => {
                s.fail("no-panic", "Color::from_hsla", format!("from_hsla({:?}, {:?}, {:?})", h, sat, light), "panic".into());
                continue;
            }
        };
        s.check(got == want, clause, "Color::from_hsla", || format!("from_hsla({:?}, {:?}, {:?}, 1.0)", h, sat, light), || format!("{:?}, the hexcone inverse followed by channel clamping gives {:?}", got, want));
    }
}

/// The hexcone HSL inverse on the coordinates as given (no clamping of s or l), followed by clamping each
/// channel to [0,1] and rounding to 8 bits. `None` when a channel is within 1e-9 of a rounding tie.
fn hexcone_then_clamp(h: f64, s: f64, l: f64) -> Option<[u8; 3]> {
    let h = h.rem_euclid(360.0);
    let c = (1.0 - (2.0 * l - 1.0).abs()) * s;
    let hp = h / 60.0;
    let x = c * (1.0 - (hp.rem_euclid(2.0) - 1.0).abs());
    let (r, g, b) = match hp.floor() as i64 {
        0 => (c, x, 0.0),
        1 => (x, c, 0.0),
        2 => (0.0, c, x),
        3 => (0.0, x, c),
        4 => (x, 0.0, c),
        _ => (c, 0.0, x),
    };
    let m = l - c / 2.0;
    let mut out = [0u8; 3];
    for (i, v) in [r + m, g + m, b + m].iter().enumerate() {
        let t = v.max(0.0).min(1.0) * 255.0;
        if ((t - t.floor()) - 0.5).abs() < 1e-9 {
            return None;
        }
        out[i] = t.round() as u8;
    }
    Some(out)
}
