//! C20 — colour-blindness simulation replaces only the missing cone's response.
use crate::gen::{self, Rng};
use crate::ops::{self, guard};
use crate::par::{self, Acc};
use crate::session::Session;
use crate::wire::{c_in, ok, show_color, x, Field};
use crate::Ctx;
use pastel::{Color, ColorblindnessType};

const KINDS: [&str; 3] = ["cb:prot", "cb:deuter", "cb:trit"];

fn cb(kind: &str, c: &Color) -> Color {
    c.simulate_colorblindness(match kind {
        "cb:prot" => ColorblindnessType::Protanopia,
        "cb:deuter" => ColorblindnessType::Deuteranopia,
        _ => ColorblindnessType::Tritanopia,
    })
}

/// Does the projected LMS triple map into the sRGB gamut without clipping?  (Only decides
/// when the "retained cones unchanged" clause applies.)
fn unclipped(l: f64, m: f64, sv: f64) -> bool {
    let x = 1.91020 * l - 1.112120 * m + 0.201908 * sv;
    let y = 0.37095 * l + 0.629054 * m;
    let z = sv;
    let lin = [
        3.2406 * x - 1.5372 * y - 0.4986 * z,
        -0.9689 * x + 1.8758 * y + 0.0415 * z,
        0.0557 * x - 0.2040 * y + 1.0570 * z,
    ];
    // strictly inside, with a margin of one 8-bit step in linear light
    lin.iter().all(|v| *v > 0.002 && *v < 0.99)
}

/// `adj cb:* C` with the model as the independent evaluation: 8-bit channels within one step.
fn cb_op(s: &mut Session, kind: &str, c: &Color, nontrivial: bool) -> Option<Color> {
    let v = guard(|| cb(kind, c));
    match &v {
        Some(r) => {
            let h = r.to_hsla();
            let q = r.to_rgba();
            s.op(
                format!("adj {} {}", kind, c_in(c)),
                ok(vec![Field::F(h.h), Field::F(h.s), Field::F(h.l), Field::F(h.alpha), Field::B1(q.r), Field::B1(q.g), Field::B1(q.b)]),
                nontrivial,
            );
        }
        None => {
            s.fail("no-panic", "Color::simulate_colorblindness", format!("{} {}", kind, show_color(c)), "panic".into());
            s.op(format!("adj {} {}", kind, c_in(c)), vec![x("panic")], nontrivial);
        }
    }
    v
}

pub fn run(s: &mut Session, ctx: &Ctx) {
    let mut rng = Rng::new(ctx.seed);
    // ---- direct oracle on the lattice / all colours ----
    let step = if ctx.thorough { 1 } else { 3 };
    let accs = par::for_all_rgb(step, Acc::default, |r, g, b, acc: &mut Acc| {
        acc.cases += 1;
        let k = r ^ g.rotate_left(2) ^ b.rotate_left(4);
        let alpha = if k % 3 == 0 { 1.0 } else { k as f64 / 255.0 };
        let c = Color::from_rgba(r, g, b, alpha);
        let lms = c.to_lms();
        for kind in KINDS {
            let out = cb(kind, &c);
            let o = out.to_rgba();
            let inp = || format!("rgba({},{},{},{:?}) {}", r, g, b, alpha, kind);
            acc.check(o.alpha == alpha, "alpha-carried", "Color::simulate_colorblindness", inp, || format!("alpha {:?}", o.alpha));
            if (r, g, b) == (0, 0, 0) {
                acc.check((o.r, o.g, o.b) == (0, 0, 0), "black-stays-black", "Color::simulate_colorblindness", inp, || format!("{:?}", o));
            }
            // retained cones unchanged up to quantisation when nothing clips
            let (pl, pm, ps) = match kind {
                "cb:prot" => (1.05118294 * lms.m - 0.05116099 * lms.s, lms.m, lms.s),
                "cb:deuter" => (lms.l, 0.9513092 * lms.l + 0.04866992 * lms.s, lms.s),
                _ => (lms.l, lms.m, -0.86744736 * lms.l + 1.86727089 * lms.m),
            };
            if unclipped(pl, pm, ps) {
                let o2 = out.to_lms();
                let tol = 0.012; // one 8-bit step per channel in linear light, through the HPE rows
                let (d1, d2) = match kind {
                    "cb:prot" => ((o2.m - lms.m).abs(), (o2.s - lms.s).abs()),
                    "cb:deuter" => ((o2.l - lms.l).abs(), (o2.s - lms.s).abs()),
                    _ => ((o2.l - lms.l).abs(), (o2.m - lms.m).abs()),
                };
                acc.check(d1 <= tol && d2 <= tol, "retained-cones-unchanged", "Color::simulate_colorblindness", inp, || format!("retained responses moved by {:?} and {:?}", d1, d2));
                acc.max("max-retained-cone-shift", d1.max(d2));
            }
        }
    });
    let maxima = par::merge(s, accs);
    for (k, v) in maxima {
        s.notes.push(format!("{} = {:?}", k, v));
    }
    if step == 1 {
        s.exhaustive.push("all 2^24 colours x 3 types: alpha, black, retained cones".into());
    }

    // ---- correspondence with the independent evaluation (the Lean model) ----
    let lstep = if ctx.thorough { 5 } else { 15 };
    let mut r = 0usize;
    while r < 256 {
        let mut g = 0usize;
        while g < 256 {
            let mut b = 0usize;
            while b < 256 {
                let c = Color::from_rgba(r as u8, g as u8, b as u8, gen::alpha(&mut rng));
                for kind in KINDS {
                    cb_op(s, kind, &c, !(r == g && g == b));
                }
                b += lstep;
            }
            g += lstep;
        }
        r += lstep;
    }
    let n = if ctx.thorough { 300_000 } else { 15_000 };
    for i in 0..n {
        let c = gen::color(&mut rng);
        cb_op(s, KINDS[i % 3], &c, true);
        if i % 10 == 0 {
            ops::to_space(s, "lms", &c, true);
        }
    }
}
