//! C06 — HSL adjustments change exactly the requested coordinate (library level;
//! the CLI `set` part runs through clirun).
use crate::gen::{self, Rng};
use crate::ops;
use crate::props::c05::NOISE;
use crate::session::Session;
use crate::wire::show_color;
use crate::Ctx;
use pastel::Color;

fn circ_dist(a: f64, b: f64) -> f64 {
    let d = (a - b).rem_euclid(360.0);
    d.min(360.0 - d)
}

fn clamp01(x: f64) -> f64 {
    if x < 0.0 {
        0.0
    } else if x > 1.0 {
        1.0
    } else {
        x
    }
}

pub fn amounts(rng: &mut Rng) -> f64 {
    match rng.below(10) {
        0 => 0.0,
        1 => rng.range(-2.0, 2.0),
        2 => 1e-17 * rng.unit(),
        3 => -1e-17 * rng.unit(),
        4 => *rng.pick(&[1.0, -1.0, 0.5, -0.5, 0.25, 1e300, -1e300]),
        _ => rng.range(-1.0, 1.0),
    }
}

pub fn run(s: &mut Session, ctx: &Ctx) {
    let mut rng = Rng::new(ctx.seed);
    let n = if ctx.thorough { 400_000 } else { 25_000 };
    let mut colors: Vec<Color> = gen::structured_colors();
    for _ in 0..n {
        colors.push(gen::color(&mut rng));
    }
    for c in &colors {
        let x = amounts(&mut rng);
        let h0 = c.to_hsla();
        let nontrivial = x != 0.0 && h0.s > 0.0 && h0.l > 0.0 && h0.l < 1.0;
        let inp = |name: &str| format!("{}.{}({:?})", show_color(c), name, x);
        // --- lighten / darken ---
        if let (Some(l), Some(d)) = (ops::adj(s, "lighten", c, Some(x), nontrivial), ops::adj(s, "darken", c, Some(-x), nontrivial)) {
            let h1 = l.to_hsla();
            s.check(circ_dist(h1.h, h0.h) <= 1e-9 && h1.s == h0.s && h1.alpha == h0.alpha, "lighten-leaves-others", "Color::lighten", || inp("lighten"), || format!("before {:?} after {:?}", h0, h1));
            s.check(h1.l == clamp01(h0.l + x), "lighten-adds-and-clamps", "Color::lighten", || inp("lighten"), || format!("l {:?} -> {:?}, expected {:?}", h0.l, h1.l, clamp01(h0.l + x)));
            let h2 = d.to_hsla();
            s.check(h2 == h1, "darken-is-lighten-neg", "Color::darken", || inp("darken(-x) vs lighten"), || format!("{:?} vs {:?}", h2, h1));
            // luminance monotonicity
            let (lum0, lum1) = (c.luminance(), l.luminance());
            if x >= 0.0 {
                s.check(lum1 >= lum0 - NOISE, "lighten-luminance-monotone", "Color::lighten", || inp("lighten"), || format!("luminance {:?} -> {:?}", lum0, lum1));
            } else {
                s.check(lum1 <= lum0 + NOISE, "darken-luminance-monotone", "Color::darken", || inp("lighten"), || format!("luminance {:?} -> {:?}", lum0, lum1));
            }
        }
        // --- saturate / desaturate ---
        if let (Some(a), Some(d)) = (ops::adj(s, "saturate", c, Some(x), nontrivial), ops::adj(s, "desaturate", c, Some(-x), nontrivial)) {
            let h1 = a.to_hsla();
            s.check(circ_dist(h1.h, h0.h) <= 1e-9 && h1.l == h0.l && h1.alpha == h0.alpha, "saturate-leaves-others", "Color::saturate", || inp("saturate"), || format!("before {:?} after {:?}", h0, h1));
            s.check(h1.s == clamp01(h0.s + x), "saturate-adds-and-clamps", "Color::saturate", || inp("saturate"), || format!("s {:?} -> {:?}", h0.s, h1.s));
            s.check(d.to_hsla() == h1, "desaturate-is-saturate-neg", "Color::desaturate", || inp("desaturate(-x) vs saturate"), || format!("{:?} vs {:?}", d.to_hsla(), h1));
        }
        // --- rotate ---
        let deg = match rng.below(6) {
            0 => 360.0 * (rng.below(41) as f64 - 20.0),
            1 => *rng.pick(&[0.0, 180.0, -180.0, 90.0, 1e-9, 359.99999]),
            2 => rng.range(-1e6, 1e6),
            _ => rng.range(-720.0, 720.0),
        };
        if let Some(r) = ops::adj(s, "rotate", c, Some(deg), deg != 0.0) {
            let h1 = r.to_hsla();
            let want = (h0.h + deg).rem_euclid(360.0);
            let tol = 1e-9 * (1.0 + deg.abs());
            s.check(circ_dist(h1.h, want) <= tol && h1.s == h0.s && h1.l == h0.l && h1.alpha == h0.alpha, "rotate-adds-mod-360", "Color::rotate_hue", || format!("{}.rotate_hue({:?})", show_color(c), deg), || format!("hue {:?} -> {:?}, expected {:?}; before {:?} after {:?}", h0.h, h1.h, want, h0, h1));
        }
        // whole turns are the identity (exact sums: dyadic hue, integer turns)
        let hd = (rng.below(360 * 1024) as f64) / 1024.0;
        let base = Color::from_hsla(hd, h0.s, h0.l, h0.alpha);
        let k = rng.below(41) as f64 - 20.0;
        if let Some(r) = ops::adj(s, "rotate", &base, Some(360.0 * k), true) {
            s.check(r.to_rgba() == base.to_rgba() && r.to_hsla().h == base.to_hsla().h, "whole-turn-identity", "Color::rotate_hue", || format!("{}.rotate_hue({:?})", show_color(&base), 360.0 * k), || format!("{:?} vs {:?}", r.to_hsla(), base.to_hsla()));
        }
        // very many whole turns (360 * k exactly representable) are still the identity
        let big = *rng.pick(&[1e6, 1e9, 1e12, 1e15, 1e16, 1099511627776.0, 4503599627370496.0, -1e15, -1e12]);
        if let Some(r) = ops::adj(s, "rotate", &base, Some(360.0 * big), true) {
            s.check(r.to_rgba() == base.to_rgba() && circ_dist(r.to_hsla().h, base.to_hsla().h) <= 1e-9, "whole-turn-identity", "Color::rotate_hue", || format!("{}.rotate_hue(360 * {:?})", show_color(&base), big), || format!("{:?} vs {:?}", r.to_hsla(), base.to_hsla()));
        }
        // huge angles that are NOT whole turns: an integer-valued f64 is reduced exactly, so the stored hue
        // reads back as that integer modulo 360 (computed here in 128-bit integers)
        {
            let m = rng.below(9_000_000_000) as i128 + 1;
            let e = rng.below(20) as u32;
            let v_int: i128 = m * 10i128.pow(e) * if rng.bool() { 1 } else { -1 };
            let v = v_int as f64;
            if (v as i128) == v_int {
                let want = v_int.rem_euclid(360) as f64;
                let got = Color::from_hsla(v, 1.0, 0.5, 1.0);
                s.check(circ_dist(got.to_hsla().h, want) <= 1e-9, "huge-angle-reduced-exactly", "Color::from_hsla", || format!("from_hsla({:?}, 1, 0.5, 1)", v), || format!("hue {:?}, {} mod 360 = {:?}", got.to_hsla().h, v_int, want));
                let rot = Color::from_hsla(0.0, 1.0, 0.5, 1.0).rotate_hue(v);
                s.check(circ_dist(rot.to_hsla().h, want) <= 1e-9, "huge-angle-reduced-exactly", "Color::rotate_hue", || format!("red.rotate_hue({:?})", v), || format!("hue {:?}, {} mod 360 = {:?}", rot.to_hsla().h, v_int, want));
            }
        }
        // complement is a self-inverse half turn
        if let Some(cc) = ops::adj(s, "complement", &base, None, true) {
            let h1 = cc.to_hsla();
            s.check(circ_dist(h1.h, hd + 180.0) <= 1e-9, "complement-half-turn", "Color::complementary", || format!("{}.complementary()", show_color(&base)), || format!("hue {:?}", h1.h));
            let back = cc.complementary();
            s.check(back.to_rgba() == base.to_rgba() && back.to_hsla().h == base.to_hsla().h, "complement-self-inverse", "Color::complementary", || format!("{}.complementary().complementary()", show_color(&base)), || format!("{:?} vs {:?}", back.to_hsla(), base.to_hsla()));
        }
    }
    // lightening across the cut of the sRGB linearisation: colours one of whose float channels
    // sits just below the threshold used by `luminance`, lightened by tiny amounts
    let n_seam = if ctx.thorough { 40_000 } else { 2_000 };
    for i in 0..n_seam {
        let cut = *rng.pick(&[0.03928, 0.04045]);
        let below = cut - rng.unit() * rng.unit() * 2e-5;
        let (h, sat) = if i % 3 == 0 { (0.0, 0.0) } else { (rng.range(0.0, 360.0), rng.unit() * 0.6) };
        // a lightness whose largest channel is `below`: l + chroma/2 = below with chroma = 2 l s (l < 1/2)
        let l = below / (1.0 + sat);
        let c = Color::from_hsl(h, sat, l);
        let x = rng.unit() * rng.unit() * 4e-5;
        let lit = c.lighten(x);
        let (lum0, lum1) = (c.luminance(), lit.luminance());
        s.count_case("", true);
        s.check(lum1 >= lum0 - NOISE, "lighten-luminance-monotone", "Color::lighten", || format!("{}.lighten({:?})", show_color(&c), x), || format!("luminance {:?} -> {:?}", lum0, lum1));
        let dk = lit.darken(x * rng.unit());
        let lum2 = dk.luminance();
        s.check(lum2 <= lum1 + NOISE, "darken-luminance-monotone", "Color::darken", || format!("{}.darken(..)", show_color(&lit)), || format!("luminance {:?} -> {:?}", lum1, lum2));
    }
    // luminance along l-lines of a lattice (thorough: finer)
    let steps = if ctx.thorough { 400 } else { 60 };
    for hi in 0..36 {
        for si in 0..=10 {
            let (h, sat) = (hi as f64 * 10.0, si as f64 / 10.0);
            let mut prev = -1.0;
            for li in 0..=steps {
                let c = Color::from_hsl(h, sat, li as f64 / steps as f64);
                let lum = c.luminance();
                s.count_case("", true);
                s.check(lum >= prev - NOISE, "luminance-monotone-in-lightness", "Color::luminance", || format!("hsl({}, {}, {}/{})", h, sat, li, steps), || format!("{:?} after {:?}", lum, prev));
                prev = lum;
            }
        }
    }
}
