//! C08 — colour scales hit their stops and interpolate between neighbours (library level;
//! `pastel gradient` runs through clirun).
use crate::gen::{self, Rng};
use crate::ops::{guard, mix_impl, MIX_SPACES};
use crate::session::Session;
use crate::wire::{c_in, c_out, f, ok, show_color, x, Field};
use crate::Ctx;
use pastel::{Color, ColorScale, Fraction};

/// Positions and 8-bit colours of the stops, read from the Debug rendering.
fn parse_debug(s: &str) -> Vec<(f64, (u8, u8, u8))> {
    let mut out = vec![];
    let mut rest = s;
    while let Some(i) = rest.find("Color::from_rgb") {
        rest = &rest[i..];
        let open = rest.find('(').unwrap();
        let close = rest.find(')').unwrap();
        let nums: Vec<&str> = rest[open + 1..close].split(',').collect();
        let rgb = (nums[0].trim().parse().unwrap(), nums[1].trim().parse().unwrap(), nums[2].trim().parse().unwrap());
        let fi = rest.find("f: ").unwrap();
        let tail = &rest[fi + 3..];
        let end = tail.find(|c: char| c == ' ' || c == '}').unwrap();
        let pos: f64 = tail[..end].trim().parse().unwrap();
        out.push((pos, rgb));
        rest = &tail[end..];
    }
    out
}

/// What a `Fraction` is, stated independently of `Fraction::from`: the value clamped to [0,1]
/// (nothing else moves; NaN is read as 1, as `clamp(0, 1, NaN)` does).
fn frac(p: f64) -> f64 {
    if p.is_nan() {
        1.0
    } else if p < 0.0 {
        0.0
    } else if p > 1.0 {
        1.0
    } else {
        p
    }
}

fn rgb(c: &Color) -> (u8, u8, u8) {
    let q = c.to_rgba();
    (q.r, q.g, q.b)
}

/// One history: adds, dump, samples — on implementation, model and oracle.
fn history(s: &mut Session, adds: &[(f64, Color)], samples: &[f64], space: &str, nontrivial: bool) {
    s.hold = true;
    let mut sc = ColorScale::empty();
    s.op("scale new".into(), vec![x("ok")], false);
    for (p, c) in adds {
        sc.add_stop(c.clone(), Fraction::from(*p));
        s.op(format!("scale add {} {}", f(*p), c_in(c)), vec![x("ok")], nontrivial);
    }
    let dbg = format!("{:?}", sc);
    let stops = parse_debug(&dbg);
    let mut fields = vec![x("ok"), x(stops.len())];
    for (p, (r, g, b)) in &stops {
        fields.push(Field::F(*p));
        fields.push(x(r));
        fields.push(x(g));
        fields.push(x(b));
    }
    s.op("scale dump".into(), fields, nontrivial);
    let hist = || format!("adds {:?}", adds.iter().map(|(p, c)| (*p, show_color(c))).collect::<Vec<_>>());
    // --- oracle: the scale is the map position -> most recently added colour, sorted ---
    let mut expect: Vec<(f64, (u8, u8, u8))> = vec![];
    for (p, c) in adds {
        let p = frac(*p);
        if let Some(e) = expect.iter_mut().find(|e| e.0 == p) {
            e.1 = rgb(c);
        } else {
            expect.push((p, rgb(c)));
        }
    }
    expect.sort_by(|a, b| a.0.partial_cmp(&b.0).unwrap());
    let same = expect.len() == stops.len() && expect.iter().zip(stops.iter()).all(|(a, b)| a.0 == b.0 && a.1 == b.1);
    s.check(same, "scale-is-last-write-map", "ColorScale::add_stop", hist, || format!("stops {:?}, expected {:?}", stops, expect));
    // --- sampling ---
    let mixf = |a: &Color, b: &Color, fr: Fraction| mix_impl(space, a, b, fr.value());
    // colours of the stops as Color values (last write per position)
    let mut stop_cols: Vec<(f64, Color)> = vec![];
    for (p, c) in adds {
        let p = frac(*p);
        if let Some(e) = stop_cols.iter_mut().find(|e| e.0 == p) {
            e.1 = c.clone();
        } else {
            stop_cols.push((p, c.clone()));
        }
    }
    stop_cols.sort_by(|a, b| a.0.partial_cmp(&b.0).unwrap());
    for &q in samples {
        let got = guard(|| sc.sample(Fraction::from(q), &mixf));
        let op = format!("scale sample {} {}", f(q), space);
        let inp = || format!("{} ; sample {:?} in {}", hist(), q, space);
        let got = match got {
            None => {
                s.fail("no-panic", "ColorScale::sample", inp(), "panic".into());
                s.op(op, vec![x("panic")], nontrivial);
                continue;
            }
            Some(g) => g,
        };
        match &got {
            None => s.op(op, vec![x("none")], nontrivial),
            Some(c) => s.op(op, ok(c_out(c)), nontrivial),
        }
        let qv = frac(q);
        let n = stop_cols.len();
        let outside = n < 2 || qv < stop_cols[0].0 || qv > stop_cols[n - 1].0;
        if outside {
            s.check(got.is_none(), "sample-none-outside", "ColorScale::sample", inp, || format!("got {:?}", got.as_ref().map(show_color)));
            continue;
        }
        let got = match got {
            Some(g) => g,
            None => {
                s.fail("sample-some-inside", "ColorScale::sample", inp(), "None inside the span".into());
                continue;
            }
        };
        if let Some(st) = stop_cols.iter().find(|e| e.0 == qv) {
            // exactly at a stop: the stop's own colour, as it is (any colour, in every mixing space)
            s.check(got.to_hsla() == st.1.to_hsla(), "sample-at-stop-exact", "ColorScale::sample", inp, || format!("got {} expected {}", show_color(&got), show_color(&st.1)));
        } else {
            let i = stop_cols.iter().position(|e| e.0 > qv).unwrap();
            let (l, r) = (&stop_cols[i - 1], &stop_cols[i]);
            let want = mix_impl(space, &l.1, &r.1, (qv - l.0) / (r.0 - l.0));
            s.check(want.to_rgba() == got.to_rgba(), "sample-mix-of-neighbours", "ColorScale::sample", inp, || format!("got {} expected {}", show_color(&got), show_color(&want)));
        }
    }
    s.release();
}

pub fn run(s: &mut Session, ctx: &Ctx) {
    let mut rng = Rng::new(ctx.seed);
    let positions = [0.0, 0.25, 0.5, 0.5, 1.0, -3.0, 7.0, f64::NAN];
    let cols = [Color::from_rgb(255, 0, 0), Color::from_rgb(0, 0, 255), Color::from_rgba(10, 200, 90, 0.5)];
    let samples = [0.0, 0.1, 0.25, 0.3, 0.5, 0.75, 1.0, -1.0, 2.0];
    // ---- exhaustive small histories ----
    let max_len = if ctx.thorough { 4 } else { 3 };
    let choices = positions.len() * cols.len();
    let mut count = 0u64;
    for len in 0..=max_len {
        let total = choices.pow(len as u32);
        for code in 0..total {
            let mut c = code;
            let adds: Vec<(f64, Color)> = (0..len)
                .map(|_| {
                    let ch = c % choices;
                    c /= choices;
                    (positions[ch / cols.len()], cols[ch % cols.len()].clone())
                })
                .collect();
            let sp = MIX_SPACES[code % 6];
            // a history is non-trivial when a position repeats or an insertion is out of order
            let ps: Vec<f64> = adds.iter().map(|a| frac(a.0)).collect();
            let nontrivial = (0..ps.len()).any(|i| (0..i).any(|j| ps[j] == ps[i] || ps[j] > ps[i]));
            history(s, &adds, &samples, sp, nontrivial);
            count += 1;
        }
    }
    // ---- positions next to the ends and next to each other: distinct positions stay distinct stops ----
    let near = [0.0, 5e-324, 1e-300, 1e-12, 1e-9, 1e-6, 0.5 - 1e-12, 0.5, 0.5 + 1e-12, 1.0 - 1e-6, 1.0 - 1e-9, 1.0 - 1e-12, 1.0 - f64::EPSILON / 2.0, 1.0];
    let near_samples = [0.0, 5e-324, 1e-13, 1e-12, 2e-12, 1e-9, 0.25, 0.5, 1.0 - 1e-9, 1.0 - 2e-12, 1.0 - 1e-12, 1.0 - 1e-13, 1.0];
    for k in 0..(if ctx.thorough { 3000 } else { 400 }) {
        let len = 2 + rng.below(3) as usize;
        let adds: Vec<(f64, Color)> = (0..len).map(|_| (near[rng.below(near.len() as u64) as usize], gen::color8(&mut rng))).collect();
        history(s, &adds, &near_samples, MIX_SPACES[k % 6], true);
        count += 1;
    }
    s.tag_n("histories:exhaustive", count);
    s.exhaustive.push(format!("all add-stop histories of length <= {} over 8 positions x 3 colours, 9 sample points each", max_len));
    // ---- all permutations of random histories: order-independence ----
    let reps = if ctx.thorough { 3000 } else { 200 };
    for _ in 0..reps {
        let len = 2 + rng.below(4) as usize;
        // distinct positions, so that every order must give the same scale
        let mut adds: Vec<(f64, Color)> = vec![];
        while adds.len() < len {
            let p = (rng.below(17) as f64) / 16.0;
            if !adds.iter().any(|a| a.0 == p) {
                adds.push((p, gen::color8(&mut rng)));
            }
        }
        let mut order: Vec<usize> = (0..len).collect();
        let mut reference: Option<String> = None;
        // Heap's algorithm, iteratively: all permutations
        let mut cstate = vec![0usize; len];
        let mut i = 0;
        let mut first = true;
        loop {
            if first || i < len {
                if first || cstate[i] < i {
                    if !first {
                        if i % 2 == 0 {
                            order.swap(0, i);
                        } else {
                            order.swap(cstate[i], i);
                        }
                    }
                    let mut sc = ColorScale::empty();
                    for &k in &order {
                        sc.add_stop(adds[k].1.clone(), Fraction::from(adds[k].0));
                    }
                    let d = format!("{:?}", sc);
                    s.count_case("", true);
                    match &reference {
                        None => reference = Some(d),
                        Some(r) => s.check(*r == d, "order-independent", "ColorScale::add_stop", || format!("adds {:?} in order {:?}", adds.iter().map(|a| a.0).collect::<Vec<_>>(), order), || format!("{} vs {}", r, d)),
                    }
                    if !first {
                        cstate[i] += 1;
                        i = 0;
                    }
                    first = false;
                } else {
                    cstate[i] = 0;
                    i += 1;
                }
            } else {
                break;
            }
        }
    }
    // ---- random long histories with arbitrary float positions ----
    let reps = if ctx.thorough { 2000 } else { 150 };
    for r in 0..reps {
        let len = rng.below(41) as usize;
        let adds: Vec<(f64, Color)> = (0..len)
            .map(|_| {
                let p = match rng.below(6) {
                    0 => (rng.below(5) as f64) / 4.0,
                    1 => gen::coord(&mut rng, 0.0, 1.0),
                    _ => rng.unit(),
                };
                (p, gen::color8(&mut rng))
            })
            .collect();
        let mut smp: Vec<f64> = (0..6).map(|_| rng.unit()).collect();
        if let Some(a) = adds.first() {
            smp.push(a.0);
        }
        history(s, &adds, &smp, MIX_SPACES[r % 6], true);
    }
}
