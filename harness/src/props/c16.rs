//! C16 — random colour strategies respect their documented constraints.
use crate::gen::Rng;
use crate::ops::guard;
use crate::props::c14::LogRng;
use crate::session::Session;
use crate::wire::{c_out, ok, show_color, x};
use crate::Ctx;
use pastel::random::strategies::{UniformGray, UniformHueLCh, UniformRGB, Vivid};
use pastel::random::RandomizationStrategy;
use pastel::Color;
use std::cell::RefCell;
use std::rc::Rc;

fn generate(kind: &str, rng: &mut LogRng) -> Color {
    match kind {
        "vivid" => Vivid.generate_with(rng),
        "rgb" => UniformRGB.generate_with(rng),
        "gray" => UniformGray.generate_with(rng),
        _ => UniformHueLCh.generate_with(rng),
    }
}

pub fn run(s: &mut Session, ctx: &Ctx) {
    let mut seedgen = Rng::new(ctx.seed);
    let per_stream = if ctx.thorough { 300_000 } else { 15_000 };
    for kind in ["vivid", "rgb", "gray", "lch_hue"] {
        // counters for reachability / equal frequency over the uniform stream
        let mut hue_sector = [0u64; 6];
        let mut chan = [[0u64; 256]; 3];
        let mut gray_level = [0u64; 256];
        let mut gray_bin = [0u64; 256];
        let mut uniform_n = 0u64;
        for rng_kind in 0..7u8 {
            let log = Rc::new(RefCell::new(Vec::<u64>::new()));
            let mut rng = LogRng { kind: rng_kind, state: Rng::new(seedgen.next()), counter: 0, log: log.clone() };
            let n = if rng_kind == 0 { per_stream } else if rng_kind == 6 { per_stream / 5 } else { 200 };
            for _ in 0..n {
                log.borrow_mut().clear();
                let res = guard(|| generate(kind, &mut rng));
                let draws: Vec<u64> = log.borrow().clone();
                let op = format!("rand {} {} {}", kind, draws.len(), draws.iter().map(|d| d.to_string()).collect::<Vec<_>>().join(" "));
                let inp = || format!("{} with draws {:?} (stream {})", kind, draws, rng_kind);
                let c = match res {
                    None => {
                        s.fail("no-panic", "RandomizationStrategy::generate_with", inp(), "panic".into());
                        s.op(op, vec![x("panic")], true);
                        continue;
                    }
                    Some(c) => c,
                };
                if rng_kind == 6 {
                    // landmark draws sit exactly on rounding ties of the 8-bit result (0.5 -> 127.5), where a last-bit
                    // difference of an equivalent formula flips a byte: this stream is judged by the direct oracles
                    // of the ranges only, not by equality with the model
                    s.count_case(&op, true);
                } else {
                    s.op(op, ok(c_out(&c)), true);
                }
                let h = c.to_hsla();
                let q = c.to_rgba();
                s.check(q.alpha == 1.0, "opaque", &format!("strategies::{}", kind), inp, || format!("alpha {:?}", q.alpha));
                match kind {
                    "vivid" => {
                        s.check(h.s >= 0.2 && h.s <= 0.8 && h.l >= 0.3 && h.l <= 0.7, "vivid-ranges", "strategies::Vivid", inp, || format!("s={:?} l={:?}", h.s, h.l));
                        if rng_kind == 0 {
                            hue_sector[((h.h / 60.0) as usize).min(5)] += 1;
                        }
                    }
                    "gray" => {
                        s.check(q.r == q.g && q.g == q.b, "gray-achromatic", "strategies::UniformGray", inp, || show_color(&c));
                        if rng_kind == 0 {
                            gray_level[q.r as usize] += 1;
                            gray_bin[((h.l * 256.0) as usize).min(255)] += 1;
                        }
                    }
                    "rgb" => {
                        if rng_kind == 0 {
                            chan[0][q.r as usize] += 1;
                            chan[1][q.g as usize] += 1;
                            chan[2][q.b as usize] += 1;
                        }
                    }
                    _ => {
                        let lch = c.to_lch();
                        s.check((lch.l - 70.0).abs() <= 0.5 && (lch.c - 35.0).abs() <= 1.0, "lch-hue-on-L70-C35", "strategies::UniformHueLCh", inp, || format!("L={:?} C={:?}", lch.l, lch.c));
                        if rng_kind == 0 {
                            hue_sector[((lch.h / 60.0) as usize).min(5)] += 1;
                        }
                    }
                }
                if rng_kind == 0 {
                    uniform_n += 1;
                }
            }
        }
        // roughly equal frequency (counting; bounds twelve standard deviations wide) — statistical, not proof
        let within = |count: u64, n: u64, p: f64| {
            let mean = n as f64 * p;
            let sd = (n as f64 * p * (1.0 - p)).sqrt();
            (count as f64 - mean).abs() <= 12.0 * sd + 1.0
        };
        if kind == "lch_hue" {
            // LCh hue in twelve 30-degree sectors over a long uniform stream: the circle L=70, C=35 has only
            // about 660 distinct 8-bit colours, which by itself moves a 30-degree sector by up to 5 %, so the
            // bound is 12 sigma plus 6 % of the expectation; a direction drawn 28 % more often still shows
            let nl: u64 = if ctx.thorough { 2_000_000 } else { 300_000 };
            let log = Rc::new(RefCell::new(Vec::<u64>::new()));
            let mut rng = LogRng { kind: 0, state: Rng::new(seedgen.next()), counter: 0, log: log.clone() };
            let mut sect = [0u64; 12];
            for _ in 0..nl {
                log.borrow_mut().clear();
                let c = generate(kind, &mut rng);
                sect[((c.to_lch().h / 30.0) as usize).min(11)] += 1;
            }
            s.count_case("", true);
            let mean = nl as f64 / 12.0;
            let sd = (nl as f64 * (1.0 / 12.0) * (11.0 / 12.0)).sqrt();
            for (i, c) in sect.iter().enumerate() {
                s.check((*c as f64 - mean).abs() <= 12.0 * sd + 0.06 * mean, "lch-hue-sectors-equally-frequent", "strategies::UniformHueLCh", || format!("LCh hue in [{}, {}) over {} uniform draws", 30 * i, 30 * i + 30, nl), || format!("{} hits, expected about {}", c, mean as u64));
            }
        }
        if kind == "vivid" {
            // fine histogram (one-degree sectors) over a long uniform stream, implementation only:
            // a hue direction that is produced twice as often as the others shows here
            let nfine: u64 = if ctx.thorough { 2_000_000 } else { 400_000 };
            let log = Rc::new(RefCell::new(Vec::<u64>::new()));
            let mut rng = LogRng { kind: 0, state: Rng::new(seedgen.next()), counter: 0, log: log.clone() };
            let mut fine = [0u64; 360];
            for _ in 0..nfine {
                log.borrow_mut().clear();
                let c = generate(kind, &mut rng);
                let hh = c.to_hsla().h;
                fine[(hh as usize) % 360] += 1;
            }
            s.count_case("", true);
            for (i, c) in fine.iter().enumerate() {
                s.check(within(*c, nfine, 1.0 / 360.0), "hue-degrees-equally-frequent", "strategies::Vivid", || format!("hue in [{}, {}) over {} uniform draws", i, i + 1, nfine), || format!("{} hits, expected about {}", c, nfine / 360));
            }
        }
        match kind {
            "vivid" | "lch_hue" => {
                for (i, c) in hue_sector.iter().enumerate() {
                    s.check(*c > 0 && within(*c, uniform_n, 1.0 / 6.0), "hue-sectors-equally-frequent", &format!("strategies::{}", kind), || format!("sector {} over {} uniform draws", i, uniform_n), || format!("{} hits", c));
                }
            }
            "rgb" => {
                for ch in 0..3 {
                    let missing = chan[ch].iter().filter(|c| **c == 0).count();
                    s.check(missing == 0 || uniform_n < 10_000, "every-channel-value-reachable", "strategies::UniformRGB", || format!("channel {} over {} draws", ch, uniform_n), || format!("{} values never hit", missing));
                    for (v, c) in chan[ch].iter().enumerate() {
                        s.check(within(*c, uniform_n, 1.0 / 256.0), "channel-values-equally-frequent", "strategies::UniformRGB", || format!("channel {} value {}", ch, v), || format!("{} hits of {}", c, uniform_n));
                    }
                }
            }
            _ => {
                let missing = gray_level.iter().filter(|c| **c == 0).count();
                s.check(missing == 0 || uniform_n < 10_000, "every-gray-level-reachable", "strategies::UniformGray", || format!("{} draws", uniform_n), || format!("{} levels never hit", missing));
                // the gray level is the lightness: 256 equal-width lightness bins are equally frequent
                for (v, c) in gray_bin.iter().enumerate() {
                    s.check(within(*c, uniform_n, 1.0 / 256.0), "gray-lightness-uniform", "strategies::UniformGray", || format!("lightness bin {}/256", v), || format!("{} hits of {}", c, uniform_n));
                }
                // read as 8-bit values: a strategy that rounds a uniform lightness gives the end values 0 and 255
                // half a step each (the pinned code), one that draws the level itself gives them a full step;
                // "roughly equal frequency" admits both, so the end values may lie anywhere between the two
                // expectations (12 sigma outside them); the interior values between 1/256 and 1/255
                for (v, c) in gray_level.iter().enumerate() {
                    let (plo, phi) = if v == 0 || v == 255 { (0.5 / 255.0, 1.0 / 255.0) } else { (1.0 / 256.0, 1.0 / 255.0) };
                    let n = uniform_n as f64;
                    let lo = n * plo - 12.0 * (n * plo * (1.0 - plo)).sqrt() - 1.0;
                    let hi = n * phi + 12.0 * (n * phi * (1.0 - phi)).sqrt() + 1.0;
                    s.check((*c as f64) >= lo && (*c as f64) <= hi, "gray-levels-equally-frequent", "strategies::UniformGray", || format!("level {}", v), || format!("{} hits of {}", c, uniform_n));
                }
            }
        }
    }
}
