//! C11 — colour-difference metrics are true distances; CIEDE2000 matches Sharma et al.
use crate::gen::Rng;
use crate::ops;
use crate::session::Session;
use crate::wire::{f, ok, Field};
use crate::Ctx;

/// The 34 pairs of Table 1 of Sharma, Wu & Dalal (2005) with the published ΔE00.
pub const SHARMA: [([f64; 3], [f64; 3], f64); 34] = [
    ([50.0000, 2.6772, -79.7751], [50.0000, 0.0000, -82.7485], 2.0425),
    ([50.0000, 3.1571, -77.2803], [50.0000, 0.0000, -82.7485], 2.8615),
    ([50.0000, 2.8361, -74.0200], [50.0000, 0.0000, -82.7485], 3.4412),
    ([50.0000, -1.3802, -84.2814], [50.0000, 0.0000, -82.7485], 1.0000),
    ([50.0000, -1.1848, -84.8006], [50.0000, 0.0000, -82.7485], 1.0000),
    ([50.0000, -0.9009, -85.5211], [50.0000, 0.0000, -82.7485], 1.0000),
    ([50.0000, 0.0000, 0.0000], [50.0000, -1.0000, 2.0000], 2.3669),
    ([50.0000, -1.0000, 2.0000], [50.0000, 0.0000, 0.0000], 2.3669),
    ([50.0000, 2.4900, -0.0010], [50.0000, -2.4900, 0.0009], 7.1792),
    ([50.0000, 2.4900, -0.0010], [50.0000, -2.4900, 0.0010], 7.1792),
    ([50.0000, 2.4900, -0.0010], [50.0000, -2.4900, 0.0011], 7.2195),
    ([50.0000, 2.4900, -0.0010], [50.0000, -2.4900, 0.0012], 7.2195),
    ([50.0000, -0.0010, 2.4900], [50.0000, 0.0009, -2.4900], 4.8045),
    ([50.0000, -0.0010, 2.4900], [50.0000, 0.0010, -2.4900], 4.8045),
    ([50.0000, -0.0010, 2.4900], [50.0000, 0.0011, -2.4900], 4.7461),
    ([50.0000, 2.5000, 0.0000], [50.0000, 0.0000, -2.5000], 4.3065),
    ([50.0000, 2.5000, 0.0000], [73.0000, 25.0000, -18.0000], 27.1492),
    ([50.0000, 2.5000, 0.0000], [61.0000, -5.0000, 29.0000], 22.8977),
    ([50.0000, 2.5000, 0.0000], [56.0000, -27.0000, -3.0000], 31.9030),
    ([50.0000, 2.5000, 0.0000], [58.0000, 24.0000, 15.0000], 19.4535),
    ([50.0000, 2.5000, 0.0000], [50.0000, 3.1736, 0.5854], 1.0000),
    ([50.0000, 2.5000, 0.0000], [50.0000, 3.2972, 0.0000], 1.0000),
    ([50.0000, 2.5000, 0.0000], [50.0000, 1.8634, 0.5757], 1.0000),
    ([50.0000, 2.5000, 0.0000], [50.0000, 3.2592, 0.3350], 1.0000),
    ([60.2574, -34.0099, 36.2677], [60.4626, -34.1751, 39.4387], 1.2644),
    ([63.0109, -31.0961, -5.8663], [62.8187, -29.7946, -4.0864], 1.2630),
    ([61.2901, 3.7196, -5.3901], [61.4292, 2.2480, -4.9620], 1.8731),
    ([35.0831, -44.1164, 3.7933], [35.0232, -40.0716, 1.5901], 1.8645),
    ([22.7233, 20.0904, -46.6940], [23.0331, 14.9730, -42.5619], 2.0373),
    ([36.4612, 47.8580, 18.3852], [36.2715, 50.5065, 21.2231], 1.4146),
    ([90.8027, -2.0831, 1.4410], [91.1528, -1.6435, 0.0447], 1.4441),
    ([90.9257, -0.5406, -0.9208], [88.6381, -0.8985, -0.7239], 1.5381),
    ([6.7747, -0.2908, -2.4247], [5.8714, -0.0985, -2.2286], 0.6377),
    ([2.0776, 0.0795, -1.1350], [0.9033, -0.0636, -0.5514], 0.9082),
];

fn lab_point(rng: &mut Rng) -> [f64; 3] {
    match rng.below(12) {
        0 => [rng.range(0.0, 100.0), 0.0, 0.0], // zero chroma
        1 => {
            // on an axis
            let v = rng.range(-128.0, 128.0);
            if rng.bool() {
                [rng.range(0.0, 100.0), v, 0.0]
            } else {
                [rng.range(0.0, 100.0), 0.0, v]
            }
        }
        2 => {
            // far beyond the gamut: any scale up to 1e40 (L negative too)
            let m = 10f64.powf(rng.range(2.0, 40.0));
            [rng.range(-m, m), rng.range(-m, m), rng.range(-m, m)]
        }
        3 => {
            // chroma around 25 (the knee of G and R_C)
            let h = rng.range(0.0, 6.283185307179586);
            let c = rng.range(20.0, 30.0);
            [rng.range(0.0, 100.0), c * h.cos(), c * h.sin()]
        }
        4 => {
            // small chroma
            [rng.range(0.0, 100.0), rng.range(-0.01, 0.01), rng.range(-0.01, 0.01)]
        }
        _ => [rng.range(0.0, 100.0), rng.range(-128.0, 128.0), rng.range(-128.0, 128.0)],
    }
}

/// A partner whose hue relation to `p` is concentrated on the case boundaries.
fn partner(rng: &mut Rng, p: [f64; 3]) -> [f64; 3] {
    let c = (p[1] * p[1] + p[2] * p[2]).sqrt();
    let h = p[2].atan2(p[1]);
    match rng.below(8) {
        0 => p,
        1 | 2 => {
            // hue difference around 180 degrees (but not exactly), hue sum around 360
            let d = 3.141592653589793 + rng.range(-0.2, 0.2);
            let c2 = c * rng.range(0.5, 1.5);
            [p[0] + rng.range(-5.0, 5.0), c2 * (h + d).cos(), c2 * (h + d).sin()]
        }
        3 => {
            // mean-hue wrap-around: hues on both sides of 0/360
            let h1 = rng.range(-0.5, 0.5);
            let c2 = rng.range(1.0, 100.0);
            [rng.range(0.0, 100.0), c2 * h1.cos(), c2 * h1.sin()]
        }
        4 => {
            // hue near 275 degrees (R_T's rotation term)
            let h1 = (275.0f64 + rng.range(-30.0, 30.0)).to_radians();
            let c2 = rng.range(10.0, 120.0);
            [rng.range(0.0, 100.0), c2 * h1.cos(), c2 * h1.sin()]
        }
        _ => lab_point(rng),
    }
}

fn show(p: [f64; 3]) -> String {
    format!("Lab({:?}, {:?}, {:?})", p[0], p[1], p[2])
}

pub fn run(s: &mut Session, ctx: &Ctx) {
    let mut rng = Rng::new(ctx.seed);
    let n = if ctx.thorough { 1_500_000 } else { 60_000 };
    let mut pairs: Vec<([f64; 3], [f64; 3])> = SHARMA.iter().map(|t| (t.0, t.1)).collect();
    // corpus check against the published values (4 decimals)
    for (p, q, want) in SHARMA.iter() {
        let got = pastel::delta_e::ciede2000(&ops::lab(p[0], p[1], p[2]), &ops::lab(q[0], q[1], q[2]));
        s.count_case(&format!("sharma {:?} {:?}", p, q), true);
        // a pair whose hues are exactly opposite sits on the standard's discontinuity, where the statement
        // accepts either branch (one row of the published table, 50/-0.001/2.49 against 50/0.001/-2.49, is such a
        // pair; the published value is one of the two branches)
        if (crate::sharma::hue_gap(*p, *q) - 180.0).abs() <= 1e-9 {
            s.tag("published-table:exactly-opposite-hues-either-branch");
            s.check(got.is_finite() && got >= 0.0, "ciede2000-finite-nonneg", "delta_e::ciede2000", || format!("{} {}", show(*p), show(*q)), || format!("{:?}", got));
            continue;
        }
        s.check((got - want).abs() <= 1e-4, "matches-published-table", "delta_e::ciede2000", || format!("{} {}", show(*p), show(*q)), || format!("got {:?}, published {:?}", got, want));
    }
    for i in 0..n {
        let p = lab_point(&mut rng);
        let q = partner(&mut rng, p);
        pairs.push((p, q));
        // symmetric inputs: the partner is a permutation of the point's own coordinates; the next pair is an
        // identical pair, the one after it the same pair with two coordinates exchanged (a function of its
        // inputs gives 0 for the one and its own value for the other, whatever was computed before)
        if i % 16 == 0 {
            let perm = match (i / 16) % 3 { 0 => [p[1], p[2], p[0]], 1 => [p[2], p[0], p[1]], _ => [p[0], p[2], p[1]] };
            pairs.push((p, perm));
            let z = lab_point(&mut rng);
            pairs.push((z, z));
            pairs.push((p, perm));
            pairs.push(([p[0], p[2], p[1]], perm));
        }
    }
    for (i, (p, q)) in pairs.iter().enumerate() {
        let (p, q) = (*p, *q);
        let inp = || format!("{} {}", show(p), show(q));
        let nontrivial = p != q;
        // correspondence: code vs line-by-line model
        let d76 = ops::de(s, "cie76", p, q, nontrivial);
        let d00 = ops::de(s, "ciede2000", p, q, nontrivial);
        // agreement with the independent Sharma formula (model side): absolute tolerance 0.001
        if let Some(v) = d00 {
            s.op(
                format!("de sharma {} {} {} {} {} {}", f(p[0]), f(p[1]), f(p[2]), f(q[0]), f(q[1]), f(q[2])),
                ok(vec![Field::FA(v, 1e-3)]),
                nontrivial,
            );
        }
        if let (Some(d76), Some(d00)) = (d76, d00) {
            let finite_in = p.iter().chain(q.iter()).all(|x| x.abs() <= 1e40);
            if finite_in {
                s.check(d76.is_finite() && d76 >= 0.0, "cie76-finite-nonneg", "delta_e::cie76", inp, || format!("{:?}", d76));
                s.check(d00.is_finite() && d00 >= 0.0, "ciede2000-finite-nonneg", "delta_e::ciede2000", inp, || format!("{:?}", d00));
            }
            if p == q {
                s.check(d76 == 0.0 && d00 == 0.0, "zero-on-identical", "delta_e", inp, || format!("cie76 {:?} ciede2000 {:?}", d76, d00));
            }
            // symmetry
            let r76 = pastel::delta_e::cie76(&ops::lab(q[0], q[1], q[2]), &ops::lab(p[0], p[1], p[2]));
            let r00 = pastel::delta_e::ciede2000(&ops::lab(q[0], q[1], q[2]), &ops::lab(p[0], p[1], p[2]));
            s.check(crate::session::floats_close(d76, r76), "cie76-symmetric", "delta_e::cie76", inp, || format!("{:?} vs {:?}", d76, r76));
            s.check((d00 - r00).abs() <= 1e-9 * d00.abs().max(1.0), "ciede2000-symmetric", "delta_e::ciede2000", inp, || format!("{:?} vs {:?}", d00, r00));
            // triangle inequality for CIE76 with a third point
            if i % 3 == 0 {
                let r = lab_point(&mut rng);
                let a = pastel::delta_e::cie76(&ops::lab(p[0], p[1], p[2]), &ops::lab(r[0], r[1], r[2]));
                let b = pastel::delta_e::cie76(&ops::lab(r[0], r[1], r[2]), &ops::lab(q[0], q[1], q[2]));
                s.check(d76 <= (a + b) * (1.0 + 1e-12) + 1e-12, "cie76-triangle", "delta_e::cie76", || format!("{} {} via {}", show(p), show(q), show(r)), || format!("{:?} > {:?} + {:?}", d76, a, b));
            }
        }
    }
    // the IEEE range: intermediate powers overflow long before the distance itself does
    for (p, q) in [([50.0, 1.1e44, 0.0], [50.0, 1.1e44, 0.0]), ([50.0, 1.1e44, 0.0], [50.0, 0.0, 1.1e44]), ([50.0, 3e44, 0.0], [50.0, 10.0, 10.0]), ([1.4e154, 0.0, 0.0], [0.0, 0.0, 0.0])] {
        let d = pastel::delta_e::ciede2000(&ops::lab(p[0], p[1], p[2]), &ops::lab(q[0], q[1], q[2]));
        s.check(d.is_finite() && d >= 0.0 && (p != q || d == 0.0), "finite-at-astronomical-coordinates", "delta_e::ciede2000", || format!("{} {}", show(p), show(q)), || format!("{:?}", d));
    }
    for (p, q) in [([50.0, 1e154, 0.0], [50.0, 0.0, 1e154]), ([1e200, 0.0, 0.0], [0.0, 0.0, 0.0])] {
        let d = pastel::delta_e::cie76(&ops::lab(p[0], p[1], p[2]), &ops::lab(q[0], q[1], q[2]));
        s.check(d.is_finite() && d >= 0.0, "finite-at-astronomical-coordinates", "delta_e::cie76", || format!("{} {}", show(p), show(q)), || format!("{:?}", d));
    }
    // pairs of 8-bit colours through Color::distance_* (grays and primaries)
    let cols: Vec<pastel::Color> = crate::gen::structured_colors();
    for a in &cols {
        for b in &cols {
            ops::num2(s, "cie76", a, b, true);
            ops::num2(s, "ciede2000", a, b, true);
        }
    }
    // the Color-level wrappers are the metrics of the two colours' Lab coordinates - also for
    // colours less than one 8-bit step apart (HSL-float neighbours), which compare equal as RGBA
    let n_pairs = if ctx.thorough { 60_000 } else { 3_000 };
    for i in 0..n_pairs {
        let a = crate::gen::color_hsl(&mut rng);
        let b = if i % 2 == 0 {
            let h = a.to_hsla();
            pastel::Color::from_hsla(h.h + rng.range(-0.4, 0.4), h.s + rng.range(-0.004, 0.004), h.l + rng.range(-0.001, 0.001), h.alpha)
        } else {
            crate::gen::color_hsl(&mut rng)
        };
        let (la, lb) = (a.to_lab(), b.to_lab());
        for (kind, got, want) in [
            ("ciede2000", a.distance_delta_e_ciede2000(&b), pastel::delta_e::ciede2000(&la, &lb)),
            ("cie76", a.distance_delta_e_cie76(&b), pastel::delta_e::cie76(&la, &lb)),
        ] {
            s.count_case("", true);
            s.check((got - want).abs() <= 1e-9 * want.abs().max(1.0), "color-distance-is-metric-of-lab", &format!("Color::distance_delta_e_{}", kind),
                || format!("{} vs {}", crate::wire::show_color(&a), crate::wire::show_color(&b)), || format!("wrapper {:?}, {} of the Lab coordinates {:?}", got, kind, want));
        }
        if i % 4 == 0 {
            ops::num2(s, "ciede2000", &a, &b, true);
        }
    }
}
