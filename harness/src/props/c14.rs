//! C14 — distinct: fixed colours never change; n colours out; farthest-first order.
use crate::gen::{self, Rng};
use crate::ops::guard;
use crate::props::c15::{dist, dump, metric_name, oracle};
use crate::session::Session;
use crate::wire::{c_in, c_out, f, show_color, x, Field};
use crate::Ctx;
use pastel::distinct::{
    rearrange_sequence, DistanceMetric, OptimizationMode, OptimizationTarget, SimulatedAnnealing, SimulationParameters,
};
use pastel::Color;
use rand::RngCore;
use std::cell::RefCell;
use std::rc::Rc;

/// A replaying / logging random source.
pub struct LogRng {
    pub kind: u8,
    pub state: Rng,
    pub counter: u64,
    pub log: Rc<RefCell<Vec<u64>>>,
}

impl LogRng {
    fn raw(&mut self) -> u64 {
        self.counter += 1;
        match self.kind {
            0 => self.state.next(),
            1 => 0,
            2 => u64::MAX,
            3 => {
                if self.counter % 2 == 0 {
                    0
                } else {
                    u64::MAX
                }
            }
            4 => self.counter.wrapping_mul(0x0101_0101_0101_0101),
            6 => {
                // landmark draws: half of the draws make the uniform f64 that `rand` derives from the word
                // ((x >> 11) * 2^-53) land on, or within three grid steps of, a simple fraction - the sixths
                // and twelfths of a hue circle, quarters, tenths - the other half are uniform
                if self.state.next() % 2 == 0 {
                    self.state.next()
                } else {
                    const L: [(u64, u64); 16] = [(1, 6), (2, 6), (3, 6), (4, 6), (5, 6), (1, 12), (5, 12), (7, 12), (11, 12), (1, 4), (3, 4), (1, 10), (9, 10), (1, 3), (2, 3), (1, 360)];
                    let (a, b) = L[(self.state.next() % 16) as usize];
                    let grid = ((a as f64 / b as f64) * 9007199254740992.0).round() as i64 + (self.state.next() % 7) as i64 - 3;
                    (grid.clamp(0, 9007199254740991) as u64) << 11
                }
            }
            _ => self.state.next() >> (self.state.next() % 64),
        }
    }
}

impl RngCore for LogRng {
    fn next_u32(&mut self) -> u32 {
        let v = self.raw() as u32;
        self.log.borrow_mut().push(v as u64);
        v
    }
    fn next_u64(&mut self) -> u64 {
        let v = self.raw();
        self.log.borrow_mut().push(v);
        v
    }
    fn fill_bytes(&mut self, dst: &mut [u8]) {
        for b in dst.iter_mut() {
            *b = self.raw() as u8;
        }
    }
}

fn key(m: DistanceMetric, a: &Color, b: &Color) -> i32 {
    let d = match m {
        // the metric itself on Lab coordinates (what C11 checks against the published formulas), not the
        // Color-level wrappers
        DistanceMetric::CIE76 => pastel::delta_e::cie76(&a.to_lab(), &b.to_lab()),
        DistanceMetric::CIEDE2000 => pastel::delta_e::ciede2000(&a.to_lab(), &b.to_lab()),
    };
    (d * 1000.0) as i32
}

fn same(a: &Color, b: &Color) -> bool {
    a.to_rgba() == b.to_rgba()
}

/// rearrange_sequence: permutation, first stays, farthest-first at 0.001 resolution.
fn check_rearrange(s: &mut Session, cols: &[Color], m: DistanceMetric) {
    let n = cols.len();
    let mut out = cols.to_vec();
    let inp = || format!("rearrange_sequence {} {:?}", metric_name(m), cols.iter().map(show_color).collect::<Vec<_>>());
    let res = guard(|| {
        let mut v = cols.to_vec();
        rearrange_sequence(&mut v, m);
        v
    });
    let op = format!("rearr {} {} {}", metric_name(m), n, cols.iter().map(c_in).collect::<Vec<_>>().join(" "));
    match res {
        None => {
            s.fail("no-panic", "rearrange_sequence", inp(), "panic".into());
            s.op(op, vec![x("panic")], n > 2);
            return;
        }
        Some(v) => out = v,
    }
    // recover the permutation greedily (duplicates: first unused match)
    let mut used = vec![false; n];
    let mut perm = vec![];
    for c in &out {
        let h = c.to_hsla();
        let mut found = None;
        for (i, o) in cols.iter().enumerate() {
            let ho = o.to_hsla();
            if !used[i] && ho.h.to_bits() == h.h.to_bits() && ho.s == h.s && ho.l == h.l && ho.alpha == h.alpha {
                found = Some(i);
                break;
            }
        }
        match found {
            Some(i) => {
                used[i] = true;
                perm.push(i);
            }
            None => {
                s.fail("rearrange-permutation", "rearrange_sequence", inp(), format!("output colour {} is not an unused input colour", show_color(c)));
                return;
            }
        }
    }
    s.oracle_checks += 1;
    // the model reports its permutation; duplicates make the recovered one ambiguous, so
    // compare through the colours' identity only when all colours are distinct
    let distinct = (0..n).all(|i| (0..i).all(|j| !(cols[i].to_hsla() == cols[j].to_hsla())));
    let mut fields = vec![x("ok")];
    if distinct {
        for p in &perm {
            fields.push(x(p));
        }
        s.op(op, fields, n > 2);
    } else {
        s.count_case(&op, n > 2);
    }
    if n > 0 {
        s.check(same(&out[0], &cols[0]), "rearrange-keeps-first", "rearrange_sequence", inp, || format!("first is {}", show_color(&out[0])));
    }
    // farthest-first: element i maximises, among positions >= i, min_{j<i} key
    for i in 1..n {
        let score = |c: &Color| (0..i).map(|j| key(m, c, &out[j])).min().unwrap();
        let mine = score(&out[i]);
        let best = (i..n).map(|t| score(&out[t])).max().unwrap();
        s.check(mine == best, "rearrange-farthest-first", "rearrange_sequence", inp, || format!("position {}: min-distance key {} but {} available", i, mine, best));
    }
}

struct SaCase {
    target: OptimizationTarget,
    mode: OptimizationMode,
    metric: DistanceMetric,
    num_fixed: usize,
    iters: usize,
    t0: f64,
    cool: f64,
    rng_kind: u8,
    seed: u64,
    colors: Vec<Color>,
}

fn run_sa(s: &mut Session, c: &SaCase) {
    let log = Rc::new(RefCell::new(Vec::<u64>::new()));
    let n = c.colors.len();
    let inp = || {
        format!(
            "SimulatedAnnealing target={:?} mode={:?} metric={} fixed={} iters={} T0={:?} cool={:?} rng={} seed={} colors={:?}",
            c.target, c.mode, metric_name(c.metric), c.num_fixed, c.iters, c.t0, c.cool, c.rng_kind, c.seed,
            c.colors.iter().map(show_color).collect::<Vec<_>>()
        )
    };
    let log2 = log.clone();
    let res = guard(move || {
        let rng = LogRng { kind: c.rng_kind, state: Rng::new(c.seed), counter: 0, log: log2 };
        let mut sa = SimulatedAnnealing::with_rng(
            &c.colors,
            SimulationParameters {
                initial_temperature: c.t0,
                cooling_rate: c.cool,
                num_iterations: c.iters,
                opt_target: c.target,
                opt_mode: c.mode,
                distance_metric: c.metric,
                num_fixed_colors: c.num_fixed,
            },
            rng,
        );
        let mut seen: Vec<Vec<Color>> = vec![];
        let r = sa.run(&mut |st| seen.push(st.colors.clone()));
        (sa.get_colors(), r, seen)
    });
    let draws: Vec<u64> = log.borrow().clone();
    let op = format!(
        "sa {} {} {} {} {} {} {} {} {} {} {}",
        if c.target == OptimizationTarget::Min { "min" } else { "mean" },
        if c.mode == OptimizationMode::Local { "local" } else { "global" },
        metric_name(c.metric),
        c.num_fixed,
        c.iters,
        f(c.t0),
        f(c.cool),
        draws.len(),
        draws.iter().map(|d| d.to_string()).collect::<Vec<_>>().join(" "),
        n,
        c.colors.iter().map(c_in).collect::<Vec<_>>().join(" ")
    )
    .replace("  ", " ");
    match res {
        None => {
            s.fail("no-panic", "SimulatedAnnealing::run", inp(), "run panicked".into());
            s.op(op, vec![x("panic")], true);
        }
        Some((out, r, seen)) => {
            let mut fields = vec![x("ok")];
            for col in &out {
                fields.extend(c_out(col));
            }
            fields.push(x("|"));
            fields.extend(dump(&r));
            s.op(op, fields, c.iters > 0 && c.num_fixed < n);
            s.check(out.len() == n, "keeps-number-of-colours", "SimulatedAnnealing::run", inp, || format!("{} -> {}", n, out.len()));
            let mut all = seen;
            all.push(out.clone());
            for cols in &all {
                for i in 0..c.num_fixed.min(n).min(cols.len()) {
                    s.check(same(&cols[i], &c.colors[i]) && cols[i].to_hsla() == c.colors[i].to_hsla(), "fixed-colours-unchanged", "SimulatedAnnealing::run", inp, || format!("fixed colour {} became {}", i, show_color(&cols[i])));
                }
                for i in c.num_fixed.min(n)..cols.len().min(n) {
                    let changed = !(cols[i].to_hsla() == c.colors[i].to_hsla());
                    if changed {
                        let q = cols[i].to_rgba();
                        let back = Color::from_rgb(q.r, q.g, q.b);
                        s.check(q.alpha == 1.0 && back.to_hsla() == cols[i].to_hsla(), "replaced-colours-opaque-8bit", "SimulatedAnnealing::run", inp, || format!("colour {} is {}", i, show_color(&cols[i])));
                    }
                }
            }
            // the returned table equals recomputation from the final colours (C15's clause at this site)
            let labs: Vec<pastel::Lab> = out.iter().map(|c| c.to_lab()).collect();
            if n >= 2 {
                oracle(s, "SimulatedAnnealing::run", &labs, c.metric, c.num_fixed, &r, &inp());
            }
            let _ = dist;
        }
    }
}

/// Starting lists made of a few colours repeated (A,A,A,B,B …): moves that leave the score exactly
/// equal, closest pairs at distance 0, ties everywhere. Each case runs once against the model and the
/// brute-force oracle, and a second time as two consecutive `run()` calls on one object (as
/// `distinct_colors` does), with the oracle after each.
pub fn tie_cases(s: &mut Session, ctx: &Ctx) {
    let mut rng = Rng::new(ctx.seed ^ 0x7135);
    let reps = if ctx.thorough { 40 } else { 6 };
    let mut cases = 0u64;
    for pattern in [&[0usize, 0, 0, 1, 1][..], &[0, 0, 1, 1, 2], &[0, 0, 0, 0], &[0, 1, 0, 1, 0, 1], &[0, 0, 1]] {
        for target in [OptimizationTarget::Min, OptimizationTarget::Mean] {
            for mode in [OptimizationMode::Global, OptimizationMode::Local] {
                for metric in [DistanceMetric::CIE76, DistanceMetric::CIEDE2000] {
                    for rep in 0..reps {
                        let base: Vec<Color> = (0..3).map(|_| gen::color8(&mut rng)).collect();
                        // every other repetition: the "equal" colours are equal only as 8-bit values - HSL floats a
                        // fraction of a step apart (fixed colours typed as hsl()/lab() are such)
                        let colors: Vec<Color> = pattern
                            .iter()
                            .enumerate()
                            .map(|(k, &i)| {
                                if rep % 2 == 1 && k > 0 {
                                    let h = base[i].to_hsla();
                                    Color::from_hsla(h.h + rng.range(-0.05, 0.05), (h.s + rng.range(0.0, 0.002)).clamp(0.0, 1.0), (h.l + rng.range(-0.0008, 0.0008)).clamp(0.0, 1.0), 1.0)
                                } else {
                                    base[i].clone()
                                }
                            })
                            .collect();
                        let num_fixed = [0usize, 0, 1, 2][rep % 4].min(colors.len());
                        let case = SaCase {
                            target,
                            mode,
                            metric,
                            num_fixed,
                            iters: [5usize, 20, 60, 200][rep % 4],
                            t0: *rng.pick(&[3.0, 0.5, 1e-9]),
                            cool: *rng.pick(&[0.95, 0.98]),
                            rng_kind: 0,
                            seed: rng.next(),
                            colors,
                        };
                        run_sa(s, &case);
                        run_sa_twice(s, &case);
                        cases += 2;
                    }
                }
            }
        }
    }
    s.tag_n("sa-runs:ties", cases);
}

/// Two consecutive runs on one object with the parameters changed in between; the table returned by
/// each run must equal recomputation from the colours at that moment, and the fixed colours stay.
fn run_sa_twice(s: &mut Session, c: &SaCase) {
    let n = c.colors.len();
    let inp = || {
        format!(
            "SimulatedAnnealing (two runs) target={:?} mode={:?} metric={} fixed={} iters={} T0={:?} cool={:?} seed={} colors={:?}",
            c.target, c.mode, metric_name(c.metric), c.num_fixed, c.iters, c.t0, c.cool, c.seed,
            c.colors.iter().map(show_color).collect::<Vec<_>>()
        )
    };
    let res = guard(|| {
        let log = Rc::new(RefCell::new(Vec::<u64>::new()));
        let rng = LogRng { kind: 0, state: Rng::new(c.seed), counter: 0, log };
        let mut sa = SimulatedAnnealing::with_rng(
            &c.colors,
            SimulationParameters {
                initial_temperature: c.t0,
                cooling_rate: c.cool,
                num_iterations: c.iters,
                opt_target: c.target,
                opt_mode: c.mode,
                distance_metric: c.metric,
                num_fixed_colors: c.num_fixed,
            },
            rng,
        );
        let r1 = sa.run(&mut |_| {});
        let c1 = sa.get_colors();
        sa.parameters.initial_temperature = 0.5;
        sa.parameters.cooling_rate = 0.98;
        sa.parameters.num_iterations = c.iters + 3;
        sa.parameters.opt_target = if c.target == OptimizationTarget::Min { OptimizationTarget::Mean } else { OptimizationTarget::Min };
        sa.parameters.opt_mode = OptimizationMode::Local;
        let r2 = sa.run(&mut |_| {});
        let c2 = sa.get_colors();
        (c1, r1, c2, r2)
    });
    s.count_case(&format!("sa-twice {} {:?} {:?}", c.seed, c.target, c.mode), true);
    match res {
        None => s.fail("no-panic", "SimulatedAnnealing::run", inp(), "run panicked".into()),
        Some((c1, r1, c2, r2)) => {
            for (cols, r, which) in [(&c1, &r1, "first run"), (&c2, &r2, "second run")] {
                s.check(cols.len() == n, "keeps-number-of-colours", "SimulatedAnnealing::run", inp, || format!("{}: {} -> {}", which, n, cols.len()));
                for i in 0..c.num_fixed.min(n).min(cols.len()) {
                    s.check(cols[i].to_hsla() == c.colors[i].to_hsla(), "fixed-colours-unchanged", "SimulatedAnnealing::run", inp, || format!("{}: fixed colour {} became {}", which, i, show_color(&cols[i])));
                }
                let labs: Vec<pastel::Lab> = cols.iter().map(|c| c.to_lab()).collect();
                if n >= 2 {
                    oracle(s, "SimulatedAnnealing::run", &labs, c.metric, c.num_fixed, r, &format!("{} ; {}", inp(), which));
                }
            }
        }
    }
}

pub fn run(s: &mut Session, ctx: &Ctx) {
    let mut rng = Rng::new(ctx.seed);
    // ---- rearrange_sequence ----
    for m in [DistanceMetric::CIE76, DistanceMetric::CIEDE2000] {
        check_rearrange(s, &[], m);
        check_rearrange(s, &[Color::red()], m);
        check_rearrange(s, &[Color::red(), Color::blue()], m);
        check_rearrange(s, &[Color::white(), Color::white(), Color::white()], m);
        // equidistant grays
        let grays: Vec<Color> = (0..6).map(|i| Color::from_rgb(40 * i, 40 * i, 40 * i)).collect();
        check_rearrange(s, &grays, m);
    }
    let reps = if ctx.thorough { 3000 } else { 250 };
    for i in 0..reps {
        let n = rng.below(if i % 10 == 0 { 41 } else { 12 }) as usize;
        let mut cols: Vec<Color> = (0..n).map(|_| gen::color8(&mut rng)).collect();
        if n > 2 && rng.below(3) == 0 {
            let d = cols[rng.below(n as u64) as usize].clone();
            let at = rng.below(n as u64) as usize;
            cols[at] = d; // duplicate
        }
        let m = if i % 2 == 0 { DistanceMetric::CIE76 } else { DistanceMetric::CIEDE2000 };
        check_rearrange(s, &cols, m);
    }

    // near-duplicates: colours that are equal (or adjacent) as 8-bit values but differ as HSL floats - fixed
    // colours typed as hsl()/lab() are such - next to an 8-bit colour: their true distances are a few tenths,
    // well above the 0.001 resolution of the ordering
    for i in 0..reps / 2 {
        let base = if i % 3 == 0 { let g = rng.u8(); Color::from_rgb(g, g, g) } else { gen::color8(&mut rng) };
        let h = base.to_hsla();
        let mut cols = vec![base.clone()];
        for _ in 0..(2 + rng.below(3)) {
            cols.push(Color::from_hsla(h.h + rng.range(-120.0, 120.0) * if h.s < 0.01 { 1.0 } else { 0.004 }, (h.s + rng.range(0.0, 0.004)).clamp(0.0, 1.0), (h.l + rng.range(-0.0015, 0.0015)).clamp(0.0, 1.0), 1.0));
        }
        for _ in 0..rng.below(3) {
            cols.push(gen::color8(&mut rng));
        }
        if rng.below(2) == 0 {
            let n = cols.len();
            cols.swap(0, rng.below(n as u64) as usize);
        }
        check_rearrange(s, &cols, DistanceMetric::CIE76);
        check_rearrange(s, &cols, DistanceMetric::CIEDE2000);
    }

    // ---- simulated annealing under replayed random streams ----
    let max_n = if ctx.thorough { 8 } else { 6 };
    let mut cases = 0u64;
    for n in 1..=max_n {
        for num_fixed in 0..=n {
            for (ti, target) in [OptimizationTarget::Mean, OptimizationTarget::Min].iter().enumerate() {
                for (mi, mode) in [OptimizationMode::Global, OptimizationMode::Local].iter().enumerate() {
                    for rng_kind in 0..6u8 {
                        if !ctx.thorough && (n + num_fixed + ti + mi + rng_kind as usize) % 3 != 0 {
                            continue;
                        }
                        let mut colors: Vec<Color> = (0..n).map(|_| gen::color8(&mut rng)).collect();
                        if n >= 2 && rng.below(3) == 0 {
                            colors[1] = colors[0].clone(); // duplicates in the starting list
                        }
                        // make every colour opaque 8-bit as distinct_colors does for generated ones,
                        // but keep translucent / HSL-float ones among the fixed colours
                        // ... in two runs out of three; in the third the free positions start with
                        // arbitrary (translucent, HSL-float) colours: whatever replaces them must still
                        // be opaque 8-bit
                        let arbitrary_start = rng.below(3) == 0;
                        for (i, c) in colors.iter_mut().enumerate() {
                            if i >= num_fixed && !arbitrary_start {
                                let q = c.to_rgba();
                                *c = Color::from_rgb(q.r, q.g, q.b);
                            } else if i >= num_fixed && rng.below(2) == 0 {
                                let q = c.to_rgba();
                                *c = Color::from_rgba(q.r, q.g, q.b, *rng.pick(&[0.5, 0.25, 0.0, 0.999]));
                            }
                        }
                        let case = SaCase {
                            target: *target,
                            mode: *mode,
                            metric: if (n + rng_kind as usize) % 2 == 0 { DistanceMetric::CIE76 } else { DistanceMetric::CIEDE2000 },
                            num_fixed,
                            iters: [0usize, 1, 7, 60, 300][(n + num_fixed + rng_kind as usize) % 5],
                            t0: *rng.pick(&[3.0, 0.5, 1e-9, 100.0]),
                            cool: *rng.pick(&[0.95, 0.98, 0.5]),
                            rng_kind,
                            seed: rng.next(),
                            colors,
                        };
                        run_sa(s, &case);
                        cases += 1;
                    }
                }
            }
        }
    }
    s.tag_n("sa-runs", cases);
    tie_cases(s, ctx);

    // ---- SimulatedAnnealing::new (the constructor with the default thread RNG): same clauses,
    // checked directly (the draws are not replayable, so no model comparison here) ----
    for i in 0..(if ctx.thorough { 40 } else { 8 }) {
        let n = 2 + i % 4;
        let num_fixed = i % (n + 1);
        let colors: Vec<Color> = (0..n).map(|j| if j % 2 == 0 { gen::color8(&mut rng) } else { gen::color(&mut rng) }).collect();
        let (target, mode) = ([OptimizationTarget::Mean, OptimizationTarget::Min][i % 2], [OptimizationMode::Global, OptimizationMode::Local][(i / 2) % 2]);
        let metric = if i % 3 == 0 { DistanceMetric::CIEDE2000 } else { DistanceMetric::CIE76 };
        let cs = colors.clone();
        let res = guard(move || {
            let mut sa = SimulatedAnnealing::new(
                &cs,
                SimulationParameters { initial_temperature: 3.0, cooling_rate: 0.95, num_iterations: 400, opt_target: target, opt_mode: mode, distance_metric: metric, num_fixed_colors: num_fixed },
            );
            let mut seen: Vec<Vec<Color>> = vec![];
            let r = sa.run(&mut |st| seen.push(st.colors.clone()));
            (sa.get_colors(), r, seen)
        });
        s.count_case(&format!("SimulatedAnnealing::new {}", i), true);
        let inp = || format!("SimulatedAnnealing::new target={:?} mode={:?} metric={} fixed={} colors={:?}", target, mode, metric_name(metric), num_fixed, colors.iter().map(show_color).collect::<Vec<_>>());
        match res {
            None => {
                // one free colour with the min target is the documented panic-free case since ed1b0eb
                s.fail("no-panic", "SimulatedAnnealing::new/run", inp(), "panic".into());
            }
            Some((out, r, mut seen)) => {
                s.check(out.len() == n, "keeps-number-of-colours", "SimulatedAnnealing::new/run", inp, || format!("{} -> {}", n, out.len()));
                seen.push(out.clone());
                for cols in &seen {
                    for j in 0..num_fixed.min(cols.len()) {
                        s.check(cols[j].to_hsla() == colors[j].to_hsla(), "fixed-colours-unchanged", "SimulatedAnnealing::new/run", inp, || format!("fixed colour {} became {}", j, show_color(&cols[j])));
                    }
                    for j in num_fixed..cols.len().min(n) {
                        if cols[j].to_hsla() != colors[j].to_hsla() {
                            let q = cols[j].to_rgba();
                            s.check(q.alpha == 1.0 && Color::from_rgb(q.r, q.g, q.b).to_hsla() == cols[j].to_hsla(), "replaced-colours-opaque-8bit", "SimulatedAnnealing::new/run", inp, || format!("colour {} is {}", j, show_color(&cols[j])));
                        }
                    }
                }
                let labs: Vec<pastel::Lab> = out.iter().map(|c| c.to_lab()).collect();
                oracle(s, "SimulatedAnnealing::new/run", &labs, metric, num_fixed, &r, &inp());
            }
        }
    }

    // ---- distinct_colors: n colours out, fixed ones are the prefix (real RNG; 300k iterations) ----
    let runs = if ctx.thorough { 10 } else { 4 };
    for i in 0..runs {
        let n = 2 + i % 3;
        let kf = i % (n + 1);
        let mut fixed: Vec<Color> = (0..kf).map(|_| gen::color8(&mut rng)).collect();
        // every other run: the same fixed colour more than once (adjacent and not)
        let (n, kf) = if i % 2 == 1 {
            let c = gen::color8(&mut rng);
            fixed = match i % 3 {
                0 => vec![c.clone(), c.clone()],
                1 => vec![c.clone(), c.clone(), gen::color8(&mut rng), c.clone()],
                _ => vec![c.clone(), gen::color8(&mut rng), c.clone()],
            };
            (fixed.len() + (i / 2) % 2, fixed.len())
        } else {
            (n, kf)
        };
        let m = if i % 2 == 0 { DistanceMetric::CIE76 } else { DistanceMetric::CIEDE2000 };
        let fx = fixed.clone();
        let res = guard(move || pastel::distinct::distinct_colors(n, m, fx, &mut |_| {}));
        s.count_case(&format!("distinct_colors {} {} {}", n, kf, i), true);
        let inp = || format!("distinct_colors({}, {}, {:?})", n, metric_name(m), fixed.iter().map(show_color).collect::<Vec<_>>());
        match res {
            None => s.fail("no-panic", "distinct_colors", inp(), "panic".into()),
            Some((cols, r)) => {
                s.check(cols.len() == n, "distinct-count", "distinct_colors", inp, || format!("{} colours", cols.len()));
                for (j, fc) in fixed.iter().enumerate() {
                    s.check(j < cols.len() && cols[j].to_hsla() == fc.to_hsla(), "distinct-includes-fixed", "distinct_colors", inp, || format!("position {}", j));
                }
                let labs: Vec<pastel::Lab> = cols.iter().map(|c| c.to_lab()).collect();
                oracle(s, "distinct_colors", &labs, m, kf, &r, &inp());
            }
        }
    }
    let _ = Field::F(0.0);
}
