//! C03 — conversions are lossless on the whole 24-bit gamut; packed integers.
use crate::gen::Rng;
use crate::ops::{self, construct, SPACES9};
use crate::par::{self, Acc};
use crate::session::Session;
use crate::Ctx;
use pastel::Color;

fn coords(kind: &str, c: &Color) -> [f64; 4] {
    match kind {
        "hsla" => {
            let q = c.to_hsla();
            [q.h, q.s, q.l, q.alpha]
        }
        "hsva" => {
            let q = c.to_hsva();
            [q.h, q.s, q.v, q.alpha]
        }
        "rgbaf" => {
            let q = c.to_rgba_float();
            [q.r, q.g, q.b, q.alpha]
        }
        "xyz" => {
            let q = c.to_xyz();
            [q.x, q.y, q.z, q.alpha]
        }
        "lms" => {
            let q = c.to_lms();
            [q.l, q.m, q.s, q.alpha]
        }
        "lab" => {
            let q = c.to_lab();
            [q.l, q.a, q.b, q.alpha]
        }
        "lch" => {
            let q = c.to_lch();
            [q.l, q.c, q.h, q.alpha]
        }
        "oklab" => {
            let q = c.to_oklab();
            [q.l, q.a, q.b, q.alpha]
        }
        "cmyk" => {
            let q = c.to_cmyk();
            [q.c, q.m, q.y, q.k]
        }
        _ => unreachable!(),
    }
}

pub fn site_of(kind: &str) -> &'static str {
    match kind {
        "hsla" => "From<&HSLA> for Color",
        "hsva" => "From<&HSVA> for Color",
        "rgbaf" => "From<&RGBA<f64>> for Color",
        "xyz" => "From<&XYZ> for Color",
        "lms" => "From<&LMS> for Color",
        "lab" => "From<&Lab> for Color",
        "lch" => "From<&LCh> for Color",
        "oklab" => "From<&OkLab> for Color",
        "cmyk" => "From<&CMYK> for Color",
        _ => "?",
    }
}

pub fn run(s: &mut Session, ctx: &Ctx) {
    let mut rng = Rng::new(ctx.seed);

    // ---- direct oracle: every one of the 2^24 colours, nine spaces, both tiers ----
    let accs = par::for_all_rgb(1, Acc::default, |r, g, b, acc: &mut Acc| {
        acc.cases += 1;
        // an alpha that varies with the colour: 1, 0, k/255 or a non-lattice value
        let k = r ^ g.rotate_left(3) ^ b.rotate_left(5);
        let alpha = match k % 4 {
            0 => 1.0,
            1 => 0.0,
            2 => k as f64 / 255.0,
            _ => (k as f64 + 0.37) / 256.0,
        };
        let c = Color::from_rgba(r, g, b, alpha);
        for kind in SPACES9 {
            let res = std::panic::catch_unwind(|| {
                let q = coords(kind, &c);
                let c2 = construct(kind, q[0], q[1], q[2], q[3]);
                let o = c2.to_rgba();
                (o.r, o.g, o.b, o.alpha, q)
            });
            match res {
                Err(_) => acc.check(
                    false,
                    "roundtrip",
                    "panic",
                    || format!("rgba({},{},{},{:?}) via {}", r, g, b, alpha, kind),
                    || "panic".into(),
                ),
                Ok((r2, g2, b2, a2, q)) => {
                    acc.check(
                        (r2, g2, b2) == (r, g, b),
                        "roundtrip",
                        site_of(kind),
                        || format!("rgb({},{},{}) via {}", r, g, b, kind),
                        || format!("coords {} -> rgb({},{},{})", ops::show4(&q), r2, g2, b2),
                    );
                    if kind != "cmyk" {
                        acc.check(
                            a2.to_bits() == alpha.to_bits(),
                            "roundtrip-alpha",
                            site_of(kind),
                            || format!("rgba({},{},{},{:?}) via {}", r, g, b, alpha, kind),
                            || format!("alpha came back as {:?}", a2),
                        );
                    }
                }
            }
        }
        // the same round trips through the `ColorSpace` trait (the path `Color::mix` takes); on a
        // sub-lattice, since these are the same conversions behind another entry point
        if (r as u32 + 3 * g as u32 + 7 * b as u32) % 61 == 0 {
            use pastel::colorspace::ColorSpace;
            let trips: Vec<(&str, Result<Color, ()>)> = vec![
                ("RGBA<f64>", std::panic::catch_unwind(|| pastel::RGBA::<f64>::from_color(&c).into_color()).map_err(|_| ())),
                ("HSLA", std::panic::catch_unwind(|| pastel::HSLA::from_color(&c).into_color()).map_err(|_| ())),
                ("HSVA", std::panic::catch_unwind(|| pastel::HSVA::from_color(&c).into_color()).map_err(|_| ())),
                ("Lab", std::panic::catch_unwind(|| pastel::Lab::from_color(&c).into_color()).map_err(|_| ())),
                ("LCh", std::panic::catch_unwind(|| pastel::LCh::from_color(&c).into_color()).map_err(|_| ())),
                ("OkLab", std::panic::catch_unwind(|| pastel::OkLab::from_color(&c).into_color()).map_err(|_| ())),
            ];
            for (name, t) in trips {
                match t {
                    Err(()) => acc.check(false, "roundtrip", "panic", || format!("rgba({},{},{},{:?}) via ColorSpace for {}", r, g, b, alpha, name), || "panic".into()),
                    Ok(c2) => {
                        let o = c2.to_rgba();
                        acc.check((o.r, o.g, o.b) == (r, g, b) && o.alpha.to_bits() == alpha.to_bits(), "roundtrip-through-colorspace-trait", &format!("impl ColorSpace for {}", name),
                            || format!("rgba({},{},{},{:?})", r, g, b, alpha), || format!("came back as rgba({},{},{},{:?})", o.r, o.g, o.b, o.alpha));
                    }
                }
            }
        }
        // to_u32 layout 0xRRGGBB
        let n = c.to_u32();
        acc.check(
            n == ((r as u32) << 16 | (g as u32) << 8 | b as u32),
            "to_u32-layout",
            "Color::to_u32",
            || format!("rgb({},{},{})", r, g, b),
            || format!("to_u32 = {:#x}", n),
        );
    });
    par::merge(s, accs);
    s.exhaustive.push("all 2^24 8-bit colours x 9 spaces round trip + to_u32".into());
    s.tag_n("oracle:roundtrip-colours", 1 << 24);

    // ---- from_u32: documented layout 0xRRGGBBAA with alpha AA/255 ----
    let mut ns: Vec<u32> = vec![0, 0xffffffff, 0x11223380, 0xff000000, 0x000000ff, 0x01020304, 0x80808080];
    for byte in 0..4 {
        for v in 0..=255u32 {
            ns.push((v << (8 * byte)) | (rng.next() as u32 & !(0xffu32 << (8 * byte))));
        }
    }
    let extra = if ctx.thorough { 2_000_000 } else { 100_000 };
    for _ in 0..extra {
        ns.push(rng.next() as u32);
    }
    for (i, n) in ns.iter().enumerate() {
        let n = *n;
        let res = ops::guard(|| {
            let c = Color::from_u32(n);
            let q = c.to_rgba();
            (q.r, q.g, q.b, q.alpha)
        });
        s.count_case(&format!("from_u32 {}", n), true);
        match res {
            None => s.fail("from_u32-layout", "panic", format!("from_u32({:#010x})", n), "panic".into()),
            Some((r, g, b, a)) => {
                let want = ((n >> 24) as u8, (n >> 16) as u8, (n >> 8) as u8, (n & 0xff) as f64 / 255.0);
                s.check(
                    (r, g, b) == (want.0, want.1, want.2) && a == want.3,
                    "from_u32-layout",
                    "Color::from_u32",
                    || format!("from_u32({:#010x})", n),
                    || format!("got rgba({},{},{},{:?}), documented 0xRRGGBBAA gives rgba({},{},{},{:?})", r, g, b, a, want.0, want.1, want.2, want.3),
                );
            }
        }
        // correspondence for a subset
        if i < 3000 {
            ops::from_u32(s, n, true);
        }
    }

    // ---- correspondence: to_X then from_X on a lattice, model vs implementation ----
    let step = if ctx.thorough { 5 } else { 17 };
    let mut lattice: Vec<(u8, u8, u8)> = vec![];
    let mut r = 0usize;
    while r < 256 {
        let mut g = 0usize;
        while g < 256 {
            let mut b = 0usize;
            while b < 256 {
                lattice.push((r as u8, g as u8, b as u8));
                b += step;
            }
            g += step;
        }
        r += step;
    }
    for _ in 0..2000 {
        lattice.push(crate::gen::rgb8(&mut rng));
    }
    for (r, g, b) in lattice {
        let a = crate::gen::alpha(&mut rng);
        let c = Color::from_rgba(r, g, b, a);
        let nontrivial = !(r == g && g == b);
        for kind in SPACES9 {
            if let Some(q) = ops::to_space(s, kind, &c, nontrivial) {
                ops::from_space(s, kind, q[0], q[1], q[2], q[3], nontrivial);
            }
        }
        ops::to_u32(s, &c, nontrivial);
        ops::to_rgba8(s, &c, nontrivial);
    }
}
