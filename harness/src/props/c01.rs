//! C01 — colour grammar: valid notations parse to their meaning, others are rejected.
//! The Lean parser model (nom's combinators over `List Char`) is the reference for
//! accept/reject and for the denoted colour.
use crate::gen::Rng;
use crate::ops::guard;
use crate::session::Session;
use crate::wire::{c_out, hex_str, ok, x};
use crate::Ctx;
use pastel::named::NAMED_COLORS;
use pastel::parser::parse_color;
use pastel::Color;
use std::str::FromStr;

fn number(r: &mut Rng, lo: f64, hi: f64) -> String {
    let v = match r.below(12) {
        0 => lo,
        1 => hi,
        2 => lo - (hi - lo) * r.unit(),
        3 => hi + (hi - lo) * r.unit(),
        4 => (r.range(lo, hi)).round(),
        _ => r.range(lo, hi),
    };
    match r.below(16) {
        0 => format!("{}", v.round() as i64),
        1 => format!("{:.1}", v),
        2 => format!("{:.3}", v),
        3 => format!("{:e}", v),
        4 => format!("{:E}", v),
        5 => {
            let s = format!("{:.2}", v.abs().fract());
            if v < 0.0 { format!("-{}", &s[1..]) } else { s[1..].to_string() } // leading dot: ".25"
        }
        6 => format!("{}.", v.round() as i64), // trailing dot
        7 => format!("+{}", v.abs()),
        8 => format!("{}e{}", (v * 1000.0).round() as i64, -3),
        9 => format!("{}E+{}", (v / 100.0), 2),
        10 => format!("{:.17}", v),
        11 => format!("000{}", v.abs().round() as i64),
        12 => (*r.pick(&["nan", "NaN", "inf", "INF", "infinity", "1e400", "1e-400", "-0", "0.0", "1e", "1e+", ".", "-", "+.5", "5.e1"])).to_string(),
        _ => format!("{}", v),
    }
}

fn sep(r: &mut Rng) -> String {
    (*r.pick(&[",", ", ", " , ", " ", "  ", ",  ", "\t", " ,", ",\t", ", ", ", ", ","])).to_string()
}

fn blanks(r: &mut Rng) -> String {
    (*r.pick(&["", "", "", " ", "  ", "\t"])).to_string()
}

fn alpha_part(r: &mut Rng) -> String {
    match r.below(6) {
        0 | 1 | 2 => String::new(),
        3 => format!("{}{}", sep(r), number(r, 0.0, 1.0)),
        4 => format!("{}{}%", sep(r), number(r, 0.0, 100.0)),
        _ => format!("{}{}", sep(r), (r.below(1001) as f64) / 1000.0),
    }
}

fn angle(r: &mut Rng) -> String {
    match r.below(9) {
        0 => format!("{}deg", number(r, 0.0, 360.0)),
        1 => format!("{}°", number(r, 0.0, 360.0)),
        2 => format!("{}rad", number(r, 0.0, 6.3)),
        3 => format!("{}grad", number(r, 0.0, 400.0)),
        4 => format!("{}turn", number(r, 0.0, 1.0)),
        5 => format!("{}", number(r, -720.0, 720.0)),
        _ => format!("{}", number(r, 0.0, 360.0)),
    }
}

fn recase(r: &mut Rng, s: &str) -> String {
    match r.below(4) {
        0 => s.to_uppercase(),
        1 => s.chars().map(|c| if r.bool() { c.to_ascii_uppercase() } else { c }).collect(),
        _ => s.to_string(),
    }
}

/// A string in (or very near) one of the ten notations.
fn render(r: &mut Rng) -> (String, &'static str) {
    let pct = |r: &mut Rng| format!("{}%", number(r, 0.0, 100.0));
    match r.below(14) {
        0 => {
            let len = *r.pick(&[3usize, 4, 6, 8, 6, 6, 3, 1, 2, 5, 7, 9]);
            let digits: String = (0..len).map(|_| *r.pick(&['0', '1', '9', 'a', 'f', 'A', 'F', 'c', '7', 'e', 'E'])).collect();
            (format!("{}{}", if r.bool() { "#" } else { "" }, digits), "hex")
        }
        1 | 2 => {
            let pre = *r.pick(&["rgb(", "rgba(", "", "rgb(", "RGB(", "rgb ("]);
            let close = if pre.is_empty() { if r.below(8) == 0 { ")" } else { "" } } else if r.below(10) == 0 { "" } else { ")" };
            (format!("{}{}{}{}{}{}{}{}{}{}", pre, blanks(r), number(r, 0.0, 255.0), sep(r), number(r, 0.0, 255.0), sep(r), number(r, 0.0, 255.0), alpha_part(r), blanks(r), close), "rgb-numeric")
        }
        3 => {
            let pre = *r.pick(&["rgb(", "rgba(", ""]);
            let close = if pre.is_empty() { "" } else { ")" };
            let third = if r.below(8) == 0 { number(r, 0.0, 255.0) } else { pct(r) }; // mixing % and numbers
            (format!("{}{}{}{}{}{}{}{}{}{}", pre, blanks(r), pct(r), sep(r), pct(r), sep(r), third, alpha_part(r), blanks(r), close), "rgb-percent")
        }
        4 | 5 => {
            let pre = *r.pick(&["hsl(", "hsla(", "hsl(", "HSL(", "hsl"]);
            let sat = if r.below(10) == 0 { number(r, 0.0, 1.0) } else { pct(r) };
            (format!("{}{}{}{}{}{}{}{}{}{}", pre, blanks(r), angle(r), sep(r), sat, sep(r), pct(r), alpha_part(r), blanks(r), if r.below(12) == 0 { "" } else { ")" }), "hsl")
        }
        6 => {
            let pre = *r.pick(&["hsv(", "hsva(", "hsv(", "HSV("]);
            (format!("{}{}{}{}{}{}{}{}{}{}", pre, blanks(r), angle(r), sep(r), pct(r), sep(r), pct(r), alpha_part(r), blanks(r), ")"), "hsv")
        }
        7 => {
            let v = if r.bool() { pct(r) } else { number(r, 0.0, 1.0) };
            let extra = if r.below(8) == 0 { alpha_part(r) } else { String::new() };
            (format!("{}{}{}{}{}{}", *r.pick(&["gray(", "gray(", "Gray(", "grey("]), blanks(r), v, extra, blanks(r), ")"), "gray")
        }
        8 | 9 => {
            let p0 = *r.pick(&["lab(", "cielab(", "Lab(", "CIELab("]);
            let pre = recase(r, p0);
            let l = if r.below(10) == 0 { pct(r) } else { number(r, 0.0, 100.0) };
            (format!("{}{}{}{}{}{}{}{}{}{}", pre, blanks(r), l, sep(r), number(r, -128.0, 128.0), sep(r), number(r, -128.0, 128.0), alpha_part(r), blanks(r), ")"), "lab")
        }
        10 => {
            let p0 = *r.pick(&["oklab(", "OkLab(", "o\u{212A}lab("]);
            let pre = recase(r, p0);
            (format!("{}{}{}{}{}{}{}{}{}{}", pre, blanks(r), number(r, 0.0, 1.0), sep(r), number(r, -0.4, 0.4), sep(r), number(r, -0.4, 0.4), alpha_part(r), blanks(r), ")"), "oklab")
        }
        11 => {
            let p0 = *r.pick(&["lch(", "cielch(", "LCh(", "CIELCh("]);
            let pre = recase(r, p0);
            (format!("{}{}{}{}{}{}{}{}{}{}", pre, blanks(r), number(r, 0.0, 100.0), sep(r), number(r, 0.0, 150.0), sep(r), angle(r), alpha_part(r), blanks(r), ")"), "lch")
        }
        _ => {
            let nc = &NAMED_COLORS[r.below(NAMED_COLORS.len() as u64) as usize];
            let name = match r.below(8) {
                0 => format!("{}x", nc.name),
                1 => nc.name[..nc.name.len() - 1].to_string(),
                2 => (*r.pick(&["fade", "decade", "bed", "facade", "abcdef", "dad", "transparent", "grey", "cyan", "aqua"])).to_string(),
                _ => nc.name.to_string(),
            };
            (recase(r, &name), "named")
        }
    }
}

fn wrap_ws(r: &mut Rng, s: String) -> String {
    let ws = ["", "", "", " ", "  ", "\t", "\n", "\u{a0}", "\u{2003}", "\u{3000}", "\u{85}", "\r\n", "\u{200b}"];
    format!("{}{}{}", r.pick(&ws), s, r.pick(&ws))
}

fn edit(r: &mut Rng, s: &str) -> String {
    let mut cs: Vec<char> = s.chars().collect();
    let alphabet = ['e', 'E', '+', '-', '.', '%', '#', '(', ')', ',', '°', '\t', ' ', '\u{a0}', '\u{212A}', '0', '9', 'a', 'g', 'x', 'é', '🎨'];
    for _ in 0..=r.below(2) {
        if cs.is_empty() {
            cs.push(*r.pick(&alphabet));
            continue;
        }
        let i = r.below(cs.len() as u64) as usize;
        match r.below(5) {
            0 => {
                cs.remove(i);
            }
            1 => {
                let c = cs[i];
                cs.insert(i, c);
            }
            2 => {
                let j = r.below(cs.len() as u64) as usize;
                cs.swap(i, j);
            }
            3 => cs.insert(i, *r.pick(&alphabet)),
            _ => cs[i] = *r.pick(&alphabet),
        }
    }
    cs.into_iter().collect()
}

fn random_string(r: &mut Rng) -> String {
    let len = r.below(14) as usize;
    match r.below(3) {
        0 => (0..len).map(|_| (32 + r.below(95)) as u8 as char).collect(),
        1 => (0..len).map(|_| char::from_u32(r.below(0x3000) as u32).unwrap_or('x')).collect(),
        _ => {
            let bytes: Vec<u8> = (0..len).map(|_| r.u8()).collect();
            String::from_utf8_lossy(&bytes).into_owned()
        }
    }
}

/// Strings in which a number is spelled `nan` or `inf` are outside C01's accept/reject claim (the
/// underlying number parser happens to tolerate them): only totality and validity are required there.
fn outside_accept_reject_claim(text: &str) -> bool {
    let t = text.to_lowercase();
    t.contains("nan") || t.contains("inf")
}

pub fn parse_op(s: &mut Session, text: &str, gen_kind: &str) -> Option<Option<Color>> {
    let res = guard(|| parse_color(text));
    let op = format!("parse {}", hex_str(text));
    if outside_accept_reject_claim(text) {
        s.count_case(&op, true);
        s.tag("gen:nan-inf-spelling (totality and validity only)");
        match &res {
            None => s.fail("no-panic", "parser::parse_color", format!("{:?}", text), "parse_color panicked".into()),
            Some(None) => {}
            Some(Some(c)) => {
                let h = c.to_hsla();
                let f = c.to_rgba_float();
                let ok_range = |v: f64| v.is_finite() && (-1e-9..=1.0 + 1e-9).contains(&v); // C05's tolerance for derived channels
                s.check(h.h.is_finite() && (0.0..=360.0).contains(&h.h) && ok_range(h.s) && ok_range(h.l) && ok_range(h.alpha) && ok_range(f.r) && ok_range(f.g) && ok_range(f.b),
                    "accepted-nan-inf-spelling-is-a-valid-colour", "parser::parse_color", || format!("{:?}", text), || format!("{:?} {:?}", h, f));
            }
        }
        return res;
    }
    match &res {
        None => {
            s.fail("no-panic", "parser::parse_color", format!("{:?}", text), "parse_color panicked".into());
            s.op(op, vec![x("panic")], true);
        }
        Some(None) => {
            s.tag(&format!("gen:{}:reject", gen_kind));
            s.op(op, vec![x("none")], false);
        }
        Some(Some(c)) => {
            s.tag(&format!("gen:{}:accept", gen_kind));
            s.op(op, ok(c_out(c)), true);
        }
    }
    // Color::from_str is the same function
    if let Some(r) = &res {
        let fs = guard(|| Color::from_str(text).ok());
        let same = match (r, &fs) {
            (Some(a), Some(Some(b))) => a.to_hsla() == b.to_hsla(),
            (None, Some(None)) => true,
            _ => false,
        };
        s.check(same, "from_str-is-parse_color", "<Color as FromStr>::from_str", || format!("{:?}", text), || "results differ".into());
    }
    res
}

/// Strings for the CLI-level part: the corpus plus generated valid, edited and random strings.
pub fn sample_strings(n: usize, seed: u64) -> Vec<String> {
    let mut rng = Rng::new(seed);
    let mut v: Vec<String> = corpus().iter().map(|s| s.to_string()).collect();
    for i in 0..n {
        let (base, _) = render(&mut rng);
        v.push(match i % 4 {
            0 | 1 => wrap_ws(&mut rng, base),
            2 => edit(&mut rng, &base),
            _ => random_string(&mut rng),
        });
    }
    v
}

pub fn corpus() -> Vec<&'static str> {
    vec![
        "", " ", "#", "f09", "#f09", "#F09", "#ff0099", "ff009980", "#f098", "#1", "#12", "#12345", "#1234567", "#123456789", "#hh0033",
        "rgb(255,0,153)", "rgb(255, 0, 153)", "rgb( 255 , 0 , 153 )", "rgb(255 0 153)", "255,0,153", "255 0 153", "rgb(255,0,153", "255,0,153)",
        "rgb(255,0)", "rgb(255,0,1,0.5,1)", "rgba(255,0,153,0.3)", "rgb(100%,0%,60%)", "rgb(100%,0,60%)", "rgb(10%,20%,30%,40%)", "rgb(1e2,0,0)", "rgb(1e,0,0)",
        "hsl(280,20%,50%)", "hsl(280deg,20%,50%)", "hsl(280°,20%,50%)", "hsl(1.5rad,20%,50%)", "hsl(100grad,20%,50%)", "hsl(0.25turn,20%,50%)", "hsl(280,20,50)", "hsl(280,20%,50%,0.5)", "hsla(280,20%,50%,50%)", "HSL(280,20%,50%)", "hsl(1e308turn,50%,50%)", "hsl(nan,50%,50%)", "hsl(inf,50%,50%)", "hsl(infinity,50%,50%)",
        "hsv(280,20%,50%)", "hsva(280 20% 50% 0.1)", "gray(0.2)", "gray(20%)", "gray(0)", "gray(-0)", "gray(-0.1)", "gray(1.5)", "gray(0.2,0.5)", "gray(nan)",
        "lab(50,20,-30)", "Lab(50, 20, -30)", "cielab(50 20 -30)", "CIELab(50,20,-30,0.4)", "lab(50%,20,-30)", "oklab(0.5,0.1,-0.1)", "OkLab(0.5, 0.1, -0.1)", "o\u{212A}lab(0.5,0.1,-0.1)", "oklab(0.5,0.1)",
        "lch(50,40,130)", "LCh(50, 40, 130deg)", "cielch(50,40,0.3turn,0.2)", "lch(50%,40,130)",
        "red", "RED", "ReD", " red ", "rebeccapurple", "grey", "gray", "fade", "decade", "transparent", "redd", "re d", "red1",
        "\u{a0}red\u{3000}", "\u{200b}red", "rgb(1,2,3) x", "rgb(1,2,3))", "hsl(10,10%,10%)garbage",
    ]
}

/// A number spelled so that its value is known without the parser under test: Rust's own
/// `str::parse::<f64>` reads the same text (plain decimal / exponent forms only).
fn known_number(r: &mut Rng, lo: f64, hi: f64) -> (String, f64) {
    let v = match r.below(10) {
        0 => lo,
        1 => hi,
        2 => lo - (hi - lo) * r.unit(),
        3 => hi + (hi - lo) * r.unit(),
        4 => r.range(lo, hi).round(),
        _ => r.range(lo, hi),
    };
    let text = match r.below(9) {
        0 => format!("{}", v.round() as i64),
        1 => format!("{:.1}", v),
        2 => format!("{:.3}", v),
        3 => format!("{:e}", v),
        4 => format!("{:E}", v),
        5 => format!("{}.", v.round() as i64),
        6 => format!("+{}", v.abs()),
        7 => format!("{}e{}", (v * 1000.0).round() as i64, -3),
        _ => format!("{}", v),
    };
    let val: f64 = text.parse().expect("plain number");
    (text, val)
}

fn angle_of(r: &mut Rng) -> (String, f64) {
    match r.below(7) {
        0 => {
            let (t, v) = known_number(r, -720.0, 720.0);
            (format!("{}deg", t), v)
        }
        1 => {
            let (t, v) = known_number(r, 0.0, 360.0);
            (format!("{}\u{b0}", t), v)
        }
        2 => {
            let (t, v) = known_number(r, -7.0, 7.0);
            (format!("{}rad", t), v * 180.0 / std::f64::consts::PI)
        }
        3 => {
            let (t, v) = known_number(r, -400.0, 800.0);
            (format!("{}grad", t), v * 360.0 / 400.0)
        }
        4 => {
            let (t, v) = known_number(r, -2.0, 3.0);
            (format!("{}turn", t), v * 360.0)
        }
        _ => known_number(r, -720.0, 1080.0),
    }
}

/// Valid strings built from an abstract syntax tree whose meaning is computed here, from the statement:
/// percentages are hundredths, `deg`/`°`/unitless angles are degrees, `rad`, `grad`, `turn` are converted to
/// degrees, alpha is a number or a percentage and defaults to 1, hex digits are doubled when short and the
/// hex alpha is AA/255. The colour is then built by the constructor of that space (C04/C05 judge those).
fn meaning_oracle(s: &mut Session, ctx: &Ctx) {
    let mut r = Rng::new(ctx.seed ^ 0xC01A57);
    let n = if ctx.thorough { 400_000 } else { 20_000 };
    for _ in 0..n {
        let (alpha_text, alpha): (String, f64) = match r.below(4) {
            0 | 1 => (String::new(), 1.0),
            2 => {
                let (t, v) = known_number(&mut r, 0.0, 1.0);
                (format!("{}{}", sep(&mut r), t), v)
            }
            _ => {
                let (t, v) = known_number(&mut r, 0.0, 100.0);
                (format!("{}{}%", sep(&mut r), t), v / 100.0)
            }
        };
        let (b0, b1) = (blanks(&mut r), blanks(&mut r));
        let (text, want, kind): (String, Color, &str) = match r.below(10) {
            0 => {
                let len = *r.pick(&[3usize, 4, 6, 8]);
                let ds: Vec<u8> = (0..len).map(|_| r.below(16) as u8).collect();
                let txt: String = ds
                    .iter()
                    .map(|d| {
                        let c = std::char::from_digit(*d as u32, 16).unwrap();
                        if r.bool() {
                            c.to_ascii_uppercase()
                        } else {
                            c
                        }
                    })
                    .collect();
                let byte = |i: usize| if len <= 4 { ds[i] * 17 } else { ds[2 * i] * 16 + ds[2 * i + 1] };
                let a = if len == 4 || len == 8 { byte(3) as f64 / 255.0 } else { 1.0 };
                (format!("{}{}", if r.bool() { "#" } else { "" }, txt), Color::from_rgba(byte(0), byte(1), byte(2), a), "hex")
            }
            1 | 2 => {
                let pre = *r.pick(&["rgb(", "rgba(", ""]);
                let (t1, v1) = known_number(&mut r, 0.0, 255.0);
                let (t2, v2) = known_number(&mut r, 0.0, 255.0);
                let (t3, v3) = known_number(&mut r, 0.0, 255.0);
                let (s1, s2) = (sep(&mut r), sep(&mut r));
                (
                    format!("{}{}{}{}{}{}{}{}{}{}", pre, b0, t1, s1, t2, s2, t3, alpha_text, b1, if pre.is_empty() { "" } else { ")" }),
                    Color::from_rgba_float(v1 / 255.0, v2 / 255.0, v3 / 255.0, alpha),
                    "rgb-numeric",
                )
            }
            3 => {
                let pre = *r.pick(&["rgb(", "rgba(", ""]);
                let (t1, v1) = known_number(&mut r, 0.0, 100.0);
                let (t2, v2) = known_number(&mut r, 0.0, 100.0);
                let (t3, v3) = known_number(&mut r, 0.0, 100.0);
                let (s1, s2) = (sep(&mut r), sep(&mut r));
                (
                    format!("{}{}{}%{}{}%{}{}%{}{}{}", pre, b0, t1, s1, t2, s2, t3, alpha_text, b1, if pre.is_empty() { "" } else { ")" }),
                    Color::from_rgba_float(v1 / 100.0, v2 / 100.0, v3 / 100.0, alpha),
                    "rgb-percent",
                )
            }
            4 | 5 => {
                let hsv = r.bool();
                let pre = if hsv { *r.pick(&["hsv(", "hsva("]) } else { *r.pick(&["hsl(", "hsla("]) };
                let (ta, va) = angle_of(&mut r);
                let (t2, v2) = known_number(&mut r, 0.0, 100.0);
                let (t3, v3) = known_number(&mut r, 0.0, 100.0);
                let (s1, s2) = (sep(&mut r), sep(&mut r));
                let want = if hsv { Color::from_hsva(va, v2 / 100.0, v3 / 100.0, alpha) } else { Color::from_hsla(va, v2 / 100.0, v3 / 100.0, alpha) };
                (format!("{}{}{}{}{}%{}{}%{}{})", pre, b0, ta, s1, t2, s2, t3, alpha_text, b1), want, if hsv { "hsv" } else { "hsl" })
            }
            6 => {
                // gray: a non-negative number or percentage, no alpha
                let percent = r.bool();
                let (t, v) = known_number(&mut r, 0.0, if percent { 100.0 } else { 1.0 });
                if v < 0.0 || t.starts_with('-') {
                    continue;
                }
                let g = if percent { v / 100.0 } else { v };
                (format!("gray({}{}{}{})", b0, t, if percent { "%" } else { "" }, b1), Color::from_rgba_float(g, g, g, 1.0), "gray")
            }
            7 => {
                let p0 = *r.pick(&["lab(", "cielab("]);
                let pre = recase(&mut r, p0);
                let (t1, v1) = known_number(&mut r, 0.0, 100.0);
                let (t2, v2) = known_number(&mut r, -128.0, 128.0);
                let (t3, v3) = known_number(&mut r, -128.0, 128.0);
                let (s1, s2) = (sep(&mut r), sep(&mut r));
                (format!("{}{}{}{}{}{}{}{}{})", pre, b0, t1, s1, t2, s2, t3, alpha_text, b1), Color::from_lab(v1, v2, v3, alpha), "lab")
            }
            8 => {
                let pre = recase(&mut r, "oklab(");
                let (t1, v1) = known_number(&mut r, 0.0, 1.0);
                let (t2, v2) = known_number(&mut r, -0.4, 0.4);
                let (t3, v3) = known_number(&mut r, -0.4, 0.4);
                let (s1, s2) = (sep(&mut r), sep(&mut r));
                (format!("{}{}{}{}{}{}{}{}{})", pre, b0, t1, s1, t2, s2, t3, alpha_text, b1), Color::from_oklab(v1, v2, v3, alpha), "oklab")
            }
            _ => {
                let p0 = *r.pick(&["lch(", "cielch("]);
                let pre = recase(&mut r, p0);
                let (t1, v1) = known_number(&mut r, 0.0, 100.0);
                let (t2, v2) = known_number(&mut r, 0.0, 150.0);
                let (ta, va) = angle_of(&mut r);
                let (s1, s2) = (sep(&mut r), sep(&mut r));
                (format!("{}{}{}{}{}{}{}{}{})", pre, b0, t1, s1, t2, s2, ta, alpha_text, b1), Color::from_lch(v1, v2, va, alpha), "lch")
            }
        };
        let ws = ["", "", "", " ", "  ", "\t", "\n"];
        let text = format!("{}{}{}", r.pick(&ws), text, r.pick(&ws));
        let got = guard(|| parse_color(&text));
        s.count_case(&format!("meaning {}", text), true);
        s.tag(&format!("meaning:{}", kind));
        let inp = || format!("{:?}", text);
        match got {
            None => s.fail("no-panic", "parser::parse_color", inp(), "panic".into()),
            Some(None) => s.fail(
                "valid-notation-is-accepted",
                "parser::parse_color",
                inp(),
                format!("rejected; the {} notation with these numbers denotes {}", kind, crate::wire::show_color(&want)),
            ),
            Some(Some(c)) => {
                let (a, b) = (c.to_rgba_float(), want.to_rgba_float());
                let close = |x: f64, y: f64| (x - y).abs() <= 1e-9;
                s.check(close(a.r, b.r) && close(a.g, b.g) && close(a.b, b.b) && close(a.alpha, b.alpha), "denotes-the-colour-its-numbers-specify", "parser::parse_color", inp, || {
                    format!("parsed {}, the {} notation with these numbers denotes {}", crate::wire::show_color(&c), kind, crate::wire::show_color(&want))
                });
            }
        }
    }
}

pub fn run(s: &mut Session, ctx: &Ctx) {
    let mut rng = Rng::new(ctx.seed);
    meaning_oracle(s, ctx);
    for t in corpus() {
        parse_op(s, t, "corpus");
    }
    // all 148 names in three casings
    for nc in NAMED_COLORS.iter() {
        for v in [nc.name.to_string(), nc.name.to_uppercase(), recase(&mut rng, nc.name)] {
            if let Some(Some(c)) = parse_op(s, &v, "named") {
                s.check(c.to_rgba() == nc.color.to_rgba(), "named-any-case", "parser::parse_named", || v.clone(), || format!("{:?}", c.to_rgba()));
            } else {
                s.fail("named-any-case", "parser::parse_named", v.clone(), "rejected".into());
            }
        }
    }
    // angles are reduced modulo a turn: 360·2^j degrees (= 2^j turns, exactly representable) is hue 0,
    // and an angle plus 2^j turns is the angle (both exactly: the remainder of a float division is exact)
    for j in 0..=62u32 {
        let turns = 2f64.powi(j as i32);
        for sign in ["", "-"] {
            for (form, zero) in [
                (format!("lch(50,30,{}{})", sign, 360.0 * turns), "lch(50,30,0)"),
                (format!("lch(50,30,{}{}turn)", sign, turns), "lch(50,30,0)"),
                (format!("hsl({}{},50%,50%)", sign, 360.0 * turns), "hsl(0,50%,50%)"),
                (format!("hsv({}{}turn,50%,50%)", sign, turns), "hsv(0,50%,50%)"),
                (format!("lch(50,30,{}{})", sign, 360.0 * turns + if j < 40 { 90.0 } else { 0.0 }), if j < 40 && sign.is_empty() { "lch(50,30,90)" } else if j < 40 { "lch(50,30,-450)" } else { "lch(50,30,0)" }),
            ] {
                let a = parse_op(s, &form, "whole-turns");
                let b = parse_op(s, zero, "whole-turns");
                match (a, b) {
                    (Some(Some(ca)), Some(Some(cb))) => {
                        let (x, y) = (ca.to_rgba(), cb.to_rgba());
                        s.check(x == y, "angle-reduced-modulo-a-turn", "parser::parse_color", || form.clone(), || format!("{:?} but {} is {:?}", x, zero, y));
                    }
                    _ => s.fail("angle-reduced-modulo-a-turn", "parser::parse_color", form.clone(), "rejected".into()),
                }
            }
        }
    }
    // the same in units whose conversion to degrees is a product: an odd number of turns beyond 2^45 (the
    // product with 360 is no longer exact), the same count in grad, and counts whose product overflows
    let mut unit_cases: Vec<(String, String)> = vec![];
    for j in [1u32, 10, 30, 44, 45, 46, 48, 50, 52] {
        let k = 2f64.powi(j as i32) + 1.0; // exactly representable, a whole number of turns
        for sign in ["", "-"] {
            unit_cases.push((format!("hsl({}{}turn,100%,50%)", sign, k), "hsl(0,100%,50%)".into()));
            unit_cases.push((format!("hsv({}{}turn,100%,100%)", sign, k), "hsv(0,100%,100%)".into()));
            unit_cases.push((format!("lch(50,60,{}{}turn)", sign, k), "lch(50,60,0)".into()));
            if j <= 44 {
                unit_cases.push((format!("hsl({}{}grad,100%,50%)", sign, 400.0 * k), "hsl(0,100%,50%)".into()));
                unit_cases.push((format!("lch(50,60,{}{}grad)", sign, 400.0 * k + 100.0), format!("lch(50,60,{}100grad)", sign)));
            }
        }
    }
    for (a, b) in [("hsl(1e22turn,100%,50%)", "hsl(0,100%,50%)"), ("hsl(1e306turn,100%,50%)", "hsl(0,100%,50%)"), ("lch(50,60,1e306turn)", "lch(50,60,0)"),
                   ("hsl(1e308grad,100%,50%)", "hsl(336grad,100%,50%)"), ("lch(50,60,1e308grad)", "lch(50,60,336grad)"), ("hsv(-1e308grad,100%,100%)", "hsv(-336grad,100%,100%)")] {
        unit_cases.push((a.into(), b.into()));
    }
    for (form, same) in &unit_cases {
        let a = parse_op(s, form, "whole-turns");
        let b = parse_op(s, same, "whole-turns");
        match (a, b) {
            (Some(Some(ca)), Some(Some(cb))) => {
                let (x, y) = (ca.to_rgba(), cb.to_rgba());
                s.check(x == y, "angle-reduced-modulo-a-turn", "parser::parse_color", || form.clone(), || format!("{:?} but {} is {:?}", x, same, y));
            }
            _ => s.fail("angle-reduced-modulo-a-turn", "parser::parse_color", form.clone(), "rejected".into()),
        }
    }
    let n = if ctx.thorough { 1_200_000 } else { 50_000 };
    for i in 0..n {
        let (base, kind) = render(&mut rng);
        match i % 4 {
            0 | 1 => {
                let t = wrap_ws(&mut rng, base);
                parse_op(s, &t, kind);
            }
            2 => {
                let t = edit(&mut rng, &base);
                parse_op(s, &t, "edited");
            }
            _ => {
                if i % 8 == 3 {
                    let t = random_string(&mut rng);
                    parse_op(s, &t, "random");
                } else {
                    parse_op(s, &base, kind);
                }
            }
        }
    }
}
