//! C02 — every notation pastel prints parses back to the same colour.
use crate::gen::{self, Rng};
use crate::ops::guard;
use crate::par::{self, Acc};
use crate::session::Session;
use crate::wire::{c_in, f, hex_str, ok, show_color, x};
use crate::Ctx;
use pastel::parser::parse_color;
use pastel::{Color, Format};

pub const NOTATIONS: [&str; 7] = ["hex", "rgb", "hsl", "hsv", "lab", "lch", "oklab"];

pub fn print(kind: &str, c: &Color, spaces: bool) -> String {
    let fm = if spaces { Format::Spaces } else { Format::NoSpaces };
    match kind {
        "hex" => c.to_rgb_hex_string(true),
        "hexnohash" => c.to_rgb_hex_string(false),
        "rgb" => c.to_rgb_string(fm),
        "rgbf" => c.to_rgb_float_string(fm),
        "hsl" => c.to_hsl_string(fm),
        "hsv" => c.to_hsv_string(fm),
        "lab" => c.to_lab_string(fm),
        "lch" => c.to_lch_string(fm),
        "oklab" => c.to_oklab_string(fm),
        "cmyk" => c.to_cmyk_string(fm),
        _ => unreachable!(),
    }
}

fn chan_diff(a: &Color, b: &Color) -> i32 {
    let (p, q) = (a.to_rgba(), b.to_rgba());
    (p.r as i32 - q.r as i32).abs().max((p.g as i32 - q.g as i32).abs()).max((p.b as i32 - q.b as i32).abs())
}

/// The round-trip clause for one colour, one notation, one spacing. Returns a failure description.
fn roundtrip(kind: &str, c: &Color, spaces: bool) -> Result<(), (String, String)> {
    let s = print(kind, c, spaces);
    let back = match parse_color(&s) {
        None => return Err(("printed-form-is-accepted".into(), format!("{:?} does not parse", s))),
        Some(b) => b,
    };
    let d = chan_diff(c, &back);
    let (a0, a1) = (c.to_rgba().alpha, back.to_rgba().alpha);
    let limit = match kind {
        "hex" | "rgb" => 0,
        "hsl" | "hsv" => 3,
        "oklab" => 1,
        _ => -1,
    };
    if limit >= 0 {
        if d > limit {
            return Err((format!("{}-roundtrip-within-{}", kind, limit), format!("{:?} -> {} (channel difference {})", s, show_color(&back), d)));
        }
    } else {
        let (l1, l2) = (c.to_lab(), back.to_lab());
        let de = ((l1.l - l2.l).powi(2) + (l1.a - l2.a).powi(2) + (l1.b - l2.b).powi(2)).sqrt(); // CIE76, written out
        if !(de < 2.3) {
            return Err((format!("{}-roundtrip-jnd", kind), format!("{:?} -> {} (CIE76 {:?})", s, show_color(&back), de)));
        }
    }
    let tol = if kind == "hex" { 1.0 / 510.0 + 1e-12 } else { 0.0005 + 1e-12 };
    if (a0 - a1).abs() > tol {
        return Err(("alpha-to-printed-precision".into(), format!("{:?}: alpha {:?} -> {:?}", s, a0, a1)));
    }
    if a0 == 1.0 && a1 != 1.0 {
        return Err(("alpha-1-omitted-reads-1".into(), format!("{:?}: alpha read back as {:?}", s, a1)));
    }
    Ok(())
}

pub fn run(s: &mut Session, ctx: &Ctx) {
    let mut rng = Rng::new(ctx.seed);
    // ---- raw number formatting: model vs Rust ----
    let n = if ctx.thorough { 400_000 } else { 20_000 };
    for i in 0..n {
        let v = match i % 8 {
            0 => (rng.below(4001) as f64 - 2000.0) / 8.0,          // exact halves/eighths: ties
            1 => (rng.below(2001) as f64 - 1000.0) / 10.0,
            2 => rng.range(-1.0, 1.0),
            3 => rng.range(-400.0, 400.0),
            4 => gen::coord(&mut rng, 0.0, 100.0),
            5 => (rng.below(1001) as f64) / 1000.0,
            6 => rng.unit() * 1e-5,
            _ => rng.range(0.0, 360.0),
        };
        let prec = [0usize, 1, 2, 3, 4][i % 5];
        let st = format!("{:.*}", prec, v);
        s.op(format!("fmt fixed {} {}", prec, f(v)), ok(vec![x(hex_str(&st))]), true);
        if v.is_finite() && v.abs() < 1e15 {
            let sh = format!("{}", v);
            s.op(format!("fmt shortest {}", f(v)), ok(vec![x(hex_str(&sh))]), true);
        }
    }
    // ---- formatters: exact string equality, all notations, both spacings ----
    let mut colors: Vec<Color> = gen::structured_colors();
    for v in [0u8, 1, 15, 16, 127, 128, 254, 255] {
        for w in [0u8, 9, 255] {
            colors.push(Color::from_rgb(v, w, w));
            colors.push(Color::from_rgb(w, v, w));
            colors.push(Color::from_rgb(w, w, v));
        }
    }
    let step = if ctx.thorough { 5 } else { 17 };
    let mut r = 0usize;
    while r < 256 {
        let mut g = 0usize;
        while g < 256 {
            let mut b = 0usize;
            while b < 256 {
                colors.push(Color::from_rgba(r as u8, g as u8, b as u8, gen::alpha(&mut rng)));
                b += step;
            }
            g += step;
        }
        r += step;
    }
    // alphas over all 256 hex levels and all 1001 three-decimal values
    for k in 0..=255u32 {
        let (r, g, b) = gen::rgb8(&mut rng);
        colors.push(Color::from_rgba(r, g, b, k as f64 / 255.0));
    }
    for k in 0..=1000u32 {
        let (r, g, b) = gen::rgb8(&mut rng);
        colors.push(Color::from_rgba(r, g, b, k as f64 / 1000.0));
        if k % 10 == 0 {
            colors.push(Color::from_rgba(r, g, b, (k as f64 + 0.5) / 1000.0));
            colors.push(Color::from_rgba(r, g, b, 1.0 - 1e-5 * (k as f64 + 1.0) / 100.0));
        }
    }
    // near-neutral colours: every gray level with each channel moved by -2..2 (where chroma-like
    // coordinates are near zero and any "tidy small values to 0" shortcut in a formatter bites)
    for g in 0..=255i32 {
        for dr in -2..=2i32 {
            for dg in -2..=2i32 {
                for db in -2..=2i32 {
                    if !ctx.thorough && (g + dr + 2 * dg + 3 * db).rem_euclid(3) != 0 {
                        continue;
                    }
                    let q = |x: i32| x.max(0).min(255) as u8;
                    colors.push(Color::from_rgba(q(g + dr), q(g + dg), q(g + db), 1.0));
                }
            }
        }
    }
    // the direct oracle on these 8-bit colours too: every hex alpha level, every three-decimal
    // alpha, and alphas within 1e-5 of 1 (where "omit alpha" and "print alpha" meet)
    for c in colors.clone().iter() {
        for kind in NOTATIONS {
            for spaces in [false, true] {
                if kind == "hex" && spaces {
                    continue;
                }
                s.count_case("", true);
                match std::panic::catch_unwind(|| roundtrip(kind, c, spaces)) {
                    Err(_) => s.fail("no-panic", kind, show_color(c), "panic".into()),
                    Ok(Ok(())) => s.check(true, "", "", String::new, String::new),
                    Ok(Err((clause, detail))) => s.fail(&clause, &format!("to_{}_string / parse_color", kind), format!("{} {}", show_color(c), if spaces { "spaces" } else { "no-spaces" }), detail),
                }
            }
        }
    }
    let nh = if ctx.thorough { 100_000 } else { 3_000 };
    for _ in 0..nh {
        colors.push(gen::color_hsl(&mut rng));
    }
    for (i, c) in colors.iter().enumerate() {
        for kind in ["hex", "hexnohash", "rgb", "rgbf", "hsl", "hsv", "lab", "lch", "oklab", "cmyk"] {
            let spaces = (i + kind.len()) % 2 == 0;
            let st = guard(|| print(kind, c, spaces));
            match st {
                None => s.fail("no-panic", &format!("to_{}_string", kind), show_color(c), "panic".into()),
                Some(st) => s.op(format!("fmt {} {} {}", kind, if spaces { "sp" } else { "nosp" }, c_in(c)), ok(vec![x(hex_str(&st))]), c.to_rgba().alpha != 1.0),
            }
        }
    }
    // ---- direct oracle: parse(print(c)) for 8-bit colours with any alpha ----
    let ostep = if ctx.thorough { 1 } else { 5 };
    let accs = par::for_all_rgb(ostep, Acc::default, |r, g, b, acc: &mut Acc| {
        acc.cases += 1;
        let k = r ^ g.rotate_left(3) ^ b.rotate_left(6);
        let alpha = match k % 5 {
            0 | 1 => 1.0,
            2 => k as f64 / 255.0,
            3 => (k as f64 * 3.9) / 1000.0,
            _ => ((k as u32 * 7919) % 100_003) as f64 / 100_003.0,
        };
        let c = Color::from_rgba(r, g, b, alpha);
        for kind in NOTATIONS {
            for spaces in [false, true] {
                if kind == "hex" && spaces {
                    continue;
                }
                let res = std::panic::catch_unwind(|| roundtrip(kind, &c, spaces));
                match res {
                    Err(_) => acc.check(false, "no-panic", kind, || format!("rgba({},{},{},{:?})", r, g, b, alpha), || "panic".into()),
                    Ok(Ok(())) => acc.check(true, "", "", || String::new(), || String::new()),
                    Ok(Err((clause, detail))) => acc.check(false, &clause, &format!("to_{}_string / parse_color", kind), || format!("rgba({},{},{},{:?}) {}", r, g, b, alpha, if spaces { "spaces" } else { "no-spaces" }), || detail.clone()),
                }
            }
        }
    });
    par::merge(s, accs);
    if ostep == 1 {
        s.exhaustive.push("all 2^24 8-bit colours x 7 notations x 2 spacings: print then parse".into());
    } else {
        s.notes.push("quick tier: lattice step 5 (2^24/125 colours) for the print-parse oracle".into());
    }
}
