//! C07 — mixing is linear interpolation in the chosen space with exact endpoints.
use crate::gen::{self, Rng};
use crate::ops::{self, MIX_SPACES};
use crate::session::Session;
use crate::wire::show_color;
use crate::Ctx;
use pastel::Color;

fn chan_diff(a: &Color, b: &Color) -> i32 {
    let (x, y) = (a.to_rgba(), b.to_rgba());
    (x.r as i32 - y.r as i32)
        .abs()
        .max((x.g as i32 - y.g as i32).abs())
        .max((x.b as i32 - y.b as i32).abs())
}

fn between(v: u8, a: u8, b: u8) -> bool {
    v >= a.min(b) && v <= a.max(b)
}

fn clauses(s: &mut Session, sp: &str, a: &Color, b: &Color, fr: f64, both_8bit: bool) {
    let site = format!("Color::mix::<{}>", sp);
    let inp = || format!("mix {} a={} b={} f={:?}", sp, show_color(a), show_color(b), fr);
    let m = match ops::mix(s, sp, a, b, fr, a.to_rgba() != b.to_rgba() && fr > 0.0 && fr < 1.0) {
        Some(m) => m,
        None => return,
    };
    let (ra, rb, rm) = (a.to_rgba(), b.to_rgba(), m.to_rgba());
    if fr.is_nan() {
        return;
    }
    let f = fr.max(0.0).min(1.0);
    // alpha is interpolated linearly
    let want_alpha = ra.alpha + f * (rb.alpha - ra.alpha);
    s.check((rm.alpha - want_alpha.max(0.0).min(1.0)).abs() <= 1e-12, "alpha-linear", &site, inp, || format!("alpha {:?}, expected {:?}", rm.alpha, want_alpha));
    // endpoints (fractions outside [0,1] act as the nearest endpoint)
    if f == 0.0 || f == 1.0 {
        let end = if f == 0.0 { a } else { b };
        if both_8bit {
            s.check(chan_diff(&m, end) == 0 && (rm.alpha - end.to_rgba().alpha).abs() <= 1e-12, "endpoint-exact", &site, inp, || format!("got {} expected {}", show_color(&m), show_color(end)));
        } else {
            s.check(chan_diff(&m, end) <= 1, "endpoint-within-1", &site, inp, || format!("got {} expected {}", show_color(&m), show_color(end)));
        }
    }
    // RGB: every channel between the operands' channels
    if sp == "rgb" {
        s.check(
            between(rm.r, ra.r, rb.r) && between(rm.g, ra.g, rb.g) && between(rm.b, ra.b, rb.b),
            "rgb-betweenness",
            &site,
            inp,
            || format!("result {:?} operands {:?} {:?}", rm, ra, rb),
        );
    }
    // hue spaces: the hue travels along the shorter arc (independent reconstruction from the
    // operands' own coordinates; applied when both operands are clearly chromatic and the hues
    // are not antipodal, where "shorter" is undefined)
    if let Some(want) = shorter_arc_expectation(sp, a, b, f) {
        s.check(chan_diff(&m, &want) <= 1, "hue-shorter-arc", &site, inp, || format!("got {} ; interpolation along the shorter hue arc gives {}", show_color(&m), show_color(&want)));
    }
    // swap symmetry: mix(a,b,f) vs mix(b,a,1-f) within one 8-bit step
    let sw = ops::mix_impl(sp, b, a, 1.0 - f);
    s.check(chan_diff(&m, &sw) <= 1 && (sw.to_rgba().alpha - rm.alpha).abs() <= 1e-12, "swap-symmetry", &site, inp, || format!("mix(a,b,f) = {} but mix(b,a,1-f) = {}", show_color(&m), show_color(&sw)));
}

fn arc_hue(h1: f64, h2: f64, f: f64) -> Option<f64> {
    // signed shorter difference in [-180, 180)
    let d = ((h2 - h1) % 360.0 + 540.0) % 360.0 - 180.0;
    if (d.abs() - 180.0).abs() < 1e-6 {
        return None;
    }
    Some(h1 + f * d)
}

fn shorter_arc_expectation(sp: &str, a: &Color, b: &Color, f: f64) -> Option<Color> {
    let li = |x: f64, y: f64| x + f * (y - x);
    match sp {
        "hsl" => {
            let (x, y) = (a.to_hsla(), b.to_hsla());
            if x.s < 0.01 || y.s < 0.01 {
                return None;
            }
            Some(Color::from_hsla(arc_hue(x.h, y.h, f)?, li(x.s, y.s), li(x.l, y.l), li(x.alpha, y.alpha)))
        }
        "hsv" => {
            let (x, y) = (a.to_hsva(), b.to_hsva());
            if x.s < 0.01 || y.s < 0.01 {
                return None;
            }
            Some(Color::from_hsva(arc_hue(x.h, y.h, f)?, li(x.s, y.s), li(x.v, y.v), li(x.alpha, y.alpha)))
        }
        "lch" => {
            let (x, y) = (a.to_lch(), b.to_lch());
            if x.c < 1.0 || y.c < 1.0 {
                return None;
            }
            Some(Color::from_lch(li(x.l, y.l), li(x.c, y.c), arc_hue(x.h, y.h, f)?, li(x.alpha, y.alpha)))
        }
        _ => None,
    }
}

pub fn run(s: &mut Session, ctx: &Ctx) {
    let mut rng = Rng::new(ctx.seed);
    let fractions = [0.0, 1.0, -1.0, 2.0, 0.5, 0.25, 0.75, 0.125, f64::NAN, 1e-300, 0.999999, 0.3];
    // structured pairs x fractions x spaces
    let st = gen::structured_colors();
    for (i, a) in st.iter().enumerate() {
        for (j, b) in st.iter().enumerate() {
            if !ctx.thorough && (i * 31 + j * 17) % 5 != 0 {
                continue;
            }
            let eight = false; // structured colours include HSL-float ones
            for sp in MIX_SPACES {
                let fr = fractions[(i + j + sp.len()) % fractions.len()];
                clauses(s, sp, a, b, fr, eight);
                if ctx.thorough {
                    for &fr in &fractions {
                        clauses(s, sp, a, b, fr, eight);
                    }
                }
            }
        }
    }
    // random 8-bit pairs (endpoints must be exact in every space)
    let n = if ctx.thorough { 300_000 } else { 12_000 };
    for i in 0..n {
        let a = gen::color8(&mut rng);
        let b = match rng.below(8) {
            0 => a.clone(),
            1 => {
                // antipodal-ish hue partner
                let h = a.to_hsla();
                let d = *rng.pick(&[179.9, 180.0, 180.1, 179.6, 180.4, 180.6, 179.4, 181.0, 179.0]);
                let c = Color::from_hsla(h.h + d, h.s, h.l, h.alpha);
                let r = c.to_rgba();
                Color::from_rgba(r.r, r.g, r.b, r.alpha)
            }
            _ => gen::color8(&mut rng),
        };
        let fr = match rng.below(6) {
            0 => *rng.pick(&fractions),
            1 => (rng.below(257) as f64) / 256.0,
            _ => rng.unit(),
        };
        let sp = MIX_SPACES[i % 6];
        clauses(s, sp, &a, &b, fr, true);
        // a colour mixed with itself is unchanged
        let own = ops::mix_impl(sp, &a, &a, fr);
        s.check(chan_diff(&own, &a) == 0 && (own.to_rgba().alpha - a.to_rgba().alpha).abs() <= 1e-12, "self-mix-identity", &format!("Color::mix::<{}>", sp), || format!("mix {} a=a={} f={:?}", sp, show_color(&a), fr), || format!("got {}", show_color(&own)));
    }
    // the same RGB with two different alphas: only alpha moves, and it moves linearly
    for i in 0..(if ctx.thorough { 20_000 } else { 1_000 }) {
        let a = gen::color8(&mut rng);
        let q = a.to_rgba();
        let a1 = *rng.pick(&[0.0, 0.2, 0.5, 1.0, 0.999]);
        let a2 = *rng.pick(&[1.0, 0.0, 0.25, 0.6]);
        let (x, y) = (Color::from_rgba(q.r, q.g, q.b, a1), Color::from_rgba(q.r, q.g, q.b, a2));
        let fr = if i % 3 == 0 { 0.5 } else { rng.unit() };
        clauses(s, MIX_SPACES[i % 6], &x, &y, fr, true);
    }
    // random HSL-float pairs
    for i in 0..n / 2 {
        let a = gen::color_hsl(&mut rng);
        let b = gen::color_hsl(&mut rng);
        let fr = if rng.below(4) == 0 { *rng.pick(&fractions) } else { rng.unit() };
        clauses(s, MIX_SPACES[i % 6], &a, &b, fr, false);
    }
}
