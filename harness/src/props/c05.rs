//! C05 — every constructible colour is valid; no numeric input panics.
use crate::gen::{self, boundary_floats, Rng};
use crate::ops::{self, ADJ_UNARY, ADJ_WITH_AMOUNT, MIX_SPACES};
use crate::session::Session;
use crate::wire::f;
use crate::Ctx;
use pastel::{Color, Format};

/// Absolute allowance for float noise in *derived* quantities (DESIGN.md §2.4).
pub const NOISE: f64 = 1e-12;

fn in_range(v: f64, lo: f64, hi: f64, slack: f64) -> bool {
    v.is_finite() && v >= lo - slack && v <= hi + slack
}

/// The validity clause of C05 evaluated on one colour.  `site` names the call that produced it.
pub fn check_valid(s: &mut Session, site: &str, input: &str, c: &Color) {
    let r = ops::guard(|| {
        let h = c.to_hsla();
        let v = c.to_hsva();
        let rf = c.to_rgba_float();
        let r8 = c.to_rgba();
        let lab = c.to_lab();
        let lch = c.to_lch();
        let k = c.to_cmyk();
        let lum = c.luminance();
        let br = c.brightness();
        let xyz = c.to_xyz();
        let lms = c.to_lms();
        let ok = c.to_oklab();
        // formatters must not panic either
        let _ = c.to_hsl_string(Format::Spaces);
        let _ = c.to_hsv_string(Format::NoSpaces);
        let _ = c.to_rgb_string(Format::Spaces);
        let _ = c.to_rgb_float_string(Format::Spaces);
        let _ = c.to_rgb_hex_string(true);
        let _ = c.to_lab_string(Format::Spaces);
        let _ = c.to_lch_string(Format::Spaces);
        let _ = c.to_oklab_string(Format::Spaces);
        let _ = c.to_cmyk_string(Format::Spaces);
        let _ = c.to_u32();
        let _ = format!("{:?} {}", c, c);
        (h, v, rf, r8, lab, lch, k, lum, br, xyz, lms, ok)
    });
    let inp = || input.to_string();
    let (h, v, rf, r8, lab, lch, k, lum, br, xyz, lms, ok) = match r {
        None => {
            s.fail("no-panic", site, input.to_string(), "a getter or formatter panicked".into());
            return;
        }
        Some(t) => t,
    };
    s.check(in_range(h.h, 0.0, 360.0, 0.0), "hue-range", site, inp, || format!("to_hsla().h = {:?}", h.h));
    s.check(in_range(h.s, 0.0, 1.0, 0.0), "saturation-range", site, inp, || format!("to_hsla().s = {:?}", h.s));
    s.check(in_range(h.l, 0.0, 1.0, 0.0), "lightness-range", site, inp, || format!("to_hsla().l = {:?}", h.l));
    s.check(in_range(h.alpha, 0.0, 1.0, 0.0), "alpha-range", site, inp, || format!("alpha = {:?}", h.alpha));
    s.check(in_range(v.h, 0.0, 360.0, 0.0), "hue-range", site, inp, || format!("to_hsva().h = {:?}", v.h));
    s.check(in_range(v.s, 0.0, 1.0, NOISE), "hsv-saturation-range", site, inp, || format!("to_hsva().s = {:?}", v.s));
    s.check(in_range(v.v, 0.0, 1.0, NOISE), "value-range", site, inp, || format!("to_hsva().v = {:?}", v.v));
    for (name, ch) in [("r", rf.r), ("g", rf.g), ("b", rf.b)] {
        s.check(in_range(ch, 0.0, 1.0, NOISE), "float-channel-range", site, inp, || {
            format!("to_rgba_float().{} = {:?}", name, ch)
        });
    }
    let rounded = |x: f64| (255.0 * x).round();
    s.check(
        rounded(rf.r) == r8.r as f64 && rounded(rf.g) == r8.g as f64 && rounded(rf.b) == r8.b as f64,
        "u8-is-rounded-float",
        site,
        inp,
        || format!("float ({:?},{:?},{:?}) vs 8-bit ({},{},{})", rf.r, rf.g, rf.b, r8.r, r8.g, r8.b),
    );
    s.check(in_range(lab.l, 0.0, 100.0, 1e-9), "lab-l-range", site, inp, || format!("L* = {:?}", lab.l));
    s.check(lab.a.is_finite() && lab.b.is_finite(), "lab-finite", site, inp, || format!("a,b = {:?},{:?}", lab.a, lab.b));
    s.check(lch.c.is_finite() && lch.c >= 0.0, "chroma-nonneg", site, inp, || format!("chroma = {:?}", lch.c));
    s.check(lch.h.is_finite() && lch.h >= 0.0 && lch.h < 360.0, "lch-hue-range", site, inp, || format!("LCh hue = {:?}", lch.h));
    for (name, ch) in [("c", k.c), ("m", k.m), ("y", k.y), ("k", k.k)] {
        s.check(in_range(ch, 0.0, 1.0, NOISE), "cmyk-range", site, inp, || format!("cmyk.{} = {:?}", name, ch));
    }
    s.check(in_range(lum, 0.0, 1.0, NOISE), "luminance-range", site, inp, || format!("luminance = {:?}", lum));
    s.check(in_range(br, 0.0, 1.0, NOISE), "brightness-range", site, inp, || format!("brightness = {:?}", br));
    let all = [xyz.x, xyz.y, xyz.z, lms.l, lms.m, lms.s, ok.l, ok.a, ok.b];
    s.check(all.iter().all(|x| x.is_finite()), "finite", site, inp, || format!("xyz/lms/oklab = {:?}", all));
}

const CTORS: [&str; 9] = ["hsla", "hsva", "rgbaf", "xyz", "lms", "lab", "lch", "oklab", "cmyk"];

fn ctor_site(kind: &str) -> String {
    format!("Color::from_{}", match kind {
        "rgbaf" => "rgba_float",
        k => k,
    })
}

pub fn run(s: &mut Session, ctx: &Ctx) {
    let mut rng = Rng::new(ctx.seed);
    let bf = boundary_floats();
    s.track_distinct = false; // cases below are distinct by construction (cross products) or random

    // ---- constructors: complete cross product of the boundary alphabet in three arguments ----
    let alphas = [1.0, 0.5, f64::NAN, -3.0, f64::INFINITY];
    for kind in CTORS {
        let site = ctor_site(kind);
        for (ia, &a) in bf.iter().enumerate() {
            for (ib, &b) in bf.iter().enumerate() {
                for (ic, &c) in bf.iter().enumerate() {
                    let d = if kind == "cmyk" { bf[(ia + ib + ic) % bf.len()] } else { alphas[(ia + 2 * ib + 3 * ic) % alphas.len()] };
                    let input = format!("{}({:?}, {:?}, {:?}, {:?})", site, a, b, c, d);
                    // the model sees a third of the cross product in the quick tier
                    let to_model = ctx.thorough || (ia + ib + ic) % 3 == 0;
                    let col = if to_model {
                        ops::from_space(s, kind, a, b, c, d, true)
                    } else {
                        s.count_case("", true);
                        ops::guard(|| ops::construct(kind, a, b, c, d))
                    };
                    match col {
                        None => s.fail("no-panic", &site, input, "constructor panicked".into()),
                        Some(col) => check_valid(s, &site, &input, &col),
                    }
                }
            }
        }
    }
    s.exhaustive.push(format!("{}^3 boundary-alphabet cross product for each of 9 constructors", bf.len()));

    // ---- from_rgba / graytone / from_u32-free constructors ----
    for &a in &bf {
        for &(r, g, b) in &[(0u8, 0u8, 0u8), (255, 255, 255), (12, 200, 99), (128, 128, 128)] {
            let input = format!("Color::from_rgba({}, {}, {}, {:?})", r, g, b, a);
            match ops::from_rgba8(s, r, g, b, a, true) {
                None => s.fail("no-panic", "Color::from_rgba", input, "panic".into()),
                Some(c) => check_valid(s, "Color::from_rgba", &input, &c),
            }
        }
        let input = format!("Color::graytone({:?})", a);
        match ops::from_space(s, "hsla", 0.0, 0.0, a, 1.0, true) {
            None => s.fail("no-panic", "Color::graytone", input, "panic".into()),
            Some(_) => {
                let c = Color::graytone(a);
                check_valid(s, "Color::graytone", &input, &c);
            }
        }
    }

    // ---- random arguments: in and around the nominal ranges, log-uniform magnitudes ----
    let n_random = if ctx.thorough { 2_000_000 } else { 60_000 };
    for i in 0..n_random {
        let kind = CTORS[i % CTORS.len()];
        let site = ctor_site(kind);
        let (lo, hi) = match kind {
            "hsla" | "hsva" | "rgbaf" | "cmyk" | "xyz" | "lms" | "oklab" => (0.0, 1.0),
            _ => (-128.0, 128.0),
        };
        let a = gen::coord(&mut rng, if kind.starts_with("hs") { 0.0 } else { lo }, if kind.starts_with("hs") { 360.0 } else { hi });
        let b = gen::coord(&mut rng, lo, hi);
        let c = gen::coord(&mut rng, if kind == "lch" { 0.0 } else { lo }, if kind == "lch" { 360.0 } else { hi });
        let d = gen::coord(&mut rng, 0.0, 1.0);
        let input = format!("{}({:?}, {:?}, {:?}, {:?})", site, a, b, c, d);
        match ops::from_space(s, kind, a, b, c, d, true) {
            None => s.fail("no-panic", &site, input, "constructor panicked".into()),
            Some(col) => check_valid(s, &site, &input, &col),
        }
    }

    // ---- adjustments with boundary amounts on a mix of colours ----
    let mut bases: Vec<Color> = gen::structured_colors();
    bases.push(Color::from_hsl(1e300, 0.5, 0.5));
    bases.push(Color::from_hsl(-1e15, 1.0, 0.25));
    bases.push(Color::from_hsl(359.99999999999994, 1.0, 0.5));
    for _ in 0..40 {
        bases.push(gen::color(&mut rng));
    }
    for base in &bases {
        for kind in ADJ_WITH_AMOUNT {
            for &amt in &bf {
                let site = format!("Color::{}", match kind {
                    "rotate" => "rotate_hue",
                    k => k,
                });
                let input = format!("{}.{}({:?})", crate::wire::show_color(base), kind, amt);
                match ops::adj(s, kind, base, Some(amt), true) {
                    None => s.fail("no-panic", &site, input, "panic".into()),
                    Some(c) => check_valid(s, &site, &input, &c),
                }
            }
        }
        for kind in ADJ_UNARY {
            let site = format!("Color::{}", kind);
            let input = format!("{}.{}()", crate::wire::show_color(base), kind);
            match ops::adj(s, kind, base, None, true) {
                None => s.fail("no-panic", &site, input, "panic".into()),
                Some(c) => check_valid(s, &site, &input, &c),
            }
        }
    }

    // ---- mixing with boundary fractions; metrics ----
    for (i, a) in bases.iter().enumerate() {
        let b = &bases[(i * 7 + 3) % bases.len()];
        for sp in MIX_SPACES {
            for &fr in &[0.0, 1.0, -1.0, 2.0, 0.5, f64::NAN, f64::INFINITY, f64::NEG_INFINITY, 1e-320, 0.3] {
                let site = format!("Color::mix::<{}>", sp);
                let input = format!("mix {} {} {} f={:?}", sp, crate::wire::show_color(a), crate::wire::show_color(b), fr);
                match ops::mix(s, sp, a, b, fr, true) {
                    None => s.fail("no-panic", &site, input, "panic".into()),
                    Some(c) => check_valid(s, &site, &input, &c),
                }
            }
        }
        let input = format!("composite {} over {}", crate::wire::show_color(b), crate::wire::show_color(a));
        match ops::comp(s, a, b, true) {
            None => s.fail("no-panic", "Color::composite", input, "panic".into()),
            Some(c) => check_valid(s, "Color::composite", &input, &c),
        }
        for kind in ["contrast", "cie76", "ciede2000"] {
            let input = format!("{} {} {}", kind, crate::wire::show_color(a), crate::wire::show_color(b));
            match ops::num2(s, kind, a, b, true) {
                None => s.fail("no-panic", kind, input, "panic".into()),
                Some(v) => {
                    let okv = match kind {
                        "contrast" => v.is_finite() && v >= 1.0 - NOISE && v <= 21.0 + 1e-9,
                        _ => v.is_finite() && v >= 0.0,
                    };
                    s.check(okv, "metric-range", kind, || input.clone(), || format!("{} = {:?}", kind, v));
                }
            }
        }
    }

    // ---- whole turns: exact sums h + 360k (h a multiple of 2^-10, |h|,|360k| < 2^30) ----
    let n_turns = if ctx.thorough { 400_000 } else { 20_000 };
    for _ in 0..n_turns {
        let h = (rng.below(1 << 30) as f64 - (1u64 << 29) as f64) / 1024.0;
        let k = rng.below(2001) as f64 - 1000.0;
        let sat = rng.unit();
        let l = rng.unit();
        let a = gen::alpha(&mut rng);
        let c1 = Color::from_hsla(h, sat, l, a);
        let c2 = Color::from_hsla(h + 360.0 * k, sat, l, a);
        s.count_case("", true);
        let (r1, r2) = (c1.to_rgba(), c2.to_rgba());
        s.check(
            r1 == r2 && c1.to_hsla().h == c2.to_hsla().h,
            "whole-turns",
            "Hue::value",
            || format!("from_hsla({:?},{:?},{:?},{:?}) vs hue {:?} (k={})", h, sat, l, a, h + 360.0 * k, k),
            || format!("{:?} vs {:?}; hues {:?} vs {:?}", r1, r2, c1.to_hsla().h, c2.to_hsla().h),
        );
    }
    // ---- colours that are black (or white) up to rounding: tiny lightness / value, any saturation:
    // float channels can be -1e-17, and every derived number must still be finite ----
    for i in 0..(if ctx.thorough { 40_000 } else { 3_000 }) {
        let h = rng.range(0.0, 360.0);
        let u = rng.unit();
        let sat = *rng.pick(&[1.0, 0.5, 0.1, 1e-3, u]);
        let tiny = 10f64.powf(rng.range(-19.0, -12.0)) * if i % 7 == 0 { 0.0 } else { 1.0 };
        let l = if i % 2 == 0 { tiny } else { 1.0 - tiny };
        for (name, c) in [("from_hsl", Color::from_hsl(h, sat, l)), ("from_hsv", Color::from_hsv(h, sat, l))] {
            let input = format!("Color::{}({:?}, {:?}, {:?})", name, h, sat, l);
            s.count_case("", true);
            check_valid(s, &format!("Color::{} (nearly black/white)", name), &input, &c);
            // and the consequence that made this visible: mixing with black in OkLab stays dark
            if i % 2 == 0 {
                let m = ops::mix_impl("oklab", &c, &Color::black(), 0.5).to_rgba();
                s.check(m.r <= 1 && m.g <= 1 && m.b <= 1, "oklab-mix-of-blacks-is-black", "Color::mix::<OkLab>", || input.clone(), || format!("{:?}", m));
            }
        }
    }
    // ---- the short constructors are the full ones with alpha 1 ----
    for _ in 0..(if ctx.thorough { 20_000 } else { 1_000 }) {
        let (a, b, c) = (gen::coord(&mut rng, 0.0, 360.0), gen::coord(&mut rng, 0.0, 1.0), gen::coord(&mut rng, 0.0, 1.0));
        let same = |x: &Color, y: &Color| x.to_hsla() == y.to_hsla() || (x.to_hsla().h.is_nan() && y.to_hsla().h.is_nan());
        s.count_case("", true);
        let pairs = ops::guard(|| {
            vec![
                ("from_hsl", Color::from_hsl(a, b, c), Color::from_hsla(a, b, c, 1.0)),
                ("from_hsv", Color::from_hsv(a, b, c), Color::from_hsva(a, b, c, 1.0)),
                ("from_rgb_float", Color::from_rgb_float(b, c, a / 360.0), Color::from_rgba_float(b, c, a / 360.0, 1.0)),
                ("from_rgb", Color::from_rgb((a as i64 % 256) as u8, (b * 255.0) as u8, (c * 255.0) as u8), Color::from_rgba((a as i64 % 256) as u8, (b * 255.0) as u8, (c * 255.0) as u8, 1.0)),
            ]
        });
        match pairs {
            None => s.fail("no-panic", "Color::from_*", format!("({:?},{:?},{:?})", a, b, c), "panic".into()),
            Some(ps) => {
                for (name, x, y) in ps {
                    s.check(same(&x, &y), "short-constructor-is-full-constructor-with-alpha-1", &format!("Color::{}", name), || format!("{}({:?},{:?},{:?})", name, a, b, c), || format!("{:?} vs {:?}", x.to_hsla(), y.to_hsla()));
                    check_valid(s, &format!("Color::{}", name), &format!("{}({:?},{:?},{:?})", name, a, b, c), &x);
                }
            }
        }
    }
    // ---- LCh hue at the 0/360 seam: colours whose Lab b is within a few rounding steps of zero
    // (a > 0), found by bisecting the HSL hue; atan2 of a tiny negative b must still map below 360 ----
    let n_seam = if ctx.thorough { 6000 } else { 250 };
    for _ in 0..n_seam {
        let sat = rng.range(0.05, 1.0);
        let li = if rng.below(3) == 0 { rng.range(0.01, 0.12) } else { rng.range(0.03, 0.97) };
        let lab = |h: f64| Color::from_hsl(h, sat, li).to_lab();
        let mut bracket = None;
        for k in 0..120 {
            let h0 = 290.0 + k as f64;
            let (p, q) = (lab(h0), lab(h0 + 1.0));
            if p.b < 0.0 && q.b >= 0.0 && p.a > 0.0 {
                bracket = Some((h0, h0 + 1.0));
                break;
            }
        }
        let (mut lo, mut hi) = match bracket {
            Some(b) => b,
            None => continue,
        };
        for _ in 0..70 {
            let mid = 0.5 * (lo + hi);
            if mid <= lo || mid >= hi {
                break;
            }
            if lab(mid).b < 0.0 {
                lo = mid;
            } else {
                hi = mid;
            }
        }
        let mut h = f64::from_bits(lo.to_bits() - 40);
        for _ in 0..90 {
            let c = Color::from_hsl(h, sat, li);
            s.count_case("", true);
            let input = format!("Color::from_hsl({:?}, {:?}, {:?}) (Lab b = {:?})", h, sat, li, c.to_lab().b);
            check_valid(s, "Color::to_lch (hue seam)", &input, &c);
            h = f64::from_bits(h.to_bits() + 1);
        }
    }
    let _ = f(0.0);
}
