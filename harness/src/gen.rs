//! Deterministic generators: one xorshift64* state drives every random choice.
use pastel::Color;

#[derive(Clone)]
pub struct Rng(pub u64);

impl Rng {
    pub fn new(seed: u64) -> Self {
        let mut r = Rng(seed ^ 0x9E37_79B9_7F4A_7C15);
        if r.0 == 0 {
            r.0 = 0x1234_5678_9abc_def1;
        }
        for _ in 0..8 {
            r.next();
        }
        r
    }
    pub fn next(&mut self) -> u64 {
        let mut x = self.0;
        x ^= x >> 12;
        x ^= x << 25;
        x ^= x >> 27;
        self.0 = x;
        x.wrapping_mul(0x2545_F491_4F6C_DD1D)
    }
    pub fn below(&mut self, n: u64) -> u64 {
        self.next() % n.max(1)
    }
    pub fn unit(&mut self) -> f64 {
        (self.next() >> 11) as f64 / (1u64 << 53) as f64
    }
    pub fn range(&mut self, lo: f64, hi: f64) -> f64 {
        lo + (hi - lo) * self.unit()
    }
    pub fn u8(&mut self) -> u8 {
        (self.next() >> 32) as u8
    }
    pub fn bool(&mut self) -> bool {
        self.next() & (1 << 40) != 0
    }
    pub fn pick<'a, T>(&mut self, xs: &'a [T]) -> &'a T {
        &xs[self.below(xs.len() as u64) as usize]
    }
}

/// Boundary alphabet for float arguments (DESIGN.md §5, C05).
pub fn boundary_floats() -> Vec<f64> {
    vec![
        0.0,
        -0.0,
        1.0,
        -1.0,
        0.5,
        1.0 - f64::EPSILON / 2.0,
        1.0 + f64::EPSILON,
        2.0,
        100.0,
        255.0,
        255.5,
        256.0,
        360.0,
        -360.0,
        359.99999999999994,
        720.0,
        1e-300,
        f64::MIN_POSITIVE,
        5e-324,
        -5e-324,
        1e15,
        -1e15,
        1e300,
        f64::MAX,
        f64::MIN,
        f64::NAN,
        f64::INFINITY,
        f64::NEG_INFINITY,
    ]
}

/// A float for a coordinate whose nominal range is `[lo, hi]`: mostly inside,
/// sometimes around the ends, sometimes far outside, rarely non-finite.
pub fn coord(r: &mut Rng, lo: f64, hi: f64) -> f64 {
    match r.below(20) {
        0..=11 => r.range(lo, hi),
        12 => lo,
        13 => hi,
        14 => r.range(lo - (hi - lo), hi + (hi - lo)),
        15 => {
            let m = 10f64.powf(r.range(-12.0, 12.0));
            if r.bool() {
                m
            } else {
                -m
            }
        }
        16 => {
            // one step around a bound
            let b = if r.bool() { lo } else { hi };
            let bits = b.to_bits();
            f64::from_bits(if r.bool() { bits.wrapping_add(1) } else { bits.wrapping_sub(1) })
        }
        17 => *r.pick(&boundary_floats()),
        _ => r.range(lo, hi),
    }
}

pub fn finite_coord(r: &mut Rng, lo: f64, hi: f64) -> f64 {
    loop {
        let v = coord(r, lo, hi);
        if v.is_finite() {
            return v;
        }
    }
}

pub fn alpha(r: &mut Rng) -> f64 {
    match r.below(8) {
        0 | 1 | 2 => 1.0,
        3 => 0.0,
        4 => r.u8() as f64 / 255.0,
        5 => (r.below(1001) as f64) / 1000.0,
        _ => r.unit(),
    }
}

pub fn rgb8(r: &mut Rng) -> (u8, u8, u8) {
    match r.below(10) {
        0 => {
            let g = r.u8();
            (g, g, g)
        }
        1 => {
            // cube corners / faces
            let v = [0u8, 255u8];
            (*r.pick(&v), *r.pick(&v), r.u8())
        }
        2 => {
            // two equal channels (sector boundaries)
            let a = r.u8();
            let b = r.u8();
            match r.below(3) {
                0 => (a, a, b),
                1 => (a, b, a),
                _ => (b, a, a),
            }
        }
        3 => {
            // near sRGB thresholds (levels 10, 11) and extremes
            let v = [0u8, 1, 2, 9, 10, 11, 12, 127, 128, 253, 254, 255];
            (*r.pick(&v), *r.pick(&v), *r.pick(&v))
        }
        _ => (r.u8(), r.u8(), r.u8()),
    }
}

/// An 8-bit colour with some alpha.
pub fn color8(r: &mut Rng) -> Color {
    let (a, b, c) = rgb8(r);
    Color::from_rgba(a, b, c, alpha(r))
}

/// A colour built from HSL floats (not on the 8-bit lattice).
pub fn color_hsl(r: &mut Rng) -> Color {
    let h = match r.below(6) {
        0 => *r.pick(&[0.0, 60.0, 120.0, 180.0, 240.0, 300.0, 360.0, 359.99999999999994]),
        1 => r.range(-720.0, 1080.0),
        _ => r.range(0.0, 360.0),
    };
    let s = match r.below(6) {
        0 => 0.0,
        1 => 1.0,
        2 => 0.00005,
        _ => r.unit(),
    };
    let l = match r.below(6) {
        0 => 0.0,
        1 => 1.0,
        2 => 0.5,
        _ => r.unit(),
    };
    Color::from_hsla(h, s, l, alpha(r))
}

pub fn color(r: &mut Rng) -> Color {
    if r.below(3) == 0 {
        color_hsl(r)
    } else {
        color8(r)
    }
}

/// Structured colours: grays, primaries, named-ish, antipodal hues, translucent.
pub fn structured_colors() -> Vec<Color> {
    let mut v = vec![];
    for g in [0u8, 1, 10, 11, 127, 128, 254, 255] {
        v.push(Color::from_rgb(g, g, g));
    }
    for &(r, g, b) in &[
        (255u8, 0u8, 0u8),
        (0, 255, 0),
        (0, 0, 255),
        (255, 255, 0),
        (0, 255, 255),
        (255, 0, 255),
        (128, 0, 0),
        (0, 128, 0),
        (0, 0, 128),
        (200, 100, 50),
        (50, 100, 200),
        (238, 238, 238),
        (73, 39, 50),
    ] {
        v.push(Color::from_rgb(r, g, b));
    }
    for h in [0.0, 0.1, 90.0, 179.9, 180.0, 180.1, 270.0, 359.9, 360.0] {
        v.push(Color::from_hsl(h, 0.7, 0.5));
        v.push(Color::from_hsl(h, 0.00005, 0.5));
    }
    for a in [0.0, 0.25, 0.5, 0.999] {
        v.push(Color::from_rgba(10, 200, 90, a));
        v.push(Color::from_hsla(33.0, 0.4, 0.6, a));
    }
    v
}
