//! pv-harness: runs the real pastel code (path dependency on /repo, rebuilt from
//! the current working tree), the Lean model executable on the same operations,
//! and each property's direct oracle.  Prints a JSON report.
mod gen;
mod ops;
mod par;
mod props;
mod query;
mod session;
mod sharma;
mod wire;

use session::Session;
use std::path::PathBuf;
use std::time::Instant;

pub struct Ctx {
    pub tier: String,
    pub seed: u64,
    pub thorough: bool,
}

fn main() {
    let args: Vec<String> = std::env::args().collect();
    if args.len() < 2 {
        eprintln!("usage: pv-harness <property> [--tier quick|thorough] [--seed N] [--model path] [--out dir] [--replay file]");
        std::process::exit(2);
    }
    let prop = args[1].clone();
    if prop == "query" {
        query::run();
        return;
    }
    if prop == "gen-named" {
        print!("{}", query::generated_named());
        return;
    }
    if prop == "gen-ansi" {
        print!("{}", props::c12::generated_table());
        return;
    }
    let mut tier = "quick".to_string();
    let mut seed: u64 = 1;
    let mut model = PathBuf::from("/verif/lean/.lake/build/bin/pastel-model");
    let mut out = PathBuf::from(format!("/verif/.build/run/{}", prop));
    let mut replay: Option<String> = None;
    let mut i = 2;
    while i < args.len() {
        match args[i].as_str() {
            "--tier" => {
                tier = args[i + 1].clone();
                i += 2;
            }
            "--seed" => {
                seed = args[i + 1].parse().unwrap_or(1);
                i += 2;
            }
            "--model" => {
                model = PathBuf::from(&args[i + 1]);
                i += 2;
            }
            "--out" => {
                out = PathBuf::from(&args[i + 1]);
                i += 2;
            }
            "--replay" => {
                replay = Some(args[i + 1].clone());
                i += 2;
            }
            other => {
                eprintln!("unknown argument {}", other);
                std::process::exit(2);
            }
        }
    }
    // panics of the implementation are caught per case; keep stderr quiet
    std::panic::set_hook(Box::new(|_| {}));
    let t0 = Instant::now();
    let ctx = Ctx {
        thorough: tier == "thorough",
        tier: tier.clone(),
        seed,
    };
    let mut s = Session::new(&prop, model, out.clone());
    if let Some(file) = replay {
        props::replay(&mut s, &ctx, &prop, &file);
    } else if !props::run(&mut s, &ctx, &prop) {
        eprintln!("unknown property {}", prop);
        std::process::exit(2);
    }
    s.flush();
    let json = s.to_json(&tier, seed, t0.elapsed().as_secs_f64());
    std::fs::write(out.join("result.json"), &json).ok();
    println!("{}", json);
}
