//! A verification session: records operations with the implementation's output,
//! pipes the same operations to the Lean model executable, compares, and keeps
//! the statistics that go into the evidence file.
use crate::wire::{self, Field};
use std::collections::{BTreeMap, HashSet};
use std::io::Write;
use std::path::PathBuf;
use std::process::{Command, Stdio};

pub const REL_TOL: f64 = 1e-9;

#[derive(Clone, Debug)]
pub struct Disagreement {
    pub op: String,
    pub implementation: String,
    pub model: String,
    pub field: usize,
}

#[derive(Clone, Debug)]
pub struct OracleFailure {
    /// which clause of the property failed
    pub clause: String,
    /// the call site in pastel that is wrong (used to match known findings)
    pub site: String,
    /// concrete failing input, replayable
    pub input: String,
    /// what was observed / expected
    pub detail: String,
}

pub struct Pending {
    op: String,
    expect: Vec<Field>,
}

pub struct Session {
    pub prop: String,
    pub model: PathBuf,
    pub dir: PathBuf,
    pub pending: Vec<Pending>,
    pub evaluations: u64,
    pub model_ops: u64,
    pub distinct: HashSet<u64>,
    pub nontrivial_distinct: u64,
    pub distribution: BTreeMap<String, u64>,
    pub disagreements: Vec<Disagreement>,
    pub n_disagreements: u64,
    pub bitwise_mismatches: u64,
    pub float_fields: u64,
    pub oracle_failures: Vec<OracleFailure>,
    pub n_oracle_failures: u64,
    pub oracle_failures_by_site: BTreeMap<String, u64>,
    pub oracle_checks: u64,
    /// how often each oracle clause was evaluated (clause name, count); `clause_last` caches the hot entry
    pub oracle_clauses: Vec<(String, u64)>,
    clause_last: usize,
    pub samples: Vec<String>,
    pub exhaustive: Vec<String>,
    pub notes: Vec<String>,
    pub track_distinct: bool,
    /// while set, operations are not flushed (a stateful block must reach the model in one piece)
    pub hold: bool,
    batch: usize,
}

fn hash_str(s: &str) -> u64 {
    // FNV-1a
    let mut h: u64 = 0xcbf29ce484222325;
    for b in s.as_bytes() {
        h ^= *b as u64;
        h = h.wrapping_mul(0x100000001b3);
    }
    h
}

/// The operation kind: first two words, or one for operations without a sub-kind.
pub fn op_kind(op: &str) -> String {
    let mut it = op.split(' ');
    let a = it.next().unwrap_or("");
    match a {
        "comp" | "parse" | "name" | "rearr" | "sa" => a.to_string(),
        _ => format!("{} {}", a, it.next().unwrap_or("")),
    }
}

pub fn floats_close(a: f64, b: f64) -> bool {
    if a.is_nan() || b.is_nan() {
        return a.is_nan() && b.is_nan();
    }
    if a.is_infinite() || b.is_infinite() {
        return a == b;
    }
    let scale = 1f64.max(a.abs()).max(b.abs());
    (a - b).abs() <= REL_TOL * scale
}

impl Session {
    pub fn new(prop: &str, model: PathBuf, dir: PathBuf) -> Self {
        std::fs::create_dir_all(&dir).ok();
        Session {
            prop: prop.into(),
            model,
            dir,
            pending: vec![],
            evaluations: 0,
            model_ops: 0,
            distinct: HashSet::new(),
            nontrivial_distinct: 0,
            distribution: BTreeMap::new(),
            disagreements: vec![],
            n_disagreements: 0,
            bitwise_mismatches: 0,
            float_fields: 0,
            oracle_failures: vec![],
            n_oracle_failures: 0,
            oracle_failures_by_site: BTreeMap::new(),
            oracle_checks: 0,
            oracle_clauses: vec![],
            clause_last: 0,
            samples: vec![],
            exhaustive: vec![],
            notes: vec![],
            track_distinct: true,
            hold: false,
            batch: 100_000,
        }
    }

    pub fn release(&mut self) {
        self.hold = false;
        if self.pending.len() >= self.batch {
            self.flush();
        }
    }

    pub fn tag(&mut self, t: &str) {
        *self.distribution.entry(t.to_string()).or_insert(0) += 1;
    }

    pub fn tag_n(&mut self, t: &str, n: u64) {
        *self.distribution.entry(t.to_string()).or_insert(0) += n;
    }

    /// Count an evaluated case (for oracle-only runs); `nontrivial` by the property's rule.
    pub fn count_case(&mut self, key: &str, nontrivial: bool) {
        self.evaluations += 1;
        if self.track_distinct && !key.is_empty() {
            if self.distinct.insert(hash_str(key)) && nontrivial {
                self.nontrivial_distinct += 1;
            }
        } else if nontrivial {
            self.nontrivial_distinct += 1;
        }
    }

    /// Record an operation for the model together with the implementation's output.
    pub fn op(&mut self, op: String, expect: Vec<Field>, nontrivial: bool) {
        self.evaluations += 1;
        self.model_ops += 1;
        let kind = op_kind(&op);
        self.tag(&format!("op:{}", kind));
        if self.track_distinct {
            if self.distinct.insert(hash_str(&op)) && nontrivial {
                self.nontrivial_distinct += 1;
            }
        } else if nontrivial {
            self.nontrivial_distinct += 1;
        }
        if self.samples.len() < 3 || (self.evaluations % 100_003 == 0 && self.samples.len() < 8) {
            self.samples
                .push(format!("{} => {}", op, wire::fields_to_string(&expect)));
        }
        self.pending.push(Pending { op, expect });
        if !self.hold && self.pending.len() >= self.batch {
            self.flush();
        }
    }

    pub fn fail(&mut self, clause: &str, site: &str, input: String, detail: String) {
        self.n_oracle_failures += 1;
        *self
            .oracle_failures_by_site
            .entry(format!("{}|{}", clause, site))
            .or_insert(0) += 1;
        // keep the first few per (clause, site)
        let same = self
            .oracle_failures
            .iter()
            .filter(|f| f.clause == clause && f.site == site)
            .count();
        if same < 5 && self.oracle_failures.len() < 200 {
            self.oracle_failures.push(OracleFailure {
                clause: clause.into(),
                site: site.into(),
                input,
                detail,
            });
        }
    }

    pub fn count_clause(&mut self, clause: &str, n: u64) {
        if let Some(i) = self.oracle_clauses.iter().position(|e| e.0 == clause) {
            self.oracle_clauses[i].1 += n;
        } else {
            self.oracle_clauses.push((clause.to_string(), n));
        }
    }

    pub fn check(&mut self, cond: bool, clause: &str, site: &str, input: impl FnOnce() -> String, detail: impl FnOnce() -> String) {
        self.oracle_checks += 1;
        if self.clause_last < self.oracle_clauses.len() && self.oracle_clauses[self.clause_last].0 == clause {
            self.oracle_clauses[self.clause_last].1 += 1;
        } else if let Some(i) = self.oracle_clauses.iter().position(|e| e.0 == clause) {
            self.oracle_clauses[i].1 += 1;
            self.clause_last = i;
        } else {
            self.oracle_clauses.push((clause.to_string(), 1));
            self.clause_last = self.oracle_clauses.len() - 1;
        }
        if !cond {
            self.fail(clause, site, input(), detail());
        }
    }

    /// Run the pending operations through the model and compare.
    pub fn flush(&mut self) {
        if self.pending.is_empty() {
            return;
        }
        let pending = std::mem::take(&mut self.pending);
        let ops_path = self.dir.join("ops.txt");
        {
            let mut fh = std::io::BufWriter::new(std::fs::File::create(&ops_path).expect("ops file"));
            for p in &pending {
                writeln!(fh, "{}", p.op).unwrap();
            }
        }
        let out = Command::new(&self.model)
            .stdin(Stdio::from(std::fs::File::open(&ops_path).unwrap()))
            .stdout(Stdio::piped())
            .stderr(Stdio::piped())
            .output();
        let out = match out {
            Ok(o) => o,
            Err(e) => {
                self.notes.push(format!("model executable failed to start: {}", e));
                self.n_disagreements += pending.len() as u64;
                return;
            }
        };
        let text = String::from_utf8_lossy(&out.stdout);
        let lines: Vec<&str> = text.lines().collect();
        if lines.len() != pending.len() {
            self.notes.push(format!(
                "model produced {} lines for {} operations (status {:?}, stderr {})",
                lines.len(),
                pending.len(),
                out.status.code(),
                String::from_utf8_lossy(&out.stderr).chars().take(300).collect::<String>()
            ));
        }
        for (i, p) in pending.iter().enumerate() {
            let line = lines.get(i).copied().unwrap_or("<missing>");
            self.compare(p, line);
        }
    }

    fn compare(&mut self, p: &Pending, line: &str) {
        let mut toks: Vec<&str> = vec![];
        for t in line.split(' ') {
            if t.is_empty() {
                continue;
            }
            if let Some(tag) = t.strip_prefix('#') {
                let kind = op_kind(&p.op);
                self.tag(&format!("branch:{}:{}", kind, tag));
                continue;
            }
            toks.push(t);
        }
        let mut bad: Option<usize> = None;
        if line.contains("#!exempt") {
            self.tag("exempt");
            return;
        }
        if toks.len() != p.expect.len() {
            bad = Some(usize::MAX);
        } else {
            for (k, (t, e)) in toks.iter().zip(p.expect.iter()).enumerate() {
                match e {
                    Field::X(s) => {
                        if s != t {
                            if bad.is_none() { bad = Some(k); }
                        }
                    }
                    Field::FA(v, tol) => match wire::parse_f(t) {
                        None => {
                            if bad.is_none() { bad = Some(k); }
                        }
                        Some(m) => {
                            self.float_fields += 1;
                            let okv = if v.is_nan() || m.is_nan() { v.is_nan() && m.is_nan() } else { (m - *v).abs() <= *tol || m == *v };
                            if !okv {
                                let (op, tolv, vv) = (p.op.clone(), *tol, *v);
                                self.fail("agrees-with-reference", "reference-evaluation", op, format!("implementation {:?}, reference {:?}, tolerance {:?}", vv, m, tolv));
                            }
                        }
                    },
                    Field::Any => {}
                    Field::B1(b) => match t.parse::<i64>() {
                        Err(_) => {
                            if bad.is_none() { bad = Some(k); }
                        }
                        Ok(m) => {
                            if (m - *b as i64).abs() > 1 {
                                let (op, bv) = (p.op.clone(), *b);
                                self.fail("within-one-8bit-step", "reference-evaluation", op, format!("implementation channel {}, reference {}", bv, m));
                            }
                            if m != *b as i64 {
                                if bad.is_none() { bad = Some(k); }
                            }
                        }
                    },
                    Field::F(v) => match wire::parse_f(t) {
                        None => {
                            if bad.is_none() { bad = Some(k); }
                        }
                        Some(m) => {
                            self.float_fields += 1;
                            if m.to_bits() != v.to_bits() && !(m.is_nan() && v.is_nan()) {
                                self.bitwise_mismatches += 1;
                            }
                            if !floats_close(*v, m) {
                                if bad.is_none() { bad = Some(k); }
                            }
                        }
                    },
                }
            }
        }
        if let Some(k) = bad {
            // Operations whose result the properties describe by a relation, not as a function (the text colour
            // is *a* black or white of sufficient contrast; the 8-bit code is *an* entry less than 1.0 from the
            // closest): an implementation may legitimately choose differently from the model. The direct
            // oracles of those relations decide; the difference is only counted. `to_gray` likewise: *an* achromatic
            // colour within one gray step of the luminance, idempotent, fixing grays, keeping alpha.
            if p.op.starts_with("adj textcolor ") || p.op.starts_with("adj togray ") || p.op.starts_with("ansi to ") {
                self.tag("relational-op:model-chose-differently");
                return;
            }
            self.n_disagreements += 1;
            if self.disagreements.len() < 25 {
                self.disagreements.push(Disagreement {
                    op: p.op.clone(),
                    implementation: wire::fields_to_string(&p.expect),
                    model: line.to_string(),
                    field: k,
                });
            }
        }
    }

    pub fn to_json(&self, tier: &str, seed: u64, wall_s: f64) -> String {
        let mut s = String::new();
        s.push_str("{\n");
        s.push_str(&format!("  \"property\": {},\n", jstr(&self.prop)));
        s.push_str(&format!("  \"tier\": {},\n", jstr(tier)));
        s.push_str(&format!("  \"seed\": {},\n", seed));
        s.push_str(&format!("  \"wall_s\": {:.3},\n", wall_s));
        s.push_str(&format!("  \"evaluations\": {},\n", self.evaluations));
        s.push_str(&format!("  \"model_ops\": {},\n", self.model_ops));
        s.push_str(&format!("  \"distinct_nontrivial\": {},\n", self.nontrivial_distinct));
        s.push_str(&format!("  \"oracle_checks\": {},\n", self.oracle_checks));
        s.push_str(&format!("  \"float_fields\": {},\n", self.float_fields));
        s.push_str(&format!("  \"bitwise_mismatches\": {},\n", self.bitwise_mismatches));
        s.push_str(&format!("  \"n_disagreements\": {},\n", self.n_disagreements));
        s.push_str(&format!("  \"n_oracle_failures\": {},\n", self.n_oracle_failures));
        s.push_str("  \"distribution\": {");
        let mut first = true;
        for (k, v) in &self.distribution {
            if !first {
                s.push_str(", ");
            }
            first = false;
            s.push_str(&format!("{}: {}", jstr(k), v));
        }
        s.push_str("},\n");
        s.push_str("  \"oracle_clauses\": {");
        let mut first = true;
        for (k, v) in &self.oracle_clauses {
            if !first {
                s.push_str(", ");
            }
            first = false;
            s.push_str(&format!("{}: {}", jstr(k), v));
        }
        s.push_str("},\n");
        s.push_str("  \"oracle_failures_by_site\": {");
        let mut first = true;
        for (k, v) in &self.oracle_failures_by_site {
            if !first {
                s.push_str(", ");
            }
            first = false;
            s.push_str(&format!("{}: {}", jstr(k), v));
        }
        s.push_str("},\n");
        s.push_str(&format!("  \"samples\": [{}],\n", self.samples.iter().map(|x| jstr(x)).collect::<Vec<_>>().join(", ")));
        s.push_str(&format!("  \"exhaustive\": [{}],\n", self.exhaustive.iter().map(|x| jstr(x)).collect::<Vec<_>>().join(", ")));
        s.push_str(&format!("  \"notes\": [{}],\n", self.notes.iter().map(|x| jstr(x)).collect::<Vec<_>>().join(", ")));
        s.push_str("  \"disagreements\": [");
        s.push_str(
            &self
                .disagreements
                .iter()
                .map(|d| {
                    format!(
                        "{{\"op\": {}, \"implementation\": {}, \"model\": {}, \"field\": {}}}",
                        jstr(&d.op),
                        jstr(&d.implementation),
                        jstr(&d.model),
                        if d.field == usize::MAX { -1i64 } else { d.field as i64 }
                    )
                })
                .collect::<Vec<_>>()
                .join(", "),
        );
        s.push_str("],\n");
        s.push_str("  \"oracle_failures\": [");
        s.push_str(
            &self
                .oracle_failures
                .iter()
                .map(|d| {
                    format!(
                        "{{\"clause\": {}, \"site\": {}, \"input\": {}, \"detail\": {}}}",
                        jstr(&d.clause),
                        jstr(&d.site),
                        jstr(&d.input),
                        jstr(&d.detail)
                    )
                })
                .collect::<Vec<_>>()
                .join(", "),
        );
        s.push_str("]\n}\n");
        s
    }
}

pub fn jstr(s: &str) -> String {
    let mut o = String::with_capacity(s.len() + 2);
    o.push('"');
    for c in s.chars() {
        match c {
            '"' => o.push_str("\\\""),
            '\\' => o.push_str("\\\\"),
            '\n' => o.push_str("\\n"),
            '\r' => o.push_str("\\r"),
            '\t' => o.push_str("\\t"),
            c if (c as u32) < 0x20 => o.push_str(&format!("\\u{:04x}", c as u32)),
            c => o.push(c),
        }
    }
    o.push('"');
    o
}
