//! Parallel enumeration of the 2^24 8-bit colours.
use std::sync::Mutex;

pub const THREADS: usize = 16;

/// Calls `f(r, g, b, acc)` for every colour with `r % step == 0` etc. (step 1 = all 2^24);
/// each thread owns an accumulator created by `mk`, all are returned.
pub fn for_all_rgb<A: Send, M: Fn() -> A + Sync, F: Fn(u8, u8, u8, &mut A) + Sync>(
    step: usize,
    mk: M,
    f: F,
) -> Vec<A> {
    let results: Mutex<Vec<A>> = Mutex::new(vec![]);
    std::thread::scope(|sc| {
        for t in 0..THREADS {
            let f = &f;
            let mk = &mk;
            let results = &results;
            sc.spawn(move || {
                let mut acc = mk();
                let mut r = t * step;
                while r < 256 {
                    let mut g = 0;
                    while g < 256 {
                        let mut b = 0;
                        while b < 256 {
                            f(r as u8, g as u8, b as u8, &mut acc);
                            b += step;
                        }
                        g += step;
                    }
                    r += THREADS * step;
                }
                results.lock().unwrap().push(acc);
            });
        }
    });
    results.into_inner().unwrap()
}

/// Accumulator for oracle runs: number of cases, first failures.
#[derive(Default)]
pub struct Acc {
    pub cases: u64,
    pub checks: u64,
    pub fails: Vec<(String, String, String, String)>, // clause, site, input, detail
    pub n_fails: u64,
    pub fails_by: std::collections::BTreeMap<String, u64>,
    pub maxima: std::collections::BTreeMap<String, f64>,
    pub clauses: Vec<(String, u64)>,
    clause_last: usize,
}

impl Acc {
    pub fn check(&mut self, cond: bool, clause: &str, site: &str, input: impl FnOnce() -> String, detail: impl FnOnce() -> String) {
        self.checks += 1;
        if self.clause_last < self.clauses.len() && self.clauses[self.clause_last].0 == clause {
            self.clauses[self.clause_last].1 += 1;
        } else if let Some(i) = self.clauses.iter().position(|e| e.0 == clause) {
            self.clauses[i].1 += 1;
            self.clause_last = i;
        } else {
            self.clauses.push((clause.to_string(), 1));
            self.clause_last = self.clauses.len() - 1;
        }
        if !cond {
            self.n_fails += 1;
            let key = format!("{}|{}", clause, site);
            let n = self.fails_by.entry(key).or_insert(0);
            *n += 1;
            if *n <= 3 {
                self.fails.push((clause.into(), site.into(), input(), detail()));
            }
        }
    }
    pub fn max(&mut self, key: &str, v: f64) {
        let e = self.maxima.entry(key.into()).or_insert(f64::NEG_INFINITY);
        if v > *e || v.is_nan() {
            *e = v;
        }
    }
}

pub fn merge(s: &mut crate::session::Session, accs: Vec<Acc>) -> std::collections::BTreeMap<String, f64> {
    let mut maxima = std::collections::BTreeMap::new();
    for a in accs {
        s.evaluations += a.cases;
        s.nontrivial_distinct += a.cases;
        s.oracle_checks += a.checks;
        for (k, n) in &a.clauses {
            s.count_clause(k, *n);
        }
        for (k, v) in a.maxima {
            let e = maxima.entry(k).or_insert(f64::NEG_INFINITY);
            if v > *e || v.is_nan() {
                *e = v;
            }
        }
        let mut seen: std::collections::BTreeMap<String, u64> = Default::default();
        for (clause, site, input, detail) in a.fails {
            let k = format!("{}|{}", clause, site);
            let n = seen.entry(k).or_insert(0);
            *n += 1;
            s.fail(&clause, &site, input, detail);
            // s.fail counts one; the remaining occurrences are added below
        }
        for (k, n) in a.fails_by {
            let recorded = seen.get(&k).copied().unwrap_or(0);
            if n > recorded {
                s.n_oracle_failures += n - recorded;
                *s.oracle_failures_by_site.entry(k).or_insert(0) += n - recorded;
            }
        }
    }
    maxima
}
