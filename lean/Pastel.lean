import Pastel.Num
import Pastel.FloatFns
import Pastel.Model.Color
import Pastel.Model.DeltaE
import Pastel.Wire
import Pastel.Ops
