/-
Model of `src/delta_e.rs` (CIE76, CIEDE2000 as implemented) and, written
independently from the paper, the CIEDE2000 formula of Sharma, Wu & Dalal
(2005), eq. (2)–(22).
-/
import Pastel.Model.Color

namespace Pastel
open Sc ScT

variable {α : Type}

structure Lab3 (α : Type) where
  l : α
  a : α
  b : α

/-- `cie76` (delta_e.rs:31). -/
def cie76 [ScT α] (c1 c2 : Lab3 α) : α :=
  sqrt (powi (c1.l - c2.l) 2 + powi (c1.a - c2.a) 2 + powi (c1.b - c2.b) 2)

def radiansToDegrees [ScT α] (r : α) : α := r * (180.0 / pi)
def degreesToRadians [ScT α] (d : α) : α := d * (pi / 180.0)

/-- `get_h_prime_fn` (delta_e.rs:95); called as `(b, a')`. -/
def getHPrime [ScT α] (x y : α) : α :=
  if feq x 0.0 && feq y 0.0 then 0.0
  else
    let hueAngle := radiansToDegrees (atan2 x y)
    if hueAngle < 0.0 then hueAngle + 360.0 else hueAngle

/-- `get_delta_h_prime` (delta_e.rs:109). -/
def getDeltaHPrime [ScT α] (c1 c2 h1 h2 : α) : α :=
  if feq 0.0 c1 || feq 0.0 c2 then 0.0
  else if abs (h1 - h2) ≤ 180.0 then h2 - h1
  else if h2 ≤ h1 then h2 - h1 + 360.0
  else h2 - h1 - 360.0

/-- `get_upcase_h_bar_prime` (delta_e.rs:125). -/
def getUpcaseHBarPrime [ScT α] (h1 h2 : α) : α :=
  if 180.0 < abs (h1 - h2) then (h1 + h2 + 360.0) / 2.0 else (h1 + h2) / 2.0

/-- `get_upcase_t` (delta_e.rs:133). -/
def getUpcaseT [ScT α] (h : α) : α :=
  1.0 - 0.17 * cos (degreesToRadians (h - 30.0))
    + 0.24 * cos (degreesToRadians (2.0 * h))
    + 0.32 * cos (degreesToRadians (3.0 * h + 6.0))
    - 0.20 * cos (degreesToRadians (4.0 * h - 63.0))

def pow25_7 [Sc α] : α := powi 25 7

/-- `get_r_sub_t` (delta_e.rs:140). -/
def getRSubT [ScT α] (cBarPrime h : α) : α :=
  -2.0 * sqrt (powi cBarPrime 7 / (powi cBarPrime 7 + pow25_7))
    * sin (degreesToRadians (60.0 * exp (-(powi ((h - 275.0) / 25.0) 2))))

/-- `ciede2000` (delta_e.rs:35). -/
def ciede2000 [ScT α] (color1 color2 : Lab3 α) : α :=
  let ksubL : α := 1.0
  let ksubC : α := 1.0
  let ksubH : α := 1.0
  let deltaLPrime := color2.l - color1.l
  let lBar := (color1.l + color2.l) / 2.0
  let c1 := sqrt (powi color1.a 2 + powi color1.b 2)
  let c2 := sqrt (powi color2.a 2 + powi color2.b 2)
  let cBar := (c1 + c2) / 2.0
  let aPrime1 := color1.a + (color1.a / 2.0) * (1.0 - sqrt (powi cBar 7 / (powi cBar 7 + pow25_7)))
  let aPrime2 := color2.a + (color2.a / 2.0) * (1.0 - sqrt (powi cBar 7 / (powi cBar 7 + pow25_7)))
  let cPrime1 := sqrt (powi aPrime1 2 + powi color1.b 2)
  let cPrime2 := sqrt (powi aPrime2 2 + powi color2.b 2)
  let cBarPrime := (cPrime1 + cPrime2) / 2.0
  let deltaCPrime := cPrime2 - cPrime1
  let sSubL := 1.0 + ((0.015 * powi (lBar - 50.0) 2) / sqrt (20.0 + powi (lBar - 50.0) 2))
  let sSubC := 1.0 + 0.045 * cBarPrime
  let hPrime1 := getHPrime color1.b aPrime1
  let hPrime2 := getHPrime color2.b aPrime2
  let deltaHPrime := getDeltaHPrime c1 c2 hPrime1 hPrime2
  let deltaUpcaseHPrime :=
    2.0 * sqrt (cPrime1 * cPrime2) * sin (degreesToRadians deltaHPrime / 2.0)
  let upcaseHBarPrime := getUpcaseHBarPrime hPrime1 hPrime2
  let upcaseT := getUpcaseT upcaseHBarPrime
  let sSubUpcaseH := 1.0 + 0.015 * cBarPrime * upcaseT
  let rSubT := getRSubT cBarPrime upcaseHBarPrime
  let lightness := deltaLPrime / (ksubL * sSubL)
  let chroma := deltaCPrime / (ksubC * sSubC)
  let hue := deltaUpcaseHPrime / (ksubH * sSubUpcaseH)
  sqrt (powi lightness 2 + powi chroma 2 + powi hue 2 + rSubT * chroma * hue)

/-! ### The formula as printed in Sharma, Wu & Dalal (2005)

Written from the paper, not from the code: eq. (2)–(7) for `C'`, `h'`;
(8)–(11) for `ΔL'`, `ΔC'`, `Δh'`, `ΔH'`; (12)–(14) for the means (with the
four-way case split of `h̄'` and the `C'₁C'₂ = 0` tests on the *primed*
chromas); (15)–(22) for `T`, `Δθ`, `R_C`, `S_L`, `S_C`, `S_H`, `R_T`, `ΔE₀₀`. -/

def sharmaHPrime [ScT α] (b a' : α) : α :=
  if feq b 0.0 && feq a' 0.0 then 0.0
  else
    let h := atan2 b a' * (180.0 / pi)
    if h < 0.0 then h + 360.0 else h

def ciede2000Sharma [ScT α] (x1 x2 : Lab3 α) : α :=
  -- (2), (3)
  let c1 := sqrt (x1.a * x1.a + x1.b * x1.b)
  let c2 := sqrt (x2.a * x2.a + x2.b * x2.b)
  let cBar := (c1 + c2) / 2.0
  -- (4)
  let cBar7 := powi cBar 7
  let g := 0.5 * (1.0 - sqrt (cBar7 / (cBar7 + 6103515625.0)))
  -- (5), (6), (7)
  let a1' := (1.0 + g) * x1.a
  let a2' := (1.0 + g) * x2.a
  let c1' := sqrt (a1' * a1' + x1.b * x1.b)
  let c2' := sqrt (a2' * a2' + x2.b * x2.b)
  let h1' := sharmaHPrime x1.b a1'
  let h2' := sharmaHPrime x2.b a2'
  -- (8), (9)
  let dL' := x2.l - x1.l
  let dC' := c2' - c1'
  -- (10)
  let dh' : α :=
    if feq (c1' * c2') 0.0 then 0.0
    else if abs (h2' - h1') ≤ 180.0 then h2' - h1'
    else if 180.0 < h2' - h1' then h2' - h1' - 360.0
    else h2' - h1' + 360.0
  -- (11)
  let dH' := 2.0 * sqrt (c1' * c2') * sin ((dh' / 2.0) * (pi / 180.0))
  -- (12), (13)
  let lBar' := (x1.l + x2.l) / 2.0
  let cBar' := (c1' + c2') / 2.0
  -- (14)
  let hBar' : α :=
    if feq (c1' * c2') 0.0 then h1' + h2'
    else if abs (h1' - h2') ≤ 180.0 then (h1' + h2') / 2.0
    else if h1' + h2' < 360.0 then (h1' + h2' + 360.0) / 2.0
    else (h1' + h2' - 360.0) / 2.0
  -- (15)
  let t := 1.0 - 0.17 * cos ((hBar' - 30.0) * (pi / 180.0))
    + 0.24 * cos ((2.0 * hBar') * (pi / 180.0))
    + 0.32 * cos ((3.0 * hBar' + 6.0) * (pi / 180.0))
    - 0.20 * cos ((4.0 * hBar' - 63.0) * (pi / 180.0))
  -- (16)
  let dTheta := 30.0 * exp (-(((hBar' - 275.0) / 25.0) * ((hBar' - 275.0) / 25.0)))
  -- (17)
  let cBar'7 := powi cBar' 7
  let rC := 2.0 * sqrt (cBar'7 / (cBar'7 + 6103515625.0))
  -- (18), (19), (20)
  let l50 := (lBar' - 50.0) * (lBar' - 50.0)
  let sL := 1.0 + (0.015 * l50) / sqrt (20.0 + l50)
  let sC := 1.0 + 0.045 * cBar'
  let sH := 1.0 + 0.015 * cBar' * t
  -- (21)
  let rT := -(sin ((2.0 * dTheta) * (pi / 180.0))) * rC
  -- (22), k_L = k_C = k_H = 1
  let tl := dL' / sL
  let tc := dC' / sC
  let th := dH' / sH
  sqrt (tl * tl + tc * tc + th * th + rT * tc * th)

/-- Branch tag of a CIEDE2000 evaluation, for the distribution report. -/
def ciede2000Tag [ScT α] (x1 x2 : Lab3 α) : String :=
  let c1 := sqrt (powi x1.a 2 + powi x1.b 2)
  let c2 := sqrt (powi x2.a 2 + powi x2.b 2)
  let cBar := (c1 + c2) / 2.0
  let k := 1.0 - sqrt (powi cBar 7 / (powi cBar 7 + pow25_7))
  let a1 := x1.a + (x1.a / 2.0) * k
  let a2 := x2.a + (x2.a / 2.0) * k
  let h1 := getHPrime x1.b a1
  let h2 := getHPrime x2.b a2
  let z := if feq 0.0 c1 || feq 0.0 c2 then "zc" else "nz"
  let d := if abs (h1 - h2) ≤ 180.0 then "le180" else "gt180"
  let s := if h1 + h2 < 360.0 then "lt360" else "ge360"
  z ++ "-" ++ d ++ "-" ++ s

/-- The discontinuity the property exempts: the primed hue angles differ by 180°
(up to float noise in the angle computation). -/
def ciede2000AtDiscontinuity [ScT α] (x1 x2 : Lab3 α) : Bool :=
  let c1 := sqrt (powi x1.a 2 + powi x1.b 2)
  let c2 := sqrt (powi x2.a 2 + powi x2.b 2)
  let cBar := (c1 + c2) / 2.0
  let k := 1.0 - sqrt (powi cBar 7 / (powi cBar 7 + pow25_7))
  let a1 := x1.a + (x1.a / 2.0) * k
  let a2 := x2.a + (x2.a / 2.0) * k
  let h1 := getHPrime x1.b a1
  let h2 := getHPrime x2.b a2
  decide (abs (abs (h1 - h2) - 180.0) ≤ 0.000000001)

end Pastel
