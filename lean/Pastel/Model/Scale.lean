/-
Model of `ColorScale` (src/lib.rs:1504) and of `GradientCommand`
(src/cli/commands/gradient.rs).  Positions are `Fraction` values; colours are
abstract (`C`), the mixing function is a parameter.
-/
import Pastel.Model.Color

namespace Pastel
open Sc

variable {P C : Type}

/-- A colour stop: `(color, position)`. -/
abbrev Stop (P C : Type) := C × P

/-- Replace the colour of the first stop whose position equals `pos` (IEEE `==`). -/
def replaceAt [Sc P] (color : C) (pos : P) : List (Stop P C) → Option (List (Stop P C))
  | [] => none
  | s :: rest =>
    if feq pos s.2 then some ((color, s.2) :: rest)
    else (replaceAt color pos rest).map (s :: ·)

/-- Insert before the first stop with a larger position (`position < c.position`), else append. -/
def insertSorted [Sc P] (color : C) (pos : P) : List (Stop P C) → List (Stop P C)
  | [] => [(color, pos)]
  | s :: rest => if pos < s.2 then (color, pos) :: s :: rest else s :: insertSorted color pos rest

/-- `ColorScale::add_stop` (lib.rs:1517). -/
def addStop [Sc P] (stops : List (Stop P C)) (color : C) (pos : P) : List (Stop P C) :=
  match replaceAt color pos stops with
  | some l => l
  | none => insertSorted color pos stops

/-- `ColorScale::sample` (lib.rs:1547): `mix` receives the two stops' colours and the local
`Fraction`. -/
def sampleScale [Sc P] (stops : List (Stop P C)) (pos : P) (mix : C → C → P → C) : Option C :=
  if stops.length < 2 then none
  else
    let left := stops.reverse.find? (fun c => decide (c.2 ≤ pos))
    let right := stops.find? (fun c => decide (pos ≤ c.2))
    match left, right with
    | some l, some r =>
      -- exactly on a stop both neighbours are that stop: its colour as it is
      if feq l.2 r.2 then some l.1
      else
      let diffStops := r.2 - l.2
      let diffPos := pos - l.2
      some (mix l.1 r.1 (fraction (diffPos / diffStops)))
    | _, _ => none

/-- The stop positions of `GradientCommand`: `Fraction::from(i / (k - 1))`. -/
def gradientStops [Sc P] (colors : List C) : List (Stop P C) :=
  let k := colors.length
  (colors.zipIdx).foldl (fun sc (ci : C × Nat) =>
    addStop sc ci.1 (fraction (Sc.ofNat ci.2 / (Sc.ofNat k - 1.0)))) []

/-- `GradientCommand::run` after argument validation: `count` samples at `i / (count - 1)`. -/
def gradient [Sc P] (colors : List C) (count : Nat) (mix : C → C → P → C) : List (Option C) :=
  let sc := gradientStops (P := P) colors
  (List.range count).map fun i =>
    sampleScale sc (fraction (Sc.ofNat i / (Sc.ofNat count - 1.0))) mix

end Pastel
