/-
Model of `src/lib.rs`, `src/helper.rs`, `src/types.rs`: the `Color` type, its
constructors and every colour-space conversion, line by line and in the
operation order of the Rust code.  Generic over the scalar class, so the same
definitions execute at `Float` and are reasoned about at `ℝ`.
-/
import Pastel.Num

namespace Pastel
open Sc ScT

variable {α : Type}

/-! ### src/helper.rs -/

/-- `mod_positive` (helper.rs:9). -/
def modPositive [Sc α] (x y : α) : α := fmod (fmod x y + y) y

/-- `clamp` (helper.rs:14): `max(min(upper, x), lower)` with Rust's NaN-ignoring min/max. -/
def clamp [Sc α] (lower upper x : α) : α := fmax (fmin upper x) lower

/-- `Fraction::from` (helper.rs:24); a `Fraction` is represented by its value. -/
def fraction [Sc α] (s : α) : α := clamp 0 1 s

/-- `interpolate` (helper.rs:36); `f` is a `Fraction` value. -/
def interpolate [Sc α] (a b f : α) : α := a + f * (b - a)

/-- The comparator of `interpolate_angle`'s `min_by`:
`partial_cmp(..).unwrap_or(Less)`; `min_by` keeps the *first* minimum, i.e. it
replaces the current best `p1` by `p2` only when `cmp p1 p2 = Greater`. -/
def angleDistGreater [Sc α] (d1 d2 : α) : Bool :=
  -- partial_cmp d1 d2 = Some Greater  ⇔  d1 > d2
  decide (d2 < d1)

/-- `interpolate_angle` (helper.rs:42). -/
def interpolateAngle [Sc α] (a b f : α) : α :=
  let p0 : α × α := (a, b)
  let p1 : α × α := (a, b + 360)
  let p2 : α × α := (a + 360, b)
  let dist := fun (p : α × α) => abs (p.1 - p.2)
  let best := p0
  let best := if angleDistGreater (dist best) (dist p1) then p1 else best
  let best := if angleDistGreater (dist best) (dist p2) then p2 else best
  modPositive (interpolate best.1 best.2 f) 360

/-! ### src/types.rs -/

/-- `Hue::from` (types.rs:12): a non-finite hue is stored as 0. -/
def hueFrom [Sc α] (unclipped : α) : α := if isFinite unclipped then unclipped else 0

/-- `Hue::value` (types.rs:22). -/
def hueValue [Sc α] (unclipped : α) : α :=
  if feq unclipped 360 then unclipped else modPositive unclipped 360

/-! ### src/lib.rs: `Color` and the value types -/

/-- `struct Color` (lib.rs:28): the four stored fields. -/
structure Color (α : Type) where
  hue : α        -- unclipped
  sat : α
  light : α
  alpha : α
deriving Repr

structure Rgba8 (α : Type) where
  r : UInt8
  g : UInt8
  b : UInt8
  alpha : α

/-- Used for `RGBA<f64>`, `HSLA`, `HSVA`, `XYZ`, `LMS`, `Lab`, `OkLab`, `LCh`:
three coordinates and alpha. -/
structure Quad (α : Type) where
  x : α
  y : α
  z : α
  alpha : α

structure Cmyk (α : Type) where
  c : α
  m : α
  y : α
  k : α

def d65Xn [Sc α] : α := 0.950470
def d65Yn [Sc α] : α := 1.0
def d65Zn [Sc α] : α := 1.088830

/-- `From<&HSLA> for Color` (lib.rs:785). -/
def fromHsla [Sc α] (h s l a : α) : Color α :=
  { hue := hueFrom h, sat := clamp 0 1 s, light := clamp 0 1 l, alpha := clamp 0 1 a }

/-- `From<&HSVA> for Color` (lib.rs:796). -/
def fromHsva [Sc α] (h s v a : α) : Color α :=
  let lightness := v * (1 - s / 2)
  let saturation :=
    if 0 < lightness ∧ lightness < 1 then (v - lightness) / fmin lightness (1 - lightness) else 0
  { hue := hueFrom h, sat := clamp 0 1 saturation, light := clamp 0 1 lightness, alpha := clamp 0 1 a }

def u8f [Sc α] (x : UInt8) : α := Sc.ofNat x.toNat

/-- `From<&RGBA<u8>> for Color` (lib.rs:814), the hexcone model. -/
def fromRgba8 [Sc α] (r g b : UInt8) (a : α) : Color α :=
  let maxC := max (max r g) b
  let minC := min (min r g) b
  let chroma := maxC - minC
  let chromaS : α := u8f chroma / 255
  let rS : α := u8f r / 255
  let gS : α := u8f g / 255
  let bS : α := u8f b / 255
  let hue : α := 60 *
    (if chroma = 0 then 0
     else if r = maxC then modPositive ((gS - bS) / chromaS) 6
     else if g = maxC then (bS - rS) / chromaS + 2
     else (rS - gS) / chromaS + 4)
  let lightness : α := (u8f maxC + u8f minC) / (255 * 2)
  let saturation : α := if chroma = 0 then 0 else chromaS / (1 - abs (2 * lightness - 1))
  fromHsla hue saturation lightness a

/-- The quantisation step of `From<&RGBA<f64>> for Color` (lib.rs:854). -/
def quantize [Sc α] (c : α) : UInt8 := toU8 (round (clamp 0 255 (255 * c)))

/-- `From<&RGBA<f64>> for Color` (lib.rs:852). -/
def fromRgbaFloat [Sc α] (r g b a : α) : Color α :=
  fromRgba8 (quantize r) (quantize g) (quantize b) a

/-- sRGB encoding, the closure `f` in `From<&XYZ> for Color` (lib.rs:869). -/
def srgbEncode [ScT α] (c : α) : α :=
  if c ≤ 0.0031308 then 12.92 * c else 1.055 * pow c (1 / 2.4) - 0.055

/-- `From<&XYZ> for Color` (lib.rs:866). -/
def fromXyz [ScT α] (x y z a : α) : Color α :=
  let r := srgbEncode (3.2406 * x - 1.5372 * y - 0.4986 * z)
  let g := srgbEncode (-0.9689 * x + 1.8758 * y + 0.0415 * z)
  let b := srgbEncode (0.0557 * x - 0.2040 * y + 1.0570 * z)
  fromRgbaFloat r g b a

/-- `From<&LMS> for Color` (lib.rs:890). -/
def fromLms [ScT α] (l m s a : α) : Color α :=
  let x := 1.91020 * l - 1.112120 * m + 0.201908 * s
  let y := 0.37095 * l + 0.629054 * m + 0.000000 * s
  let z := 0.00000 * l + 0.000000 * m + 1.000000 * s
  fromXyz x y z a

def labDelta [Sc α] : α := 6.0 / 29.0

/-- `finv` in `From<&Lab> for Color` (lib.rs:910). -/
def labFinv [ScT α] (t : α) : α :=
  if labDelta < t then pow t 3.0 else 3.0 * labDelta * labDelta * (t - 4.0 / 29.0)

/-- `From<&Lab> for Color` (lib.rs:905). -/
def fromLab [ScT α] (l a b alpha : α) : Color α :=
  let l' := (l + 16.0) / 116.0
  let x := d65Xn * labFinv (l' + a / 500.0)
  let y := d65Yn * labFinv l'
  let z := d65Zn * labFinv (l' - b / 200.0)
  fromXyz x y z alpha

/-- `From<&OkLab> for Color` (lib.rs:932). -/
def fromOklab [ScT α] (L A B alpha : α) : Color α :=
  let l := powi (1.0 * L + 0.39633779 * A + 0.21580376 * B) 3
  let m := powi (1.00000001 * L + -0.10556134 * A + -0.06385417 * B) 3
  let s := powi (1.00000005 * L + -0.08948418 * A + -1.29148554 * B) 3
  let x := 1.22701385 * l + -0.55779998 * m + 0.28125615 * s
  let y := -0.04058018 * l + 1.11225687 * m + -0.07167668 * s
  let z := -0.07638128 * l + -0.42148198 * m + 1.58616322 * s
  fromXyz x y z alpha

def deg2rad [ScT α] : α := pi / 180.0
def rad2deg [ScT α] : α := 180.0 / pi

/-- `From<&LCh> for Color` (lib.rs:951). -/
def fromLch [ScT α] (l c h alpha : α) : Color α :=
  let hr := Sc.fmod h 360.0
  let a := c * cos (hr * deg2rad)
  let b := c * sin (hr * deg2rad)
  fromLab l a b alpha

/-- `From<&CMYK> for Color` (lib.rs:969). -/
def fromCmyk [Sc α] (c m y k : α) : Color α :=
  let r := (1.0 - c) * (1.0 - k)
  let g := (1.0 - m) * (1.0 - k)
  let b := (1.0 - y) * (1.0 - k)
  fromRgbaFloat r g b 1.0

/-! ### conversions out of `Color` -/

/-- `From<&Color> for HSLA` (lib.rs:1104). -/
def toHsla [Sc α] (c : Color α) : Quad α :=
  { x := hueValue c.hue, y := c.sat, z := c.light, alpha := c.alpha }

/-- `From<&Color> for RGBA<f64>` (lib.rs:1012). -/
def toRgbaFloat [Sc α] (c : Color α) : Quad α :=
  let hS := hueValue c.hue / 60.0
  let chr := (1.0 - abs (2.0 * c.light - 1.0)) * c.sat
  let m := c.light - chr / 2.0
  let x := chr * (1.0 - abs (fmod hS 2.0 - 1.0))
  let col : α × α × α :=
    if hS < 1.0 then (chr, x, 0.0)
    else if 1.0 ≤ hS ∧ hS < 2.0 then (x, chr, 0.0)
    else if 2.0 ≤ hS ∧ hS < 3.0 then (0.0, chr, x)
    else if 3.0 ≤ hS ∧ hS < 4.0 then (0.0, x, chr)
    else if 4.0 ≤ hS ∧ hS < 5.0 then (x, 0.0, chr)
    else (chr, 0.0, x)
  { x := col.1 + m, y := col.2.1 + m, z := col.2.2 + m, alpha := c.alpha }

/-- `From<&Color> for RGBA<u8>` (lib.rs:1045). -/
def toRgba8 [Sc α] (c : Color α) : Rgba8 α :=
  let f := toRgbaFloat c
  { r := toU8 (round (255.0 * f.x)), g := toU8 (round (255.0 * f.y)),
    b := toU8 (round (255.0 * f.z)), alpha := c.alpha }

/-- `From<&Color> for HSVA` (lib.rs:1152). -/
def toHsva [Sc α] (c : Color α) : Quad α :=
  let lightness := c.light
  let value := lightness + c.sat * fmin lightness (1.0 - lightness)
  let saturation := if 0.0 < value then 2.0 * (1.0 - lightness / value) else 0.0
  { x := hueValue c.hue, y := saturation, z := value, alpha := c.alpha }

/-- sRGB decoding, `finv` in `From<&Color> for XYZ` (lib.rs:1189). -/
def srgbDecode [ScT α] (c : α) : α :=
  if c ≤ 0.04045 then c / 12.92 else pow ((c + 0.055) / 1.055) 2.4

/-- `From<&Color> for XYZ` (lib.rs:1186). -/
def toXyz [ScT α] (c : Color α) : Quad α :=
  let rec' := toRgbaFloat c
  let r := srgbDecode rec'.x
  let g := srgbDecode rec'.y
  let b := srgbDecode rec'.z
  { x := 0.4124 * r + 0.3576 * g + 0.1805 * b
    y := 0.2126 * r + 0.7152 * g + 0.0722 * b
    z := 0.0193 * r + 0.1192 * g + 0.9505 * b
    alpha := c.alpha }

/-- `From<&Color> for LMS` (lib.rs:1232). -/
def toLms [ScT α] (c : Color α) : Quad α :=
  let p := toXyz c
  { x := 0.38971 * p.x + 0.68898 * p.y - 0.07868 * p.z
    y := -0.22981 * p.x + 1.18340 * p.y + 0.04641 * p.z
    z := 0.00000 * p.x + 0.00000 * p.y + 1.00000 * p.z
    alpha := p.alpha }

def labCut [ScT α] : α := pow (6.0 / 29.0) 3.0

/-- `f` in `From<&Color> for Lab` (lib.rs:1281). -/
def labF [ScT α] (t : α) : α :=
  if labCut < t then pow t (1.0 / 3.0)
  else (1.0 / 3.0) * pow (29.0 / 6.0) 2.0 * t + 4.0 / 29.0

/-- `From<&Color> for Lab` (lib.rs:1276). -/
def toLab [ScT α] (c : Color α) : Quad α :=
  let p := toXyz c
  let fy := labF (p.y / d65Yn)
  { x := 116.0 * fy - 16.0
    y := 500.0 * (labF (p.x / d65Xn) - fy)
    z := 200.0 * (fy - labF (p.z / d65Zn))
    alpha := c.alpha }

/-- `From<&Color> for OkLab` (lib.rs:1337). -/
def toOklab [ScT α] (c : Color α) : Quad α :=
  let p := toXyz c
  let long := pow (fmax (0.8189330101 * p.x + 0.3618667424 * p.y + -0.1288597137 * p.z) 0.0) (1.0 / 3.0)
  let medium := pow (fmax (0.0329845436 * p.x + 0.9293118715 * p.y + 0.0361456387 * p.z) 0.0) (1.0 / 3.0)
  let short := pow (fmax (0.0482003018 * p.x + 0.2643662691 * p.y + 0.6338517070 * p.z) 0.0) (1.0 / 3.0)
  { x := 0.2104542553 * long + 0.7936177850 * medium + -0.0040720468 * short
    y := 1.9779984951 * long + -2.4285922050 * medium + 0.4505937099 * short
    z := 0.0259040371 * long + 0.7827717662 * medium + -0.8086757660 * short
    alpha := p.alpha }

/-- `From<&Color> for LCh` (lib.rs:1408). -/
def toLch [ScT α] (c : Color α) : Quad α :=
  let p := toLab c
  let a := p.y
  let b := p.z
  { x := p.x
    y := sqrt (a * a + b * b)
    z := modPositive (atan2 b a * rad2deg) 360.0
    alpha := p.alpha }

/-- `From<&Color> for CMYK` (lib.rs:1435). -/
def toCmyk [Sc α] (c : Color α) : Cmyk α :=
  let q := toRgba8 c
  let r : α := u8f q.r / 255.0
  let g : α := u8f q.g / 255.0
  let b : α := u8f q.b / 255.0
  let biggest := if g ≤ r ∧ b ≤ r then r else if r ≤ g ∧ b ≤ g then g else b
  let outK := 1.0 - biggest
  let outC := (1.0 - r - outK) / biggest
  let outM := (1.0 - g - outK) / biggest
  let outY := (1.0 - b - outK) / biggest
  { c := if isNaN outC then 0.0 else outC
    m := if isNaN outM then 0.0 else outM
    y := if isNaN outY then 0.0 else outY
    k := outK }

/-- `Color::to_u32` (lib.rs:337). -/
def toU32 [Sc α] (c : Color α) : Nat :=
  let q := toRgba8 c
  (q.r.toNat * 65536 + q.g.toNat * 256 + q.b.toNat) % 4294967296

/-- `Color::from_u32` (lib.rs:343): `0xRRGGBBAA`, alpha `AA / 255`. -/
def fromU32 [Sc α] (n : Nat) : Color α :=
  let r := n / 16777216 % 256
  let g := n / 65536 % 256
  let b := n / 256 % 256
  let a := n % 256
  fromRgba8 (UInt8.ofNat r) (UInt8.ofNat g) (UInt8.ofNat b) (Sc.ofNat a / 255.0)

/-! ### adjustments and derived quantities -/

def black [Sc α] : Color α := fromHsla 0.0 0.0 0.0 1.0
def white [Sc α] : Color α := fromHsla 0.0 0.0 1.0 1.0
def graytone [Sc α] (l : α) : Color α := fromHsla 0.0 0.0 l 1.0

/-- `Color::rotate_hue` (lib.rs:545). -/
def rotateHue [Sc α] (c : Color α) (delta : α) : Color α :=
  fromHsla (hueValue c.hue + fmod delta 360.0) c.sat c.light c.alpha

def complementary [Sc α] (c : Color α) : Color α := rotateHue c 180.0

/-- `Color::lighten` (lib.rs:561). -/
def lighten [Sc α] (c : Color α) (f : α) : Color α :=
  fromHsla (hueValue c.hue) c.sat (c.light + f) c.alpha

def darken [Sc α] (c : Color α) (f : α) : Color α := lighten c (-f)

/-- `Color::saturate` (lib.rs:578). -/
def saturate [Sc α] (c : Color α) (f : α) : Color α :=
  fromHsla (hueValue c.hue) (c.sat + f) c.light c.alpha

def desaturate [Sc α] (c : Color α) (f : α) : Color α := saturate c (-f)

inductive CbType | prot | deuter | trit
deriving DecidableEq, Repr

/-- `Color::simulate_colorblindness` (lib.rs:596). -/
def simulateColorblindness [ScT α] (c : Color α) (t : CbType) : Color α :=
  let p := toLms c
  match t with
  | .prot =>
    let l := 1.05118294 * p.y - 0.05116099 * p.z
    fromLms l p.y p.z p.alpha
  | .deuter =>
    let m := 0.9513092 * p.x + 0.04866992 * p.z
    fromLms p.x m p.z p.alpha
  | .trit =>
    let s := -0.86744736 * p.x + 1.86727089 * p.y
    fromLms p.x p.y s p.alpha

/-- `Color::to_gray` (lib.rs:621). -/
def toGray [ScT α] (c : Color α) : Color α :=
  let p := toLch c
  let gray := desaturate (fromLch p.x 0.0 0.0 c.alpha) 1.0
  { gray with hue := c.hue }

/-- `Color::brightness` (lib.rs:638). -/
def brightness [Sc α] (c : Color α) : α :=
  let f := toRgbaFloat c
  (299.0 * f.x + 587.0 * f.y + 114.0 * f.z) / 1000.0

/-- `f` in `Color::luminance` (lib.rs:654). -/
def lumF [ScT α] (s : α) : α :=
  if s ≤ 0.04045 then s / 12.92 else pow ((s + 0.055) / 1.055) 2.4

/-- `Color::luminance` (lib.rs:653). -/
def luminance [ScT α] (c : Color α) : α :=
  let f := toRgbaFloat c
  0.2126 * lumF f.x + 0.7152 * lumF f.y + 0.0722 * lumF f.z

/-- `Color::contrast_ratio` (lib.rs:675). -/
def contrastRatio [ScT α] (a b : Color α) : α :=
  let la := luminance a
  let lb := luminance b
  if lb < la then (la + 0.05) / (lb + 0.05) else (lb + 0.05) / (la + 0.05)

/-- `Color::text_color` (lib.rs:688). -/
def textColor [ScT α] (c : Color α) : Color α :=
  if 0.179 < luminance c then black else white

/-- `composite_channel` in `Color::composite` (lib.rs:745). -/
def compositeChannel [Sc α] (cA : UInt8) (aA : α) (cB : UInt8) (aB : α) (aO : α) : UInt8 :=
  toU8 (round ((u8f cA * aA + u8f cB * aB * (1.0 - aA)) / aO))

/-- `Color::composite` (lib.rs:728): `source` over `backdrop`. -/
def composite [Sc α] (backdrop source : Color α) : Color α :=
  let bd := toRgba8 backdrop
  let src := toRgba8 source
  let a := src.alpha + bd.alpha * (1.0 - src.alpha)
  -- both fully transparent: keep the backdrop's channels (0 / 0 otherwise)
  if feq a 0.0 then fromRgba8 bd.r bd.g bd.b 0.0
  else
  fromRgba8 (compositeChannel src.r src.alpha bd.r bd.alpha a)
            (compositeChannel src.g src.alpha bd.g bd.alpha a)
            (compositeChannel src.b src.alpha bd.b bd.alpha a) a

/-! ### mixing (`ColorSpace` impls) -/

inductive Space | rgb | hsl | hsv | lab | lch | oklab
deriving DecidableEq, Repr

/-- The gray-hue rule shared by `HSLA`, `HSVA` (threshold 0.0001 on `s`) and `LCh`
(threshold 0.1 on `c`). -/
def mixHue [Sc α] (thr : α) (s1 h1 s2 h2 f : α) : α :=
  let selfHue := if s1 < thr then h2 else h1
  let otherHue := if s2 < thr then h1 else h2
  interpolateAngle selfHue otherHue f

/-- `Color::mix::<C>` (lib.rs:721) with the six `ColorSpace` impls; `f` is a `Fraction` value. -/
def mix [ScT α] (sp : Space) (c1 c2 : Color α) (f : α) : Color α :=
  match sp with
  | .rgb =>
    let a := toRgbaFloat c1; let b := toRgbaFloat c2
    fromRgbaFloat (interpolate a.x b.x f) (interpolate a.y b.y f) (interpolate a.z b.z f)
      (interpolate a.alpha b.alpha f)
  | .hsl =>
    let a := toHsla c1; let b := toHsla c2
    fromHsla (mixHue 0.0001 a.y a.x b.y b.x f) (interpolate a.y b.y f) (interpolate a.z b.z f)
      (interpolate a.alpha b.alpha f)
  | .hsv =>
    let a := toHsva c1; let b := toHsva c2
    fromHsva (mixHue 0.0001 a.y a.x b.y b.x f) (interpolate a.y b.y f) (interpolate a.z b.z f)
      (interpolate a.alpha b.alpha f)
  | .lab =>
    let a := toLab c1; let b := toLab c2
    fromLab (interpolate a.x b.x f) (interpolate a.y b.y f) (interpolate a.z b.z f)
      (interpolate a.alpha b.alpha f)
  | .lch =>
    let a := toLch c1; let b := toLch c2
    fromLch (interpolate a.x b.x f) (interpolate a.y b.y f) (mixHue 0.1 a.y a.z b.y b.z f)
      (interpolate a.alpha b.alpha f)
  | .oklab =>
    let a := toOklab c1; let b := toOklab c2
    fromOklab (interpolate a.x b.x f) (interpolate a.y b.y f) (interpolate a.z b.z f)
      (interpolate a.alpha b.alpha f)

end Pastel
