/-
Model of `src/distinct.rs`: the nearest-neighbour bookkeeping (`DistanceResult`),
the simulated-annealing loop with its random choices made explicit, and
`rearrange_sequence`.

The bookkeeping is written over an abstract distance `dist : Nat → Nat → D`
between *indices* (the Rust code computes `distance(&labs[i], &labs[color])`),
so that its theorems need nothing about colour science: they are order-only.
-/
import Pastel.Model.Color
import Pastel.Model.DeltaE

namespace Pastel
open Sc ScT

/-- `usize::MAX`, the "no neighbour yet" sentinel. -/
def usizeMax : Nat := 18446744073709551615

variable {D : Type}

/-- One entry of `closest_distances`: (distance to the nearest other colour, its index). -/
abbrev Entry (D : Type) := D × Nat

/-! ### `DistanceResult::update_distances` (distinct.rs:313)

The Rust function is recursive with depth 2: the outer call (with `changed = true`)
collects `to_recalc` and then calls itself with `changed = false`, which collects
nothing.  `scan` is one pass of the loop; `recalc` is the non-recursive inner call. -/

/-- State of one pass: the table and the indices to recalculate (in push order). -/
structure ScanState (D : Type) where
  tbl : List (Entry D)
  todo : List Nat

/-- Loop body for index `i` (skipped when `i = color`). -/
def scanStep [Sc D] (dist : Nat → Nat → D) (color : Nat) (changed : Bool)
    (st : ScanState D) (i : Nat) : ScanState D :=
  if i = color then st
  else
    let d := dist i color
    let ei := st.tbl.getD i (d, usizeMax)
    let st1 : ScanState D :=
      if d < ei.1 then { st with tbl := st.tbl.set i (d, color) }
      else if changed && ei.2 == color then { st with todo := st.todo ++ [i] }
      else st
    let ec := st1.tbl.getD color (d, usizeMax)
    if d < ec.1 then { st1 with tbl := st1.tbl.set color (d, i) } else st1

/-- One pass of `update_distances` over all `n` colours. -/
def scan [Sc D] (big : D) (dist : Nat → Nat → D) (n color : Nat) (changed : Bool)
    (t : List (Entry D)) : ScanState D :=
  (List.range n).foldl (scanStep dist color changed) { tbl := t.set color (big, usizeMax), todo := [] }

/-- The inner, non-recursive call `update_distances(.., i, false)`. -/
def recalc [Sc D] (big : D) (dist : Nat → Nat → D) (n : Nat) (t : List (Entry D)) (i : Nat) :
    List (Entry D) :=
  (scan big dist n i false t).tbl

/-- `update_distances(lab_values, color, changed)`. -/
def updateDistances [Sc D] (big : D) (dist : Nat → Nat → D) (n color : Nat) (changed : Bool)
    (t : List (Entry D)) : List (Entry D) :=
  let st := scan big dist n color changed t
  st.todo.foldl (recalc big dist n) st.tbl

/-- Aggregates computed by `update_totals`. -/
structure Totals (D : Type) where
  mean : D
  min : D
  pair : Nat × Nat
  pairSet : Bool

/-- Loop body of `update_totals` (distinct.rs:349). -/
def totalsStep [Sc D] (k : Nat) (acc : Totals D × Nat) (e : Entry D) : Totals D × Nat :=
  let (a, i) := acc
  if i < k ∧ e.2 < k then (a, i + 1)
  else
    let mean := a.mean + e.1
    let a1 : Totals D :=
      if (i ≥ k ∨ e.2 ≥ k) ∧ (e.1 < a.min ∨ a.pairSet = false)
      then { a with mean := mean, pair := (i, e.2), pairSet := true }
      else { a with mean := mean }
    ({ a1 with min := fmin a1.min e.1 }, i + 1)

/-- `update_totals`: `(mean, min, closest_pair)`. -/
def updateTotals [Sc D] (big : D) (k : Nat) (prevPair : Nat × Nat) (t : List (Entry D)) : Totals D :=
  let a := (t.foldl (totalsStep k) ({ mean := 0.0, min := big, pair := prevPair, pairSet := false }, 0)).1
  { a with mean := a.mean / Sc.ofNat (t.length - k) }

/-- `DistanceResult`. -/
structure DistanceResult (D : Type) where
  closest : List (Entry D)
  mean : D
  min : D
  pair : Nat × Nat
  numFixed : Nat

/-- `DistanceResult::new` (distinct.rs:290). -/
def drNew [Sc D] (big : D) (dist : Nat → Nat → D) (n k : Nat) : DistanceResult D :=
  let t0 : List (Entry D) := List.replicate n (big, usizeMax)
  let t := (List.range n).foldl (fun t i => updateDistances big dist n i false t) t0
  let tot := updateTotals big k (usizeMax, usizeMax) t
  { closest := t, mean := tot.mean, min := tot.min, pair := tot.pair, numFixed := k }

/-- `DistanceResult::update` (distinct.rs:306); `dist` is the distance of the *new* lab values. -/
def drUpdate [Sc D] (big : D) (dist : Nat → Nat → D) (n : Nat) (r : DistanceResult D) (changed : Nat) :
    DistanceResult D :=
  let t := updateDistances big dist n changed true r.closest
  let tot := updateTotals big r.numFixed r.pair t
  { r with closest := t, mean := tot.mean, min := tot.min, pair := tot.pair }

/-! ### concrete distances -/

inductive Metric | cie76 | ciede2000
deriving DecidableEq, Repr

def metricDist {α : Type} [ScT α] (m : Metric) (a b : Lab3 α) : α :=
  match m with
  | .cie76 => cie76 a b
  | .ciede2000 => ciede2000 a b

/-- The index distance of a list of Lab values: `distance(&labs[i], &labs[j])`. -/
def labDist {α : Type} [ScT α] (m : Metric) (labs : List (Lab3 α)) (i j : Nat) : α :=
  match labs[i]?, labs[j]? with
  | some a, some b => metricDist m a b
  | _, _ => 0.0

/-! ### `rearrange_sequence` (distinct.rs:226) -/

/-- `i32::MAX`, `i32::MIN`. -/
def i32Max : Int := 2147483647
def i32Min : Int := -2147483648

/-- Inner loop over `j ∈ [i, n)`: refresh `min_distances[j]` with the distance to the colour
placed at `i-1`, track the first maximum. State: `(minDists, maxI, maxD)`. -/
def rearrangeInner (key : Nat → Nat → Int) (i n : Nat)
    (st : List Int × Nat × Int) (j : Nat) : List Int × Nat × Int :=
  let (md, maxI, maxD) := st
  let v := min (md.getD j i32Max) (key j (i - 1))
  let md := md.set j v
  if v > maxD then (md, j, v) else (md, maxI, maxD)

def swapList {β : Type} (l : List β) (i j : Nat) : List β :=
  match l[i]?, l[j]? with
  | some a, some b => (l.set i b).set j a
  | _, _ => l

/-- `rearrange_sequence` on a permutation `perm` of `0..n` (the colours are looked up through
it); `key a b = (distance(colors[a], colors[b]) * 1000.0) as i32` on *original* indices.
Returns `none` where the Rust code would index out of bounds (`swap(i, max_i)` with
`max_i = len`). -/
def rearrangeLoop (key : Nat → Nat → Int) (n : Nat) :
    Nat → Nat → List Nat → List Int → Option (List Nat)
  | 0, _, perm, _ => some perm
  | fuel + 1, i, perm, md =>
    if i ≥ n then some perm
    else
      let keyP := fun a b => key (perm.getD a 0) (perm.getD b 0)
      let (md, maxI, _) := ((List.range (n - i)).map (· + i)).foldl (rearrangeInner keyP i n) (md, n, i32Min)
      if maxI ≥ n then none
      else rearrangeLoop key n fuel (i + 1) (swapList perm i maxI) (swapList md i maxI)

def rearrange (key : Nat → Nat → Int) (n : Nat) : Option (List Nat) :=
  rearrangeLoop key n n 1 (List.range n) (List.replicate n i32Max)

/-! ### simulated annealing (distinct.rs:124) with explicit random draws -/

inductive Target | mean | min
deriving DecidableEq, Repr
inductive Mode | global | local
deriving DecidableEq, Repr

/-- A stream of raw RNG outputs, as the Rust `RngCore` delivered them. -/
structure Draws where
  rest : List Nat

def Draws.next (d : Draws) : Nat × Draws :=
  match d.rest with
  | [] => (0, d)
  | x :: xs => (x, { rest := xs })

/-- rand 0.9 `StandardUniform` for `bool`: sign bit of `next_u32`. -/
def drawBool (d : Draws) : Bool × Draws :=
  let (x, d) := d.next
  (x % 4294967296 ≥ 2147483648, d)

/-- `u8`: low byte of `next_u32`. -/
def drawU8 (d : Draws) : UInt8 × Draws :=
  let (x, d) := d.next
  (UInt8.ofNat (x % 256), d)

/-- `f64`: `(next_u64 >> 11) * 2^-53`. -/
def drawF64 {α : Type} [Sc α] (d : Draws) : α × Draws :=
  let (x, d) := d.next
  ((Sc.ofNat 1 / Sc.ofNat 9007199254740992) * Sc.ofNat (x % 18446744073709551616 / 2048), d)

/-- `random_range(low..high)` for `usize` below 2^32: Canon's method on `u32`. -/
def drawRange (low high : Nat) (d : Draws) : Nat × Draws :=
  let range := high - low
  let (x, d) := d.next
  let prod := (x % 4294967296) * range
  let hi := prod / 4294967296
  let lo := prod % 4294967296
  if lo > (4294967296 - range) % 4294967296 then
    let (y, d) := d.next
    let newHi := ((y % 4294967296) * range) / 4294967296
    (low + hi + (if lo + newHi ≥ 4294967296 then 1 else 0), d)
  else (low + hi, d)

def satAdd (c : UInt8) (x : Nat) : UInt8 := UInt8.ofNat (min 255 (c.toNat + x))
def satSub (c : UInt8) (x : Nat) : UInt8 := UInt8.ofNat (c.toNat - x)

/-- `modify_channel` (distinct.rs:101). -/
def modifyChannel (c : UInt8) (d : Draws) : UInt8 × Draws :=
  let (b, d) := drawBool d
  let (x, d) := drawU8 d
  if b then (satAdd c (x.toNat % 10), d) else (satSub c (x.toNat % 10), d)

structure SaParams (α : Type) where
  initialTemperature : α
  coolingRate : α
  numIterations : Nat
  target : Target
  mode : Mode
  metric : Metric
  numFixed : Nat

structure SaState (α : Type) where
  colors : List (Color α)
  labs : List (Lab3 α)
  temperature : α
  result : DistanceResult α
  draws : Draws

def lab3Of {α : Type} [ScT α] (c : Color α) : Lab3 α :=
  let q := toLab c; { l := q.x, a := q.y, b := q.z }

/-- Choice of the colour to mutate (distinct.rs:141): a uniform free index for the `mean`
target; for `min`, the free member of the closest pair (a coin flip if both are free). -/
def chooseIndex {α : Type} (p : SaParams α) (st : SaState α) : Nat × Draws :=
  if p.target = .mean then drawRange p.numFixed st.colors.length st.draws
  else if st.result.pair.1 < p.numFixed then (st.result.pair.2, st.draws)
  else if st.result.pair.2 < p.numFixed then (st.result.pair.1, st.draws)
  else
    let (b, d) := drawBool st.draws
    (if b then st.result.pair.1 else st.result.pair.2, d)

/-- `modify_color_and_lab` (distinct.rs:109): the proposed replacement, always an opaque
8-bit colour. -/
def proposeColor {α : Type} [Sc α] (mode : Mode) (old : Color α) (d : Draws) : (UInt8 × UInt8 × UInt8) × Draws :=
  match mode with
  | .local =>
    let q := toRgba8 old
    let (r, d) := modifyChannel q.r d
    let (g, d) := modifyChannel q.g d
    let (b, d) := modifyChannel q.b d
    ((r, g, b), d)
  | .global =>
    let (r, d) := drawU8 d
    let (g, d) := drawU8 d
    let (b, d) := drawU8 d
    ((r, g, b), d)

/-- The acceptance test (distinct.rs:176): better scores always, worse ones with the
Boltzmann probability. -/
def acceptMove {α : Type} [ScT α] (score newScore temperature : α) (d : Draws) : Bool × Draws :=
  if score < newScore then (true, d)
  else
    let bolzmann := exp (-(score - newScore) / temperature)
    let (u, d) := drawF64 (α := α) d
    (decide (u ≤ bolzmann), d)

/-- Commit or reject the proposal at `idx`. -/
def commitMove {α : Type} [ScT α] (big : α) (p : SaParams α) (st : SaState α) (idx : Nat)
    (rgb : UInt8 × UInt8 × UInt8) (d : Draws) : SaState α :=
  let newColor : Color α := fromRgba8 rgb.1 rgb.2.1 rgb.2.2 1.0
  let newLabs := st.labs.set idx (lab3Of newColor)
  let newResult := drUpdate big (labDist p.metric newLabs) st.colors.length st.result idx
  let (score, newScore) := match p.target with
    | .mean => (st.result.mean, newResult.mean)
    | .min => (st.result.min, newResult.min)
  let (accept, d) := acceptMove score newScore st.temperature d
  if accept then { st with result := newResult, colors := st.colors.set idx newColor, labs := newLabs, draws := d }
  else { st with draws := d }

/-- Cooling (distinct.rs:198). -/
def cool {α : Type} [Sc α] (p : SaParams α) (iter : Nat) (st : SaState α) : SaState α :=
  if iter % 1000 = 0 then { st with temperature := st.temperature * p.coolingRate } else st

/-- One iteration of the loop in `run`; `none` = index out of bounds (a panic in Rust). -/
def saStep {α : Type} [ScT α] (big : α) (p : SaParams α) (st : SaState α) (iter : Nat) :
    Option (SaState α) :=
  let (idx, d) := chooseIndex p st
  match st.colors[idx]? with
  | none => none
  | some old =>
    let (rgb, d) := proposeColor p.mode old d
    some (cool p iter (commitMove big p st idx rgb d))

/-- `SimulatedAnnealing::run`. -/
def saRun {α : Type} [ScT α] (big : α) (p : SaParams α) (colors : List (Color α)) (draws : Draws) :
    Option (SaState α) :=
  let labs := colors.map lab3Of
  let n := colors.length
  let result := drNew big (labDist p.metric labs) n p.numFixed
  let st0 : SaState α := { colors := colors, labs := labs, temperature := p.initialTemperature,
                            result := result, draws := draws }
  if p.numFixed = n ∨ n < 2 then some st0
  else (List.range p.numIterations).foldl (fun st iter => st.bind (fun s => saStep big p s iter)) (some st0)

end Pastel
