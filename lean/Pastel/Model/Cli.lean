/-
Models of the list-processing subcommands (`sort-by`, `list`, `format name`) and of the random
strategies (`src/random.rs`).
-/
import Pastel.Model.Color
import Pastel.Model.DeltaE
import Pastel.Model.Distinct
import Pastel.Model.Ansi
import Pastel.Model.Named

namespace Pastel
open Sc ScT

/-! ### `sort-by` (src/cli/commands/sort.rs) and `list` (src/cli/commands/list.rs) -/

/-- One colour as the sorting code sees it: its packed RGB (`to_u32`) and its integer key
(`(property * 1000.0) as i32`); `tag` identifies the input position. -/
structure SortItem where
  tag : Nat
  packed : Nat
  key : Int
deriving Repr, DecidableEq

/-- Stable sort by an integer key (`slice::sort_by_key` / `sort_by_cached_key`). -/
def stableSortBy (k : SortItem → Int) (l : List SortItem) : List SortItem :=
  l.mergeSort (fun a b => decide (k a ≤ k b))

/-- `Vec::dedup_by_key`: drop an element when its key equals that of the last retained one. -/
def dedupByKey (k : SortItem → Nat) : List SortItem → List SortItem
  | [] => []
  | x :: xs =>
    let rec go (last : SortItem) : List SortItem → List SortItem
      | [] => []
      | y :: ys => if k y = k last then go last ys else y :: go y ys
    x :: go x xs

/-- `SortCommand::run` after the colours are collected. -/
def sortCmd (unique reverse : Bool) (items : List SortItem) : List SortItem :=
  let l1 := if unique then dedupByKey (·.packed) (stableSortBy (fun i => (i.packed : Int)) items) else items
  let l2 := stableSortBy (·.key) l1
  if reverse then l2.reverse else l2

/-- `ListCommand::run`: the table sorted by key (stable), adjacent equal colours removed
(`packed` stands for the colour: named colours are opaque 8-bit). -/
def listCmd (items : List SortItem) : List SortItem :=
  dedupByKey (·.packed) (stableSortBy (·.key) items)

/-! ### `format name` (src/cli/utility.rs: `similar_colors`, first entry) -/

/-- The table stable-sorted by `(1000·ΔE) as i32`; its first entry is the first row with a
minimal key. -/
def nearestName {α : Type} [ScT α] (table : List (String × Nat × Nat × Nat)) (c : Color α) : String :=
  let lab := lab3Of c
  let key := fun (e : String × Nat × Nat × Nat) =>
    toI32 (1000.0 * ciede2000 (lab3Of (colorOfRgb (α := α) (e.2.1, e.2.2.1, e.2.2.2))) lab)
  match minByKey key table with
  | some e => e.1
  | none => ""

/-! ### random strategies (src/random.rs) as functions of the raw draws -/

/-- `strategies::Vivid`. -/
def randVivid {α : Type} [Sc α] (d : Draws) : Color α × Draws :=
  let (u1, d) := drawF64 (α := α) d
  let hue := u1 * 360.0
  let (u2, d) := drawF64 (α := α) d
  let saturation := 0.2 + 0.6 * u2
  let (u3, d) := drawF64 (α := α) d
  let lightness := 0.3 + 0.4 * u3
  (fromHsla hue saturation lightness 1.0, d)

/-- `strategies::UniformRGB`. -/
def randRgb {α : Type} [Sc α] (d : Draws) : Color α × Draws :=
  let (r, d) := drawU8 d
  let (g, d) := drawU8 d
  let (b, d) := drawU8 d
  (fromRgba8 r g b 1.0, d)

/-- `strategies::UniformGray`. -/
def randGray {α : Type} [Sc α] (d : Draws) : Color α × Draws :=
  let (u, d) := drawF64 (α := α) d
  (graytone u, d)

/-- `strategies::UniformHueLCh`. -/
def randLchHue {α : Type} [ScT α] (d : Draws) : Color α × Draws :=
  let (u, d) := drawF64 (α := α) d
  (fromLch 70.0 35.0 (360.0 * u) 1.0, d)

end Pastel
