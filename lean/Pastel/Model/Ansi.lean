/-
Model of `src/ansi.rs`: the xterm-256 palette decoding, 8-bit quantisation,
SGR sequence assembly, `Brush::paint`, and the colour-mode decision of
`src/cli/main.rs::run`.
-/
import Pastel.Model.Color
import Pastel.Model.DeltaE
import Pastel.Model.Distinct

namespace Pastel
open Sc ScT

/-- `cube_to_8bit` (ansi.rs:36). -/
def cubeTo8bit (code : Nat) : Nat := if code = 0 then 0 else 55 + 40 * code

/-- The 16 system colours as the code constructs them (`Color::black()`, `maroon()`, …). -/
def systemColor : Nat → Nat × Nat × Nat
  | 0 => (0, 0, 0) | 1 => (128, 0, 0) | 2 => (0, 128, 0) | 3 => (128, 128, 0)
  | 4 => (0, 0, 128) | 5 => (128, 0, 128) | 6 => (0, 128, 128) | 7 => (192, 192, 192)
  | 8 => (128, 128, 128) | 9 => (255, 0, 0) | 10 => (0, 255, 0) | 11 => (255, 255, 0)
  | 12 => (0, 0, 255) | 13 => (255, 0, 255) | 14 => (0, 255, 255) | _ => (255, 255, 255)

/-- `AnsiColor::from_ansi_8bit` (ansi.rs:55), as 8-bit channels. -/
def fromAnsi (code : Nat) : Nat × Nat × Nat :=
  if code < 16 then systemColor code
  else if code ≤ 231 then
    let codeRgb := code - 16
    let blue := codeRgb % 6
    let codeRg := (codeRgb - blue) / 6
    let green := codeRg % 6
    let red := (codeRg - green) / 6
    (cubeTo8bit red, cubeTo8bit green, cubeTo8bit blue)
  else
    let gray := 10 * (code - 232) + 8
    (gray, gray, gray)

/-- The xterm-256 palette *as published*: 16 CSS system colours, the 6×6×6 cube with levels
`0, 95, 135, 175, 215, 255`, the 24-step gray ramp `8 + 10k`. Written as a specification,
independently of the decoding arithmetic. -/
def xtermLevels : List Nat := [0, 95, 135, 175, 215, 255]

def xterm (code : Nat) : Nat × Nat × Nat :=
  if code < 16 then
    [(0, 0, 0), (128, 0, 0), (0, 128, 0), (128, 128, 0), (0, 0, 128), (128, 0, 128), (0, 128, 128),
     (192, 192, 192), (128, 128, 128), (255, 0, 0), (0, 255, 0), (255, 255, 0), (0, 0, 255),
     (255, 0, 255), (0, 255, 255), (255, 255, 255)].getD code (0, 0, 0)
  else if code < 232 then
    let i := code - 16
    (xtermLevels.getD (i / 36) 0, xtermLevels.getD (i / 6 % 6) 0, xtermLevels.getD (i % 6) 0)
  else
    let k := code - 232
    (8 + 10 * k, 8 + 10 * k, 8 + 10 * k)

/-- The candidate codes of `ANSI_LAB_REPRESENTATIONS` (ansi.rs:9): `16..=255`. -/
def ansiCandidates : List Nat := (List.range 240).map (· + 16)

/-- First element with the minimal integer key (`Iterator::min_by_key`). -/
def minByKey {β : Type} (key : β → Int) : List β → Option β
  | [] => none
  | x :: xs => some (xs.foldl (fun best y => if key y < key best then y else best) x)

def colorOfRgb {α : Type} [Sc α] (c : Nat × Nat × Nat) : Color α :=
  fromRgba8 (UInt8.ofNat c.1) (UInt8.ofNat c.2.1) (UInt8.ofNat c.2.2) 1.0

/-- The Lab table of the candidates, computed once. -/
def ansiLabTable {α : Type} [ScT α] : List (Nat × Lab3 α) :=
  ansiCandidates.map fun code => (code, lab3Of (colorOfRgb (α := α) (fromAnsi code)))

/-- `AnsiColor::to_ansi_8bit` (ansi.rs:101): arg-min of the *truncated* CIEDE2000 distance. -/
def toAnsiWith {α : Type} [ScT α] (table : List (Nat × Lab3 α)) (c : Color α) : Nat :=
  let selfLab := lab3Of c
  match minByKey (fun (e : Nat × Lab3 α) => toI32 (ciede2000 selfLab e.2)) table with
  | some e => e.1
  | none => 0

def toAnsi {α : Type} [ScT α] (c : Color α) : Nat := toAnsiWith ansiLabTable c

/-! ### SGR sequences (ansi.rs:121–214) -/

inductive AnsiMode | ansi8 | trueColor
deriving DecidableEq, Repr

structure Style (α : Type) where
  foreground : Option (Color α) := none
  background : Option (Color α) := none
  bold : Bool := false
  italic : Bool := false
  underline : Bool := false

/-- The parameters of one colour: `38;5;N` / `38;2;R;G;B` (or `48;…`). -/
def colorCodes {α : Type} [ScT α] (quant : Color α → Nat) (mode : AnsiMode) (base : Nat) (c : Color α) : List Nat :=
  match mode with
  | .ansi8 => [base, 5, quant c]
  | .trueColor => let q := toRgba8 c; [base, 2, q.r.toNat, q.g.toNat, q.b.toNat]

/-- The parameters `Style::escape_sequence` collects before the empty check. -/
def sgrBody {α : Type} [ScT α] (quant : Color α → Nat) (s : Style α) (mode : AnsiMode) : List Nat :=
  (match s.foreground with | some c => colorCodes quant mode 38 c | none => []) ++
  (match s.background with | some c => colorCodes quant mode 48 c | none => []) ++
  (if s.bold then [1] else []) ++ (if s.italic then [3] else []) ++ (if s.underline then [4] else [])

/-- The SGR parameter list of `Style::escape_sequence`: a lone `0` for the empty style. -/
def sgrCodes {α : Type} [ScT α] (quant : Color α → Nat) (s : Style α) (mode : AnsiMode) : List Nat :=
  if (sgrBody quant s mode).isEmpty then [0] else sgrBody quant s mode

def esc : Char := Char.ofNat 27

/-- `Style::escape_sequence`: `ESC [` + `;`-joined parameters + `m`. -/
def escapeSequence {α : Type} [ScT α] (quant : Color α → Nat) (s : Style α) (mode : AnsiMode) : String :=
  String.singleton esc ++ "[" ++ ";".intercalate ((sgrCodes quant s mode).map toString) ++ "m"

def resetSequence : String := String.singleton esc ++ "[0m"

/-- `Brush::paint` (ansi.rs:299). -/
def paint {α : Type} [ScT α] (quant : Color α → Nat) (mode : Option AnsiMode) (text : String) (s : Style α) : String :=
  match mode with
  | some m => escapeSequence quant s m ++ text ++ resetSequence
  | none => text

/-- `AnsiColor::to_ansi_sequence` (ansi.rs:113). -/
def toAnsiSequence {α : Type} [ScT α] (quant : Color α → Nat) (c : Color α) (mode : AnsiMode) : String :=
  match mode with
  | .ansi8 => String.singleton esc ++ "[38;5;" ++ toString (quant c) ++ "m"
  | .trueColor =>
    let q := toRgba8 c
    String.singleton esc ++ "[38;2;" ++ toString q.r.toNat ++ ";" ++ toString q.g.toNat ++ ";" ++ toString q.b.toNat ++ "m"

/-! ### colour-mode decision (`main.rs::run`, `Mode::from_mode_str`, `get_colormode`) -/

inductive ModeFlag | auto | m24bit | m8bit | off
deriving DecidableEq, Repr

/-- `Mode::from_mode_str`. -/
def modeOfStr : String → Except String (Option AnsiMode)
  | "24bit" => .ok (some .trueColor)
  | "truecolor" => .ok (some .trueColor)
  | "8bit" => .ok (some .ansi8)
  | "off" => .ok none
  | v => .error v

/-- `get_colormode` (non-Windows). -/
def envColorMode (noColorSet : Bool) (colorterm : Option String) : Option AnsiMode :=
  if noColorSet then none
  else match colorterm with
    | some "truecolor" => some .trueColor
    | some "24bit" => some .trueColor
    | _ => some .ansi8

/-- The decision in `run()`; `Except.error v` is `UnknownColorMode(v)`. -/
def decideMode (forceColor : Bool) (flag : ModeFlag) (stdoutIsTty : Bool)
    (pastelColorMode : Option String) (noColorSet : Bool) (colorterm : Option String) :
    Except String (Option AnsiMode) :=
  if forceColor then .ok (some .trueColor)
  else match flag with
    | .m24bit => .ok (some .trueColor)
    | .m8bit => .ok (some .ansi8)
    | .off => .ok none
    | .auto =>
      if stdoutIsTty then
        match pastelColorMode with
        | some s => modeOfStr s
        | none => .ok (envColorMode noColorSet colorterm)
      else .ok none

end Pastel
