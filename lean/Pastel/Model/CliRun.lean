/-
Model of the command-line layer for the colour-at-a-time subcommands
(`src/cli/main.rs`, `src/cli/commands/mod.rs`, `io.rs`, `color_commands.rs`,
`format.rs`, `error.rs`), non-interactive (stdout is a pipe, colour off).

The environment is an explicit input: the colour arguments, the lines standard
input will deliver (or a non-UTF-8 line), and how many bytes the reader of
stdout accepts before closing it.
-/
import Pastel.Model.Color
import Pastel.Model.SetCmd
import Pastel.Model.Format
import Pastel.Model.Parser
import Pastel.Model.Cli
import Pastel.Model.Scale

namespace Pastel
namespace Cli

/-- `PastelError` (error.rs), the variants reachable from the modelled commands. -/
inductive Err where
  | colorParse (text : String)
  | colorInvalidUtf8
  | couldNotReadFromStdin
  | colorArgRequired
  | couldNotParseNumber (text : String)
  | noColorPickerFound
  | stdoutClosed
  | gradientNumber
  | gradientColorCount
  | distinctCount
  | distinctFixed
deriving Repr, DecidableEq

/-- `PastelError::message`. -/
def Err.message : Err → String
  | .colorParse c => "Could not parse color '" ++ c ++ "'"
  | .colorInvalidUtf8 => "Color input contains invalid UTF8"
  | .couldNotReadFromStdin => "Could not read color from standard input"
  | .colorArgRequired => "A color argument needs to be provided on the command line or via a pipe. Call this command again with '-h' or '--help' to get more information."
  | .couldNotParseNumber n => "Could not parse number '" ++ n ++ "'"
  | .noColorPickerFound => "Could not find any external color picker tool. See 'pastel pick --help' for more information."
  | .stdoutClosed => "Output pipe has been closed"
  | .gradientNumber => "The specified color count must be larger than one"
  | .gradientColorCount => "The number of color arguments must be larger than one"
  | .distinctCount => "The number of colors must be larger than one"
  | .distinctFixed => "The number of fixed colors must be smaller than the total number of colors"

/-- `main`: `StdoutClosed` exits silently with 0, every other error with 1. -/
def Err.exitCode : Err → Nat
  | .stdoutClosed => 0
  | _ => 1

/-- One delivery of `read_line` on stdin. -/
inductive StdinLine where
  | text (s : String)       -- a line (without its newline)
  | invalidUtf8
deriving Repr

abbrev Col := Color Float

/-- Rust `str::parse::<f64>` of a whole string (no surrounding blanks allowed). -/
def parseF64 (s : List Char) : Option Float :=
  let (neg, body) : Bool × List Char := match s with
    | '+' :: r => (false, r)
    | '-' :: r => (true, r)
    | _ => (false, s)
  let lower := String.ofList (body.map P.toLowerAscii)
  if lower = "inf" ∨ lower = "infinity" then some (if neg then -F.inf else F.inf)
  else if lower = "nan" then some F.nan
  else
    match P.recognizeFloat s with
    | .ok [] v => some v.toFloat
    | _ => none

/-- `number_arg`. -/
def numberArg (text : String) : Except Err Float :=
  match parseF64 text.toList with
  | some v => .ok v
  | none => .error (.couldNotParseNumber text)

/-- `color_from_stdin`: one line, trimmed, parsed. Returns the remaining stdin. -/
def colorFromStdin (stdin : List StdinLine) : Except Err Col × List StdinLine :=
  match stdin with
  | [] => (.error .couldNotReadFromStdin, [])
  | .invalidUtf8 :: rest => (.error .colorInvalidUtf8, rest)
  | .text l :: rest =>
    let t := String.ofList (P.trim l.toList)
    match P.parseColor t.toList with
    | some c => (.ok c, rest)
    | none => (.error (.colorParse t), rest)

/-- `ColorArgIterator::from_color_arg` (the picker is absent in the model's environment). -/
def colorFromArg (arg : String) (stdin : List StdinLine) : Except Err Col × List StdinLine :=
  if arg = "-" then colorFromStdin stdin
  else if arg = "pick" then (.error .noColorPickerFound, stdin)
  else match P.parseColor arg.toList with
    | some c => (.ok c, stdin)
    | none => (.error (.colorParse arg), stdin)

/-- What a run produced: the complete lines written to stdout and how it ended. -/
structure Outcome where
  lines : List String
  err : Option Err
  /-- text written after the last complete line (only `paint --no-newline`) -/
  tail : String := ""
deriving Repr

def Outcome.exitCode (o : Outcome) : Nat := match o.err with | none => 0 | some e => e.exitCode

/-- `Command::execute` for a `WithColor` command over positional arguments: colours are parsed
lazily, one at a time, each followed by the command's output for it. -/
def loopArgs (cmd : Col → Except Err String) : List String → List StdinLine → Outcome
  | [], _ => { lines := [], err := none }
  | a :: rest, stdin =>
    match colorFromArg a stdin with
    | (.error e, _) => { lines := [], err := some e }
    | (.ok c, stdin') =>
      match cmd c with
      | .error e => { lines := [], err := some e }
      | .ok line =>
        let o := loopArgs cmd rest stdin'
        { lines := line :: o.lines, err := o.err }

/-- … and over stdin lines (`ColorArgIterator::FromStdin`): end of input ends the iteration. -/
def loopStdin (cmd : Col → Except Err String) : List StdinLine → Outcome
  | [] => { lines := [], err := none }
  | l :: rest =>
    match colorFromStdin [l] with
    | (.error e, _) => { lines := [], err := some e }
    | (.ok c, _) =>
      match cmd c with
      | .error e => { lines := [], err := some e }
      | .ok line =>
        let o := loopStdin cmd rest
        { lines := line :: o.lines, err := o.err }

/-- `Output::show_color` when stdout is not a terminal: the `hsl` string without blanks. -/
def showColor (c : Col) : String := Fmt.hslString c false

/-- The text `format <type>` prints for a colour (before the newline), colour off. -/
def formatType (t : String) (c : Col) : Option String :=
  let esc := fun (s : String) => s.replace (String.singleton (Char.ofNat 27)) "\\x1b"
  match t with
  | "rgb" => some (Fmt.rgbString c true)
  | "rgb-float" => some (Fmt.rgbFloatString c true)
  | "hex" => some (Fmt.hexString c true)
  | "hsl" => some (Fmt.hslString c true)
  | "hsl-hue" => some (Fmt.fixed (toHsla c).x 0)
  | "hsl-saturation" => some (Fmt.fixed (toHsla c).y 4)
  | "hsl-lightness" => some (Fmt.fixed (toHsla c).z 4)
  | "hsv" => some (Fmt.hsvString c true)
  | "hsv-hue" => some (Fmt.fixed (toHsva c).x 0)
  | "hsv-saturation" => some (Fmt.fixed (toHsva c).y 4)
  | "hsv-value" => some (Fmt.fixed (toHsva c).z 4)
  | "lch" => some (Fmt.lchString c true)
  | "lch-lightness" => some (Fmt.fixed (toLch c).x 2)
  | "lch-chroma" => some (Fmt.fixed (toLch c).y 2)
  | "lch-hue" => some (Fmt.fixed (toLch c).z 2)
  | "lab" => some (Fmt.labString c true)
  | "lab-a" => some (Fmt.fixed (toLab c).y 2)
  | "lab-b" => some (Fmt.fixed (toLab c).z 2)
  | "oklab" => some (Fmt.oklabString c true)
  | "oklab-l" => some (Fmt.fixed (toOklab c).x 4)
  | "oklab-a" => some (Fmt.fixed (toOklab c).y 4)
  | "oklab-b" => some (Fmt.fixed (toOklab c).z 4)
  | "luminance" => some (Fmt.fixed (luminance c) 3)
  | "brightness" => some (Fmt.fixed (brightness c) 3)
  | "ansi-8bit" => some (esc (toAnsiSequence (toAnsiWith ansiLabTable) c .ansi8))
  | "ansi-24bit" => some (esc (toAnsiSequence (toAnsiWith ansiLabTable) c .trueColor))
  | "cmyk" => some (Fmt.cmykString c true)
  | "name" => some (nearestName cssNamed c)
  | _ => none

/-- The per-colour body of the modelled subcommands; `args` are the subcommand's own arguments
(already validated by clap). -/
def commandBody (sub : String) (args : List String) (c : Col) : Except Err String :=
  let withAmount (f : Col → Float → Col) : Except Err String :=
    match args with
    | [a] => (numberArg a).map fun x => showColor (f c x)
    | _ => .ok ""
  match sub with
  | "color" => .ok (showColor c)
  | "lighten" => withAmount lighten
  | "darken" => withAmount darken
  | "saturate" => withAmount saturate
  | "desaturate" => withAmount desaturate
  | "rotate" => withAmount rotateHue
  | "complement" => .ok (showColor (complementary c))
  | "to-gray" => .ok (showColor (toGray c))
  | "textcolor" => .ok (showColor (textColor c))
  | "colorblind" =>
    match args.map String.toLower with
    | ["prot"] => .ok (showColor (simulateColorblindness c .prot))
    | ["deuter"] => .ok (showColor (simulateColorblindness c .deuter))
    | ["trit"] => .ok (showColor (simulateColorblindness c .trit))
    | _ => .ok ""
  | "set" =>
    match args with
    | [p, v] =>
      match setPropOfString p.toLower with
      | some p => (numberArg v).map fun x => showColor (setProp p x c)
      | none => .ok ""
    | _ => .ok ""
  | "format" =>
    match args with
    | [t] => match formatType t.toLower c with
      | some s => .ok s
      | none => .ok ""
    | _ => .ok ""
  | _ => .ok ""

/-- `MixCommand` (since 60725f5 a command of its own, not a per-colour one): the base colour — the
first positional argument, possibly `-` (one stdin line) — and the fraction are read first; then
every colour (arguments, or stdin lines when there are none) is mixed:
`mix(base, color, Fraction::from(1 − F))` in the named space. `args = [base, fraction, colorspace]`. -/
def runMix (args : List String) (colors : List String) (stdin : List StdinLine) : Outcome :=
  match args with
  | [base, fr, sp] =>
    match colorFromArg base stdin with
    | (.error e, _) => { lines := [], err := some e }
    | (.ok b, stdin') =>
      match numberArg fr with
      | .error e => { lines := [], err := some e }
      | .ok f =>
        let space : Space := match sp.toLower with
          | "rgb" => .rgb | "hsl" => .hsl | "lch" => .lch | "oklab" => .oklab | _ => .lab
        let cmd : Col → Except Err String := fun c => .ok (showColor (mix space b c (fraction (1.0 - f))))
        if colors.isEmpty then loopStdin cmd stdin' else loopArgs cmd colors stdin'
  | _ => { lines := [], err := none }

/-- Rust `str::parse::<usize>` on a 64-bit target: an optional `+`, at least one ASCII digit,
nothing else, no overflow. -/
def parseUsize (s : List Char) : Option Nat :=
  let body : List Char := match s with
    | '+' :: r => r
    | _ => s
  if body.isEmpty || !body.all P.isDigit then none
  else
    let n := P.digitsToNat body
    if n < 18446744073709551616 then some n else none

def fail (e : Err) : Outcome := { lines := [], err := some e }

/-- All colour arguments of a command that collects them before printing: resolved in order, each
`-` consuming one stdin line; the first error ends the run. -/
def collectArgs : List String → List StdinLine → Except Err (List Col)
  | [], _ => .ok []
  | a :: rest, stdin =>
    match colorFromArg a stdin with
    | (.error e, _) => .error e
    | (.ok c, stdin') =>
      match collectArgs rest stdin' with
      | .error e => .error e
      | .ok cs => .ok (c :: cs)

/-- … and all stdin lines. -/
def collectStdin : List StdinLine → Except Err (List Col)
  | [] => .ok []
  | l :: rest =>
    match colorFromStdin [l] with
    | (.error e, _) => .error e
    | (.ok c, _) =>
      match collectStdin rest with
      | .error e => .error e
      | .ok cs => .ok (c :: cs)

def spaceOfArg (sp : String) : Space :=
  match sp.toLower with
  | "rgb" => .rgb | "hsl" => .hsl | "lch" => .lch | "oklab" => .oklab | _ => .lab

/-- `GrayCommand`: `args = [lightness]`. -/
def runGray (args : List String) : Outcome :=
  match args with
  | [l] =>
    match numberArg l with
    | .error e => fail e
    | .ok x => { lines := [showColor (graytone x)], err := none }
  | _ => { lines := [], err := none }

/-- `GradientCommand`: `args = [number, colorspace]`. The count is validated first, then the number
of colour arguments, then the colours are read in order; only then is anything printed. -/
def runGradient (args : List String) (colors : List String) (stdin : List StdinLine) : Outcome :=
  match args with
  | [n, sp] =>
    match parseUsize n.toList with
    | none => fail (.couldNotParseNumber n)
    | some count =>
      if count < 2 then fail .gradientNumber
      else if colors.length < 2 then fail .gradientColorCount
      else
        match collectArgs colors stdin with
        | .error e => fail e
        | .ok cs =>
          let space := spaceOfArg sp
          let samples := gradient (P := Float) cs count (fun a b f => mix space a b f)
          { lines := samples.map (fun o => match o with | some c => showColor c | none => "<panic: gradient color>"),
            err := none }
  | _ => { lines := [], err := none }

/-- The integer sort key of `sort-by` / `list` for the four deterministic orders. -/
def sortKeyOf (order : String) (c : Col) : Int :=
  match order with
  | "brightness" => Sc.toI32 (brightness c * 1000.0)
  | "luminance" => Sc.toI32 (luminance c * 1000.0)
  | "hue" => Sc.toI32 ((toLch c).z * 1000.0)
  | _ => Sc.toI32 ((toLch c).y * 1000.0)

def packedOf (c : Col) : Nat :=
  let q := toRgba8 c
  q.r.toNat * 65536 + q.g.toNat * 256 + q.b.toNat

/-- `SortCommand`: `args = [order, unique, reverse]` (`"1"` = flag given). All colours are collected
first (arguments, or every stdin line), so an unreadable one means no output at all. -/
def runSort (args : List String) (colors : List String) (stdin : List StdinLine) : Outcome :=
  match args with
  | [order, u, r] =>
    let collected := if colors.isEmpty then collectStdin stdin else collectArgs colors stdin
    match collected with
    | .error e => fail e
    | .ok cs =>
      let items : List SortItem := (cs.zipIdx).map fun ci => { tag := ci.2, packed := packedOf ci.1, key := sortKeyOf order ci.1 }
      let sorted := sortCmd (u = "1") (r = "1") items
      { lines := sorted.map (fun it => match cs[it.tag]? with | some c => showColor c | none => ""), err := none }
  | _ => { lines := [], err := none }

/-- `PaintCommand` with the text given as arguments, colour off (stdout is a pipe): `args =
[fg, bg-or-"", no-newline]`, `colors` are the text words. Foreground and background are validated
(the foreground may be `-`, one stdin line, or `default`), then the text is printed unpainted. -/
def runPaint (args : List String) (words : List String) (stdin : List StdinLine) : Outcome :=
  match args with
  | [fg, bg, nn] =>
    let fgRes : Except Err Unit :=
      if String.ofList (P.trim fg.toList) = "default" then .ok ()
      else match colorFromArg fg stdin with
        | (.error e, _) => .error e
        | (.ok _, _) => .ok ()
    match fgRes with
    | .error e => fail e
    | .ok _ =>
      let bgRes : Except Err Unit :=
        if bg = "" then .ok ()
        else match P.parseColor bg.toList with
          | some _ => .ok ()
          | none => .error (.colorParse bg)
      match bgRes with
      | .error e => fail e
      | .ok _ =>
        let text := " ".intercalate words
        -- with `--no-newline` the text is written without a line end: the model's `lines` are complete
        -- lines, so that case is reported through `tail`
        if nn = "1" then { lines := [], err := none, tail := text } else { lines := [text], err := none }
  | _ => { lines := [], err := none }

/-- A line whose content the model does not predict (a random colour, a distance). -/
def unpredicted : String := "?"

/-- `RandomCommand`: `args = [number]` (the strategy is validated by clap): `number` lines. -/
def runRandom (args : List String) : Outcome :=
  match args with
  | [n] =>
    match parseUsize n.toList with
    | none => fail (.couldNotParseNumber n)
    | some count => { lines := List.replicate count unpredicted, err := none }
  | _ => { lines := [], err := none }

/-- `DistinctCommand` up to the optimiser: `args = [number, print-minimal-distance]`, `fixed` are
the fixed colours. The count is validated, the fixed colours are read in order, their number is
compared with the count; then `number` colours are printed (or one distance). -/
def runDistinct (args : List String) (fixed : List String) (stdin : List StdinLine) : Outcome :=
  match args with
  | [n, pmd] =>
    match parseUsize n.toList with
    | none => fail (.couldNotParseNumber n)
    | some count =>
      if count < 2 then fail .distinctCount
      else
        match collectArgs fixed stdin with
        | .error e => fail e
        | .ok cs =>
          if cs.length > count then fail .distinctFixed
          else { lines := List.replicate (if pmd = "1" then 1 else count) unpredicted, err := none }
  | _ => { lines := [], err := none }

/-- `PickCommand` where no colour picker is installed: `args = [count]`. -/
def runPick (args : List String) : Outcome :=
  match args with
  | [n] =>
    match parseUsize n.toList with
    | none => fail (.couldNotParseNumber n)
    | some count => if count = 0 then { lines := [], err := none } else fail .noColorPickerFound
  | _ => { lines := [], err := none }

/-- The whole run of a modelled subcommand: colours from the arguments if there are any,
otherwise from stdin (which is a pipe). -/
def run (sub : String) (args : List String) (colors : List String) (stdin : List StdinLine) : Outcome :=
  if sub = "mix" then runMix args colors stdin
  else if sub = "gray" then runGray args
  else if sub = "gradient" then runGradient args colors stdin
  else if sub = "sort-by" then runSort args colors stdin
  else if sub = "paint" then runPaint args colors stdin
  else if sub = "random" then runRandom args
  else if sub = "distinct" then runDistinct args colors stdin
  else if sub = "pick" then runPick args
  else if colors.isEmpty then loopStdin (commandBody sub args) stdin
  else loopArgs (commandBody sub args) colors stdin

/-- The bytes a reader sees that closes stdout after `budget` bytes: a prefix. -/
def observed (o : Outcome) (budget : Nat) : List Char :=
  (o.lines.flatMap fun l => l.toList ++ ['\n']).take budget

end Cli
end Pastel
