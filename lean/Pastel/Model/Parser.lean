/-
Model of `src/parser.rs`: nom's combinators specialised to what pastel uses,
over `List Char`, with nom's three outcomes (`Ok`, `Err::Error`, `Err::Failure`).
Numbers are kept exact (`Num`) until the arithmetic of each notation.
-/
import Pastel.FloatFns
import Pastel.Model.Color
import Pastel.Model.Named

namespace Pastel
namespace P

/-- nom's `IResult`: `Error` is recoverable (`alt`, `opt` try something else), `Failure`
(produced by `cut`) aborts every enclosing `alt`/`opt`. -/
inductive PR (β : Type) where
  | ok (rest : List Char) (v : β)
  | err
  | fail

def PR.bind {β γ : Type} (r : PR β) (f : List Char → β → PR γ) : PR γ :=
  match r with
  | .ok rest v => f rest v
  | .err => .err
  | .fail => .fail

/-- An exactly represented number as written. -/
inductive Num where
  | dec (neg : Bool) (mant : Nat) (exp10 : Int)
  | nan
  | inf
deriving Repr

def isDigit (c : Char) : Bool := '0' ≤ c && c ≤ '9'
def isHexDigit (c : Char) : Bool := isDigit c || ('a' ≤ c && c ≤ 'f') || ('A' ≤ c && c ≤ 'F')
def isAlpha (c : Char) : Bool := ('a' ≤ c && c ≤ 'z') || ('A' ≤ c && c ≤ 'Z')
def isBlank (c : Char) : Bool := c = ' ' || c = '\t'

/-- Rust's `char::is_whitespace` (Unicode `White_Space`), used by `str::trim`. -/
def isWhitespace (c : Char) : Bool :=
  let n := c.toNat
  (9 ≤ n && n ≤ 13) || n = 32 || n = 0x85 || n = 0xA0 || n = 0x1680 ||
  (0x2000 ≤ n && n ≤ 0x200A) || n = 0x2028 || n = 0x2029 || n = 0x202F || n = 0x205F || n = 0x3000

def trimStart (s : List Char) : List Char := s.dropWhile isWhitespace
def trim (s : List Char) : List Char := (trimStart (trimStart s).reverse).reverse

def span (p : Char → Bool) (s : List Char) : List Char × List Char := (s.takeWhile p, s.dropWhile p)

/-- `digit1`, `hex_digit1`, `alpha1`, `space1`: at least one character of the class. -/
def many1 (p : Char → Bool) (s : List Char) : PR (List Char) :=
  let (t, r) := span p s
  if t.isEmpty then .err else .ok r t

/-- `space0`. -/
def space0 (s : List Char) : List Char := s.dropWhile isBlank

def char (c : Char) (s : List Char) : PR Unit :=
  match s with
  | x :: rest => if x = c then .ok rest () else .err
  | [] => .err

/-- `tag` (case-sensitive, ASCII tags). -/
def tag (t : List Char) (s : List Char) : PR Unit :=
  if t.isPrefixOf s then .ok (s.drop t.length) () else .err

/-- The folding `tag_no_case` performs per character: Unicode `to_lowercase` equals the ASCII
letter only for the letter itself, its upper case, and U+212A KELVIN SIGN for `k`. -/
def lowerMatches (tagChar inputChar : Char) : Bool :=
  let lower := if 'A' ≤ inputChar && inputChar ≤ 'Z' then Char.ofNat (inputChar.toNat + 32) else inputChar
  lower = tagChar || (tagChar = 'k' && inputChar.toNat = 0x212A)

/-- Drop `n` UTF-8 bytes; `none` if that is not a character boundary (where Rust would panic). -/
def dropBytes : Nat → List Char → Option (List Char)
  | 0, s => some s
  | _ + 1, [] => none
  | n + 1, c :: rest => if c.utf8Size ≤ n + 1 then dropBytes (n + 1 - c.utf8Size) rest else none

/-- `tag_no_case` on `&str` (nom 7.1.3): characters are compared pairwise for as long as both
strings last, the input must have at least as many *bytes* as the tag, and the tag's *byte*
length is split off. `t` is a lower-case ASCII tag. -/
def tagNoCase (t : List Char) (s : List Char) : PR Unit :=
  let pairsOk := (s.zip t).all (fun (a, b) => lowerMatches b a)
  let bytes := (s.map Char.utf8Size).sum
  if pairsOk && bytes ≥ t.length then
    match dropBytes t.length s with
    | some rest => .ok rest ()
    | none => .fail   -- a panic in the implementation; never reached (see C01 theorems)
  else .err

def digitsToNat (ds : List Char) : Nat := ds.foldl (fun acc c => acc * 10 + (c.toNat - '0'.toNat)) 0

/-- `recognize_float` followed by Rust's `str::parse::<f64>` kept exact. -/
def recognizeFloat (s0 : List Char) : PR Num :=
  -- optional sign
  let (neg, s) : Bool × List Char := match s0 with
    | '+' :: r => (false, r)
    | '-' :: r => (true, r)
    | _ => (false, s0)
  -- alt(( (digit1, opt(('.', opt(digit1)))), ('.', digit1) ))
  let body : PR (List Char × List Char) :=
    match many1 isDigit s with
    | .ok r intDs =>
      match r with
      | '.' :: r2 =>
        let (fr, r3) := span isDigit r2
        .ok r3 (intDs, fr)
      | _ => .ok r (intDs, [])
    | _ =>
      match s with
      | '.' :: r2 =>
        match many1 isDigit r2 with
        | .ok r3 fr => .ok r3 ([], fr)
        | _ => .err
      | _ => .err
  match body with
  | .ok r (intDs, fr) =>
    let mant := digitsToNat (intDs ++ fr)
    let fracLen : Int := fr.length
    -- opt(( alt('e','E'), opt(sign), cut(digit1) ))
    match r with
    | e :: r2 =>
      if e = 'e' || e = 'E' then
        let (eneg, r3) : Bool × List Char := match r2 with
          | '+' :: q => (false, q)
          | '-' :: q => (true, q)
          | _ => (false, r2)
        match many1 isDigit r3 with
        | .ok r4 eds =>
          let ev : Int := digitsToNat eds
          .ok r4 (.dec neg mant ((if eneg then -ev else ev) - fracLen))
        | _ => .fail     -- `cut`
      else .ok r (.dec neg mant (-fracLen))
    | [] => .ok r (.dec neg mant (-fracLen))
  | .err => .err
  | .fail => .fail

/-- nom's `double`: `recognize_float`, or case-insensitively `nan`, `inf`, `infinity` (in this
order, so `infinity` is read as `inf` followed by `inity`). -/
def double (s : List Char) : PR Num :=
  match recognizeFloat s with
  | .ok r v => .ok r v
  | .fail => .fail
  | .err =>
    match tagNoCase "nan".toList s with
    | .ok r _ => .ok r .nan
    | .fail => .fail
    | .err =>
      match tagNoCase "inf".toList s with
      | .ok r _ => .ok r .inf
      | .fail => .fail
      | .err =>
        match tagNoCase "infinity".toList s with
        | .ok r _ => .ok r .inf
        | .fail => .fail
        | .err => .err

/-- Number of decimal digits of a positive natural. -/
def numDigits (n : Nat) : Nat := (toString n).length

/-- Rust `str::parse::<f64>` of the recognised text: correctly rounded. Decimal exponents far
outside the `f64` range are decided without computing astronomically large powers. -/
def Num.toFloat : Num → Float
  | .nan => F.nan
  | .inf => F.inf
  | .dec neg mant e =>
    let mag : Float :=
      if mant = 0 then 0.0
      else
        let top : Int := (numDigits mant : Int) + e
        if top > 320 then F.inf
        else if top < -340 then 0.0
        else if e ≥ 0 then OfScientific.ofScientific (mant * 10 ^ e.toNat) false 0
        else OfScientific.ofScientific mant true (-e).toNat
    if neg then -mag else mag

def pi : Float := 3.14159265358979323846264338327950288

/-- `comma_separated` / `parse_separator`. -/
def separator (s : List Char) : PR Unit :=
  -- alt((comma_separated, space1))
  let s1 := space0 s
  match char ',' s1 with
  | .ok r _ => .ok (space0 r) ()
  | _ =>
    match many1 isBlank s with
    | .ok r _ => .ok r ()
    | _ => .err

/-- `parse_percentage`: `double` then `%`; value `/ 100`. -/
def percentage (s : List Char) : PR Float :=
  (double s).bind fun r v =>
    match char '%' r with
    | .ok r2 _ => .ok r2 (v.toFloat / 100.0)
    | _ => .err

/-- `parse_angle`: `alt((turns, grads, rads, degrees))`; each alternative re-parses the number. -/
def angle (s : List Char) : PR Float :=
  match double s with
  | .fail => .fail
  | .err => .err      -- every alternative starts with `double`
  | .ok r v =>
    let x := v.toFloat
    match tag "turn".toList r with
    | .ok r2 _ => .ok r2 (Sc.fmod x 1.0 * 360.0)      -- reduced to one turn first (949bf79)
    | _ =>
      match tag "grad".toList r with
      | .ok r2 _ => .ok r2 (Sc.fmod x 400.0 * 360.0 / 400.0)
      | _ =>
        match tag "rad".toList r with
        | .ok r2 _ => .ok r2 (x * 180.0 / pi)
        | _ =>
          -- parse_degrees: alt((tag("°"), tag("deg"), tag("")))
          match tag "°".toList r with
          | .ok r2 _ => .ok r2 x
          | _ =>
            match tag "deg".toList r with
            | .ok r2 _ => .ok r2 x
            | _ => .ok r x

/-- `alt((parse_percentage, double))` as used for alpha and gray. -/
def percentageOrNumber (s : List Char) : PR Float :=
  match percentage s with
  | .ok r v => .ok r v
  | .fail => .fail
  | .err =>
    match double s with
    | .ok r v => .ok r v.toFloat
    | .fail => .fail
    | .err => .err

/-- `parse_alpha`: `opt(separator, alt((percentage, double)))`, default `1.0`. -/
def alpha (s : List Char) : PR Float :=
  let inner : PR Float := (separator s).bind fun r _ => percentageOrNumber r
  match inner with
  | .ok r v => .ok r v
  | .fail => .fail
  | .err => .ok s 1.0

def hexVal (c : Char) : Nat :=
  if isDigit c then c.toNat - '0'.toNat
  else if 'a' ≤ c && c ≤ 'f' then c.toNat - 'a'.toNat + 10
  else c.toNat - 'A'.toNat + 10

abbrev Col := Color Float

/-- The length dispatch of `parse_hex` on the digit values. -/
def hexBody (v : List Nat) : Option Col :=
  match v with
  | [a, b, c, d, e, f] => some (fromRgba8 (UInt8.ofNat (a * 16 + b)) (UInt8.ofNat (c * 16 + d)) (UInt8.ofNat (e * 16 + f)) 1.0)
  | [a, b, c] => some (fromRgba8 (UInt8.ofNat (a * 17)) (UInt8.ofNat (b * 17)) (UInt8.ofNat (c * 17)) 1.0)
  | [a, b, c, d, e, f, g, h] =>
    some (fromRgba8 (UInt8.ofNat (a * 16 + b)) (UInt8.ofNat (c * 16 + d)) (UInt8.ofNat (e * 16 + f))
      (Float.ofNat (g * 16 + h) / 255.0))
  | [a, b, c, d] =>
    some (fromRgba8 (UInt8.ofNat (a * 17)) (UInt8.ofNat (b * 17)) (UInt8.ofNat (c * 17)) (Float.ofNat (d * 17) / 255.0))
  | _ => none

/-- `opt(char('#'))`. -/
def stripHash (s : List Char) : List Char := match s with | '#' :: r => r | _ => s

/-- `parse_hex`. -/
def parseHex (s : List Char) : PR Col :=
  match many1 isHexDigit (stripHash s) with
  | .ok r ds =>
    match hexBody (ds.map hexVal) with
    | some c => .ok r c
    | none => .err
  | _ => .err

/-- The shared shape of the functional notations: three components with separators, optional
alpha, optional blanks, closing parenthesis (optional for the bare RGB triples). -/
def three (c1 c2 c3 : List Char → PR Float) (closing : Bool) (s : List Char) :
    PR (Float × Float × Float × Float) :=
  (c1 (space0 s)).bind fun r a =>
  (separator r).bind fun r _ =>
  (c2 r).bind fun r b =>
  (separator r).bind fun r _ =>
  (c3 r).bind fun r c =>
  (alpha r).bind fun r al =>
    let r := space0 r
    if closing then
      match char ')' r with
      | .ok r2 _ => .ok r2 (a, b, c, al)
      | _ => .err
    else .ok r (a, b, c, al)

def number (s : List Char) : PR Float := (double s).bind fun r v => .ok r v.toFloat

/-- `opt(alt((tag("rgb("), tag("rgba("))))`. -/
def rgbPrefix (s : List Char) : Bool × List Char :=
  match tag "rgb(".toList s with
  | .ok r _ => (true, r)
  | _ =>
    match tag "rgba(".toList s with
    | .ok r _ => (true, r)
    | _ => (false, s)

/-- `parse_numeric_rgb`. -/
def parseNumericRgb (s : List Char) : PR Col :=
  let (pre, r) := rgbPrefix s
  (three number number number pre r).bind fun r (a, b, c, al) =>
    .ok r (fromRgbaFloat (a / 255.0) (b / 255.0) (c / 255.0) al)

/-- `parse_percentage_rgb`. -/
def parsePercentageRgb (s : List Char) : PR Col :=
  let (pre, r) := rgbPrefix s
  (three percentage percentage percentage pre r).bind fun r (a, b, c, al) =>
    .ok r (fromRgbaFloat a b c al)

def tag2 (t1 t2 : String) (s : List Char) : PR Unit :=
  match tag t1.toList s with
  | .ok r _ => .ok r ()
  | _ => tag t2.toList s

/-- `parse_hsl`. -/
def parseHsl (s : List Char) : PR Col :=
  (tag2 "hsl(" "hsla(" s).bind fun r _ =>
  (three angle percentage percentage true r).bind fun r (h, sa, l, al) => .ok r (fromHsla h sa l al)

/-- `parse_hsv`. -/
def parseHsv (s : List Char) : PR Col :=
  (tag2 "hsv(" "hsva(" s).bind fun r _ =>
  (three angle percentage percentage true r).bind fun r (h, sa, v, al) => .ok r (fromHsva h sa v al)

/-- `parse_gray`. -/
def parseGray (s : List Char) : PR Col :=
  (tag "gray(".toList s).bind fun r _ =>
  (percentageOrNumber (space0 r)).bind fun r g =>
    if 0.0 ≤ g then
      match char ')' (space0 r) with
      | .ok r2 _ => .ok r2 (fromRgbaFloat g g g 1.0)
      | _ => .err
    else .err      -- `verify(.., |&d| d >= 0.)`

/-- `opt(tag_no_case("cie"))`. -/
def optCie (s : List Char) : PR (List Char) :=
  match tagNoCase "cie".toList s with
  | .ok r _ => .ok r r
  | .fail => .fail
  | .err => .ok s s

/-- `parse_lab`. -/
def parseLab (s : List Char) : PR Col :=
  (optCie s).bind fun r _ =>
  (tagNoCase "lab(".toList r).bind fun r _ =>
  (three number number number true r).bind fun r (l, a, b, al) => .ok r (fromLab l a b al)

/-- `parse_oklab`. -/
def parseOklab (s : List Char) : PR Col :=
  (tagNoCase "oklab(".toList s).bind fun r _ =>
  (three number number number true r).bind fun r (l, a, b, al) => .ok r (fromOklab l a b al)

/-- `parse_lch`. -/
def parseLch (s : List Char) : PR Col :=
  (optCie s).bind fun r _ =>
  (tagNoCase "lch(".toList r).bind fun r _ =>
  (three number number angle true r).bind fun r (l, c, h, al) => .ok r (fromLch l c h al)

def toLowerAscii (c : Char) : Char := if 'A' ≤ c && c ≤ 'Z' then Char.ofNat (c.toNat + 32) else c

/-- `parse_named`: `all_consuming(alpha1)`, then a lookup of the lower-cased word. -/
def parseNamed (table : List (String × Nat × Nat × Nat)) (s : List Char) : PR Col :=
  match many1 isAlpha s with
  | .ok [] word =>
    let w := String.ofList (word.map toLowerAscii)
    match table.find? (fun e => e.1 = w) with
    | some e => .ok [] (fromRgba8 (UInt8.ofNat e.2.1) (UInt8.ofNat e.2.2.1) (UInt8.ofNat e.2.2.2) 1.0)
    | none => .err
  | _ => .err

/-- `all_consuming`. -/
def allConsuming (p : List Char → PR Col) (s : List Char) : PR Col :=
  match p s with
  | .ok [] v => .ok [] v
  | .ok _ _ => .err
  | .err => .err
  | .fail => .fail

/-- `alt` over a list of parsers: the first `Ok` wins, a `Failure` aborts. -/
def altList (ps : List (List Char → PR Col)) (s : List Char) : PR Col :=
  match ps with
  | [] => .err
  | p :: rest =>
    match p s with
    | .ok r v => .ok r v
    | .fail => .fail
    | .err => altList rest s

/-- `parse_color` (parser.rs:258): `None` on `Error` and on `Failure`. -/
def parseColorWith (table : List (String × Nat × Nat × Nat)) (input : List Char) : Option Col :=
  match altList [allConsuming parseHex, allConsuming parseNumericRgb, allConsuming parsePercentageRgb,
      allConsuming parseHsl, allConsuming parseHsv, allConsuming parseGray, allConsuming parseLab,
      allConsuming parseOklab, allConsuming parseLch, allConsuming (parseNamed table)] (trim input) with
  | .ok _ c => some c
  | _ => none

def parseColor (input : List Char) : Option Col := parseColorWith cssNamed input

end P
end Pastel
