/-
Model of the textual formatters (`src/lib.rs: to_*_string`, `src/helper.rs:
MaxPrecision`, the per-property read-outs of `src/cli/commands/format.rs`).

Rust's `{:.N}` prints the exact binary value rounded half-to-even to `N`
decimals; `{}` prints the shortest decimal that parses back to the same
`f64`.  Both are implemented here with exact integer arithmetic on the bit
pattern.
-/
import Pastel.FloatFns
import Pastel.Model.Color
import Pastel.Model.Ansi

namespace Pastel
namespace Fmt

def natDigits (n : Nat) : String := toString n

/-- Insert a decimal point `prec` digits from the right of the digit string of `q`. -/
def placePoint (q : Nat) (prec : Nat) : String :=
  let ds := natDigits q
  if prec = 0 then ds
  else
    let ds := if ds.length ≤ prec then String.ofList (List.replicate (prec + 1 - ds.length) '0') ++ ds else ds
    let cs := ds.toList
    String.ofList (cs.take (cs.length - prec)) ++ "." ++ String.ofList (cs.drop (cs.length - prec))

/-- `round_half_even(m * 2^e * 10^prec)` for a finite value `m * 2^e`. -/
def scaledRound (m : Nat) (e : Int) (prec : Nat) : Nat :=
  let num := m * 10 ^ prec
  if e ≥ 0 then num * 2 ^ e.toNat
  else
    let den := 2 ^ (-e).toNat
    let q := num / den
    let r := num % den
    if 2 * r > den then q + 1
    else if 2 * r < den then q
    else if q % 2 = 0 then q else q + 1

/-- Rust `format!("{:.prec}", x)`. -/
def fixed (x : Float) (prec : Nat) : String :=
  if x.isNaN then "NaN"
  else if x.isInf then (if F.signBit x then "-inf" else "inf")
  else
    let (neg, m, e) := F.decode x
    (if neg then "-" else "") ++ placePoint (scaledRound m e prec) prec

/-- `p` significant digits of a positive finite value `m * 2^e`, correctly rounded (half-even):
returns the digit value `d` and the decimal exponent `k` with `value ≈ d * 10^k`, `d` having
exactly `p` digits (or `p+1` after a carry, normalised by the caller). -/
def sigDigits (m : Nat) (e : Int) (p : Nat) : Nat × Int :=
  -- estimate the decimal exponent of the leading digit
  let bits : Int := (Nat.log2 m : Int) + e            -- value in [2^bits, 2^(bits+1))
  let est : Int := (bits * 30103) / 100000             -- floor(bits * log10 2) approximately
  let try_ (k10 : Int) : Nat :=                          -- round(value / 10^(k10))
    -- value / 10^k10 = m * 2^e / 10^k10
    let (num, den) : Nat × Nat :=
      let n0 := m
      let d0 := 1
      let (n1, d1) := if e ≥ 0 then (n0 * 2 ^ e.toNat, d0) else (n0, d0 * 2 ^ (-e).toNat)
      if k10 ≥ 0 then (n1, d1 * 10 ^ k10.toNat) else (n1 * 10 ^ (-k10).toNat, d1)
    let q := num / den
    let r := num % den
    if 2 * r > den then q + 1 else if 2 * r < den then q else if q % 2 = 0 then q else q + 1
  -- choose k so that the rounded value has p digits
  let k0 := est - (p : Int) + 1
  let d0 := try_ k0
  if d0 ≥ 10 ^ p then
    let d1 := try_ (k0 + 1)
    (d1, k0 + 1)
  else if d0 < 10 ^ (p - 1) then
    let d1 := try_ (k0 - 1)
    if d1 ≥ 10 ^ p then (d1 / 10, k0) else (d1, k0 - 1)
  else (d0, k0)

/-- The exact float nearest to `d * 10^k` (correctly rounded, as `str::parse::<f64>`). -/
def ofDecimal (d : Nat) (k : Int) : Float :=
  if k ≥ 0 then OfScientific.ofScientific (d * 10 ^ k.toNat) false 0
  else OfScientific.ofScientific d true (-k).toNat

/-- Strip trailing zeros of the digit value (at most `fuel` of them; callers pass more than
any `f64` digit string can have). -/
def stripZerosFuel : Nat → Nat → Int → Nat × Int
  | 0, d, k => (d, k)
  | fuel + 1, d, k => if d ≠ 0 ∧ d % 10 = 0 then stripZerosFuel fuel (d / 10) (k + 1) else (d, k)

def stripZeros (d : Nat) (k : Int) : Nat × Int := stripZerosFuel 400 d k

/-- Plain decimal rendering of `d * 10^k` (no exponent, as Rust's `Display`). -/
def plainDecimal (d : Nat) (k : Int) : String :=
  if k ≥ 0 then natDigits d ++ String.ofList (List.replicate k.toNat '0')
  else placePoint d (-k).toNat

/-- Rust `format!("{}", x)` for `f64`: the shortest decimal that round-trips. -/
def shortest (x : Float) : String :=
  if x.isNaN then "NaN"
  else if x.isInf then (if F.signBit x then "-inf" else "inf")
  else
    let (neg, m, e) := F.decode x
    let sign := if neg then "-" else ""
    if m = 0 then sign ++ "0"
    else
      let ax := x.abs
      let rec go (fuel p : Nat) : String :=
        match fuel with
        | 0 => placePoint (scaledRound m e 0) 0
        | fuel + 1 =>
          let (d, k) := sigDigits m e p
          if ofDecimal d k == ax then
            let (d, k) := stripZeros d k
            plainDecimal d k
          else go fuel (p + 1)
      sign ++ go 17 1

/-- `MaxPrecision::wrap(precision, inner)` displayed (helper.rs:75). -/
def maxPrecision (precision : Nat) (inner : Float) : String :=
  let pow10 : Float := Float.ofNat (10 ^ precision)
  let rounded := F.round (inner * pow10) / pow10
  shortest rounded

def sp (spaces : Bool) : String := if spaces then " " else ""

/-- The optional alpha suffix `",{space}{alpha}"`. -/
def alphaSuffix (spaces : Bool) (alpha : Float) : String :=
  "," ++ sp spaces ++ maxPrecision 3 alpha

/-- `to_hsl_string` (lib.rs:171). -/
def hslString (c : Color Float) (spaces : Bool) : String :=
  let (aPrefix, a) := if c.alpha == 1.0 then ("", "") else ("a", alphaSuffix spaces c.alpha)
  "hsl" ++ aPrefix ++ "(" ++ fixed (hueValue c.hue) 0 ++ "," ++ sp spaces ++ fixed (100.0 * c.sat) 1 ++ "%," ++
    sp spaces ++ fixed (100.0 * c.light) 1 ++ "%" ++ a ++ ")"

/-- `to_hsv_string` (lib.rs:205). -/
def hsvString (c : Color Float) (spaces : Bool) : String :=
  let q := toHsva c
  let (aPrefix, a) := if q.alpha == 1.0 then ("", "") else ("a", alphaSuffix spaces q.alpha)
  "hsv" ++ aPrefix ++ "(" ++ fixed q.x 0 ++ "," ++ sp spaces ++ fixed (100.0 * q.y) 1 ++ "%," ++
    sp spaces ++ fixed (100.0 * q.z) 1 ++ "%" ++ a ++ ")"

/-- `to_rgb_string` (lib.rs:239). -/
def rgbString (c : Color Float) (spaces : Bool) : String :=
  let q := toRgba8 c
  let (aPrefix, a) := if c.alpha == 1.0 then ("", "") else ("a", alphaSuffix spaces q.alpha)
  "rgb" ++ aPrefix ++ "(" ++ toString q.r.toNat ++ "," ++ sp spaces ++ toString q.g.toNat ++ "," ++
    sp spaces ++ toString q.b.toNat ++ a ++ ")"

/-- `to_rgb_float_string` (lib.rs:286). -/
def rgbFloatString (c : Color Float) (spaces : Bool) : String :=
  let q := toRgbaFloat c
  let (aPrefix, a) := if c.alpha == 1.0 then ("", "") else ("a", alphaSuffix spaces q.alpha)
  "rgb" ++ aPrefix ++ "(" ++ fixed q.x 3 ++ "," ++ sp spaces ++ fixed q.y 3 ++ "," ++
    sp spaces ++ fixed q.z 3 ++ a ++ ")"

def hexDigit (n : Nat) : Char :=
  if n < 10 then Char.ofNat ('0'.toNat + n) else Char.ofNat ('a'.toNat + n - 10)

/-- `{:02x}` of a byte. -/
def hex2 (n : Nat) : String :=
  String.ofList [hexDigit (n / 16 % 16), hexDigit (n % 16)]

/-- `to_rgb_hex_string` (lib.rs:314). -/
def hexString (c : Color Float) (leadingHash : Bool) : String :=
  let q := toRgba8 c
  (if leadingHash then "#" else "") ++ hex2 q.r.toNat ++ hex2 q.g.toNat ++ hex2 q.b.toNat ++
    (if q.alpha == 1.0 then "" else hex2 (F.round (q.alpha * 255.0)).toUInt8.toNat)

/-- `to_lab_string` (lib.rs:378). -/
def labString (c : Color Float) (spaces : Bool) : String :=
  let q := toLab c
  "Lab(" ++ fixed q.x 0 ++ "," ++ sp spaces ++ fixed q.y 0 ++ "," ++ sp spaces ++ fixed q.z 0 ++
    (if c.alpha == 1.0 then "" else alphaSuffix spaces c.alpha) ++ ")"

/-- `to_oklab_string` (lib.rs:408). -/
def oklabString (c : Color Float) (spaces : Bool) : String :=
  let q := toOklab c
  "OkLab(" ++ fixed q.x 4 ++ "," ++ sp spaces ++ fixed q.y 4 ++ "," ++ sp spaces ++ fixed q.z 4 ++
    (if c.alpha == 1.0 then "" else alphaSuffix spaces c.alpha) ++ ")"

/-- `to_lch_string` (lib.rs:438). -/
def lchString (c : Color Float) (spaces : Bool) : String :=
  let q := toLch c
  "LCh(" ++ fixed q.x 0 ++ "," ++ sp spaces ++ fixed q.y 0 ++ "," ++ sp spaces ++ fixed q.z 0 ++
    (if c.alpha == 1.0 then "" else alphaSuffix spaces c.alpha) ++ ")"

/-- `to_cmyk_string` (lib.rs:272): the rounded percentages are printed with `{}`. -/
def cmykString (c : Color Float) (spaces : Bool) : String :=
  let q := toCmyk c
  "cmyk(" ++ shortest (F.round (q.c * 100.0)) ++ "," ++ sp spaces ++ shortest (F.round (q.m * 100.0)) ++ "," ++
    sp spaces ++ shortest (F.round (q.y * 100.0)) ++ "," ++ sp spaces ++ shortest (F.round (q.k * 100.0)) ++ ")"

end Fmt
end Pastel
