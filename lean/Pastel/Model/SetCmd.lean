/-
Model of `SetCommand` (src/cli/commands/color_commands.rs) and of the per-property
read-out of `FormatCommand` (src/cli/commands/format.rs).
-/
import Pastel.Model.Color

namespace Pastel
open Sc ScT

/-- The fifteen settable properties. -/
inductive SetProp
  | red | green | blue | hslHue | hslSaturation | hslLightness
  | oklabL | oklabA | oklabB | lightness | labA | labB | hue | chroma | alpha
deriving DecidableEq, Repr

/-- `SetCommand`: read the colour in the matching space, replace one coordinate, rebuild. -/
def setProp {β : Type} [ScT β] (p : SetProp) (v : β) (c : Color β) : Color β :=
  match p with
  | .red => let q := toRgba8 c; fromRgba8 (toU8 (clamp 0 255 v)) q.g q.b q.alpha
  | .green => let q := toRgba8 c; fromRgba8 q.r (toU8 (clamp 0 255 v)) q.b q.alpha
  | .blue => let q := toRgba8 c; fromRgba8 q.r q.g (toU8 (clamp 0 255 v)) q.alpha
  | .hslHue => let q := toHsla c; fromHsla v q.y q.z q.alpha
  | .hslSaturation => let q := toHsla c; fromHsla q.x v q.z q.alpha
  | .hslLightness => let q := toHsla c; fromHsla q.x q.y v q.alpha
  | .oklabL => let q := toOklab c; fromOklab v q.y q.z q.alpha
  | .oklabA => let q := toOklab c; fromOklab q.x v q.z q.alpha
  | .oklabB => let q := toOklab c; fromOklab q.x q.y v q.alpha
  | .lightness => let q := toLab c; fromLab v q.y q.z q.alpha
  | .labA => let q := toLab c; fromLab q.x v q.z q.alpha
  | .labB => let q := toLab c; fromLab q.x q.y v q.alpha
  | .hue => let q := toLch c; fromLch q.x q.y v q.alpha
  | .chroma => let q := toLch c; fromLch q.x v q.z q.alpha
  | .alpha => let q := toHsla c; fromHsla q.x q.y q.z v


def setPropOfString : String → Option SetProp
  | "red" => some .red | "green" => some .green | "blue" => some .blue
  | "hsl-hue" => some .hslHue | "hsl-saturation" => some .hslSaturation
  | "hsl-lightness" => some .hslLightness
  | "oklab-l" => some .oklabL | "oklab-a" => some .oklabA | "oklab-b" => some .oklabB
  | "lightness" => some .lightness | "lab-a" => some .labA | "lab-b" => some .labB
  | "hue" => some .hue | "chroma" => some .chroma | "alpha" => some .alpha
  | _ => none

end Pastel
