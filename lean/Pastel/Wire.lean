/-
Wire format helpers of the line protocol: floats travel as the 16 hex digits
of their bit pattern, bytes as decimals, strings as hex-encoded UTF-8.
-/
import Pastel.FloatFns
import Pastel.Model.Color

namespace Pastel
namespace Wire

def hexVal (c : Char) : Option Nat :=
  if '0' ≤ c ∧ c ≤ '9' then some (c.toNat - '0'.toNat)
  else if 'a' ≤ c ∧ c ≤ 'f' then some (c.toNat - 'a'.toNat + 10)
  else if 'A' ≤ c ∧ c ≤ 'F' then some (c.toNat - 'A'.toNat + 10)
  else none

def parseHexNat (s : String) : Option Nat :=
  if s.isEmpty then none else
  s.foldl (fun acc c => match acc, hexVal c with
    | some a, some v => some (a * 16 + v)
    | _, _ => none) (some 0)

def parseF (s : String) : Option Float :=
  if s.length ≠ 16 then none else
  (parseHexNat s).map fun n => Float.ofBits (UInt64.ofNat n)

def hexDigit (n : Nat) : Char :=
  if n < 10 then Char.ofNat ('0'.toNat + n) else Char.ofNat ('a'.toNat + n - 10)

def hexOfNat (n width : Nat) : String :=
  String.ofList ((List.range width).reverse.map fun i => hexDigit ((n >>> (4 * i)) % 16))

def showF (x : Float) : String := hexOfNat x.toBits.toNat 16

def parseB (s : String) : Option UInt8 :=
  match s.toNat? with
  | some n => if n < 256 then some (UInt8.ofNat n) else none
  | none => none

/-- Hex-encoded UTF-8 (`-` is the empty string) to bytes. -/
def parseBytes (s : String) : Option (List UInt8) :=
  if s = "-" then some [] else
  let cs := s.toList
  let rec go : List Char → List UInt8 → Option (List UInt8)
    | [], acc => some acc.reverse
    | [_], _ => none
    | a :: b :: rest, acc =>
      match hexVal a, hexVal b with
      | some x, some y => go rest (UInt8.ofNat (x * 16 + y) :: acc)
      | _, _ => none
  go cs []

def showBytes (bs : List UInt8) : String :=
  if bs.isEmpty then "-" else
  String.ofList (bs.flatMap fun b => [hexDigit (b.toNat / 16), hexDigit (b.toNat % 16)])

def parseStr (s : String) : Option String :=
  (parseBytes s).bind fun bs => String.fromUTF8? (ByteArray.mk bs.toArray)

def showStr (s : String) : String := showBytes s.toUTF8.toList

/-- A colour on the wire, inbound: the four arguments of `from_hsla`. -/
def parseC : List String → Option (Color Float × List String)
  | h :: s :: l :: a :: rest => do
    let h ← parseF h; let s ← parseF s; let l ← parseF l; let a ← parseF a
    pure (fromHsla h s l a, rest)
  | _ => none

/-- A colour on the wire, outbound: `to_hsla()` then the 8-bit channels. -/
def showC (c : Color Float) : String :=
  let q := toHsla c
  let r := toRgba8 c
  s!"{showF q.x} {showF q.y} {showF q.z} {showF q.alpha} {r.r.toNat} {r.g.toNat} {r.b.toNat}"

def showQ (q : Quad Float) : String :=
  s!"{showF q.x} {showF q.y} {showF q.z} {showF q.alpha}"

def parse4F : List String → Option (Float × Float × Float × Float × List String)
  | a :: b :: c :: d :: rest => do
    let a ← parseF a; let b ← parseF b; let c ← parseF c; let d ← parseF d
    pure (a, b, c, d, rest)
  | _ => none

end Wire
end Pastel
