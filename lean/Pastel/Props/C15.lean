/-
C15 — nearest-neighbour bookkeeping (property theorems; order-only).

Helper lemmas live in `Pastel/Lemmas/Distinct.lean`.
-/
import Pastel.Lemmas.Distinct

namespace Pastel.C15
open Pastel

variable {D : Type} [Sc D]

/-- The table keeps one entry per colour through `update_distances`, for every history. -/
theorem updateDistances_length (big : D) (dist : Nat → Nat → D) (n color : Nat) (changed : Bool)
    (t : List (Entry D)) : (updateDistances big dist n color changed t).length = t.length :=
  Pastel.updateDistances_length big dist n color changed t

/-- `DistanceResult::new` builds a table with exactly `n` entries. -/
theorem drNew_length (big : D) (dist : Nat → Nat → D) (n k : Nat) :
    (drNew big dist n k).closest.length = n :=
  Pastel.drNew_length big dist n k

/-- `DistanceResult::update` keeps the table length and the number of fixed colours. -/
theorem drUpdate_length (big : D) (dist : Nat → Nat → D) (n : Nat) (r : DistanceResult D) (c : Nat) :
    (drUpdate big dist n r c).closest.length = r.closest.length ∧
    (drUpdate big dist n r c).numFixed = r.numFixed :=
  ⟨Pastel.updateDistances_length big dist n c true r.closest, rfl⟩

/-- Over any history of single-colour changes the table has one entry per colour. -/
theorem history_length (big : D) (n : Nat) :
    ∀ (hist : List ((Nat → Nat → D) × Nat)) (r : DistanceResult D), r.closest.length = n →
      (hist.foldl (fun r (dc : (Nat → Nat → D) × Nat) => drUpdate big dc.1 n r dc.2) r).closest.length = n := by
  intro hist
  induction hist with
  | nil => intro r h; exact h
  | cons dc ds ih =>
    intro r h
    simp only [List.foldl_cons]
    apply ih
    rw [(drUpdate_length big dc.1 n r dc.2).1, h]

end Pastel.C15
