/-
C15 — nearest-neighbour bookkeeping (property theorems; order-only).

The distance is an arbitrary function `dist : Nat → Nat → D` on colour indices that is
symmetric, never NaN and bounded by the sentinel (`DistOk`); nothing else about colour science
is used, and `D` is any scalar type with the IEEE-like order laws (`ScOrd`) — in particular
`Float` (instance proved from `Float.Model`).  Ties and duplicates are covered: `Good` only asks
that *a* minimiser be recorded.

Helper lemmas live in `Pastel/Lemmas/Distinct*.lean` (the loop invariant of one pass of
`update_distances` is `scan_spec`).
-/
import Pastel.Lemmas.Distinct
import Pastel.Lemmas.DistinctExact
import Pastel.Lemmas.DistinctTotals

namespace Pastel.C15
open Pastel Sc ScOrd

variable {D : Type} [Sc D]

/-- The table keeps one entry per colour through `update_distances`, for every history. -/
theorem updateDistances_length (big : D) (dist : Nat → Nat → D) (n color : Nat) (changed : Bool)
    (t : List (Entry D)) : (updateDistances big dist n color changed t).length = t.length :=
  Pastel.updateDistances_length big dist n color changed t

/-- `DistanceResult::new` builds a table with exactly `n` entries. -/
theorem drNew_length (big : D) (dist : Nat → Nat → D) (n k : Nat) :
    (drNew big dist n k).closest.length = n :=
  Pastel.drNew_length big dist n k

/-- `DistanceResult::update` keeps the table length and the number of fixed colours. -/
theorem drUpdate_length (big : D) (dist : Nat → Nat → D) (n : Nat) (r : DistanceResult D) (c : Nat) :
    (drUpdate big dist n r c).closest.length = r.closest.length ∧
    (drUpdate big dist n r c).numFixed = r.numFixed :=
  ⟨Pastel.updateDistances_length big dist n c true r.closest, rfl⟩

/-- Over any history of single-colour changes the table has one entry per colour. -/
theorem history_length (big : D) (n : Nat) :
    ∀ (hist : List ((Nat → Nat → D) × Nat)) (r : DistanceResult D), r.closest.length = n →
      (hist.foldl (fun r (dc : (Nat → Nat → D) × Nat) => drUpdate big dc.1 n r dc.2) r).closest.length = n := by
  intro hist
  induction hist with
  | nil => intro r h; exact h
  | cons dc ds ih =>
    intro r h
    simp only [List.foldl_cons]
    apply ih
    rw [(drUpdate_length big dc.1 n r dc.2).1, h]

section exactness
variable [ScOrd D]

/-- **`DistanceResult::new` equals recomputation from scratch**: for every colour the recorded
distance is the true minimum distance to any other colour and the recorded neighbour attains it
(at least two colours; with fewer there is no neighbour to record). -/
theorem new_exact (big : D) (dist : Nat → Nat → D) (n k : Nat) (hd : DistOk big dist) (hn : 2 ≤ n) :
    Exact dist n (drNew big dist n k).closest :=
  new_table_exact big dist n hd hn

/-- **One incremental update keeps the table equal to recomputation.** `dist` is the distance
function before colour `c` changed, `dist'` after; they agree on every pair not involving `c`. -/
theorem update_exact (big : D) (dist dist' : Nat → Nat → D) (n c : Nat) (hd' : DistOk big dist')
    (hn : 2 ≤ n) (hc : c < n) (hagree : ∀ i j, i ≠ c → j ≠ c → dist' i j = dist i j)
    (r : DistanceResult D) (hex : Exact dist n r.closest) :
    Exact dist' n (drUpdate big dist' n r c).closest :=
  update_table_exact big dist dist' n c hd' hn hc hagree r.closest hex

/-- A history of single-colour changes: each step names the changed colour and the distance
function afterwards, which agrees with the previous one away from that colour. -/
def Chain (big : D) (n : Nat) : (Nat → Nat → D) → List ((Nat → Nat → D) × Nat) → Prop
  | _, [] => True
  | d, (d', c) :: rest =>
    c < n ∧ DistOk big d' ∧ (∀ i j, i ≠ c → j ≠ c → d' i j = d i j) ∧ Chain big n d' rest

/-- The distance function in force after a history. -/
def lastDist (d : Nat → Nat → D) : List ((Nat → Nat → D) × Nat) → (Nat → Nat → D)
  | [] => d
  | (d', _) :: rest => lastDist d' rest

theorem history_exact_from (big : D) (n : Nat) (hn : 2 ≤ n) :
    ∀ (hist : List ((Nat → Nat → D) × Nat)) (d : Nat → Nat → D) (r : DistanceResult D),
      Exact d n r.closest → Chain big n d hist →
      Exact (lastDist d hist) n
        (hist.foldl (fun r (dc : (Nat → Nat → D) × Nat) => drUpdate big dc.1 n r dc.2) r).closest := by
  intro hist
  induction hist with
  | nil => intro d r h _; exact h
  | cons dc rest ih =>
    intro d r h hch
    obtain ⟨d', c⟩ := dc
    obtain ⟨hc, hd', hag, hrest⟩ := hch
    simp only [List.foldl_cons, lastDist]
    exact ih d' _ (update_exact big d d' n c hd' hn hc hag r h) hrest

/-- **After any history of single-colour changes the incrementally maintained table is the one
obtained by recomputing from scratch** — for every number of fixed colours, with duplicates and
equidistant ties. -/
theorem reachable_exact (big : D) (n k : Nat) (hn : 2 ≤ n) (d0 : Nat → Nat → D) (hd0 : DistOk big d0)
    (hist : List ((Nat → Nat → D) × Nat)) (hch : Chain big n d0 hist) :
    Exact (lastDist d0 hist) n
      (hist.foldl (fun r (dc : (Nat → Nat → D) × Nat) => drUpdate big dc.1 n r dc.2) (drNew big d0 n k)).closest :=
  history_exact_from big n hn hist d0 _ (new_exact big d0 n k hd0 hn) hch

/-- **Aggregates.** The reported minimum distance is a lower bound of every entry among the
colours that are free or whose neighbour is free; if there is such an entry, the reported closest
pair is one of them, attains the minimum (IEEE-equal) and contains at least one free colour. -/
theorem totals_spec (big : D) (k : Nat) (prev : Nat × Nat) (t : List (Entry D)) (hbig : isNaN big = false)
    (hall : ∀ e ∈ t, isNaN e.1 = false ∧ e.1 ≤ big) :
    (∀ j e, t[j]? = some e → Eligible k j e → (updateTotals big k prev t).min ≤ e.1) ∧
    ((∃ j e, t[j]? = some e ∧ Eligible k j e) →
      ∃ j e, t[j]? = some e ∧ Eligible k j e ∧ (updateTotals big k prev t).pair = (j, e.2) ∧
        feq e.1 (updateTotals big k prev t).min = true ∧ (j ≥ k ∨ e.2 ≥ k)) := by
  exact totals_spec_aux big k prev t hbig hall

/-- On an exact table all entries are proper distances, so `totals_spec` applies: the reported
closest pair `(i, j)` is a pair of colours at the reported minimum distance with a free member. -/
theorem exact_totals (big : D) (dist : Nat → Nat → D) (n k : Nat) (prev : Nat × Nat) (hd : DistOk big dist)
    (t : List (Entry D)) (hex : Exact dist n t)
    (helig : ∃ j e, t[j]? = some e ∧ Eligible k j e) :
    ∃ i m, i < n ∧ m < n ∧ m ≠ i ∧ (updateTotals big k prev t).pair = (i, m) ∧
      feq (dist i m) (updateTotals big k prev t).min = true ∧ (i ≥ k ∨ m ≥ k) := by
  exact exact_totals_aux big dist n k prev hd t hex helig

end exactness

section mean
variable {D : Type} [Sc D]

theorem totals_mean_fold (t : List (Entry D)) :
    ∀ (a : Totals D) (i : Nat),
      (t.foldl (totalsStep 0) (a, i)).1.mean = t.foldl (fun s e => s + e.1) a.mean := by
  induction t with
  | nil => intro a i; rfl
  | cons e es ih =>
    intro a i
    simp only [List.foldl_cons]
    have hstep : (totalsStep 0 (a, i) e).1.mean = a.mean + e.1 ∧ ∃ a' i', totalsStep 0 (a, i) e = (a', i') := by
      unfold totalsStep
      simp only [Nat.not_lt_zero, false_and, if_false]
      constructor
      · split <;> rfl
      · exact ⟨_, _, rfl⟩
    obtain ⟨hm, a', i', he⟩ := hstep
    rw [he] at hm ⊢
    rw [ih a' i']
    simp only at hm
    rw [hm]

/-- **Mean clause**: with no fixed colours the reported mean is the sum of all recorded
nearest-neighbour distances (added left to right, from 0) divided by their number — an identity
of the model, hence exact for IEEE floats too. -/
theorem mean_no_fixed (big : D) (prev : Nat × Nat) (t : List (Entry D)) :
    (updateTotals big 0 prev t).mean = (t.foldl (fun s e => s + e.1) 0.0) / Sc.ofNat t.length := by
  unfold updateTotals
  simp only [Nat.sub_zero]
  rw [totals_mean_fold]


end mean

/-- The same for real IEEE binary64 distances (demands `ScOrd Float`, proved from `Float.Model`). -/
theorem float_update_exact (big : Float) (dist dist' : Nat → Nat → Float) (n c : Nat) (hd' : DistOk big dist')
    (hn : 2 ≤ n) (hc : c < n) (hagree : ∀ i j, i ≠ c → j ≠ c → dist' i j = dist i j)
    (r : DistanceResult Float) (hex : Exact dist n r.closest) :
    Exact dist' n (drUpdate big dist' n r c).closest :=
  update_exact big dist dist' n c hd' hn hc hagree r hex

end Pastel.C15
