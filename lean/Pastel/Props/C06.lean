/-
C06 — HSL adjustments change exactly the requested coordinate (property theorems).

Field statements are order-only (`ScOrd`), hence valid for IEEE floats: the
untouched saturation/lightness/alpha of a *valid* colour come back IEEE-equal
(`feq`, i.e. equal up to the sign of a zero) because `clamp` is the identity
on `[0,1]`.  The touched channel is `clamp 0 1 (old + amount)` by definition.
Hue statements at `ℝ`.  Luminance monotonicity under `lighten`/`darken` is
proved at `ℝ` for every valid colour and every non-negative amount
(`lighten_luminance_mono`); the first attempt at that proof exposed the
discontinuous 0.03928 threshold of `luminance` (fixed in e8f6984).
-/
import Pastel.RealInst
import Pastel.Lemmas.Clamp
import Pastel.Props.C05
import Pastel.Model.SetCmd
import Pastel.Lemmas.LightMono
import Pastel.Lemmas.Turns
import Pastel.Lemmas.Hexcone

namespace Pastel.C06
open Pastel Sc ScOrd Pastel.C05

variable {α : Type} [Sc α] [ScOrd α]
set_option linter.unusedSectionVars false

/-- `darken(x)` is `lighten(-x)` and `desaturate(x)` is `saturate(-x)` (definitional). -/
theorem darken_eq_lighten_neg (c : Color α) (x : α) : darken c x = lighten c (-x) := rfl
theorem desaturate_eq_saturate_neg (c : Color α) (x : α) : desaturate c x = saturate c (-x) := rfl

/-- `lighten` adds the amount to the lightness and clamps it to `[0,1]`… -/
theorem lighten_light (c : Color α) (x : α) : (lighten c x).light = clamp 0 1 (c.light + x) := rfl

/-- …and leaves saturation and alpha of a valid colour untouched (IEEE-equal). -/
theorem lighten_others (c : Color α) (x : α) (hc : Valid c) :
    feq (lighten c x).sat c.sat = true ∧ feq (lighten c x).alpha c.alpha = true :=
  ⟨clamp_id hc.sat_range.2.1 hc.sat_range.2.2, clamp_id hc.alpha_range.2.1 hc.alpha_range.2.2⟩

/-- `saturate` adds the amount to the saturation and clamps it to `[0,1]`… -/
theorem saturate_sat (c : Color α) (x : α) : (saturate c x).sat = clamp 0 1 (c.sat + x) := rfl

/-- …and leaves lightness and alpha of a valid colour untouched. -/
theorem saturate_others (c : Color α) (x : α) (hc : Valid c) :
    feq (saturate c x).light c.light = true ∧ feq (saturate c x).alpha c.alpha = true :=
  ⟨clamp_id hc.light_range.2.1 hc.light_range.2.2, clamp_id hc.alpha_range.2.1 hc.alpha_range.2.2⟩

/-- `rotate_hue` leaves saturation, lightness and alpha of a valid colour untouched and stores
`hue.value() + delta` as the new (unclipped) hue whenever that sum is finite. -/
theorem rotate_others (c : Color α) (d : α) (hc : Valid c) :
    feq (rotateHue c d).sat c.sat = true ∧ feq (rotateHue c d).light c.light = true ∧
    feq (rotateHue c d).alpha c.alpha = true :=
  ⟨clamp_id hc.sat_range.2.1 hc.sat_range.2.2, clamp_id hc.light_range.2.1 hc.light_range.2.2,
   clamp_id hc.alpha_range.2.1 hc.alpha_range.2.2⟩

theorem rotate_hue_field (c : Color α) (d : α) (h : isFinite (hueValue c.hue + fmod d 360.0) = true) :
    (rotateHue c d).hue = hueValue c.hue + fmod d 360.0 := by
  simp [rotateHue, fromHsla, hueFrom, h]

/-- `complementary` is `rotate_hue(180)` (definitional). -/
theorem complementary_def (c : Color α) : complementary c = rotateHue c 180.0 := rfl

/-- The same statements for IEEE binary64. -/
theorem float_lighten_others (c : Color Float) (x : Float) (hc : Valid c) :
    ((lighten c x).sat == c.sat) = true ∧ ((lighten c x).alpha == c.alpha) = true :=
  lighten_others c x hc

/-! ### `set` (src/cli/commands/color_commands.rs): a model of the property dispatch -/

/-- Setting an HSL coordinate or alpha stores exactly the clamped value and re-clamps the
others (which is the identity on a valid colour). -/
theorem set_hsl_fields {β : Type} [ScT β] [ScOrd β] (v : β) (c : Color β) (hc : Valid c) :
    (setProp .hslSaturation v c).sat = clamp 0 1 v ∧
    (setProp .hslLightness v c).light = clamp 0 1 v ∧
    (setProp .alpha v c).alpha = clamp 0 1 v ∧
    feq (setProp .hslSaturation v c).light c.light = true ∧
    feq (setProp .hslLightness v c).sat c.sat = true ∧
    feq (setProp .alpha v c).sat c.sat = true ∧ feq (setProp .alpha v c).light c.light = true :=
  ⟨rfl, rfl, rfl, clamp_id hc.light_range.2.1 hc.light_range.2.2,
   clamp_id hc.sat_range.2.1 hc.sat_range.2.2, clamp_id hc.sat_range.2.1 hc.sat_range.2.2,
   clamp_id hc.light_range.2.1 hc.light_range.2.2⟩

/-- Every `set` yields a valid colour, whatever the value (NaN, ±∞ included). -/
theorem set_valid {β : Type} [ScT β] [ScOrd β] (p : SetProp) (v : β) (c : Color β) :
    Valid (setProp p v c) := by
  cases p
  all_goals first
    | exact fromRgba8_valid _ _ _ _
    | exact fromHsla_valid _ _ _ _
    | exact fromOklab_valid _ _ _ _
    | exact fromLab_valid _ _ _ _
    | exact fromLch_valid _ _ _ _

/-! ### Lightening never lowers the WCAG luminance -/

/-- What `Valid` says at `ℝ`, in Mathlib's terms. -/
theorem valid_real (c : Color ℝ) (hc : Valid c) :
    0 ≤ c.sat ∧ c.sat ≤ 1 ∧ 0 ≤ c.light ∧ c.light ≤ 1 := by
  obtain ⟨_, a, b⟩ := hc.sat_range
  obtain ⟨_, d, e⟩ := hc.light_range
  sc_norm
  exact ⟨by simpa using a, by simpa using b, by simpa using d, by simpa using e⟩

/-- **`lighten` by a non-negative amount never lowers the luminance** (every valid colour, every
amount `f ≥ 0`, exact arithmetic). -/
theorem lighten_luminance_mono (c : Color ℝ) (hc : Valid c) (f : ℝ) (hf : 0 ≤ f) :
    luminance c ≤ luminance (lighten c f) := by
  obtain ⟨s0, s1, l0, l1⟩ := valid_real c hc
  apply luminance_mono_light
  · show hueValue c.hue = hueValue (hueFrom (hueValue c.hue))
    have : hueFrom (hueValue c.hue) = hueValue c.hue := by unfold hueFrom; simp
    rw [this, real_hueValue_idem]
  · simp only [lighten, fromHsla, clamp]; sc_norm; push_cast
    rw [min_eq_right s1, max_eq_left s0]
  · exact s0
  · exact s1
  · simp only [lighten, fromHsla, clamp]; sc_norm; push_cast
    apply le_max_of_le_left
    apply le_min l1
    linarith

/-- **`darken` by a non-negative amount never raises it.** -/
theorem darken_luminance_mono (c : Color ℝ) (hc : Valid c) (f : ℝ) (hf : 0 ≤ f) :
    luminance (darken c f) ≤ luminance c := by
  obtain ⟨s0, s1, l0, l1⟩ := valid_real c hc
  have hsat : (darken c f).sat = c.sat := by
    simp only [darken, lighten, fromHsla, clamp]; sc_norm; push_cast
    rw [min_eq_right s1, max_eq_left s0]
  apply luminance_mono_light
  · show hueValue (hueFrom (hueValue c.hue)) = hueValue c.hue
    have : hueFrom (hueValue c.hue) = hueValue c.hue := by unfold hueFrom; simp
    rw [this, real_hueValue_idem]
  · exact hsat
  · rw [hsat]; exact s0
  · rw [hsat]; exact s1
  · simp only [darken, lighten, fromHsla, clamp]; sc_norm; push_cast
    apply max_le _ l0
    exact _root_.le_trans (min_le_right _ _) (by linarith)

/-- Non-vacuity: a valid colour that is not fixed by lightening. -/
example : Valid (fromHsla (10 : ℝ) 0.5 0.25 1) := fromHsla_valid _ _ _ _


/-! ### rotate: modulo 360, whole turns, complement -/

/-- **`rotate` adds to the hue modulo 360**: the new stored hue is the old one plus the amount,
up to whole turns; saturation, lightness and alpha of a valid colour are unchanged (exactly). -/
theorem rotate_adds_mod_turns (c : Color ℝ) (hc : Valid c) (d : ℝ) :
    (∃ j : ℤ, (rotateHue c d).hue = c.hue + d + 360 * j) ∧
    (rotateHue c d).sat = c.sat ∧ (rotateHue c d).light = c.light ∧ (rotateHue c d).alpha = c.alpha := by
  obtain ⟨s0, s1, l0, l1⟩ := valid_real c hc
  obtain ⟨_, a0, a1⟩ := hc.alpha_range
  have a0' : (0 : ℝ) ≤ c.alpha := by simpa using a0
  have a1' : c.alpha ≤ (1 : ℝ) := by simpa using a1
  obtain ⟨j, hj⟩ := real_hueValue_turns c.hue
  refine ⟨⟨j - rtrunc (d / 360), ?_⟩, ?_, ?_, ?_⟩
  · -- the amount is reduced to less than a turn first (`delta % 360`), an integer number of turns
    have hf : Sc.fmod d (360.0 : ℝ) = d - 360 * ((rtrunc (d / 360) : ℤ) : ℝ) := by
      show d - (360.0 : ℝ) * ((rtrunc (d / (360.0 : ℝ)) : ℤ) : ℝ) = _
      norm_num
    show hueFrom (hueValue c.hue + Sc.fmod d (360.0 : ℝ)) = _
    unfold hueFrom; simp only [real_isFinite, if_true]; rw [hj, hf]; push_cast; ring
  · simp only [rotateHue, fromHsla, clamp]; sc_norm; push_cast
    rw [min_eq_right s1, max_eq_left s0]
  · simp only [rotateHue, fromHsla, clamp]; sc_norm; push_cast
    rw [min_eq_right l1, max_eq_left l0]
  · simp only [rotateHue, fromHsla, clamp]; sc_norm; push_cast
    rw [min_eq_right a1', max_eq_left a0']

/-- **Whole turns are the identity**: rotating a valid colour by any integer number of turns gives
the same colour (identical float channels; saturation, lightness, alpha unchanged). -/
theorem rotate_whole_turns (c : Color ℝ) (hc : Valid c) (k : ℤ) :
    toRgbaFloat (rotateHue c (360 * k)) = toRgbaFloat c := by
  obtain ⟨⟨j, hj⟩, hs, hl, ha⟩ := rotate_adds_mod_turns c hc (360 * k)
  refine toRgbaFloat_whole_turns c _ (k + j) ?_ hs hl ha
  rw [hj]; push_cast; ring

/-- **`complement` is a self-inverse half turn**: applying it twice gives the same colour. -/
theorem complement_involutive (c : Color ℝ) (hc : Valid c) :
    toRgbaFloat (complementary (complementary c)) = toRgbaFloat c := by
  have hc1 : Valid (complementary c) := fromHsla_valid _ _ _ _
  obtain ⟨⟨j1, h1⟩, s1, l1, a1⟩ := rotate_adds_mod_turns c hc 180.0
  obtain ⟨⟨j2, h2⟩, s2, l2, a2⟩ := rotate_adds_mod_turns (complementary c) hc1 180.0
  refine toRgbaFloat_whole_turns c _ (j1 + j2 + 1) ?_ ?_ ?_ ?_
  · show (rotateHue (complementary c) 180.0).hue = _
    have e1 : (complementary c).hue = (rotateHue c 180.0).hue := rfl
    rw [h2, e1, h1]; push_cast; norm_num; ring
  · show (rotateHue (complementary c) 180.0).sat = c.sat
    rw [s2]; exact s1
  · show (rotateHue (complementary c) 180.0).light = c.light
    rw [l2]; exact l1
  · show (rotateHue (complementary c) 180.0).alpha = c.alpha
    rw [a2]; exact a1



/-! ### `set`: RGB channels and the other spaces -/

/-- The byte `set red|green|blue v` stores: `v` clamped to `[0, 255]`, then Rust's `as u8`. -/
def setChannel {β : Type} [ScT β] (v : β) : UInt8 := Sc.toU8 (clamp 0 255 v)

theorem setChannel_real (v : ℝ) : setChannel v = Sc.toU8 (max (min 255 v) 0) := by
  unfold setChannel clamp; sc_norm; push_cast; rfl

/-- **`set red|green|blue v`** replaces exactly that 8-bit channel by `v` clamped to 0–255 (and cast
as Rust's `as u8` does) and leaves the two other bytes unchanged — exact arithmetic, every colour. -/
theorem set_rgb_channels (v : ℝ) (c : Color ℝ) :
    ((toRgba8 (setProp .red v c)).r = setChannel v ∧ (toRgba8 (setProp .red v c)).g = (toRgba8 c).g ∧
      (toRgba8 (setProp .red v c)).b = (toRgba8 c).b) ∧
    ((toRgba8 (setProp .green v c)).r = (toRgba8 c).r ∧ (toRgba8 (setProp .green v c)).g = setChannel v ∧
      (toRgba8 (setProp .green v c)).b = (toRgba8 c).b) ∧
    ((toRgba8 (setProp .blue v c)).r = (toRgba8 c).r ∧ (toRgba8 (setProp .blue v c)).g = (toRgba8 c).g ∧
      (toRgba8 (setProp .blue v c)).b = setChannel v) := by
  have e1 : setProp .red v c = fromRgba8 (setChannel v) (toRgba8 c).g (toRgba8 c).b (toRgba8 c).alpha := rfl
  have e2 : setProp .green v c = fromRgba8 (toRgba8 c).r (setChannel v) (toRgba8 c).b (toRgba8 c).alpha := rfl
  have e3 : setProp .blue v c = fromRgba8 (toRgba8 c).r (toRgba8 c).g (setChannel v) (toRgba8 c).alpha := rfl
  rw [e1, e2, e3]
  exact ⟨hsl_roundtrip_real _ _ _ _, hsl_roundtrip_real _ _ _ _, hsl_roundtrip_real _ _ _ _⟩

/-- Setting a coordinate of a space is "convert, replace one coordinate, construct" (definitional,
all fifteen properties; here the non-RGB ones). -/
theorem set_space_def {β : Type} [ScT β] (v : β) (c : Color β) :
    setProp .lightness v c = fromLab v (toLab c).y (toLab c).z (toLab c).alpha ∧
    setProp .labA v c = fromLab (toLab c).x v (toLab c).z (toLab c).alpha ∧
    setProp .labB v c = fromLab (toLab c).x (toLab c).y v (toLab c).alpha ∧
    setProp .hue v c = fromLch (toLch c).x (toLch c).y v (toLch c).alpha ∧
    setProp .chroma v c = fromLch (toLch c).x v (toLch c).z (toLch c).alpha ∧
    setProp .oklabL v c = fromOklab v (toOklab c).y (toOklab c).z (toOklab c).alpha ∧
    setProp .oklabA v c = fromOklab (toOklab c).x v (toOklab c).z (toOklab c).alpha ∧
    setProp .oklabB v c = fromOklab (toOklab c).x (toOklab c).y v (toOklab c).alpha ∧
    setProp .hslHue v c = fromHsla v (toHsla c).y (toHsla c).z (toHsla c).alpha ∧
    setProp .alpha v c = fromHsla (toHsla c).x (toHsla c).y (toHsla c).z v :=
  ⟨rfl, rfl, rfl, rfl, rfl, rfl, rfl, rfl, rfl, rfl⟩


end Pastel.C06
