/-
C07 — mixing (property theorems).

Exact-arithmetic reading (`ℝ`) of the very definitions that run at `Float`
in the correspondence check.  Float rounding is not modelled: the "≤ 1 per
8-bit channel under swap" clause and endpoint exactness through `pow` are
enumerated on the implementation, not proved.
-/
import Pastel.RealInst
import Pastel.Model.Color
import Pastel.Lemmas.Clamp
import Pastel.Order
import Pastel.FloatFns
import Pastel.Lemmas.Quantize
import Pastel.Lemmas.HslMix
import Pastel.Lemmas.HsvMix

namespace Pastel.C07
open Pastel Sc ScOrd

/-- Fraction 0 gives the first operand's coordinate. -/
theorem interpolate_zero (a b : ℝ) : interpolate a b 0 = a := by simp [interpolate]

/-- Fraction 1 gives the second operand's coordinate. -/
theorem interpolate_one (a b : ℝ) : interpolate a b 1 = b := by simp [interpolate]

/-- Mixing a coordinate with itself leaves it unchanged, for every fraction. -/
theorem interpolate_self (a f : ℝ) : interpolate a a f = a := by simp [interpolate]

/-- Swapping the operands while complementing the fraction gives the same coordinate. -/
theorem interpolate_swap (a b f : ℝ) : interpolate a b f = interpolate b a (1 - f) := by
  simp only [interpolate]; ring

/-- For a fraction in `[0,1]` the interpolated coordinate lies between the operands' coordinates
(the RGB betweenness clause, before rounding). -/
theorem interpolate_between (a b f : ℝ) (h0 : 0 ≤ f) (h1 : f ≤ 1) :
    min a b ≤ interpolate a b f ∧ interpolate a b f ≤ max a b := by
  simp only [interpolate]
  rcases le_total a b with h | h
  · rw [min_eq_left h, max_eq_right h]
    constructor <;> nlinarith
  · rw [min_eq_right h, max_eq_left h]
    constructor <;> nlinarith

section order
variable {α : Type} [Sc α] [ScOrd α]

/-- Fractions below 0 act as 0 and fractions above 1 act as 1 (`Fraction::from` clamps) —
order-only, hence valid for real IEEE floats; a NaN fraction acts as 1. -/
theorem fraction_below (x : α) (h : x ≤ 0) : feq (fraction x) 0 = true := by
  have hx := (not_nan_of_le h).1
  have h0 : isNaN (0 : α) = false := (not_nan_of_le h).2
  have h1 : isNaN (1 : α) = false := (not_nan_of_le (le_0_1 (α := α))).2
  unfold fraction clamp
  rw [fmin_def]
  simp only [h1, hx, Bool.false_eq_true, if_false]
  have hlt : x < 1 ∨ ¬ x < 1 := Classical.em _
  have hx1 : x ≤ 1 := le_trans h le_0_1
  rcases hlt with hlt | hlt
  · simp only [hlt, if_true]
    rw [fmax_def]
    simp only [hx, h0, Bool.false_eq_true, if_false]
    by_cases hx0 : x < 0
    · simp only [hx0, if_true]; exact feq_refl h0
    · simp only [hx0, if_false]
      have : (0 : α) ≤ x := by
        rcases lt_or_le hx h0 with h' | h'
        · exact absurd h' hx0
        · exact h'
      exact le_antisymm_feq h this
  · simp only [hlt, if_false]
    have h1x : (1 : α) ≤ x := by
      rcases lt_or_le hx h1 with h' | h'
      · exact absurd h' hlt
      · exact h'
    -- then 1 ≤ x ≤ 0, contradicting 0 < … only up to equality: 1 ≤ 0 and 0 ≤ 1
    rw [fmax_def]
    simp only [h1, h0, Bool.false_eq_true, if_false]
    have h10 : (1 : α) ≤ 0 := le_trans h1x h
    have : ¬ (1 : α) < 0 := not_lt_of_le (le_0_1 (α := α))
    simp only [this, if_false]
    exact le_antisymm_feq h10 le_0_1

theorem fraction_above (x : α) (h : 1 ≤ x) : feq (fraction x) 1 = true := by
  have hx := (not_nan_of_le h).2
  have h1 : isNaN (1 : α) = false := (not_nan_of_le h).1
  have h0 : isNaN (0 : α) = false := (not_nan_of_le (le_0_1 (α := α))).1
  unfold fraction clamp
  rw [fmin_def]
  simp only [h1, hx, Bool.false_eq_true, if_false]
  have hnlt : ¬ x < 1 := not_lt_of_le h
  simp only [hnlt, if_false]
  rw [fmax_def]
  simp only [h1, h0, Bool.false_eq_true, if_false]
  have : ¬ (1 : α) < 0 := not_lt_of_le (le_0_1 (α := α))
  simp only [this, if_false]
  exact feq_refl h1

/-- A NaN fraction acts as 1 (Rust's `min(1, NaN) = 1`). -/
theorem fraction_nan (x : α) (h : isNaN x = true) : fraction x = 1 := by
  have h1 : isNaN (1 : α) = false := (not_nan_of_le (le_0_1 (α := α))).2
  have h0 : isNaN (0 : α) = false := (not_nan_of_le (le_0_1 (α := α))).1
  unfold fraction clamp
  rw [fmin_def]
  simp only [h1, h, Bool.false_eq_true, if_false, if_true]
  rw [fmax_def]
  simp only [h1, h0, Bool.false_eq_true, if_false]
  have : ¬ (1 : α) < 0 := not_lt_of_le (le_0_1 (α := α))
  simp only [this, if_false]

end order

/-- At `ℝ`, `Fraction::from` is the usual clamp. -/
theorem fraction_real (x : ℝ) : fraction x = max (min 1 x) 0 := by
  simp [fraction, clamp]

/-- RGB mixing: the result is built from the coordinate-wise interpolation of the float
channels and of alpha (definitional). -/
theorem mix_rgb_def (c1 c2 : Color ℝ) (f : ℝ) :
    mix .rgb c1 c2 f =
      fromRgbaFloat (interpolate (toRgbaFloat c1).x (toRgbaFloat c2).x f)
        (interpolate (toRgbaFloat c1).y (toRgbaFloat c2).y f)
        (interpolate (toRgbaFloat c1).z (toRgbaFloat c2).z f)
        (interpolate c1.alpha c2.alpha f) := rfl

/-- Lab / OkLab mixing are coordinate-wise interpolations too (definitional). -/
theorem mix_lab_def (c1 c2 : Color ℝ) (f : ℝ) :
    mix .lab c1 c2 f =
      fromLab (interpolate (toLab c1).x (toLab c2).x f) (interpolate (toLab c1).y (toLab c2).y f)
        (interpolate (toLab c1).z (toLab c2).z f) (interpolate c1.alpha c2.alpha f) := rfl

/-- In the hue spaces an achromatic operand adopts the other operand's hue: with `s₁` below the
threshold, the interpolated angle starts from the *other* hue, so it does not move at all. -/
theorem mixHue_gray_left (thr s1 h1 s2 h2 f : ℝ) (hs1 : s1 < thr) (hs2 : ¬ s2 < thr) :
    mixHue thr s1 h1 s2 h2 f = interpolateAngle h2 h2 f := by
  simp [mixHue, hs1, hs2]

theorem mixHue_gray_right (thr s1 h1 s2 h2 f : ℝ) (hs1 : ¬ s1 < thr) (hs2 : s2 < thr) :
    mixHue thr s1 h1 s2 h2 f = interpolateAngle h1 h1 f := by
  simp [mixHue, hs1, hs2]

/-- The CLI convention: `mix --fraction F base color` mixes `base` with `color` at
`Fraction::from(1 − F)`; so `F = 1` weights the base fully and `F = 0` the colour. -/
theorem cli_fraction_one : fraction (1 - (1 : ℝ)) = 0 := by
  rw [fraction_real]; norm_num

theorem cli_fraction_zero : fraction (1 - (0 : ℝ)) = 1 := by
  rw [fraction_real]; norm_num

/-- Non-vacuity: concrete numbers meeting the hypotheses of `interpolate_between`. -/
example : min (0.2 : ℝ) 0.9 ≤ interpolate (0.2 : ℝ) 0.9 0.25 ∧ interpolate (0.2 : ℝ) 0.9 0.25 ≤ max (0.2 : ℝ) 0.9 :=
  interpolate_between 0.2 0.9 0.25 (by norm_num) (by norm_num)


/-! ### Hue-like coordinates travel along the shorter arc -/

/-- For angles in `[0, 360)` the pair `(p, q)` between which `interpolate_angle` interpolates
linearly represents the same two angles (each possibly shifted by one turn), and its span
`|p − q|` is the circular distance `min (|a − b|, 360 − |a − b|) ≤ 180` — for every fraction. -/

theorem interpolateAngle_shorter_arc (a b f : ℝ) (ha0 : 0 ≤ a) (ha : a < 360) (hb0 : 0 ≤ b) (hb : b < 360) :
    ∃ p q : ℝ, (p = a ∨ p = a + 360) ∧ (q = b ∨ q = b + 360) ∧
      |p - q| = min |a - b| (360 - |a - b|) ∧ |p - q| ≤ 180 ∧
      interpolateAngle a b f = modPositive (interpolate p q f) 360 := by
  unfold interpolateAngle angleDistGreater
  simp only [decide_eq_true_eq]
  sc_norm
  push_cast at *
  have e1 : |a - (b + 360)| = 360 - (a - b) := by
    rw [show a - (b + 360) = -(360 - (a - b)) by ring, abs_neg, abs_of_nonneg (by linarith)]
  have e2 : |a + 360 - b| = 360 + (a - b) := by
    rw [show a + 360 - b = 360 + (a - b) by ring, abs_of_nonneg (by linarith)]
  have key : ∀ (p q : ℝ), (p = a ∨ p = a + 360) → (q = b ∨ q = b + 360) →
      |p - q| = min |a - b| (360 - |a - b|) → |p - q| ≤ 180 →
      ∃ p' q' : ℝ, (p' = a ∨ p' = a + 360) ∧ (q' = b ∨ q' = b + 360) ∧
        |p' - q'| = min |a - b| (360 - |a - b|) ∧ |p' - q'| ≤ 180 ∧
        modPositive (interpolate p q f) 360 = modPositive (interpolate p' q' f) 360 :=
    fun p q h1 h2 h3 h4 => ⟨p, q, h1, h2, h3, h4, rfl⟩
  rcases le_total a b with hab | hab
  · have e0 : |a - b| = b - a := by rw [abs_sub_comm, abs_of_nonneg (by linarith)]
    split_ifs with h1 h2 h2
    all_goals simp only [e0, e1, e2] at h1 h2
    · exfalso; linarith
    · exfalso; linarith
    · exact key (a + 360) b (Or.inr rfl) (Or.inl rfl) (by rw [e2, e0, min_eq_right (by linarith)]; ring) (by rw [e2]; linarith)
    · exact key a b (Or.inl rfl) (Or.inl rfl) (by rw [e0, min_eq_left (by linarith)]) (by rw [e0]; linarith)
  · have e0 : |a - b| = a - b := abs_of_nonneg (by linarith)
    split_ifs with h1 h2 h2
    all_goals simp only [e0, e1, e2] at h1 h2
    · exfalso; linarith
    · exact key a (b + 360) (Or.inl rfl) (Or.inr rfl) (by rw [e1, e0, min_eq_right (by linarith)]) (by rw [e1]; linarith)
    · exfalso; linarith
    · exact key a b (Or.inl rfl) (Or.inl rfl) (by rw [e0, min_eq_left (by linarith)]) (by rw [e0]; linarith)


/-- On IEEE floats: a NaN fraction acts as fraction 1. -/
theorem float_fraction_nan (x : Float) (h : Sc.isNaN x = true) : fraction x = 1 := fraction_nan x h

/-! ### RGB mixing of 8-bit colours, as bytes -/

/-- **RGB mixing of two 8-bit colours, as bytes** (exact arithmetic): each channel of the mix is
the quantised linear interpolation of the operands' channel values. -/
theorem mix_rgb_bytes (r1 g1 b1 r2 g2 b2 : UInt8) (a1 a2 f : ℝ) :
    let m := mix .rgb (fromRgba8 r1 g1 b1 a1 : Color ℝ) (fromRgba8 r2 g2 b2 a2) f
    (toRgba8 m).r = quantize (interpolate (chan r1) (chan r2) f) ∧
    (toRgba8 m).g = quantize (interpolate (chan g1) (chan g2) f) ∧
    (toRgba8 m).b = quantize (interpolate (chan b1) (chan b2) f) := by
  intro m
  have e : m = fromRgba8 (quantize (interpolate (chan r1) (chan r2) f)) (quantize (interpolate (chan g1) (chan g2) f))
      (quantize (interpolate (chan b1) (chan b2) f))
      (interpolate (toRgbaFloat (fromRgba8 r1 g1 b1 a1 : Color ℝ)).alpha (toRgbaFloat (fromRgba8 r2 g2 b2 a2 : Color ℝ)).alpha f) := by
    show mix .rgb _ _ f = _
    unfold mix fromRgbaFloat
    simp only [fromRgba8_toRgbaFloat]
  rw [e]
  exact hsl_roundtrip_real _ _ _ _

/-- Hence, for a fraction in `[0,1]`, **every channel of an RGB mix lies between the operands'
channels**; fraction 0 returns the first operand's bytes and fraction 1 the second's exactly; a
colour mixed with itself keeps its bytes. -/
theorem mix_rgb_between (r1 g1 b1 r2 g2 b2 : UInt8) (a1 a2 f : ℝ) (h0 : 0 ≤ f) (h1 : f ≤ 1) :
    let m := mix .rgb (fromRgba8 r1 g1 b1 a1 : Color ℝ) (fromRgba8 r2 g2 b2 a2) f
    (min r1.toNat r2.toNat ≤ (toRgba8 m).r.toNat ∧ (toRgba8 m).r.toNat ≤ max r1.toNat r2.toNat) ∧
    (min g1.toNat g2.toNat ≤ (toRgba8 m).g.toNat ∧ (toRgba8 m).g.toNat ≤ max g1.toNat g2.toNat) ∧
    (min b1.toNat b2.toNat ≤ (toRgba8 m).b.toNat ∧ (toRgba8 m).b.toNat ≤ max b1.toNat b2.toNat) := by
  intro m
  obtain ⟨er, eg, eb⟩ := mix_rgb_bytes r1 g1 b1 r2 g2 b2 a1 a2 f
  have key : ∀ x y : UInt8, min x.toNat y.toNat ≤ (quantize (interpolate (chan x) (chan y) f)).toNat ∧
      (quantize (interpolate (chan x) (chan y) f)).toNat ≤ max x.toNat y.toNat := by
    intro x y
    have hb := interpolate_between (chan x) (chan y) f h0 h1
    have hmono : ∀ p q : UInt8, p.toNat ≤ q.toNat → chan p ≤ chan q := by
      intro p q hpq; unfold chan
      have : (p.toNat : ℝ) ≤ q.toNat := by exact_mod_cast hpq
      linarith [div_le_div_of_nonneg_right this (by norm_num : (0:ℝ) ≤ 255)]
    rcases Nat.le_total x.toNat y.toNat with hxy | hxy
    · have hc := hmono x y hxy
      rw [min_eq_left hc, max_eq_right hc] at hb
      have := quantize_between _ x y hb.1 hb.2
      rw [Nat.min_eq_left hxy, Nat.max_eq_right hxy]; exact this
    · have hc := hmono y x hxy
      rw [min_eq_right hc, max_eq_left hc] at hb
      have := quantize_between _ y x hb.1 hb.2
      rw [Nat.min_eq_right hxy, Nat.max_eq_left hxy]; exact this
  show (_ ∧ _) ∧ (_ ∧ _) ∧ (_ ∧ _)
  rw [er, eg, eb]
  exact ⟨key r1 r2, key g1 g2, key b1 b2⟩

theorem mix_rgb_endpoints (r1 g1 b1 r2 g2 b2 : UInt8) (a1 a2 : ℝ) :
    (let m := mix .rgb (fromRgba8 r1 g1 b1 a1 : Color ℝ) (fromRgba8 r2 g2 b2 a2) 0
     ((toRgba8 m).r, (toRgba8 m).g, (toRgba8 m).b) = (r1, g1, b1)) ∧
    (let m := mix .rgb (fromRgba8 r1 g1 b1 a1 : Color ℝ) (fromRgba8 r2 g2 b2 a2) 1
     ((toRgba8 m).r, (toRgba8 m).g, (toRgba8 m).b) = (r2, g2, b2)) := by
  constructor
  · obtain ⟨er, eg, eb⟩ := mix_rgb_bytes r1 g1 b1 r2 g2 b2 a1 a2 0
    show (_, _, _) = _
    rw [er, eg, eb, interpolate_zero, interpolate_zero, interpolate_zero, quantize_chan, quantize_chan, quantize_chan]
  · obtain ⟨er, eg, eb⟩ := mix_rgb_bytes r1 g1 b1 r2 g2 b2 a1 a2 1
    show (_, _, _) = _
    rw [er, eg, eb, interpolate_one, interpolate_one, interpolate_one, quantize_chan, quantize_chan, quantize_chan]

theorem mix_rgb_self (r g b : UInt8) (a1 a2 f : ℝ) :
    let m := mix .rgb (fromRgba8 r g b a1 : Color ℝ) (fromRgba8 r g b a2) f
    ((toRgba8 m).r, (toRgba8 m).g, (toRgba8 m).b) = (r, g, b) := by
  intro m
  obtain ⟨er, eg, eb⟩ := mix_rgb_bytes r g b r g b a1 a2 f
  show (_, _, _) = _
  rw [er, eg, eb, interpolate_self, interpolate_self, interpolate_self, quantize_chan, quantize_chan, quantize_chan]

/-- **Swapping the operands while complementing the fraction** gives the same bytes in RGB space
(exact arithmetic; on floats the two sides may differ by one level at a rounding tie, which is what
the statement's "by more than 1" allows and the check measures). -/
theorem mix_rgb_swap (r1 g1 b1 r2 g2 b2 : UInt8) (a1 a2 f : ℝ) :
    let m := mix .rgb (fromRgba8 r1 g1 b1 a1 : Color ℝ) (fromRgba8 r2 g2 b2 a2) f
    let m' := mix .rgb (fromRgba8 r2 g2 b2 a2 : Color ℝ) (fromRgba8 r1 g1 b1 a1) (1 - f)
    ((toRgba8 m).r, (toRgba8 m).g, (toRgba8 m).b) = ((toRgba8 m').r, (toRgba8 m').g, (toRgba8 m').b) := by
  intro m m'
  obtain ⟨er, eg, eb⟩ := mix_rgb_bytes r1 g1 b1 r2 g2 b2 a1 a2 f
  obtain ⟨er', eg', eb'⟩ := mix_rgb_bytes r2 g2 b2 r1 g1 b1 a2 a1 (1 - f)
  show (_, _, _) = (_, _, _)
  rw [er, eg, eb, er', eg', eb', interpolate_swap (chan r1), interpolate_swap (chan g1), interpolate_swap (chan b1)]

/-! ### HSL mixing of 8-bit colours, as bytes -/

/-- **HSL mixing returns the operands' bytes at the end points** (exact arithmetic, every pair of
8-bit colours, every alpha): fraction 0 gives the first colour, fraction 1 the second — through the
shorter-arc rule (the angle returns to the operand's hue up to whole turns) and through the
gray-hue rule (an operand whose saturation is below the threshold has chroma below 10⁻⁴, so the
adopted hue cannot move a channel by half a level). -/
theorem mix_hsl_endpoints (r1 g1 b1 r2 g2 b2 : UInt8) (a1 a2 : ℝ) :
    bytes (mix .hsl (fromRgba8 r1 g1 b1 a1 : Color ℝ) (fromRgba8 r2 g2 b2 a2) 0) = (r1, g1, b1) ∧
    bytes (mix .hsl (fromRgba8 r1 g1 b1 a1 : Color ℝ) (fromRgba8 r2 g2 b2 a2) 1) = (r2, g2, b2) := by
  set c1 : Color ℝ := fromRgba8 r1 g1 b1 a1 with hc1
  set c2 : Color ℝ := fromRgba8 r2 g2 b2 a2 with hc2
  obtain ⟨s10, s11, l10, l11⟩ := real_valid_ranges c1 (C05.fromRgba8_valid _ _ _ _)
  obtain ⟨s20, s21, l20, l21⟩ := real_valid_ranges c2 (C05.fromRgba8_valid _ _ _ _)
  have f1 := fromRgba8_toRgbaFloat r1 g1 b1 a1
  have f2 := fromRgba8_toRgbaFloat r2 g2 b2 a2
  obtain ⟨j1, hj1⟩ := real_hueValue_turns c1.hue
  obtain ⟨j2, hj2⟩ := real_hueValue_turns c2.hue
  constructor
  · obtain ⟨thr, hthr, mhue, msat, mlight⟩ := mix_hsl_fields c1 c2 0
    rw [interpolate_zero, min_eq_right s11, max_eq_left s10] at msat
    rw [interpolate_zero, min_eq_right l11, max_eq_left l10] at mlight
    have hcase : (∃ k : ℤ, (mix .hsl c1 c2 0).hue = c1.hue + 360 * k) ∨ c1.sat < 1 / 1000 := by
      rcases mixHue_zero_turns thr c1.sat (hueValue c1.hue) c2.sat (hueValue c2.hue) with hs | ⟨k, hk⟩
      · right; rw [hthr] at hs; linarith
      · left; exact ⟨j1 + k, by rw [mhue, hk, hj1]; push_cast; ring⟩
    obtain ⟨hx, hy, hz⟩ := channels_close c1 _ msat mlight s10 l10 l11 hcase
    rw [f1] at hx hy hz
    exact bytes_near _ r1 g1 b1 hx hy hz
  · obtain ⟨thr, hthr, mhue, msat, mlight⟩ := mix_hsl_fields c1 c2 1
    rw [interpolate_one, min_eq_right s21, max_eq_left s20] at msat
    rw [interpolate_one, min_eq_right l21, max_eq_left l20] at mlight
    have hcase : (∃ k : ℤ, (mix .hsl c1 c2 1).hue = c2.hue + 360 * k) ∨ c2.sat < 1 / 1000 := by
      rcases mixHue_one_turns thr c1.sat (hueValue c1.hue) c2.sat (hueValue c2.hue) with hs | ⟨k, hk⟩
      · right; rw [hthr] at hs; linarith
      · left; exact ⟨j2 + k, by rw [mhue, hk, hj2]; push_cast; ring⟩
    obtain ⟨hx, hy, hz⟩ := channels_close c2 _ msat mlight s20 l20 l21 hcase
    rw [f2] at hx hy hz
    exact bytes_near _ r2 g2 b2 hx hy hz


/-- **A colour mixed with itself in HSL keeps its bytes**, for every fraction. -/
theorem mix_hsl_self (r g b : UInt8) (a1 a2 f : ℝ) :
    bytes (mix .hsl (fromRgba8 r g b a1 : Color ℝ) (fromRgba8 r g b a2) f) = (r, g, b) := by
  set c1 : Color ℝ := fromRgba8 r g b a1 with hc1
  set c2 : Color ℝ := fromRgba8 r g b a2 with hc2
  obtain ⟨s10, s11, l10, l11⟩ := real_valid_ranges c1 (C05.fromRgba8_valid _ _ _ _)
  have f1 := fromRgba8_toRgbaFloat r g b a1
  have hh : c2.hue = c1.hue := rfl
  have hs : c2.sat = c1.sat := rfl
  have hl : c2.light = c1.light := rfl
  obtain ⟨j1, hj1⟩ := real_hueValue_turns c1.hue
  obtain ⟨thr, hthr, mhue, msat, mlight⟩ := mix_hsl_fields c1 c2 f
  rw [hs, interpolate_self, min_eq_right s11, max_eq_left s10] at msat
  rw [hl, interpolate_self, min_eq_right l11, max_eq_left l10] at mlight
  have hcase : (∃ k : ℤ, (mix .hsl c1 c2 f).hue = c1.hue + 360 * k) ∨ c1.sat < 1 / 1000 := by
    left
    rw [mhue, hh, hs]
    unfold mixHue
    simp only [ite_self]
    obtain ⟨k, hk⟩ := interpolateAngle_self (hueValue c1.hue) f
    exact ⟨j1 + k, by rw [hk, hj1]; push_cast; ring⟩
  obtain ⟨hx, hy, hz⟩ := channels_close c1 _ msat mlight s10 l10 l11 hcase
  rw [f1] at hx hy hz
  exact bytes_near _ r g b hx hy hz

/-! ### HSV mixing of 8-bit colours, as bytes -/

/-- **HSV mixing returns the operands' bytes at the end points** (exact arithmetic, every pair of
8-bit colours): through the exact HSV round trip, the shorter-arc rule and the gray-hue rule (an
operand whose HSV saturation is below the threshold has chroma below 10⁻⁴). -/
theorem mix_hsv_endpoints (r1 g1 b1 r2 g2 b2 : UInt8) (a1 a2 : ℝ) :
    bytes (mix .hsv (fromRgba8 r1 g1 b1 a1 : Color ℝ) (fromRgba8 r2 g2 b2 a2) 0) = (r1, g1, b1) ∧
    bytes (mix .hsv (fromRgba8 r1 g1 b1 a1 : Color ℝ) (fromRgba8 r2 g2 b2 a2) 1) = (r2, g2, b2) := by
  set c1 : Color ℝ := fromRgba8 r1 g1 b1 a1 with hc1
  set c2 : Color ℝ := fromRgba8 r2 g2 b2 a2 with hc2
  have v1 : C05.Valid c1 := C05.fromRgba8_valid _ _ _ _
  have v2 : C05.Valid c2 := C05.fromRgba8_valid _ _ _ _
  have f1 := fromRgba8_toRgbaFloat r1 g1 b1 a1
  have f2 := fromRgba8_toRgbaFloat r2 g2 b2 a2
  constructor
  · obtain ⟨thr, hthr, mhue, msat, mlight⟩ := mix_hsv_fields c1 c2 0 (toHsva c1).x (toHsva c1).alpha
    rw [interpolate_zero, interpolate_zero] at msat mlight
    have hh : (toHsva c1).y < thr ∨ ∃ k : ℤ, (mix .hsv c1 c2 0).hue = (toHsva c1).x + 360 * k := by
      rcases mixHue_zero_turns thr (toHsva c1).y (toHsva c1).x (toHsva c2).y (toHsva c2).x with h | ⟨k, hk⟩
      · exact Or.inl h
      · exact Or.inr ⟨k, by rw [mhue, hk]⟩
    obtain ⟨hx, hy, hz⟩ := hsv_rebuilt_close c1 v1 _ thr hthr msat mlight hh
    rw [f1] at hx hy hz
    exact bytes_near _ r1 g1 b1 hx hy hz
  · obtain ⟨thr, hthr, mhue, msat, mlight⟩ := mix_hsv_fields c1 c2 1 (toHsva c2).x (toHsva c2).alpha
    rw [interpolate_one, interpolate_one] at msat mlight
    have hh : (toHsva c2).y < thr ∨ ∃ k : ℤ, (mix .hsv c1 c2 1).hue = (toHsva c2).x + 360 * k := by
      rcases mixHue_one_turns thr (toHsva c1).y (toHsva c1).x (toHsva c2).y (toHsva c2).x with h | ⟨k, hk⟩
      · exact Or.inl h
      · exact Or.inr ⟨k, by rw [mhue, hk]⟩
    obtain ⟨hx, hy, hz⟩ := hsv_rebuilt_close c2 v2 _ thr hthr msat mlight hh
    rw [f2] at hx hy hz
    exact bytes_near _ r2 g2 b2 hx hy hz

/-- **A colour mixed with itself in HSV keeps its bytes**, for every fraction. -/
theorem mix_hsv_self (r g b : UInt8) (a1 a2 f : ℝ) :
    bytes (mix .hsv (fromRgba8 r g b a1 : Color ℝ) (fromRgba8 r g b a2) f) = (r, g, b) := by
  set c1 : Color ℝ := fromRgba8 r g b a1 with hc1
  set c2 : Color ℝ := fromRgba8 r g b a2 with hc2
  have v1 : C05.Valid c1 := C05.fromRgba8_valid _ _ _ _
  have f1 := fromRgba8_toRgbaFloat r g b a1
  have qx : (toHsva c2).x = (toHsva c1).x := rfl
  have qy : (toHsva c2).y = (toHsva c1).y := rfl
  have qz : (toHsva c2).z = (toHsva c1).z := rfl
  obtain ⟨thr, hthr, mhue, msat, mlight⟩ := mix_hsv_fields c1 c2 f (toHsva c1).x (toHsva c1).alpha
  rw [qy, qz, interpolate_self, interpolate_self] at msat mlight
  have hh : (toHsva c1).y < thr ∨ ∃ k : ℤ, (mix .hsv c1 c2 f).hue = (toHsva c1).x + 360 * k := by
    right
    rw [mhue, qx, qy]
    unfold mixHue
    simp only [ite_self]
    exact interpolateAngle_self _ f
  obtain ⟨hx, hy, hz⟩ := hsv_rebuilt_close c1 v1 _ thr hthr msat mlight hh
  rw [f1] at hx hy hz
  exact bytes_near _ r g b hx hy hz

end Pastel.C07
