/-
C18 — named colours (property theorems).

`Pastel/Generated/NamedTable.lean` is dumped from the live `NAMED_COLORS` on every run and
re-checked by the kernel against the embedded CSS Color 4 list (`Pastel/Model/Named.lean`,
assembled independently of pastel).
-/
import Pastel.Model.Cli
import Pastel.Generated.NamedTable
import Pastel.Lemmas.MinBy
import Pastel.RealInst

namespace Pastel.C18
open Pastel

/-- The table in the **code** (this run) is the CSS list: same names, same values, same order. -/
theorem generated_is_css : Generated.namedTable = cssNamed := by decide +kernel

/-- 148 entries. -/
theorem table_size : cssNamed.length = 148 := by decide +kernel

/-- All names are lower-case ASCII letters. -/
theorem names_lowercase : ∀ row ∈ cssNamed, row.1.toList.all (fun c => 'a' ≤ c && c ≤ 'z') = true := by
  decide +kernel

/-- Names are unique: each row is the first one found under its name. -/
theorem names_unique : ∀ row ∈ cssNamed, cssNamed.find? (fun e => e.1 = row.1) = some row := by
  decide +kernel

/-- All channel values are bytes. -/
theorem values_are_bytes : ∀ row ∈ cssNamed, row.2.1 < 256 ∧ row.2.2.1 < 256 ∧ row.2.2.2 < 256 := by
  decide +kernel

/-- The synonyms: the first name in table order for an RGB value shared by two names. -/
theorem synonyms_first :
    (cssNamed.find? (fun e => e.2 = (0, 255, 255))).map (·.1) = some "aqua" ∧
    (cssNamed.find? (fun e => e.2 = (255, 0, 255))).map (·.1) = some "fuchsia" ∧
    (cssNamed.find? (fun e => e.2 = (128, 128, 128))).map (·.1) = some "gray" ∧
    (cssNamed.find? (fun e => e.2 = (169, 169, 169))).map (·.1) = some "darkgray" := by
  decide +kernel

/-- `format name` returns the name of a row of the table whose integer key `⌊1000·ΔE⌋` is minimal
(for every colour and scalar type); with C12's `truncated_key_near_optimal` scaled by 1000 this
is "within 0.001 of the minimum". -/
theorem nearestName_minimal {α : Type} [ScT α] (c : Color α) :
    ∃ row ∈ cssNamed, nearestName cssNamed c = row.1 ∧
      ∀ other ∈ cssNamed,
        Sc.toI32 (1000.0 * ciede2000 (lab3Of (colorOfRgb (α := α) (row.2.1, row.2.2.1, row.2.2.2))) (lab3Of c)) ≤
        Sc.toI32 (1000.0 * ciede2000 (lab3Of (colorOfRgb (α := α) (other.2.1, other.2.2.1, other.2.2.2))) (lab3Of c)) := by
  unfold nearestName
  simp only []
  split
  · next e he =>
    have := MinBy.minByKey_spec _ _ e he
    exact ⟨e, this.1, rfl, this.2⟩
  · next hnone =>
    exfalso
    have := MinBy.minByKey_none _ _ hnone
    have hl : cssNamed.length = 148 := table_size
    rw [this] at hl; simp at hl

/-- Integer keys differing by nothing means real distances within one key step:
`⌊1000 d₁⌋ ≤ ⌊1000 d₂⌋ → d₁ < d₂ + 0.001`. -/
theorem key_step (d1 d2 : ℝ) (hk : ⌊1000 * d1⌋ ≤ ⌊1000 * d2⌋) : d1 < d2 + 0.001 := by
  have a := Int.lt_floor_add_one (1000 * d1)
  have b := Int.floor_le (1000 * d2)
  have c : (⌊1000 * d1⌋ : ℝ) ≤ (⌊1000 * d2⌋ : ℝ) := by exact_mod_cast hk
  norm_num
  linarith

end Pastel.C18
