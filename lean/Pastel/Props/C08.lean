/-
C08 — colour scales (property theorems; order-only, hence valid for float positions).

Positions are `Fraction` values, which are never NaN (`C05.fraction_range`).
-/
import Pastel.Lemmas.Scale
import Pastel.Lemmas.ScaleMap
import Pastel.Lemmas.Gradient
import Pastel.RealInst
import Pastel.Props.C05
import Pastel.Model.CliRun

namespace Pastel.C08
open Pastel Sc ScOrd

variable {P C : Type} [Sc P] [ScOrd P]
set_option linter.unusedSectionVars false

/-- **Invariant.** Adding a stop keeps the positions strictly increasing (so there is at most
one stop per position). -/
theorem addStop_sorted (l : List (Stop P C)) (c : C) (p : P) (hp : isNaN p = false)
    (hs : SortedStops l) (hn : ∀ s ∈ l, isNaN s.2 = false) : SortedStops (addStop l c p) := by
  unfold addStop
  split
  · next l' h => exact sorted_of_positions (replaceAt_positions c p l l' h) hs
  · next h => exact insertSorted_sorted c p hp l hs hn (replaceAt_none c p l h)

/-- No stop ever gets a NaN position. -/
theorem addStop_no_nan (l : List (Stop P C)) (c : C) (p : P) (hp : isNaN p = false)
    (hn : ∀ s ∈ l, isNaN s.2 = false) : ∀ s ∈ addStop l c p, isNaN s.2 = false := by
  unfold addStop
  split
  · next l' h =>
    intro s hs
    have hpos := replaceAt_positions c p l l' h
    have : s.2 ∈ l'.map (·.2) := List.mem_map_of_mem hs
    rw [hpos] at this
    obtain ⟨s0, hs0, e⟩ := List.mem_map.mp this
    rw [← e]; exact hn s0 hs0
  · intro s hs
    rcases insertSorted_mem c p l s hs with rfl | h
    · exact hp
    · exact hn s h

/-- **Every reachable scale** (any sequence of add-stop operations with `Fraction` positions,
from the empty scale) has strictly increasing, non-NaN positions. -/
theorem reachable_sorted (ops : List (C × P)) :
    let sc := ops.foldl (fun (l : List (Stop P C)) (o : C × P) => addStop l o.1 (fraction o.2)) []
    SortedStops sc ∧ ∀ s ∈ sc, isNaN s.2 = false := by
  simp only []
  suffices h : ∀ (ops : List (C × P)) (l : List (Stop P C)), SortedStops l → (∀ s ∈ l, isNaN s.2 = false) →
      SortedStops (ops.foldl (fun (l : List (Stop P C)) (o : C × P) => addStop l o.1 (fraction o.2)) l) ∧
      ∀ s ∈ ops.foldl (fun (l : List (Stop P C)) (o : C × P) => addStop l o.1 (fraction o.2)) l, isNaN s.2 = false by
    exact h ops [] List.Pairwise.nil (fun s hs => by cases hs)
  intro ops
  induction ops with
  | nil => intro l hs hn; exact ⟨hs, hn⟩
  | cons o os ih =>
    intro l hs hn
    simp only [List.foldl_cons]
    have hp : isNaN (fraction o.2) = false := (C05.fraction_range o.2).1
    exact ih _ (addStop_sorted l o.1 _ hp hs hn) (addStop_no_nan l o.1 _ hp hn)

/-- Sampling yields nothing with fewer than two stops. -/
theorem sample_short (l : List (Stop P C)) (p : P) (mix : C → C → P → C) (h : l.length < 2) :
    sampleScale l p mix = none := by
  unfold sampleScale; simp [h]

/-- Whenever sampling yields a colour it is `mix` of two stops of the scale, the left one at or
below the position and the right one at or above it, at the clamped local fraction. -/
theorem sample_some (l : List (Stop P C)) (p : P) (mix : C → C → P → C) (c : C)
    (h : sampleScale l p mix = some c) :
    ∃ a ∈ l, ∃ b ∈ l, a.2 ≤ p ∧ p ≤ b.2 ∧
      ((feq a.2 b.2 = true ∧ c = a.1) ∨
       (feq a.2 b.2 = false ∧ c = mix a.1 b.1 (fraction ((p - a.2) / (b.2 - a.2))))) := by
  unfold sampleScale at h
  split at h
  · cases h
  · simp only [] at h
    split at h
    · next a b ha hb =>
      have ha' := List.find?_some ha
      have hb' := List.find?_some hb
      have hma : a ∈ l := by
        have := List.mem_of_find?_eq_some ha
        exact List.mem_reverse.mp this
      have hmb : b ∈ l := List.mem_of_find?_eq_some hb
      refine ⟨a, hma, b, hmb, by simpa using ha', by simpa using hb', ?_⟩
      cases hq : feq a.2 b.2
      · simp only [hq, Bool.false_eq_true, if_false, Option.some.injEq] at h
        exact Or.inr ⟨rfl, h.symm⟩
      · simp only [hq, if_true, Option.some.injEq] at h
        exact Or.inl ⟨rfl, h.symm⟩
    · cases h

/-- Outside the span of the stops (below the first / above the last position of a sorted
scale) sampling yields nothing: no stop is at or below (resp. above) the position. -/
theorem sample_outside (l : List (Stop P C)) (p : P) (mix : C → C → P → C)
    (h : (∀ s ∈ l, ¬ s.2 ≤ p) ∨ (∀ s ∈ l, ¬ p ≤ s.2)) : sampleScale l p mix = none := by
  unfold sampleScale
  split
  · rfl
  · simp only []
    rcases h with h | h
    · have : l.reverse.find? (fun c => decide (c.2 ≤ p)) = none := by
        apply List.find?_eq_none.mpr
        intro s hs; simpa using h s (List.mem_reverse.mp hs)
      simp [this]
    · have : l.find? (fun c => decide (p ≤ c.2)) = none := by
        apply List.find?_eq_none.mpr
        intro s hs; simpa using h s hs
      simp [this]


/-! ### The scale is the last-write map of its history, independent of insertion order -/

/-- **One `add_stop` is one write**: afterwards the colour at (a position equal to) `p` is `c`
and every other position keeps its colour. -/
theorem addStop_is_write (l : List (Stop P C)) (c : C) (p q : P) :
    lookupStop (addStop l c p) q = if feq q p then some c else lookupStop l q :=
  lookup_addStop l c p q

/-- The scale built by a history of add-stop operations. -/
def scaleOf (ops : List (C × P)) : List (Stop P C) :=
  ops.foldl (fun (l : List (Stop P C)) (o : C × P) => addStop l o.1 (fraction o.2)) []

/-- **Refinement to the abstract map**: after any history, the colour found at a position is the
one most recently added at that position (`lastWrite`), and nothing where nothing was added. -/
theorem scale_is_last_write_map (ops : List (C × P)) (q : P) :
    lookupStop (scaleOf ops) q
      = lastWrite (fun _ => none) (ops.map (fun o => (o.1, fraction o.2))) q := by
  unfold scaleOf
  have := lookup_foldl (ops.map (fun o => (o.1, fraction o.2))) ([] : List (Stop P C)) q
  rw [List.foldl_map] at this
  exact this

/-- **Independent of insertion order**: two histories that denote the same last-write map build
the same scale (same stops, same order) — where IEEE equality of positions is equality. -/
theorem scale_order_independent (hfe : ∀ a b : P, feq a b = true → a = b) (ops1 ops2 : List (C × P))
    (h : ∀ q, lastWrite (fun _ => none) (ops1.map (fun o => (o.1, fraction o.2))) q
            = lastWrite (fun _ => none) (ops2.map (fun o => (o.1, fraction o.2))) q) :
    scaleOf ops1 = scaleOf ops2 := by
  have r1 := reachable_sorted ops1
  have r2 := reachable_sorted ops2
  apply eq_of_lookup_eq hfe _ _ r1.1 r2.1 r1.2 r2.2
  intro q
  have e1 := scale_is_last_write_map ops1 q
  have e2 := scale_is_last_write_map ops2 q
  unfold scaleOf at e1 e2
  rw [e1, e2, h]

/-- At `ℝ`. -/
theorem real_scale_order_independent {C : Type} (ops1 ops2 : List (C × ℝ))
    (h : ∀ q, lastWrite (fun _ => none) (ops1.map (fun o => (o.1, fraction o.2))) q
            = lastWrite (fun _ => none) (ops2.map (fun o => (o.1, fraction o.2))) q) :
    scaleOf ops1 = scaleOf ops2 :=
  scale_order_independent (fun a b hab => (real_feq a b).mp hab) ops1 ops2 h

/-! ### Sampling uses exactly the two neighbouring stops -/

/-- In a strictly sorted list the first stop at or above `p` is the least such stop. -/
theorem find_least (l : List (Stop P C)) (p : P) (b : Stop P C) (hs : SortedStops l)
    (h : l.find? (fun c => decide (p ≤ c.2)) = some b) : ∀ s ∈ l, p ≤ s.2 → b.2 ≤ s.2 := by
  obtain ⟨hb, as, bs, hl, hall⟩ := List.find?_eq_some_iff_append.mp h
  intro s hsl hps
  rw [hl] at hsl hs
  rcases List.mem_append.mp hsl with h1 | h1
  · have := hall s h1; simp [hps] at this
  · rcases List.mem_cons.mp h1 with rfl | h2
    · exact le_refl (not_nan_of_le (by simpa using hb)).2
    · have hp := (List.pairwise_append.mp hs).2.1
      exact le_of_lt ((List.pairwise_cons.mp hp).1 s h2)

theorem find_greatest (l : List (Stop P C)) (p : P) (a : Stop P C) (hs : SortedStops l)
    (h : l.reverse.find? (fun c => decide (c.2 ≤ p)) = some a) : ∀ s ∈ l, s.2 ≤ p → s.2 ≤ a.2 := by
  obtain ⟨ha, as, bs, hl, hall⟩ := List.find?_eq_some_iff_append.mp h
  intro s hsl hps
  have hl' : l = bs.reverse ++ a :: as.reverse := by
    have := congrArg List.reverse hl
    simpa using this
  rw [hl'] at hsl hs
  rcases List.mem_append.mp hsl with h1 | h1
  · have hp := (List.pairwise_append.mp hs).2.2
    exact le_of_lt (hp s h1 a (List.mem_cons_self ..))
  · rcases List.mem_cons.mp h1 with rfl | h2
    · exact le_refl (not_nan_of_le (by simpa using ha)).1
    · have := hall s (List.mem_reverse.mp h2); simp [hps] at this


/-- **Neighbours**: the two stops that `sample` mixes are the nearest stop at or below the
position and the nearest stop at or above it. -/
theorem sample_neighbours (l : List (Stop P C)) (hs : SortedStops l) (p : P) (mix : C → C → P → C) (c : C)
    (h : sampleScale l p mix = some c) :
    ∃ a ∈ l, ∃ b ∈ l, a.2 ≤ p ∧ p ≤ b.2 ∧ (∀ s ∈ l, s.2 ≤ p → s.2 ≤ a.2) ∧ (∀ s ∈ l, p ≤ s.2 → b.2 ≤ s.2) ∧
      ((feq a.2 b.2 = true ∧ c = a.1) ∨
       (feq a.2 b.2 = false ∧ c = mix a.1 b.1 (fraction ((p - a.2) / (b.2 - a.2))))) := by
  unfold sampleScale at h
  split at h
  · cases h
  · simp only [] at h
    split at h
    · next a b ha hb =>
      have ha' := List.find?_some ha
      have hb' := List.find?_some hb
      have hma : a ∈ l := List.mem_reverse.mp (List.mem_of_find?_eq_some ha)
      have hmb : b ∈ l := List.mem_of_find?_eq_some hb
      refine ⟨a, hma, b, hmb, by simpa using ha', by simpa using hb',
        find_greatest l p a hs ha, find_least l p b hs hb, ?_⟩
      cases hq : feq a.2 b.2
      · simp only [hq, Bool.false_eq_true, if_false, Option.some.injEq] at h
        exact Or.inr ⟨rfl, h.symm⟩
      · simp only [hq, if_true, Option.some.injEq] at h
        exact Or.inl ⟨rfl, h.symm⟩
    · cases h

/-- **At a stop's own position the sample is that stop's colour, exactly** (both neighbours are
that stop; since the fix f892f2c the colour is returned as it is, not mixed with itself). -/
theorem sample_at_stop (l : List (Stop P C)) (hs : SortedStops l) (s : Stop P C) (hsl : s ∈ l)
    (mix : C → C → P → C) (c : C) (h : sampleScale l s.2 mix = some c) : c = s.1 := by
  obtain ⟨a, ha, b, hb, h1, h2, h3, h4, hc⟩ := sample_neighbours l hs s.2 mix c h
  have hn : isNaN s.2 = false := (not_nan_of_le h1).2
  have eqpos : ∀ x ∈ l, x.2 ≤ s.2 → s.2 ≤ x.2 → x = s := by
    intro x hx hx1 hx2
    by_contra hne
    have : x.2 < s.2 ∨ s.2 < x.2 := by
      have hp := hs
      unfold SortedStops at hp
      rcases (List.Pairwise.forall_of_forall_of_flip
        (R := fun a b : Stop P C => a ≠ b → (a.2 < b.2 ∨ b.2 < a.2))
        (by intro a _ h; exact absurd rfl h)
        (hp.imp (fun h _ => Or.inl h))
        (hp.imp (fun h _ => Or.inr h))) hx hsl hne with h | h
      · exact Or.inl h
      · exact Or.inr h
    rcases this with h | h
    · exact not_lt_of_le hx2 h
    · exact not_lt_of_le hx1 h
  have ea : a = s := eqpos a ha h1 (h3 s hsl (le_refl hn))
  have eb : b = s := eqpos b hb (h4 s hsl (le_refl hn)) h2
  subst ea
  subst eb
  rcases hc with ⟨_, hc⟩ | ⟨hq, _⟩
  · exact hc
  · rw [feq_refl hn] at hq; cases hq

/-- **At a stop's own position a scale with at least two stops yields that stop's colour**
(existence and exactness together). -/
theorem sample_at_stop_some (l : List (Stop P C)) (hs : SortedStops l) (s : Stop P C) (hsl : s ∈ l)
    (hn : isNaN s.2 = false) (h2 : 2 ≤ l.length) (mix : C → C → P → C) : sampleScale l s.2 mix = some s.1 := by
  have hle : s.2 ≤ s.2 := le_refl hn
  cases h : sampleScale l s.2 mix with
  | some c => rw [sample_at_stop l hs s hsl mix c h]
  | none =>
    exfalso
    unfold sampleScale at h
    have hlen : ¬ l.length < 2 := by omega
    simp only [hlen, if_false] at h
    have hl : (l.reverse.find? (fun c => decide (c.2 ≤ s.2))).isSome := by
      rw [List.find?_isSome]
      exact ⟨s, List.mem_reverse.mpr hsl, by simpa using hle⟩
    have hr : (l.find? (fun c => decide (s.2 ≤ c.2))).isSome := by
      rw [List.find?_isSome]
      exact ⟨s, hsl, by simpa using hle⟩
    obtain ⟨a, ha⟩ := Option.isSome_iff_exists.mp hl
    obtain ⟨b, hb⟩ := Option.isSome_iff_exists.mp hr
    rw [ha, hb] at h
    simp only [] at h
    split at h <;> cases h

/-! ### `pastel gradient`: exactly `N` colours, the first is `c₁`, the last is `c_k` (exact arithmetic) -/

section gradient
variable {C : Type}

theorem gradientStops_sorted (cs : List C) : SortedStops (gradientStops (P := ℝ) cs) := by
  have h := (reachable_sorted (P := ℝ) (cs.zipIdx.map (fun ci => (ci.1, (Sc.ofNat ci.2 / (Sc.ofNat cs.length - 1.0) : ℝ))))).1
  rw [List.foldl_map] at h
  exact h

/-- **`pastel gradient -n N c₁ … c_k`** (exact arithmetic, every `k ≥ 2`, `N ≥ 2`, every colour
space's mixing function): exactly `N` samples, the first is `c₁` itself and the last is `c_k`
itself; line `i` is by definition the sample of the evenly spaced scale at `i/(N−1)`. -/
theorem gradient_first_last (cs : List C) (hk : 2 ≤ cs.length) (N : Nat) (hN : 2 ≤ N) (mix : C → C → ℝ → C)
    (c1 ck : C) (h1 : cs.head? = some c1) (hl : cs.getLast? = some ck) :
    (gradient (P := ℝ) cs N mix).length = N ∧
    (gradient (P := ℝ) cs N mix)[0]? = some (some c1) ∧
    (gradient (P := ℝ) cs N mix)[N - 1]? = some (some ck) ∧
    ∀ i, i < N → (gradient (P := ℝ) cs N mix)[i]? =
      some (sampleScale (gradientStops (P := ℝ) cs) (fraction (Sc.ofNat i / (Sc.ofNat N - 1.0))) mix) := by
  have hK : (0 : ℝ) < (cs.length : ℝ) - 1 := by
    have : (2 : ℝ) ≤ (cs.length : ℝ) := by exact_mod_cast hk
    linarith
  have hNr : (0 : ℝ) < (N : ℝ) - 1 := by
    have : (2 : ℝ) ≤ (N : ℝ) := by exact_mod_cast hN
    linarith
  have hsorted := gradientStops_sorted cs
  have hstops := gradientStops_real cs hk
  have hlen2 : 2 ≤ (gradientStops (P := ℝ) cs).length := by
    rw [hstops]; simp [evenStops]; exact hk
  have hget : ∀ i, i < N → (gradient (P := ℝ) cs N mix)[i]? =
      some (sampleScale (gradientStops (P := ℝ) cs) (fraction (Sc.ofNat i / (Sc.ofNat N - 1.0))) mix) := by
    intro i hi
    unfold gradient
    simp [List.getElem?_map, List.getElem?_range hi]
  refine ⟨by simp [gradient], ?_, ?_, hget⟩
  · rw [hget 0 (by omega)]
    have hp : fraction (Sc.ofNat 0 / (Sc.ofNat N - 1.0) : ℝ) = 0 := by
      have e : (Sc.ofNat 0 / (Sc.ofNat N - 1.0) : ℝ) = 0 := by simp only [real_ofNat]; norm_num
      rw [e]; exact real_fraction_id 0 le_rfl (by norm_num)
    rw [hp]
    have hmem : ((c1, (0 : ℝ)) : Stop ℝ C) ∈ gradientStops (P := ℝ) cs := by
      rw [hstops]
      match cs, h1 with
      | c :: rest, h1 =>
        simp only [List.head?_cons, Option.some.injEq] at h1
        subst h1
        simp [evenStops, List.zipIdx_cons]
    have := sample_at_stop_some _ hsorted (c1, (0 : ℝ)) hmem rfl hlen2 mix
    simp only [] at this
    rw [this]
  · rw [hget (N - 1) (by omega)]
    have hp : fraction (Sc.ofNat (N - 1) / (Sc.ofNat N - 1.0) : ℝ) = 1 := by
      have e : (Sc.ofNat (N - 1) / (Sc.ofNat N - 1.0) : ℝ) = 1 := by
        simp only [real_ofNat]
        have : ((N - 1 : ℕ) : ℝ) = (N : ℝ) - 1 := by
          rw [Nat.cast_sub (by omega)]; norm_num
        rw [this]; norm_num
        exact hNr.ne'
      rw [e]; exact real_fraction_id 1 (by norm_num) le_rfl
    rw [hp]
    have hmem : ((ck, (1 : ℝ)) : Stop ℝ C) ∈ gradientStops (P := ℝ) cs := by
      rw [hstops]
      unfold evenStops
      rw [List.mem_map]
      refine ⟨(ck, cs.length - 1), ?_, ?_⟩
      · rw [List.mem_zipIdx_iff_getElem?]
        rw [← hl, List.getLast?_eq_getElem?]
      · simp only [Prod.mk.injEq, true_and]
        have : ((cs.length - 1 : ℕ) : ℝ) = (cs.length : ℝ) - 1 := by
          rw [Nat.cast_sub (by omega)]; norm_num
        rw [this]; exact div_self hK.ne'
    have := sample_at_stop_some _ hsorted (ck, (1 : ℝ)) hmem rfl hlen2 mix
    simp only [] at this
    rw [this]

end gradient

section clirun
open Pastel.Cli

/-- **`pastel gradient -n N c₁ … c_k` prints exactly `N` lines and succeeds** whenever `N ≥ 2` is a
readable count, there are at least two colour arguments and every one of them can be read (as an
argument or, for `-`, from stdin) — in every colour space; and it prints nothing at all when the
count is unreadable or below 2, when there are fewer than two colours, or when a colour cannot
be read (validation comes first). -/
theorem gradient_cli (n sp : String) (texts : List String) (stdin : List StdinLine) :
    (∀ count cs, parseUsize n.toList = some count → 2 ≤ count → 2 ≤ texts.length →
        collectArgs texts stdin = .ok cs →
        (run "gradient" [n, sp] texts stdin).lines.length = count ∧ (run "gradient" [n, sp] texts stdin).err = none) ∧
    (parseUsize n.toList = none → run "gradient" [n, sp] texts stdin = fail (.couldNotParseNumber n)) ∧
    (∀ count, parseUsize n.toList = some count → count < 2 → run "gradient" [n, sp] texts stdin = fail .gradientNumber) ∧
    (∀ count, parseUsize n.toList = some count → 2 ≤ count → texts.length < 2 →
        run "gradient" [n, sp] texts stdin = fail .gradientColorCount) ∧
    (∀ count e, parseUsize n.toList = some count → 2 ≤ count → 2 ≤ texts.length →
        collectArgs texts stdin = .error e → run "gradient" [n, sp] texts stdin = fail e) := by
  have hrun : run "gradient" [n, sp] texts stdin = runGradient [n, sp] texts stdin := by
    unfold run
    simp only [show ("gradient" = "mix") = False by decide, show ("gradient" = "gray") = False by decide, if_false, if_true]
  rw [hrun]
  refine ⟨?_, ?_, ?_, ?_, ?_⟩
  · intro count cs hp h2 hk hc
    unfold runGradient
    simp only [hp, hc]
    rw [if_neg (by omega), if_neg (by omega)]
    simp [gradient]
  · intro hp
    unfold runGradient
    simp only [hp]
  · intro count hp h2
    unfold runGradient
    simp only [hp]
    rw [if_pos h2]
  · intro count hp h2 hk
    unfold runGradient
    simp only [hp]
    rw [if_neg (by omega), if_pos hk]
  · intro count e hp h2 hk hc
    unfold runGradient
    simp only [hp, hc]
    rw [if_neg (by omega), if_neg (by omega)]

end clirun

/-- The same invariant for IEEE float positions. -/
theorem float_reachable_sorted {C : Type} (ops : List (C × Float)) :
    SortedStops (ops.foldl (fun (l : List (Stop Float C)) (o : C × Float) => addStop l o.1 (fraction o.2)) []) :=
  (reachable_sorted ops).1

/-- Non-vacuity: a three-operation history with a repeated and an out-of-order position. -/
example : (([((1 : Nat), (0.5 : Float)), (2, 0.25), (3, 0.5)]).foldl
    (fun (l : List (Stop Float Nat)) (o : Nat × Float) => addStop l o.1 (fraction o.2)) []).map (·.1) = [2, 3] := by
  decide +kernel

end Pastel.C08
