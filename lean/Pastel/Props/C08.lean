/-
C08 — colour scales (property theorems; order-only, hence valid for float positions).

Positions are `Fraction` values, which are never NaN (`C05.fraction_range`).
-/
import Pastel.Lemmas.Scale
import Pastel.Props.C05

namespace Pastel.C08
open Pastel Sc ScOrd

variable {P C : Type} [Sc P] [ScOrd P]
set_option linter.unusedSectionVars false

/-- **Invariant.** Adding a stop keeps the positions strictly increasing (so there is at most
one stop per position). -/
theorem addStop_sorted (l : List (Stop P C)) (c : C) (p : P) (hp : isNaN p = false)
    (hs : SortedStops l) (hn : ∀ s ∈ l, isNaN s.2 = false) : SortedStops (addStop l c p) := by
  unfold addStop
  split
  · next l' h => exact sorted_of_positions (replaceAt_positions c p l l' h) hs
  · next h => exact insertSorted_sorted c p hp l hs hn (replaceAt_none c p l h)

/-- No stop ever gets a NaN position. -/
theorem addStop_no_nan (l : List (Stop P C)) (c : C) (p : P) (hp : isNaN p = false)
    (hn : ∀ s ∈ l, isNaN s.2 = false) : ∀ s ∈ addStop l c p, isNaN s.2 = false := by
  unfold addStop
  split
  · next l' h =>
    intro s hs
    have hpos := replaceAt_positions c p l l' h
    have : s.2 ∈ l'.map (·.2) := List.mem_map_of_mem hs
    rw [hpos] at this
    obtain ⟨s0, hs0, e⟩ := List.mem_map.mp this
    rw [← e]; exact hn s0 hs0
  · intro s hs
    rcases insertSorted_mem c p l s hs with rfl | h
    · exact hp
    · exact hn s h

/-- **Every reachable scale** (any sequence of add-stop operations with `Fraction` positions,
from the empty scale) has strictly increasing, non-NaN positions. -/
theorem reachable_sorted (ops : List (C × P)) :
    let sc := ops.foldl (fun (l : List (Stop P C)) (o : C × P) => addStop l o.1 (fraction o.2)) []
    SortedStops sc ∧ ∀ s ∈ sc, isNaN s.2 = false := by
  simp only []
  suffices h : ∀ (ops : List (C × P)) (l : List (Stop P C)), SortedStops l → (∀ s ∈ l, isNaN s.2 = false) →
      SortedStops (ops.foldl (fun (l : List (Stop P C)) (o : C × P) => addStop l o.1 (fraction o.2)) l) ∧
      ∀ s ∈ ops.foldl (fun (l : List (Stop P C)) (o : C × P) => addStop l o.1 (fraction o.2)) l, isNaN s.2 = false by
    exact h ops [] List.Pairwise.nil (fun s hs => by cases hs)
  intro ops
  induction ops with
  | nil => intro l hs hn; exact ⟨hs, hn⟩
  | cons o os ih =>
    intro l hs hn
    simp only [List.foldl_cons]
    have hp : isNaN (fraction o.2) = false := (C05.fraction_range o.2).1
    exact ih _ (addStop_sorted l o.1 _ hp hs hn) (addStop_no_nan l o.1 _ hp hn)

/-- Sampling yields nothing with fewer than two stops. -/
theorem sample_short (l : List (Stop P C)) (p : P) (mix : C → C → P → C) (h : l.length < 2) :
    sampleScale l p mix = none := by
  unfold sampleScale; simp [h]

/-- Whenever sampling yields a colour it is `mix` of two stops of the scale, the left one at or
below the position and the right one at or above it, at the clamped local fraction. -/
theorem sample_some (l : List (Stop P C)) (p : P) (mix : C → C → P → C) (c : C)
    (h : sampleScale l p mix = some c) :
    ∃ a ∈ l, ∃ b ∈ l, a.2 ≤ p ∧ p ≤ b.2 ∧ c = mix a.1 b.1 (fraction ((p - a.2) / (b.2 - a.2))) := by
  unfold sampleScale at h
  split at h
  · cases h
  · simp only [] at h
    split at h
    · next a b ha hb =>
      simp only [Option.some.injEq] at h
      have ha' := List.find?_some ha
      have hb' := List.find?_some hb
      have hma : a ∈ l := by
        have := List.mem_of_find?_eq_some ha
        exact List.mem_reverse.mp this
      have hmb : b ∈ l := List.mem_of_find?_eq_some hb
      exact ⟨a, hma, b, hmb, by simpa using ha', by simpa using hb', h.symm⟩
    · cases h

/-- Outside the span of the stops (below the first / above the last position of a sorted
scale) sampling yields nothing: no stop is at or below (resp. above) the position. -/
theorem sample_outside (l : List (Stop P C)) (p : P) (mix : C → C → P → C)
    (h : (∀ s ∈ l, ¬ s.2 ≤ p) ∨ (∀ s ∈ l, ¬ p ≤ s.2)) : sampleScale l p mix = none := by
  unfold sampleScale
  split
  · rfl
  · simp only []
    rcases h with h | h
    · have : l.reverse.find? (fun c => decide (c.2 ≤ p)) = none := by
        apply List.find?_eq_none.mpr
        intro s hs; simpa using h s (List.mem_reverse.mp hs)
      simp [this]
    · have : l.find? (fun c => decide (p ≤ c.2)) = none := by
        apply List.find?_eq_none.mpr
        intro s hs; simpa using h s hs
      simp [this]

/-- The same invariant for IEEE float positions. -/
theorem float_reachable_sorted {C : Type} (ops : List (C × Float)) :
    SortedStops (ops.foldl (fun (l : List (Stop Float C)) (o : C × Float) => addStop l o.1 (fraction o.2)) []) :=
  (reachable_sorted ops).1

/-- Non-vacuity: a three-operation history with a repeated and an out-of-order position. -/
example : (([((1 : Nat), (0.5 : Float)), (2, 0.25), (3, 0.5)]).foldl
    (fun (l : List (Stop Float Nat)) (o : Nat × Float) => addStop l o.1 (fraction o.2)) []).map (·.1) = [2, 3] := by
  decide +kernel

end Pastel.C08
