/-
C02 — printed notations parse back (property theorems).

Proved: the hex digit codec is a bijection on bytes; on real IEEE floats, every
8-bit level survives `k/255 → ·255 → round` (what makes `rgb()` and hex alpha
exact); alpha printed with three decimals is within 1/2000 of the original and
hex alpha within 1/510 (exact arithmetic).  The numeric bounds for
hsl/hsv (≤ 3), OkLab (≤ 1) and Lab/LCh (CIE76 < 2.3) go through rounding and
`pow`: they are enumerated on the implementation (lattice quick, all 2^24
thorough), not proved.
-/
import Pastel.RealInst
import Pastel.Model.Format
import Pastel.Model.Parser
import Pastel.Props.C01
import Pastel.Lemmas.PrintParse
import Pastel.Props.C05
import Pastel.Lemmas.HueLipschitz
import Pastel.Lemmas.Quantize
import Pastel.Props.C03
import Pastel.Lemmas.HsvMix
import Pastel.Lemmas.HsvCone

namespace Pastel.C02
open Pastel

/-- `{:02x}` then hex-digit decoding is the identity on every byte. -/
theorem hex2_roundtrip : ∀ b : Fin 256,
    P.hexVal (Fmt.hexDigit (b.val / 16 % 16)) * 16 + P.hexVal (Fmt.hexDigit (b.val % 16)) = b.val := by
  decide +kernel

/-- Both hex digits of a byte are hex digits (so the printed form is in the hex grammar). -/
theorem hex2_digits : ∀ b : Fin 256,
    P.isHexDigit (Fmt.hexDigit (b.val / 16 % 16)) = true ∧ P.isHexDigit (Fmt.hexDigit (b.val % 16)) = true := by
  decide +kernel

/-- **On IEEE binary64**: every 8-bit level `k` survives `k / 255 → × 255 → round`: the hex
alpha `AA/255` printed as `round(α·255)` reproduces `AA`, and `rgb()` channels are exact. -/
theorem level_roundtrip_float : ∀ k : Fin 256,
    (F.round (Float.ofNat k.val / 255.0 * 255.0)).toUInt8.toNat = k.val := by
  decide +kernel

/-- …and through `quantize` (clamp to `[0,255]`, round, cast), as the float-RGB constructor does. -/
theorem quantize_level_float : ∀ k : Fin 256,
    (quantize (Float.ofNat k.val / 255.0 : Float)).toNat = k.val := by
  decide +kernel

/-- Alpha printed with (at most) three decimals is within `1/2000` of the original
(exact arithmetic; `Sc.round` at `ℝ` is round-half-away-from-zero). -/
theorem alpha_three_decimals (a : ℝ) (h0 : 0 ≤ a) :
    |Sc.round (a * 1000) / 1000 - a| ≤ 1 / 2000 := by
  have hr : Sc.round (a * 1000) = (⌊a * 1000 + 1 / 2⌋ : ℝ) := by
    show (if 0 ≤ a * 1000 then (⌊a * 1000 + 1 / 2⌋ : ℝ) else (⌈a * 1000 - 1 / 2⌉ : ℝ)) = _
    have : 0 ≤ a * 1000 := by positivity
    simp only [this, if_true]
  rw [hr]
  have h1 := Int.floor_le (a * 1000 + 1 / 2)
  have h2 := Int.lt_floor_add_one (a * 1000 + 1 / 2)
  rw [abs_le]
  constructor <;> (rw [div_sub' (by norm_num : (1000 : ℝ) ≠ 0)]) <;>
    [rw [le_div_iff₀ (by norm_num)]; rw [div_le_iff₀ (by norm_num)]] <;> linarith

/-- Hex alpha (`round(α·255)/255`) is within `1/510` of the original. -/
theorem alpha_hex (a : ℝ) (h0 : 0 ≤ a) :
    |Sc.round (a * 255) / 255 - a| ≤ 1 / 510 := by
  have hr : Sc.round (a * 255) = (⌊a * 255 + 1 / 2⌋ : ℝ) := by
    show (if 0 ≤ a * 255 then (⌊a * 255 + 1 / 2⌋ : ℝ) else (⌈a * 255 - 1 / 2⌉ : ℝ)) = _
    have : 0 ≤ a * 255 := by positivity
    simp only [this, if_true]
  rw [hr]
  have h1 := Int.floor_le (a * 255 + 1 / 2)
  have h2 := Int.lt_floor_add_one (a * 255 + 1 / 2)
  rw [abs_le]
  constructor <;> (rw [div_sub' (by norm_num : (255 : ℝ) ≠ 0)]) <;>
    [rw [le_div_iff₀ (by norm_num)]; rw [div_le_iff₀ (by norm_num)]] <;> linarith

/-- Witnesses of Rust's `{:.N}` semantics in the model: round-half-even on the exact binary
value (`0.25 → 0.2`, `0.45 → 0.5` because `0.45` is slightly above the tie, `2.5 → 2`,
`-0.4 → -0`). -/
theorem fixed_examples :
    Fmt.fixed 0.25 1 = "0.2" ∧ Fmt.fixed 0.45 1 = "0.5" ∧ Fmt.fixed 2.5 0 = "2" ∧
    Fmt.fixed (-0.4) 0 = "-0" ∧ Fmt.fixed 359.5 0 = "360" ∧ Fmt.fixed 99.95 1 = "100.0" := by
  decide +kernel

/-- Alpha `1` is elided and any other alpha is printed, by all formatters (sample witnesses on
floats; the general statement is exercised by the check on every colour). -/
theorem alpha_elision_examples :
    Fmt.hslString (fromHsla 120.0 0.5 0.5 1.0) false = "hsl(120,50.0%,50.0%)" ∧
    Fmt.hslString (fromHsla 120.0 0.5 0.5 0.4) true = "hsla(120, 50.0%, 50.0%, 0.4)" ∧
    Fmt.hexString (fromRgba8 255 0 119 1.0) true = "#ff0077" ∧
    Fmt.hexString (fromRgba8 255 0 119 0.5) true = "#ff007780" := by
  decide +kernel


/-! ### Print → parse, hex notation: a theorem about the formatter and the parser together -/

section hexrt
open Pastel.P

theorem hexDigit_not_ws : ∀ n : Fin 16, isWhitespace (Fmt.hexDigit n.val) = false := by decide +kernel

/-- **Print → parse for the hex notation, every opaque 8-bit colour at once**: the six digits
that `{:02x}{:02x}{:02x}` prints for the bytes `(r, g, b)`, prefixed by `#`, are accepted by
`parse_color` and denote exactly `from_rgb(r, g, b)`. -/
theorem hex_print_parse (r g b : UInt8) :
    parseColor (['#', Fmt.hexDigit (r.toNat / 16 % 16), Fmt.hexDigit (r.toNat % 16),
      Fmt.hexDigit (g.toNat / 16 % 16), Fmt.hexDigit (g.toNat % 16),
      Fmt.hexDigit (b.toNat / 16 % 16), Fmt.hexDigit (b.toNat % 16)]) = some (fromRgba8 r g b 1.0) := by
  have hr := hex2_roundtrip ⟨r.toNat, r.toNat_lt⟩
  have hg := hex2_roundtrip ⟨g.toNat, g.toNat_lt⟩
  have hb := hex2_roundtrip ⟨b.toNat, b.toNat_lt⟩
  have dr := hex2_digits ⟨r.toNat, r.toNat_lt⟩
  have dg := hex2_digits ⟨g.toNat, g.toNat_lt⟩
  have db := hex2_digits ⟨b.toNat, b.toNat_lt⟩
  simp only at hr hg hb dr dg db
  unfold parseColor parseColorWith
  have htrim : trim ['#', Fmt.hexDigit (r.toNat / 16 % 16), Fmt.hexDigit (r.toNat % 16),
      Fmt.hexDigit (g.toNat / 16 % 16), Fmt.hexDigit (g.toNat % 16),
      Fmt.hexDigit (b.toNat / 16 % 16), Fmt.hexDigit (b.toNat % 16)] = _ :=
    trim_id '#' [Fmt.hexDigit (r.toNat / 16 % 16), Fmt.hexDigit (r.toNat % 16),
      Fmt.hexDigit (g.toNat / 16 % 16), Fmt.hexDigit (g.toNat % 16),
      Fmt.hexDigit (b.toNat / 16 % 16)] (Fmt.hexDigit (b.toNat % 16)) (by decide)
      (hexDigit_not_ws ⟨b.toNat % 16, by omega⟩)
  simp only [List.cons_append, List.nil_append] at htrim
  rw [htrim]
  unfold altList allConsuming
  rw [C01.hex6_meaning _ _ _ _ _ _ (by
    intro x hx
    simp only [List.mem_cons, List.mem_nil_iff, or_false] at hx
    rcases hx with rfl | rfl | rfl | rfl | rfl | rfl
    · exact dr.1
    · exact dr.2
    · exact dg.1
    · exact dg.2
    · exact db.1
    · exact db.2)]
  simp only [hr, hg, hb, UInt8.ofNat_toNat]


theorem hexString_opaque (c : Color Float) (h : ((toRgba8 c).alpha == 1.0) = true) :
    (Fmt.hexString c true).toList =
      ['#', Fmt.hexDigit ((toRgba8 c).r.toNat / 16 % 16), Fmt.hexDigit ((toRgba8 c).r.toNat % 16),
        Fmt.hexDigit ((toRgba8 c).g.toNat / 16 % 16), Fmt.hexDigit ((toRgba8 c).g.toNat % 16),
        Fmt.hexDigit ((toRgba8 c).b.toNat / 16 % 16), Fmt.hexDigit ((toRgba8 c).b.toNat % 16)] := by
  unfold Fmt.hexString Fmt.hex2
  simp only [h, if_true, String.toList_append, String.toList_ofList]
  rfl

/-- **What pastel prints in hex for an opaque colour, pastel reads back as exactly the 8-bit
colour it printed** — for every colour. -/
theorem hexString_parses_back (c : Color Float) (h : ((toRgba8 c).alpha == 1.0) = true) :
    parseColor (Fmt.hexString c true).toList =
      some (fromRgba8 (toRgba8 c).r (toRgba8 c).g (toRgba8 c).b 1.0) := by
  rw [hexString_opaque c h]
  exact hex_print_parse _ _ _


end hexrt

/-! ### Print → parse, `rgb()` notation: formatter, number grammar and parser together, for every
run of decimal digits (not only the 256 that are printed) -/

section rgbrt
open Pastel.P

/-- The decimal digits pastel prints for a byte. -/
def byteDigits (k : Nat) : List Char := (toString k).toList

/-- For every byte: its printed digits are a non-empty run of decimal digits, and Rust's
`parse::<f64>` of that text is the byte as a float. -/
theorem byteDigits_spec : ∀ k : Fin 256,
    byteDigits k.val ≠ [] ∧ (byteDigits k.val).all isDigit = true ∧ digitsVal (byteDigits k.val) = Float.ofNat k.val := by
  decide +kernel

theorem quantize_byte (r : UInt8) : quantize (Float.ofNat r.toNat / 255.0 : Float) = r := by
  have := quantize_level_float ⟨r.toNat, r.toNat_lt⟩
  simp only at this
  exact UInt8.toNat_inj.mp this

/-- **Print → parse for the `rgb()` notation, every opaque 8-bit colour at once**: the text
`rgb(R,G,B)` (or `rgb(R, G, B)`) that pastel prints for the bytes `(r, g, b)` is accepted by
`parse_color` and denotes exactly `from_rgb(r, g, b)`. -/
theorem rgb_print_parse (r g b : UInt8) (sp : List Char) (hsp : sp = [] ∨ sp = [' ']) :
    parseColor ('r' :: 'g' :: 'b' :: '(' :: (byteDigits r.toNat ++ ',' :: (sp ++ (byteDigits g.toNat ++ ',' ::
      (sp ++ (byteDigits b.toNat ++ [')'])))))) = some (fromRgba8 r g b 1.0) := by
  obtain ⟨nr, dr, vr⟩ := byteDigits_spec ⟨r.toNat, r.toNat_lt⟩
  obtain ⟨ng, dg, vg⟩ := byteDigits_spec ⟨g.toNat, g.toNat_lt⟩
  obtain ⟨nb, db, vb⟩ := byteDigits_spec ⟨b.toNat, b.toNat_lt⟩
  simp only at nr dr vr ng dg vg nb db vb
  match hA : byteDigits r.toNat, hB : byteDigits g.toNat, hC : byteDigits b.toNat with
  | [], _, _ => exact absurd hA nr
  | _ :: _, [], _ => exact absurd hB ng
  | _ :: _, _ :: _, [] => exact absurd hC nb
  | a :: as, b' :: bs, c :: cs =>
    rw [hA] at dr vr; rw [hB] at dg vg; rw [hC] at db vb
    rw [C01.rgb_digits_meaning a as b' bs c cs sp hsp dr dg db, vr, vg, vb]
    unfold fromRgbaFloat
    rw [quantize_byte, quantize_byte, quantize_byte]


theorem rgbString_opaque (c : Color Float) (spaces : Bool) (h : (c.alpha == 1.0) = true) :
    (Fmt.rgbString c spaces).toList =
      'r' :: 'g' :: 'b' :: '(' :: (byteDigits (toRgba8 c).r.toNat ++ ',' :: ((Fmt.sp spaces).toList ++
        (byteDigits (toRgba8 c).g.toNat ++ ',' :: ((Fmt.sp spaces).toList ++ (byteDigits (toRgba8 c).b.toNat ++ [')']))))) := by
  unfold Fmt.rgbString byteDigits
  simp only [h, if_true, String.toList_append]
  simp

/-- **What pastel prints as `rgb(…)` for an opaque colour, pastel reads back as exactly the 8-bit
colour it printed** — for every colour and both spacings. -/
theorem rgbString_parses_back (c : Color Float) (spaces : Bool) (h : (c.alpha == 1.0) = true) :
    parseColor (Fmt.rgbString c spaces).toList =
      some (fromRgba8 (toRgba8 c).r (toRgba8 c).g (toRgba8 c).b 1.0) := by
  rw [rgbString_opaque c spaces h]
  apply rgb_print_parse
  unfold Fmt.sp
  cases spaces <;> simp

end rgbrt

/-! ### Print → parse, `hsl()` notation: `{:.0}` / `{:.1}` formatting, signs, the fixed-point number
grammar and the parser together -/

open Pastel.P
section hslrt

/-- The number Rust's `parse::<f64>` reads from what `{:.prec}` printed for `x`. -/
def printedValue (x : Float) (prec : Nat) : Float :=
  let (neg, m, e) := F.decode x
  (Num.dec neg (Fmt.scaledRound m e prec) (-(prec : Int))).toFloat

/-- **The `hsl(` shape**: optionally signed integer hue, optionally signed fixed-point percentages,
one optional blank after each comma — accepted, denoting `from_hsla` of the numbers as written. -/
theorem hsl_shape_parses (hn sn ln : Bool) (h : Char) (hs : List Char) (a : Char) (as sf : List Char)
    (b : Char) (bs lf : List Char) (sp : List Char) (hsp : sp = [] ∨ sp = [' '])
    (hh : (h :: hs).all isDigit = true) (ha : (a :: as).all isDigit = true) (hsf : sf.all isDigit = true)
    (hb : (b :: bs).all isDigit = true) (hlf : lf.all isDigit = true) :
    parseColor ('h' :: 's' :: 'l' :: '(' :: (signL hn ++ ((h :: hs) ++ ',' :: (sp ++ (signL sn ++ ((a :: as) ++ '.' :: (sf ++ '%' ::
        ',' :: (sp ++ (signL ln ++ ((b :: bs) ++ '.' :: (lf ++ ['%', ')']))))))))))) =
      some (fromHsla (Num.dec hn (digitsToNat (h :: hs)) 0).toFloat
        ((Num.dec sn (digitsToNat ((a :: as) ++ sf)) (-(sf.length : Int))).toFloat / 100.0)
        ((Num.dec ln (digitsToNat ((b :: bs) ++ lf)) (-(lf.length : Int))).toFloat / 100.0) 1.0) := by
  have hdh : isDigit h = true := by simp only [List.all_cons, Bool.and_eq_true] at hh; exact hh.1
  have hda : isDigit a = true := by simp only [List.all_cons, Bool.and_eq_true] at ha; exact ha.1
  have hdb : isDigit b = true := by simp only [List.all_cons, Bool.and_eq_true] at hb; exact hb.1
  -- the three segments
  generalize hL : signL ln ++ ((b :: bs) ++ '.' :: (lf ++ ['%', ')'])) = Lseg
  generalize hS : signL sn ++ ((a :: as) ++ '.' :: (sf ++ '%' :: ',' :: (sp ++ Lseg))) = Sseg
  generalize hH : signL hn ++ ((h :: hs) ++ ',' :: (sp ++ Sseg)) = Hseg
  have h3 : three angle percentage percentage true Hseg = .ok []
      ((Num.dec hn (digitsToNat (h :: hs)) 0).toFloat,
       (Num.dec sn (digitsToNat ((a :: as) ++ sf)) (-(sf.length : Int))).toFloat / 100.0,
       (Num.dec ln (digitsToNat ((b :: bs) ++ lf)) (-(lf.length : Int))).toFloat / 100.0, 1.0) := by
    obtain ⟨x1, xs1, e1, nb1⟩ := isBlank_sign_digit hn h (hs ++ ',' :: (sp ++ Sseg)) hdh
    obtain ⟨x2, xs2, e2, nb2⟩ := isBlank_sign_digit sn a (as ++ '.' :: (sf ++ '%' :: ',' :: (sp ++ Lseg))) hda
    obtain ⟨x3, xs3, e3, nb3⟩ := isBlank_sign_digit ln b (bs ++ '.' :: (lf ++ ['%', ')'])) hdb
    have eH : Hseg = x1 :: xs1 := by rw [← hH, ← e1]; rfl
    have eS : Sseg = x2 :: xs2 := by rw [← hS, ← e2]; rfl
    have eL : Lseg = x3 :: xs3 := by rw [← hL, ← e3]; rfl
    apply three_ok angle percentage percentage Hseg (',' :: (sp ++ Sseg)) Sseg (',' :: (sp ++ Lseg)) Lseg
    · rw [eH, space0_nonblank x1 xs1 nb1, ← eH, ← hH]
      exact angle_sint_comma hn h hs _ hh
    · rw [eS]; exact separator_comma_nb sp hsp x2 xs2 nb2
    · rw [← hS]
      exact percentage_sfrac sn a as sf _ ha hsf
    · rw [eL]; exact separator_comma_nb sp hsp x3 xs3 nb3
    · rw [← hL]
      exact percentage_sfrac ln b bs lf [')'] hb hlf
  have hXl : ∃ mid, Hseg = mid ++ [')'] := by
    refine ⟨signL hn ++ ((h :: hs) ++ ',' :: (sp ++ (signL sn ++ ((a :: as) ++ '.' :: (sf ++ '%' :: ',' :: (sp ++
      (signL ln ++ ((b :: bs) ++ '.' :: (lf ++ ['%']))))))))), ?_⟩
    rw [← hH, ← hS, ← hL]; simp
  obtain ⟨mid, hmid⟩ := hXl
  have htrim : trim ('h' :: 's' :: 'l' :: '(' :: Hseg) = 'h' :: 's' :: 'l' :: '(' :: Hseg := by
    rw [hmid]
    exact trim_id 'h' ('s' :: 'l' :: '(' :: mid) ')' (by decide) (by decide)
  have hhsl : parseHsl ('h' :: 's' :: 'l' :: '(' :: Hseg) = .ok [] (fromHsla (Num.dec hn (digitsToNat (h :: hs)) 0).toFloat
        ((Num.dec sn (digitsToNat ((a :: as) ++ sf)) (-(sf.length : Int))).toFloat / 100.0)
        ((Num.dec ln (digitsToNat ((b :: bs) ++ lf)) (-(lf.length : Int))).toFloat / 100.0) 1.0) := by
    unfold parseHsl tag2 tag
    simp [List.isPrefixOf, h3, PR.bind]
  unfold parseColor parseColorWith
  rw [htrim]
  rw [altList_cons_err _ _ _ (allConsuming_err _ _ (parseHex_start _ _ (by decide) (by decide))),
    altList_cons_err _ _ _ (allConsuming_err _ _ (parseNumericRgb_start _ _ notNumStart_h)),
    altList_cons_err _ _ _ (allConsuming_err _ _ (parsePercentageRgb_start _ _ notNumStart_h)),
    altList_cons_ok _ _ _ _ _ (allConsuming_ok _ _ _ hhsl)]

end hslrt

section hslrt2

theorem fixed_toList (x : Float) (prec : Nat) (hn : x.isNaN = false) (hi : x.isInf = false) :
    (Fmt.fixed x prec).toList = signL (F.decode x).1 ++
      (Fmt.placePoint (Fmt.scaledRound (F.decode x).2.1 (F.decode x).2.2 prec) prec).toList := by
  unfold Fmt.fixed signL
  simp only [hn, hi]
  generalize F.decode x = p
  obtain ⟨neg, m, e⟩ := p
  cases neg <;> simp

/-- What `{:.1}` prints: a non-empty run of digits, a point, one digit — and the value of those
digits is the scaled rounding. -/
theorem placePoint_one (q : Nat) : ∃ (a : Char) (as : List Char) (f : Char),
    (Fmt.placePoint q 1).toList = (a :: as) ++ '.' :: [f] ∧ (a :: as).all isDigit = true ∧ [f].all isDigit = true ∧
      digitsToNat ((a :: as) ++ [f]) = q := by
  obtain ⟨hlen, hall, hval⟩ := paddedDigits_spec q 1
  have hpp := placePoint_pos q 1 (by decide)
  generalize paddedDigits q 1 = pd at *
  have hsplit : pd.take (pd.length - 1) ++ pd.drop (pd.length - 1) = pd := List.take_append_drop _ _
  have htl : (pd.take (pd.length - 1)).length = pd.length - 1 := by rw [List.length_take]; omega
  have hdl : (pd.drop (pd.length - 1)).length = 1 := by rw [List.length_drop]; omega
  have hallt : (pd.take (pd.length - 1)).all isDigit = true := by
    rw [List.all_eq_true] at hall ⊢
    intro c hc; exact hall c (List.mem_of_mem_take hc)
  have halld : (pd.drop (pd.length - 1)).all isDigit = true := by
    rw [List.all_eq_true] at hall ⊢
    intro c hc; exact hall c (List.mem_of_mem_drop hc)
  match hT : pd.take (pd.length - 1), hD : pd.drop (pd.length - 1) with
  | [], _ => rw [hT] at htl; simp at htl; omega
  | a :: as, [] => rw [hD] at hdl; simp at hdl
  | a :: as, [f] =>
    refine ⟨a, as, f, ?_, ?_, ?_, ?_⟩
    · rw [hpp, hT, hD]
    · rw [← hT]; exact hallt
    · rw [← hD]; exact halld
    · rw [← hT, ← hD, hsplit]; exact hval
  | a :: as, f :: g :: r => rw [hD] at hdl; simp at hdl

end hslrt2

section hslrt3

def finiteF (x : Float) : Prop := x.isNaN = false ∧ x.isInf = false

/-- **What pastel prints as `hsl(…)` for an opaque colour is accepted by `parse_color` and denotes
`from_hsla` of exactly the decimal numbers printed** (the hue rounded to an integer, the two
percentages rounded half-to-even to one decimal) — for every colour whose three printed numbers
are finite (every valid colour), both spacings, either sign of zero. -/
theorem hslString_parses_back (c : Color Float) (spaces : Bool) (h : (c.alpha == 1.0) = true)
    (fh : finiteF (hueValue c.hue)) (fs : finiteF (100.0 * c.sat)) (fl : finiteF (100.0 * c.light)) :
    parseColor (Fmt.hslString c spaces).toList =
      some (fromHsla (printedValue (hueValue c.hue) 0) (printedValue (100.0 * c.sat) 1 / 100.0)
        (printedValue (100.0 * c.light) 1 / 100.0) 1.0) := by
  -- the three printed numbers
  have tH := fixed_toList (hueValue c.hue) 0 fh.1 fh.2
  have tS := fixed_toList (100.0 * c.sat) 1 fs.1 fs.2
  have tL := fixed_toList (100.0 * c.light) 1 fl.1 fl.2
  unfold printedValue
  generalize F.decode (hueValue c.hue) = pH at tH ⊢
  generalize F.decode (100.0 * c.sat) = pS at tS ⊢
  generalize F.decode (100.0 * c.light) = pL at tL ⊢
  obtain ⟨hn, mh, eh⟩ := pH
  obtain ⟨sn, ms, es⟩ := pS
  obtain ⟨ln, ml, el⟩ := pL
  simp only at tH tS tL ⊢
  obtain ⟨hne, hall, hval⟩ := natDigits_spec (Fmt.scaledRound mh eh 0)
  rw [placePoint_zero] at tH
  obtain ⟨a, as, sf, eS, hSa, hSf, vS⟩ := placePoint_one (Fmt.scaledRound ms es 1)
  obtain ⟨b, bs, lf, eL, hLb, hLf, vL⟩ := placePoint_one (Fmt.scaledRound ml el 1)
  rw [eS] at tS; rw [eL] at tL
  generalize (Fmt.natDigits (Fmt.scaledRound mh eh 0)).toList = HD at hne hall hval tH
  cases HD with
  | nil => exact absurd rfl hne
  | cons hd hds =>
    have hsp : (Fmt.sp spaces).toList = [] ∨ (Fmt.sp spaces).toList = [' '] := by
      unfold Fmt.sp; cases spaces <;> simp
    have shape : (Fmt.hslString c spaces).toList =
        'h' :: 's' :: 'l' :: '(' :: (signL hn ++ ((hd :: hds) ++ ',' :: ((Fmt.sp spaces).toList ++ (signL sn ++ ((a :: as) ++ '.' :: ([sf] ++ '%' ::
          ',' :: ((Fmt.sp spaces).toList ++ (signL ln ++ ((b :: bs) ++ '.' :: ([lf] ++ ['%', ')'])))))))))) := by
      unfold Fmt.hslString
      simp only [h, if_true, String.toList_append, tH, tS, tL]
      simp
    rw [shape, hsl_shape_parses hn sn ln hd hds a as [sf] b bs [lf] _ hsp hall hSa hSf hLb hLf]
    rw [hval, vS, vL]
    rfl

end hslrt3

/-! ### The same for `hsv()` -/

/-- **The `hsv(` shape**: optionally signed integer hue, optionally signed fixed-point percentages,
one optional blank after each comma — accepted, denoting `from_hsva` of the numbers as written. -/
theorem hsv_shape_parses (hn sn ln : Bool) (h : Char) (hs : List Char) (a : Char) (as sf : List Char)
    (b : Char) (bs lf : List Char) (sp : List Char) (hsp : sp = [] ∨ sp = [' '])
    (hh : (h :: hs).all isDigit = true) (ha : (a :: as).all isDigit = true) (hsf : sf.all isDigit = true)
    (hb : (b :: bs).all isDigit = true) (hlf : lf.all isDigit = true) :
    parseColor ('h' :: 's' :: 'v' :: '(' :: (signL hn ++ ((h :: hs) ++ ',' :: (sp ++ (signL sn ++ ((a :: as) ++ '.' :: (sf ++ '%' ::
        ',' :: (sp ++ (signL ln ++ ((b :: bs) ++ '.' :: (lf ++ ['%', ')']))))))))))) =
      some (fromHsva (Num.dec hn (digitsToNat (h :: hs)) 0).toFloat
        ((Num.dec sn (digitsToNat ((a :: as) ++ sf)) (-(sf.length : Int))).toFloat / 100.0)
        ((Num.dec ln (digitsToNat ((b :: bs) ++ lf)) (-(lf.length : Int))).toFloat / 100.0) 1.0) := by
  have hdh : isDigit h = true := by simp only [List.all_cons, Bool.and_eq_true] at hh; exact hh.1
  have hda : isDigit a = true := by simp only [List.all_cons, Bool.and_eq_true] at ha; exact ha.1
  have hdb : isDigit b = true := by simp only [List.all_cons, Bool.and_eq_true] at hb; exact hb.1
  -- the three segments
  generalize hL : signL ln ++ ((b :: bs) ++ '.' :: (lf ++ ['%', ')'])) = Lseg
  generalize hS : signL sn ++ ((a :: as) ++ '.' :: (sf ++ '%' :: ',' :: (sp ++ Lseg))) = Sseg
  generalize hH : signL hn ++ ((h :: hs) ++ ',' :: (sp ++ Sseg)) = Hseg
  have h3 : three angle percentage percentage true Hseg = .ok []
      ((Num.dec hn (digitsToNat (h :: hs)) 0).toFloat,
       (Num.dec sn (digitsToNat ((a :: as) ++ sf)) (-(sf.length : Int))).toFloat / 100.0,
       (Num.dec ln (digitsToNat ((b :: bs) ++ lf)) (-(lf.length : Int))).toFloat / 100.0, 1.0) := by
    obtain ⟨x1, xs1, e1, nb1⟩ := isBlank_sign_digit hn h (hs ++ ',' :: (sp ++ Sseg)) hdh
    obtain ⟨x2, xs2, e2, nb2⟩ := isBlank_sign_digit sn a (as ++ '.' :: (sf ++ '%' :: ',' :: (sp ++ Lseg))) hda
    obtain ⟨x3, xs3, e3, nb3⟩ := isBlank_sign_digit ln b (bs ++ '.' :: (lf ++ ['%', ')'])) hdb
    have eH : Hseg = x1 :: xs1 := by rw [← hH, ← e1]; rfl
    have eS : Sseg = x2 :: xs2 := by rw [← hS, ← e2]; rfl
    have eL : Lseg = x3 :: xs3 := by rw [← hL, ← e3]; rfl
    apply three_ok angle percentage percentage Hseg (',' :: (sp ++ Sseg)) Sseg (',' :: (sp ++ Lseg)) Lseg
    · rw [eH, space0_nonblank x1 xs1 nb1, ← eH, ← hH]
      exact angle_sint_comma hn h hs _ hh
    · rw [eS]; exact separator_comma_nb sp hsp x2 xs2 nb2
    · rw [← hS]
      exact percentage_sfrac sn a as sf _ ha hsf
    · rw [eL]; exact separator_comma_nb sp hsp x3 xs3 nb3
    · rw [← hL]
      exact percentage_sfrac ln b bs lf [')'] hb hlf
  have hXl : ∃ mid, Hseg = mid ++ [')'] := by
    refine ⟨signL hn ++ ((h :: hs) ++ ',' :: (sp ++ (signL sn ++ ((a :: as) ++ '.' :: (sf ++ '%' :: ',' :: (sp ++
      (signL ln ++ ((b :: bs) ++ '.' :: (lf ++ ['%']))))))))), ?_⟩
    rw [← hH, ← hS, ← hL]; simp
  obtain ⟨mid, hmid⟩ := hXl
  have htrim : trim ('h' :: 's' :: 'v' :: '(' :: Hseg) = 'h' :: 's' :: 'v' :: '(' :: Hseg := by
    rw [hmid]
    exact trim_id 'h' ('s' :: 'v' :: '(' :: mid) ')' (by decide) (by decide)
  have hhsl0 : parseHsl ('h' :: 's' :: 'v' :: '(' :: Hseg) = .err := by
    unfold parseHsl tag2 tag
    simp [List.isPrefixOf, PR.bind]
  have hhsl : parseHsv ('h' :: 's' :: 'v' :: '(' :: Hseg) = .ok [] (fromHsva (Num.dec hn (digitsToNat (h :: hs)) 0).toFloat
        ((Num.dec sn (digitsToNat ((a :: as) ++ sf)) (-(sf.length : Int))).toFloat / 100.0)
        ((Num.dec ln (digitsToNat ((b :: bs) ++ lf)) (-(lf.length : Int))).toFloat / 100.0) 1.0) := by
    unfold parseHsv tag2 tag
    simp [List.isPrefixOf, h3, PR.bind]
  unfold parseColor parseColorWith
  rw [htrim]
  rw [altList_cons_err _ _ _ (allConsuming_err _ _ (parseHex_start _ _ (by decide) (by decide))),
    altList_cons_err _ _ _ (allConsuming_err _ _ (parseNumericRgb_start _ _ notNumStart_h)),
    altList_cons_err _ _ _ (allConsuming_err _ _ (parsePercentageRgb_start _ _ notNumStart_h)),
    altList_cons_err _ _ _ (allConsuming_err _ _ hhsl0),
    altList_cons_ok _ _ _ _ _ (allConsuming_ok _ _ _ hhsl)]


/-- **What pastel prints as `hsv(…)` for an opaque colour is accepted by `parse_color` and denotes
`from_hsva` of exactly the decimal numbers printed** (the hue rounded to an integer, the two
percentages rounded half-to-even to one decimal) — for every colour whose three printed numbers
are finite (every valid colour), both spacings, either sign of zero. -/
theorem hsvString_parses_back (c : Color Float) (spaces : Bool) (h : ((toHsva c).alpha == 1.0) = true)
    (fh : finiteF (toHsva c).x) (fs : finiteF (100.0 * (toHsva c).y)) (fl : finiteF (100.0 * (toHsva c).z)) :
    parseColor (Fmt.hsvString c spaces).toList =
      some (fromHsva (printedValue (toHsva c).x 0) (printedValue (100.0 * (toHsva c).y) 1 / 100.0)
        (printedValue (100.0 * (toHsva c).z) 1 / 100.0) 1.0) := by
  -- the three printed numbers
  have tH := fixed_toList (toHsva c).x 0 fh.1 fh.2
  have tS := fixed_toList (100.0 * (toHsva c).y) 1 fs.1 fs.2
  have tL := fixed_toList (100.0 * (toHsva c).z) 1 fl.1 fl.2
  unfold printedValue
  generalize F.decode (toHsva c).x = pH at tH ⊢
  generalize F.decode (100.0 * (toHsva c).y) = pS at tS ⊢
  generalize F.decode (100.0 * (toHsva c).z) = pL at tL ⊢
  obtain ⟨hn, mh, eh⟩ := pH
  obtain ⟨sn, ms, es⟩ := pS
  obtain ⟨ln, ml, el⟩ := pL
  simp only at tH tS tL ⊢
  obtain ⟨hne, hall, hval⟩ := natDigits_spec (Fmt.scaledRound mh eh 0)
  rw [placePoint_zero] at tH
  obtain ⟨a, as, sf, eS, hSa, hSf, vS⟩ := placePoint_one (Fmt.scaledRound ms es 1)
  obtain ⟨b, bs, lf, eL, hLb, hLf, vL⟩ := placePoint_one (Fmt.scaledRound ml el 1)
  rw [eS] at tS; rw [eL] at tL
  generalize (Fmt.natDigits (Fmt.scaledRound mh eh 0)).toList = HD at hne hall hval tH
  cases HD with
  | nil => exact absurd rfl hne
  | cons hd hds =>
    have hsp : (Fmt.sp spaces).toList = [] ∨ (Fmt.sp spaces).toList = [' '] := by
      unfold Fmt.sp; cases spaces <;> simp
    have shape : (Fmt.hsvString c spaces).toList =
        'h' :: 's' :: 'v' :: '(' :: (signL hn ++ ((hd :: hds) ++ ',' :: ((Fmt.sp spaces).toList ++ (signL sn ++ ((a :: as) ++ '.' :: ([sf] ++ '%' ::
          ',' :: ((Fmt.sp spaces).toList ++ (signL ln ++ ((b :: bs) ++ '.' :: ([lf] ++ ['%', ')'])))))))))) := by
      unfold Fmt.hsvString
      simp only [h, if_true, String.toList_append, tH, tS, tL]
      simp
    rw [shape, hsv_shape_parses hn sn ln hd hds a as [sf] b bs [lf] _ hsp hall hSa hSf hLb hLf]
    rw [hval, vS, vL]
    rfl

/-! ### Print → parse for `Lab(…)` and `LCh(…)` -/

/-- **The `Lab(` shape pastel prints**: three optionally signed integers — accepted, denoting
`from_lab` of the numbers as written. -/
theorem lab_shape_parses (an bn cn : Bool) (a : Char) (as : List Char) (b : Char) (bs : List Char)
    (c : Char) (cs : List Char) (sp : List Char) (hsp : sp = [] ∨ sp = [' '])
    (ha : (a :: as).all isDigit = true) (hb : (b :: bs).all isDigit = true) (hc : (c :: cs).all isDigit = true) :
    parseColor ('L' :: 'a' :: 'b' :: '(' :: (signL an ++ ((a :: as) ++ ',' :: (sp ++ (signL bn ++ ((b :: bs) ++ ',' :: (sp ++
        (signL cn ++ ((c :: cs) ++ [')']))))))))) =
      some (fromLab (Num.dec an (digitsToNat (a :: as)) 0).toFloat (Num.dec bn (digitsToNat (b :: bs)) 0).toFloat
        (Num.dec cn (digitsToNat (c :: cs)) 0).toFloat 1.0) := by
  have h3 := three_sints number an bn cn a as b bs c cs sp hsp ha hb hc (number_sint_close cn c cs hc)
  generalize hX : signL an ++ ((a :: as) ++ ',' :: (sp ++ (signL bn ++ ((b :: bs) ++ ',' :: (sp ++
        (signL cn ++ ((c :: cs) ++ [')']))))))) = X at h3 ⊢
  have hXl : ∃ mid, X = mid ++ [')'] := by
    refine ⟨signL an ++ ((a :: as) ++ ',' :: (sp ++ (signL bn ++ ((b :: bs) ++ ',' :: (sp ++ (signL cn ++ (c :: cs))))))), ?_⟩
    rw [← hX]; simp
  obtain ⟨mid, hmid⟩ := hXl
  have htrim : trim ('L' :: 'a' :: 'b' :: '(' :: X) = 'L' :: 'a' :: 'b' :: '(' :: X := by
    rw [hmid]
    exact trim_id 'L' ('a' :: 'b' :: '(' :: mid) ')' (by decide) (by decide)
  have hlab : parseLab ('L' :: 'a' :: 'b' :: '(' :: X) = .ok [] (fromLab (Num.dec an (digitsToNat (a :: as)) 0).toFloat
      (Num.dec bn (digitsToNat (b :: bs)) 0).toFloat (Num.dec cn (digitsToNat (c :: cs)) 0).toFloat 1.0) := by
    unfold parseLab
    rw [optCie_L]
    simp only [PR.bind, tagNoCase_Lab, h3]
  unfold parseColor parseColorWith
  rw [htrim]
  rw [altList_cons_err _ _ _ (allConsuming_err _ _ (parseHex_start _ _ (by decide) (by decide))),
    altList_cons_err _ _ _ (allConsuming_err _ _ (parseNumericRgb_start _ _ notNumStart_L)),
    altList_cons_err _ _ _ (allConsuming_err _ _ (parsePercentageRgb_start _ _ notNumStart_L)),
    altList_cons_err _ _ _ (allConsuming_err _ _ (parseHsl_start _ _ (by decide))),
    altList_cons_err _ _ _ (allConsuming_err _ _ (parseHsv_start _ _ (by decide))),
    altList_cons_err _ _ _ (allConsuming_err _ _ (parseGray_start _ _ (by decide))),
    altList_cons_ok _ _ _ _ _ (allConsuming_ok _ _ _ hlab)]

/-- **The `LCh(` shape pastel prints.** -/
theorem lch_shape_parses (an bn cn : Bool) (a : Char) (as : List Char) (b : Char) (bs : List Char)
    (c : Char) (cs : List Char) (sp : List Char) (hsp : sp = [] ∨ sp = [' '])
    (ha : (a :: as).all isDigit = true) (hb : (b :: bs).all isDigit = true) (hc : (c :: cs).all isDigit = true) :
    parseColor ('L' :: 'C' :: 'h' :: '(' :: (signL an ++ ((a :: as) ++ ',' :: (sp ++ (signL bn ++ ((b :: bs) ++ ',' :: (sp ++
        (signL cn ++ ((c :: cs) ++ [')']))))))))) =
      some (fromLch (Num.dec an (digitsToNat (a :: as)) 0).toFloat (Num.dec bn (digitsToNat (b :: bs)) 0).toFloat
        (Num.dec cn (digitsToNat (c :: cs)) 0).toFloat 1.0) := by
  have h3 := three_sints angle an bn cn a as b bs c cs sp hsp ha hb hc (angle_sint_close cn c cs hc)
  generalize hX : signL an ++ ((a :: as) ++ ',' :: (sp ++ (signL bn ++ ((b :: bs) ++ ',' :: (sp ++
        (signL cn ++ ((c :: cs) ++ [')']))))))) = X at h3 ⊢
  have hXl : ∃ mid, X = mid ++ [')'] := by
    refine ⟨signL an ++ ((a :: as) ++ ',' :: (sp ++ (signL bn ++ ((b :: bs) ++ ',' :: (sp ++ (signL cn ++ (c :: cs))))))), ?_⟩
    rw [← hX]; simp
  obtain ⟨mid, hmid⟩ := hXl
  have htrim : trim ('L' :: 'C' :: 'h' :: '(' :: X) = 'L' :: 'C' :: 'h' :: '(' :: X := by
    rw [hmid]
    exact trim_id 'L' ('C' :: 'h' :: '(' :: mid) ')' (by decide) (by decide)
  have hlch : parseLch ('L' :: 'C' :: 'h' :: '(' :: X) = .ok [] (fromLch (Num.dec an (digitsToNat (a :: as)) 0).toFloat
      (Num.dec bn (digitsToNat (b :: bs)) 0).toFloat (Num.dec cn (digitsToNat (c :: cs)) 0).toFloat 1.0) := by
    unfold parseLch
    rw [optCie_L]
    simp only [PR.bind, tagNoCase_LCh, h3]
  unfold parseColor parseColorWith
  rw [htrim]
  rw [altList_cons_err _ _ _ (allConsuming_err _ _ (parseHex_start _ _ (by decide) (by decide))),
    altList_cons_err _ _ _ (allConsuming_err _ _ (parseNumericRgb_start _ _ notNumStart_L)),
    altList_cons_err _ _ _ (allConsuming_err _ _ (parsePercentageRgb_start _ _ notNumStart_L)),
    altList_cons_err _ _ _ (allConsuming_err _ _ (parseHsl_start _ _ (by decide))),
    altList_cons_err _ _ _ (allConsuming_err _ _ (parseHsv_start _ _ (by decide))),
    altList_cons_err _ _ _ (allConsuming_err _ _ (parseGray_start _ _ (by decide))),
    altList_cons_err _ _ _ (allConsuming_err _ _ (parseLab_LC _)),
    altList_cons_err _ _ _ (allConsuming_err _ _ (parseOklab_L _)),
    altList_cons_ok _ _ _ _ _ (allConsuming_ok _ _ _ hlch)]




/-- What `{:.0}` prints for a finite number: an optional `-` and a non-empty run of digits whose
value is the scaled rounding. -/
theorem fixed0_shape (x : Float) (f : finiteF x) : ∃ (d : Char) (ds : List Char),
    (Fmt.fixed x 0).toList = signL (F.decode x).1 ++ (d :: ds) ∧ (d :: ds).all isDigit = true ∧
      digitsToNat (d :: ds) = Fmt.scaledRound (F.decode x).2.1 (F.decode x).2.2 0 := by
  have t := fixed_toList x 0 f.1 f.2
  rw [placePoint_zero] at t
  obtain ⟨hne, hall, hval⟩ := natDigits_spec (Fmt.scaledRound (F.decode x).2.1 (F.decode x).2.2 0)
  generalize (Fmt.natDigits (Fmt.scaledRound (F.decode x).2.1 (F.decode x).2.2 0)).toList = HD at hne hall hval t
  cases HD with
  | nil => exact absurd rfl hne
  | cons d ds => exact ⟨d, ds, t, hall, hval⟩

theorem printedValue_zero (x : Float) :
    printedValue x 0 = (Num.dec (F.decode x).1 (Fmt.scaledRound (F.decode x).2.1 (F.decode x).2.2 0) 0).toFloat := by
  unfold printedValue
  generalize F.decode x = p
  obtain ⟨n, m, e⟩ := p
  rfl

/-- **What pastel prints as `Lab(…)` for an opaque colour is accepted and denotes `from_lab` of
the three integers printed.** -/
theorem labString_parses_back (c : Color Float) (spaces : Bool) (h : (c.alpha == 1.0) = true)
    (f1 : finiteF (toLab c).x) (f2 : finiteF (toLab c).y) (f3 : finiteF (toLab c).z) :
    parseColor (Fmt.labString c spaces).toList =
      some (fromLab (printedValue (toLab c).x 0) (printedValue (toLab c).y 0) (printedValue (toLab c).z 0) 1.0) := by
  obtain ⟨a, as, e1, h1, v1⟩ := fixed0_shape _ f1
  obtain ⟨b, bs, e2, h2, v2⟩ := fixed0_shape _ f2
  obtain ⟨d, ds, e3, h3, v3⟩ := fixed0_shape _ f3
  have hsp : (Fmt.sp spaces).toList = [] ∨ (Fmt.sp spaces).toList = [' '] := by
    unfold Fmt.sp; cases spaces <;> simp
  have shape : (Fmt.labString c spaces).toList =
      'L' :: 'a' :: 'b' :: '(' :: (signL (F.decode (toLab c).x).1 ++ ((a :: as) ++ ',' :: ((Fmt.sp spaces).toList ++
        (signL (F.decode (toLab c).y).1 ++ ((b :: bs) ++ ',' :: ((Fmt.sp spaces).toList ++
          (signL (F.decode (toLab c).z).1 ++ ((d :: ds) ++ [')']))))))))  := by
    unfold Fmt.labString
    simp only [h, if_true, String.toList_append, e1, e2, e3]
    simp
  rw [shape, lab_shape_parses _ _ _ a as b bs d ds _ hsp h1 h2 h3, v1, v2, v3,
    printedValue_zero, printedValue_zero, printedValue_zero]

/-- **The same for `LCh(…)`.** -/
theorem lchString_parses_back (c : Color Float) (spaces : Bool) (h : (c.alpha == 1.0) = true)
    (f1 : finiteF (toLch c).x) (f2 : finiteF (toLch c).y) (f3 : finiteF (toLch c).z) :
    parseColor (Fmt.lchString c spaces).toList =
      some (fromLch (printedValue (toLch c).x 0) (printedValue (toLch c).y 0) (printedValue (toLch c).z 0) 1.0) := by
  obtain ⟨a, as, e1, h1, v1⟩ := fixed0_shape _ f1
  obtain ⟨b, bs, e2, h2, v2⟩ := fixed0_shape _ f2
  obtain ⟨d, ds, e3, h3, v3⟩ := fixed0_shape _ f3
  have hsp : (Fmt.sp spaces).toList = [] ∨ (Fmt.sp spaces).toList = [' '] := by
    unfold Fmt.sp; cases spaces <;> simp
  have shape : (Fmt.lchString c spaces).toList =
      'L' :: 'C' :: 'h' :: '(' :: (signL (F.decode (toLch c).x).1 ++ ((a :: as) ++ ',' :: ((Fmt.sp spaces).toList ++
        (signL (F.decode (toLch c).y).1 ++ ((b :: bs) ++ ',' :: ((Fmt.sp spaces).toList ++
          (signL (F.decode (toLch c).z).1 ++ ((d :: ds) ++ [')']))))))))  := by
    unfold Fmt.lchString
    simp only [h, if_true, String.toList_append, e1, e2, e3]
    simp
  rw [shape, lch_shape_parses _ _ _ a as b bs d ds _ hsp h1 h2 h3, v1, v2, v3,
    printedValue_zero, printedValue_zero, printedValue_zero]

/-! ### Print → parse for `OkLab(…)` -/

/-- **The `OkLab(` shape pastel prints**: three optionally signed fixed-point numbers. -/
theorem oklab_shape_parses (an bn cn : Bool) (a : Char) (as af : List Char) (b : Char) (bs bf : List Char)
    (c : Char) (cs cf : List Char) (sp : List Char) (hsp : sp = [] ∨ sp = [' '])
    (ha : (a :: as).all isDigit = true) (haf : af.all isDigit = true) (hb : (b :: bs).all isDigit = true)
    (hbf : bf.all isDigit = true) (hc : (c :: cs).all isDigit = true) (hcf : cf.all isDigit = true) :
    parseColor ('O' :: 'k' :: 'L' :: 'a' :: 'b' :: '(' :: (signL an ++ ((a :: as) ++ '.' :: (af ++ ',' :: (sp ++ (signL bn ++ ((b :: bs) ++ '.' :: (bf ++ ',' :: (sp ++
        (signL cn ++ ((c :: cs) ++ '.' :: (cf ++ [')'])))))))))))) =
      some (fromOklab (Num.dec an (digitsToNat ((a :: as) ++ af)) (-(af.length : Int))).toFloat
        (Num.dec bn (digitsToNat ((b :: bs) ++ bf)) (-(bf.length : Int))).toFloat
        (Num.dec cn (digitsToNat ((c :: cs) ++ cf)) (-(cf.length : Int))).toFloat 1.0) := by
  have h3 := three_sfracs an bn cn a as af b bs bf c cs cf sp hsp ha haf hb hbf hc hcf
  generalize hX : signL an ++ ((a :: as) ++ '.' :: (af ++ ',' :: (sp ++ (signL bn ++ ((b :: bs) ++ '.' :: (bf ++ ',' :: (sp ++
        (signL cn ++ ((c :: cs) ++ '.' :: (cf ++ [')'])))))))))) = X at h3 ⊢
  have hXl : ∃ mid, X = mid ++ [')'] := by
    refine ⟨signL an ++ ((a :: as) ++ '.' :: (af ++ ',' :: (sp ++ (signL bn ++ ((b :: bs) ++ '.' :: (bf ++ ',' :: (sp ++
        (signL cn ++ ((c :: cs) ++ '.' :: cf))))))))), ?_⟩
    rw [← hX]; simp
  obtain ⟨mid, hmid⟩ := hXl
  have htrim : trim ('O' :: 'k' :: 'L' :: 'a' :: 'b' :: '(' :: X) = 'O' :: 'k' :: 'L' :: 'a' :: 'b' :: '(' :: X := by
    rw [hmid]
    exact trim_id 'O' ('k' :: 'L' :: 'a' :: 'b' :: '(' :: mid) ')' (by decide) (by decide)
  have hok : parseOklab ('O' :: 'k' :: 'L' :: 'a' :: 'b' :: '(' :: X) = .ok []
      (fromOklab (Num.dec an (digitsToNat ((a :: as) ++ af)) (-(af.length : Int))).toFloat
        (Num.dec bn (digitsToNat ((b :: bs) ++ bf)) (-(bf.length : Int))).toFloat
        (Num.dec cn (digitsToNat ((c :: cs) ++ cf)) (-(cf.length : Int))).toFloat 1.0) := by
    unfold parseOklab
    simp only [PR.bind, tagNoCase_OkLab, h3]
  unfold parseColor parseColorWith
  rw [htrim]
  rw [altList_cons_err _ _ _ (allConsuming_err _ _ (parseHex_start _ _ (by decide) (by decide))),
    altList_cons_err _ _ _ (allConsuming_err _ _ (parseNumericRgb_start _ _ notNumStart_O)),
    altList_cons_err _ _ _ (allConsuming_err _ _ (parsePercentageRgb_start _ _ notNumStart_O)),
    altList_cons_err _ _ _ (allConsuming_err _ _ (parseHsl_start _ _ (by decide))),
    altList_cons_err _ _ _ (allConsuming_err _ _ (parseHsv_start _ _ (by decide))),
    altList_cons_err _ _ _ (allConsuming_err _ _ (parseGray_start _ _ (by decide))),
    altList_cons_err _ _ _ (allConsuming_err _ _ (parseLab_O _)),
    altList_cons_ok _ _ _ _ _ (allConsuming_ok _ _ _ hok)]

/-- What `{:.4}` prints for a finite number. -/
theorem fixed4_shape (x : Float) (f : finiteF x) : ∃ (d : Char) (ds fs : List Char),
    (Fmt.fixed x 4).toList = signL (F.decode x).1 ++ ((d :: ds) ++ '.' :: fs) ∧ (d :: ds).all isDigit = true ∧
      fs.all isDigit = true ∧
      (Num.dec (F.decode x).1 (digitsToNat ((d :: ds) ++ fs)) (-(fs.length : Int))).toFloat = printedValue x 4 := by
  have t := fixed_toList x 4 f.1 f.2
  obtain ⟨a, as, fs, e, h1, h2, hl, hv⟩ := placePoint_shape (Fmt.scaledRound (F.decode x).2.1 (F.decode x).2.2 4) 4 (by decide)
  refine ⟨a, as, fs, by rw [t, e], h1, h2, ?_⟩
  rw [hv, hl]
  unfold printedValue
  generalize F.decode x = p
  obtain ⟨n, m, e⟩ := p
  rfl

/-- **What pastel prints as `OkLab(…)` for an opaque colour is accepted and denotes `from_oklab`
of the three four-decimal numbers printed.** -/
theorem oklabString_parses_back (c : Color Float) (spaces : Bool) (h : (c.alpha == 1.0) = true)
    (f1 : finiteF (toOklab c).x) (f2 : finiteF (toOklab c).y) (f3 : finiteF (toOklab c).z) :
    parseColor (Fmt.oklabString c spaces).toList =
      some (fromOklab (printedValue (toOklab c).x 4) (printedValue (toOklab c).y 4) (printedValue (toOklab c).z 4) 1.0) := by
  obtain ⟨a, as, af, e1, h1, g1, v1⟩ := fixed4_shape _ f1
  obtain ⟨b, bs, bf, e2, h2, g2, v2⟩ := fixed4_shape _ f2
  obtain ⟨d, ds, df, e3, h3, g3, v3⟩ := fixed4_shape _ f3
  have hsp : (Fmt.sp spaces).toList = [] ∨ (Fmt.sp spaces).toList = [' '] := by
    unfold Fmt.sp; cases spaces <;> simp
  have shape : (Fmt.oklabString c spaces).toList =
      'O' :: 'k' :: 'L' :: 'a' :: 'b' :: '(' :: (signL (F.decode (toOklab c).x).1 ++ ((a :: as) ++ '.' :: (af ++ ',' :: ((Fmt.sp spaces).toList ++
        (signL (F.decode (toOklab c).y).1 ++ ((b :: bs) ++ '.' :: (bf ++ ',' :: ((Fmt.sp spaces).toList ++
          (signL (F.decode (toOklab c).z).1 ++ ((d :: ds) ++ '.' :: (df ++ [')'])))))))))))  := by
    unfold Fmt.oklabString
    simp only [h, if_true, String.toList_append, e1, e2, e3]
    simp
  rw [shape, oklab_shape_parses _ _ _ a as af b bs bf d ds df _ hsp h1 g1 h2 g2 h3 g3, v1, v2, v3]

/-! ### The `hsl()` round-trip bound as a theorem (exact arithmetic, all 2²⁴ colours at once) -/

/-- `x` within `3` of the byte `r` (as naturals). -/
def within3 (x r : UInt8) : Prop := r.toNat - 3 ≤ x.toNat ∧ x.toNat ≤ r.toNat + 3

theorem byte_within3 (v : ℝ) (r : UInt8) (hv0 : 0 ≤ v) (hv1 : v ≤ 1) (h : |v - chan r| ≤ 1 / 120 + 1 / 4000 + 2 / 2000) :
    within3 (Sc.toU8 (Sc.round (255.0 * v : ℝ))) r := by
  rw [abs_le] at h
  have hx : (255.0 : ℝ) * v = 255 * v := by norm_num
  rw [hx]
  have hc : chan r = (r.toNat : ℝ) / 255 := rfl
  have hlo : ((r.toNat - 3 : ℕ) : ℝ) ≤ 255 * v := by
    by_cases h3 : 3 ≤ r.toNat
    · rw [Nat.cast_sub h3]; push_cast
      have : (r.toNat : ℝ) = 255 * chan r := by rw [hc]; ring
      linarith [h.1]
    · have : r.toNat - 3 = 0 := by omega
      rw [this]; push_cast; nlinarith
  have hhi : 255 * v ≤ ((min (r.toNat + 3) 255 : ℕ) : ℝ) := by
    have : (r.toNat : ℝ) = 255 * chan r := by rw [hc]; ring
    rw [Nat.cast_min]; push_cast
    apply le_min
    · linarith [h.2]
    · linarith
  have := toU8_round_between (255 * v) (r.toNat - 3) (min (r.toNat + 3) 255) (min_le_right _ _) hlo hhi
  exact ⟨this.1, this.2.trans (min_le_left _ _)⟩

/-- **The `hsl()` round trip stays within 3 per channel, for all 2²⁴ colours at once** (exact
arithmetic): take an 8-bit colour, any hue within half a degree of its hue and any saturation and
lightness within 0.05 % of its own — which is what printing with `{:.0}` / `{:.1}` keeps — and
rebuild the colour with `from_hsla`: every 8-bit channel is within 3 of the original's. -/
theorem hsl_roundtrip_within_3 (r g b : UInt8) (H S L : ℝ) (hH : 0 ≤ H ∧ H ≤ 360) (hS : 0 ≤ S ∧ S ≤ 1) (hL : 0 ≤ L ∧ L ≤ 1)
    (dH : |H - hueValue (fromRgba8 r g b 1 : Color ℝ).hue| ≤ 1 / 2)
    (dS : |S - (fromRgba8 r g b 1 : Color ℝ).sat| ≤ 1 / 2000)
    (dL : |L - (fromRgba8 r g b 1 : Color ℝ).light| ≤ 1 / 2000) :
    within3 (toRgba8 (fromHsla H S L 1 : Color ℝ)).r r ∧ within3 (toRgba8 (fromHsla H S L 1 : Color ℝ)).g g ∧
      within3 (toRgba8 (fromHsla H S L 1 : Color ℝ)).b b := by
  obtain ⟨⟨s0, s1⟩, ⟨l0, l1⟩, _⟩ := C05.valid_real _ (C05.fromRgba8_valid r g b (1 : ℝ))
  generalize hc : (fromRgba8 r g b 1 : Color ℝ) = c at *
  have hchan := fromRgba8_toRgbaFloat r g b (1 : ℝ)
  rw [hc] at hchan
  -- the rebuilt colour
  have hsat : (fromHsla H S L 1 : Color ℝ).sat = S := fromHsla_sat_real H S L 1 hS.1 hS.2
  have hlight : (fromHsla H S L 1 : Color ℝ).light = L := fromHsla_light_real H S L 1 hL.1 hL.2
  have hhue : hueValue (fromHsla H S L 1 : Color ℝ).hue = H := by
    show hueValue (hueFrom H) = H
    unfold hueFrom
    simp only [real_isFinite, if_true]
    exact real_hueValue_id_closed H hH.1 hH.2
  have hr := real_hueValue_range c.hue
  have cl := toRgbaFloat_closed c
  have cl' := toRgbaFloat_closed (fromHsla H S L 1 : Color ℝ)
  rw [hsat, hlight, hhue] at cl'
  have vr' := toRgbaFloat_range (fromHsla H S L 1 : Color ℝ) (by rw [hsat]; exact hS.1) (by rw [hsat]; exact hS.2)
    (by rw [hlight]; exact hL.1) (by rw [hlight]; exact hL.2)
  have dt : |H / 60 - hueValue c.hue / 60| ≤ 1 / 120 := by
    have : H / 60 - hueValue c.hue / 60 = (H - hueValue c.hue) / 60 := by ring
    rw [this, abs_div, abs_of_nonneg (by norm_num : (0 : ℝ) ≤ 60)]
    rw [div_le_iff₀ (by norm_num)]; linarith
  have key : ∀ (k : ℝ → ℝ), (∀ a b, |k a - k b| ≤ |a - b|) → (∀ t, 0 ≤ k t ∧ k t ≤ 1) →
      |(k (H / 60) * ((1 - |2 * L - 1|) * S) + (L - (1 - |2 * L - 1|) * S / 2)) -
        (k (hueValue c.hue / 60) * ((1 - |2 * c.light - 1|) * c.sat) + (c.light - (1 - |2 * c.light - 1|) * c.sat / 2))|
        ≤ 1 / 120 + 1 / 4000 + 2 / 2000 := by
    intro k klip krange
    have := chan_form_diff (k (hueValue c.hue / 60)) (k (H / 60)) c.sat S c.light L (krange _) ⟨s0, s1⟩ hS ⟨l0, l1⟩ hL
    have hk := (klip (H / 60) (hueValue c.hue / 60)).trans dt
    linarith
  have kRr : ∀ t, 0 ≤ kR t ∧ kR t ≤ 1 := fun t => clamp01_range _
  have kGr : ∀ t, 0 ≤ kG t ∧ kG t ≤ 1 := fun t => clamp01_range _
  have kBr : ∀ t, 0 ≤ kB t ∧ kB t ≤ 1 := fun t => clamp01_range _
  have ex : (toRgbaFloat c).x = chan r := by rw [hchan]
  have ey : (toRgbaFloat c).y = chan g := by rw [hchan]
  have ez : (toRgbaFloat c).z = chan b := by rw [hchan]
  have dx : |(toRgbaFloat (fromHsla H S L 1 : Color ℝ)).x - chan r| ≤ 1 / 120 + 1 / 4000 + 2 / 2000 := by
    rw [← ex, cl, cl']; exact key kR kR_lip kRr
  have dy : |(toRgbaFloat (fromHsla H S L 1 : Color ℝ)).y - chan g| ≤ 1 / 120 + 1 / 4000 + 2 / 2000 := by
    rw [← ey, cl, cl']; exact key kG kG_lip kGr
  have dz : |(toRgbaFloat (fromHsla H S L 1 : Color ℝ)).z - chan b| ≤ 1 / 120 + 1 / 4000 + 2 / 2000 := by
    rw [← ez, cl, cl']; exact key kB kB_lip kBr
  unfold toRgba8
  exact ⟨byte_within3 _ r vr'.1.1 vr'.1.2 dx, byte_within3 _ g vr'.2.1.1 vr'.2.1.2 dy, byte_within3 _ b vr'.2.2.1 vr'.2.2.2 dz⟩

/-- **`{:.N}` prints a number within half a unit of the last printed place**: the scaled rounding
of the exact value `m·2^e` is within `1/2` of `m·2^e·10^N`. -/
theorem scaledRound_near (m : Nat) (e : Int) (prec : Nat) :
    |((Fmt.scaledRound m e prec : ℕ) : ℝ) - (m : ℝ) * (2 : ℝ) ^ e * (10 : ℝ) ^ prec| ≤ 1 / 2 := by
  unfold Fmt.scaledRound
  simp only []
  by_cases he : e ≥ 0
  · rw [if_pos he]
    obtain ⟨n, rfl⟩ := Int.eq_ofNat_of_zero_le he
    simp only [Int.toNat_natCast, zpow_natCast]
    push_cast
    have : (m : ℝ) * 10 ^ prec * 2 ^ n - (m : ℝ) * 2 ^ n * 10 ^ prec = 0 := by ring
    rw [this]; norm_num
  · rw [if_neg he]
    have hneg : e < 0 := not_le.mp he
    obtain ⟨n, hn⟩ : ∃ n : ℕ, e = -(n : ℤ) := ⟨(-e).toNat, by omega⟩
    subst hn
    simp only [neg_neg, Int.toNat_natCast]
    have hden : (0 : ℝ) < (2 : ℝ) ^ n := by positivity
    set num := m * 10 ^ prec with hnum
    set den := 2 ^ n with hdenN
    have hdpos : 0 < den := by positivity
    have hdiv : num = den * (num / den) + num % den := (Nat.div_add_mod num den).symm
    have hr : num % den < den := Nat.mod_lt _ hdpos
    have hval : (m : ℝ) * (2 : ℝ) ^ (-(n : ℤ)) * (10 : ℝ) ^ prec = (num : ℝ) / (den : ℝ) := by
      rw [zpow_neg, zpow_natCast, hnum, hdenN]; push_cast; field_simp
    rw [hval]
    have hdR : (0 : ℝ) < (den : ℝ) := by exact_mod_cast hdpos
    have hnumR : (num : ℝ) = (den : ℝ) * ((num / den : ℕ) : ℝ) + ((num % den : ℕ) : ℝ) := by exact_mod_cast hdiv
    have hrR : ((num % den : ℕ) : ℝ) < (den : ℝ) := by exact_mod_cast hr
    have hr0 : (0 : ℝ) ≤ ((num % den : ℕ) : ℝ) := Nat.cast_nonneg _
    have key : (num : ℝ) / (den : ℝ) = ((num / den : ℕ) : ℝ) + ((num % den : ℕ) : ℝ) / (den : ℝ) := by
      rw [hnumR]; field_simp
    rw [key]
    split_ifs with h1 h2 h3
    · -- 2r > den : q + 1
      have : (2 : ℝ) * ((num % den : ℕ) : ℝ) > (den : ℝ) := by exact_mod_cast h1
      push_cast
      rw [abs_le]; constructor
      · have : ((num % den : ℕ) : ℝ) / (den : ℝ) ≤ 1 := by rw [div_le_one hdR]; exact hrR.le
        linarith
      · have : (1 : ℝ) / 2 ≤ ((num % den : ℕ) : ℝ) / (den : ℝ) := by rw [le_div_iff₀ hdR]; linarith
        linarith
    · have : (2 : ℝ) * ((num % den : ℕ) : ℝ) < (den : ℝ) := by exact_mod_cast h2
      rw [abs_le]; constructor
      · have : ((num % den : ℕ) : ℝ) / (den : ℝ) ≤ 1 / 2 := by rw [div_le_iff₀ hdR]; linarith
        linarith
      · have : 0 ≤ ((num % den : ℕ) : ℝ) / (den : ℝ) := div_nonneg hr0 hdR.le
        linarith
    · have h2r : 2 * (num % den) = den := by omega
      have : (2 : ℝ) * ((num % den : ℕ) : ℝ) = (den : ℝ) := by exact_mod_cast h2r
      have hh : ((num % den : ℕ) : ℝ) / (den : ℝ) = 1 / 2 := by rw [div_eq_iff hdR.ne']; linarith
      rw [hh]; rw [abs_le]; constructor <;> linarith
    · have h2r : 2 * (num % den) = den := by omega
      have : (2 : ℝ) * ((num % den : ℕ) : ℝ) = (den : ℝ) := by exact_mod_cast h2r
      have hh : ((num % den : ℕ) : ℝ) / (den : ℝ) = 1 / 2 := by rw [div_eq_iff hdR.ne']; linarith
      push_cast
      rw [hh]; rw [abs_le]; constructor <;> linarith

/-! ### The `hsv()` round-trip bound as a theorem -/

theorem byte_within3' (v : ℝ) (r : UInt8) (hv0 : 0 ≤ v) (hv1 : v ≤ 1) (h : |v - chan r| ≤ 3 / 255) :
    within3 (Sc.toU8 (Sc.round (255.0 * v : ℝ))) r := by
  rw [abs_le] at h
  have hx : (255.0 : ℝ) * v = 255 * v := by norm_num
  rw [hx]
  have hc : chan r = (r.toNat : ℝ) / 255 := rfl
  have hlo : ((r.toNat - 3 : ℕ) : ℝ) ≤ 255 * v := by
    by_cases h3 : 3 ≤ r.toNat
    · rw [Nat.cast_sub h3]; push_cast
      have : (r.toNat : ℝ) = 255 * chan r := by rw [hc]; ring
      linarith [h.1]
    · have : r.toNat - 3 = 0 := by omega
      rw [this]; push_cast; nlinarith
  have hhi : 255 * v ≤ ((min (r.toNat + 3) 255 : ℕ) : ℝ) := by
    have : (r.toNat : ℝ) = 255 * chan r := by rw [hc]; ring
    rw [Nat.cast_min]; push_cast
    apply le_min
    · linarith [h.2]
    · linarith
  have := toU8_round_between (255 * v) (r.toNat - 3) (min (r.toNat + 3) 255) (min_le_right _ _) hlo hhi
  exact ⟨this.1, this.2.trans (min_le_left _ _)⟩

/-- One channel `κ·C + (V − C)` of the HSV cone: how far it moves. -/
theorem hsv_chan_diff (k k' S S' V V' : ℝ) (hk : 0 ≤ k ∧ k ≤ 1) (hS : 0 ≤ S ∧ S ≤ 1) (hS' : 0 ≤ S' ∧ S' ≤ 1)
    (hV : 0 ≤ V ∧ V ≤ 1) (hV' : 0 ≤ V' ∧ V' ≤ 1) :
    |(k' * (V' * S') + (V' - V' * S')) - (k * (V * S) + (V - V * S))| ≤ |k' - k| + |S' - S| + 2 * |V' - V| := by
  have hC : |V' * S' - V * S| ≤ |V' - V| + |S' - S| := by
    have e : V' * S' - V * S = (V' - V) * S' + V * (S' - S) := by ring
    rw [e]
    refine (abs_add_le _ _).trans ?_
    rw [abs_mul, abs_mul, abs_of_nonneg hS'.1, abs_of_nonneg hV.1]
    have h1 : |V' - V| * S' ≤ |V' - V| := by nlinarith [abs_nonneg (V' - V)]
    have h2 : V * |S' - S| ≤ |S' - S| := by nlinarith [abs_nonneg (S' - S)]
    linarith
  have hC' : 0 ≤ V' * S' ∧ V' * S' ≤ 1 := ⟨mul_nonneg hV'.1 hS'.1, by nlinarith⟩
  have e : (k' * (V' * S') + (V' - V' * S')) - (k * (V * S) + (V - V * S)) =
      (k' - k) * (V' * S') + (k - 1) * (V' * S' - V * S) + (V' - V) := by ring
  rw [e]
  refine (abs_add_le _ _).trans ?_
  refine (add_le_add_left (abs_add_le _ _) _).trans ?_
  rw [abs_mul (k' - k), abs_mul (k - 1), abs_of_nonneg hC'.1]
  have h1 : |k' - k| * (V' * S') ≤ |k' - k| := by nlinarith [abs_nonneg (k' - k)]
  have hk2 : |k - 1| ≤ 1 := by rw [abs_le]; constructor <;> linarith [hk.1, hk.2]
  have h2 : |k - 1| * |V' * S' - V * S| ≤ 1 * (|V' - V| + |S' - S|) :=
    mul_le_mul hk2 hC (abs_nonneg _) (by norm_num)
  linarith [abs_nonneg (V' - V)]

/-- **The `hsv()` round trip stays within 3 per channel, for all 2²⁴ colours at once** (exact
arithmetic): a hue within half a degree of the reported HSV hue, saturation and value within 0.05 %
of the reported ones — what `{:.0}` / `{:.1}` printing keeps — rebuilt with `from_hsva`. -/
theorem hsv_roundtrip_within_3 (r g b : UInt8) (H S V : ℝ) (hH : 0 ≤ H ∧ H ≤ 360) (hS : 0 ≤ S ∧ S ≤ 1) (hV : 0 ≤ V ∧ V ≤ 1)
    (dH : |H - (toHsva (fromRgba8 r g b 1 : Color ℝ)).x| ≤ 1 / 2)
    (dS : |S - (toHsva (fromRgba8 r g b 1 : Color ℝ)).y| ≤ 1 / 2000)
    (dV : |V - (toHsva (fromRgba8 r g b 1 : Color ℝ)).z| ≤ 1 / 2000) :
    within3 (toRgba8 (fromHsva H S V 1 : Color ℝ)).r r ∧ within3 (toRgba8 (fromHsva H S V 1 : Color ℝ)).g g ∧
      within3 (toRgba8 (fromHsva H S V 1 : Color ℝ)).b b := by
  have hvalid := C05.fromRgba8_valid r g b (1 : ℝ)
  have hchan := fromRgba8_toRgbaFloat r g b (1 : ℝ)
  generalize (fromRgba8 r g b 1 : Color ℝ) = c at *
  obtain ⟨⟨y0, y1⟩, ⟨z0, z1⟩⟩ := C05.hsv_range c hvalid
  have hx : (toHsva c).x = hueValue c.hue := rfl
  have hr := real_hueValue_range c.hue
  -- the colour rebuilt from the exact HSV coordinates is the colour itself
  obtain ⟨_, _, _, _, hsame⟩ := C03.hsv_roundtrip_real c hvalid
  have c0 := fromHsva_channels (toHsva c).x (toHsva c).y (toHsva c).z (toHsva c).alpha (by rw [hx]; exact hr) ⟨y0, y1⟩ ⟨z0, z1⟩
  rw [hsame, hchan] at c0
  simp only [] at c0
  have c1 := fromHsva_channels H S V 1 hH hS hV
  have vr' : ∀ v, (∃ k, 0 ≤ k ∧ k ≤ 1 ∧ v = k * (V * S) + (V - V * S)) → 0 ≤ v ∧ v ≤ 1 := by
    rintro v ⟨k, k0, k1, rfl⟩
    have hvs : 0 ≤ V * S := mul_nonneg hV.1 hS.1
    have hvs1 : V * S ≤ V := by nlinarith [hS.2, hV.1]
    constructor <;> nlinarith [hV.2]
  have dt : |H / 60 - (toHsva c).x / 60| ≤ 1 / 120 := by
    have : H / 60 - (toHsva c).x / 60 = (H - (toHsva c).x) / 60 := by ring
    rw [this, abs_div, abs_of_nonneg (by norm_num : (0 : ℝ) ≤ 60)]
    rw [div_le_iff₀ (by norm_num)]; linarith
  have key : ∀ (k : ℝ → ℝ), (∀ a b, |k a - k b| ≤ |a - b|) → (∀ t, 0 ≤ k t ∧ k t ≤ 1) →
      |(k (H / 60) * (V * S) + (V - V * S)) -
        (k ((toHsva c).x / 60) * ((toHsva c).z * (toHsva c).y) + ((toHsva c).z - (toHsva c).z * (toHsva c).y))| ≤ 3 / 255 := by
    intro k klip krange
    have := hsv_chan_diff (k ((toHsva c).x / 60)) (k (H / 60)) (toHsva c).y S (toHsva c).z V (krange _) ⟨y0, y1⟩ hS ⟨z0, z1⟩ hV
    have hk := (klip (H / 60) ((toHsva c).x / 60)).trans dt
    have : (1 : ℝ) / 120 + 1 / 2000 + 2 * (1 / 2000) ≤ 3 / 255 := by norm_num
    linarith
  have kRr : ∀ t, 0 ≤ kR t ∧ kR t ≤ 1 := fun t => clamp01_range _
  have kGr : ∀ t, 0 ≤ kG t ∧ kG t ≤ 1 := fun t => clamp01_range _
  have kBr : ∀ t, 0 ≤ kB t ∧ kB t ≤ 1 := fun t => clamp01_range _
  have dx : |(toRgbaFloat (fromHsva H S V 1 : Color ℝ)).x - chan r| ≤ 3 / 255 := by
    rw [c1.1, c0.1]; exact key kR kR_lip kRr
  have dy : |(toRgbaFloat (fromHsva H S V 1 : Color ℝ)).y - chan g| ≤ 3 / 255 := by
    rw [c1.2.1, c0.2.1]; exact key kG kG_lip kGr
  have dz : |(toRgbaFloat (fromHsva H S V 1 : Color ℝ)).z - chan b| ≤ 3 / 255 := by
    rw [c1.2.2, c0.2.2]; exact key kB kB_lip kBr
  have rx := vr' _ ⟨kR (H / 60), (kRr _).1, (kRr _).2, c1.1⟩
  have ry := vr' _ ⟨kG (H / 60), (kGr _).1, (kGr _).2, c1.2.1⟩
  have rz := vr' _ ⟨kB (H / 60), (kBr _).1, (kBr _).2, c1.2.2⟩
  unfold toRgba8
  exact ⟨byte_within3' _ r rx.1 rx.2 dx, byte_within3' _ g ry.1 ry.2 dy, byte_within3' _ b rz.1 rz.2 dz⟩

end Pastel.C02
