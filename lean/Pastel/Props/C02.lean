/-
C02 — printed notations parse back (property theorems).

Proved: the hex digit codec is a bijection on bytes; on real IEEE floats, every
8-bit level survives `k/255 → ·255 → round` (what makes `rgb()` and hex alpha
exact); alpha printed with three decimals is within 1/2000 of the original and
hex alpha within 1/510 (exact arithmetic).  The numeric bounds for
hsl/hsv (≤ 3), OkLab (≤ 1) and Lab/LCh (CIE76 < 2.3) go through rounding and
`pow`: they are enumerated on the implementation (lattice quick, all 2^24
thorough), not proved.
-/
import Pastel.RealInst
import Pastel.Model.Format
import Pastel.Model.Parser
import Pastel.Props.C01

namespace Pastel.C02
open Pastel

/-- `{:02x}` then hex-digit decoding is the identity on every byte. -/
theorem hex2_roundtrip : ∀ b : Fin 256,
    P.hexVal (Fmt.hexDigit (b.val / 16 % 16)) * 16 + P.hexVal (Fmt.hexDigit (b.val % 16)) = b.val := by
  decide +kernel

/-- Both hex digits of a byte are hex digits (so the printed form is in the hex grammar). -/
theorem hex2_digits : ∀ b : Fin 256,
    P.isHexDigit (Fmt.hexDigit (b.val / 16 % 16)) = true ∧ P.isHexDigit (Fmt.hexDigit (b.val % 16)) = true := by
  decide +kernel

/-- **On IEEE binary64**: every 8-bit level `k` survives `k / 255 → × 255 → round`: the hex
alpha `AA/255` printed as `round(α·255)` reproduces `AA`, and `rgb()` channels are exact. -/
theorem level_roundtrip_float : ∀ k : Fin 256,
    (F.round (Float.ofNat k.val / 255.0 * 255.0)).toUInt8.toNat = k.val := by
  decide +kernel

/-- …and through `quantize` (clamp to `[0,255]`, round, cast), as the float-RGB constructor does. -/
theorem quantize_level_float : ∀ k : Fin 256,
    (quantize (Float.ofNat k.val / 255.0 : Float)).toNat = k.val := by
  decide +kernel

/-- Alpha printed with (at most) three decimals is within `1/2000` of the original
(exact arithmetic; `Sc.round` at `ℝ` is round-half-away-from-zero). -/
theorem alpha_three_decimals (a : ℝ) (h0 : 0 ≤ a) :
    |Sc.round (a * 1000) / 1000 - a| ≤ 1 / 2000 := by
  have hr : Sc.round (a * 1000) = (⌊a * 1000 + 1 / 2⌋ : ℝ) := by
    show (if 0 ≤ a * 1000 then (⌊a * 1000 + 1 / 2⌋ : ℝ) else (⌈a * 1000 - 1 / 2⌉ : ℝ)) = _
    have : 0 ≤ a * 1000 := by positivity
    simp only [this, if_true]
  rw [hr]
  have h1 := Int.floor_le (a * 1000 + 1 / 2)
  have h2 := Int.lt_floor_add_one (a * 1000 + 1 / 2)
  rw [abs_le]
  constructor <;> (rw [div_sub' (by norm_num : (1000 : ℝ) ≠ 0)]) <;>
    [rw [le_div_iff₀ (by norm_num)]; rw [div_le_iff₀ (by norm_num)]] <;> linarith

/-- Hex alpha (`round(α·255)/255`) is within `1/510` of the original. -/
theorem alpha_hex (a : ℝ) (h0 : 0 ≤ a) :
    |Sc.round (a * 255) / 255 - a| ≤ 1 / 510 := by
  have hr : Sc.round (a * 255) = (⌊a * 255 + 1 / 2⌋ : ℝ) := by
    show (if 0 ≤ a * 255 then (⌊a * 255 + 1 / 2⌋ : ℝ) else (⌈a * 255 - 1 / 2⌉ : ℝ)) = _
    have : 0 ≤ a * 255 := by positivity
    simp only [this, if_true]
  rw [hr]
  have h1 := Int.floor_le (a * 255 + 1 / 2)
  have h2 := Int.lt_floor_add_one (a * 255 + 1 / 2)
  rw [abs_le]
  constructor <;> (rw [div_sub' (by norm_num : (255 : ℝ) ≠ 0)]) <;>
    [rw [le_div_iff₀ (by norm_num)]; rw [div_le_iff₀ (by norm_num)]] <;> linarith

/-- Witnesses of Rust's `{:.N}` semantics in the model: round-half-even on the exact binary
value (`0.25 → 0.2`, `0.45 → 0.5` because `0.45` is slightly above the tie, `2.5 → 2`,
`-0.4 → -0`). -/
theorem fixed_examples :
    Fmt.fixed 0.25 1 = "0.2" ∧ Fmt.fixed 0.45 1 = "0.5" ∧ Fmt.fixed 2.5 0 = "2" ∧
    Fmt.fixed (-0.4) 0 = "-0" ∧ Fmt.fixed 359.5 0 = "360" ∧ Fmt.fixed 99.95 1 = "100.0" := by
  decide +kernel

/-- Alpha `1` is elided and any other alpha is printed, by all formatters (sample witnesses on
floats; the general statement is exercised by the check on every colour). -/
theorem alpha_elision_examples :
    Fmt.hslString (fromHsla 120.0 0.5 0.5 1.0) false = "hsl(120,50.0%,50.0%)" ∧
    Fmt.hslString (fromHsla 120.0 0.5 0.5 0.4) true = "hsla(120, 50.0%, 50.0%, 0.4)" ∧
    Fmt.hexString (fromRgba8 255 0 119 1.0) true = "#ff0077" ∧
    Fmt.hexString (fromRgba8 255 0 119 0.5) true = "#ff007780" := by
  decide +kernel


/-! ### Print → parse, hex notation: a theorem about the formatter and the parser together -/

section hexrt
open Pastel.P

theorem hexDigit_not_ws : ∀ n : Fin 16, isWhitespace (Fmt.hexDigit n.val) = false := by decide +kernel

/-- **Print → parse for the hex notation, every opaque 8-bit colour at once**: the six digits
that `{:02x}{:02x}{:02x}` prints for the bytes `(r, g, b)`, prefixed by `#`, are accepted by
`parse_color` and denote exactly `from_rgb(r, g, b)`. -/
theorem hex_print_parse (r g b : UInt8) :
    parseColor (['#', Fmt.hexDigit (r.toNat / 16 % 16), Fmt.hexDigit (r.toNat % 16),
      Fmt.hexDigit (g.toNat / 16 % 16), Fmt.hexDigit (g.toNat % 16),
      Fmt.hexDigit (b.toNat / 16 % 16), Fmt.hexDigit (b.toNat % 16)]) = some (fromRgba8 r g b 1.0) := by
  have hr := hex2_roundtrip ⟨r.toNat, r.toNat_lt⟩
  have hg := hex2_roundtrip ⟨g.toNat, g.toNat_lt⟩
  have hb := hex2_roundtrip ⟨b.toNat, b.toNat_lt⟩
  have dr := hex2_digits ⟨r.toNat, r.toNat_lt⟩
  have dg := hex2_digits ⟨g.toNat, g.toNat_lt⟩
  have db := hex2_digits ⟨b.toNat, b.toNat_lt⟩
  simp only at hr hg hb dr dg db
  unfold parseColor parseColorWith
  have htrim : trim ['#', Fmt.hexDigit (r.toNat / 16 % 16), Fmt.hexDigit (r.toNat % 16),
      Fmt.hexDigit (g.toNat / 16 % 16), Fmt.hexDigit (g.toNat % 16),
      Fmt.hexDigit (b.toNat / 16 % 16), Fmt.hexDigit (b.toNat % 16)] = _ :=
    trim_id '#' [Fmt.hexDigit (r.toNat / 16 % 16), Fmt.hexDigit (r.toNat % 16),
      Fmt.hexDigit (g.toNat / 16 % 16), Fmt.hexDigit (g.toNat % 16),
      Fmt.hexDigit (b.toNat / 16 % 16)] (Fmt.hexDigit (b.toNat % 16)) (by decide)
      (hexDigit_not_ws ⟨b.toNat % 16, by omega⟩)
  simp only [List.cons_append, List.nil_append] at htrim
  rw [htrim]
  unfold altList allConsuming
  rw [C01.hex6_meaning _ _ _ _ _ _ (by
    intro x hx
    simp only [List.mem_cons, List.mem_nil_iff, or_false] at hx
    rcases hx with rfl | rfl | rfl | rfl | rfl | rfl
    · exact dr.1
    · exact dr.2
    · exact dg.1
    · exact dg.2
    · exact db.1
    · exact db.2)]
  simp only [hr, hg, hb, UInt8.ofNat_toNat]


theorem hexString_opaque (c : Color Float) (h : ((toRgba8 c).alpha == 1.0) = true) :
    (Fmt.hexString c true).toList =
      ['#', Fmt.hexDigit ((toRgba8 c).r.toNat / 16 % 16), Fmt.hexDigit ((toRgba8 c).r.toNat % 16),
        Fmt.hexDigit ((toRgba8 c).g.toNat / 16 % 16), Fmt.hexDigit ((toRgba8 c).g.toNat % 16),
        Fmt.hexDigit ((toRgba8 c).b.toNat / 16 % 16), Fmt.hexDigit ((toRgba8 c).b.toNat % 16)] := by
  unfold Fmt.hexString Fmt.hex2
  simp only [h, if_true, String.toList_append, String.toList_ofList]
  rfl

/-- **What pastel prints in hex for an opaque colour, pastel reads back as exactly the 8-bit
colour it printed** — for every colour. -/
theorem hexString_parses_back (c : Color Float) (h : ((toRgba8 c).alpha == 1.0) = true) :
    parseColor (Fmt.hexString c true).toList =
      some (fromRgba8 (toRgba8 c).r (toRgba8 c).g (toRgba8 c).b 1.0) := by
  rw [hexString_opaque c h]
  exact hex_print_parse _ _ _


end hexrt

/-! ### Print → parse, `rgb()` notation: formatter, number grammar and parser together, for every
run of decimal digits (not only the 256 that are printed) -/

section rgbrt
open Pastel.P

/-- The decimal digits pastel prints for a byte. -/
def byteDigits (k : Nat) : List Char := (toString k).toList

/-- For every byte: its printed digits are a non-empty run of decimal digits, and Rust's
`parse::<f64>` of that text is the byte as a float. -/
theorem byteDigits_spec : ∀ k : Fin 256,
    byteDigits k.val ≠ [] ∧ (byteDigits k.val).all isDigit = true ∧ digitsVal (byteDigits k.val) = Float.ofNat k.val := by
  decide +kernel

theorem quantize_byte (r : UInt8) : quantize (Float.ofNat r.toNat / 255.0 : Float) = r := by
  have := quantize_level_float ⟨r.toNat, r.toNat_lt⟩
  simp only at this
  exact UInt8.toNat_inj.mp this

/-- **Print → parse for the `rgb()` notation, every opaque 8-bit colour at once**: the text
`rgb(R,G,B)` (or `rgb(R, G, B)`) that pastel prints for the bytes `(r, g, b)` is accepted by
`parse_color` and denotes exactly `from_rgb(r, g, b)`. -/
theorem rgb_print_parse (r g b : UInt8) (sp : List Char) (hsp : sp = [] ∨ sp = [' ']) :
    parseColor ('r' :: 'g' :: 'b' :: '(' :: (byteDigits r.toNat ++ ',' :: (sp ++ (byteDigits g.toNat ++ ',' ::
      (sp ++ (byteDigits b.toNat ++ [')'])))))) = some (fromRgba8 r g b 1.0) := by
  obtain ⟨nr, dr, vr⟩ := byteDigits_spec ⟨r.toNat, r.toNat_lt⟩
  obtain ⟨ng, dg, vg⟩ := byteDigits_spec ⟨g.toNat, g.toNat_lt⟩
  obtain ⟨nb, db, vb⟩ := byteDigits_spec ⟨b.toNat, b.toNat_lt⟩
  simp only at nr dr vr ng dg vg nb db vb
  match hA : byteDigits r.toNat, hB : byteDigits g.toNat, hC : byteDigits b.toNat with
  | [], _, _ => exact absurd hA nr
  | _ :: _, [], _ => exact absurd hB ng
  | _ :: _, _ :: _, [] => exact absurd hC nb
  | a :: as, b' :: bs, c :: cs =>
    rw [hA] at dr vr; rw [hB] at dg vg; rw [hC] at db vb
    rw [C01.rgb_digits_meaning a as b' bs c cs sp hsp dr dg db, vr, vg, vb]
    unfold fromRgbaFloat
    rw [quantize_byte, quantize_byte, quantize_byte]


theorem rgbString_opaque (c : Color Float) (spaces : Bool) (h : (c.alpha == 1.0) = true) :
    (Fmt.rgbString c spaces).toList =
      'r' :: 'g' :: 'b' :: '(' :: (byteDigits (toRgba8 c).r.toNat ++ ',' :: ((Fmt.sp spaces).toList ++
        (byteDigits (toRgba8 c).g.toNat ++ ',' :: ((Fmt.sp spaces).toList ++ (byteDigits (toRgba8 c).b.toNat ++ [')']))))) := by
  unfold Fmt.rgbString byteDigits
  simp only [h, if_true, String.toList_append]
  simp

/-- **What pastel prints as `rgb(…)` for an opaque colour, pastel reads back as exactly the 8-bit
colour it printed** — for every colour and both spacings. -/
theorem rgbString_parses_back (c : Color Float) (spaces : Bool) (h : (c.alpha == 1.0) = true) :
    parseColor (Fmt.rgbString c spaces).toList =
      some (fromRgba8 (toRgba8 c).r (toRgba8 c).g (toRgba8 c).b 1.0) := by
  rw [rgbString_opaque c spaces h]
  apply rgb_print_parse
  unfold Fmt.sp
  cases spaces <;> simp

end rgbrt

end Pastel.C02
