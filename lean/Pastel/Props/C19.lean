/-
C19 — the command-line layer (property theorems about `Pastel/Model/CliRun.lean`).

The environment (colour arguments, the lines stdin delivers, the point at which the reader
closes stdout) is an explicit, universally quantified input.  What Lean cannot speak about —
that the OS delivers EOF / EPIPE / child exit the way the model's environment says, and clap's
internals — is exercised by the fault runs of the check against the release binary.
-/
import Pastel.Model.CliRun

namespace Pastel.C19
open Pastel Pastel.Cli

/-- A modelled run ends with exit status 0 or 1 (2 is reserved to the argument parser). -/
theorem exit_zero_or_one (o : Outcome) : o.exitCode = 0 ∨ o.exitCode = 1 := by
  unfold Outcome.exitCode
  cases o.err with
  | none => exact Or.inl rfl
  | some e => cases e <;> simp [Err.exitCode]

/-- Exit status 1 exactly when an error other than `StdoutClosed` arose. -/
theorem exit_one_iff (o : Outcome) : o.exitCode = 1 ↔ ∃ e, o.err = some e ∧ e ≠ .stdoutClosed := by
  unfold Outcome.exitCode
  cases h : o.err with
  | none => simp
  | some e => cases e <;> simp [Err.exitCode]

/-- The parse error names the offending text. -/
theorem parse_error_names_text (t : String) :
    (Err.colorParse t).message = "Could not parse color '" ++ t ++ "'" := rfl

/-- A colour text that is an ordinary argument (not `-`, not `pick`). -/
def Ordinary (t : String) : Prop := t ≠ "-" ∧ t ≠ "pick"

theorem colorFromArg_ok (t : String) (c : Col) (stdin : List StdinLine) (ho : Ordinary t)
    (hp : P.parseColor t.toList = some c) : colorFromArg t stdin = (.ok c, stdin) := by
  unfold colorFromArg
  simp [ho.1, ho.2, hp]

theorem colorFromArg_bad (t : String) (stdin : List StdinLine) (ho : Ordinary t)
    (hp : P.parseColor t.toList = none) : colorFromArg t stdin = (.error (.colorParse t), stdin) := by
  unfold colorFromArg
  simp [ho.1, ho.2, hp]

/-- **Prefix property.** If the first `k` colour arguments parse and the command succeeds on
them, and the next one does not parse, then stdout consists exactly of the complete lines for
those `k` colours, the error names the offending text, and the exit status is 1 — whatever
follows on the command line and whatever stdin holds. -/
theorem prefix_then_error (cmd : Col → Except Err String)
    (good : List (String × Col × String)) (bad : String) (rest : List String) (stdin : List StdinLine)
    (hgood : ∀ g ∈ good, Ordinary g.1 ∧ P.parseColor g.1.toList = some g.2.1 ∧ cmd g.2.1 = .ok g.2.2)
    (hbad : Ordinary bad ∧ P.parseColor bad.toList = none) :
    loopArgs cmd (good.map (·.1) ++ bad :: rest) stdin =
      { lines := good.map (·.2.2), err := some (.colorParse bad) } := by
  induction good with
  | nil =>
    simp only [List.map_nil, List.nil_append]
    unfold loopArgs
    rw [colorFromArg_bad bad stdin hbad.1 hbad.2]
  | cons g gs ih =>
    have hg := hgood g List.mem_cons_self
    simp only [List.map_cons, List.cons_append]
    unfold loopArgs
    rw [colorFromArg_ok g.1 g.2.1 stdin hg.1 hg.2.1]
    simp only [hg.2.2]
    rw [ih (fun x hx => hgood x (List.mem_cons_of_mem _ hx))]

/-- All colours parse: one complete line per colour, no error, exit 0. -/
theorem all_good (cmd : Col → Except Err String) (good : List (String × Col × String)) (stdin : List StdinLine)
    (hgood : ∀ g ∈ good, Ordinary g.1 ∧ P.parseColor g.1.toList = some g.2.1 ∧ cmd g.2.1 = .ok g.2.2) :
    loopArgs cmd (good.map (·.1)) stdin = { lines := good.map (·.2.2), err := none } := by
  induction good with
  | nil => simp [loopArgs]
  | cons g gs ih =>
    have hg := hgood g List.mem_cons_self
    simp only [List.map_cons]
    unfold loopArgs
    rw [colorFromArg_ok g.1 g.2.1 stdin hg.1 hg.2.1]
    simp only [hg.2.2]
    rw [ih (fun x hx => hgood x (List.mem_cons_of_mem _ hx))]

/-- Colours on stdin, one per line, are treated like the same colours given as `-` arguments. -/
theorem stdin_like_dashes (cmd : Col → Except Err String) :
    ∀ (lines : List StdinLine), loopStdin cmd lines = loopArgs cmd (lines.map fun _ => "-") lines := by
  intro lines
  induction lines with
  | nil => simp [loopStdin, loopArgs]
  | cons l ls ih =>
    simp only [List.map_cons]
    unfold loopStdin loopArgs
    have hdash : colorFromArg "-" (l :: ls) = colorFromStdin (l :: ls) := by simp [colorFromArg]
    rw [hdash]
    cases l with
    | invalidUtf8 => simp [colorFromStdin]
    | text t =>
      simp only [colorFromStdin]
      generalize P.parseColor (String.ofList (P.trim t.toList)).toList = r
      cases r with
      | none => rfl
      | some c =>
        simp only []
        cases cmd c with
        | error e => rfl
        | ok line => simp only [ih]

/-- Empty stdin means "no colours", not an error, for the iterating commands (for `mix`: once its
base and fraction have been read); a `-` argument with empty stdin is `CouldNotReadFromStdin`. -/
theorem empty_stdin (sub : String) (args : List String)
    (hsub : sub ≠ "mix" ∧ sub ≠ "gray" ∧ sub ≠ "gradient" ∧ sub ≠ "sort-by" ∧ sub ≠ "paint" ∧
      sub ≠ "random" ∧ sub ≠ "distinct" ∧ sub ≠ "pick") :
    run sub args [] [] = { lines := [], err := none } ∧
    (loopArgs (commandBody sub args) ["-"] []).err = some .couldNotReadFromStdin := by
  constructor
  · unfold run; simp [loopStdin, hsub.1, hsub.2.1, hsub.2.2.1, hsub.2.2.2.1, hsub.2.2.2.2.1, hsub.2.2.2.2.2.1,
      hsub.2.2.2.2.2.2.1, hsub.2.2.2.2.2.2.2]
  · simp [loopArgs, colorFromArg, colorFromStdin]

/-- `sort-by` with no colours and an empty stdin prints nothing and succeeds; with an unreadable
colour anywhere in the list it prints nothing at all (the colours are collected first). -/
theorem sort_collects_first (order u r : String) (colors : List String) (stdin : List StdinLine) (e : Err)
    (h : (if colors.isEmpty then collectStdin stdin else collectArgs colors stdin) = .error e) :
    run "sort-by" [order, u, r] [] [] = { lines := [], err := none } ∧
    run "sort-by" [order, u, r] colors stdin = { lines := [], err := some e } := by
  constructor
  · unfold run runSort
    simp [collectStdin, sortCmd, stableSortBy, dedupByKey]
  · unfold run runSort
    simp only [show ("sort-by" = "mix") = False by decide, show ("sort-by" = "gray") = False by decide,
      show ("sort-by" = "gradient") = False by decide, if_false, if_true]
    rw [h]; rfl

/-- `mix` with no colours and an empty stdin: nothing is printed; the run succeeds exactly when the
base and the fraction can be read (an unparsable base or fraction is reported even then). -/
theorem mix_empty_stdin (base fr sp : String) (b : Col) (f : Float) (hb : Ordinary base)
    (hp : P.parseColor base.toList = some b) (hf : numberArg fr = .ok f) :
    run "mix" [base, fr, sp] [] [] = { lines := [], err := none } ∧
    (∀ bad, Ordinary bad → P.parseColor bad.toList = none →
      run "mix" [bad, fr, sp] [] [] = { lines := [], err := some (.colorParse bad) }) := by
  constructor
  · unfold run runMix
    simp only [if_true]
    rw [colorFromArg_ok base b [] hb hp, hf]
    simp [loopStdin]
  · intro bad hbad hpb
    unfold run runMix
    simp only [if_true]
    rw [colorFromArg_bad bad [] hbad hpb]

/-- A reader that closes stdout early sees a prefix of the full output, and a longer-lived reader
sees an extension of what a shorter-lived one saw. -/
theorem observed_prefix (o : Outcome) (k k' : Nat) (h : k ≤ k') :
    (observed o k) <+: (observed o k') ∧ (observed o k') <+: (o.lines.flatMap fun l => l.toList ++ ['\n']) := by
  unfold observed
  constructor
  · exact List.take_prefix_take_left h
  · exact List.take_prefix _ _

/-- Everything written to stdout consists of complete lines (each ends with a newline). -/
theorem stdout_complete_lines (o : Outcome) :
    let out := o.lines.flatMap fun l => l.toList ++ ['\n']
    out = [] ∨ out.getLast? = some '\n' := by
  simp only []
  induction o.lines with
  | nil => left; rfl
  | cons l ls ih =>
    right
    simp only [List.flatMap_cons]
    rcases ih with h | h
    · rw [h]; simp
    · rw [List.getLast?_append, h]; simp

/-! ### `mix`: the base is read first; given as `-` it is the first stdin line -/

/-- A colour argument that is ordinary (not `-`, not `pick`) is read without touching stdin. -/
theorem colorFromArg_ordinary (t : String) (stdin : List StdinLine) (ho : Ordinary t) :
    ∃ r, colorFromArg t stdin = (r, stdin) ∧ ∀ stdin', colorFromArg t stdin' = (r, stdin') := by
  cases hp : P.parseColor t.toList with
  | some c => exact ⟨.ok c, colorFromArg_ok t c stdin ho hp, fun s => colorFromArg_ok t c s ho hp⟩
  | none => exact ⟨.error (.colorParse t), colorFromArg_bad t stdin ho hp, fun s => colorFromArg_bad t s ho hp⟩

/-- **The base colour of `mix` given as `-` is the first line of stdin, whatever follows**: on a
stdin whose first line is `l`, `mix - …` behaves exactly like `mix <l trimmed> …` on the rest of
stdin — same lines, same error — for every list of colour arguments (ordinary ones, `-`, `pick`,
or none at all, in which case the colours are the remaining stdin lines). This is what 940cd78 and
60725f5 repaired: the base used to be read again for every colour, and then after the first one. -/
theorem mix_dash_base_is_first_line (fr sp l : String) (cs : List String) (rest : List StdinLine)
    (hl : Ordinary (String.ofList (P.trim l.toList))) :
    run "mix" ["-", fr, sp] cs (.text l :: rest) =
      run "mix" [String.ofList (P.trim l.toList), fr, sp] cs rest := by
  unfold run
  simp only [if_true]
  unfold runMix
  simp only []
  have hdash : colorFromArg "-" (.text l :: rest) =
      (match P.parseColor (String.ofList (P.trim l.toList)).toList with
        | some c => (.ok c, rest)
        | none => (.error (.colorParse (String.ofList (P.trim l.toList))), rest)) := by
    unfold colorFromArg colorFromStdin
    simp
    cases P.parseColor (P.trim l.toList) <;> rfl
  rw [hdash]
  cases hp : P.parseColor (String.ofList (P.trim l.toList)).toList with
  | none => rw [colorFromArg_bad _ rest hl hp]
  | some b => rw [colorFromArg_ok _ b rest hl hp]

/-! ### The collecting commands and `paint` -/

/-- For the commands that collect their colours first (`sort-by`): colours on stdin, one per line,
are treated like the same colours given as `-` arguments. -/
theorem collect_stdin_like_dashes :
    ∀ (lines : List StdinLine), collectStdin lines = collectArgs (lines.map fun _ => "-") lines := by
  intro lines
  induction lines with
  | nil => simp [collectStdin, collectArgs]
  | cons l ls ih =>
    simp only [List.map_cons]
    unfold collectStdin collectArgs
    have hdash : colorFromArg "-" (l :: ls) = colorFromStdin (l :: ls) := by simp [colorFromArg]
    rw [hdash]
    cases l with
    | invalidUtf8 => simp [colorFromStdin]
    | text t =>
      simp only [colorFromStdin]
      generalize P.parseColor (String.ofList (P.trim t.toList)).toList = r
      cases r with
      | none => rfl
      | some c => simp only [ih]

/-- Hence `pastel sort-by K` on a non-empty stdin equals `pastel sort-by K - - … -` on the same stdin. -/
theorem sort_stdin_like_dashes (order u r : String) (l : StdinLine) (ls : List StdinLine) :
    run "sort-by" [order, u, r] [] (l :: ls) = run "sort-by" [order, u, r] ((l :: ls).map fun _ => "-") (l :: ls) := by
  have hrun : ∀ cs st, run "sort-by" [order, u, r] cs st = runSort [order, u, r] cs st := by
    intro cs st
    unfold run
    simp only [show ("sort-by" = "mix") = False by decide, show ("sort-by" = "gray") = False by decide,
      show ("sort-by" = "gradient") = False by decide, if_false, if_true]
  rw [hrun, hrun]
  unfold runSort
  simp only [List.isEmpty_nil, List.map_cons, List.isEmpty_cons, if_true, Bool.false_eq_true, if_false]
  rw [collect_stdin_like_dashes (l :: ls)]
  simp only [List.map_cons]

/-- **`paint` with colour off prints the text byte for byte**: once the foreground (a colour, `-`
or `default`) and the optional background are accepted, the words are joined by single blanks and
printed unchanged, with a line end unless `--no-newline` is given. -/
theorem paint_text_verbatim (fg bg : String) (words : List String) (stdin : List StdinLine)
    (hfg : String.ofList (P.trim fg.toList) = "default" ∨ ∃ c s', colorFromArg fg stdin = (.ok c, s'))
    (hbg : bg = "" ∨ ∃ c, P.parseColor bg.toList = some c) :
    run "paint" [fg, bg, "0"] words stdin = { lines := [" ".intercalate words], err := none } ∧
    run "paint" [fg, bg, "1"] words stdin = { lines := [], err := none, tail := " ".intercalate words } := by
  have hrun : ∀ nn, run "paint" [fg, bg, nn] words stdin = runPaint [fg, bg, nn] words stdin := by
    intro nn
    unfold run
    simp only [show ("paint" = "mix") = False by decide, show ("paint" = "gray") = False by decide,
      show ("paint" = "gradient") = False by decide, show ("paint" = "sort-by") = False by decide, if_false, if_true]
  have key : ∀ nn, runPaint [fg, bg, nn] words stdin =
      (if nn = "1" then { lines := [], err := none, tail := " ".intercalate words } else { lines := [" ".intercalate words], err := none }) := by
    intro nn
    unfold runPaint
    simp only []
    by_cases hd : String.ofList (P.trim fg.toList) = "default"
    · simp only [hd, if_true]
      rcases hbg with h | ⟨c, h⟩
      · simp only [h, if_true]
      · by_cases hb : bg = ""
        · simp only [hb, if_true]
        · simp only [hb, if_false, h]
    · rcases hfg with h | ⟨c, s', h⟩
      · exact absurd h hd
      · simp only [hd, if_false, h]
        rcases hbg with h | ⟨c, h⟩
        · simp only [h, if_true]
        · by_cases hb : bg = ""
          · simp only [hb, if_true]
          · simp only [hb, if_false, h]
  constructor
  · rw [hrun, key]; simp
  · rw [hrun, key]; simp

end Pastel.C19
