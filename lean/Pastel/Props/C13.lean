/-
C13 — escape sequences and colour mode (property theorems; discrete).
-/
import Pastel.Model.Ansi

namespace Pastel.C13
open Pastel

variable {α : Type} [ScT α]

/-- Painting with colour disabled returns the text byte for byte. -/
theorem paint_off (q : Color α → Nat) (t : String) (s : Style α) : paint q none t s = t := rfl

/-- Painting with a mode emits the style's sequence, the text unchanged, and the reset `ESC[0m`. -/
theorem paint_on (q : Color α → Nat) (m : AnsiMode) (t : String) (s : Style α) :
    paint q (some m) t s = escapeSequence q s m ++ t ++ resetSequence := rfl

/-- The sequence is `ESC [` + the `;`-joined SGR parameters + `m`. -/
theorem escapeSequence_shape (q : Color α → Nat) (s : Style α) (m : AnsiMode) :
    escapeSequence q s m = String.singleton esc ++ "[" ++ ";".intercalate ((sgrCodes q s m).map toString) ++ "m" := rfl

/-- The parameter list is never empty; the empty style is the lone `0`. -/
theorem sgrCodes_nonempty (q : Color α → Nat) (s : Style α) (m : AnsiMode) : sgrCodes q s m ≠ [] := by
  unfold sgrCodes
  split
  · simp
  · next h => intro h'; rw [h'] at h; simp at h

theorem sgrCodes_empty_style (q : Color α → Nat) (m : AnsiMode) :
    sgrCodes q ({} : Style α) m = [0] := by
  simp [sgrCodes, sgrBody]

/-- 24-bit foreground: `38;2;R;G;B` with the colour's exact 8-bit channels; 8-bit: `38;5;N` with
its quantised code; background `48;…`; then `1`, `3`, `4` for bold, italic, underline. -/
theorem sgrCodes_full (q : Color α → Nat) (fg bg : Color α) :
    sgrCodes q { foreground := some fg, background := some bg, bold := true, italic := true, underline := true } .trueColor =
      [38, 2, (toRgba8 fg).r.toNat, (toRgba8 fg).g.toNat, (toRgba8 fg).b.toNat,
       48, 2, (toRgba8 bg).r.toNat, (toRgba8 bg).g.toNat, (toRgba8 bg).b.toNat, 1, 3, 4] ∧
    sgrCodes q { foreground := some fg, background := some bg, bold := true, italic := true, underline := true } .ansi8 =
      [38, 5, q fg, 48, 5, q bg, 1, 3, 4] := by
  constructor <;> simp [sgrCodes, sgrBody, colorCodes]

theorem sgrCodes_fg_only (q : Color α → Nat) (fg : Color α) :
    sgrCodes q { foreground := some fg } .trueColor =
      [38, 2, (toRgba8 fg).r.toNat, (toRgba8 fg).g.toNat, (toRgba8 fg).b.toNat] ∧
    sgrCodes q { foreground := some fg } .ansi8 = [38, 5, q fg] := by
  constructor <;> simp [sgrCodes, sgrBody, colorCodes]

/-! ### The colour-mode decision equals the documented ordered rule list -/

/-- The property's rule list, written as a decision table. -/
def specDecision (forceColor : Bool) (flag : ModeFlag) (stdoutIsTty : Bool)
    (pastelColorMode : Option String) (noColorSet : Bool) (colorterm : Option String) :
    Except String (Option AnsiMode) :=
  -- 1. --force-color or --color-mode 24bit/8bit/off
  if forceColor then .ok (some .trueColor)
  else if flag = .m24bit then .ok (some .trueColor)
  else if flag = .m8bit then .ok (some .ansi8)
  else if flag = .off then .ok none
  -- 2. otherwise off when stdout is not a terminal
  else if stdoutIsTty = false then .ok none
  -- 3. otherwise PASTEL_COLOR_MODE (24bit, truecolor, 8bit, off; anything else is an error)
  else match pastelColorMode with
    | some v =>
      if v = "24bit" ∨ v = "truecolor" then .ok (some .trueColor)
      else if v = "8bit" then .ok (some .ansi8)
      else if v = "off" then .ok none
      else .error v
    | none =>
      -- 4. otherwise off if NO_COLOR is set
      if noColorSet then .ok none
      -- 5. otherwise 24-bit if COLORTERM is truecolor or 24bit, else 8-bit
      else if colorterm = some "truecolor" ∨ colorterm = some "24bit" then .ok (some .trueColor)
      else .ok (some .ansi8)

theorem modeOfStr_spec (v : String) :
    modeOfStr v =
      if v = "24bit" ∨ v = "truecolor" then .ok (some .trueColor)
      else if v = "8bit" then .ok (some .ansi8)
      else if v = "off" then .ok none
      else .error v := by
  unfold modeOfStr
  split <;> simp_all

theorem envColorMode_spec (noColorSet : Bool) (ct : Option String) :
    envColorMode noColorSet ct =
      if noColorSet then none
      else if ct = some "truecolor" ∨ ct = some "24bit" then some .trueColor else some .ansi8 := by
  unfold envColorMode
  cases noColorSet
  · simp only [Bool.false_eq_true, if_false]
    split <;> simp_all
  · simp

/-- **For all values of the environment variables** the implemented decision is the documented
rule list. -/
theorem decideMode_is_spec (forceColor : Bool) (flag : ModeFlag) (tty : Bool) (pcm : Option String)
    (noColor : Bool) (ct : Option String) :
    decideMode forceColor flag tty pcm noColor ct = specDecision forceColor flag tty pcm noColor ct := by
  unfold decideMode specDecision
  cases forceColor
  · simp only [Bool.false_eq_true, if_false]
    cases flag <;> simp
    cases tty
    · simp
    · simp only [if_true]
      cases pcm with
      | none =>
        simp only []
        rw [envColorMode_spec]
        cases noColor <;> simp
        split <;> simp_all
      | some v => simp only []; rw [modeOfStr_spec]; simp
  · simp

/-- With `--force-color` the mode is 24-bit whatever the rest is; with `--color-mode off` or a
pipe (and `auto`) it is off. -/
theorem force_color_wins (flag : ModeFlag) (tty : Bool) (pcm : Option String) (nc : Bool) (ct : Option String) :
    decideMode true flag tty pcm nc ct = .ok (some .trueColor) := rfl

theorem not_a_tty_is_off (pcm : Option String) (nc : Bool) (ct : Option String) :
    decideMode false .auto false pcm nc ct = .ok none := rfl

/-- `PASTEL_COLOR_MODE` is consulted before `NO_COLOR`: with both set, the former decides. -/
theorem pastel_color_mode_before_no_color (ct : Option String) :
    decideMode false .auto true (some "24bit") true ct = .ok (some .trueColor) := by
  simp [decideMode, modeOfStr]

end Pastel.C13
