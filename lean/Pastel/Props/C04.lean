/-
C04 — the model's definitions are the published ones (property theorems).

For this property the correspondence check *is* the comparison of pastel with
an independent evaluation of the definitions (the Lean model at `Float`, 1e-9).
The theorems below pin the model itself, so that a typo in the model cannot
pass for agreement: white point, matrix rows, transfer-function breakpoints
and their continuity, the Lab `f` breakpoint identities, the luminance and
brightness weights, and that each inverse direction is literally
`inverse transform → clamp → round`.
-/
import Pastel.RealInst
import Pastel.Model.Color
import Pastel.Lemmas.HslOutside
import Pastel.Lemmas.HsvCone

namespace Pastel.C04
open Pastel

/-- The D65 white point `(0.95047, 1, 1.08883)`. -/
theorem d65 : (d65Xn : ℝ) = 0.95047 ∧ (d65Yn : ℝ) = 1 ∧ (d65Zn : ℝ) = 1.08883 := by
  refine ⟨?_, ?_, ?_⟩ <;> norm_num [d65Xn, d65Yn, d65Zn]

/-- IEC 61966-2-1: the rows of the sRGB→XYZ matrix sum to the D65 white `(0.9505, 1, 1.089)`
as published (4 digits). -/
theorem srgb_matrix_rows :
    (0.4124 + 0.3576 + 0.1805 : ℝ) = 0.9505 ∧ (0.2126 + 0.7152 + 0.0722 : ℝ) = 1 ∧
    (0.0193 + 0.1192 + 0.9505 : ℝ) = 1.089 := by
  refine ⟨?_, ?_, ?_⟩ <;> norm_num

/-- `to_xyz` is the matrix applied to the decoded (linear) channels. -/
theorem toXyz_def (c : Color ℝ) :
    (toXyz c).x = 0.4124 * srgbDecode (toRgbaFloat c).x + 0.3576 * srgbDecode (toRgbaFloat c).y + 0.1805 * srgbDecode (toRgbaFloat c).z ∧
    (toXyz c).y = 0.2126 * srgbDecode (toRgbaFloat c).x + 0.7152 * srgbDecode (toRgbaFloat c).y + 0.0722 * srgbDecode (toRgbaFloat c).z ∧
    (toXyz c).z = 0.0193 * srgbDecode (toRgbaFloat c).x + 0.1192 * srgbDecode (toRgbaFloat c).y + 0.9505 * srgbDecode (toRgbaFloat c).z :=
  ⟨rfl, rfl, rfl⟩

/-- The sRGB decoding curve: linear segment `c/12.92` up to `0.04045`, then the 2.4 power law. -/
theorem srgbDecode_def (c : ℝ) :
    srgbDecode c = if c ≤ 0.04045 then c / 12.92 else ((c + 0.055) / 1.055) ^ (2.4 : ℝ) := by
  unfold srgbDecode; norm_num

/-- The sRGB encoding curve: `12.92·c` up to `0.0031308`, then `1.055·c^(1/2.4) − 0.055` (`1/2.4 = 5/12`). -/
theorem srgbEncode_def (c : ℝ) :
    srgbEncode c = if c ≤ 0.0031308 then 12.92 * c else 1.055 * c ^ ((5 : ℝ) / 12) - 0.055 := by
  unfold srgbEncode
  simp only [real_lit, Nat.cast_one, real_pow]
  norm_num

/-- The two breakpoints correspond: `0.04045 / 12.92` is `0.0031308` to 7 digits. -/
theorem srgb_breakpoints : |(0.04045 / 12.92 : ℝ) - 0.0031308| < 1e-7 := by
  rw [abs_lt]; constructor <;> norm_num

/-- WCAG relative luminance: weights `0.2126, 0.7152, 0.0722` (the `Y` row) and the sRGB
linearisation with the breakpoint `0.04045` (WCAG 2.x after the errata; the code used the
`0.03928` of the original WCAG 2.0 text until the `fix:` commit e8f6984). -/
theorem luminance_def (c : Color ℝ) :
    luminance c = 0.2126 * lumF (toRgbaFloat c).x + 0.7152 * lumF (toRgbaFloat c).y + 0.0722 * lumF (toRgbaFloat c).z := rfl

theorem lumF_def (s : ℝ) :
    lumF s = if s ≤ 0.04045 then s / 12.92 else ((s + 0.055) / 1.055) ^ (2.4 : ℝ) := by
  unfold lumF; norm_num

/-- On the 8-bit levels — the colours C04 quantifies over — this *is* the WCAG 2.0 definition
with its original breakpoint `0.03928`: no level `k/255` lies between the two breakpoints. -/
theorem lumF_wcag20_on_levels (k : ℕ) :
    lumF ((k : ℝ) / 255) =
      if (k : ℝ) / 255 ≤ 0.03928 then ((k : ℝ) / 255) / 12.92 else (((k : ℝ) / 255 + 0.055) / 1.055) ^ (2.4 : ℝ) := by
  rw [lumF_def]
  by_cases h : k ≤ 10
  · have hk : (k : ℝ) ≤ 10 := by exact_mod_cast h
    have h1 : (k : ℝ) / 255 ≤ 0.04045 := by rw [div_le_iff₀ (by norm_num)]; norm_num; linarith
    have h2 : (k : ℝ) / 255 ≤ 0.03928 := by rw [div_le_iff₀ (by norm_num)]; norm_num; linarith
    rw [if_pos h1, if_pos h2]
  · have hk : (11 : ℝ) ≤ k := by exact_mod_cast (by omega : 11 ≤ k)
    have h1 : ¬ (k : ℝ) / 255 ≤ 0.04045 := by rw [not_le, lt_div_iff₀ (by norm_num)]; norm_num; linarith
    have h2 : ¬ (k : ℝ) / 255 ≤ 0.03928 := by rw [not_le, lt_div_iff₀ (by norm_num)]; norm_num; linarith
    rw [if_neg h1, if_neg h2]

/-- W3C AERT brightness: `(299 R + 587 G + 114 B) / 1000`. -/
theorem brightness_def (c : Color ℝ) :
    brightness c = (299 * (toRgbaFloat c).x + 587 * (toRgbaFloat c).y + 114 * (toRgbaFloat c).z) / 1000 := by
  unfold brightness; norm_num

/-- CIE 1976 L*a*b*: `L = 116 f(Y/Yn) − 16`, `a = 500 (f(X/Xn) − f(Y/Yn))`, `b = 200 (f(Y/Yn) − f(Z/Zn))`. -/
theorem toLab_def (c : Color ℝ) :
    (toLab c).x = 116 * labF ((toXyz c).y / d65Yn) - 16 ∧
    (toLab c).y = 500 * (labF ((toXyz c).x / d65Xn) - labF ((toXyz c).y / d65Yn)) ∧
    (toLab c).z = 200 * (labF ((toXyz c).y / d65Yn) - labF ((toXyz c).z / d65Zn)) := by
  refine ⟨?_, ?_, ?_⟩ <;> (simp only [toLab]; norm_num)

/-- The linear branch of Lab's `f` meets the cube-root branch at `t = (6/29)³` with value `6/29`:
`(1/3)(29/6)²·(6/29)³ + 4/29 = 6/29`. -/
theorem lab_f_continuous : ((1 : ℝ) / 3) * (29 / 6) ^ 2 * (6 / 29) ^ 3 + 4 / 29 = 6 / 29 := by norm_num

/-- …and the inverse's linear branch `3δ²(t − 4/29)` meets `t³` at `t = δ = 6/29`. -/
theorem lab_finv_continuous : (3 : ℝ) * (6 / 29) * (6 / 29) * (6 / 29 - 4 / 29) = (6 / 29) ^ 3 := by norm_num

/-- `from_lab` is the inverse transform: `Y = Yn·f⁻¹((L+16)/116)` etc., then `from_xyz`. -/
theorem fromLab_def (l a b al : ℝ) :
    fromLab l a b al =
      fromXyz (d65Xn * labFinv ((l + 16) / 116 + a / 500)) (d65Yn * labFinv ((l + 16) / 116))
        (d65Zn * labFinv ((l + 16) / 116 - b / 200)) al := by
  unfold fromLab; norm_num

/-- Every inverse direction ends in: clamp each sRGB channel to `[0,1]` (as `[0,255]` after
scaling), round to 8 bits (definitional: `from_xyz` calls `from_rgba_float`). -/
theorem inverse_is_clamp_round (x y z al : ℝ) :
    fromXyz x y z al =
      fromRgba8 (quantize (srgbEncode (3.2406 * x - 1.5372 * y - 0.4986 * z)))
        (quantize (srgbEncode (-0.9689 * x + 1.8758 * y + 0.0415 * z)))
        (quantize (srgbEncode (0.0557 * x - 0.2040 * y + 1.0570 * z))) al := rfl

theorem quantize_def {α : Type} [Sc α] (c : α) :
    quantize c = Sc.toU8 (Sc.round (clamp 0 255 (255 * c))) := rfl

/-- Ottosson's OkLab: `M2 · (1,1,1)ᵀ = (1, 0, 0)` to 4·10⁻⁸ (white has `a = b = 0`). -/
theorem oklab_m2_white :
    |(0.2104542553 + 0.7936177850 + -0.0040720468 : ℝ) - 1| < 4e-8 ∧
    |(1.9779984951 + -2.4285922050 + 0.4505937099 : ℝ)| < 4e-8 ∧
    |(0.0259040371 + 0.7827717662 + -0.8086757660 : ℝ)| < 4e-8 := by
  refine ⟨?_, ?_, ?_⟩ <;> (rw [abs_lt]; constructor <;> norm_num)

/-- Hunt–Pointer–Estevez rows used by `to_lms`. -/
theorem toLms_def (c : Color ℝ) :
    (toLms c).x = 0.38971 * (toXyz c).x + 0.68898 * (toXyz c).y - 0.07868 * (toXyz c).z ∧
    (toLms c).y = -0.22981 * (toXyz c).x + 1.18340 * (toXyz c).y + 0.04641 * (toXyz c).z ∧
    (toLms c).z = (toXyz c).z := by
  refine ⟨rfl, rfl, ?_⟩
  simp only [toLms]; norm_num

/-- The XYZ→sRGB matrix of `from_xyz` inverts the sRGB→XYZ matrix of `to_xyz` up to
`ε = 1.2·10⁻⁴` on the diagonal (the published matrices are rounded to 4 digits). -/
theorem xyz_matrices_near_inverse :
    |3.2406 * 0.4124 - 1.5372 * 0.2126 - 0.4986 * 0.0193 - (1 : ℝ)| < 1.2e-4 ∧
    |(-0.9689) * 0.3576 + 1.8758 * 0.7152 + 0.0415 * 0.1192 - (1 : ℝ)| < 1.2e-4 ∧
    |0.0557 * 0.1805 - 0.2040 * 0.0722 + 1.0570 * 0.9505 - (1 : ℝ)| < 1.2e-4 := by
  refine ⟨?_, ?_, ?_⟩ <;> (rw [abs_lt]; constructor <;> norm_num)

/-! ### The inverse clause for HSL coordinates outside their ranges -/

/-- **HSL lightness far outside `[0,1]`** (exact arithmetic; saturation in `[0,1]`, every hue, every
lightness, every alpha): the bytes of `from_hsla(h, s, l, a)`, which clamps the lightness *first*,
are the bytes of the hexcone inverse evaluated on the coordinates as given, followed by clamping
each channel to `[0,1]` and rounding — the form C04 states. -/
theorem hsl_lightness_outside_is_transform_then_clamp (h s l a : ℝ) (hs0 : 0 ≤ s) (hs1 : s ≤ 1) :
    bytes (fromHsla h s l a) =
      bytes { hue := hueFrom h, sat := s, light := l, alpha := (fromHsla h s l a).alpha } :=
  hsl_lightness_outside h s l a hs0 hs1

/-- …and that for a **saturation** outside `[0,1]` the same statement is *false* of the code and of
the model alike (kernel-evaluated on IEEE floats): `from_hsla(30, 2, 0.25)` is `rgb(128, 64, 0)`,
the hexcone inverse on the coordinates as given followed by channel clamping is `rgb(191, 64, 0)`.
This is the open known finding of C04 (the constructor clamps the saturation before the
transform); `hsl_lightness_outside_is_transform_then_clamp` is the part that holds. -/
theorem hsl_saturation_clamped_first :
    (let c := toRgba8 (fromHsla (30.0 : Float) 2.0 0.25 1.0); (c.r.toNat, c.g.toNat, c.b.toNat)) = (128, 64, 0) ∧
    (let c := toRgba8 ({ hue := hueFrom (30.0 : Float), sat := 2.0, light := 0.25, alpha := 1.0 } : Color Float);
      (c.r.toNat, c.g.toNat, c.b.toNat)) = (191, 64, 0) := by
  decide +kernel

/-! ### The inverse clause for HSV, and the HSL inverse in closed form -/

/-- **The HSV inverse clause, HSV within its natural ranges** (exact arithmetic, every hue in
`[0, 360]`, saturation and value in `[0, 1]`, any alpha): the float channels of `from_hsva(H,S,V,a)`
are the published hexcone inverse `V − V·S·(1 − κ(H/60))` with the three clamped tents `κ`, and the
8-bit channels are those values rounded. -/
theorem hsv_inverse_is_hexcone (H S V a : ℝ) (hH : 0 ≤ H ∧ H ≤ 360) (hS : 0 ≤ S ∧ S ≤ 1) (hV : 0 ≤ V ∧ V ≤ 1) :
    (toRgba8 (fromHsva H S V a : Color ℝ)).r = Sc.toU8 (Sc.round (255.0 * (kR (H / 60) * (V * S) + (V - V * S)) : ℝ)) ∧
    (toRgba8 (fromHsva H S V a : Color ℝ)).g = Sc.toU8 (Sc.round (255.0 * (kG (H / 60) * (V * S) + (V - V * S)) : ℝ)) ∧
    (toRgba8 (fromHsva H S V a : Color ℝ)).b = Sc.toU8 (Sc.round (255.0 * (kB (H / 60) * (V * S) + (V - V * S)) : ℝ)) := by
  obtain ⟨hx, hy, hz⟩ := fromHsva_channels H S V a hH hS hV
  unfold toRgba8
  simp only [hx, hy, hz]
  exact ⟨trivial, trivial, trivial⟩

/-- **The hexcone in closed form for `from_hsla`, all arguments** (exact arithmetic): the float
channels of `from_hsla(h, s, l, a)` are `κ(t)·C + m` with `t = Hue::value(h)/60`, the chroma
`C = (1 − |2l' − 1|)·s'` and `m = l' − C/2` of the **clamped** saturation `s'` and lightness `l'` —
the published HSL inverse, applied after the clamp (for saturations outside `[0,1]` this is where
the implementation departs from "transform, then clamp": see `hsl_saturation_clamped_first`). -/
theorem hsl_inverse_closed_form (h s l a : ℝ) :
    let c := (fromHsla h s l a : Color ℝ)
    toRgbaFloat c = ⟨kR (hueValue c.hue / 60) * ((1 - |2 * c.light - 1|) * c.sat) + (c.light - (1 - |2 * c.light - 1|) * c.sat / 2),
      kG (hueValue c.hue / 60) * ((1 - |2 * c.light - 1|) * c.sat) + (c.light - (1 - |2 * c.light - 1|) * c.sat / 2),
      kB (hueValue c.hue / 60) * ((1 - |2 * c.light - 1|) * c.sat) + (c.light - (1 - |2 * c.light - 1|) * c.sat / 2), c.alpha⟩ :=
  toRgbaFloat_closed _

end Pastel.C04
