/-
C10 — alpha (property theorems).

Alpha is clamped by construction and carried by every unary transformation:
order-only statements, valid for IEEE floats.  Compositing: the output alpha
is `αₛ + α_b(1 − αₛ)` by definition; the blended channel (before rounding) is
a convex combination of the two inputs, hence between them — exact
arithmetic.  That float rounding of the quotient never crosses a half is not
proved (enumerated by the check).
-/
import Pastel.RealInst
import Pastel.Lemmas.Clamp
import Pastel.Props.C05
import Pastel.Lemmas.Hexcone
import Pastel.Lemmas.Quantize
import Pastel.Order
import Pastel.FloatFns

namespace Pastel.C10
open Pastel Sc ScOrd Pastel.C05

section order
variable {α : Type} [ScT α] [ScOrd α]

/-- Every constructor clamps alpha to `[0,1]` (NaN falls to a bound). -/
theorem alpha_clamped (x y z a : α) :
    (fromHsla x y z a).alpha = clamp 0 1 a ∧ (fromHsva x y z a).alpha = clamp 0 1 a ∧
    (fromRgbaFloat x y z a).alpha = clamp 0 1 a ∧ (fromXyz x y z a).alpha = clamp 0 1 a ∧
    (fromLms x y z a).alpha = clamp 0 1 a ∧ (fromLab x y z a).alpha = clamp 0 1 a ∧
    (fromLch x y z a).alpha = clamp 0 1 a ∧ (fromOklab x y z a).alpha = clamp 0 1 a :=
  ⟨rfl, rfl, rfl, rfl, rfl, rfl, rfl, rfl⟩

/-- The alpha of a valid colour survives every unary transformation (IEEE-equal). -/
theorem alpha_preserved (c : Color α) (x : α) (t : CbType) (hc : Valid c) :
    feq (lighten c x).alpha c.alpha = true ∧ feq (darken c x).alpha c.alpha = true ∧
    feq (saturate c x).alpha c.alpha = true ∧ feq (desaturate c x).alpha c.alpha = true ∧
    feq (rotateHue c x).alpha c.alpha = true ∧ feq (complementary c).alpha c.alpha = true ∧
    feq (simulateColorblindness c t).alpha c.alpha = true := by
  have h := clamp_id hc.alpha_range.2.1 hc.alpha_range.2.2
  refine ⟨h, h, h, h, h, h, ?_⟩
  cases t <;> exact h

/-- `to_gray` carries alpha: it is re-clamped twice (`from_lch`, then `desaturate`), and both
clamps are the identity on `[0,1]`. -/
theorem toGray_alpha (c : Color α) (hc : Valid c) : feq (toGray c).alpha c.alpha = true := by
  have h1 := Pastel.clamp_range (lo := (0 : α)) (hi := 1) c.alpha le_0_1
  have h2 : feq (clamp 0 1 (clamp 0 1 c.alpha)) (clamp 0 1 c.alpha) = true := clamp_id h1.2.1 h1.2.2
  have h3 := clamp_id hc.alpha_range.2.1 hc.alpha_range.2.2
  -- IEEE equality is transitive on numbers: go through `≤`
  have hn := h1.1
  show feq (clamp 0 1 (clamp 0 1 c.alpha)) c.alpha = true
  have a1 : clamp 0 1 (clamp 0 1 c.alpha) ≤ c.alpha := by
    have := (clamp_range (lo := (0 : α)) (hi := 1) (clamp 0 1 c.alpha) le_0_1)
    -- clamp is monotone on its range: use antisymmetry through the inner clamp
    exact le_trans (feq_le h2) (feq_le h3)
  have a2 : c.alpha ≤ clamp 0 1 (clamp 0 1 c.alpha) := le_trans (feq_ge h3) (feq_ge h2)
  exact le_antisymm_feq a1 a2

/-- Mixing interpolates alpha linearly (then clamps), in all six spaces. -/
theorem mix_alpha (sp : Space) (c1 c2 : Color α) (f : α) :
    (mix sp c1 c2 f).alpha = clamp 0 1 (interpolate c1.alpha c2.alpha f) := by
  cases sp <;> rfl

/-- Compositing: the output alpha is `αₛ + α_b (1 − αₛ)` (then clamped by the constructor); when
that is zero the constructor is handed the literal 0. -/
theorem composite_alpha (b s : Color α) :
    (feq (s.alpha + b.alpha * (1.0 - s.alpha)) 0.0 = false →
      (composite b s).alpha = clamp 0 1 (s.alpha + b.alpha * (1.0 - s.alpha))) ∧
    (feq (s.alpha + b.alpha * (1.0 - s.alpha)) 0.0 = true → (composite b s).alpha = clamp 0 1 0.0) := by
  constructor <;> intro h <;> simp only [composite, toRgba8, h] <;> rfl

end order

/-- The blended channel before rounding is a convex combination of the two input channels,
hence lies between them (`αₒ > 0`, alphas in `[0,1]`). -/
theorem blend_between (cs cb as_ ab : ℝ) (h0 : 0 ≤ as_) (h1 : as_ ≤ 1) (hb0 : 0 ≤ ab) (_hb1 : ab ≤ 1)
    (hpos : 0 < as_ + ab * (1 - as_)) :
    min cs cb ≤ (cs * as_ + cb * ab * (1 - as_)) / (as_ + ab * (1 - as_)) ∧
    (cs * as_ + cb * ab * (1 - as_)) / (as_ + ab * (1 - as_)) ≤ max cs cb := by
  have hw : 0 ≤ ab * (1 - as_) := mul_nonneg hb0 (by linarith)
  constructor
  · rw [le_div_iff₀ hpos]
    have h1' : min cs cb ≤ cs := min_le_left _ _
    have h2' : min cs cb ≤ cb := min_le_right _ _
    nlinarith [mul_le_mul_of_nonneg_right h1' h0, mul_le_mul_of_nonneg_right h2' hw]
  · rw [div_le_iff₀ hpos]
    have h1' : cs ≤ max cs cb := le_max_left _ _
    have h2' : cb ≤ max cs cb := le_max_right _ _
    nlinarith [mul_le_mul_of_nonneg_right h1' h0, mul_le_mul_of_nonneg_right h2' hw]

/-- An opaque source replaces the backdrop; a transparent source over a visible backdrop leaves
its colour; a colour over the same colour keeps it (exact arithmetic, before rounding). -/
theorem blend_special (cs cb as_ ab : ℝ) :
    (cs * 1 + cb * ab * (1 - 1)) / (1 + ab * (1 - 1)) = cs ∧
    (0 < ab → (cs * 0 + cb * ab * (1 - 0)) / (0 + ab * (1 - 0)) = cb) ∧
    (0 < as_ + ab * (1 - as_) → (cs * as_ + cs * ab * (1 - as_)) / (as_ + ab * (1 - as_)) = cs) := by
  refine ⟨by simp, fun h => ?_, fun h => ?_⟩
  · field_simp; ring
  · field_simp

/-! ### `Color::composite` itself: channels between the inputs, special cases exact -/

/-- **`composite_channel` lies between the two input channels** (as bytes), for alphas in `[0,1]`
with a visible result (`αₒ > 0`). -/
theorem compositeChannel_between (cA cB : UInt8) (aA aB : ℝ) (h0 : 0 ≤ aA) (h1 : aA ≤ 1) (hb0 : 0 ≤ aB) (hb1 : aB ≤ 1)
    (hpos : 0 < aA + aB * (1 - aA)) :
    min cA.toNat cB.toNat ≤ (compositeChannel cA aA cB aB (aA + aB * (1 - aA))).toNat ∧
    (compositeChannel cA aA cB aB (aA + aB * (1 - aA))).toNat ≤ max cA.toNat cB.toNat := by
  unfold compositeChannel u8f
  have hb := blend_between (cA.toNat : ℝ) (cB.toNat : ℝ) aA aB h0 h1 hb0 hb1 hpos
  have hA := cA.toNat_lt
  have hB := cB.toNat_lt
  have key := toU8_round_between
    (((cA.toNat : ℝ) * aA + (cB.toNat : ℝ) * aB * (1 - aA)) / (aA + aB * (1 - aA)))
    (min cA.toNat cB.toNat) (max cA.toNat cB.toNat) (by omega)
    (by push_cast; exact hb.1) (by push_cast; exact hb.2)
  sc_norm
  norm_num at key ⊢
  exact key


/-- A colour composited over the same colour keeps every channel (any alphas, visible result). -/
theorem compositeChannel_same (c : UInt8) (aA aB : ℝ) (h0 : 0 ≤ aA) (h1 : aA ≤ 1) (hb0 : 0 ≤ aB) (hb1 : aB ≤ 1)
    (hpos : 0 < aA + aB * (1 - aA)) : compositeChannel c aA c aB (aA + aB * (1 - aA)) = c := by
  have := compositeChannel_between c c aA aB h0 h1 hb0 hb1 hpos
  simp only [min_self, max_self] at this
  exact UInt8.toNat_inj.mp (by omega)

/-- An opaque source replaces the backdrop's channel. -/
theorem compositeChannel_opaque_source (cA cB : UInt8) (aB : ℝ) :
    compositeChannel cA (1 : ℝ) cB aB (1 + aB * (1 - 1)) = cA := by
  unfold compositeChannel u8f
  have key := toU8_round_between (cA.toNat : ℝ) cA.toNat cA.toNat (by have := cA.toNat_lt; omega) le_rfl le_rfl
  have e : ((Sc.ofNat cA.toNat : ℝ) * 1 + Sc.ofNat cB.toNat * aB * (1.0 - 1)) / (1 + aB * (1 - 1)) = (cA.toNat : ℝ) := by
    sc_norm; norm_num
  rw [e]
  exact UInt8.toNat_inj.mp (by omega)

/-- A fully transparent source leaves a visible backdrop's channel unchanged. -/
theorem compositeChannel_transparent_source (cA cB : UInt8) (aB : ℝ) (hb : 0 < aB) :
    compositeChannel cA (0 : ℝ) cB aB (0 + aB * (1 - 0)) = cB := by
  unfold compositeChannel u8f
  have key := toU8_round_between (cB.toNat : ℝ) cB.toNat cB.toNat (by have := cB.toNat_lt; omega) le_rfl le_rfl
  have e : ((Sc.ofNat cA.toNat : ℝ) * 0 + Sc.ofNat cB.toNat * aB * (1.0 - 0)) / (0 + aB * (1 - 0)) = (cB.toNat : ℝ) := by
    sc_norm; norm_num
    field_simp
  rw [e]
  exact UInt8.toNat_inj.mp (by omega)

/-- **At the colour level**: the 8-bit channels of `composite` are exactly the three
`composite_channel` values of the operands' 8-bit channels (the HSL round trip of C03 loses
nothing), so the statements above are statements about `Color::composite`. -/
theorem composite_channels (b s : Color ℝ)
    (ha : (toRgba8 s).alpha + (toRgba8 b).alpha * (1.0 - (toRgba8 s).alpha) ≠ 0.0) :
    let bd := toRgba8 b
    let src := toRgba8 s
    let a := src.alpha + bd.alpha * (1.0 - src.alpha)
    (toRgba8 (composite b s)).r = compositeChannel src.r src.alpha bd.r bd.alpha a ∧
    (toRgba8 (composite b s)).g = compositeChannel src.g src.alpha bd.g bd.alpha a ∧
    (toRgba8 (composite b s)).b = compositeChannel src.b src.alpha bd.b bd.alpha a := by
  simp only []
  have hf : Sc.feq ((toRgba8 s).alpha + (toRgba8 b).alpha * (1.0 - (toRgba8 s).alpha)) (0.0 : ℝ) = false := by
    cases hq : Sc.feq ((toRgba8 s).alpha + (toRgba8 b).alpha * (1.0 - (toRgba8 s).alpha)) (0.0 : ℝ)
    · rfl
    · exact absurd ((real_feq _ _).mp hq) ha
  unfold composite
  simp only [hf, Bool.false_eq_true, if_false]
  exact hsl_roundtrip_real _ _ _ _

/-- When both operands are fully transparent (output alpha 0) the result keeps the backdrop's
bytes: in particular a colour over the same colour keeps that colour, and every channel lies
between the inputs' channels - also in this case, where no average is defined. -/
theorem composite_both_transparent (b s : Color ℝ)
    (ha : (toRgba8 s).alpha + (toRgba8 b).alpha * (1.0 - (toRgba8 s).alpha) = 0.0) :
    (toRgba8 (composite b s)).r = (toRgba8 b).r ∧ (toRgba8 (composite b s)).g = (toRgba8 b).g ∧
    (toRgba8 (composite b s)).b = (toRgba8 b).b := by
  have hf : Sc.feq ((toRgba8 s).alpha + (toRgba8 b).alpha * (1.0 - (toRgba8 s).alpha)) (0.0 : ℝ) = true :=
    (real_feq _ _).mpr ha
  unfold composite
  simp only [hf, if_true]
  exact hsl_roundtrip_real _ _ _ _

/-- On IEEE floats (NaN, ±∞, −0 included): alpha is carried IEEE-equal through every unary
transformation of a valid colour. -/
theorem float_alpha_preserved (c : Color Float) (x : Float) (t : CbType) (hc : Valid c) :
    Sc.feq (lighten c x).alpha c.alpha = true ∧ Sc.feq (darken c x).alpha c.alpha = true ∧
    Sc.feq (saturate c x).alpha c.alpha = true ∧ Sc.feq (desaturate c x).alpha c.alpha = true ∧
    Sc.feq (rotateHue c x).alpha c.alpha = true ∧ Sc.feq (complementary c).alpha c.alpha = true ∧
    Sc.feq (simulateColorblindness c t).alpha c.alpha = true :=
  alpha_preserved c x t hc

end Pastel.C10
