/-
C03 — property theorems (only final statements live here; helper lemmas are in
`Pastel/Lemmas/`).  See DESIGN.md §5 for what is and is not proved.
-/
import Pastel.Model.Color
import Pastel.Lemmas.Hexcone
import Pastel.Props.C06
import Pastel.Lemmas.Turns

namespace Pastel.C03
open Pastel

variable {α : Type} [Sc α]

/-- `to_u32` yields `0xRRGGBB`: the packed value is `r·2¹⁶ + g·2⁸ + b` of the colour's
8-bit channels (no wrap-around can occur). -/
theorem toU32_layout (c : Color α) :
    toU32 c = (toRgba8 c).r.toNat * 2^16 + (toRgba8 c).g.toNat * 2^8 + (toRgba8 c).b.toNat := by
  unfold toU32
  have hr := (toRgba8 c).r.toNat_lt
  have hg := (toRgba8 c).g.toNat_lt
  have hb := (toRgba8 c).b.toNat_lt
  simp only []
  omega

/-- The three bytes of `to_u32` can be read back: unpacking inverts packing. -/
theorem toU32_unpack (c : Color α) :
    toU32 c / 2^16 % 256 = (toRgba8 c).r.toNat ∧
    toU32 c / 2^8 % 256 = (toRgba8 c).g.toNat ∧
    toU32 c % 256 = (toRgba8 c).b.toNat := by
  rw [toU32_layout]
  have hr := (toRgba8 c).r.toNat_lt
  have hg := (toRgba8 c).g.toNat_lt
  have hb := (toRgba8 c).b.toNat_lt
  omega

/-- `from_u32` reads `0xRRGGBBAA`: channels `R, G, B` and alpha `AA / 255`. -/
theorem fromU32_layout (R G B A : Nat) (hR : R < 256) (hG : G < 256) (hB : B < 256) (hA : A < 256) :
    (fromU32 (R * 2^24 + G * 2^16 + B * 2^8 + A) : Color α) =
      fromRgba8 (UInt8.ofNat R) (UInt8.ofNat G) (UInt8.ofNat B) (Sc.ofNat A / 255.0) := by
  unfold fromU32
  have e1 : (R * 2^24 + G * 2^16 + B * 2^8 + A) / 16777216 % 256 = R := by omega
  have e2 : (R * 2^24 + G * 2^16 + B * 2^8 + A) / 65536 % 256 = G := by omega
  have e3 : (R * 2^24 + G * 2^16 + B * 2^8 + A) / 256 % 256 = B := by omega
  have e4 : (R * 2^24 + G * 2^16 + B * 2^8 + A) % 256 = A := by omega
  simp only [e1, e2, e3, e4]

/-- **HSL storage round trip in exact arithmetic, for all 2²⁴ colours and any alpha**: a colour
built from 8-bit channels (it is stored as hexcone HSL) reports exactly those channels back. -/
theorem hsl_roundtrip (r g b : UInt8) (a : ℝ) :
    (toRgba8 (fromRgba8 r g b a : Color ℝ)).r = r ∧ (toRgba8 (fromRgba8 r g b a : Color ℝ)).g = g ∧
    (toRgba8 (fromRgba8 r g b a : Color ℝ)).b = b :=
  hsl_roundtrip_real r g b a

/-- The float channels of an 8-bit colour are exactly `k/255` (exact arithmetic). -/
theorem float_channels_exact (r g b : UInt8) (a : ℝ) :
    (toRgbaFloat (fromRgba8 r g b a : Color ℝ)).x = (r.toNat : ℝ) / 255 ∧
    (toRgbaFloat (fromRgba8 r g b a : Color ℝ)).y = (g.toNat : ℝ) / 255 ∧
    (toRgbaFloat (fromRgba8 r g b a : Color ℝ)).z = (b.toNat : ℝ) / 255 := by
  rw [fromRgba8_toRgbaFloat]; exact ⟨rfl, rfl, rfl⟩

/-- Float-RGB round trip: quantising the float channels of an 8-bit colour gives the bytes back. -/
theorem rgbFloat_roundtrip (r g b : UInt8) (a : ℝ) :
    quantize (toRgbaFloat (fromRgba8 r g b a : Color ℝ)).x = r ∧
    quantize (toRgbaFloat (fromRgba8 r g b a : Color ℝ)).y = g ∧
    quantize (toRgbaFloat (fromRgba8 r g b a : Color ℝ)).z = b := by
  rw [fromRgba8_toRgbaFloat]
  have q : ∀ x : UInt8, quantize (chan x) = x := by
    intro x
    unfold quantize
    have hx := chan_range x
    have hc : clamp (0 : ℝ) 255 (255 * chan x) = 255 * chan x := by
      simp only [clamp, real_fmin, real_fmax, real_lit]
      push_cast
      rw [min_eq_right (by nlinarith [hx.2]), max_eq_left (by nlinarith [hx.1])]
    have := real_toU8_round_chan x
    have e : (255.0 : ℝ) * chan x = 255 * chan x := by norm_num
    rw [e] at this
    simp only [real_lit] at hc ⊢
    push_cast at hc ⊢
    rw [hc]; exact this
  exact ⟨q r, q g, q b⟩

/-- Non-vacuity on floats: the same round trip, evaluated by the kernel on IEEE doubles for a
few colours (a test, not the general claim). -/
theorem hsl_roundtrip_float_witnesses :
    (let c := toRgba8 (fromRgba8 200 100 50 0.5 : Color Float); (c.r, c.g, c.b)) = (200, 100, 50) ∧
    (let c := toRgba8 (fromRgba8 1 255 254 1.0 : Color Float); (c.r, c.g, c.b)) = (1, 255, 254) := by
  decide +kernel


section hsv
open Pastel.C05

/-- **HSV round trip in exact arithmetic**: converting a valid colour to HSV and constructing a
colour from those coordinates gives the same colour — the same lightness, the same saturation
unless the colour is black or white (where it is irrelevant), the same reported hue and alpha,
and identical float RGB channels. -/
theorem hsv_roundtrip_real (c : Color ℝ) (hc : Valid c) :
    let q := toHsva c
    let c' := fromHsva q.x q.y q.z q.alpha
    c'.light = c.light ∧ (0 < c.light → c.light < 1 → c'.sat = c.sat) ∧
    hueValue c'.hue = hueValue c.hue ∧ c'.alpha = c.alpha ∧ toRgbaFloat c' = toRgbaFloat c := by
  obtain ⟨s0, s1, l0, l1⟩ := C06.valid_real c hc
  obtain ⟨_, a0, a1⟩ := hc.alpha_range
  have a0' : (0 : ℝ) ≤ c.alpha := by simpa using a0
  have a1' : c.alpha ≤ (1 : ℝ) := by simpa using a1
  simp only []
  have e10 : (1.0 : ℝ) = 1 := by norm_num
  have e00 : (0.0 : ℝ) = 0 := by norm_num
  have e20 : (2.0 : ℝ) = 2 := by norm_num
  have hμ : 0 ≤ min c.light (1 - c.light) := le_min l0 (by linarith)
  have hv0 : 0 ≤ c.light + c.sat * min c.light (1 - c.light) := by positivity
  -- the lightness comes back
  have hlight : (fromHsva (toHsva c).x (toHsva c).y (toHsva c).z (toHsva c).alpha).light = c.light := by
    simp only [fromHsva, toHsva, clamp]
    sc_norm
    push_cast
    simp only [e10, e00, e20]
    push_cast
    by_cases hv : 0 < c.light + c.sat * min c.light (1 - c.light)
    · rw [if_pos hv]
      have : (c.light + c.sat * min c.light (1 - c.light)) *
          (1 - 2 * (1 - c.light / (c.light + c.sat * min c.light (1 - c.light))) / 2) = c.light := by
        field_simp
        ring
      rw [this, min_eq_right l1, max_eq_left l0]
    · rw [if_neg hv]
      have hz : c.light + c.sat * min c.light (1 - c.light) = 0 := le_antisymm (not_lt.mp hv) hv0
      have hl : c.light = 0 := by nlinarith [mul_nonneg s0 hμ]
      rw [hz, hl]; norm_num
  have hhue : hueValue (fromHsva (toHsva c).x (toHsva c).y (toHsva c).z (toHsva c).alpha).hue = hueValue c.hue := by
    show hueValue (hueFrom (hueValue c.hue)) = hueValue c.hue
    have : hueFrom (hueValue c.hue) = hueValue c.hue := by unfold hueFrom; simp
    rw [this, real_hueValue_idem]
  have halpha : (fromHsva (toHsva c).x (toHsva c).y (toHsva c).z (toHsva c).alpha).alpha = c.alpha := by
    simp only [fromHsva, toHsva, clamp]; sc_norm; push_cast
    rw [min_eq_right a1', max_eq_left a0']
  have hsat : 0 < c.light → c.light < 1 →
      (fromHsva (toHsva c).x (toHsva c).y (toHsva c).z (toHsva c).alpha).sat = c.sat := by
    intro hl0 hl1
    have hμp : 0 < min c.light (1 - c.light) := lt_min hl0 (by linarith)
    have hv : 0 < c.light + c.sat * min c.light (1 - c.light) := by
      have := mul_nonneg s0 hμ; linarith
    simp only [fromHsva, toHsva, clamp]
    sc_norm
    push_cast
    simp only [e10, e00, e20]
    push_cast
    rw [if_pos hv]
    have e : (c.light + c.sat * min c.light (1 - c.light)) *
        (1 - 2 * (1 - c.light / (c.light + c.sat * min c.light (1 - c.light))) / 2) = c.light := by
      field_simp
      ring
    rw [e, if_pos ⟨hl0, hl1⟩]
    have e2 : (c.light + c.sat * min c.light (1 - c.light) - c.light) / min c.light (1 - c.light) = c.sat := by
      field_simp
      ring
    rw [e2, min_eq_right s1, max_eq_left s0]
  refine ⟨hlight, hsat, hhue, halpha, ?_⟩
  by_cases hmid : 0 < c.light ∧ c.light < 1
  · exact toRgbaFloat_hue_congr c _ hhue (hsat hmid.1 hmid.2) hlight halpha
  · -- black or white: both colours are achromatic with the same lightness
    have hchr : ∀ s : ℝ, ((1.0 : ℝ) - |(2.0 : ℝ) * c.light - (1.0 : ℝ)|) * s = 0 := by
      intro s
      have : c.light = 0 ∨ c.light = 1 := by
        by_cases h0 : 0 < c.light
        · right; have : ¬ c.light < 1 := fun h => hmid ⟨h0, h⟩; linarith
        · left; linarith
      rcases this with h | h <;> rw [h] <;> norm_num
    have h1 := toRgbaFloat_achromatic c (hchr _)
    have h2 := toRgbaFloat_achromatic (fromHsva (toHsva c).x (toHsva c).y (toHsva c).z (toHsva c).alpha)
      (by rw [hlight]; exact hchr _)
    have ea : (toRgbaFloat (fromHsva (toHsva c).x (toHsva c).y (toHsva c).z (toHsva c).alpha)).alpha = (toRgbaFloat c).alpha := by
      show (fromHsva (toHsva c).x (toHsva c).y (toHsva c).z (toHsva c).alpha).alpha = c.alpha
      exact halpha
    cases hq : toRgbaFloat (fromHsva (toHsva c).x (toHsva c).y (toHsva c).z (toHsva c).alpha) with
    | mk x y z al =>
      cases hp : toRgbaFloat c with
      | mk x' y' z' al' =>
        rw [hq] at h2 ea; rw [hp] at h1 ea
        simp only at h1 h2 ea
        rw [h2.1, h2.2.1, h2.2.2, h1.1, h1.2.1, h1.2.2, hlight, ea]


end hsv


/-! ### CMYK -/

theorem quantize_chan (x : UInt8) : quantize (chan x) = x := by
  unfold quantize
  have hx := chan_range x
  have hc : clamp (0 : ℝ) 255 (255 * chan x) = 255 * chan x := by
    simp only [clamp, real_fmin, real_fmax, real_lit]
    push_cast
    rw [min_eq_right (by nlinarith [hx.2]), max_eq_left (by nlinarith [hx.1])]
  have := real_toU8_round_chan x
  have e : (255.0 : ℝ) * chan x = 255 * chan x := by norm_num
  rw [e] at this
  simp only [real_lit] at hc ⊢
  push_cast at hc ⊢
  rw [hc]; exact this

/-- The naive CMYK formulas invert each other on a channel: with `big` the largest channel,
`(1 − (1 − x − (1 − big)) / big) · (1 − (1 − big)) = x` (also for `big = 0`, where `x = 0`). -/
theorem cmyk_channel (x big : ℝ) (hx0 : 0 ≤ x) (hxb : x ≤ big) :
    (1 - (1 - x - (1 - big)) / big) * (1 - (1 - big)) = x := by
  by_cases hb : big = 0
  · have : x = 0 := by linarith
    rw [hb, this]; norm_num
  · field_simp
    ring

/-- **CMYK round trip in exact arithmetic, all 2²⁴ colours at once**: converting an 8-bit colour
to CMYK and back gives the same bytes. -/
theorem cmyk_roundtrip (r g b : UInt8) (a : ℝ) :
    let q := toCmyk (fromRgba8 r g b a : Color ℝ)
    let c' := toRgba8 (fromCmyk q.c q.m q.y q.k : Color ℝ)
    c'.r = r ∧ c'.g = g ∧ c'.b = b := by
  simp only []
  have hrt := hsl_roundtrip r g b a
  obtain ⟨e1, e2, e3⟩ := hrt
  have hR := chan_range r
  have hG := chan_range g
  have hB := chan_range b
  -- the three float channels fed to fromRgbaFloat are exactly r/255, g/255, b/255
  have key : ∀ (x y z : ℝ), x = chan r → y = chan g → z = chan b →
      (toRgba8 (fromRgbaFloat x y z (1.0 : ℝ) : Color ℝ)).r = r ∧ (toRgba8 (fromRgbaFloat x y z (1.0 : ℝ) : Color ℝ)).g = g ∧
      (toRgba8 (fromRgbaFloat x y z (1.0 : ℝ) : Color ℝ)).b = b := by
    intro x y z hx hy hz
    unfold fromRgbaFloat
    rw [hx, hy, hz, quantize_chan, quantize_chan, quantize_chan]
    exact hsl_roundtrip r g b _
  have e10 : (1.0 : ℝ) = 1 := by norm_num
  have e00 : (0.0 : ℝ) = 0 := by norm_num
  have e255 : (255.0 : ℝ) = 255 := by norm_num
  have big_spec : ∀ R G B : ℝ, R ≤ (if G ≤ R ∧ B ≤ R then R else if R ≤ G ∧ B ≤ G then G else B) ∧
      G ≤ (if G ≤ R ∧ B ≤ R then R else if R ≤ G ∧ B ≤ G then G else B) ∧
      B ≤ (if G ≤ R ∧ B ≤ R then R else if R ≤ G ∧ B ≤ G then G else B) := by
    intro R G B
    split_ifs with h1 h2
    · exact ⟨le_rfl, h1.1, h1.2⟩
    · exact ⟨h2.1, le_rfl, h2.2⟩
    · push Not at h1 h2
      by_cases hgr : G ≤ R
      · have hb := h1 hgr
        by_cases hrg : R ≤ G
        · have := h2 hrg; exact ⟨by linarith, by linarith, le_rfl⟩
        · exact ⟨by linarith, by linarith, le_rfl⟩
      · have hrg : R ≤ G := by linarith
        have := h2 hrg
        exact ⟨by linarith, by linarith, le_rfl⟩
  unfold fromCmyk
  apply key
  all_goals
    simp only [toCmyk, e1, e2, e3, u8f, real_isNaN]
    sc_norm
    simp only [e10, e00, e255, Bool.false_eq_true, if_false]
    push_cast
  · have hs := big_spec (chan r) (chan g) (chan b)
    unfold chan at hs ⊢
    generalize (if (g.toNat : ℝ) / 255 ≤ (r.toNat : ℝ) / 255 ∧ (b.toNat : ℝ) / 255 ≤ (r.toNat : ℝ) / 255 then (r.toNat : ℝ) / 255
      else if (r.toNat : ℝ) / 255 ≤ (g.toNat : ℝ) / 255 ∧ (b.toNat : ℝ) / 255 ≤ (g.toNat : ℝ) / 255 then (g.toNat : ℝ) / 255
      else (b.toNat : ℝ) / 255) = big at hs ⊢
    exact cmyk_channel _ big (by positivity) hs.1
  · have hs := big_spec (chan r) (chan g) (chan b)
    unfold chan at hs ⊢
    generalize (if (g.toNat : ℝ) / 255 ≤ (r.toNat : ℝ) / 255 ∧ (b.toNat : ℝ) / 255 ≤ (r.toNat : ℝ) / 255 then (r.toNat : ℝ) / 255
      else if (r.toNat : ℝ) / 255 ≤ (g.toNat : ℝ) / 255 ∧ (b.toNat : ℝ) / 255 ≤ (g.toNat : ℝ) / 255 then (g.toNat : ℝ) / 255
      else (b.toNat : ℝ) / 255) = big at hs ⊢
    exact cmyk_channel _ big (by positivity) hs.2.1
  · have hs := big_spec (chan r) (chan g) (chan b)
    unfold chan at hs ⊢
    generalize (if (g.toNat : ℝ) / 255 ≤ (r.toNat : ℝ) / 255 ∧ (b.toNat : ℝ) / 255 ≤ (r.toNat : ℝ) / 255 then (r.toNat : ℝ) / 255
      else if (r.toNat : ℝ) / 255 ≤ (g.toNat : ℝ) / 255 ∧ (b.toNat : ℝ) / 255 ≤ (g.toNat : ℝ) / 255 then (g.toNat : ℝ) / 255
      else (b.toNat : ℝ) / 255) = big at hs ⊢
    exact cmyk_channel _ big (by positivity) hs.2.2


end Pastel.C03
