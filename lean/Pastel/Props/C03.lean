/-
C03 — property theorems (only final statements live here; helper lemmas are in
`Pastel/Lemmas/`).  See DESIGN.md §5 for what is and is not proved.
-/
import Pastel.Model.Color
import Pastel.Lemmas.Hexcone

namespace Pastel.C03
open Pastel

variable {α : Type} [Sc α]

/-- `to_u32` yields `0xRRGGBB`: the packed value is `r·2¹⁶ + g·2⁸ + b` of the colour's
8-bit channels (no wrap-around can occur). -/
theorem toU32_layout (c : Color α) :
    toU32 c = (toRgba8 c).r.toNat * 2^16 + (toRgba8 c).g.toNat * 2^8 + (toRgba8 c).b.toNat := by
  unfold toU32
  have hr := (toRgba8 c).r.toNat_lt
  have hg := (toRgba8 c).g.toNat_lt
  have hb := (toRgba8 c).b.toNat_lt
  simp only []
  omega

/-- The three bytes of `to_u32` can be read back: unpacking inverts packing. -/
theorem toU32_unpack (c : Color α) :
    toU32 c / 2^16 % 256 = (toRgba8 c).r.toNat ∧
    toU32 c / 2^8 % 256 = (toRgba8 c).g.toNat ∧
    toU32 c % 256 = (toRgba8 c).b.toNat := by
  rw [toU32_layout]
  have hr := (toRgba8 c).r.toNat_lt
  have hg := (toRgba8 c).g.toNat_lt
  have hb := (toRgba8 c).b.toNat_lt
  omega

/-- `from_u32` reads `0xRRGGBBAA`: channels `R, G, B` and alpha `AA / 255`. -/
theorem fromU32_layout (R G B A : Nat) (hR : R < 256) (hG : G < 256) (hB : B < 256) (hA : A < 256) :
    (fromU32 (R * 2^24 + G * 2^16 + B * 2^8 + A) : Color α) =
      fromRgba8 (UInt8.ofNat R) (UInt8.ofNat G) (UInt8.ofNat B) (Sc.ofNat A / 255.0) := by
  unfold fromU32
  have e1 : (R * 2^24 + G * 2^16 + B * 2^8 + A) / 16777216 % 256 = R := by omega
  have e2 : (R * 2^24 + G * 2^16 + B * 2^8 + A) / 65536 % 256 = G := by omega
  have e3 : (R * 2^24 + G * 2^16 + B * 2^8 + A) / 256 % 256 = B := by omega
  have e4 : (R * 2^24 + G * 2^16 + B * 2^8 + A) % 256 = A := by omega
  simp only [e1, e2, e3, e4]

/-- **HSL storage round trip in exact arithmetic, for all 2²⁴ colours and any alpha**: a colour
built from 8-bit channels (it is stored as hexcone HSL) reports exactly those channels back. -/
theorem hsl_roundtrip (r g b : UInt8) (a : ℝ) :
    (toRgba8 (fromRgba8 r g b a : Color ℝ)).r = r ∧ (toRgba8 (fromRgba8 r g b a : Color ℝ)).g = g ∧
    (toRgba8 (fromRgba8 r g b a : Color ℝ)).b = b :=
  hsl_roundtrip_real r g b a

/-- The float channels of an 8-bit colour are exactly `k/255` (exact arithmetic). -/
theorem float_channels_exact (r g b : UInt8) (a : ℝ) :
    (toRgbaFloat (fromRgba8 r g b a : Color ℝ)).x = (r.toNat : ℝ) / 255 ∧
    (toRgbaFloat (fromRgba8 r g b a : Color ℝ)).y = (g.toNat : ℝ) / 255 ∧
    (toRgbaFloat (fromRgba8 r g b a : Color ℝ)).z = (b.toNat : ℝ) / 255 := by
  rw [fromRgba8_toRgbaFloat]; exact ⟨rfl, rfl, rfl⟩

/-- Float-RGB round trip: quantising the float channels of an 8-bit colour gives the bytes back. -/
theorem rgbFloat_roundtrip (r g b : UInt8) (a : ℝ) :
    quantize (toRgbaFloat (fromRgba8 r g b a : Color ℝ)).x = r ∧
    quantize (toRgbaFloat (fromRgba8 r g b a : Color ℝ)).y = g ∧
    quantize (toRgbaFloat (fromRgba8 r g b a : Color ℝ)).z = b := by
  rw [fromRgba8_toRgbaFloat]
  have q : ∀ x : UInt8, quantize (chan x) = x := by
    intro x
    unfold quantize
    have hx := chan_range x
    have hc : clamp (0 : ℝ) 255 (255 * chan x) = 255 * chan x := by
      simp only [clamp, real_fmin, real_fmax, real_lit]
      push_cast
      rw [min_eq_right (by nlinarith [hx.2]), max_eq_left (by nlinarith [hx.1])]
    have := real_toU8_round_chan x
    have e : (255.0 : ℝ) * chan x = 255 * chan x := by norm_num
    rw [e] at this
    simp only [real_lit] at hc ⊢
    push_cast at hc ⊢
    rw [hc]; exact this
  exact ⟨q r, q g, q b⟩

/-- Non-vacuity on floats: the same round trip, evaluated by the kernel on IEEE doubles for a
few colours (a test, not the general claim). -/
theorem hsl_roundtrip_float_witnesses :
    (let c := toRgba8 (fromRgba8 200 100 50 0.5 : Color Float); (c.r, c.g, c.b)) = (200, 100, 50) ∧
    (let c := toRgba8 (fromRgba8 1 255 254 1.0 : Color Float); (c.r, c.g, c.b)) = (1, 255, 254) := by
  decide +kernel

end Pastel.C03
