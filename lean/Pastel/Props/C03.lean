/-
C03 — property theorems (only final statements live here; helper lemmas are in
`Pastel/Lemmas/`).  See DESIGN.md §5 for what is and is not proved.
-/
import Pastel.Model.Color

namespace Pastel.C03
open Pastel

variable {α : Type} [Sc α]

/-- `to_u32` yields `0xRRGGBB`: the packed value is `r·2¹⁶ + g·2⁸ + b` of the colour's
8-bit channels (no wrap-around can occur). -/
theorem toU32_layout (c : Color α) :
    toU32 c = (toRgba8 c).r.toNat * 2^16 + (toRgba8 c).g.toNat * 2^8 + (toRgba8 c).b.toNat := by
  unfold toU32
  have hr := (toRgba8 c).r.toNat_lt
  have hg := (toRgba8 c).g.toNat_lt
  have hb := (toRgba8 c).b.toNat_lt
  simp only []
  omega

/-- The three bytes of `to_u32` can be read back: unpacking inverts packing. -/
theorem toU32_unpack (c : Color α) :
    toU32 c / 2^16 % 256 = (toRgba8 c).r.toNat ∧
    toU32 c / 2^8 % 256 = (toRgba8 c).g.toNat ∧
    toU32 c % 256 = (toRgba8 c).b.toNat := by
  rw [toU32_layout]
  have hr := (toRgba8 c).r.toNat_lt
  have hg := (toRgba8 c).g.toNat_lt
  have hb := (toRgba8 c).b.toNat_lt
  omega

end Pastel.C03
