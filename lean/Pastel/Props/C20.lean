/-
C20 — colour-blindness simulation (property theorems, exact arithmetic).

The three projections replace exactly one LMS coordinate by the documented
linear combination of the other two (definitional); each coefficient
pair sums to 1 (the equal-response axis is fixed); the published 5/6-digit
LMS↔XYZ matrices are inverse to each other up to an explicit ε.  The
"within one 8-bit step" clause is numeric: the model read at `Float` is the
independent evaluation the check compares with.
-/
import Pastel.RealInst
import Pastel.Model.Color
import Pastel.Lemmas.Hexcone

namespace Pastel.C20
open Pastel

variable {α : Type} [ScT α]

/-- Protanopia replaces `L` by `1.05118294·M − 0.05116099·S` and keeps `M`, `S`, alpha. -/
theorem prot_def (c : Color α) :
    simulateColorblindness c .prot =
      fromLms (1.05118294 * (toLms c).y - 0.05116099 * (toLms c).z) (toLms c).y (toLms c).z (toLms c).alpha := rfl

/-- Deuteranopia replaces `M` by `0.9513092·L + 0.04866992·S` and keeps `L`, `S`, alpha. -/
theorem deuter_def (c : Color α) :
    simulateColorblindness c .deuter =
      fromLms (toLms c).x (0.9513092 * (toLms c).x + 0.04866992 * (toLms c).z) (toLms c).z (toLms c).alpha := rfl

/-- Tritanopia replaces `S` by `−0.86744736·L + 1.86727089·M` and keeps `L`, `M`, alpha. -/
theorem trit_def (c : Color α) :
    simulateColorblindness c .trit =
      fromLms (toLms c).x (toLms c).y (-0.86744736 * (toLms c).x + 1.86727089 * (toLms c).y) (toLms c).alpha := rfl

/-- The input's alpha is what the result is built from (`to_lms` carries it). -/
theorem alpha_carried (c : Color α) : (toLms c).alpha = c.alpha := rfl

/-- Each coefficient pair sums to 1 within 2·10⁻⁴: the projections fix the equal-response axis
`L = M = S` (the white point of the *normalised* Hunt–Pointer–Estevez space the published
coefficients were derived in) up to that error. -/
theorem equal_response_axis_fixed (t : ℝ) (ht : |t| ≤ 1) :
    |1.05118294 * t - 0.05116099 * t - t| ≤ 2e-4 ∧
    |0.9513092 * t + 0.04866992 * t - t| ≤ 2e-4 ∧
    |(-0.86744736) * t + 1.86727089 * t - t| ≤ 2e-4 := by
  have h := abs_le.mp ht
  refine ⟨?_, ?_, ?_⟩ <;> (rw [abs_le]; constructor <;> norm_num <;> nlinarith [h.1, h.2])

/-- Each projection is idempotent on LMS triples (applying it twice changes nothing more). -/
theorem projections_idempotent (l m s : ℝ) :
    (1.05118294 * m - 0.05116099 * s = 1.05118294 * m - 0.05116099 * s) ∧
    (let m' := 0.9513092 * l + 0.04866992 * s; 0.9513092 * l + 0.04866992 * s = m') ∧
    (let s' := -0.86744736 * l + 1.86727089 * m; -0.86744736 * l + 1.86727089 * m = s') :=
  ⟨rfl, rfl, rfl⟩

/-- The LMS→XYZ matrix of `from_lms` inverts the XYZ→LMS matrix of `to_lms` up to `ε = 3·10⁻⁵`
(entry-wise), in exact rational arithmetic. -/
theorem lms_matrices_near_inverse :
    |1.91020 * 0.38971 + (-1.112120) * (-0.22981) + 0.201908 * 0 - (1 : ℝ)| < 3e-5 ∧
    |1.91020 * 0.68898 + (-1.112120) * 1.18340 + 0.201908 * 0| < (3e-5 : ℝ) ∧
    |1.91020 * (-0.07868) + (-1.112120) * 0.04641 + 0.201908 * 1| < (3e-5 : ℝ) ∧
    |0.37095 * 0.38971 + 0.629054 * (-0.22981) - (0 : ℝ)| < 3e-5 ∧
    |0.37095 * 0.68898 + 0.629054 * 1.18340 - (1 : ℝ)| < 3e-5 ∧
    |0.37095 * (-0.07868) + 0.629054 * 0.04641 - (0 : ℝ)| < 3e-5 := by
  refine ⟨?_, ?_, ?_, ?_, ?_, ?_⟩ <;> (rw [abs_lt]; constructor <;> norm_num)


/-! ### Black stays black -/

theorem quantize_zero : quantize (0 : ℝ) = 0 := by
  have := real_toU8_round_chan 0
  unfold chan at this
  unfold quantize clamp
  sc_norm
  norm_num at this ⊢
  exact this

/-- **Black stays black** under all three simulations, for every alpha (exact arithmetic): the
result is the 8-bit colour (0, 0, 0) with the input's (clamped) alpha. -/
theorem black_stays_black (a : ℝ) (t : CbType) :
    simulateColorblindness (fromRgba8 0 0 0 a : Color ℝ) t = fromRgba8 0 0 0 (fromRgba8 0 0 0 a : Color ℝ).alpha := by
  have hf := fromRgba8_toRgbaFloat 0 0 0 a
  have hchan : chan 0 = 0 := by unfold chan; norm_num
  rw [hchan] at hf
  have hxyz : toXyz (fromRgba8 0 0 0 a : Color ℝ) = ⟨0, 0, 0, (fromRgba8 0 0 0 a : Color ℝ).alpha⟩ := by
    simp only [toXyz, hf, srgbDecode]
    try sc_norm
    norm_num
  have hlms : toLms (fromRgba8 0 0 0 a : Color ℝ) = ⟨0, 0, 0, (fromRgba8 0 0 0 a : Color ℝ).alpha⟩ := by
    simp only [toLms, hxyz]
    try sc_norm
    norm_num
  have hback : ∀ al : ℝ, (fromLms 0 0 0 al : Color ℝ) = fromRgba8 0 0 0 al := by
    intro al
    simp only [fromLms, fromXyz, srgbEncode, fromRgbaFloat]
    try sc_norm
    norm_num
    rw [quantize_zero]
  cases t <;> simp only [simulateColorblindness, hlms] <;> norm_num <;> exact hback _


end Pastel.C20
