/-
C01 — colour grammar (property theorems about `Pastel/Model/Parser.lean`).

The parser model is a total function: every definition is accepted by Lean's
termination checker, so no input makes *the model* diverge or fail; the
implementation side of "no panic" is the `catch_unwind` of the correspondence.
Theorems here hold for **all** strings of the stated classes.
-/
import Pastel.Model.Parser
import Mathlib.Data.List.TakeWhile

namespace Pastel.C01
open Pastel Pastel.P

/-! ### whitespace around the whole string -/

theorem dropWhile_append_of_all {β : Type} (p : β → Bool) (ws s : List β) (h : ∀ c ∈ ws, p c = true) :
    (ws ++ s).dropWhile p = s.dropWhile p := by
  induction ws with
  | nil => rfl
  | cons w ws ih =>
    have hw := h w List.mem_cons_self
    simp only [List.cons_append, List.dropWhile_cons, hw, if_true]
    exact ih (fun c hc => h c (List.mem_cons_of_mem _ hc))

/-- Leading and trailing Unicode whitespace is irrelevant: `trim (ws ++ s ++ ws') = trim s`. -/
theorem trim_whitespace (ws ws' s : List Char) (h : ∀ c ∈ ws, isWhitespace c = true)
    (h' : ∀ c ∈ ws', isWhitespace c = true) : trim (ws ++ s ++ ws') = trim s := by
  unfold trim trimStart
  rw [List.append_assoc, dropWhile_append_of_all _ _ _ h]
  -- now the trailing part: (dropWhile (s ++ ws')).reverse
  by_cases hs : ∀ c ∈ s, isWhitespace c = true
  · -- everything is whitespace
    have e1 : (s ++ ws').dropWhile isWhitespace = [] := by
      apply List.dropWhile_eq_nil_iff.mpr
      intro c hc
      rcases List.mem_append.mp hc with h1 | h1
      · exact hs c h1
      · exact h' c h1
    have e2 : s.dropWhile isWhitespace = [] := List.dropWhile_eq_nil_iff.mpr hs
    rw [e1, e2]
  · -- s has a non-whitespace character: dropWhile stops inside s
    have key : ∀ (s : List Char), (¬ ∀ c ∈ s, isWhitespace c = true) →
        (s ++ ws').dropWhile isWhitespace = s.dropWhile isWhitespace ++ ws' := by
      intro s
      induction s with
      | nil => intro h; exact absurd (fun c hc => by cases hc) h
      | cons a as ih =>
        intro hne
        by_cases ha : isWhitespace a = true
        · simp only [List.cons_append, List.dropWhile_cons, ha, if_true]
          apply ih
          intro hall; apply hne
          intro c hc
          rcases List.mem_cons.mp hc with rfl | hc
          · exact ha
          · exact hall c hc
        · simp only [List.cons_append, List.dropWhile_cons, ha]
          simp
    rw [key s hs, List.reverse_append, dropWhile_append_of_all _ _ _ (by
      intro c hc; exact h' c (List.mem_reverse.mp hc))]

/-- Hence a colour string may be surrounded by any whitespace. -/
theorem parse_surrounding_whitespace (ws ws' s : List Char) (h : ∀ c ∈ ws, isWhitespace c = true)
    (h' : ∀ c ∈ ws', isWhitespace c = true) : parseColor (ws ++ s ++ ws') = parseColor s := by
  unfold parseColor parseColorWith
  rw [trim_whitespace ws ws' s h h']

/-! ### hexadecimal notation -/

theorem span_all (p : Char → Bool) (s : List Char) (h : ∀ c ∈ s, p c = true) : span p s = (s, []) := by
  unfold span
  rw [List.takeWhile_eq_self_iff.mpr h, List.dropWhile_eq_nil_iff.mpr h]

theorem hexBody_none (v : List Nat) (hl : v.length ≠ 3 ∧ v.length ≠ 4 ∧ v.length ≠ 6 ∧ v.length ≠ 8) :
    hexBody v = none := by
  unfold hexBody
  split <;> simp_all

/-- A string of hex digits whose length is not 3, 4, 6 or 8 is rejected by the hex arm (with or
without `#`). -/
theorem hex_wrong_length (ds : List Char) (hd : ∀ c ∈ ds, isHexDigit c = true)
    (hl : ds.length ≠ 3 ∧ ds.length ≠ 4 ∧ ds.length ≠ 6 ∧ ds.length ≠ 8) :
    parseHex ds = .err ∧ parseHex ('#' :: ds) = .err := by
  have hstrip : stripHash ds = ds := by
    cases ds with
    | nil => rfl
    | cons d ds' =>
      have hne : d ≠ '#' := by
        intro heq; have := hd d List.mem_cons_self; rw [heq] at this; revert this; decide
      unfold stripHash
      split
      · next heq => simp at heq; exact absurd heq.1 hne
      · rfl
  have core : (match many1 isHexDigit ds with
      | .ok r ds' => (match hexBody (ds'.map hexVal) with | some c => PR.ok r c | none => .err)
      | _ => .err) = PR.err := by
    unfold many1
    rw [span_all _ _ hd]
    simp only []
    by_cases he : ds.isEmpty = true
    · simp [he]
    · simp only [he]
      have : hexBody (ds.map hexVal) = none := hexBody_none _ (by simpa using hl)
      simp [this]
  constructor
  · unfold parseHex; rw [hstrip]; exact core
  · unfold parseHex; exact core

/-- Six hex digits (with or without `#`) denote the colour with those channels, opaque. -/
theorem hex6_meaning (a b c d e f : Char)
    (h : ∀ x ∈ [a, b, c, d, e, f], isHexDigit x = true) :
    parseHex ['#', a, b, c, d, e, f] =
      .ok [] (fromRgba8 (UInt8.ofNat (hexVal a * 16 + hexVal b)) (UInt8.ofNat (hexVal c * 16 + hexVal d))
        (UInt8.ofNat (hexVal e * 16 + hexVal f)) 1.0) := by
  unfold parseHex stripHash many1
  simp only []
  rw [span_all _ _ h]
  simp [hexBody]

/-- Three hex digits are doubled: `#abc = #aabbcc` (`17·d = 16·d + d`). -/
theorem hex3_meaning (a b c : Char) (h : ∀ x ∈ [a, b, c], isHexDigit x = true) :
    parseHex ['#', a, b, c] =
      .ok [] (fromRgba8 (UInt8.ofNat (hexVal a * 17)) (UInt8.ofNat (hexVal b * 17)) (UInt8.ofNat (hexVal c * 17)) 1.0) := by
  unfold parseHex stripHash many1
  simp only []
  rw [span_all _ _ h]
  simp [hexBody]

/-- Eight hex digits: the last two are the alpha `AA / 255`. -/
theorem hex8_meaning (a b c d e f g h' : Char)
    (h : ∀ x ∈ [a, b, c, d, e, f, g, h'], isHexDigit x = true) :
    parseHex ['#', a, b, c, d, e, f, g, h'] =
      .ok [] (fromRgba8 (UInt8.ofNat (hexVal a * 16 + hexVal b)) (UInt8.ofNat (hexVal c * 16 + hexVal d))
        (UInt8.ofNat (hexVal e * 16 + hexVal f)) (Float.ofNat (hexVal g * 16 + hexVal h') / 255.0)) := by
  unfold parseHex stripHash many1
  simp only []
  rw [span_all _ _ h]
  simp [hexBody]

/-- Four hex digits: three doubled channel digits and a doubled alpha digit, `#abcd = #aabbccdd`. -/
theorem hex4_meaning (a b c d : Char) (h : ∀ x ∈ [a, b, c, d], isHexDigit x = true) :
    parseHex ['#', a, b, c, d] =
      .ok [] (fromRgba8 (UInt8.ofNat (hexVal a * 17)) (UInt8.ofNat (hexVal b * 17)) (UInt8.ofNat (hexVal c * 17))
        (Float.ofNat (hexVal d * 17) / 255.0)) := by
  unfold parseHex stripHash many1
  simp only []
  rw [span_all _ _ h]
  simp [hexBody]

/-! ### named colours -/

/-- Every row of the CSS table is found under its own (lower-case) name — names are unique. -/
theorem named_lookup : ∀ row ∈ cssNamed, cssNamed.find? (fun e => e.1 = row.1) = some row := by
  decide +kernel

/-- All names consist of lower-case ASCII letters only. -/
theorem names_lowercase : ∀ row ∈ cssNamed, row.1.toList.all (fun c => 'a' ≤ c && c ≤ 'z') = true := by
  decide +kernel

theorem table_size : cssNamed.length = 148 := by decide +kernel

/-- Any letter-casing of a table name parses, as a whole string, to that row's colour. -/
theorem named_any_case (row : String × Nat × Nat × Nat) (hrow : row ∈ cssNamed) (w : List Char)
    (hw : ∀ c ∈ w, isAlpha c = true) (hne : w ≠ []) (hlow : String.ofList (w.map toLowerAscii) = row.1) :
    parseNamed cssNamed w =
      .ok [] (fromRgba8 (UInt8.ofNat row.2.1) (UInt8.ofNat row.2.2.1) (UInt8.ofNat row.2.2.2) 1.0) := by
  unfold parseNamed many1
  rw [span_all _ _ hw]
  have : w.isEmpty = false := by cases w <;> simp_all
  simp only [this]
  simp only [Bool.false_eq_true, if_false, hlow, named_lookup row hrow]

/-- A word of letters that is not a table name (in lower case) is rejected by the named arm. -/
theorem unknown_name_rejected (w : List Char) (hw : ∀ c ∈ w, isAlpha c = true)
    (hun : ∀ row ∈ cssNamed, row.1 ≠ String.ofList (w.map toLowerAscii)) :
    parseNamed cssNamed w = .err := by
  unfold parseNamed many1
  rw [span_all _ _ hw]
  by_cases he : w.isEmpty = true
  · simp [he]
  · simp only [he]
    have : cssNamed.find? (fun e => e.1 = String.ofList (w.map toLowerAscii)) = none := by
      apply List.find?_eq_none.mpr
      intro row hrow; simpa using hun row hrow
    simp [this]

/-! ### concrete accept / reject witnesses (tests of the model, evaluated by the kernel) -/

theorem witnesses_rejected :
    parseColor "".toList = none ∧ parseColor "#12345".toList = none ∧ parseColor "rgb(255,0)".toList = none ∧
    parseColor "rgb(255,0,153".toList = none ∧ parseColor "hsl(280,20,50)".toList = none ∧
    parseColor "gray(-0.1)".toList = none ∧ parseColor "redd".toList = none ∧
    parseColor "rgb(1,2,3) x".toList = none ∧ parseColor "lch(50%,40,130)".toList = none ∧
    parseColor "rgb(100%,0,60%)".toList = none := by
  decide +kernel

theorem witnesses_accepted :
    (parseColor "#f09".toList).isSome = true ∧ (parseColor "ff009980".toList).isSome = true ∧
    (parseColor "  rgb( 255 , 0 , 153 )  ".toList).isSome = true ∧ (parseColor "255 0 153".toList).isSome = true ∧
    (parseColor "hsl(0.25turn 20% 50% / 50%)".toList).isSome = false ∧
    (parseColor "hsla(280deg,20%,50%,50%)".toList).isSome = true ∧ (parseColor "gray(20%)".toList).isSome = true ∧
    (parseColor "CIELab(50 20 -30)".toList).isSome = true ∧ (parseColor "ReBeccaPurple".toList).isSome = true := by
  decide +kernel

end Pastel.C01
