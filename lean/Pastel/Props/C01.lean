/-
C01 — colour grammar (property theorems about `Pastel/Model/Parser.lean`).

The parser model is a total function: every definition is accepted by Lean's
termination checker, so no input makes *the model* diverge or fail; the
implementation side of "no panic" is the `catch_unwind` of the correspondence.
Theorems here hold for **all** strings of the stated classes.
-/
import Pastel.Model.Parser
import Mathlib.Data.List.TakeWhile
import Pastel.Lemmas.Turns
import Pastel.Lemmas.ParseDigits
import Pastel.Lemmas.ParseStart

namespace Pastel.C01
open Pastel Pastel.P

/-! ### whitespace around the whole string -/

theorem dropWhile_append_of_all {β : Type} (p : β → Bool) (ws s : List β) (h : ∀ c ∈ ws, p c = true) :
    (ws ++ s).dropWhile p = s.dropWhile p := by
  induction ws with
  | nil => rfl
  | cons w ws ih =>
    have hw := h w List.mem_cons_self
    simp only [List.cons_append, List.dropWhile_cons, hw, if_true]
    exact ih (fun c hc => h c (List.mem_cons_of_mem _ hc))

/-- Leading and trailing Unicode whitespace is irrelevant: `trim (ws ++ s ++ ws') = trim s`. -/
theorem trim_whitespace (ws ws' s : List Char) (h : ∀ c ∈ ws, isWhitespace c = true)
    (h' : ∀ c ∈ ws', isWhitespace c = true) : trim (ws ++ s ++ ws') = trim s := by
  unfold trim trimStart
  rw [List.append_assoc, dropWhile_append_of_all _ _ _ h]
  -- now the trailing part: (dropWhile (s ++ ws')).reverse
  by_cases hs : ∀ c ∈ s, isWhitespace c = true
  · -- everything is whitespace
    have e1 : (s ++ ws').dropWhile isWhitespace = [] := by
      apply List.dropWhile_eq_nil_iff.mpr
      intro c hc
      rcases List.mem_append.mp hc with h1 | h1
      · exact hs c h1
      · exact h' c h1
    have e2 : s.dropWhile isWhitespace = [] := List.dropWhile_eq_nil_iff.mpr hs
    rw [e1, e2]
  · -- s has a non-whitespace character: dropWhile stops inside s
    have key : ∀ (s : List Char), (¬ ∀ c ∈ s, isWhitespace c = true) →
        (s ++ ws').dropWhile isWhitespace = s.dropWhile isWhitespace ++ ws' := by
      intro s
      induction s with
      | nil => intro h; exact absurd (fun c hc => by cases hc) h
      | cons a as ih =>
        intro hne
        by_cases ha : isWhitespace a = true
        · simp only [List.cons_append, List.dropWhile_cons, ha, if_true]
          apply ih
          intro hall; apply hne
          intro c hc
          rcases List.mem_cons.mp hc with rfl | hc
          · exact ha
          · exact hall c hc
        · simp only [List.cons_append, List.dropWhile_cons, ha]
          simp
    rw [key s hs, List.reverse_append, dropWhile_append_of_all _ _ _ (by
      intro c hc; exact h' c (List.mem_reverse.mp hc))]

/-- Hence a colour string may be surrounded by any whitespace. -/
theorem parse_surrounding_whitespace (ws ws' s : List Char) (h : ∀ c ∈ ws, isWhitespace c = true)
    (h' : ∀ c ∈ ws', isWhitespace c = true) : parseColor (ws ++ s ++ ws') = parseColor s := by
  unfold parseColor parseColorWith
  rw [trim_whitespace ws ws' s h h']

/-! ### hexadecimal notation -/

theorem span_all (p : Char → Bool) (s : List Char) (h : ∀ c ∈ s, p c = true) : span p s = (s, []) := by
  unfold span
  rw [List.takeWhile_eq_self_iff.mpr h, List.dropWhile_eq_nil_iff.mpr h]

theorem hexBody_none (v : List Nat) (hl : v.length ≠ 3 ∧ v.length ≠ 4 ∧ v.length ≠ 6 ∧ v.length ≠ 8) :
    hexBody v = none := by
  unfold hexBody
  split <;> simp_all

/-- A string of hex digits whose length is not 3, 4, 6 or 8 is rejected by the hex arm (with or
without `#`). -/
theorem hex_wrong_length (ds : List Char) (hd : ∀ c ∈ ds, isHexDigit c = true)
    (hl : ds.length ≠ 3 ∧ ds.length ≠ 4 ∧ ds.length ≠ 6 ∧ ds.length ≠ 8) :
    parseHex ds = .err ∧ parseHex ('#' :: ds) = .err := by
  have hstrip : stripHash ds = ds := by
    cases ds with
    | nil => rfl
    | cons d ds' =>
      have hne : d ≠ '#' := by
        intro heq; have := hd d List.mem_cons_self; rw [heq] at this; revert this; decide
      unfold stripHash
      split
      · next heq => simp at heq; exact absurd heq.1 hne
      · rfl
  have core : (match many1 isHexDigit ds with
      | .ok r ds' => (match hexBody (ds'.map hexVal) with | some c => PR.ok r c | none => .err)
      | _ => .err) = PR.err := by
    unfold many1
    rw [span_all _ _ hd]
    simp only []
    by_cases he : ds.isEmpty = true
    · simp [he]
    · simp only [he]
      have : hexBody (ds.map hexVal) = none := hexBody_none _ (by simpa using hl)
      simp [this]
  constructor
  · unfold parseHex; rw [hstrip]; exact core
  · unfold parseHex; exact core

/-- Six hex digits (with or without `#`) denote the colour with those channels, opaque. -/
theorem hex6_meaning (a b c d e f : Char)
    (h : ∀ x ∈ [a, b, c, d, e, f], isHexDigit x = true) :
    parseHex ['#', a, b, c, d, e, f] =
      .ok [] (fromRgba8 (UInt8.ofNat (hexVal a * 16 + hexVal b)) (UInt8.ofNat (hexVal c * 16 + hexVal d))
        (UInt8.ofNat (hexVal e * 16 + hexVal f)) 1.0) := by
  unfold parseHex stripHash many1
  simp only []
  rw [span_all _ _ h]
  simp [hexBody]

/-- Three hex digits are doubled: `#abc = #aabbcc` (`17·d = 16·d + d`). -/
theorem hex3_meaning (a b c : Char) (h : ∀ x ∈ [a, b, c], isHexDigit x = true) :
    parseHex ['#', a, b, c] =
      .ok [] (fromRgba8 (UInt8.ofNat (hexVal a * 17)) (UInt8.ofNat (hexVal b * 17)) (UInt8.ofNat (hexVal c * 17)) 1.0) := by
  unfold parseHex stripHash many1
  simp only []
  rw [span_all _ _ h]
  simp [hexBody]

/-- Eight hex digits: the last two are the alpha `AA / 255`. -/
theorem hex8_meaning (a b c d e f g h' : Char)
    (h : ∀ x ∈ [a, b, c, d, e, f, g, h'], isHexDigit x = true) :
    parseHex ['#', a, b, c, d, e, f, g, h'] =
      .ok [] (fromRgba8 (UInt8.ofNat (hexVal a * 16 + hexVal b)) (UInt8.ofNat (hexVal c * 16 + hexVal d))
        (UInt8.ofNat (hexVal e * 16 + hexVal f)) (Float.ofNat (hexVal g * 16 + hexVal h') / 255.0)) := by
  unfold parseHex stripHash many1
  simp only []
  rw [span_all _ _ h]
  simp [hexBody]

/-- Four hex digits: three doubled channel digits and a doubled alpha digit, `#abcd = #aabbccdd`. -/
theorem hex4_meaning (a b c d : Char) (h : ∀ x ∈ [a, b, c, d], isHexDigit x = true) :
    parseHex ['#', a, b, c, d] =
      .ok [] (fromRgba8 (UInt8.ofNat (hexVal a * 17)) (UInt8.ofNat (hexVal b * 17)) (UInt8.ofNat (hexVal c * 17))
        (Float.ofNat (hexVal d * 17) / 255.0)) := by
  unfold parseHex stripHash many1
  simp only []
  rw [span_all _ _ h]
  simp [hexBody]

/-! ### named colours -/

/-- Every row of the CSS table is found under its own (lower-case) name — names are unique. -/
theorem named_lookup : ∀ row ∈ cssNamed, cssNamed.find? (fun e => e.1 = row.1) = some row := by
  decide +kernel

/-- All names consist of lower-case ASCII letters only. -/
theorem names_lowercase : ∀ row ∈ cssNamed, row.1.toList.all (fun c => 'a' ≤ c && c ≤ 'z') = true := by
  decide +kernel

theorem table_size : cssNamed.length = 148 := by decide +kernel

/-- Any letter-casing of a table name parses, as a whole string, to that row's colour. -/
theorem named_any_case (row : String × Nat × Nat × Nat) (hrow : row ∈ cssNamed) (w : List Char)
    (hw : ∀ c ∈ w, isAlpha c = true) (hne : w ≠ []) (hlow : String.ofList (w.map toLowerAscii) = row.1) :
    parseNamed cssNamed w =
      .ok [] (fromRgba8 (UInt8.ofNat row.2.1) (UInt8.ofNat row.2.2.1) (UInt8.ofNat row.2.2.2) 1.0) := by
  unfold parseNamed many1
  rw [span_all _ _ hw]
  have : w.isEmpty = false := by cases w <;> simp_all
  simp only [this]
  simp only [Bool.false_eq_true, if_false, hlow, named_lookup row hrow]

/-- A word of letters that is not a table name (in lower case) is rejected by the named arm. -/
theorem unknown_name_rejected (w : List Char) (hw : ∀ c ∈ w, isAlpha c = true)
    (hun : ∀ row ∈ cssNamed, row.1 ≠ String.ofList (w.map toLowerAscii)) :
    parseNamed cssNamed w = .err := by
  unfold parseNamed many1
  rw [span_all _ _ hw]
  by_cases he : w.isEmpty = true
  · simp [he]
  · simp only [he]
    have : cssNamed.find? (fun e => e.1 = String.ofList (w.map toLowerAscii)) = none := by
      apply List.find?_eq_none.mpr
      intro row hrow; simpa using hun row hrow
    simp [this]

/-! ### concrete accept / reject witnesses (tests of the model, evaluated by the kernel) -/

theorem witnesses_rejected :
    parseColor "".toList = none ∧ parseColor "#12345".toList = none ∧ parseColor "rgb(255,0)".toList = none ∧
    parseColor "rgb(255,0,153".toList = none ∧ parseColor "hsl(280,20,50)".toList = none ∧
    parseColor "gray(-0.1)".toList = none ∧ parseColor "redd".toList = none ∧
    parseColor "rgb(1,2,3) x".toList = none ∧ parseColor "lch(50%,40,130)".toList = none ∧
    parseColor "rgb(100%,0,60%)".toList = none := by
  decide +kernel

theorem witnesses_accepted :
    (parseColor "#f09".toList).isSome = true ∧ (parseColor "ff009980".toList).isSome = true ∧
    (parseColor "  rgb( 255 , 0 , 153 )  ".toList).isSome = true ∧ (parseColor "255 0 153".toList).isSome = true ∧
    (parseColor "hsl(0.25turn 20% 50% / 50%)".toList).isSome = false ∧
    (parseColor "hsla(280deg,20%,50%,50%)".toList).isSome = true ∧ (parseColor "gray(20%)".toList).isSome = true ∧
    (parseColor "CIELab(50 20 -30)".toList).isSome = true ∧ (parseColor "ReBeccaPurple".toList).isSome = true := by
  decide +kernel


/-! ### The parser cannot slice inside a character (the one place the model has a "panic")

`tag_no_case` of nom 7 compares characters but splits off the tag's *byte* length.  The model
returns `fail` where that split would not fall on a character boundary (a Rust panic).  For every
tag the parser uses this never happens, whatever the input. -/

section nopanic
open Pastel.P

/-- Dropping `n` bytes succeeds when the first `n` characters are single-byte and there are at
least `n` bytes. -/
theorem dropBytes_ascii : ∀ (n : Nat) (s : List Char), (∀ c ∈ s.take n, c.utf8Size = 1) →
    n ≤ (s.map Char.utf8Size).sum → dropBytes n s ≠ none := by
  intro n
  induction n using Nat.strong_induction_on with
  | _ n ih =>
    intro s hs hsum
    cases n with
    | zero => simp [dropBytes]
    | succ n =>
      cases s with
      | nil => simp at hsum
      | cons c rest =>
        have hc : c.utf8Size = 1 := hs c (by simp)
        unfold dropBytes
        rw [if_pos (by omega)]
        rw [hc]
        have : n + 1 - 1 = n := by omega
        rw [this]
        apply ih n (by omega)
        · intro x hx
          exact hs x (by simp [List.take_succ_cons]; exact Or.inr hx)
        · simp only [List.map_cons, List.sum_cons, hc] at hsum
          omega

theorem utf8Size_ascii (a : Char) (ha : a.toNat < 128) : a.utf8Size = 1 := by
  unfold Char.utf8Size
  have h2 : a.val ≤ UInt32.ofNatLT 127 (by decide) := by
    rw [UInt32.le_iff_toNat_le]
    show a.val.toNat ≤ 127
    have : a.val.toNat < 128 := ha
    omega
  simp only []
  rw [if_pos h2]

/-- If the ASCII-lower-cased character equals an ASCII character, the character is ASCII. -/
theorem ascii_of_lower_eq (a b : Char) (hb : b.toNat < 128)
    (h : (if 'A' ≤ a ∧ a ≤ 'Z' then Char.ofNat (a.toNat + 32) else a) = b) : a.toNat < 128 := by
  by_cases hA : 'A' ≤ a ∧ a ≤ 'Z'
  · have : a.toNat ≤ 'Z'.toNat := hA.2
    have hz : 'Z'.toNat = 90 := by decide
    omega
  · rw [if_neg hA] at h
    rw [h]; exact hb

/-- A character that matches a non-`k` ASCII tag character case-insensitively is ASCII. -/
theorem lowerMatches_ascii (b a : Char) (hb : b.toNat < 128) (hk : b ≠ 'k') (h : lowerMatches b a = true) :
    a.utf8Size = 1 := by
  unfold lowerMatches at h
  simp only [Bool.or_eq_true, Bool.and_eq_true, decide_eq_true_eq, hk, false_and, or_false] at h
  exact utf8Size_ascii a (ascii_of_lower_eq a b hb h)

/-- A character that matches `k` is ASCII or U+212A KELVIN SIGN (three bytes). -/
theorem lowerMatches_k (a : Char) (h : lowerMatches 'k' a = true) : a.utf8Size = 1 ∨ a.utf8Size = 3 := by
  unfold lowerMatches at h
  simp only [Bool.or_eq_true, Bool.and_eq_true, decide_eq_true_eq, true_and] at h
  rcases h with h | h
  · exact Or.inl (utf8Size_ascii a (ascii_of_lower_eq a 'k' (by decide) h))
  · right
    have : a = Char.ofNat 0x212A := by
      apply Char.ext
      apply UInt32.toNat_inj.mp
      show a.val.toNat = _
      have : a.val.toNat = 0x212A := h
      rw [this]; decide
    rw [this]; decide

/-- The characters of the input that were matched against a `k`-free ASCII tag are single-byte. -/
theorem matched_prefix_ascii (t s : List Char) (ht : ∀ b ∈ t, b.toNat < 128 ∧ b ≠ 'k')
    (hm : ∀ p ∈ s.zip t, lowerMatches p.2 p.1 = true) : ∀ c ∈ s.take t.length, c.utf8Size = 1 := by
  intro c hc
  have hz : (s.zip t).map Prod.fst = s.take (min s.length t.length) := by
    rw [List.zip_eq_zip_take_min, List.map_fst_zip (by simp)]
  have hc' : c ∈ s.take (min s.length t.length) := by
    rcases Nat.le_total s.length t.length with h | h
    · rw [Nat.min_eq_left h, List.take_of_length_le (Nat.le_refl _)]
      exact List.mem_of_mem_take hc
    · rw [Nat.min_eq_right h]; exact hc
  rw [← hz] at hc'
  obtain ⟨⟨a, b⟩, hab, rfl⟩ := List.mem_map.mp hc'
  have hb := ht b (List.of_mem_zip hab).2
  exact lowerMatches_ascii b a hb.1 hb.2 (hm (a, b) hab)

/-- **The case-insensitive tag matcher never slices inside a character** for a tag made of ASCII
characters other than `k`: whatever the input, the outcome is `ok` or `err`, never the `fail`
that stands for the implementation's panic. -/
theorem tagNoCase_no_panic (t s : List Char) (ht : ∀ b ∈ t, b.toNat < 128 ∧ b ≠ 'k') :
    tagNoCase t s ≠ .fail := by
  unfold tagNoCase
  simp only []
  split
  · next hcond =>
    simp only [Bool.and_eq_true, decide_eq_true_eq, List.all_eq_true] at hcond
    have hd : dropBytes t.length s ≠ none :=
      dropBytes_ascii _ _ (matched_prefix_ascii t s ht (fun p hp => hcond.1 p hp)) hcond.2
    cases hdb : dropBytes t.length s with
    | none => exact absurd hdb hd
    | some r => simp
  · simp

/-- The one tag with a `k`, `oklab(`: U+212A KELVIN SIGN (three bytes) is accepted for the `k`, and
the six bytes split off still end on a character boundary — no panic for any input. -/
theorem tagNoCase_oklab_no_panic (s : List Char) : tagNoCase "oklab(".toList s ≠ .fail := by
  unfold tagNoCase
  simp only []
  split
  · next hcond =>
    simp only [Bool.and_eq_true, decide_eq_true_eq, List.all_eq_true] at hcond
    obtain ⟨hm, hsum⟩ := hcond
    have hlen : "oklab(".toList.length = 6 := by decide
    have hd : dropBytes 6 s ≠ none := by
      match s, hm, hsum with
      | [], _, hsum => simp at hsum
      | [c0], hm, hsum =>
        have h0 : c0.utf8Size = 1 := lowerMatches_ascii 'o' c0 (by decide) (by decide) (hm (c0, 'o') (by simp [List.zip]))
        simp only [List.map_cons, List.map_nil, List.sum_cons, List.sum_nil, h0, hlen] at hsum
        omega
      | c0 :: c1 :: rest, hm, hsum =>
        have h0 : c0.utf8Size = 1 := lowerMatches_ascii 'o' c0 (by decide) (by decide) (hm (c0, 'o') (by simp [List.zip]))
        have hrest : ∀ p ∈ rest.zip "lab(".toList, lowerMatches p.2 p.1 = true := by
          intro p hp
          apply hm p
          show p ∈ ((c0 :: c1 :: rest).zip ('o' :: 'k' :: "lab(".toList))
          simp only [List.zip_cons_cons, List.mem_cons]
          exact Or.inr (Or.inr hp)
        have hasc : ∀ c ∈ rest.take 4, c.utf8Size = 1 := matched_prefix_ascii "lab(".toList rest (by decide) hrest
        have hk := hm (c1, 'k') (by simp [List.zip])
        simp only [List.map_cons, List.sum_cons, h0, hlen] at hsum
        unfold dropBytes
        rw [if_pos (by omega), h0]
        show dropBytes 5 (c1 :: rest) ≠ none
        rcases lowerMatches_k c1 hk with h1 | h3
        · unfold dropBytes
          rw [if_pos (by omega), h1]
          show dropBytes 4 rest ≠ none
          exact dropBytes_ascii 4 rest hasc (by omega)
        · unfold dropBytes
          rw [if_pos (by rw [h3]; decide), h3]
          show dropBytes 2 rest ≠ none
          apply dropBytes_ascii 2 rest
          · intro c hc
            have : rest.take 2 = (rest.take 4).take 2 := by simp [List.take_take]
            rw [this] at hc
            exact hasc c (List.mem_of_mem_take hc)
          · omega
    rw [hlen]
    cases hdb : dropBytes 6 s with
    | none => exact absurd hdb hd
    | some r => simp
  · simp


/-- Every tag the parser passes to `tag_no_case`: no input makes the matcher panic. -/
theorem all_tags_no_panic (s : List Char) :
    tagNoCase "nan".toList s ≠ .fail ∧ tagNoCase "inf".toList s ≠ .fail ∧ tagNoCase "infinity".toList s ≠ .fail ∧
    tagNoCase "cie".toList s ≠ .fail ∧ tagNoCase "lab(".toList s ≠ .fail ∧ tagNoCase "lch(".toList s ≠ .fail ∧
    tagNoCase "oklab(".toList s ≠ .fail :=
  ⟨tagNoCase_no_panic _ s (by decide), tagNoCase_no_panic _ s (by decide), tagNoCase_no_panic _ s (by decide),
   tagNoCase_no_panic _ s (by decide), tagNoCase_no_panic _ s (by decide), tagNoCase_no_panic _ s (by decide),
   tagNoCase_oklab_no_panic s⟩

end nopanic

/-! ### `rgb()` with decimal integers -/

/-- **`rgb(A,B,C)` / `rgb(A, B, C)` with decimal integers is accepted and denotes the colour with
those channel values** — for all runs of digits `A`, `B`, `C` (any length, so also values above
255, which `from_rgba_float` clamps). -/
theorem rgb_digits_meaning (a : Char) (as : List Char) (b : Char) (bs : List Char) (c : Char) (cs : List Char)
    (sp : List Char) (hsp : sp = [] ∨ sp = [' '])
    (ha : (a :: as).all isDigit = true) (hb : (b :: bs).all isDigit = true) (hc : (c :: cs).all isDigit = true) :
    parseColor ('r' :: 'g' :: 'b' :: '(' :: ((a :: as) ++ ',' :: (sp ++ ((b :: bs) ++ ',' :: (sp ++ ((c :: cs) ++ [')'])))))) =
      some (fromRgbaFloat (digitsVal (a :: as) / 255.0) (digitsVal (b :: bs) / 255.0) (digitsVal (c :: cs) / 255.0) 1.0) := by
  have h3 := three_digits a as b bs c cs sp hsp ha hb hc
  generalize hX : (a :: as) ++ ',' :: (sp ++ ((b :: bs) ++ ',' :: (sp ++ ((c :: cs) ++ [')'])))) = X at h3 ⊢
  have hXl : ∃ mid, X = mid ++ [')'] := by
    refine ⟨(a :: as) ++ ',' :: (sp ++ ((b :: bs) ++ ',' :: (sp ++ (c :: cs)))), ?_⟩
    rw [← hX]; simp
  obtain ⟨mid, hmid⟩ := hXl
  have htrim : trim ('r' :: 'g' :: 'b' :: '(' :: X) = 'r' :: 'g' :: 'b' :: '(' :: X := by
    rw [hmid]
    exact trim_id 'r' ('g' :: 'b' :: '(' :: mid) ')' (by decide) (by decide)
  have hpre : rgbPrefix ('r' :: 'g' :: 'b' :: '(' :: X) = (true, X) := by
    unfold rgbPrefix tag
    simp [List.isPrefixOf]
  have hnum : parseNumericRgb ('r' :: 'g' :: 'b' :: '(' :: X) =
      .ok [] (fromRgbaFloat (digitsVal (a :: as) / 255.0) (digitsVal (b :: bs) / 255.0) (digitsVal (c :: cs) / 255.0) 1.0) := by
    unfold parseNumericRgb
    rw [hpre]
    simp only [h3, PR.bind]
  unfold parseColor parseColorWith
  rw [htrim]
  unfold altList allConsuming
  rw [parseHex_r]
  simp only []
  unfold altList
  simp only [hnum]

/-! ### the other functional notations with decimal integers -/

/-- **`hsl(H,S%,L%)` / `hsl(H, S%, L%)` with decimal integers** is accepted and denotes
`from_hsla(H, S/100, L/100, 1)` — for all runs of digits (any length, so also values outside the
ranges, which the constructor clamps / reduces). -/
theorem hsl_digits_meaning (a : Char) (as : List Char) (b : Char) (bs : List Char) (c : Char) (cs : List Char)
    (sp : List Char) (hsp : sp = [] ∨ sp = [' '])
    (ha : (a :: as).all isDigit = true) (hb : (b :: bs).all isDigit = true) (hc : (c :: cs).all isDigit = true) :
    parseColor ('h' :: 's' :: 'l' :: '(' ::
        ((a :: as) ++ ',' :: (sp ++ ((b :: bs) ++ '%' :: ',' :: (sp ++ ((c :: cs) ++ ['%', ')'])))))) =
      some (fromHsla (digitsVal (a :: as)) (digitsVal (b :: bs) / 100.0) (digitsVal (c :: cs) / 100.0) 1.0) := by
  have h3 := three_angle_pct a as b bs c cs sp hsp ha hb hc
  generalize hX : (a :: as) ++ ',' :: (sp ++ ((b :: bs) ++ '%' :: ',' :: (sp ++ ((c :: cs) ++ ['%', ')'])))) = X at h3 ⊢
  have hXl : ∃ mid, X = mid ++ [')'] := by
    refine ⟨(a :: as) ++ ',' :: (sp ++ ((b :: bs) ++ '%' :: ',' :: (sp ++ ((c :: cs) ++ ['%'])))), ?_⟩
    rw [← hX]; simp
  obtain ⟨mid, hmid⟩ := hXl
  have htrim : trim ('h' :: 's' :: 'l' :: '(' :: X) = 'h' :: 's' :: 'l' :: '(' :: X := by
    rw [hmid]
    exact trim_id 'h' ('s' :: 'l' :: '(' :: mid) ')' (by decide) (by decide)
  have hhsl : parseHsl ('h' :: 's' :: 'l' :: '(' :: X) =
      .ok [] (fromHsla (digitsVal (a :: as)) (digitsVal (b :: bs) / 100.0) (digitsVal (c :: cs) / 100.0) 1.0) := by
    unfold parseHsl tag2 tag
    simp [List.isPrefixOf, h3, PR.bind]
  unfold parseColor parseColorWith
  rw [htrim]
  rw [altList_cons_err _ _ _ (allConsuming_err _ _ (parseHex_start _ _ (by decide) (by decide))),
    altList_cons_err _ _ _ (allConsuming_err _ _ (parseNumericRgb_start _ _ notNumStart_h)),
    altList_cons_err _ _ _ (allConsuming_err _ _ (parsePercentageRgb_start _ _ notNumStart_h)),
    altList_cons_ok _ _ _ _ _ (allConsuming_ok _ _ _ hhsl)]

/-- The same for `hsv(H,S%,V%)`: `from_hsva(H, S/100, V/100, 1)`. -/
theorem hsv_digits_meaning (a : Char) (as : List Char) (b : Char) (bs : List Char) (c : Char) (cs : List Char)
    (sp : List Char) (hsp : sp = [] ∨ sp = [' '])
    (ha : (a :: as).all isDigit = true) (hb : (b :: bs).all isDigit = true) (hc : (c :: cs).all isDigit = true) :
    parseColor ('h' :: 's' :: 'v' :: '(' ::
        ((a :: as) ++ ',' :: (sp ++ ((b :: bs) ++ '%' :: ',' :: (sp ++ ((c :: cs) ++ ['%', ')'])))))) =
      some (fromHsva (digitsVal (a :: as)) (digitsVal (b :: bs) / 100.0) (digitsVal (c :: cs) / 100.0) 1.0) := by
  have h3 := three_angle_pct a as b bs c cs sp hsp ha hb hc
  generalize hX : (a :: as) ++ ',' :: (sp ++ ((b :: bs) ++ '%' :: ',' :: (sp ++ ((c :: cs) ++ ['%', ')'])))) = X at h3 ⊢
  have hXl : ∃ mid, X = mid ++ [')'] := by
    refine ⟨(a :: as) ++ ',' :: (sp ++ ((b :: bs) ++ '%' :: ',' :: (sp ++ ((c :: cs) ++ ['%'])))), ?_⟩
    rw [← hX]; simp
  obtain ⟨mid, hmid⟩ := hXl
  have htrim : trim ('h' :: 's' :: 'v' :: '(' :: X) = 'h' :: 's' :: 'v' :: '(' :: X := by
    rw [hmid]
    exact trim_id 'h' ('s' :: 'v' :: '(' :: mid) ')' (by decide) (by decide)
  have hhsl : parseHsl ('h' :: 's' :: 'v' :: '(' :: X) = .err := by
    unfold parseHsl tag2 tag
    simp [List.isPrefixOf, PR.bind]
  have hhsv : parseHsv ('h' :: 's' :: 'v' :: '(' :: X) =
      .ok [] (fromHsva (digitsVal (a :: as)) (digitsVal (b :: bs) / 100.0) (digitsVal (c :: cs) / 100.0) 1.0) := by
    unfold parseHsv tag2 tag
    simp [List.isPrefixOf, h3, PR.bind]
  unfold parseColor parseColorWith
  rw [htrim]
  rw [altList_cons_err _ _ _ (allConsuming_err _ _ (parseHex_start _ _ (by decide) (by decide))),
    altList_cons_err _ _ _ (allConsuming_err _ _ (parseNumericRgb_start _ _ notNumStart_h)),
    altList_cons_err _ _ _ (allConsuming_err _ _ (parsePercentageRgb_start _ _ notNumStart_h)),
    altList_cons_err _ _ _ (allConsuming_err _ _ hhsl),
    altList_cons_ok _ _ _ _ _ (allConsuming_ok _ _ _ hhsv)]

/-- **`lab(L,A,B)` / `lab(L, A, B)` with decimal integers** is accepted and denotes
`from_lab(L, A, B, 1)`. -/
theorem lab_digits_meaning (a : Char) (as : List Char) (b : Char) (bs : List Char) (c : Char) (cs : List Char)
    (sp : List Char) (hsp : sp = [] ∨ sp = [' '])
    (ha : (a :: as).all isDigit = true) (hb : (b :: bs).all isDigit = true) (hc : (c :: cs).all isDigit = true) :
    parseColor ('l' :: 'a' :: 'b' :: '(' :: ((a :: as) ++ ',' :: (sp ++ ((b :: bs) ++ ',' :: (sp ++ ((c :: cs) ++ [')'])))))) =
      some (fromLab (digitsVal (a :: as)) (digitsVal (b :: bs)) (digitsVal (c :: cs)) 1.0) := by
  have h3 := three_digits a as b bs c cs sp hsp ha hb hc
  generalize hX : (a :: as) ++ ',' :: (sp ++ ((b :: bs) ++ ',' :: (sp ++ ((c :: cs) ++ [')'])))) = X at h3 ⊢
  have hXl : ∃ mid, X = mid ++ [')'] := by
    refine ⟨(a :: as) ++ ',' :: (sp ++ ((b :: bs) ++ ',' :: (sp ++ (c :: cs)))), ?_⟩
    rw [← hX]; simp
  obtain ⟨mid, hmid⟩ := hXl
  have htrim : trim ('l' :: 'a' :: 'b' :: '(' :: X) = 'l' :: 'a' :: 'b' :: '(' :: X := by
    rw [hmid]
    exact trim_id 'l' ('a' :: 'b' :: '(' :: mid) ')' (by decide) (by decide)
  have hlab : parseLab ('l' :: 'a' :: 'b' :: '(' :: X) =
      .ok [] (fromLab (digitsVal (a :: as)) (digitsVal (b :: bs)) (digitsVal (c :: cs)) 1.0) := by
    unfold parseLab
    rw [optCie_l]
    simp only [PR.bind, tagNoCase_lab, h3]
  unfold parseColor parseColorWith
  rw [htrim]
  rw [altList_cons_err _ _ _ (allConsuming_err _ _ (parseHex_start _ _ (by decide) (by decide))),
    altList_cons_err _ _ _ (allConsuming_err _ _ (parseNumericRgb_start _ _ notNumStart_l)),
    altList_cons_err _ _ _ (allConsuming_err _ _ (parsePercentageRgb_start _ _ notNumStart_l)),
    altList_cons_err _ _ _ (allConsuming_err _ _ (parseHsl_start _ _ (by decide))),
    altList_cons_err _ _ _ (allConsuming_err _ _ (parseHsv_start _ _ (by decide))),
    altList_cons_err _ _ _ (allConsuming_err _ _ (parseGray_start _ _ (by decide))),
    altList_cons_ok _ _ _ _ _ (allConsuming_ok _ _ _ hlab)]

/-- **`lch(L,C,H)` with decimal integers** denotes `from_lch(L, C, H, 1)`. -/
theorem lch_digits_meaning (a : Char) (as : List Char) (b : Char) (bs : List Char) (c : Char) (cs : List Char)
    (sp : List Char) (hsp : sp = [] ∨ sp = [' '])
    (ha : (a :: as).all isDigit = true) (hb : (b :: bs).all isDigit = true) (hc : (c :: cs).all isDigit = true) :
    parseColor ('l' :: 'c' :: 'h' :: '(' :: ((a :: as) ++ ',' :: (sp ++ ((b :: bs) ++ ',' :: (sp ++ ((c :: cs) ++ [')'])))))) =
      some (fromLch (digitsVal (a :: as)) (digitsVal (b :: bs)) (digitsVal (c :: cs)) 1.0) := by
  have h3 := three_num_num_angle a as b bs c cs sp hsp ha hb hc
  generalize hX : (a :: as) ++ ',' :: (sp ++ ((b :: bs) ++ ',' :: (sp ++ ((c :: cs) ++ [')'])))) = X at h3 ⊢
  have hXl : ∃ mid, X = mid ++ [')'] := by
    refine ⟨(a :: as) ++ ',' :: (sp ++ ((b :: bs) ++ ',' :: (sp ++ (c :: cs)))), ?_⟩
    rw [← hX]; simp
  obtain ⟨mid, hmid⟩ := hXl
  have htrim : trim ('l' :: 'c' :: 'h' :: '(' :: X) = 'l' :: 'c' :: 'h' :: '(' :: X := by
    rw [hmid]
    exact trim_id 'l' ('c' :: 'h' :: '(' :: mid) ')' (by decide) (by decide)
  have hlch : parseLch ('l' :: 'c' :: 'h' :: '(' :: X) =
      .ok [] (fromLch (digitsVal (a :: as)) (digitsVal (b :: bs)) (digitsVal (c :: cs)) 1.0) := by
    unfold parseLch
    rw [optCie_l]
    simp only [PR.bind, tagNoCase_lch, h3]
  unfold parseColor parseColorWith
  rw [htrim]
  rw [altList_cons_err _ _ _ (allConsuming_err _ _ (parseHex_start _ _ (by decide) (by decide))),
    altList_cons_err _ _ _ (allConsuming_err _ _ (parseNumericRgb_start _ _ notNumStart_l)),
    altList_cons_err _ _ _ (allConsuming_err _ _ (parsePercentageRgb_start _ _ notNumStart_l)),
    altList_cons_err _ _ _ (allConsuming_err _ _ (parseHsl_start _ _ (by decide))),
    altList_cons_err _ _ _ (allConsuming_err _ _ (parseHsv_start _ _ (by decide))),
    altList_cons_err _ _ _ (allConsuming_err _ _ (parseGray_start _ _ (by decide))),
    altList_cons_err _ _ _ (allConsuming_err _ _ (parseLab_lch _)),
    altList_cons_err _ _ _ (allConsuming_err _ _ (parseOklab_l _)),
    altList_cons_ok _ _ _ _ _ (allConsuming_ok _ _ _ hlch)]

/-- **`oklab(L,A,B)` with decimal integers** denotes `from_oklab(L, A, B, 1)`. -/
theorem oklab_digits_meaning (a : Char) (as : List Char) (b : Char) (bs : List Char) (c : Char) (cs : List Char)
    (sp : List Char) (hsp : sp = [] ∨ sp = [' '])
    (ha : (a :: as).all isDigit = true) (hb : (b :: bs).all isDigit = true) (hc : (c :: cs).all isDigit = true) :
    parseColor ('o' :: 'k' :: 'l' :: 'a' :: 'b' :: '(' :: ((a :: as) ++ ',' :: (sp ++ ((b :: bs) ++ ',' :: (sp ++ ((c :: cs) ++ [')'])))))) =
      some (fromOklab (digitsVal (a :: as)) (digitsVal (b :: bs)) (digitsVal (c :: cs)) 1.0) := by
  have h3 := three_digits a as b bs c cs sp hsp ha hb hc
  generalize hX : (a :: as) ++ ',' :: (sp ++ ((b :: bs) ++ ',' :: (sp ++ ((c :: cs) ++ [')'])))) = X at h3 ⊢
  have hXl : ∃ mid, X = mid ++ [')'] := by
    refine ⟨(a :: as) ++ ',' :: (sp ++ ((b :: bs) ++ ',' :: (sp ++ (c :: cs)))), ?_⟩
    rw [← hX]; simp
  obtain ⟨mid, hmid⟩ := hXl
  have htrim : trim ('o' :: 'k' :: 'l' :: 'a' :: 'b' :: '(' :: X) = 'o' :: 'k' :: 'l' :: 'a' :: 'b' :: '(' :: X := by
    rw [hmid]
    exact trim_id 'o' ('k' :: 'l' :: 'a' :: 'b' :: '(' :: mid) ')' (by decide) (by decide)
  have hok : parseOklab ('o' :: 'k' :: 'l' :: 'a' :: 'b' :: '(' :: X) =
      .ok [] (fromOklab (digitsVal (a :: as)) (digitsVal (b :: bs)) (digitsVal (c :: cs)) 1.0) := by
    unfold parseOklab
    simp only [PR.bind, tagNoCase_oklab, h3]
  unfold parseColor parseColorWith
  rw [htrim]
  rw [altList_cons_err _ _ _ (allConsuming_err _ _ (parseHex_start _ _ (by decide) (by decide))),
    altList_cons_err _ _ _ (allConsuming_err _ _ (parseNumericRgb_start _ _ notNumStart_o)),
    altList_cons_err _ _ _ (allConsuming_err _ _ (parsePercentageRgb_start _ _ notNumStart_o)),
    altList_cons_err _ _ _ (allConsuming_err _ _ (parseHsl_start _ _ (by decide))),
    altList_cons_err _ _ _ (allConsuming_err _ _ (parseHsv_start _ _ (by decide))),
    altList_cons_err _ _ _ (allConsuming_err _ _ (parseGray_start _ _ (by decide))),
    altList_cons_err _ _ _ (allConsuming_err _ _ (parseLab_o _)),
    altList_cons_ok _ _ _ _ _ (allConsuming_ok _ _ _ hok)]

/-- Non-vacuity: the statements instantiate to ordinary strings. -/
example : parseColor "hsl(120, 50%, 25%)".toList = some (fromHsla (digitsVal "120".toList) (digitsVal "50".toList / 100.0) (digitsVal "25".toList / 100.0) 1.0) :=
  hsl_digits_meaning '1' ['2', '0'] '5' ['0'] '2' ['5'] [' '] (Or.inr rfl) (by decide) (by decide) (by decide)
example : parseColor "lch(70,35,300)".toList = some (fromLch (digitsVal "70".toList) (digitsVal "35".toList) (digitsVal "300".toList) 1.0) :=
  lch_digits_meaning '7' ['0'] '3' ['5'] '3' ['0', '0'] [] (Or.inl rfl) (by decide) (by decide) (by decide)

/-! ### angles reduced modulo a turn -/

/-- **`lch()` / `hsl()` angles are reduced modulo a turn** (exact arithmetic, every integer number
of turns `k`, every angle): the colour `from_lch` builds from `h + 360·k` is the colour it builds
from `h`, and the colour `from_hsla` builds from `h + 360·k` has the float channels of the one
built from `h`. -/
theorem angles_mod_turn (x y h al : ℝ) (k : ℤ) :
    fromLch x y (h + 360 * k) al = fromLch x y h al ∧
    toRgbaFloat (fromHsla (h + 360 * k) x y al) = toRgbaFloat (fromHsla h x y al) := by
  refine ⟨fromLch_whole_turns x y h al k, ?_⟩
  refine toRgbaFloat_whole_turns (fromHsla h x y al) (fromHsla (h + 360 * k) x y al) k ?_ rfl rfl rfl
  show hueFrom (h + 360 * k) = hueFrom h + 360 * k
  unfold hueFrom
  simp only [real_isFinite, if_true]

/-- **`turn` and `grad` angles, as the parser converts them since 949bf79** (exact arithmetic): the
degrees it hands to the constructors are the angle's degrees up to whole turns — `x turn` becomes
`360·x + 360·k` and `x grad` becomes `0.9·x + 360·k` for an integer `k` — so, with
`angles_mod_turn`, every `turn` / `grad` spelling of an angle denotes the colour of that angle. -/
theorem unit_angles_reduced (x : ℝ) :
    (∃ k : ℤ, Sc.fmod x (1.0 : ℝ) * 360.0 = 360 * x + 360 * k) ∧
    (∃ k : ℤ, Sc.fmod x (400.0 : ℝ) * 360.0 / 400.0 = 9 / 10 * x + 360 * k) := by
  constructor
  · refine ⟨-rtrunc (x / 1), ?_⟩
    show (x - (1.0 : ℝ) * ((rtrunc (x / (1.0 : ℝ)) : ℤ) : ℝ)) * 360.0 = _
    norm_num
    ring
  · refine ⟨-rtrunc (x / 400), ?_⟩
    show (x - (400.0 : ℝ) * ((rtrunc (x / (400.0 : ℝ)) : ℤ) : ℝ)) * 360.0 / 400.0 = _
    norm_num
    ring

end Pastel.C01
