/-
C09 — luminance, contrast, text colour (property theorems, exact arithmetic).

`contrastOfLum` is the WCAG contrast as a function of the two luminances; the
model's `contrastRatio` is literally that function of `luminance a`,
`luminance b` (`contrastRatio_eq`).  The 4.5:1 theorem is proved for **every**
background luminance in `[0,1]` at once.  Not proved: that the float
evaluation of `luminance` stays on the right side of the 0.179 threshold and
the "within one 8-bit gray step" clause of `to_gray` (both enumerated).
-/
import Pastel.RealInst
import Pastel.Model.Color
import Pastel.Lemmas.RealColor
import Pastel.Props.C05
import Pastel.Lemmas.Hexcone
import Pastel.Lemmas.LumMono

namespace Pastel.C09
open Pastel

/-- WCAG contrast ratio of two luminances, as `Color::contrast_ratio` computes it. -/
noncomputable def contrastOfLum (la lb : ℝ) : ℝ :=
  if lb < la then (la + 0.05) / (lb + 0.05) else (lb + 0.05) / (la + 0.05)

/-- The model's `contrastRatio` is `contrastOfLum` of the two luminances. -/
theorem contrastRatio_eq (a b : Color ℝ) :
    contrastRatio a b = contrastOfLum (luminance a) (luminance b) := rfl

/-- The contrast ratio is symmetric. -/
theorem contrast_symm (la lb : ℝ) : contrastOfLum la lb = contrastOfLum lb la := by
  unfold contrastOfLum
  rcases lt_trichotomy la lb with h | h | h
  · simp [h, not_lt.mpr (le_of_lt h)]
  · subst h; simp
  · simp [h, not_lt.mpr (le_of_lt h)]

theorem contrastRatio_symm (a b : Color ℝ) : contrastRatio a b = contrastRatio b a := by
  rw [contrastRatio_eq, contrastRatio_eq, contrast_symm]

/-- For luminances in `[0,1]` the ratio lies in `[1, 21]`. -/
theorem contrast_range (la lb : ℝ) (ha0 : 0 ≤ la) (ha1 : la ≤ 1) (hb0 : 0 ≤ lb) (hb1 : lb ≤ 1) :
    1 ≤ contrastOfLum la lb ∧ contrastOfLum la lb ≤ 21 := by
  unfold contrastOfLum
  split
  · next h =>
    have hp : (0 : ℝ) < lb + 0.05 := by norm_num; linarith
    constructor
    · rw [le_div_iff₀ hp]; linarith
    · rw [div_le_iff₀ hp]; norm_num; linarith
  · next h =>
    have h' := not_lt.mp h
    have hp : (0 : ℝ) < la + 0.05 := by norm_num; linarith
    constructor
    · rw [le_div_iff₀ hp]; linarith
    · rw [div_le_iff₀ hp]; norm_num; linarith

/-- The ratio is 1 exactly when the luminances are equal. -/
theorem contrast_eq_one_iff (la lb : ℝ) (ha0 : 0 ≤ la) (hb0 : 0 ≤ lb) :
    contrastOfLum la lb = 1 ↔ la = lb := by
  unfold contrastOfLum
  split
  · next h =>
    have hp : (0 : ℝ) < lb + 0.05 := by norm_num; linarith
    rw [div_eq_one_iff_eq (ne_of_gt hp)]
    constructor <;> intro h' <;> linarith
  · next h =>
    have hp : (0 : ℝ) < la + 0.05 := by norm_num; linarith
    rw [div_eq_one_iff_eq (ne_of_gt hp)]
    constructor <;> intro h' <;> linarith

/-- `text_color` returns pure black or pure white (for any scalar type, floats included). -/
theorem textColor_black_or_white {α : Type} [ScT α] (c : Color α) :
    textColor c = black ∨ textColor c = white := by
  unfold textColor; split
  · exact Or.inl rfl
  · exact Or.inr rfl

/-- Black has luminance 0 and white has luminance 1 (the two candidate text colours). -/
theorem luminance_black : luminance (black : Color ℝ) = 0 := by
  have hb := black_fields
  have h := toRgbaFloat_achromatic (black : Color ℝ) (by rw [hb.1]; ring)
  simp only [luminance, h.1, h.2.1, h.2.2, hb.2.1, lumF]
  norm_num

theorem luminance_white : luminance (white : Color ℝ) = 1 := by
  have hb := white_fields
  have h := toRgbaFloat_achromatic (white : Color ℝ) (by rw [hb.1]; ring)
  simp only [luminance, h.1, h.2.1, h.2.2, hb.2.1, lumF]
  norm_num

/-- **Readability**: for every background luminance `L ∈ [0,1]`, the text colour chosen by the
0.179 threshold (black, luminance 0, above it; white, luminance 1, otherwise) has a WCAG
contrast of at least 4.58 > 4.5 against the background. -/
theorem text_contrast_ge (L : ℝ) (h0 : 0 ≤ L) (h1 : L ≤ 1) :
    4.58 ≤ contrastOfLum L (if 0.179 < L then 0 else 1) := by
  unfold contrastOfLum
  by_cases h : (0.179 : ℝ) < L
  · have hL : (0 : ℝ) < L := by linarith
    simp only [h, if_true, hL]
    norm_num
    rw [le_div_iff₀ (by norm_num)]
    linarith
  · have h' := not_lt.mp h
    have : ¬ (1 : ℝ) < L := by linarith
    simp only [h, if_false, this]
    have hp : (0 : ℝ) < L + 0.05 := by norm_num; linarith
    rw [le_div_iff₀ hp]
    norm_num
    linarith

/-- … and the other choice would be at most 0.0052 (< 0.01) better. -/
theorem text_contrast_near_best (L : ℝ) (h0 : 0 ≤ L) (h1 : L ≤ 1) :
    contrastOfLum L (if 0.179 < L then 1 else 0) - 0.0052 ≤ contrastOfLum L (if 0.179 < L then 0 else 1) := by
  unfold contrastOfLum
  by_cases h : (0.179 : ℝ) < L
  · have hL : (0 : ℝ) < L := by linarith
    have h1L : ¬ (1 : ℝ) < L := by linarith
    simp only [h, if_true, hL, h1L, if_false]
    have hp : (0 : ℝ) < L + 0.05 := by linarith
    have : (1 + 0.05) / (L + 0.05) ≤ (1 + 0.05) / (0.179 + 0.05) := by
      apply div_le_div_of_nonneg_left (by norm_num) (by norm_num) (by linarith)
    have h2 : (0.179 + 0.05) / (0 + 0.05 : ℝ) ≤ (L + 0.05) / (0 + 0.05) := by
      apply div_le_div_of_nonneg_right (by linarith) (by norm_num)
    norm_num at this h2 ⊢
    linarith
  · have h' := not_lt.mp h
    have h1L : ¬ (1 : ℝ) < L := by linarith
    simp only [h, if_false, h1L]
    have hp : (0 : ℝ) < L + 0.05 := by norm_num; linarith
    by_cases hL : (0 : ℝ) < L
    · simp only [hL, if_true]
      have : (1 + 0.05) / (0.179 + 0.05) ≤ (1 + 0.05) / (L + 0.05 : ℝ) := by
        apply div_le_div_of_nonneg_left (by norm_num) hp (by linarith)
      have h2 : (L + 0.05) / (0 + 0.05 : ℝ) ≤ (0.179 + 0.05) / (0 + 0.05) := by
        apply div_le_div_of_nonneg_right (by linarith) (by norm_num)
      norm_num at this h2 ⊢
      linarith
    · have : L = 0 := by linarith
      subst this
      simp only [lt_irrefl, if_false]
      norm_num

/-- Non-vacuity: a mid-gray background (luminance 0.2159) gets black text with contrast 5.3. -/
example : (4.58 : ℝ) ≤ contrastOfLum 0.2159 (if (0.179 : ℝ) < 0.2159 then 0 else 1) :=
  text_contrast_ge 0.2159 (by norm_num) (by norm_num)

/-! ### Strictly increasing in each RGB channel

For 8-bit colours the float channels are exactly `k/255` (C03's hexcone theorem), so the luminance
is `0.2126·f(r/255) + 0.7152·f(g/255) + 0.0722·f(b/255)` with `f` the sRGB linearisation, and `f`
is strictly increasing on the 256 levels (`LumMono.lumF_lattice_strictMono`; over all reals it is
not — see that file). -/

/-- The luminance of an 8-bit colour, in terms of its bytes (any alpha). -/
theorem luminance_rgb8 (r g b : UInt8) (a : ℝ) :
    luminance (fromRgba8 r g b a : Color ℝ) =
      0.2126 * lumF ((r.toNat : ℝ) / 255) + 0.7152 * lumF ((g.toNat : ℝ) / 255) + 0.0722 * lumF ((b.toNat : ℝ) / 255) := by
  unfold luminance
  rw [fromRgba8_toRgbaFloat]
  sc_norm
  rfl

/-- **Strictly increasing in the red channel** (all other inputs equal; alpha irrelevant). -/
theorem luminance_strict_red (r r' g b : UInt8) (a a' : ℝ) (h : r < r') :
    luminance (fromRgba8 r g b a : Color ℝ) < luminance (fromRgba8 r' g b a' : Color ℝ) := by
  rw [luminance_rgb8, luminance_rgb8]
  have := LumMono.lumF_lattice_strictMono r.toNat r'.toNat (UInt8.lt_iff_toNat_lt.mp h)
  nlinarith

theorem luminance_strict_green (r g g' b : UInt8) (a a' : ℝ) (h : g < g') :
    luminance (fromRgba8 r g b a : Color ℝ) < luminance (fromRgba8 r g' b a' : Color ℝ) := by
  rw [luminance_rgb8, luminance_rgb8]
  have := LumMono.lumF_lattice_strictMono g.toNat g'.toNat (UInt8.lt_iff_toNat_lt.mp h)
  nlinarith

theorem luminance_strict_blue (r g b b' : UInt8) (a a' : ℝ) (h : b < b') :
    luminance (fromRgba8 r g b a : Color ℝ) < luminance (fromRgba8 r g b' a' : Color ℝ) := by
  rw [luminance_rgb8, luminance_rgb8]
  have := LumMono.lumF_lattice_strictMono b.toNat b'.toNat (UInt8.lt_iff_toNat_lt.mp h)
  nlinarith

/-- Channel-wise `≤` gives `≤`, and luminance separates distinct comparable colours. -/
theorem luminance_mono (r r' g g' b b' : UInt8) (a a' : ℝ) (hr : r ≤ r') (hg : g ≤ g') (hb : b ≤ b') :
    luminance (fromRgba8 r g b a : Color ℝ) ≤ luminance (fromRgba8 r' g' b' a' : Color ℝ) := by
  have step : ∀ x y : UInt8, x ≤ y → lumF ((x.toNat : ℝ) / 255) ≤ lumF ((y.toNat : ℝ) / 255) := by
    intro x y hxy
    rcases Nat.eq_or_lt_of_le (UInt8.le_iff_toNat_le.mp hxy) with e | l
    · rw [e]
    · exact (LumMono.lumF_lattice_strictMono _ _ l).le
  rw [luminance_rgb8, luminance_rgb8]
  have := step r r' hr
  have := step g g' hg
  have := step b b' hb
  nlinarith

/-- Non-vacuity across the cut: the step from level 10 to level 11 in the blue channel. -/
example : luminance (fromRgba8 4 0 10 1 : Color ℝ) < luminance (fromRgba8 4 0 11 1 : Color ℝ) :=
  luminance_strict_blue 4 0 10 11 1 1 (by decide)

/-! ### `to_gray` returns an achromatic colour -/

/-- The stored saturation of `to_gray`'s result is exactly 0, for every colour. -/
theorem toGray_sat (c : Color ℝ) : (toGray c).sat = 0 := by
  have hv := (C05.fromLch_valid (toLch c).x (0.0 : ℝ) 0.0 c.alpha).sat_range
  obtain ⟨_, h0, h1⟩ := hv
  show (desaturate (fromLch (toLch c).x 0.0 0.0 c.alpha) 1.0).sat = 0
  unfold desaturate saturate fromHsla clamp
  sc_norm
  have h1' : (fromLch (toLch c).x (0.0 : ℝ) 0.0 c.alpha).sat ≤ 1 := by
    have := h1
    simpa using this
  have : (fromLch (toLch c).x (0.0 : ℝ) 0.0 c.alpha).sat + -(1.0 : ℝ) ≤ 0 := by norm_num; linarith
  push_cast
  rw [max_eq_right]
  exact le_trans (min_le_right _ _) this

/-- …so its three float channels are equal (R = G = B), namely its lightness. -/
theorem toGray_achromatic (c : Color ℝ) :
    (toRgbaFloat (toGray c)).x = (toGray c).light ∧ (toRgbaFloat (toGray c)).y = (toGray c).light ∧
    (toRgbaFloat (toGray c)).z = (toGray c).light :=
  toRgbaFloat_achromatic _ (by rw [toGray_sat]; ring)

/-- `to_gray` keeps the stored hue (so that saturation can be added again). -/
theorem toGray_hue {α : Type} [ScT α] (c : Color α) : (toGray c).hue = c.hue := rfl

end Pastel.C09
