/-
C09 — luminance, contrast, text colour (property theorems, exact arithmetic).

`contrastOfLum` is the WCAG contrast as a function of the two luminances; the
model's `contrastRatio` is literally that function of `luminance a`,
`luminance b` (`contrastRatio_eq`).  The 4.5:1 theorem is proved for **every**
background luminance in `[0,1]` at once.  Not proved: that the float
evaluation of `luminance` stays on the right side of the 0.179 threshold and
the "within one 8-bit gray step" clause of `to_gray` (both enumerated).
-/
import Pastel.RealInst
import Pastel.Model.Color
import Pastel.Lemmas.RealColor

namespace Pastel.C09
open Pastel

/-- WCAG contrast ratio of two luminances, as `Color::contrast_ratio` computes it. -/
noncomputable def contrastOfLum (la lb : ℝ) : ℝ :=
  if lb < la then (la + 0.05) / (lb + 0.05) else (lb + 0.05) / (la + 0.05)

/-- The model's `contrastRatio` is `contrastOfLum` of the two luminances. -/
theorem contrastRatio_eq (a b : Color ℝ) :
    contrastRatio a b = contrastOfLum (luminance a) (luminance b) := rfl

/-- The contrast ratio is symmetric. -/
theorem contrast_symm (la lb : ℝ) : contrastOfLum la lb = contrastOfLum lb la := by
  unfold contrastOfLum
  rcases lt_trichotomy la lb with h | h | h
  · simp [h, not_lt.mpr (le_of_lt h)]
  · subst h; simp
  · simp [h, not_lt.mpr (le_of_lt h)]

theorem contrastRatio_symm (a b : Color ℝ) : contrastRatio a b = contrastRatio b a := by
  rw [contrastRatio_eq, contrastRatio_eq, contrast_symm]

/-- For luminances in `[0,1]` the ratio lies in `[1, 21]`. -/
theorem contrast_range (la lb : ℝ) (ha0 : 0 ≤ la) (ha1 : la ≤ 1) (hb0 : 0 ≤ lb) (hb1 : lb ≤ 1) :
    1 ≤ contrastOfLum la lb ∧ contrastOfLum la lb ≤ 21 := by
  unfold contrastOfLum
  split
  · next h =>
    have hp : (0 : ℝ) < lb + 0.05 := by norm_num; linarith
    constructor
    · rw [le_div_iff₀ hp]; linarith
    · rw [div_le_iff₀ hp]; norm_num; linarith
  · next h =>
    have h' := not_lt.mp h
    have hp : (0 : ℝ) < la + 0.05 := by norm_num; linarith
    constructor
    · rw [le_div_iff₀ hp]; linarith
    · rw [div_le_iff₀ hp]; norm_num; linarith

/-- The ratio is 1 exactly when the luminances are equal. -/
theorem contrast_eq_one_iff (la lb : ℝ) (ha0 : 0 ≤ la) (hb0 : 0 ≤ lb) :
    contrastOfLum la lb = 1 ↔ la = lb := by
  unfold contrastOfLum
  split
  · next h =>
    have hp : (0 : ℝ) < lb + 0.05 := by norm_num; linarith
    rw [div_eq_one_iff_eq (ne_of_gt hp)]
    constructor <;> intro h' <;> linarith
  · next h =>
    have hp : (0 : ℝ) < la + 0.05 := by norm_num; linarith
    rw [div_eq_one_iff_eq (ne_of_gt hp)]
    constructor <;> intro h' <;> linarith

/-- `text_color` returns pure black or pure white (for any scalar type, floats included). -/
theorem textColor_black_or_white {α : Type} [ScT α] (c : Color α) :
    textColor c = black ∨ textColor c = white := by
  unfold textColor; split
  · exact Or.inl rfl
  · exact Or.inr rfl

/-- Black has luminance 0 and white has luminance 1 (the two candidate text colours). -/
theorem luminance_black : luminance (black : Color ℝ) = 0 := by
  have hb := black_fields
  have h := toRgbaFloat_achromatic (black : Color ℝ) (by rw [hb.1]; ring)
  simp only [luminance, h.1, h.2.1, h.2.2, hb.2.1, lumF]
  norm_num

theorem luminance_white : luminance (white : Color ℝ) = 1 := by
  have hb := white_fields
  have h := toRgbaFloat_achromatic (white : Color ℝ) (by rw [hb.1]; ring)
  simp only [luminance, h.1, h.2.1, h.2.2, hb.2.1, lumF]
  norm_num

/-- **Readability**: for every background luminance `L ∈ [0,1]`, the text colour chosen by the
0.179 threshold (black, luminance 0, above it; white, luminance 1, otherwise) has a WCAG
contrast of at least 4.58 > 4.5 against the background. -/
theorem text_contrast_ge (L : ℝ) (h0 : 0 ≤ L) (h1 : L ≤ 1) :
    4.58 ≤ contrastOfLum L (if 0.179 < L then 0 else 1) := by
  unfold contrastOfLum
  by_cases h : (0.179 : ℝ) < L
  · have hL : (0 : ℝ) < L := by linarith
    simp only [h, if_true, hL]
    norm_num
    rw [le_div_iff₀ (by norm_num)]
    linarith
  · have h' := not_lt.mp h
    have : ¬ (1 : ℝ) < L := by linarith
    simp only [h, if_false, this]
    have hp : (0 : ℝ) < L + 0.05 := by norm_num; linarith
    rw [le_div_iff₀ hp]
    norm_num
    linarith

/-- … and the other choice would be at most 0.0052 (< 0.01) better. -/
theorem text_contrast_near_best (L : ℝ) (h0 : 0 ≤ L) (h1 : L ≤ 1) :
    contrastOfLum L (if 0.179 < L then 1 else 0) - 0.0052 ≤ contrastOfLum L (if 0.179 < L then 0 else 1) := by
  unfold contrastOfLum
  by_cases h : (0.179 : ℝ) < L
  · have hL : (0 : ℝ) < L := by linarith
    have h1L : ¬ (1 : ℝ) < L := by linarith
    simp only [h, if_true, hL, h1L, if_false]
    have hp : (0 : ℝ) < L + 0.05 := by linarith
    have : (1 + 0.05) / (L + 0.05) ≤ (1 + 0.05) / (0.179 + 0.05) := by
      apply div_le_div_of_nonneg_left (by norm_num) (by norm_num) (by linarith)
    have h2 : (0.179 + 0.05) / (0 + 0.05 : ℝ) ≤ (L + 0.05) / (0 + 0.05) := by
      apply div_le_div_of_nonneg_right (by linarith) (by norm_num)
    norm_num at this h2 ⊢
    linarith
  · have h' := not_lt.mp h
    have h1L : ¬ (1 : ℝ) < L := by linarith
    simp only [h, if_false, h1L]
    have hp : (0 : ℝ) < L + 0.05 := by norm_num; linarith
    by_cases hL : (0 : ℝ) < L
    · simp only [hL, if_true]
      have : (1 + 0.05) / (0.179 + 0.05) ≤ (1 + 0.05) / (L + 0.05 : ℝ) := by
        apply div_le_div_of_nonneg_left (by norm_num) hp (by linarith)
      have h2 : (L + 0.05) / (0 + 0.05 : ℝ) ≤ (0.179 + 0.05) / (0 + 0.05) := by
        apply div_le_div_of_nonneg_right (by linarith) (by norm_num)
      norm_num at this h2 ⊢
      linarith
    · have : L = 0 := by linarith
      subst this
      simp only [lt_irrefl, if_false]
      norm_num

/-- Non-vacuity: a mid-gray background (luminance 0.2159) gets black text with contrast 5.3. -/
example : (4.58 : ℝ) ≤ contrastOfLum 0.2159 (if (0.179 : ℝ) < 0.2159 then 0 else 1) :=
  text_contrast_ge 0.2159 (by norm_num) (by norm_num)

end Pastel.C09
