/-
C05 — every constructible colour is valid (property theorems).

Everything here is *order-only*: it is proved for every scalar type satisfying
`ScOrd`, and `ScOrd Float` is proved from Lean's `Float.Model`
(`Pastel/Order.lean`), so these statements hold for real IEEE binary64
arguments — negative, huge, subnormal, NaN or infinite — with no rounding
caveat.  What is *not* proved here: that float rounding keeps the derived
quantities (float RGB channels, L*, luminance …) inside their ranges; that part
is exercised by the boundary-alphabet runs of the check.
-/
import Pastel.Lemmas.Clamp
import Pastel.Lemmas.LightMono
import Pastel.Lemmas.Turns
import Pastel.Lemmas.DerivedRanges

namespace Pastel.C05
open Pastel Sc ScOrd

variable {α : Type}

/-- The stored fields of a colour are valid: hue finite; saturation, lightness and alpha
are numbers in `[0, 1]`. -/
structure Valid [Sc α] (c : Color α) : Prop where
  hue_finite : isFinite c.hue = true
  sat_range : isNaN c.sat = false ∧ (0 : α) ≤ c.sat ∧ c.sat ≤ 1
  light_range : isNaN c.light = false ∧ (0 : α) ≤ c.light ∧ c.light ≤ 1
  alpha_range : isNaN c.alpha = false ∧ (0 : α) ≤ c.alpha ∧ c.alpha ≤ 1

section order
variable [Sc α] [ScOrd α]

/-- `clamp(lo, hi, x)` lands in `[lo, hi]` for every `x` whatsoever (NaN falls to a bound). -/
theorem clamp_range (lo hi x : α) (h : lo ≤ hi) :
    isNaN (clamp lo hi x) = false ∧ lo ≤ clamp lo hi x ∧ clamp lo hi x ≤ hi :=
  Pastel.clamp_range x h

/-- `Fraction::from` always yields a number in `[0, 1]`. -/
theorem fraction_range (x : α) :
    isNaN (fraction x) = false ∧ (0 : α) ≤ fraction x ∧ fraction x ≤ 1 :=
  Pastel.clamp_range x le_0_1

/-- `Hue::from` stores a finite number for every argument. -/
theorem hueFrom_finite (x : α) : isFinite (hueFrom x) = true := by
  unfold hueFrom
  by_cases h : isFinite x = true
  · simp [h]
  · simp only [h]; exact finite_0

/-- `Color::from_hsla` yields a valid colour for **all** arguments. -/
theorem fromHsla_valid (h s l a : α) : Valid (fromHsla h s l a) :=
  ⟨hueFrom_finite h, Pastel.clamp_range s le_0_1, Pastel.clamp_range l le_0_1, Pastel.clamp_range a le_0_1⟩

/-- `Color::from_hsva` yields a valid colour for **all** arguments. -/
theorem fromHsva_valid (h s v a : α) : Valid (fromHsva h s v a) :=
  ⟨hueFrom_finite h, Pastel.clamp_range _ le_0_1, Pastel.clamp_range _ le_0_1, Pastel.clamp_range a le_0_1⟩

/-- `Color::from_rgba` (any bytes, any alpha). -/
theorem fromRgba8_valid (r g b : UInt8) (a : α) : Valid (fromRgba8 r g b a) :=
  fromHsla_valid _ _ _ _

/-- `Color::from_rgba_float`: clamped, rounded and funnelled through 8 bits. -/
theorem fromRgbaFloat_valid (r g b a : α) : Valid (fromRgbaFloat r g b a) :=
  fromRgba8_valid _ _ _ _

/-- `Color::from_cmyk`. -/
theorem fromCmyk_valid (c m y k : α) : Valid (fromCmyk c m y k) :=
  fromRgbaFloat_valid _ _ _ _

/-- The quantised channel is the `u8` cast of a number in `[0, 255]`: the cast never
sees NaN or an out-of-range value. -/
theorem quantize_arg_range (c : α) :
    isNaN (clamp 0 255 (255 * c)) = false ∧ (0 : α) ≤ clamp 0 255 (255 * c) ∧ clamp 0 255 (255 * c) ≤ 255 :=
  Pastel.clamp_range _ le_0_255

/-- The HSL adjustments return valid colours for every amount. -/
theorem adjust_valid (c : Color α) (f : α) :
    Valid (lighten c f) ∧ Valid (darken c f) ∧ Valid (saturate c f) ∧ Valid (desaturate c f) ∧
    Valid (rotateHue c f) ∧ Valid (complementary c) :=
  ⟨fromHsla_valid _ _ _ _, fromHsla_valid _ _ _ _, fromHsla_valid _ _ _ _, fromHsla_valid _ _ _ _,
   fromHsla_valid _ _ _ _, fromHsla_valid _ _ _ _⟩

/-- Compositing yields a valid colour. -/
theorem composite_valid (b s : Color α) : Valid (composite b s) := by
  unfold composite
  simp only []
  split <;> exact fromRgba8_valid _ _ _ _

end order

section libm
variable [ScT α] [ScOrd α]

/-- Every constructor that goes through XYZ ends in the 8-bit funnel, hence is valid for
all arguments (whatever `pow`, `sin`, `cos` return — they are not constrained at all here). -/
theorem fromXyz_valid (x y z a : α) : Valid (fromXyz x y z a) := fromRgbaFloat_valid _ _ _ _
theorem fromLms_valid (l m s a : α) : Valid (fromLms l m s a) := fromXyz_valid _ _ _ _
theorem fromLab_valid (l a b al : α) : Valid (fromLab l a b al) := fromXyz_valid _ _ _ _
theorem fromLch_valid (l c h al : α) : Valid (fromLch l c h al) := fromLab_valid _ _ _ _
theorem fromOklab_valid (l a b al : α) : Valid (fromOklab l a b al) := fromXyz_valid _ _ _ _

/-- Mixing in any of the six spaces yields a valid colour for every fraction. -/
theorem mix_valid (sp : Space) (c1 c2 : Color α) (f : α) : Valid (mix sp c1 c2 f) := by
  cases sp
  · exact fromRgbaFloat_valid _ _ _ _
  · exact fromHsla_valid _ _ _ _
  · exact fromHsva_valid _ _ _ _
  · exact fromLab_valid _ _ _ _
  · exact fromLch_valid _ _ _ _
  · exact fromOklab_valid _ _ _ _

/-- Colour-blindness simulation, `text_color` and `to_gray` yield valid colours
(`to_gray` copies the hue of its — valid — argument). -/
theorem derived_valid (c : Color α) (hc : Valid c) (t : CbType) :
    Valid (simulateColorblindness c t) ∧ Valid (textColor c) ∧ Valid (toGray c) := by
  refine ⟨?_, ?_, ?_⟩
  · cases t <;> exact fromLms_valid _ _ _ _
  · unfold textColor; split <;> exact fromHsla_valid _ _ _ _
  · have hg : Valid (desaturate (fromLch (toLch c).x 0.0 0.0 c.alpha) 1.0) :=
      (adjust_valid (fromLch (toLch c).x 0.0 0.0 c.alpha) (1.0 : α)).2.2.2.1
    exact ⟨hc.hue_finite, hg.sat_range, hg.light_range, hg.alpha_range⟩

end libm

/-! ### The same statements for real IEEE binary64 (`Float`): demands the instance
`ScOrd Float`, proved from `Float.Model`. -/

theorem float_clamp_range (lo hi x : Float) (h : lo ≤ hi) :
    (clamp lo hi x).isNaN = false ∧ lo ≤ clamp lo hi x ∧ clamp lo hi x ≤ hi :=
  clamp_range lo hi x h

theorem float_fromHsla_valid (h s l a : Float) : Valid (fromHsla h s l a) := fromHsla_valid h s l a
theorem float_fromHsva_valid (h s v a : Float) : Valid (fromHsva h s v a) := fromHsva_valid h s v a
theorem float_fromLab_valid (l a b al : Float) : Valid (fromLab l a b al) := fromLab_valid l a b al
theorem float_mix_valid (sp : Space) (c1 c2 : Color Float) (f : Float) : Valid (mix sp c1 c2 f) :=
  mix_valid sp c1 c2 f

/-- Non-vacuity / witness: a NaN hue, an infinite saturation and a NaN alpha give a valid colour
whose stored fields are `(0, 1, 0, 1)`. -/
example : let c := fromHsla (0.0 / 0.0 : Float) (1.0 / 0.0) (-5.0) (0.0 / 0.0);
    (c.hue == 0.0) = true ∧ (c.sat == 1.0) = true ∧ (c.light == 0.0) = true ∧ (c.alpha == 1.0) = true := by
  decide +kernel


/-! ### Hue ranges in exact arithmetic -/

/-- `Hue::value` reports a hue in `[0, 360]` for every stored number. -/
theorem hueValue_range (h : ℝ) : 0 ≤ hueValue h ∧ hueValue h ≤ 360 := real_hueValue_range h

/-- The LCh hue reported by `to_lch` lies in `[0, 360)`, for every colour. -/
theorem toLch_hue_range (c : Color ℝ) : 0 ≤ (toLch c).z ∧ (toLch c).z < 360 := by
  have := real_modPositive_range (ScT.atan2 (toLab c).z (toLab c).y * rad2deg) (360.0 : ℝ) (by norm_num)
  unfold toLch
  simp only []
  norm_num at this ⊢
  exact this

/-- Chroma is non-negative. -/
theorem toLch_chroma_nonneg (c : Color ℝ) : 0 ≤ (toLch c).y := by
  unfold toLch
  simp only [real_sqrt]
  exact Real.sqrt_nonneg _


/-- **For finite angles a hue shifted by whole turns denotes the same colour**: `from_hsla` with
the hue `h + 360·k` (any integer `k`) has exactly the float channels of `from_hsla` with hue `h`
(exact arithmetic). -/
theorem whole_turns_same_color (h s l a : ℝ) (k : ℤ) :
    toRgbaFloat (fromHsla (h + 360 * k) s l a) = toRgbaFloat (fromHsla h s l a) := by
  refine toRgbaFloat_whole_turns (fromHsla h s l a) (fromHsla (h + 360 * k) s l a) k ?_ rfl rfl rfl
  show hueFrom (h + 360 * k) = hueFrom h + 360 * k
  unfold hueFrom
  simp only [real_isFinite, if_true]

/-! ### Ranges of the derived quantities of a valid colour (exact arithmetic) -/



/-- A valid colour at `ℝ`, in Mathlib's numerals. -/
theorem valid_real (c : Color ℝ) (hc : Valid c) :
    (0 ≤ c.sat ∧ c.sat ≤ 1) ∧ (0 ≤ c.light ∧ c.light ≤ 1) ∧ (0 ≤ c.alpha ∧ c.alpha ≤ 1) := by
  obtain ⟨_, ⟨_, s0, s1⟩, ⟨_, l0, l1⟩, ⟨_, a0, a1⟩⟩ := hc
  simp only [real_lit] at s0 s1 l0 l1 a0 a1
  push_cast at s0 s1 l0 l1 a0 a1
  exact ⟨⟨s0, s1⟩, ⟨l0, l1⟩, ⟨a0, a1⟩⟩

/-- **Every float RGB channel of a valid colour lies in `[0,1]`** (exact arithmetic, every hue). -/
theorem float_channels_range (c : Color ℝ) (hc : Valid c) :
    (0 ≤ (toRgbaFloat c).x ∧ (toRgbaFloat c).x ≤ 1) ∧ (0 ≤ (toRgbaFloat c).y ∧ (toRgbaFloat c).y ≤ 1) ∧
    (0 ≤ (toRgbaFloat c).z ∧ (toRgbaFloat c).z ≤ 1) := by
  obtain ⟨⟨s0, s1⟩, ⟨l0, l1⟩, _⟩ := valid_real c hc
  exact toRgbaFloat_range c s0 s1 l0 l1

/-- **Brightness lies in `[0,1]`.** -/
theorem brightness_range (c : Color ℝ) (hc : Valid c) : 0 ≤ brightness c ∧ brightness c ≤ 1 := by
  obtain ⟨⟨x0, x1⟩, ⟨y0, y1⟩, ⟨z0, z1⟩⟩ := float_channels_range c hc
  unfold brightness
  sc_norm
  constructor
  · apply div_nonneg _ (by norm_num); nlinarith
  · rw [div_le_one (by norm_num)]; nlinarith

/-- **Luminance lies in `[0,1]`.** -/
theorem luminance_range (c : Color ℝ) (hc : Valid c) : 0 ≤ luminance c ∧ luminance c ≤ 1 := by
  obtain ⟨⟨x0, x1⟩, ⟨y0, y1⟩, ⟨z0, z1⟩⟩ := float_channels_range c hc
  have hx := lumF_range _ x0 x1
  have hy := lumF_range _ y0 y1
  have hz := lumF_range _ z0 z1
  unfold luminance
  sc_norm
  constructor <;> nlinarith [hx.1, hx.2, hy.1, hy.2, hz.1, hz.2]

/-- **HSV saturation and value lie in `[0,1]`.** -/
theorem hsv_range (c : Color ℝ) (hc : Valid c) :
    (0 ≤ (toHsva c).y ∧ (toHsva c).y ≤ 1) ∧ (0 ≤ (toHsva c).z ∧ (toHsva c).z ≤ 1) := by
  obtain ⟨⟨s0, s1⟩, ⟨l0, l1⟩, _⟩ := valid_real c hc
  have hm0 : 0 ≤ min c.light (1 - c.light) := le_min l0 (by linarith)
  have hml : min c.light (1 - c.light) ≤ c.light := min_le_left _ _
  have hmr : min c.light (1 - c.light) ≤ 1 - c.light := min_le_right _ _
  have hsm0 : 0 ≤ c.sat * min c.light (1 - c.light) := mul_nonneg s0 hm0
  have hsm1 : c.sat * min c.light (1 - c.light) ≤ min c.light (1 - c.light) := by nlinarith
  unfold toHsva
  sc_norm
  push_cast
  refine ⟨?_, ⟨by linarith, by linarith⟩⟩
  split_ifs with hv0
  · have hv : 0 < c.light + c.sat * min c.light (1 - c.light) := by norm_num at hv0; exact hv0
    norm_num
    have hq0 : 0 ≤ c.light / (c.light + c.sat * min c.light (1 - c.light)) := div_nonneg l0 hv.le
    have hq1 : c.light / (c.light + c.sat * min c.light (1 - c.light)) ≤ 1 := by
      rw [div_le_one hv]; linarith
    have hq2 : 1 / 2 ≤ c.light / (c.light + c.sat * min c.light (1 - c.light)) := by
      rw [le_div_iff₀ hv]; linarith
    constructor <;> linarith
  · norm_num


/-- **CIE L\* of a valid colour lies in `[0,100]`** (exact arithmetic). -/
theorem lab_lightness_range (c : Color ℝ) (hc : Valid c) : 0 ≤ (toLab c).x ∧ (toLab c).x ≤ 100 := by
  obtain ⟨⟨x0, x1⟩, ⟨y0, y1⟩, ⟨z0, z1⟩⟩ := float_channels_range c hc
  have hx := lumF_range _ x0 x1
  have hy := lumF_range _ y0 y1
  have hz := lumF_range _ z0 z1
  have hY : 0 ≤ (toXyz c).y / (d65Yn : ℝ) ∧ (toXyz c).y / (d65Yn : ℝ) ≤ 1 := by
    simp only [toXyz, d65Yn]
    rw [srgbDecode_eq_lumF, srgbDecode_eq_lumF, srgbDecode_eq_lumF]
    norm_num
    constructor <;> nlinarith [hx.1, hx.2, hy.1, hy.2, hz.1, hz.2]
  have hf := labF_range _ hY.1 hY.2
  unfold toLab
  simp only []
  sc_norm
  norm_num
  constructor <;> linarith [hf.1, hf.2]


theorem cmyk_comp_range (x big : ℝ) (hx0 : 0 ≤ x) (hxb : x ≤ big) :
    0 ≤ (big - x) / big ∧ (big - x) / big ≤ 1 := by
  rcases eq_or_lt_of_le (_root_.le_trans hx0 hxb) with h | h
  · rw [← h]; have : x = 0 := by linarith
    rw [this]; norm_num
  · constructor
    · apply div_nonneg _ h.le; linarith
    · rw [div_le_one h]; linarith

/-- **CMYK components lie in `[0,1]`** for every colour (they are computed from the bytes). -/
theorem cmyk_range (c : Color ℝ) :
    (0 ≤ (toCmyk c).c ∧ (toCmyk c).c ≤ 1) ∧ (0 ≤ (toCmyk c).m ∧ (toCmyk c).m ≤ 1) ∧
    (0 ≤ (toCmyk c).y ∧ (toCmyk c).y ≤ 1) ∧ (0 ≤ (toCmyk c).k ∧ (toCmyk c).k ≤ 1) := by
  have hr := chan_range (toRgba8 c).r
  have hg := chan_range (toRgba8 c).g
  have hb := chan_range (toRgba8 c).b
  unfold chan at hr hg hb
  simp only [toCmyk, u8f, real_isNaN]
  sc_norm
  norm_num
  generalize ((toRgba8 c).r.toNat : ℝ) / 255 = r at *
  generalize ((toRgba8 c).g.toNat : ℝ) / 255 = g at *
  generalize ((toRgba8 c).b.toNat : ℝ) / 255 = b at *
  split_ifs with h1 h2
  · have := cmyk_comp_range r r hr.1 le_rfl
    have := cmyk_comp_range g r hg.1 h1.1
    have := cmyk_comp_range b r hb.1 h1.2
    refine ⟨?_, ?_, ?_, ?_⟩ <;> first | assumption | (constructor <;> linarith [hr.1, hr.2])
  · have := cmyk_comp_range r g hr.1 h2.1
    have := cmyk_comp_range g g hg.1 le_rfl
    have := cmyk_comp_range b g hb.1 h2.2
    refine ⟨?_, ?_, ?_, ?_⟩ <;> first | assumption | (constructor <;> linarith [hg.1, hg.2])
  · have hrb : r ≤ b := by
      by_contra hc
      have hc := not_le.mp hc
      by_cases hgr : g ≤ r
      · exact h1 ⟨hgr, hc.le⟩
      · exact h2 ⟨(not_le.mp hgr).le, by linarith [not_le.mp hgr]⟩
    have hgb : g ≤ b := by
      by_contra hc
      have hc := not_le.mp hc
      by_cases hgr : r ≤ g
      · exact h2 ⟨hgr, hc.le⟩
      · exact h1 ⟨(not_le.mp hgr).le, by linarith [not_le.mp hgr]⟩
    have := cmyk_comp_range r b hr.1 hrb
    have := cmyk_comp_range g b hg.1 hgb
    have := cmyk_comp_range b b hb.1 le_rfl
    refine ⟨?_, ?_, ?_, ?_⟩ <;> first | assumption | (constructor <;> linarith [hb.1, hb.2])


end Pastel.C05
