/-
C12 — ANSI 8-bit (property theorems).

`Pastel/Generated/AnsiTable.lean` holds the 256 triples dumped from the live
`Color::from_ansi_8bit` on *this* run; the kernel re-checks them against the
published xterm palette each time, so a changed table entry in the code breaks
`generated_is_xterm`.
-/
import Pastel.Model.Ansi
import Pastel.Generated.AnsiTable
import Pastel.RealInst
import Pastel.Lemmas.MinBy
import Pastel.FloatFns

namespace Pastel.C12
open Pastel

/-- The decoding arithmetic of `from_ansi_8bit` reproduces the published xterm-256 palette for
all 256 codes. -/
theorem fromAnsi_is_xterm : ∀ code : Fin 256, fromAnsi code.val = xterm code.val := by
  decide +kernel

/-- The table the **code** produces on this run equals the model's decoding… -/
theorem generated_is_model : Generated.ansiTable = (List.range 256).map fromAnsi := by
  decide +kernel

/-- …hence the published palette. -/
theorem generated_is_xterm : Generated.ansiTable = (List.range 256).map xterm := by
  decide +kernel

/-- The cube levels are `0, 95, 135, 175, 215, 255` and the gray ramp is `8 + 10k`. -/
theorem cube_levels : (List.range 6).map cubeTo8bit = [0, 95, 135, 175, 215, 255] := by decide

theorem gray_ramp : ∀ k : Fin 24, fromAnsi (232 + k.val) = (8 + 10 * k.val, 8 + 10 * k.val, 8 + 10 * k.val) := by
  decide +kernel

/-- The candidate table is exactly the codes `16..=255`. -/
theorem candidates_exact (c : Nat) : c ∈ ansiCandidates ↔ (16 ≤ c ∧ c ≤ 255) := by
  unfold ansiCandidates
  rw [List.mem_map]
  constructor
  · rintro ⟨k, hk, rfl⟩
    have := List.mem_range.mp hk
    omega
  · intro h
    exact ⟨c - 16, List.mem_range.mpr (by omega), by omega⟩

theorem candidates_length : ansiCandidates.length = 240 := by
  simp [ansiCandidates]

/-- `minByKey` returns an element of the list whose key is minimal, and the first such. -/
theorem minByKey_spec {β : Type} (key : β → Int) (l : List β) (x : β) (h : minByKey key l = some x) :
    x ∈ l ∧ ∀ y ∈ l, key x ≤ key y := MinBy.minByKey_spec key l x h

theorem minByKey_none {β : Type} (key : β → Int) (l : List β) (h : minByKey key l = none) : l = [] :=
  MinBy.minByKey_none key l h

/-- `to_ansi_8bit` always returns one of the 240 candidate codes — never a (theme-dependent)
system colour — for every colour and every scalar type (floats included). -/
theorem toAnsi_in_range {α : Type} [ScT α] (c : Color α) : 16 ≤ toAnsi c ∧ toAnsi c ≤ 255 := by
  unfold toAnsi toAnsiWith
  simp only []
  split
  · next e he =>
    have hm := (minByKey_spec _ _ e he).1
    unfold ansiLabTable at hm
    obtain ⟨code, hcode, rfl⟩ := List.mem_map.mp hm
    exact (candidates_exact code).mp hcode
  · next hnone =>
    exfalso
    have := minByKey_none _ _ hnone
    have hl : (ansiLabTable (α := α)).length = 240 := by
      unfold ansiLabTable; rw [List.length_map, candidates_length]
    rw [this] at hl
    simp at hl

/-- Truncating the distances to integers before taking the minimum costs less than one unit:
if `⌊d₁⌋ ≤ ⌊d₂⌋` (non-negative distances) then `d₁ < d₂ + 1`. -/
theorem truncated_key_near_optimal (d1 d2 : ℝ) (_h1 : 0 ≤ d1) (_h2 : 0 ≤ d2) (hk : ⌊d1⌋ ≤ ⌊d2⌋) :
    d1 < d2 + 1 := by
  have a := Int.lt_floor_add_one d1
  have b := Int.floor_le d2
  have c : (⌊d1⌋ : ℝ) ≤ (⌊d2⌋ : ℝ) := by exact_mod_cast hk
  linarith

/-- A palette colour has key 0 against itself, so the chosen entry is less than 1.0 away
(with `truncated_key_near_optimal` and `d₂ = 0`). -/
theorem palette_colour_near_itself (d1 : ℝ) (h1 : 0 ≤ d1) (hk : ⌊d1⌋ ≤ ⌊(0 : ℝ)⌋) : d1 < 1 := by
  have := truncated_key_near_optimal d1 0 h1 (le_refl 0) hk
  linarith


/-- On IEEE floats: the code is in `16..=255` whatever the colour's fields are (NaN included). -/
theorem float_toAnsi_in_range (c : Color Float) : 16 ≤ toAnsi c ∧ toAnsi c ≤ 255 := toAnsi_in_range c

end Pastel.C12
