/-
C16 — random strategies (property theorems; exact arithmetic over every stream of draws).

The equal-frequency clause is statistical: it is not a theorem; the check counts hits over a
uniform stream with bounds twelve standard deviations wide and labels that as such.  The
`lch_hue` clause ("within quantisation error of L=70, C=35") is a gamut statement through
`pow`: enumerated, not proved.
-/
import Pastel.RealInst
import Pastel.Lemmas.RealColor
import Pastel.Model.Cli
import Pastel.Model.CliRun

namespace Pastel.C16
open Pastel

/-- rand's `f64` sample is in `[0, 1 − 2⁻⁵³]` for every 64-bit draw. -/
theorem drawF64_range (d : Draws) :
    0 ≤ (drawF64 (α := ℝ) d).1 ∧ (drawF64 (α := ℝ) d).1 ≤ 1 - 1 / 9007199254740992 := by
  unfold drawF64
  simp only [real_ofNat]
  set x := (d.next.1 % 18446744073709551616 / 2048 : ℕ) with hx
  have hlt : x < 9007199254740992 := by
    have : d.next.1 % 18446744073709551616 < 18446744073709551616 := Nat.mod_lt _ (by norm_num)
    omega
  have hxr : (x : ℝ) ≤ 9007199254740991 := by
    have : x ≤ 9007199254740991 := by omega
    exact_mod_cast this
  have hx0 : (0 : ℝ) ≤ x := Nat.cast_nonneg _
  constructor
  · positivity
  · have : (1 : ℝ) / 9007199254740992 * x ≤ 1 / 9007199254740992 * 9007199254740991 := by
      apply mul_le_mul_of_nonneg_left hxr; positivity
    norm_num at this ⊢
    linarith

/-- `vivid`: for every stream, saturation lies in `[0.2, 0.8]`, lightness in `[0.3, 0.7]`, and the
colour is opaque. -/
theorem vivid_ranges (d : Draws) :
    let c := (randVivid (α := ℝ) d).1
    0.2 ≤ c.sat ∧ c.sat ≤ 0.8 ∧ 0.3 ≤ c.light ∧ c.light ≤ 0.7 ∧ c.alpha = 1 := by
  simp only [randVivid, fromHsla, clamp, real_fmin, real_fmax, real_lit]
  have h2 := drawF64_range d.next.2
  have h3 := drawF64_range d.next.2.next.2
  -- the three draws are consumed in order; name the second and third samples
  set u2 := (drawF64 (α := ℝ) (drawF64 (α := ℝ) d).2).1 with hu2
  set u3 := (drawF64 (α := ℝ) (drawF64 (α := ℝ) (drawF64 (α := ℝ) d).2).2).1 with hu3
  have e2 : 0 ≤ u2 ∧ u2 ≤ 1 := by
    have := drawF64_range (drawF64 (α := ℝ) d).2
    constructor
    · exact this.1
    · have : u2 ≤ 1 - 1 / 9007199254740992 := this.2
      linarith
  have e3 : 0 ≤ u3 ∧ u3 ≤ 1 := by
    have := drawF64_range (drawF64 (α := ℝ) (drawF64 (α := ℝ) d).2).2
    constructor
    · exact this.1
    · have : u3 ≤ 1 - 1 / 9007199254740992 := this.2
      linarith
  have a1 : (0.2 : ℝ) + 0.6 * u2 ≤ 1 := by nlinarith [e2.1, e2.2]
  have a2 : (0 : ℝ) ≤ 0.2 + 0.6 * u2 := by nlinarith [e2.1, e2.2]
  have b1 : (0.3 : ℝ) + 0.4 * u3 ≤ 1 := by nlinarith [e3.1, e3.2]
  have b2 : (0 : ℝ) ≤ 0.3 + 0.4 * u3 := by nlinarith [e3.1, e3.2]
  norm_num
  exact ⟨e2.1, by nlinarith [e2.2], e3.1, by nlinarith [e3.2]⟩

/-- `gray`: saturation is exactly 0, hence the three float channels are equal (achromatic), and
the colour is opaque — for every stream. -/
theorem gray_achromatic (d : Draws) :
    let c := (randGray (α := ℝ) d).1
    c.sat = 0 ∧ c.alpha = 1 ∧ (toRgbaFloat c).x = (toRgbaFloat c).y ∧ (toRgbaFloat c).y = (toRgbaFloat c).z := by
  simp only [randGray]
  have hs : (graytone (drawF64 (α := ℝ) d).1).sat = 0 := by
    simp only [graytone, fromHsla, clamp, real_fmin, real_fmax, real_lit]; norm_num
  have ha : (graytone (drawF64 (α := ℝ) d).1).alpha = 1 := by
    simp only [graytone, fromHsla, clamp, real_fmin, real_fmax, real_lit]; norm_num
  have h := toRgbaFloat_achromatic (graytone (drawF64 (α := ℝ) d).1) (by rw [hs]; ring)
  exact ⟨hs, ha, by rw [h.1, h.2.1], by rw [h.2.1, h.2.2]⟩

/-- `rgb`: opaque, and every channel value is reachable: for each byte there is a draw yielding it. -/
theorem rgb_opaque {α : Type} [Sc α] (d : Draws) : (randRgb (α := α) d).1.alpha = clamp 0 1 1.0 := rfl

theorem rgb_every_value_reachable : ∀ k : Fin 256, (drawU8 { rest := [k.val] }).1.toNat = k.val := by
  decide +kernel

/-- `lch_hue` always constructs from `L = 70`, `C = 35` and an angle `360·u` (definitional);
the result is opaque. -/
theorem lchHue_def {α : Type} [ScT α] (d : Draws) :
    (randLchHue (α := α) d).1 = fromLch 70.0 35.0 (360.0 * (drawF64 (α := α) d).1) 1.0 := rfl

/-- `RandomCommand` emits exactly `N` colours (a loop of `N` `show_color` calls). -/
theorem random_count {β : Type} (n : Nat) (gen : Nat → β) : ((List.range n).map gen).length = n := by simp


/-- The draw that lands on gray level `k`: `⌈k/255 · 2^53⌉` (capped at `2^53 − 1`), in the upper
53 bits of a `u64`. -/
def grayWitness (k : Nat) : Nat := min ((k * 9007199254740992 + 254) / 255) 9007199254740991 * 2048

/-- `gray`: every gray level is reachable, on IEEE floats — the draw `grayWitness k` yields the
colour `(k, k, k)`, for each of the 256 levels (kernel-evaluated through the Float model). -/
theorem gray_every_level_reachable : ∀ k : Fin 256,
    (let c := toRgba8 (randGray (α := Float) { rest := [grayWitness k.val] }).1
     (c.r.toNat, c.g.toNat, c.b.toNat)) = (k.val, k.val, k.val) := by
  decide +kernel

/-! ### At the command line (CLI model) -/

section clirun
open Pastel.Cli

/-- **`pastel random -n N` prints exactly `N` lines** (on the CLI model: whatever the strategy
draws, the command prints one line per requested colour) whenever `N` is a readable count, and
nothing but the error otherwise. -/
theorem random_cli_count (n : String) (colors : List String) (stdin : List StdinLine) :
    (∀ count, parseUsize n.toList = some count →
      (run "random" [n] colors stdin).lines.length = count ∧ (run "random" [n] colors stdin).err = none) ∧
    (parseUsize n.toList = none → run "random" [n] colors stdin = fail (.couldNotParseNumber n)) := by
  have hrun : run "random" [n] colors stdin = runRandom [n] := by
    unfold run
    simp only [show ("random" = "mix") = False by decide, show ("random" = "gray") = False by decide,
      show ("random" = "gradient") = False by decide, show ("random" = "sort-by") = False by decide,
      show ("random" = "paint") = False by decide, if_false, if_true]
  rw [hrun]
  constructor
  · intro count hp
    unfold runRandom
    simp [hp]
  · intro hp
    unfold runRandom
    simp [hp]

end clirun

end Pastel.C16
