/-
C11 — colour-difference metrics (property theorems, exact arithmetic).

CIE76 is the Euclidean distance on Lab triples: non-negative, zero on
identical inputs, symmetric, and it satisfies the triangle inequality.
CIEDE2000 (as implemented): zero on identical inputs, and the helper
functions' symmetry facts from which the symmetry of the whole formula
follows.  Agreement with Sharma et al. within 0.001 is a numeric statement:
it is checked against the independently written `ciede2000Sharma` on every
generated pair, not proved.
-/
import Pastel.RealInst
import Pastel.Model.DeltaE
import Pastel.Lemmas.SharmaEq
import Pastel.Lemmas.HPrimeRange
import Mathlib.Analysis.InnerProductSpace.PiL2

namespace Pastel.C11
open Pastel

theorem powi_two (x : ℝ) : powi x 2 = x ^ 2 := by
  simp [powi, powiAux]; ring

theorem cie76_eq (p q : Lab3 ℝ) :
    cie76 p q = Real.sqrt ((p.l - q.l) ^ 2 + (p.a - q.a) ^ 2 + (p.b - q.b) ^ 2) := by
  simp only [cie76, powi_two, real_sqrt]

/-- CIE76 is non-negative. -/
theorem cie76_nonneg (p q : Lab3 ℝ) : 0 ≤ cie76 p q := by
  rw [cie76_eq]; exact Real.sqrt_nonneg _

/-- CIE76 is zero for identical inputs… -/
theorem cie76_self (p : Lab3 ℝ) : cie76 p p = 0 := by
  rw [cie76_eq]; simp

/-- …and only for identical inputs. -/
theorem cie76_eq_zero_iff (p q : Lab3 ℝ) : cie76 p q = 0 ↔ (p.l = q.l ∧ p.a = q.a ∧ p.b = q.b) := by
  rw [cie76_eq, Real.sqrt_eq_zero (by positivity)]
  constructor
  · intro h
    have h1 : (p.l - q.l) ^ 2 = 0 := by nlinarith [sq_nonneg (p.l - q.l), sq_nonneg (p.a - q.a), sq_nonneg (p.b - q.b)]
    have h2 : (p.a - q.a) ^ 2 = 0 := by nlinarith [sq_nonneg (p.l - q.l), sq_nonneg (p.a - q.a), sq_nonneg (p.b - q.b)]
    have h3 : (p.b - q.b) ^ 2 = 0 := by nlinarith [sq_nonneg (p.l - q.l), sq_nonneg (p.a - q.a), sq_nonneg (p.b - q.b)]
    refine ⟨?_, ?_, ?_⟩ <;> nlinarith [pow_eq_zero_iff (two_ne_zero) |>.mp h1, pow_eq_zero_iff (two_ne_zero) |>.mp h2, pow_eq_zero_iff (two_ne_zero) |>.mp h3]
  · rintro ⟨h1, h2, h3⟩; rw [h1, h2, h3]; ring

/-- CIE76 is symmetric. -/
theorem cie76_symm (p q : Lab3 ℝ) : cie76 p q = cie76 q p := by
  rw [cie76_eq, cie76_eq]; congr 1; ring

/-- The point of `EuclideanSpace ℝ (Fin 3)` of a Lab triple. -/
noncomputable def vec (p : Lab3 ℝ) : EuclideanSpace ℝ (Fin 3) := !₂[p.l, p.a, p.b]

theorem cie76_eq_dist (p q : Lab3 ℝ) : cie76 p q = dist (vec p) (vec q) := by
  rw [cie76_eq, EuclideanSpace.dist_eq]
  simp [vec, Fin.sum_univ_three, Real.dist_eq, sq_abs]

/-- CIE76 satisfies the triangle inequality. -/
theorem cie76_triangle (p q r : Lab3 ℝ) : cie76 p r ≤ cie76 p q + cie76 q r := by
  rw [cie76_eq_dist, cie76_eq_dist, cie76_eq_dist]; exact dist_triangle _ _ _

/-! ### CIEDE2000 as implemented -/

/-- The hue difference is antisymmetric in all three branches (swap both the chromas and the
hues); this is the heart of the symmetry of the formula. -/
theorem deltaHPrime_real (c1 c2 h1 h2 : ℝ) :
    getDeltaHPrime c1 c2 h1 h2 =
      if c1 = 0 ∨ c2 = 0 then 0 else if |h1 - h2| ≤ 180 then h2 - h1
      else if h2 ≤ h1 then h2 - h1 + 360 else h2 - h1 - 360 := by
  unfold getDeltaHPrime
  by_cases hc : c1 = 0 ∨ c2 = 0
  · rcases hc with h | h <;> norm_num [real_feq, h]
  · have h1' : ¬ (0 : ℝ) = c1 := fun h => hc (Or.inl h.symm)
    have h2' : ¬ (0 : ℝ) = c2 := fun h => hc (Or.inr h.symm)
    norm_num [real_feq, hc, h1', h2']

theorem deltaHPrime_antisymm (c1 c2 h1 h2 : ℝ) :
    getDeltaHPrime c2 c1 h2 h1 = -getDeltaHPrime c1 c2 h1 h2 := by
  rw [deltaHPrime_real, deltaHPrime_real]
  by_cases hc : c1 = 0 ∨ c2 = 0
  · have hc' : c2 = 0 ∨ c1 = 0 := hc.symm
    simp [hc, hc']
  · have hc' : ¬ (c2 = 0 ∨ c1 = 0) := fun h => hc h.symm
    simp only [hc, hc', if_false]
    have habs : |h2 - h1| = |h1 - h2| := abs_sub_comm _ _
    simp only [habs]
    by_cases hle : |h1 - h2| ≤ 180
    · simp only [hle, if_true]; ring
    · simp only [hle, if_false]
      have hgt : (180 : ℝ) < |h1 - h2| := not_le.mp hle
      have hne12 : h1 ≠ h2 := by
        intro h; rw [h, sub_self, abs_zero] at hgt; linarith
      rcases lt_or_gt_of_ne hne12 with h | h
      · have a : ¬ h2 ≤ h1 := not_le.mpr h
        have b : h1 ≤ h2 := le_of_lt h
        simp only [a, b, if_true, if_false]; ring
      · have a : h2 ≤ h1 := le_of_lt h
        have b : ¬ h1 ≤ h2 := not_le.mpr h
        simp only [a, b, if_true, if_false]; ring

/-- The mean hue is symmetric. -/
theorem upcaseHBarPrime_symm (h1 h2 : ℝ) : getUpcaseHBarPrime h1 h2 = getUpcaseHBarPrime h2 h1 := by
  unfold getUpcaseHBarPrime
  simp only [real_abs, abs_sub_comm h1 h2, add_comm h1 h2]

/-- `T` is periodic in the mean hue with period 360° — which is why the implementation's choice
of `h̄' + 360` instead of Sharma's `h̄' − 360` in the wrap-around branch does not change `T`. -/
theorem upcaseT_periodic (h : ℝ) : getUpcaseT (h + 360) = getUpcaseT h := by
  unfold getUpcaseT degreesToRadians
  norm_num only [real_cos, real_pi]
  have e1 : (h + 360 - 30) * (Real.pi / 180) = (h - 30) * (Real.pi / 180) + 2 * Real.pi := by ring
  have e2 : 2 * (h + 360) * (Real.pi / 180) = 2 * h * (Real.pi / 180) + (2 : ℕ) * (2 * Real.pi) := by
    push_cast; ring
  have e3 : (3 * (h + 360) + 6) * (Real.pi / 180) = (3 * h + 6) * (Real.pi / 180) + (3 : ℕ) * (2 * Real.pi) := by
    push_cast; ring
  have e4 : (4 * (h + 360) - 63) * (Real.pi / 180) = (4 * h - 63) * (Real.pi / 180) + (4 : ℕ) * (2 * Real.pi) := by
    push_cast; ring
  rw [e1, e2, e3, e4, Real.cos_add_two_pi, Real.cos_add_nat_mul_two_pi, Real.cos_add_nat_mul_two_pi,
    Real.cos_add_nat_mul_two_pi]

/-- Instance of `deltaHPrime_antisymm`: hues 10° and 300° (the wrap-around branch). -/
example : getDeltaHPrime (3 : ℝ) 2 300 10 = -getDeltaHPrime (2 : ℝ) 3 10 300 :=
  deltaHPrime_antisymm 2 3 10 300


/-! ### CIEDE2000 as implemented: non-negative, zero on identical inputs, symmetric — for all Lab inputs -/


theorem ciede2000_nonneg (p q : Lab3 ℝ) : 0 ≤ ciede2000 p q := by
  unfold ciede2000
  simp only [real_sqrt]
  exact Real.sqrt_nonneg _

theorem deltaHPrime_self (c h : ℝ) : getDeltaHPrime c c h h = 0 := by
  rw [deltaHPrime_real]
  by_cases hc : c = 0
  · rw [if_pos (Or.inl hc)]
  · rw [if_neg (by tauto), if_pos (by rw [sub_self, abs_zero]; norm_num), sub_self]

theorem ciede2000_self (p : Lab3 ℝ) : ciede2000 p p = 0 := by
  unfold ciede2000
  simp only [deltaHPrime_self]
  simp only [powi_two, sub_self, degreesToRadians, real_sin, real_sqrt]
  norm_num

/-- **Symmetry for every pair of Lab inputs**: swapping the arguments negates `ΔL'`, `ΔC'` and
`ΔH'` (the latter by `deltaHPrime_antisymm` and `sin (−x) = −sin x`), keeps every mean and weight,
and the distance depends on the three differences only through squares and the product
`ΔC'·ΔH'`. -/
theorem ciede2000_symm (p q : Lab3 ℝ) : ciede2000 p q = ciede2000 q p := by
  unfold ciede2000
  simp only []
  generalize hc1 : ScT.sqrt (powi p.a 2 + powi p.b 2) = c1
  generalize hc2 : ScT.sqrt (powi q.a 2 + powi q.b 2) = c2
  rw [add_comm c2 c1]
  generalize hk : (1.0 : ℝ) - ScT.sqrt (powi ((c1 + c2) / 2.0) 7 / (powi ((c1 + c2) / 2.0) 7 + pow25_7)) = k
  generalize ha1 : p.a + p.a / 2.0 * k = a1
  generalize ha2 : q.a + q.a / 2.0 * k = a2
  generalize hp1 : ScT.sqrt (powi a1 2 + powi p.b 2) = cp1
  generalize hp2 : ScT.sqrt (powi a2 2 + powi q.b 2) = cp2
  rw [add_comm cp2 cp1, mul_comm cp2 cp1, add_comm q.l p.l]
  generalize hh1 : getHPrime p.b a1 = h1
  generalize hh2 : getHPrime q.b a2 = h2
  rw [deltaHPrime_antisymm c1 c2 h1 h2, upcaseHBarPrime_symm h2 h1]
  have hsin : ScT.sin (degreesToRadians (-getDeltaHPrime c1 c2 h1 h2) / 2.0)
      = -ScT.sin (degreesToRadians (getDeltaHPrime c1 c2 h1 h2) / 2.0) := by
    unfold degreesToRadians
    rw [real_sin, real_sin, ← Real.sin_neg]
    congr 1
    norm_num
    ring
  rw [hsin]
  generalize ScT.sin (degreesToRadians (getDeltaHPrime c1 c2 h1 h2) / 2.0) = sn
  generalize getRSubT ((cp1 + cp2) / 2.0) (getUpcaseHBarPrime h1 h2) = rt
  generalize getUpcaseT (getUpcaseHBarPrime h1 h2) = tt
  generalize ScT.sqrt (cp1 * cp2) = sq
  generalize ScT.sqrt (20.0 + powi ((p.l + q.l) / 2.0 - 50.0) 2) = sl
  simp only [powi_two]
  congr 1
  norm_num
  ring

/-! ### The code's formula IS the paper's formula (exact arithmetic)

`ciede2000` (the model of `src/delta_e.rs`, written in the code's operation order) and
`ciede2000Sharma` (written from eq. (2)–(22) of Sharma, Wu & Dalal) are two different texts:
`a + a/2·(1−√…)` against `(1+G)·a`, the zero-chroma test on the *unprimed* chromas against the
test `C'₁C'₂ = 0`, a three-way against a four-way mean hue, `h'₁+h'₂` against half of it when a
chroma vanishes, `R_T` with `60·exp` against `2·(30·exp)`.  For every pair of Lab triples outside
one branch they denote the same real number.  The excluded branch (`WrapHigh`: hue difference
above 180° and hue sum at least 360°) is where the code's mean hue is the paper's plus 360°:
`T` is 360-periodic (`upcaseT_periodic`) but `Δθ = 30·exp(−((h̄'−275)/25)²)` is not, so there the
two differ by a rotation term below 2·sin(2·30·e^(−11.56)°) ≈ 1.2·10⁻⁵ — inside the property's
0.001, decided numerically by the correspondence, not proved. -/

theorem ciede2000_eq_sharma_partial (p q : Lab3 ℝ) (hw : ¬ SharmaEq.WrapHigh p q) :
    ciede2000 p q = ciede2000Sharma p q :=
  SharmaEq.ciede2000_eq_sharma_of_not_wrapHigh p q hw

/-- **Zero-chroma inputs** (named in the property): when either colour is achromatic the code
and the paper agree for every other input, with no side condition. -/
theorem ciede2000_eq_sharma_achromatic (p q : Lab3 ℝ)
    (h : (p.a = 0 ∧ p.b = 0) ∨ (q.a = 0 ∧ q.b = 0)) :
    ciede2000 p q = ciede2000Sharma p q :=
  SharmaEq.ciede2000_eq_sharma_of p q (by tauto)

example : ciede2000 (⟨50, 0, 0⟩ : Lab3 ℝ) ⟨60, 20, -30⟩ = ciede2000Sharma ⟨50, 0, 0⟩ ⟨60, 20, -30⟩ :=
  ciede2000_eq_sharma_achromatic _ _ (Or.inl ⟨rfl, rfl⟩)

/-- The zero-chroma test on the unprimed chroma (code) and on the primed chroma (paper) agree:
`a' = a·(1 + G)` with `1 + G ≥ 1`. -/
theorem zero_chroma_tests_agree (a b k : ℝ) (hk : 0 ≤ k) :
    ScT.sqrt (powi a 2 + powi b 2) = 0 ↔ ScT.sqrt (powi (a + a / 2.0 * k) 2 + powi b 2) = 0 :=
  SharmaEq.chroma_zero_iff a b k hk

/-- The hue-difference case split of the code (`h₂ ≤ h₁`) and of the paper (`h₂ − h₁ > 180`)
select the same value for every pair of angles — including a difference of exactly 180°. -/
theorem hue_difference_cases_agree (h1 h2 : ℝ) :
    (if Sc.abs (h2 - h1) ≤ (180.0 : ℝ) then h2 - h1 else if (180.0 : ℝ) < h2 - h1 then h2 - h1 - 360.0 else h2 - h1 + 360.0)
      = (if Sc.abs (h1 - h2) ≤ (180.0 : ℝ) then h2 - h1 else if h2 ≤ h1 then h2 - h1 + 360.0 else h2 - h1 - 360.0) :=
  SharmaEq.dh_eq h1 h2

/-- `powi` (compiler-rt's square-and-multiply loop) is the power function, for every exponent. -/
theorem powi_is_pow (x : ℝ) (n : ℕ) (hn : n < 2 ^ 64) : powi x n = x ^ n := SharmaEq.powi_eq x n hn

/-- Non-vacuity: two grays are outside the excluded branch. -/
example : ¬ SharmaEq.WrapHigh ⟨50, 0, 0⟩ ⟨60, 0, 0⟩ := by
  intro h
  have h1 := h.1
  have e : ∀ k : ℝ, getHPrime (0 : ℝ) (0 + 0 / 2.0 * k) = 0 := by
    intro k
    unfold getHPrime
    have : (0 : ℝ) + 0 / 2.0 * k = 0 := by norm_num
    rw [this]; norm_num [real_feq]
  simp only [SharmaEq.primedHues, e] at h1
  norm_num at h1

/-- The primed hue angle `h'` lies in [0, 360) for every input (`atan2` ∈ (−π, π], negative angles
are lifted by one turn) — so the case analyses above see every possible pair of angles. -/
theorem hPrime_range (x y : ℝ) : 0 ≤ getHPrime x y ∧ getHPrime x y < 360 :=
  HPrimeRange.getHPrime_range x y

/-! In the excluded branch (`WrapHigh`) the code's mean hue is at least 360° (half of a sum ≥ 360
plus 360) and the paper's is below 180° (half of a sum < 720, minus 180): both rotation angles
`Δθ = 30·exp(−((h̄'−275)/25)²)` are then tiny, which is why the two results differ by less than the
property's tolerance there. -/

theorem dtheta_small_code_branch (hb : ℝ) (h : 360 ≤ hb) :
    30 * Real.exp (-(((hb - 275) / 25) ^ 2)) ≤ 30 * Real.exp (-((17 / 5 : ℝ) ^ 2)) := by
  have h1 : (17 / 5 : ℝ) ≤ (hb - 275) / 25 := by linarith
  have h2 : (17 / 5 : ℝ) ^ 2 ≤ ((hb - 275) / 25) ^ 2 := by nlinarith
  have := Real.exp_le_exp.mpr (neg_le_neg h2)
  linarith

theorem dtheta_small_paper_branch (hb : ℝ) (h : hb < 180) :
    30 * Real.exp (-(((hb - 275) / 25) ^ 2)) ≤ 30 * Real.exp (-((19 / 5 : ℝ) ^ 2)) := by
  have h1 : (hb - 275) / 25 ≤ -(19 / 5 : ℝ) := by linarith
  have h2 : (19 / 5 : ℝ) ^ 2 ≤ ((hb - 275) / 25) ^ 2 := by nlinarith
  have := Real.exp_le_exp.mpr (neg_le_neg h2)
  linarith

end Pastel.C11
