/-
C14 — distinct: count kept, fixed colours untouched, farthest-first order
(property theorems about `Pastel/Model/Distinct.lean`).

All statements quantify over **every** stream of random draws, every parameter
set and every starting list.  No floats are involved except as opaque values
(`exp`, distances), so the statements hold at `Float`.
-/
import Pastel.Model.Distinct
import Pastel.Lemmas.Annealing
import Pastel.Lemmas.Rearrange
import Pastel.Order
import Pastel.FloatFns
import Pastel.Model.CliRun

namespace Pastel.C14
open Pastel

/-! ### `rearrange_sequence` -/

theorem swapList_perm {β : Type} (l : List β) (i j : Nat) : (swapList l i j).Perm l := by
  unfold swapList
  split
  · next a b ha hb =>
    have hi : i < l.length := (List.getElem?_eq_some_iff.mp ha).1
    have hj : j < l.length := (List.getElem?_eq_some_iff.mp hb).1
    have ea : a = l[i] := ((List.getElem?_eq_some_iff.mp ha).2).symm
    have eb : b = l[j] := ((List.getElem?_eq_some_iff.mp hb).2).symm
    subst ea; subst eb
    exact List.set_set_perm hi hj
  · exact List.Perm.refl _

theorem swapList_length {β : Type} (l : List β) (i j : Nat) : (swapList l i j).length = l.length :=
  (swapList_perm l i j).length_eq

/-- Swapping two positions `≥ 1` leaves the first element alone. -/
theorem swapList_head {β : Type} (l : List β) (i j : Nat) (hi : 1 ≤ i) (hj : 1 ≤ j) :
    (swapList l i j)[0]? = l[0]? := by
  unfold swapList
  split
  · rw [List.getElem?_set_ne (by omega), List.getElem?_set_ne (by omega)]
  · rfl

/-- The rearrangement is a permutation (of the index list it starts from). -/
theorem rearrangeLoop_perm (key : Nat → Nat → Int) (n : Nat) :
    ∀ (fuel i : Nat) (perm : List Nat) (md : List Int) (out : List Nat),
      rearrangeLoop key n fuel i perm md = some out → out.Perm perm := by
  intro fuel
  induction fuel with
  | zero => intro i perm md out h; simp [rearrangeLoop] at h; subst h; exact List.Perm.refl _
  | succ f ih =>
    intro i perm md out h
    unfold rearrangeLoop at h
    split at h
    · simp at h; subst h; exact List.Perm.refl _
    · simp only [] at h
      split at h
      · exact absurd h (by simp)
      · exact (ih _ _ _ _ h).trans (swapList_perm _ _ _)

/-- `rearrange_sequence` yields a permutation of the input positions. -/
theorem rearrange_perm (key : Nat → Nat → Int) (n : Nat) (out : List Nat)
    (h : rearrange key n = some out) : out.Perm (List.range n) :=
  rearrangeLoop_perm key n _ _ _ _ _ h

/-- The index tracked by the inner loop is always a position `≥ i` (or still the sentinel `n`). -/
theorem inner_maxI_ge (keyP : Nat → Nat → Int) (i n : Nat) (hin : i ≤ n) :
    ∀ (js : List Nat) (st : List Int × Nat × Int), (∀ j ∈ js, i ≤ j) → i ≤ st.2.1 →
      i ≤ (js.foldl (rearrangeInner keyP i n) st).2.1 := by
  intro js
  induction js with
  | nil => intro st _ h; exact h
  | cons j js ih =>
    intro st hjs hst
    simp only [List.foldl_cons]
    apply ih
    · intro j' hj'; exact hjs j' (List.mem_cons_of_mem _ hj')
    · obtain ⟨md, maxI, maxD⟩ := st
      simp only [rearrangeInner]
      split
      · exact hjs j (List.mem_cons_self)
      · exact hst

/-- The first colour stays first. -/
theorem rearrangeLoop_head (key : Nat → Nat → Int) (n : Nat) :
    ∀ (fuel i : Nat) (perm : List Nat) (md : List Int) (out : List Nat), 1 ≤ i →
      rearrangeLoop key n fuel i perm md = some out → out[0]? = perm[0]? := by
  intro fuel
  induction fuel with
  | zero => intro i perm md out _ h; simp [rearrangeLoop] at h; subst h; rfl
  | succ f ih =>
    intro i perm md out hi h
    unfold rearrangeLoop at h
    split at h
    · simp at h; subst h; rfl
    · next hlt =>
      simp only [] at h
      split at h
      · exact absurd h (by simp)
      · next hmax =>
        rw [ih _ _ _ _ (by omega) h]
        apply swapList_head _ _ _ hi
        have := inner_maxI_ge (fun a b => key (perm.getD a 0) (perm.getD b 0)) i n (by omega)
          ((List.range (n - i)).map (· + i)) (md, n, i32Min)
          (by intro j hj; simp at hj; obtain ⟨a, _, rfl⟩ := hj; omega) (by simp; omega)
        exact Nat.le_trans hi this

theorem rearrange_keeps_first (key : Nat → Nat → Int) (n : Nat) (out : List Nat)
    (h : rearrange key n = some out) : out[0]? = (List.range n)[0]? :=
  rearrangeLoop_head key n _ _ _ _ _ (Nat.le_refl 1) h

/-- Safe on the empty list and on a single colour, for every key. -/
theorem rearrange_len0 (key : Nat → Nat → Int) : rearrange key 0 = some [] := by
  simp [rearrange, rearrangeLoop]

theorem rearrange_len1 (key : Nat → Nat → Int) : rearrange key 1 = some [0] := by
  simp [rearrange, rearrangeLoop]

/-- Safe on two colours as soon as the key exceeds `i32::MIN` (keys are `(d·1000) as i32` of a
non-negative or NaN distance, i.e. `≥ 0`). -/
theorem rearrange_len2 (key : Nat → Nat → Int) (h : i32Min < key 1 0) :
    rearrange key 2 = some [0, 1] := by
  have h' : i32Min < min i32Max (key 1 0) := by
    simp only [i32Max, i32Min] at *; omega
  simp [rearrange, rearrangeLoop, rearrangeInner, List.range, List.range.loop, swapList, h']

/-! ### the annealing loop -/

/-- `random_range(low..high)` never returns less than `low`. -/
theorem drawRange_ge (low high : Nat) (d : Draws) : low ≤ (drawRange low high d).1 := by
  unfold drawRange
  simp only []
  split <;> simp <;> omega

/-- Committing or rejecting a proposal changes at most the colour at `idx`, and only into an
opaque 8-bit colour. -/
theorem commitMove_colors {α : Type} [ScT α] (big : α) (p : SaParams α) (st : SaState α) (idx : Nat)
    (rgb : UInt8 × UInt8 × UInt8) (d : Draws) :
    (commitMove big p st idx rgb d).colors = st.colors ∨
    (commitMove big p st idx rgb d).colors = st.colors.set idx (fromRgba8 rgb.1 rgb.2.1 rgb.2.2 1.0) := by
  unfold commitMove
  simp only []
  cases p.target <;> simp only [] <;> split <;> first | exact Or.inr rfl | exact Or.inl rfl

theorem cool_colors {α : Type} [Sc α] (p : SaParams α) (iter : Nat) (st : SaState α) :
    (cool p iter st).colors = st.colors := by
  unfold cool; split <;> rfl

/-- One iteration keeps the number of colours. -/
theorem saStep_length {α : Type} [ScT α] (big : α) (p : SaParams α) (st st' : SaState α) (iter : Nat)
    (h : saStep big p st iter = some st') : st'.colors.length = st.colors.length := by
  unfold saStep at h
  simp only [] at h
  split at h
  · exact absurd h (by simp)
  · simp only [Option.some.injEq] at h
    subst h
    rw [cool_colors]
    rcases commitMove_colors big p st _ _ _ with h | h <;> rw [h]
    simp

/-- One iteration changes at most the colour at the chosen index. -/
theorem saStep_only_idx {α : Type} [ScT α] (big : α) (p : SaParams α) (st st' : SaState α) (iter : Nat)
    (h : saStep big p st iter = some st') :
    ∀ i, i ≠ (chooseIndex p st).1 → st'.colors[i]? = st.colors[i]? := by
  intro i hi
  unfold saStep at h
  simp only [] at h
  split at h
  · exact absurd h (by simp)
  · simp only [Option.some.injEq] at h
    subst h
    rw [cool_colors]
    rcases commitMove_colors big p st _ _ _ with h | h <;> rw [h]
    rw [List.getElem?_set_ne (by omega)]

/-- Whatever is placed into a position is an opaque colour built from three bytes. -/
theorem saStep_new_colour_8bit {α : Type} [ScT α] (big : α) (p : SaParams α) (st st' : SaState α) (iter : Nat)
    (h : saStep big p st iter = some st') (i : Nat) :
    st'.colors[i]? = st.colors[i]? ∨ ∃ r g b : UInt8, st'.colors[i]? = some (fromRgba8 r g b 1.0) := by
  unfold saStep at h
  simp only [] at h
  split at h
  · exact absurd h (by simp)
  · next old hold =>
    simp only [Option.some.injEq] at h
    subst h
    rw [cool_colors]
    rcases commitMove_colors big p st _ _ _ with h | h <;> rw [h]
    · exact Or.inl rfl
    · by_cases hi : i = (chooseIndex p st).1
      · right
        have hlt : (chooseIndex p st).1 < st.colors.length := (List.getElem?_eq_some_iff.mp hold).1
        rw [hi, List.getElem?_set_self hlt]
        exact ⟨_, _, _, rfl⟩
      · left; rw [List.getElem?_set_ne (by omega)]

/-- A whole run keeps the number of colours, for every stream of draws. -/
theorem saRun_length {α : Type} [ScT α] (big : α) (p : SaParams α) (colors : List (Color α)) (d : Draws)
    (st : SaState α) (h : saRun big p colors d = some st) : st.colors.length = colors.length := by
  unfold saRun at h
  simp only [] at h
  split at h
  · simp at h; subst h; rfl
  · -- fold over the iterations with the invariant "length = colors.length"
    have key : ∀ (its : List Nat) (s0 : Option (SaState α)),
        (∀ s, s0 = some s → s.colors.length = colors.length) →
        ∀ s, its.foldl (fun st iter => st.bind (fun s => saStep big p s iter)) s0 = some s →
          s.colors.length = colors.length := by
      intro its
      induction its with
      | nil => intro s0 h0 s hs; exact h0 s hs
      | cons it its ih =>
        intro s0 h0 s hs
        simp only [List.foldl_cons] at hs
        apply ih _ _ s hs
        intro s1 hs1
        cases s0 with
        | none => simp at hs1
        | some s00 =>
          simp only [Option.bind_some] at hs1
          rw [saStep_length big p s00 s1 it hs1]
          exact h0 s00 rfl
    exact key _ _ (by intro s hs; simp at hs; subst hs; rfl) st h

/-- With the `mean` target the mutated index is never a fixed colour… -/
theorem chooseIndex_mean_free {α : Type} (p : SaParams α) (st : SaState α) (hp : p.target = .mean) :
    p.numFixed ≤ (chooseIndex p st).1 := by
  unfold chooseIndex
  simp only [hp, if_true]
  exact drawRange_ge _ _ _

/-- …and with the `min` target it is a member of the recorded closest pair that is free, provided
the pair contains a free colour (which is C15's `closest pair contains a free colour`). -/
theorem chooseIndex_min_free {α : Type} (p : SaParams α) (st : SaState α) (hp : p.target = .min)
    (hpair : p.numFixed ≤ st.result.pair.1 ∨ p.numFixed ≤ st.result.pair.2) :
    p.numFixed ≤ (chooseIndex p st).1 := by
  unfold chooseIndex
  simp only [hp]
  split
  · contradiction
  · split
    · next h => simp only []; omega
    · split
      · next h1 h2 => simp only []; omega
      · next h1 h2 =>
        simp only []
        split <;> omega

/-- Hence an iteration never touches the first `numFixed` colours (for the `min` target: as
long as the closest pair contains a free colour), whatever the random draws. -/
theorem saStep_fixed {α : Type} [ScT α] (big : α) (p : SaParams α) (st st' : SaState α) (iter : Nat)
    (hfree : p.target = .mean ∨ (p.numFixed ≤ st.result.pair.1 ∨ p.numFixed ≤ st.result.pair.2))
    (h : saStep big p st iter = some st') :
    ∀ i, i < p.numFixed → st'.colors[i]? = st.colors[i]? := by
  intro i hi
  apply saStep_only_idx big p st st' iter h
  have : p.numFixed ≤ (chooseIndex p st).1 := by
    rcases hfree with hm | hp
    · exact chooseIndex_mean_free p st hm
    · cases ht : p.target
      · exact chooseIndex_mean_free p st ht
      · exact chooseIndex_min_free p st ht hp
  omega

/-- **Whole runs.** For every stream of random draws, every parameter set (target, mode, metric
that is symmetric / NaN-free / bounded, temperatures, iteration count) and every starting list
with `numFixed ≤ n`: a run that returns (does not index out of bounds) leaves each of the first
`numFixed` colours exactly as it was.  For the `min` target this rests on C15: the table stays
exact, so the closest pair always contains a free colour. -/
theorem saRun_fixed {α : Type} [ScT α] [ScOrd α] (big : α) (p : SaParams α) (colors : List (Color α)) (d : Draws)
    (hm : MetricOk big p.metric) (hk : p.numFixed ≤ colors.length) (st : SaState α)
    (h : saRun big p colors d = some st) :
    ∀ i, i < p.numFixed → st.colors[i]? = colors[i]? := by
  unfold saRun at h
  simp only [] at h
  split at h
  · simp at h; subst h; intro i _; rfl
  · next hcond =>
    have hn : 2 ≤ colors.length := by omega
    have hkn : p.numFixed < colors.length := by omega
    -- fold invariant: the loop invariant and the fixed prefix
    have key : ∀ (its : List Nat) (s0 : Option (SaState α)),
        (∀ s, s0 = some s → SaInv big p colors.length s ∧ ∀ i, i < p.numFixed → s.colors[i]? = colors[i]?) →
        ∀ s, its.foldl (fun st iter => st.bind (fun s => saStep big p s iter)) s0 = some s →
          SaInv big p colors.length s ∧ ∀ i, i < p.numFixed → s.colors[i]? = colors[i]? := by
      intro its
      induction its with
      | nil => intro s0 h0 s hs; exact h0 s hs
      | cons it its ih =>
        intro s0 h0 s hs
        simp only [List.foldl_cons] at hs
        apply ih _ _ s hs
        intro s1 hs1
        cases s0 with
        | none => simp at hs1
        | some s00 =>
          simp only [Option.bind_some] at hs1
          obtain ⟨hinv, hfix⟩ := h0 s00 rfl
          refine ⟨saInv_step big p colors.length hm hn s00 s1 it hinv hs1, ?_⟩
          intro i hi
          have hfree := SaInv.pair_free big p colors.length hm s00 hinv hkn
          rw [saStep_fixed big p s00 s1 it (Or.inr hfree) hs1 i hi]
          exact hfix i hi
    exact (key _ _ (by
      intro s hs
      simp at hs; subst hs
      exact ⟨saInv_init big p colors d hm hn, fun i _ => rfl⟩) st h).2

/-- …and the table returned by the run is exact for the final colours (C15 at this site). -/
theorem saRun_result_exact {α : Type} [ScT α] [ScOrd α] (big : α) (p : SaParams α) (colors : List (Color α)) (d : Draws)
    (hm : MetricOk big p.metric) (hn : 2 ≤ colors.length) (st : SaState α)
    (h : saRun big p colors d = some st) :
    Exact (labDist p.metric st.labs) colors.length st.result.closest := by
  unfold saRun at h
  simp only [] at h
  split at h
  · simp at h; subst h
    exact (saInv_init big p colors d hm hn).exact
  · have key : ∀ (its : List Nat) (s0 : Option (SaState α)),
        (∀ s, s0 = some s → SaInv big p colors.length s) →
        ∀ s, its.foldl (fun st iter => st.bind (fun s => saStep big p s iter)) s0 = some s →
          SaInv big p colors.length s := by
      intro its
      induction its with
      | nil => intro s0 h0 s hs; exact h0 s hs
      | cons it its ih =>
        intro s0 h0 s hs
        simp only [List.foldl_cons] at hs
        apply ih _ _ s hs
        intro s1 hs1
        cases s0 with
        | none => simp at hs1
        | some s00 =>
          simp only [Option.bind_some] at hs1
          exact saInv_step big p colors.length hm hn s00 s1 it (h0 s00 rfl) hs1
    exact (key _ _ (by
      intro s hs
      simp at hs; subst hs
      exact saInv_init big p colors d hm hn) st h).exact


/-! ### Farthest-first order -/

/-- **`rearrange_sequence` is farthest-first**: in the returned order `out`, for every position
`k ≥ 1`, the colour at `k` has the largest minimal key to the colours before it among all colours
at positions `≥ k` (`key` = distance × 1000 truncated to `i32`: the 0.001 resolution of the
property; `minD key c pre` = smallest key from `c` to the colours in `pre`).  Loop invariants in
`Lemmas/Rearrange.lean` (`InnerSpec`, `OuterInv`). -/
theorem rearrange_farthest_first (key : Nat → Nat → Int) (n : Nat) (out : List Nat)
    (h : rearrange key n = some out) :
    ∀ k, 1 ≤ k → k < n → ∀ j, k ≤ j → j < n →
      minD key (out.getD j 0) (out.take k) ≤ minD key (out.getD k 0) (out.take k) :=
  Pastel.rearrange_farthest_first key n out h

/-- Non-vacuity: five points on a line at 0, 10, 1, 7, 4 — the order is 0, 10, then the point
farthest from both (4), then 7, then 1. -/
example : rearrange (fun a b => ((([0, 10, 1, 7, 4] : List Int).getD a 0) - (([0, 10, 1, 7, 4] : List Int).getD b 0)).natAbs) 5
    = some [0, 1, 4, 3, 2] := by decide


/-- **Safe on every length**: `rearrange_sequence` never swaps out of bounds when every key
exceeds `i32::MIN` (any key computed from a distance other than `−∞`; the distances of real
colours are non-negative, NaN casts to 0).  The lengths 0, 1, 2 named by the property are
instances (`rearrange_len0/1/2`). -/
theorem rearrange_total (key : Nat → Nat → Int) (hk : ∀ a b, i32Min < key a b) (n : Nat) :
    rearrange key n ≠ none :=
  Pastel.rearrange_total key hk n


/-! ### The same for IEEE binary64 (`ScOrd Float` is proved from `Float.Model`) -/

/-- On IEEE floats: a returning annealing run never changes a fixed colour. -/
theorem float_saRun_fixed (big : Float) (p : SaParams Float) (colors : List (Color Float)) (d : Draws)
    (hm : MetricOk big p.metric) (hk : p.numFixed ≤ colors.length) (st : SaState Float)
    (h : saRun big p colors d = some st) : ∀ i, i < p.numFixed → st.colors[i]? = colors[i]? :=
  saRun_fixed big p colors d hm hk st h

/-! ### At the command line (CLI model) -/

section clirun
open Pastel.Cli

/-- **`pastel distinct N fixed…` at the command line** (on the CLI model): it prints exactly `N`
lines when `N ≥ 2` is a readable count, every fixed colour can be read and there are at most `N` of
them; otherwise nothing is printed and the error is, in this order: unreadable count, count below
two, the first unreadable fixed colour, more fixed colours than `N`. -/
theorem distinct_cli (n : String) (fixed : List String) (stdin : List StdinLine) :
    (∀ count cs, parseUsize n.toList = some count → 2 ≤ count → collectArgs fixed stdin = .ok cs → cs.length ≤ count →
      (run "distinct" [n, "0"] fixed stdin).lines.length = count ∧ (run "distinct" [n, "0"] fixed stdin).err = none) ∧
    (parseUsize n.toList = none → run "distinct" [n, "0"] fixed stdin = fail (.couldNotParseNumber n)) ∧
    (∀ count, parseUsize n.toList = some count → count < 2 → run "distinct" [n, "0"] fixed stdin = fail .distinctCount) ∧
    (∀ count e, parseUsize n.toList = some count → 2 ≤ count → collectArgs fixed stdin = .error e →
      run "distinct" [n, "0"] fixed stdin = fail e) ∧
    (∀ count cs, parseUsize n.toList = some count → 2 ≤ count → collectArgs fixed stdin = .ok cs → count < cs.length →
      run "distinct" [n, "0"] fixed stdin = fail .distinctFixed) := by
  have hrun : run "distinct" [n, "0"] fixed stdin = runDistinct [n, "0"] fixed stdin := by
    unfold run
    simp only [show ("distinct" = "mix") = False by decide, show ("distinct" = "gray") = False by decide,
      show ("distinct" = "gradient") = False by decide, show ("distinct" = "sort-by") = False by decide,
      show ("distinct" = "paint") = False by decide, show ("distinct" = "random") = False by decide, if_false, if_true]
  rw [hrun]
  refine ⟨?_, ?_, ?_, ?_, ?_⟩
  · intro count cs hp h2 hc hl
    unfold runDistinct
    simp only [hp, hc]
    rw [if_neg (by omega), if_neg (by omega)]
    simp
  · intro hp; unfold runDistinct; simp only [hp]
  · intro count hp h2; unfold runDistinct; simp only [hp]; rw [if_pos h2]
  · intro count e hp h2 hc; unfold runDistinct; simp only [hp, hc]; rw [if_neg (by omega)]
  · intro count cs hp h2 hc hl; unfold runDistinct; simp only [hp, hc]; rw [if_neg (by omega), if_pos hl]

end clirun

end Pastel.C14
