/-
C17 — sort-by and list (property theorems; discrete).

The keys are integers (`(property · 1000) as i32`), so everything here is exact.
-/
import Pastel.Model.Cli
import Pastel.Model.CliRun

namespace Pastel.C17
open Pastel

def leKey (k : SortItem → Int) : SortItem → SortItem → Bool := fun a b => decide (k a ≤ k b)

theorem leKey_trans (k : SortItem → Int) : ∀ a b c, leKey k a b → leKey k b c → leKey k a c := by
  intro a b c h1 h2
  simp only [leKey, decide_eq_true_eq] at *
  omega

theorem leKey_total (k : SortItem → Int) : ∀ a b, leKey k a b || leKey k b a := by
  intro a b
  simp only [leKey, Bool.or_eq_true, decide_eq_true_eq]
  omega

/-- Without `--unique` the output is a permutation of the input colours… -/
theorem sort_perm (reverse : Bool) (items : List SortItem) :
    (sortCmd false reverse items).Perm items := by
  unfold sortCmd stableSortBy
  simp only [Bool.false_eq_true, if_false]
  split
  · exact (List.reverse_perm _).trans (List.mergeSort_perm _ _)
  · exact List.mergeSort_perm _ _

/-- …in non-decreasing order of the integer key… -/
theorem sort_sorted (items : List SortItem) :
    (sortCmd false false items).Pairwise (fun a b => a.key ≤ b.key) := by
  unfold sortCmd stableSortBy
  simp only [Bool.false_eq_true, if_false]
  have := List.pairwise_mergeSort (le := fun (a b : SortItem) => decide (a.key ≤ b.key))
    (by intro a b c h1 h2; simp only [decide_eq_true_eq] at *; omega)
    (by intro a b; simp only [Bool.or_eq_true, decide_eq_true_eq]; omega) items
  simpa using this

/-- …with equal keys keeping their input order (stability): if `a` precedes `b` in the input and
`key a ≤ key b`, then `a` precedes `b` in the output. -/
theorem sort_stable (items : List SortItem) (a b : SortItem) (hab : a.key ≤ b.key)
    (h : [a, b].Sublist items) : [a, b].Sublist (sortCmd false false items) := by
  unfold sortCmd stableSortBy
  simp only [Bool.false_eq_true, if_false]
  exact List.pair_sublist_mergeSort (le := fun (a b : SortItem) => decide (a.key ≤ b.key))
    (by intro a b c h1 h2; simp only [decide_eq_true_eq] at *; omega)
    (by intro a b; simp only [Bool.or_eq_true, decide_eq_true_eq]; omega)
    (by simp [hab]) h

/-- `--reverse` prints the exact reverse of the sequence printed without it. -/
theorem sort_reverse (unique : Bool) (items : List SortItem) :
    sortCmd unique true items = (sortCmd unique false items).reverse := by
  unfold sortCmd; simp

/-- `dedup_by_key` yields a sublist… -/
theorem dedup_go_sublist (k : SortItem → Nat) : ∀ (l : List SortItem) (last : SortItem),
    (dedupByKey.go k last l).Sublist l := by
  intro l
  induction l with
  | nil => intro _; exact List.Sublist.slnil
  | cons y ys ih =>
    intro last
    unfold dedupByKey.go
    split
    · exact (ih last).cons y
    · exact (ih y).cons_cons y

theorem dedup_sublist (k : SortItem → Nat) (l : List SortItem) : (dedupByKey k l).Sublist l := by
  cases l with
  | nil => exact List.Sublist.slnil
  | cons x xs => unfold dedupByKey; exact (dedup_go_sublist k xs x).cons_cons x

/-- …that still contains a representative of every key. -/
theorem dedup_go_covers (k : SortItem → Nat) : ∀ (l : List SortItem) (last : SortItem) (x : SortItem),
    x ∈ l → k x = k last ∨ ∃ y ∈ dedupByKey.go k last l, k y = k x := by
  intro l
  induction l with
  | nil => intro _ x hx; cases hx
  | cons y ys ih =>
    intro last x hx
    unfold dedupByKey.go
    rcases List.mem_cons.mp hx with rfl | hx
    · split
      · next h => exact Or.inl h
      · exact Or.inr ⟨x, List.mem_cons_self, rfl⟩
    · split
      · exact ih last x hx
      · rcases ih y x hx with h | ⟨z, hz, hzk⟩
        · exact Or.inr ⟨y, List.mem_cons_self, h.symm⟩
        · exact Or.inr ⟨z, List.mem_cons_of_mem _ hz, hzk⟩

theorem dedup_covers (k : SortItem → Nat) (l : List SortItem) (x : SortItem) (hx : x ∈ l) :
    ∃ y ∈ dedupByKey k l, k y = k x := by
  cases l with
  | nil => cases hx
  | cons a as =>
    unfold dedupByKey
    rcases List.mem_cons.mp hx with rfl | hx
    · exact ⟨x, List.mem_cons_self, rfl⟩
    · rcases dedup_go_covers k as a x hx with h | ⟨z, hz, hzk⟩
      · exact ⟨a, List.mem_cons_self, h.symm⟩
      · exact ⟨z, List.mem_cons_of_mem _ hz, hzk⟩

/-- With `--unique` every distinct RGB value of the input is still represented, and every
printed colour is one of the input colours. -/
theorem sort_unique_covers (reverse : Bool) (items : List SortItem) (x : SortItem) (hx : x ∈ items) :
    ∃ y ∈ sortCmd true reverse items, y.packed = x.packed := by
  unfold sortCmd stableSortBy
  simp only [if_true]
  have hx' : x ∈ items.mergeSort (fun a b => decide ((a.packed : Int) ≤ (b.packed : Int))) := List.mem_mergeSort.mpr hx
  obtain ⟨y, hy, hyk⟩ := dedup_covers (·.packed) _ x hx'
  refine ⟨y, ?_, hyk⟩
  split
  · exact List.mem_reverse.mpr (List.mem_mergeSort.mpr hy)
  · exact List.mem_mergeSort.mpr hy

theorem sort_unique_subset (reverse : Bool) (items : List SortItem) (y : SortItem)
    (hy : y ∈ sortCmd true reverse items) : y ∈ items := by
  unfold sortCmd stableSortBy at hy
  simp only [if_true] at hy
  have h1 : y ∈ dedupByKey (·.packed) (items.mergeSort (fun a b => decide ((a.packed : Int) ≤ (b.packed : Int)))) := by
    split at hy
    · exact List.mem_mergeSort.mp (List.mem_reverse.mp hy)
    · exact List.mem_mergeSort.mp hy
  exact List.mem_mergeSort.mp ((dedup_sublist _ _).subset h1)

/-- `list`: only rows of the table are printed, every distinct RGB value is represented, in
non-decreasing key order before the adjacent-duplicate removal. -/
theorem list_subset (items : List SortItem) (y : SortItem) (hy : y ∈ listCmd items) : y ∈ items := by
  unfold listCmd stableSortBy at hy
  exact List.mem_mergeSort.mp ((dedup_sublist _ _).subset hy)

theorem list_covers (items : List SortItem) (x : SortItem) (hx : x ∈ items) :
    ∃ y ∈ listCmd items, y.packed = x.packed := by
  unfold listCmd stableSortBy
  exact dedup_covers (·.packed) _ x (List.mem_mergeSort.mpr hx)

theorem list_sorted (items : List SortItem) : (listCmd items).Pairwise (fun a b => a.key ≤ b.key) := by
  unfold listCmd stableSortBy
  have := List.pairwise_mergeSort (le := fun (a b : SortItem) => decide (a.key ≤ b.key))
    (by intro a b c h1 h2; simp only [decide_eq_true_eq] at *; omega)
    (by intro a b; simp only [Bool.or_eq_true, decide_eq_true_eq]; omega) items
  have h2 : (items.mergeSort (fun (a b : SortItem) => decide (a.key ≤ b.key))).Pairwise (fun a b => a.key ≤ b.key) := by
    simpa using this
  exact h2.sublist (dedup_sublist _ _)

/-- Non-vacuity: three colours, two with equal keys, keep their input order. -/
example : (sortCmd false false [⟨0, 5, 7⟩, ⟨1, 9, 3⟩, ⟨2, 4, 7⟩]).map (·.tag) = [1, 0, 2] := by
  simp [sortCmd, stableSortBy, List.mergeSort, List.merge, List.MergeSort.Internal.splitInTwo]

/-! ### The command line: `sort-by` prints the input colours as a multiset -/

section clirun
open Pastel.Cli

/-- The items `sort-by` builds from the collected colours carry their positions as tags. -/
theorem items_show (order : String) (cs : List Col) :
    ((cs.zipIdx).map fun ci => ({ tag := ci.2, packed := packedOf ci.1, key := sortKeyOf order ci.1 } : SortItem)).map
      (fun it => match cs[it.tag]? with | some c => showColor c | none => "") = cs.map showColor := by
  rw [List.map_map]
  apply List.ext_getElem?
  intro i
  simp only [List.getElem?_map, List.getElem?_zipIdx]
  cases h : cs[i]? with
  | none => simp
  | some c => simp [h]

/-- **`pastel sort-by <key>` (without `--unique`) prints exactly the input colours, as a multiset**:
whenever all colours can be read (arguments, `-`, or stdin lines), the printed lines are a
permutation of the lines `pastel color` prints for them, with and without `--reverse`. -/
theorem sort_cli_perm (order r : String) (colors : List String) (stdin : List StdinLine) (cs : List Col)
    (h : (if colors.isEmpty then collectStdin stdin else collectArgs colors stdin) = .ok cs) :
    (run "sort-by" [order, "0", r] colors stdin).err = none ∧
    (run "sort-by" [order, "0", r] colors stdin).lines.Perm (cs.map showColor) := by
  have hrun : run "sort-by" [order, "0", r] colors stdin = runSort [order, "0", r] colors stdin := by
    unfold run
    simp only [show ("sort-by" = "mix") = False by decide, show ("sort-by" = "gray") = False by decide,
      show ("sort-by" = "gradient") = False by decide, if_false, if_true]
  rw [hrun]
  unfold runSort
  simp only [h]
  refine ⟨trivial, ?_⟩
  have hu : (("0" : String) = "1") = False := by decide
  simp only [hu, decide_false]
  have hp := sort_perm (decide (r = "1")) ((cs.zipIdx).map fun ci => ({ tag := ci.2, packed := packedOf ci.1, key := sortKeyOf order ci.1 } : SortItem))
  have := hp.map (fun it => match cs[it.tag]? with | some c => showColor c | none => "")
  rw [items_show] at this
  exact this

end clirun

end Pastel.C17
