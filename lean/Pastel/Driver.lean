/-
Line-protocol driver: one operation per input line, one result per output line
(DESIGN.md §8).  Compiled as the `pastel-model` executable; imports no Mathlib.
-/
import Pastel.FloatFns
import Pastel.Model.Color
import Pastel.Model.DeltaE
import Pastel.Wire
import Pastel.Ops

namespace Pastel

partial def loop (hin : IO.FS.Stream) (hout : IO.FS.Stream) (st : OpState) (buf : String) (n : Nat) :
    IO Unit := do
  let line ← hin.getLine
  if line.isEmpty then
    hout.putStr buf
    hout.flush
    return ()
  let toks := (line.trimAscii.toString.splitOn " ").filter (· ≠ "")
  let (st', out) := runOp st toks
  let buf := buf ++ out ++ "\n"
  if n ≥ 2000 then
    hout.putStr buf
    loop hin hout st' "" 0
  else
    loop hin hout st' buf (n + 1)

end Pastel

def main : IO Unit := do
  let hin ← IO.getStdin
  let hout ← IO.getStdout
  Pastel.loop hin hout {} "" 0
