/-
Dispatch of protocol operations onto the model (read at `Float`).
-/
import Pastel.FloatFns
import Pastel.Model.Color
import Pastel.Model.DeltaE
import Pastel.Wire
import Pastel.Model.Distinct
import Pastel.Model.SetCmd
import Pastel.Model.Scale
import Pastel.Model.Ansi
import Pastel.Model.Format
import Pastel.Model.Parser
import Pastel.Model.Cli
import Pastel.Model.CliRun

namespace Pastel
open Wire

/-- State of the stateful protocol blocks (`scale …`, `dr …`); extended by later modules. -/
structure OpState where
  drLabs : List (Lab3 Float) := []
  drMetric : Metric := .cie76
  drRes : Option (DistanceResult Float) := none
  scale : List (Stop Float (Color Float)) := []

/-- `f64::MAX`. -/
def f64Max : Float := Float.ofBits 0x7fefffffffffffff

def bad : String := "err:bad-op"

def spaceOf : String → Option Space
  | "rgb" => some .rgb | "hsl" => some .hsl | "hsv" => some .hsv
  | "lab" => some .lab | "lch" => some .lch | "oklab" => some .oklab
  | _ => none

def opFrom (kind : String) (args : List String) : String :=
  match kind with
  | "rgba8" =>
    match args with
    | [r, g, b, a] =>
      match parseB r, parseB g, parseB b, parseF a with
      | some r, some g, some b, some a => "ok " ++ showC (fromRgba8 r g b a)
      | _, _, _, _ => bad
    | _ => bad
  | "u32" =>
    match args with
    | [n] => match n.toNat? with
      | some n => "ok " ++ showC (fromU32 (α := Float) n)
      | none => bad
    | _ => bad
  | _ =>
    match parse4F args with
    | some (a, b, c, d, []) =>
      match kind with
      | "hsla" => "ok " ++ showC (fromHsla a b c d)
      | "hsva" => "ok " ++ showC (fromHsva a b c d)
      | "rgbaf" => "ok " ++ showC (fromRgbaFloat a b c d)
      | "xyz" => "ok " ++ showC (fromXyz a b c d)
      | "lms" => "ok " ++ showC (fromLms a b c d)
      | "lab" => "ok " ++ showC (fromLab a b c d)
      | "lch" => "ok " ++ showC (fromLch a b c d)
      | "oklab" => "ok " ++ showC (fromOklab a b c d)
      | "cmyk" => "ok " ++ showC (fromCmyk a b c d)
      | _ => bad
    | _ => bad

def opTo (kind : String) (args : List String) : String :=
  match parseC args with
  | some (c, []) =>
    match kind with
    | "hsla" => "ok " ++ showQ (toHsla c)
    | "hsva" => "ok " ++ showQ (toHsva c)
    | "rgbaf" => "ok " ++ showQ (toRgbaFloat c)
    | "xyz" => "ok " ++ showQ (toXyz c)
    | "lms" => "ok " ++ showQ (toLms c)
    | "lab" => "ok " ++ showQ (toLab c)
    | "lch" => "ok " ++ showQ (toLch c)
    | "oklab" => "ok " ++ showQ (toOklab c)
    | "rgba8" =>
      let q := toRgba8 c
      s!"ok {q.r.toNat} {q.g.toNat} {q.b.toNat} {showF q.alpha}"
    | "cmyk" =>
      let q := toCmyk c
      s!"ok {showF q.c} {showF q.m} {showF q.y} {showF q.k}"
    | "u32" => s!"ok {toU32 c}"
    | _ => bad
  | _ => bad

def opAdj (kind : String) (args : List String) : String :=
  match parseC args with
  | some (c, rest) =>
    let amount : Option Float := match rest with
      | [f] => parseF f
      | _ => none
    match kind, amount, rest with
    | "lighten", some f, _ => "ok " ++ showC (lighten c f)
    | "darken", some f, _ => "ok " ++ showC (darken c f)
    | "saturate", some f, _ => "ok " ++ showC (saturate c f)
    | "desaturate", some f, _ => "ok " ++ showC (desaturate c f)
    | "rotate", some f, _ => "ok " ++ showC (rotateHue c f)
    | "complement", _, [] => "ok " ++ showC (complementary c)
    | "togray", _, [] => "ok " ++ showC (toGray c)
    | "textcolor", _, [] => "ok " ++ showC (textColor c)
    | "cb:prot", _, [] => "ok " ++ showC (simulateColorblindness c .prot)
    | "cb:deuter", _, [] => "ok " ++ showC (simulateColorblindness c .deuter)
    | "cb:trit", _, [] => "ok " ++ showC (simulateColorblindness c .trit)
    | _, _, _ => bad
  | none => bad

def lab3 (q : Quad Float) : Lab3 Float := { l := q.x, a := q.y, b := q.z }

def opNum (kind : String) (args : List String) : String :=
  match parseC args with
  | some (c, rest) =>
    match kind, rest with
    | "luminance", [] => "ok " ++ showF (luminance c)
    | "brightness", [] => "ok " ++ showF (brightness c)
    | _, _ =>
      match parseC rest with
      | some (d, []) =>
        match kind with
        | "contrast" => "ok " ++ showF (contrastRatio c d)
        | "cie76" => "ok " ++ showF (cie76 (lab3 (toLab c)) (lab3 (toLab d)))
        | "ciede2000" => "ok " ++ showF (ciede2000 (lab3 (toLab c)) (lab3 (toLab d)))
        | _ => bad
      | _ => bad
  | none => bad

def opDe (kind : String) (args : List String) : String :=
  match args.mapM parseF with
  | some [l1, a1, b1, l2, a2, b2] =>
    let x : Lab3 Float := { l := l1, a := a1, b := b1 }
    let y : Lab3 Float := { l := l2, a := a2, b := b2 }
    match kind with
    | "cie76" => "ok " ++ showF (cie76 x y)
    | "ciede2000" => "ok " ++ showF (ciede2000 x y) ++ " #" ++ ciede2000Tag x y
    | "sharma" => "ok " ++ showF (ciede2000Sharma x y) ++ " #" ++ ciede2000Tag x y ++
        (if ciede2000AtDiscontinuity x y then " #!exempt" else "")
    | _ => bad
  | _ => bad

def opMix (sp : String) (args : List String) : String :=
  match spaceOf sp, parseC args with
  | some sp, some (c1, rest) =>
    match parseC rest with
    | some (c2, [f]) =>
      match parseF f with
      | some f => "ok " ++ showC (mix sp c1 c2 (fraction f))
      | none => bad
    | _ => bad
  | _, _ => bad

def opComp (args : List String) : String :=
  match parseC args with
  | some (bd, rest) =>
    match parseC rest with
    | some (src, []) => "ok " ++ showC (composite bd src)
    | _ => bad
  | none => bad

def metricOf : String → Option Metric
  | "cie76" => some .cie76 | "ciede2000" => some .ciede2000 | _ => none

def showIdx (i : Nat) : String := if i = usizeMax then "max" else toString i

def showDr (r : DistanceResult Float) : String :=
  let es := r.closest.map fun e => s!"{showF e.1} {showIdx e.2}"
  "ok " ++ " ".intercalate es ++ s!" {showF r.mean} {showF r.min} {showIdx r.pair.1} {showIdx r.pair.2}"

def parseLabs : Nat → List String → Option (List (Lab3 Float) × List String)
  | 0, rest => some ([], rest)
  | n + 1, a :: b :: c :: rest => do
    let l ← parseF a; let x ← parseF b; let y ← parseF c
    let (ls, rest) ← parseLabs n rest
    pure ({ l := l, a := x, b := y } :: ls, rest)
  | _, _ => none

def parseColors : Nat → List String → Option (List (Color Float) × List String)
  | 0, rest => some ([], rest)
  | n + 1, toks => do
    let (c, rest) ← parseC toks
    let (cs, rest) ← parseColors n rest
    pure (c :: cs, rest)

def opDr (st : OpState) (args : List String) : OpState × String :=
  match args with
  | "new" :: m :: k :: n :: rest =>
    match metricOf m, k.toNat?, n.toNat? with
    | some m, some k, some n =>
      match parseLabs n rest with
      | some (labs, []) =>
        let r := drNew f64Max (labDist m labs) n k
        ({ st with drLabs := labs, drMetric := m, drRes := some r }, showDr r)
      | _ => (st, bad)
    | _, _, _ => (st, bad)
  | ["update", i, a, b, c] =>
    match i.toNat?, parseF a, parseF b, parseF c, st.drRes with
    | some i, some a, some b, some c, some r =>
      let labs := st.drLabs.set i { l := a, a := b, b := c }
      let r' := drUpdate f64Max (labDist st.drMetric labs) labs.length r i
      ({ st with drLabs := labs, drRes := some r' }, showDr r')
    | _, _, _, _, _ => (st, bad)
  | _ => (st, bad)

def opSa (args : List String) : String :=
  match args with
  | tgt :: mode :: m :: k :: iters :: t0 :: cool :: nd :: rest =>
    match metricOf m, k.toNat?, iters.toNat?, parseF t0, parseF cool, nd.toNat? with
    | some m, some k, some iters, some t0, some cool, some nd =>
      let draws := (rest.take nd).filterMap String.toNat?
      match (rest.drop nd) with
      | n :: crest =>
        match n.toNat? with
        | some n =>
          match parseColors n crest with
          | some (cols, []) =>
            let p : SaParams Float := {
              initialTemperature := t0, coolingRate := cool, numIterations := iters,
              target := if tgt = "min" then .min else .mean,
              mode := if mode = "local" then .local else .global,
              metric := m, numFixed := k }
            match saRun f64Max p cols { rest := draws } with
            | none => "panic"
            | some s => "ok " ++ " ".intercalate (s.colors.map showC) ++ " | " ++ (showDr s.result).drop 3
          | _ => bad
        | none => bad
      | _ => bad
    | _, _, _, _, _, _ => bad
  | _ => bad

def opRearr (args : List String) : String :=
  match args with
  | m :: n :: rest =>
    match metricOf m, n.toNat? with
    | some m, some n =>
      match parseColors n rest with
      | some (cols, []) =>
        let labs := cols.map lab3Of
        let key := fun a b => Sc.toI32 (labDist m labs a b * 1000.0)
        match rearrange key n with
        | none => "panic"
        | some perm => "ok " ++ " ".intercalate (perm.map toString)
      | _ => bad
    | _, _ => bad
  | _ => bad

def opSet (args : List String) : String :=
  match args with
  | p :: v :: rest =>
    match setPropOfString p, parseF v, parseC rest with
    | some p, some v, some (c, []) => "ok " ++ showC (setProp p v c)
    | _, _, _ => bad
  | _ => bad

def opScale (st : OpState) (args : List String) : OpState × String :=
  match args with
  | ["new"] => ({ st with scale := [] }, "ok")
  | "add" :: p :: rest =>
    match parseF p, parseC rest with
    | some p, some (c, []) => ({ st with scale := addStop st.scale c (fraction p) }, "ok")
    | _, _ => (st, bad)
  | ["dump"] =>
    let items := st.scale.map fun s =>
      let q := toRgba8 s.1
      s!"{showF s.2} {q.r.toNat} {q.g.toNat} {q.b.toNat}"
    (st, s!"ok {st.scale.length}" ++ (if items.isEmpty then "" else " " ++ " ".intercalate items))
  | ["sample", p, sp] =>
    match parseF p, spaceOf sp with
    | some p, some sp =>
      match sampleScale st.scale (fraction p) (fun a b f => mix sp a b f) with
      | none => (st, "none")
      | some c => (st, "ok " ++ showC c)
    | _, _ => (st, bad)
  | _ => (st, bad)

/-- The Lab table of the 240 candidates at `Float`, computed once at start-up. -/
def ansiLabTableFloat : List (Nat × Lab3 Float) := ansiLabTable

def quantF (c : Color Float) : Nat := toAnsiWith ansiLabTableFloat c

def optColor : List String → Option (Option (Color Float) × List String)
  | "-" :: rest => some (none, rest)
  | "c" :: rest => (parseC rest).map fun (c, r) => (some c, r)
  | _ => none

def opAnsi (args : List String) : String :=
  match args with
  | ["from", b] =>
    match b.toNat? with
    | some b => let c := fromAnsi b; s!"ok {c.1} {c.2.1} {c.2.2}"
    | none => bad
  | "to" :: rest =>
    match parseC rest with
    | some (c, []) => s!"ok {quantF c}"
    | _ => bad
  | "seq" :: m :: rest =>
    match parseC rest with
    | some (c, []) =>
      let mode := if m = "8" then AnsiMode.ansi8 else .trueColor
      "ok " ++ showStr (toAnsiSequence quantF c mode)
    | _ => bad
  | _ => bad

/-- `style <fg> <bg> <biu bits> <8|24|off> <text>` -/
def opStyle (args : List String) : String :=
  match optColor args with
  | some (fg, rest) =>
    match optColor rest with
    | some (bg, [bits, m, text]) =>
      match bits.toNat?, parseStr text with
      | some bits, some text =>
        let st : Style Float := { foreground := fg, background := bg, bold := bits % 2 = 1,
                                  italic := bits / 2 % 2 = 1, underline := bits / 4 % 2 = 1 }
        let mode : Option AnsiMode := if m = "8" then some .ansi8 else if m = "24" then some .trueColor else none
        "ok " ++ showStr (paint quantF mode text st)
      | _, _ => bad
    | _ => bad
  | none => bad

def optStr (s : String) : Option (Option String) :=
  if s = "~" then some none else (parseStr s).map some

/-- `mode <force 0/1> <flag> <tty 0/1> <PASTEL_COLOR_MODE|~> <NO_COLOR set 0/1> <COLORTERM|~>` -/
def opMode (args : List String) : String :=
  match args with
  | [force, flag, tty, pcm, nocolor, ct] =>
    let flag? : Option ModeFlag := match flag with
      | "auto" => some .auto | "24bit" => some .m24bit | "8bit" => some .m8bit | "off" => some .off | _ => none
    match flag?, optStr pcm, optStr ct with
    | some flag, some pcm, some ct =>
      match decideMode (force = "1") flag (tty = "1") pcm (nocolor = "1") ct with
      | .ok (some .trueColor) => "ok 24"
      | .ok (some .ansi8) => "ok 8"
      | .ok none => "ok off"
      | .error v => "err:mode " ++ showStr v
    | _, _, _ => bad
  | _ => bad

/-- `fmt <notation> <sp|nosp> C` and the raw number formatters `fmt fixed N F`, `fmt shortest F`,
`fmt maxprec N F`. -/
def opFmt (args : List String) : String :=
  match args with
  | ["fixed", n, x] =>
    match n.toNat?, parseF x with
    | some n, some x => "ok " ++ showStr (Fmt.fixed x n)
    | _, _ => bad
  | ["shortest", x] =>
    match parseF x with
    | some x => "ok " ++ showStr (Fmt.shortest x)
    | none => bad
  | ["maxprec", n, x] =>
    match n.toNat?, parseF x with
    | some n, some x => "ok " ++ showStr (Fmt.maxPrecision n x)
    | _, _ => bad
  | kind :: spc :: rest =>
    match parseC rest with
    | some (c, []) =>
      let spaces := spc = "sp"
      let out : Option String := match kind with
        | "hex" => some (Fmt.hexString c true)
        | "hexnohash" => some (Fmt.hexString c false)
        | "rgb" => some (Fmt.rgbString c spaces)
        | "rgbf" => some (Fmt.rgbFloatString c spaces)
        | "hsl" => some (Fmt.hslString c spaces)
        | "hsv" => some (Fmt.hsvString c spaces)
        | "lab" => some (Fmt.labString c spaces)
        | "lch" => some (Fmt.lchString c spaces)
        | "oklab" => some (Fmt.oklabString c spaces)
        | "cmyk" => some (Fmt.cmykString c spaces)
        | _ => none
      match out with
      | some s => "ok " ++ showStr s
      | none => bad
    | _ => bad
  | _ => bad

/-- `parse <hex utf8>` -/
def opParse (args : List String) : String :=
  match args with
  | [t] =>
    match parseStr t with
    | some str =>
      match P.parseColor str.toList with
      | some c => "ok " ++ showC c
      | none => "none"
    | none => bad
  | _ => bad

def parseItems : Nat → Nat → List String → Option (List SortItem)
  | 0, _, [] => some []
  | n + 1, i, p :: k :: rest => do
    let p ← p.toNat?
    let k ← k.toInt?
    let items ← parseItems n (i + 1) rest
    pure ({ tag := i, packed := p, key := k } :: items)
  | _, _, _ => none

/-- `sort <unique> <reverse> n (packed key)*` / `list n (packed key)*` -/
def opSort (args : List String) : String :=
  match args with
  | u :: r :: n :: rest =>
    match n.toNat? with
    | some n =>
      match parseItems n 0 rest with
      | some items => "ok " ++ " ".intercalate ((sortCmd (u = "1") (r = "1") items).map (toString ·.tag))
      | none => bad
    | none => bad
  | _ => bad

def opList (args : List String) : String :=
  match args with
  | n :: rest =>
    match n.toNat? with
    | some n =>
      match parseItems n 0 rest with
      | some items => "ok " ++ " ".intercalate ((listCmd items).map (toString ·.tag))
      | none => bad
    | none => bad
  | _ => bad

def opName (args : List String) : String :=
  match parseC args with
  | some (c, []) => "ok " ++ showStr (nearestName cssNamed c)
  | _ => bad

def opRand (args : List String) : String :=
  match args with
  | strat :: nd :: rest =>
    match nd.toNat? with
    | some nd =>
      let d : Draws := { rest := (rest.take nd).filterMap String.toNat? }
      match strat with
      | "vivid" => "ok " ++ showC (randVivid (α := Float) d).1
      | "rgb" => "ok " ++ showC (randRgb (α := Float) d).1
      | "gray" => "ok " ++ showC (randGray (α := Float) d).1
      | "lch_hue" => "ok " ++ showC (randLchHue (α := Float) d).1
      | _ => bad
    | none => bad
  | _ => bad

def parseStrs : Nat → List String → Option (List String × List String)
  | 0, rest => some ([], rest)
  | n + 1, t :: rest => do
    let s ← parseStr t
    let (ss, rest) ← parseStrs n rest
    pure (s :: ss, rest)
  | _, [] => none

def parseStdin : Nat → List String → Option (List Cli.StdinLine × List String)
  | 0, rest => some ([], rest)
  | n + 1, t :: rest => do
    let l ← if t = "!" then some Cli.StdinLine.invalidUtf8 else (parseStr t).map Cli.StdinLine.text
    let (ls, rest) ← parseStdin n rest
    pure (l :: ls, rest)
  | _, [] => none

def errClass : Cli.Err → String
  | .colorParse _ => "color-parse" | .colorInvalidUtf8 => "invalid-utf8"
  | .couldNotReadFromStdin => "no-stdin" | .colorArgRequired => "color-arg-required"
  | .couldNotParseNumber _ => "number" | .noColorPickerFound => "no-picker" | .stdoutClosed => "stdout-closed"
  | .gradientNumber => "other" | .gradientColorCount => "other" | .distinctCount => "other" | .distinctFixed => "other"

/-- `cli <sub> <nargs> args… <ncolors> colors… <nstdin> lines…` → `ok <exit> <stdout> <class> <message>` -/
def opCli (args : List String) : String :=
  match args with
  | sub :: na :: rest =>
    match na.toNat? with
    | some na =>
      match parseStrs na rest with
      | some (cargs, nc :: rest2) =>
        match nc.toNat? with
        | some nc =>
          match parseStrs nc rest2 with
          | some (cols, ns :: rest3) =>
            match ns.toNat? with
            | some ns =>
              match parseStdin ns rest3 with
              | some (lines, []) =>
                let o := Cli.run sub cargs cols lines
                let stdout := String.ofList (o.lines.flatMap fun l => l.toList ++ ['\n']) ++ o.tail
                let (cls, msg) := match o.err with
                  | none => ("-", "")
                  | some e => (errClass e, e.message)
                s!"ok {o.exitCode} {showStr stdout} {cls} {showStr msg}"
              | _ => bad
            | none => bad
          | _ => bad
        | none => bad
      | _ => bad
    | none => bad
  | _ => bad

/-- `gradient <space> <count> <k> (C)^k` → `ok` + hex-encoded stdout of `pastel gradient` (pipe). -/
def opGradient (args : List String) : String :=
  match args with
  | sp :: n :: k :: rest =>
    match spaceOf sp, n.toNat?, k.toNat? with
    | some sp, some n, some k =>
      match parseColors k rest with
      | some (cols, []) =>
        let samples := gradient (P := Float) cols n (fun a b f => mix sp a b f)
        let lines := samples.map fun o => match o with
          | some c => Fmt.hslString c false
          | none => "<none>"
        "ok " ++ showStr (String.ofList (lines.flatMap fun l => l.toList ++ ['\n']))
      | _ => bad
    | _, _, _ => bad
  | _ => bad

def runOp (st : OpState) (toks : List String) : OpState × String :=
  match toks with
  | "gradient" :: args => (st, opGradient args)
  | "cli" :: args => (st, opCli args)
  | "sort" :: args => (st, opSort args)
  | "list" :: args => (st, opList args)
  | "name" :: args => (st, opName args)
  | "rand" :: args => (st, opRand args)
  | "parse" :: args => (st, opParse args)
  | "fmt" :: args => (st, opFmt args)
  | "ansi" :: args => (st, opAnsi args)
  | "style" :: args => (st, opStyle args)
  | "mode" :: args => (st, opMode args)
  | "scale" :: args => opScale st args
  | "dr" :: args => opDr st args
  | "sa" :: args => (st, opSa args)
  | "rearr" :: args => (st, opRearr args)
  | "set" :: args => (st, opSet args)
  | "from" :: kind :: args => (st, opFrom kind args)
  | "to" :: kind :: args => (st, opTo kind args)
  | "adj" :: kind :: args => (st, opAdj kind args)
  | "num" :: kind :: args => (st, opNum kind args)
  | "de" :: kind :: args => (st, opDe kind args)
  | "mix" :: sp :: args => (st, opMix sp args)
  | "comp" :: args => (st, opComp args)
  | _ => (st, bad)

end Pastel
