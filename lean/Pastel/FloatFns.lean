/-
`Float` instance of the scalar classes.

`trunc`, `floor`, `round`, `fmod`, `min`, `max` are implemented from
kernel-transparent operations (`toBits`, `ofBits`, comparisons, `toUInt64`,
`+ - * /`) and exact `Nat`/`Int` arithmetic, so they are exact and can also be
evaluated by `decide` for witnesses.  The libm functions are Lean's externs to
the same glibc `pow/exp/sin/cos/atan2` rustc's intrinsics call.
-/
import Pastel.Num

namespace Pastel
namespace F

def two52 : Float := 4503599627370496.0

def signBit (x : Float) : Bool := x.toBits >>> 63 == 1

/-- Round toward zero to an integral value (C `trunc`). -/
def trunc (x : Float) : Float :=
  if x.isNaN || x.abs >= two52 then x
  else
    let t := x.abs.toUInt64.toFloat
    if signBit x then -t else t

/-- C `floor`. -/
def floor (x : Float) : Float :=
  let t := trunc x
  if t > x then t - 1.0 else t

/-- C `round` / Rust `f64::round`: half away from zero. -/
def round (x : Float) : Float :=
  let t := trunc x
  if (x - t).abs >= 0.5 then (if signBit x then t - 1.0 else t + 1.0) else t

/-- `(negative, mantissa, exponent)` with `|x| = mantissa * 2^exponent`, for finite `x`. -/
def decode (x : Float) : Bool × Nat × Int :=
  let bits := x.toBits.toNat
  let e := (bits >>> 52) % 2048
  let frac := bits % 2^52
  if e = 0 then (signBit x, frac, -1074) else (signBit x, frac + 2^52, (e : Int) - 1075)

/-- The float `(-1)^neg * m * 2^e`, provided it is exactly representable. -/
def encodeExact (neg : Bool) (m : Nat) (e : Int) : Float :=
  let s : Nat := if neg then 2^63 else 0
  if m = 0 then Float.ofBits (UInt64.ofNat s) else
  let l := m.log2 + 1
  let top : Int := e + l - 1
  if top ≥ -1022 then
    let mant := if l ≤ 53 then m <<< (53 - l) else m >>> (l - 53)
    let biased := (top + 1023).toNat
    Float.ofBits (UInt64.ofNat (s + biased * 2^52 + (mant - 2^52)))
  else
    let sh := (e + 1074).toNat
    Float.ofBits (UInt64.ofNat (s + (m <<< sh)))

def nan : Float := Float.ofBits 0x7ff8000000000000
def inf : Float := Float.ofBits 0x7ff0000000000000

/-- C `fmod` / Rust `%`, exact. -/
def fmod (x y : Float) : Float :=
  if x.isNaN || y.isNaN || x.isInf || y == 0.0 then nan
  else if y.isInf then x
  else if x == 0.0 then x
  else
    let (nx, mx, ex) := decode x
    let (_, my, ey) := decode y
    let e := if ex ≤ ey then ex else ey
    let X := mx <<< (ex - e).toNat
    let Y := my <<< (ey - e).toNat
    encodeExact nx (X % Y) e

/-- Rust `f64::min` (`minnum`): a NaN operand is ignored. -/
def fmin (a b : Float) : Float :=
  if a.isNaN then b else if b.isNaN then a else if b < a then b else a

/-- Rust `f64::max` (`maxnum`). -/
def fmax (a b : Float) : Float :=
  if a.isNaN then b else if b.isNaN then a else if a < b then b else a

def toI32 (x : Float) : Int := x.toInt32.toInt

end F

instance : Sc Float where
  ofNat := Float.ofNat
  decLt := fun a b => Float.decLt a b
  decLe := fun a b => Float.decLe a b
  feq a b := a == b
  isNaN := Float.isNaN
  isFinite := Float.isFinite
  abs := Float.abs
  floor := F.floor
  round := F.round
  fmod := F.fmod
  fmin := F.fmin
  fmax := F.fmax
  toU8 := Float.toUInt8
  toI32 := F.toI32

instance : ScT Float where
  sqrt := Float.sqrt
  exp := Float.exp
  sin := Float.sin
  cos := Float.cos
  pow := Float.pow
  atan2 := Float.atan2
  pi := 3.14159265358979323846264338327950288

end Pastel
