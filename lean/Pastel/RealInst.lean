/-
The exact-arithmetic reading: `ℝ` as a scalar type of the model.

`+ - * / < ≤` and numeric literals are Mathlib's; `floor`, `round`, `fmod`,
`min`, `max` are their real-number meanings; the libm functions are Mathlib's
`Real.sqrt`, `Real.exp`, `Real.sin`, `Real.cos`, `Real.rpow`, `Complex.arg`.
There is no NaN: `isNaN = false`, `isFinite = true`.
-/
import Mathlib.Analysis.SpecialFunctions.Pow.Real
import Mathlib.Analysis.SpecialFunctions.Complex.Arg
import Mathlib.Analysis.SpecialFunctions.Sqrt
import Mathlib.Algebra.Order.Floor.Ring
import Mathlib.Tactic
import Pastel.Num
import Pastel.Order

namespace Pastel

noncomputable section

/-- Truncation toward zero. -/
def rtrunc (x : ℝ) : ℤ := if 0 ≤ x then ⌊x⌋ else ⌈x⌉

/-- Saturating cast of an integer to `[lo, hi]`. -/
def satInt (lo hi : ℤ) (z : ℤ) : ℤ := max lo (min hi z)

instance instScReal : Sc ℝ where
  ofNat n := (n : ℝ)
  decLt := fun a b => Classical.propDecidable (a < b)
  decLe := fun a b => Classical.propDecidable (a ≤ b)
  feq a b := @decide (a = b) (Classical.propDecidable _)
  isNaN _ := false
  isFinite _ := true
  abs x := |x|
  floor x := (⌊x⌋ : ℝ)
  round x := if 0 ≤ x then (⌊x + 1 / 2⌋ : ℝ) else (⌈x - 1 / 2⌉ : ℝ)
  fmod x y := x - y * (rtrunc (x / y) : ℝ)
  fmin := min
  fmax := max
  toU8 x := UInt8.ofNat (satInt 0 255 (rtrunc x)).toNat
  toI32 x := satInt (-2147483648) 2147483647 (rtrunc x)

instance instScTReal : ScT ℝ where
  sqrt := Real.sqrt
  exp := Real.exp
  sin := Real.sin
  cos := Real.cos
  pow := Real.rpow
  atan2 y x := Complex.arg ⟨x, y⟩
  pi := Real.pi

end

/-! Simp lemmas that turn the class operations at `ℝ` into Mathlib's. -/

/-- Scientific literals of the model, read at `ℝ`, are Mathlib's scientific literals. -/
@[simp] theorem real_sci (m : ℕ) (s : Bool) (e : ℕ) :
    @OfScientific.ofScientific ℝ instScReal.toOfScientific m s e = (OfScientific.ofScientific m s e : ℝ) := rfl

@[simp] theorem real_ofNat (n : ℕ) : (Sc.ofNat n : ℝ) = (n : ℝ) := rfl
@[simp] theorem real_lit (n : ℕ) : (@OfNat.ofNat ℝ n instOfNatSc) = (n : ℝ) := rfl
@[simp] theorem real_abs (x : ℝ) : Sc.abs x = |x| := rfl
@[simp] theorem real_fmin (x y : ℝ) : Sc.fmin x y = min x y := rfl
@[simp] theorem real_fmax (x y : ℝ) : Sc.fmax x y = max x y := rfl
@[simp] theorem real_isNaN (x : ℝ) : Sc.isNaN x = false := rfl
@[simp] theorem real_isFinite (x : ℝ) : Sc.isFinite x = true := rfl
@[simp] theorem real_floor (x : ℝ) : Sc.floor x = (⌊x⌋ : ℝ) := rfl
@[simp] theorem real_sqrt (x : ℝ) : ScT.sqrt x = Real.sqrt x := rfl
@[simp] theorem real_exp (x : ℝ) : ScT.exp x = Real.exp x := rfl
@[simp] theorem real_sin (x : ℝ) : ScT.sin x = Real.sin x := rfl
@[simp] theorem real_cos (x : ℝ) : ScT.cos x = Real.cos x := rfl
@[simp] theorem real_pow (x y : ℝ) : ScT.pow x y = x ^ y := rfl
@[simp] theorem real_pi : (ScT.pi : ℝ) = Real.pi := rfl
/-- Normalise every class operation and literal of the model at `ℝ` to Mathlib's. -/
macro "sc_norm" : tactic => `(tactic| simp only [real_sci, real_lit, real_ofNat, real_abs, real_fmin, real_fmax,
  real_isNaN, real_isFinite, real_floor, real_sqrt, real_exp, real_sin, real_cos, real_pow, real_pi] at *)

theorem real_feq (x y : ℝ) : Sc.feq x y = true ↔ x = y := by
  show @decide (x = y) (Classical.propDecidable _) = true ↔ _
  simp

/-- `ℝ` satisfies the order laws (trivially: it is a linear order without NaN). -/
instance : ScOrd ℝ where
  lt_irrefl a := lt_irrefl a
  lt_trans := lt_trans
  le_trans := le_trans
  lt_of_lt_of_le := lt_of_lt_of_le
  lt_of_le_of_lt := lt_of_le_of_lt
  le_of_lt := le_of_lt
  not_lt_of_le := fun h => not_lt.mpr h
  le_refl := fun _ => le_refl _
  lt_or_le := fun _ _ => lt_or_ge _ _
  not_nan_of_le := fun _ => ⟨rfl, rfl⟩
  not_nan_of_lt := fun _ => ⟨rfl, rfl⟩
  le_antisymm_feq := fun h1 h2 => (real_feq _ _).mpr (le_antisymm h1 h2)
  feq_le := fun h => le_of_eq ((real_feq _ _).mp h)
  feq_ge := fun h => le_of_eq ((real_feq _ _).mp h).symm
  fmin_def a b := by
    simp only [real_fmin, real_isNaN, Bool.false_eq_true, if_false]
    split
    · next h => exact min_eq_right (le_of_lt h)
    · next h => exact min_eq_left (not_lt.mp h)
  fmax_def a b := by
    simp only [real_fmax, real_isNaN, Bool.false_eq_true, if_false]
    split
    · next h => exact max_eq_right (le_of_lt h)
    · next h => exact max_eq_left (not_lt.mp h)
  le_0_1 := by show ((0:ℕ):ℝ) ≤ ((1:ℕ):ℝ); norm_num
  le_0_255 := by show ((0:ℕ):ℝ) ≤ ((255:ℕ):ℝ); norm_num
  finite_0 := rfl
  isFinite_not_nan := fun _ _ => rfl

end Pastel
