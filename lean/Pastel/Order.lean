/-
Order laws of IEEE binary64 comparison, proved from Lean core's `Float.Model`.

`ScOrd α` collects exactly the order facts that IEEE floats *do* satisfy
(`<` irreflexive and transitive, `a < b → a ≤ b`, totality for non-NaN
operands, every comparison with NaN false) together with the defining
equations of Rust's NaN-ignoring `min`/`max`.  It has a proved instance for
`Float` (below, by case analysis on `UnpackedFloat.compare`) and one for any
linearly ordered field (`Pastel/RealInst.lean`).  Theorems stated over
`[Sc α] [ScOrd α]` therefore hold for the real binary64 semantics — NaN and
infinities included — with no rounding caveat: they never use arithmetic.

No axioms, no Mathlib.
-/
import Pastel.Num
import Pastel.FloatFns

namespace Pastel

/-- Order-only laws of a scalar type. -/
class ScOrd (α : Type) [Sc α] : Prop where
  lt_irrefl : ∀ a : α, ¬ a < a
  lt_trans : ∀ {a b c : α}, a < b → b < c → a < c
  le_trans : ∀ {a b c : α}, a ≤ b → b ≤ c → a ≤ c
  lt_of_lt_of_le : ∀ {a b c : α}, a < b → b ≤ c → a < c
  lt_of_le_of_lt : ∀ {a b c : α}, a ≤ b → b < c → a < c
  le_of_lt : ∀ {a b : α}, a < b → a ≤ b
  not_lt_of_le : ∀ {a b : α}, a ≤ b → ¬ b < a
  le_refl : ∀ {a : α}, Sc.isNaN a = false → a ≤ a
  /-- totality on non-NaN operands -/
  lt_or_le : ∀ {a b : α}, Sc.isNaN a = false → Sc.isNaN b = false → a < b ∨ b ≤ a
  not_nan_of_le : ∀ {a b : α}, a ≤ b → Sc.isNaN a = false ∧ Sc.isNaN b = false
  not_nan_of_lt : ∀ {a b : α}, a < b → Sc.isNaN a = false ∧ Sc.isNaN b = false
  le_antisymm_feq : ∀ {a b : α}, a ≤ b → b ≤ a → Sc.feq a b = true
  feq_le : ∀ {a b : α}, Sc.feq a b = true → a ≤ b
  feq_ge : ∀ {a b : α}, Sc.feq a b = true → b ≤ a
  fmin_def : ∀ a b : α, Sc.fmin a b =
    if Sc.isNaN a then b else if Sc.isNaN b then a else if b < a then b else a
  fmax_def : ∀ a b : α, Sc.fmax a b =
    if Sc.isNaN a then b else if Sc.isNaN b then a else if a < b then b else a
  /-- the constants used as clamp bounds -/
  le_0_1 : (Sc.ofNat 0 : α) ≤ Sc.ofNat 1
  le_0_255 : (Sc.ofNat 0 : α) ≤ Sc.ofNat 255
  finite_0 : Sc.isFinite (Sc.ofNat 0 : α) = true
  isFinite_not_nan : ∀ a : α, Sc.isFinite a = true → Sc.isNaN a = false

namespace FloatOrd
open Float.Model Float.Model.UnpackedFloat

/-- A totally ordered key of a non-NaN unpacked float: (class, exponent, mantissa),
negated for negative numbers; both zeros share a key. -/
def key : UnpackedFloat → Int × Int × Int
  | .notANumber => (0, 0, 0)
  | .infinity .negative => (-2, 0, 0)
  | .infinity .positive => (2, 0, 0)
  | .zero _ => (0, 0, 0)
  | .finite .negative m e _ => (-1, -e, -(m : Int))
  | .finite .positive m e _ => (1, e, (m : Int))

def lexLt (a b : Int × Int × Int) : Prop :=
  a.1 < b.1 ∨ (a.1 = b.1 ∧ (a.2.1 < b.2.1 ∨ (a.2.1 = b.2.1 ∧ a.2.2 < b.2.2)))

def lexEq (a b : Int × Int × Int) : Prop := a.1 = b.1 ∧ a.2.1 = b.2.1 ∧ a.2.2 = b.2.2

theorem then_lt {e1 e2 : Int} {m1 m2 : Nat} :
    (compareOfLessAndEq e1 e2).then (compareOfLessAndEq m1 m2) = .lt ↔ e1 < e2 ∨ (e1 = e2 ∧ m1 < m2) := by
  by_cases h1 : e1 < e2 <;> by_cases h2 : e1 = e2 <;> by_cases h3 : m1 < m2 <;> by_cases h4 : m1 = m2 <;>
    simp [compareOfLessAndEq, *] <;> omega

theorem then_gt {e1 e2 : Int} {m1 m2 : Nat} :
    (compareOfLessAndEq e1 e2).then (compareOfLessAndEq m1 m2) = .gt ↔ e2 < e1 ∨ (e1 = e2 ∧ m2 < m1) := by
  by_cases h1 : e1 < e2 <;> by_cases h2 : e1 = e2 <;> by_cases h3 : m1 < m2 <;> by_cases h4 : m1 = m2 <;>
    simp [compareOfLessAndEq, *] <;> omega

theorem cmp_eq_int {e1 e2 : Int} : compareOfLessAndEq e1 e2 = .eq ↔ e1 = e2 := by
  by_cases h1 : e1 < e2 <;> by_cases h2 : e1 = e2 <;> simp [compareOfLessAndEq, *] <;> omega

theorem cmp_eq_nat {m1 m2 : Nat} : compareOfLessAndEq m1 m2 = .eq ↔ m1 = m2 := by
  by_cases h1 : m1 < m2 <;> by_cases h2 : m1 = m2 <;> simp [compareOfLessAndEq, *] <;> omega

theorem then_isLE {e1 e2 : Int} {m1 m2 : Nat} :
    ((compareOfLessAndEq e1 e2).then (compareOfLessAndEq m1 m2)).isLE = true ↔
      e1 < e2 ∨ (e1 = e2 ∧ m1 ≤ m2) := by
  by_cases h1 : e1 < e2 <;> by_cases h2 : e1 = e2 <;> by_cases h3 : m1 < m2 <;> by_cases h4 : m1 = m2 <;>
    simp [compareOfLessAndEq, *] <;> omega

theorem then_isGE {e1 e2 : Int} {m1 m2 : Nat} :
    ((compareOfLessAndEq e1 e2).then (compareOfLessAndEq m1 m2)).isGE = true ↔
      e2 < e1 ∨ (e1 = e2 ∧ m2 ≤ m1) := by
  by_cases h1 : e1 < e2 <;> by_cases h2 : e1 = e2 <;> by_cases h3 : m1 < m2 <;> by_cases h4 : m1 = m2 <;>
    simp [compareOfLessAndEq, *] <;> omega

theorem ult_iff (a b : UnpackedFloat) :
    a.lt b = true ↔ a.isNaN = false ∧ b.isNaN = false ∧ lexLt (key a) (key b) := by
  unfold UnpackedFloat.lt
  rcases a with ⟨sa⟩ | _ | ⟨sa⟩ | ⟨sa, ma, ea, ha⟩ <;> rcases b with ⟨sb⟩ | _ | ⟨sb⟩ | ⟨sb, mb, eb, hb⟩ <;>
    (try cases sa) <;> (try cases sb) <;>
    simp [UnpackedFloat.compare, compare, Ord.compare, UnpackedFloat.isNaN, key, lexLt, then_lt, then_gt] <;> omega

theorem ule_iff (a b : UnpackedFloat) :
    a.le b = true ↔ a.isNaN = false ∧ b.isNaN = false ∧ (lexLt (key a) (key b) ∨ lexEq (key a) (key b)) := by
  unfold UnpackedFloat.le
  rcases a with ⟨sa⟩ | _ | ⟨sa⟩ | ⟨sa, ma, ea, ha⟩ <;> rcases b with ⟨sb⟩ | _ | ⟨sb⟩ | ⟨sb, mb, eb, hb⟩ <;>
    (try cases sa) <;> (try cases sb) <;>
    simp [UnpackedFloat.compare, compare, Ord.compare, UnpackedFloat.isNaN, key, lexLt, lexEq,
      then_isLE, then_isGE] <;> omega

theorem ubeq_iff (a b : UnpackedFloat) :
    a.beq b = true ↔ a.isNaN = false ∧ b.isNaN = false ∧ lexEq (key a) (key b) := by
  unfold UnpackedFloat.beq
  rcases a with ⟨sa⟩ | _ | ⟨sa⟩ | ⟨sa, ma, ea, ha⟩ <;> rcases b with ⟨sb⟩ | _ | ⟨sb⟩ | ⟨sb, mb, eb, hb⟩ <;>
    (try cases sa) <;> (try cases sb) <;>
    simp [UnpackedFloat.compare, compare, Ord.compare, UnpackedFloat.isNaN, key, lexEq, cmp_eq_int, cmp_eq_nat] <;> omega

/-- `Float`'s `<` in terms of the key. -/
theorem flt_iff (a b : Float) :
    a < b ↔ a.isNaN = false ∧ b.isNaN = false ∧ lexLt (key a.toModel.unpack) (key b.toModel.unpack) := by
  have h : (a < b) ↔ a.toModel.unpack.lt b.toModel.unpack = true := by
    show a.lt b = true ↔ _
    unfold Float.lt
    rw [decide_eq_true_iff]
    rfl
  rw [h, ult_iff]; rfl

theorem fle_iff (a b : Float) :
    a ≤ b ↔ a.isNaN = false ∧ b.isNaN = false ∧
      (lexLt (key a.toModel.unpack) (key b.toModel.unpack) ∨ lexEq (key a.toModel.unpack) (key b.toModel.unpack)) := by
  have h : (a ≤ b) ↔ a.toModel.unpack.le b.toModel.unpack = true := by
    show a.le b = true ↔ _
    unfold Float.le
    rw [decide_eq_true_iff]
    rfl
  rw [h, ule_iff]; rfl

theorem fbeq_iff (a b : Float) :
    (a == b) = true ↔ a.isNaN = false ∧ b.isNaN = false ∧
      lexEq (key a.toModel.unpack) (key b.toModel.unpack) := by
  have h : ((a == b) = true) ↔ a.toModel.unpack.beq b.toModel.unpack = true := by
    show a.beq b = true ↔ _
    simp [Float.beq, BEq.beq, Float.Model.beq]
  rw [h, ubeq_iff]; rfl

end FloatOrd

open FloatOrd in
instance : ScOrd Float where
  lt_irrefl a := by
    rw [flt_iff]; unfold lexLt; omega
  lt_trans := by
    intro a b c; rw [flt_iff, flt_iff, flt_iff]
    intro ⟨ha, _, h1⟩ ⟨_, hc, h2⟩
    exact ⟨ha, hc, by unfold lexLt at *; omega⟩
  le_trans := by
    intro a b c; rw [fle_iff, fle_iff, fle_iff]
    intro ⟨ha, _, h1⟩ ⟨_, hc, h2⟩
    exact ⟨ha, hc, by unfold lexLt lexEq at *; omega⟩
  lt_of_lt_of_le := by
    intro a b c; rw [flt_iff, fle_iff, flt_iff]
    intro ⟨ha, _, h1⟩ ⟨_, hc, h2⟩
    exact ⟨ha, hc, by unfold lexLt lexEq at *; omega⟩
  lt_of_le_of_lt := by
    intro a b c; rw [fle_iff, flt_iff, flt_iff]
    intro ⟨ha, _, h1⟩ ⟨_, hc, h2⟩
    exact ⟨ha, hc, by unfold lexLt lexEq at *; omega⟩
  le_of_lt := by
    intro a b; rw [flt_iff, fle_iff]
    intro ⟨ha, hb, h1⟩
    exact ⟨ha, hb, Or.inl h1⟩
  not_lt_of_le := by
    intro a b; rw [flt_iff, fle_iff]
    intro ⟨_, _, h1⟩ ⟨_, _, h2⟩
    unfold lexLt lexEq at *; omega
  le_refl := by
    intro a h; rw [fle_iff]; unfold lexLt lexEq
    exact ⟨h, h, Or.inr ⟨rfl, rfl, rfl⟩⟩
  lt_or_le := by
    intro a b ha hb; rw [flt_iff, fle_iff]
    have ha' : a.isNaN = false := ha
    have hb' : b.isNaN = false := hb
    have : lexLt (key a.toModel.unpack) (key b.toModel.unpack) ∨
        (lexLt (key b.toModel.unpack) (key a.toModel.unpack) ∨ lexEq (key b.toModel.unpack) (key a.toModel.unpack)) := by
      unfold lexLt lexEq; omega
    rcases this with h | h
    · exact Or.inl ⟨ha', hb', h⟩
    · exact Or.inr ⟨hb', ha', h⟩
  not_nan_of_le := by
    intro a b; rw [fle_iff]; intro h; exact ⟨h.1, h.2.1⟩
  not_nan_of_lt := by
    intro a b; rw [flt_iff]; intro h; exact ⟨h.1, h.2.1⟩
  le_antisymm_feq := by
    intro a b; rw [fle_iff, fle_iff]; intro ⟨ha, hb, h1⟩ ⟨_, _, h2⟩
    show (a == b) = true
    rw [fbeq_iff]
    exact ⟨ha, hb, by unfold lexLt lexEq at *; omega⟩
  feq_le := by
    intro a b h
    have h' : (a == b) = true := h
    rw [fbeq_iff] at h'; rw [fle_iff]
    exact ⟨h'.1, h'.2.1, Or.inr h'.2.2⟩
  feq_ge := by
    intro a b h
    have h' : (a == b) = true := h
    rw [fbeq_iff] at h'; rw [fle_iff]
    exact ⟨h'.2.1, h'.1, Or.inr (by unfold lexEq at *; omega)⟩
  fmin_def a b := rfl
  fmax_def a b := rfl
  le_0_1 := by decide +kernel
  le_0_255 := by decide +kernel
  finite_0 := by decide +kernel
  isFinite_not_nan := by
    intro a h
    have h' : a.toModel.unpack.isFinite = true := h
    show a.toModel.unpack.isNaN = false
    cases hu : a.toModel.unpack <;> simp_all [Float.Model.UnpackedFloat.isFinite, Float.Model.UnpackedFloat.isNaN]

end Pastel
