/-
Scalar classes of the pastel model.

All numeric model code is written once, polymorphically over `Sc α` (field
operations, order, the few rounding primitives Rust's `f64` offers) and
`ScT α` (the libm part).  It is *read* at `Float` (executable, compiled into
`pastel-model`, bit-for-bit the IEEE operations the Rust code performs), at an
ordered field such as `ℝ`/`ℚ` (exact arithmetic, for the algebraic theorems)
and, for order-only facts, at any `FOrd α` (see `Pastel/Order.lean`).

No Mathlib import: this file is linked into the `pastel-model` executable.
-/
namespace Pastel

/-- The scalar operations pastel's library uses from `f64`, minus libm. -/
class Sc (α : Type) extends Add α, Sub α, Mul α, Div α, Neg α, LT α, LE α, OfScientific α where
  ofNat  : Nat → α
  decLt  : ∀ a b : α, Decidable (a < b)
  decLe  : ∀ a b : α, Decidable (a ≤ b)
  /-- IEEE `==` (false on NaN, `-0 == +0`). -/
  feq    : α → α → Bool
  isNaN  : α → Bool
  /-- Rust `f64::is_finite`. -/
  isFinite : α → Bool
  abs    : α → α
  floor  : α → α
  /-- Rust `f64::round`: half away from zero. -/
  round  : α → α
  /-- Rust `%` on `f64` (C `fmod`): result has the sign of the dividend. -/
  fmod   : α → α → α
  /-- Rust `f64::min`: if one argument is NaN the other is returned. -/
  fmin   : α → α → α
  /-- Rust `f64::max`. -/
  fmax   : α → α → α
  /-- Rust `as u8`: truncation toward zero, saturating, NaN ↦ 0. -/
  toU8   : α → UInt8
  /-- Rust `as i32`: truncation toward zero, saturating, NaN ↦ 0. -/
  toI32  : α → Int

/-- The libm part. -/
class ScT (α : Type) extends Sc α where
  sqrt  : α → α
  exp   : α → α
  sin   : α → α
  cos   : α → α
  /-- Rust `powf`. -/
  pow   : α → α → α
  atan2 : α → α → α
  pi    : α

instance (priority := low) instOfNatSc {α : Type} [Sc α] {n : Nat} : OfNat α n := ⟨Sc.ofNat n⟩
instance {α : Type} [Sc α] (a b : α) : Decidable (a < b) := Sc.decLt a b
instance {α : Type} [Sc α] (a b : α) : Decidable (a ≤ b) := Sc.decLe a b

/-- Rust `f64::powi` for a non-negative exponent, in compiler-rt's `__powidf2`
order of multiplications (LLVM's constant-exponent expansion performs the same
products, up to commutativity). -/
def powiAux {α : Type} [Sc α] : Nat → α → α → Nat → α
  | 0, _, r, _ => r
  | fuel+1, a, r, b =>
    let r := if b % 2 = 1 then r * a else r
    let b := b / 2
    if b = 0 then r else powiAux fuel (a * a) r b

def powi {α : Type} [Sc α] (a : α) (n : Nat) : α := powiAux 64 a 1 n

end Pastel
