/-
The parser model on the *shapes* the formatters print: optionally signed integers and
fixed-point decimals, and the `hsl(`/`hsv(` notation built from them.
-/
import Pastel.Lemmas.PrintDigits

namespace Pastel.P
open Pastel

/-- Unsigned `D.F%…`: digits, a point, digits, then `%`. -/
theorem recognizeFloat_frac_pct (d : Char) (ds : List Char) (fs : List Char) (rest : List Char)
    (hd : (d :: ds).all isDigit = true) (hf : fs.all isDigit = true) :
    recognizeFloat ((d :: ds) ++ '.' :: (fs ++ '%' :: rest)) =
      .ok ('%' :: rest) (.dec false (digitsToNat ((d :: ds) ++ fs)) (-(fs.length : Int))) := by
  have hdd : isDigit d = true := by simp only [List.all_cons, Bool.and_eq_true] at hd; exact hd.1
  obtain ⟨np, nm, _, _⟩ := digit_not_sign d hdd
  have hcd : isDigit '.' = false := by decide
  have hsp := span_digits (d :: ds) '.' (fs ++ '%' :: rest) hd hcd
  have hsp' : span isDigit (d :: (ds ++ '.' :: (fs ++ '%' :: rest))) = (d :: ds, '.' :: (fs ++ '%' :: rest)) := hsp
  have hsf : span isDigit (fs ++ '%' :: rest) = (fs, '%' :: rest) := by
    cases fs with
    | nil => simp [span, show isDigit '%' = false by decide]
    | cons f fs' => exact span_digits (f :: fs') '%' rest hf (by decide)
  unfold recognizeFloat
  simp only [List.cons_append]
  simp [np, nm, many1, hsp', hsf]

/-- The same with a leading `-`. -/
theorem recognizeFloat_neg_frac_pct (d : Char) (ds : List Char) (fs : List Char) (rest : List Char)
    (hd : (d :: ds).all isDigit = true) (hf : fs.all isDigit = true) :
    recognizeFloat ('-' :: ((d :: ds) ++ '.' :: (fs ++ '%' :: rest))) =
      .ok ('%' :: rest) (.dec true (digitsToNat ((d :: ds) ++ fs)) (-(fs.length : Int))) := by
  have hcd : isDigit '.' = false := by decide
  have hsp := span_digits (d :: ds) '.' (fs ++ '%' :: rest) hd hcd
  have hsp' : span isDigit (d :: (ds ++ '.' :: (fs ++ '%' :: rest))) = (d :: ds, '.' :: (fs ++ '%' :: rest)) := hsp
  have hsf : span isDigit (fs ++ '%' :: rest) = (fs, '%' :: rest) := by
    cases fs with
    | nil => simp [span, show isDigit '%' = false by decide]
    | cons f fs' => exact span_digits (f :: fs') '%' rest hf (by decide)
  unfold recognizeFloat
  simp only [List.cons_append]
  simp [many1, hsp', hsf]



def signL (neg : Bool) : List Char := if neg then ['-'] else []

/-- Optionally signed `D.F%`. -/
theorem recognizeFloat_sfrac_pct (neg : Bool) (d : Char) (ds fs rest : List Char)
    (hd : (d :: ds).all isDigit = true) (hf : fs.all isDigit = true) :
    recognizeFloat (signL neg ++ ((d :: ds) ++ '.' :: (fs ++ '%' :: rest))) =
      .ok ('%' :: rest) (.dec neg (digitsToNat ((d :: ds) ++ fs)) (-(fs.length : Int))) := by
  cases neg
  · exact recognizeFloat_frac_pct d ds fs rest hd hf
  · exact recognizeFloat_neg_frac_pct d ds fs rest hd hf

theorem percentage_sfrac (neg : Bool) (d : Char) (ds fs rest : List Char)
    (hd : (d :: ds).all isDigit = true) (hf : fs.all isDigit = true) :
    percentage (signL neg ++ ((d :: ds) ++ '.' :: (fs ++ '%' :: rest))) =
      .ok rest ((Num.dec neg (digitsToNat ((d :: ds) ++ fs)) (-(fs.length : Int))).toFloat / 100.0) := by
  unfold percentage double
  rw [recognizeFloat_sfrac_pct neg d ds fs rest hd hf]
  simp [PR.bind, char]

/-- Optionally signed integer followed by `,`. -/
theorem recognizeFloat_sint_comma (neg : Bool) (d : Char) (ds rest : List Char) (hd : (d :: ds).all isDigit = true) :
    recognizeFloat (signL neg ++ ((d :: ds) ++ ',' :: rest)) = .ok (',' :: rest) (.dec neg (digitsToNat (d :: ds)) 0) := by
  cases neg
  · exact recognizeFloat_digits d ds ',' rest hd (Or.inl rfl)
  · have hcd : isDigit ',' = false := by decide
    have hsp := span_digits (d :: ds) ',' rest hd hcd
    have hsp' : span isDigit (d :: (ds ++ ',' :: rest)) = (d :: ds, ',' :: rest) := hsp
    unfold recognizeFloat signL
    simp only [List.cons_append, if_true, List.nil_append]
    simp [many1, hsp']

theorem angle_sint_comma (neg : Bool) (d : Char) (ds rest : List Char) (hd : (d :: ds).all isDigit = true) :
    angle (signL neg ++ ((d :: ds) ++ ',' :: rest)) = .ok (',' :: rest) (Num.dec neg (digitsToNat (d :: ds)) 0).toFloat := by
  unfold angle double
  rw [recognizeFloat_sint_comma neg d ds rest hd]
  simp [tag, List.isPrefixOf]

theorem isBlank_sign_digit (neg : Bool) (d : Char) (tl : List Char) (hd : isDigit d = true) :
    ∃ x xs, signL neg ++ d :: tl = x :: xs ∧ isBlank x = false := by
  cases neg
  · exact ⟨d, tl, rfl, (digit_not_sign d hd).2.2.2⟩
  · exact ⟨'-', d :: tl, rfl, by decide⟩

theorem space0_nonblank (x : Char) (xs : List Char) (h : isBlank x = false) : space0 (x :: xs) = x :: xs := by
  unfold space0
  rw [List.dropWhile_cons, h]
  simp

theorem separator_comma_nb (sp : List Char) (hsp : sp = [] ∨ sp = [' ']) (x : Char) (xs : List Char) (h : isBlank x = false) :
    separator (',' :: (sp ++ x :: xs)) = .ok (x :: xs) () := by
  have hc : isBlank ',' = false := by decide
  have hs : isBlank ' ' = true := by decide
  unfold separator space0 char
  rcases hsp with rfl | rfl <;> simp [h, hc, hs]

/-- The shared shape, given what each piece does on its segment. -/
theorem three_ok (c1 c2 c3 : List Char → PR Float) (s r1 r2 r3 r4 : List Char) (a b c : Float)
    (h1 : c1 (space0 s) = .ok r1 a) (hs1 : separator r1 = .ok r2 ()) (h2 : c2 r2 = .ok r3 b)
    (hs2 : separator r3 = .ok r4 ()) (h3 : c3 r4 = .ok [')'] c) :
    three c1 c2 c3 true s = .ok [] (a, b, c, 1.0) := by
  unfold three
  simp only [h1, hs1, h2, hs2, h3, PR.bind, alpha_close]
  simp [space0, char, isBlank]

/-- Optionally signed integer followed by `)`. -/
theorem recognizeFloat_sint_close (neg : Bool) (d : Char) (ds : List Char) (hd : (d :: ds).all isDigit = true) :
    recognizeFloat (signL neg ++ ((d :: ds) ++ [')'])) = .ok [')'] (.dec neg (digitsToNat (d :: ds)) 0) := by
  cases neg
  · exact recognizeFloat_digits d ds ')' [] hd (Or.inr rfl)
  · have hcd : isDigit ')' = false := by decide
    have hsp := span_digits (d :: ds) ')' [] hd hcd
    have hsp' : span isDigit (d :: (ds ++ [')'])) = (d :: ds, [')']) := hsp
    unfold recognizeFloat signL
    simp only [List.cons_append, if_true, List.nil_append]
    simp [many1, hsp']

theorem number_sint_comma (neg : Bool) (d : Char) (ds rest : List Char) (hd : (d :: ds).all isDigit = true) :
    number (signL neg ++ ((d :: ds) ++ ',' :: rest)) = .ok (',' :: rest) (Num.dec neg (digitsToNat (d :: ds)) 0).toFloat := by
  unfold number double
  rw [recognizeFloat_sint_comma neg d ds rest hd]
  rfl

theorem number_sint_close (neg : Bool) (d : Char) (ds : List Char) (hd : (d :: ds).all isDigit = true) :
    number (signL neg ++ ((d :: ds) ++ [')'])) = .ok [')'] (Num.dec neg (digitsToNat (d :: ds)) 0).toFloat := by
  unfold number double
  rw [recognizeFloat_sint_close neg d ds hd]
  rfl

theorem angle_sint_close (neg : Bool) (d : Char) (ds : List Char) (hd : (d :: ds).all isDigit = true) :
    angle (signL neg ++ ((d :: ds) ++ [')'])) = .ok [')'] (Num.dec neg (digitsToNat (d :: ds)) 0).toFloat := by
  unfold angle double
  rw [recognizeFloat_sint_close neg d ds hd]
  simp [tag, List.isPrefixOf]

/-- Three optionally signed integers, `A,B,C)`, the third read by `c3`. -/
theorem three_sints (c3 : List Char → PR Float) (an bn cn : Bool) (a : Char) (as : List Char) (b : Char) (bs : List Char)
    (c : Char) (cs : List Char) (sp : List Char) (hsp : sp = [] ∨ sp = [' '])
    (ha : (a :: as).all isDigit = true) (hb : (b :: bs).all isDigit = true) (hc : (c :: cs).all isDigit = true)
    (h3 : c3 (signL cn ++ ((c :: cs) ++ [')'])) = .ok [')'] (Num.dec cn (digitsToNat (c :: cs)) 0).toFloat) :
    three number number c3 true (signL an ++ ((a :: as) ++ ',' :: (sp ++ (signL bn ++ ((b :: bs) ++ ',' :: (sp ++
        (signL cn ++ ((c :: cs) ++ [')'])))))))) =
      .ok [] ((Num.dec an (digitsToNat (a :: as)) 0).toFloat, (Num.dec bn (digitsToNat (b :: bs)) 0).toFloat,
        (Num.dec cn (digitsToNat (c :: cs)) 0).toFloat, 1.0) := by
  have hda : isDigit a = true := by simp only [List.all_cons, Bool.and_eq_true] at ha; exact ha.1
  have hdb : isDigit b = true := by simp only [List.all_cons, Bool.and_eq_true] at hb; exact hb.1
  have hdc : isDigit c = true := by simp only [List.all_cons, Bool.and_eq_true] at hc; exact hc.1
  generalize hC : signL cn ++ ((c :: cs) ++ [')']) = Cseg at h3 ⊢
  generalize hB : signL bn ++ ((b :: bs) ++ ',' :: (sp ++ Cseg)) = Bseg
  generalize hA : signL an ++ ((a :: as) ++ ',' :: (sp ++ Bseg)) = Aseg
  obtain ⟨x1, xs1, e1, nb1⟩ := isBlank_sign_digit an a (as ++ ',' :: (sp ++ Bseg)) hda
  obtain ⟨x2, xs2, e2, nb2⟩ := isBlank_sign_digit bn b (bs ++ ',' :: (sp ++ Cseg)) hdb
  obtain ⟨x3, xs3, e3, nb3⟩ := isBlank_sign_digit cn c (cs ++ [')']) hdc
  have eA : Aseg = x1 :: xs1 := by rw [← hA, ← e1]; rfl
  have eB : Bseg = x2 :: xs2 := by rw [← hB, ← e2]; rfl
  have eC : Cseg = x3 :: xs3 := by rw [← hC, ← e3]; rfl
  apply three_ok number number c3 Aseg (',' :: (sp ++ Bseg)) Bseg (',' :: (sp ++ Cseg)) Cseg
  · rw [eA, space0_nonblank x1 xs1 nb1, ← eA, ← hA]
    exact number_sint_comma an a as _ ha
  · rw [eB]; exact separator_comma_nb sp hsp x2 xs2 nb2
  · rw [← hB]; exact number_sint_comma bn b bs _ hb
  · rw [eC]; exact separator_comma_nb sp hsp x3 xs3 nb3
  · exact h3

theorem notNumStart_L : NotNumStart 'L' := ⟨by decide, by decide, by decide, by decide, by decide, by decide, by decide, by decide⟩

theorem optCie_L (tl : List Char) : optCie ('L' :: tl) = .ok ('L' :: tl) ('L' :: tl) := by
  have l1 : lowerMatches 'c' 'L' = false := by decide
  unfold optCie tagNoCase
  simp [l1]

theorem tagNoCase_Lab (X : List Char) : tagNoCase "lab(".toList ('L' :: 'a' :: 'b' :: '(' :: X) = .ok X () := by
  have l1 : lowerMatches 'l' 'L' = true := by decide
  have l2 : lowerMatches 'a' 'a' = true := by decide
  have l3 : lowerMatches 'b' 'b' = true := by decide
  have l4 : lowerMatches '(' '(' = true := by decide
  have u1 : Char.utf8Size 'L' = 1 := by decide
  have u2 : Char.utf8Size 'a' = 1 := by decide
  have u3 : Char.utf8Size 'b' = 1 := by decide
  have u4 : Char.utf8Size '(' = 1 := by decide
  unfold tagNoCase
  simp [l1, l2, l3, l4, u1, u2, u3, u4, dropBytes, List.zip]
  omega

theorem tagNoCase_LCh (X : List Char) : tagNoCase "lch(".toList ('L' :: 'C' :: 'h' :: '(' :: X) = .ok X () := by
  have l1 : lowerMatches 'l' 'L' = true := by decide
  have l2 : lowerMatches 'c' 'C' = true := by decide
  have l3 : lowerMatches 'h' 'h' = true := by decide
  have l4 : lowerMatches '(' '(' = true := by decide
  have u1 : Char.utf8Size 'L' = 1 := by decide
  have u2 : Char.utf8Size 'C' = 1 := by decide
  have u3 : Char.utf8Size 'h' = 1 := by decide
  have u4 : Char.utf8Size '(' = 1 := by decide
  unfold tagNoCase
  simp [l1, l2, l3, l4, u1, u2, u3, u4, dropBytes, List.zip]
  omega

theorem parseLab_LC (X : List Char) : parseLab ('L' :: 'C' :: X) = .err := by
  have l1 : lowerMatches 'l' 'L' = true := by decide
  have l2 : lowerMatches 'a' 'C' = false := by decide
  unfold parseLab
  rw [optCie_L]
  simp only [PR.bind]
  unfold tagNoCase
  simp [l1, l2, List.zip]

theorem parseOklab_L (X : List Char) : parseOklab ('L' :: X) = .err := by
  have l1 : lowerMatches 'o' 'L' = false := by decide
  unfold parseOklab tagNoCase
  simp [l1, List.zip, PR.bind]

/-- Unsigned `D.F` followed by `,` or `)`. -/
theorem recognizeFloat_frac_term (d : Char) (ds fs : List Char) (t : Char) (rest : List Char)
    (ht : t = ',' ∨ t = ')') (hd : (d :: ds).all isDigit = true) (hf : fs.all isDigit = true) :
    recognizeFloat ((d :: ds) ++ '.' :: (fs ++ t :: rest)) =
      .ok (t :: rest) (.dec false (digitsToNat ((d :: ds) ++ fs)) (-(fs.length : Int))) := by
  have hdd : isDigit d = true := by simp only [List.all_cons, Bool.and_eq_true] at hd; exact hd.1
  obtain ⟨np, nm, _, _⟩ := digit_not_sign d hdd
  have hcd : isDigit '.' = false := by decide
  have htd : isDigit t = false := by rcases ht with rfl | rfl <;> decide
  have hsp := span_digits (d :: ds) '.' (fs ++ t :: rest) hd hcd
  have hsp' : span isDigit (d :: (ds ++ '.' :: (fs ++ t :: rest))) = (d :: ds, '.' :: (fs ++ t :: rest)) := hsp
  have hsf : span isDigit (fs ++ t :: rest) = (fs, t :: rest) := by
    cases fs with
    | nil => simp [span, htd]
    | cons f fs' => exact span_digits (f :: fs') t rest hf htd
  unfold recognizeFloat
  simp only [List.cons_append]
  rcases ht with rfl | rfl <;> simp [np, nm, many1, hsp', hsf]

theorem recognizeFloat_neg_frac_term (d : Char) (ds fs : List Char) (t : Char) (rest : List Char)
    (ht : t = ',' ∨ t = ')') (hd : (d :: ds).all isDigit = true) (hf : fs.all isDigit = true) :
    recognizeFloat ('-' :: ((d :: ds) ++ '.' :: (fs ++ t :: rest))) =
      .ok (t :: rest) (.dec true (digitsToNat ((d :: ds) ++ fs)) (-(fs.length : Int))) := by
  have hcd : isDigit '.' = false := by decide
  have htd : isDigit t = false := by rcases ht with rfl | rfl <;> decide
  have hsp := span_digits (d :: ds) '.' (fs ++ t :: rest) hd hcd
  have hsp' : span isDigit (d :: (ds ++ '.' :: (fs ++ t :: rest))) = (d :: ds, '.' :: (fs ++ t :: rest)) := hsp
  have hsf : span isDigit (fs ++ t :: rest) = (fs, t :: rest) := by
    cases fs with
    | nil => simp [span, htd]
    | cons f fs' => exact span_digits (f :: fs') t rest hf htd
  unfold recognizeFloat
  simp only [List.cons_append]
  rcases ht with rfl | rfl <;> simp [many1, hsp', hsf]

theorem number_sfrac_term (neg : Bool) (d : Char) (ds fs : List Char) (t : Char) (rest : List Char)
    (ht : t = ',' ∨ t = ')') (hd : (d :: ds).all isDigit = true) (hf : fs.all isDigit = true) :
    number (signL neg ++ ((d :: ds) ++ '.' :: (fs ++ t :: rest))) =
      .ok (t :: rest) (Num.dec neg (digitsToNat ((d :: ds) ++ fs)) (-(fs.length : Int))).toFloat := by
  unfold number double
  cases neg
  · rw [show signL false ++ ((d :: ds) ++ '.' :: (fs ++ t :: rest)) = (d :: ds) ++ '.' :: (fs ++ t :: rest) from rfl,
      recognizeFloat_frac_term d ds fs t rest ht hd hf]
    rfl
  · rw [show signL true ++ ((d :: ds) ++ '.' :: (fs ++ t :: rest)) = '-' :: ((d :: ds) ++ '.' :: (fs ++ t :: rest)) from rfl,
      recognizeFloat_neg_frac_term d ds fs t rest ht hd hf]
    rfl

/-- `{:.N}` with `N > 0`: a non-empty run of digits, a point, exactly `N` digits; their value is `q`. -/
theorem placePoint_shape (q prec : Nat) (hp : 0 < prec) : ∃ (a : Char) (as fs : List Char),
    (Fmt.placePoint q prec).toList = (a :: as) ++ '.' :: fs ∧ (a :: as).all isDigit = true ∧ fs.all isDigit = true ∧
      fs.length = prec ∧ digitsToNat ((a :: as) ++ fs) = q := by
  obtain ⟨hlen, hall, hval⟩ := paddedDigits_spec q prec
  have hpp := placePoint_pos q prec hp
  generalize paddedDigits q prec = pd at *
  have hsplit : pd.take (pd.length - prec) ++ pd.drop (pd.length - prec) = pd := List.take_append_drop _ _
  have htl : (pd.take (pd.length - prec)).length = pd.length - prec := by rw [List.length_take]; omega
  have hdl : (pd.drop (pd.length - prec)).length = prec := by rw [List.length_drop]; omega
  have hallt : (pd.take (pd.length - prec)).all isDigit = true := by
    rw [List.all_eq_true] at hall ⊢
    intro c hc; exact hall c (List.mem_of_mem_take hc)
  have halld : (pd.drop (pd.length - prec)).all isDigit = true := by
    rw [List.all_eq_true] at hall ⊢
    intro c hc; exact hall c (List.mem_of_mem_drop hc)
  generalize hT : pd.take (pd.length - prec) = T at *
  cases T with
  | nil => simp at htl; omega
  | cons a as => exact ⟨a, as, _, hpp, hallt, halld, hdl, by rw [hsplit]; exact hval⟩

theorem notNumStart_O : NotNumStart 'O' := ⟨by decide, by decide, by decide, by decide, by decide, by decide, by decide, by decide⟩

theorem parseLab_O (X : List Char) : parseLab ('O' :: X) = .err := by
  have l0 : lowerMatches 'c' 'O' = false := by decide
  have l1 : lowerMatches 'l' 'O' = false := by decide
  unfold parseLab optCie
  simp [tagNoCase, l0, l1, List.zip, PR.bind]

theorem tagNoCase_OkLab (X : List Char) : tagNoCase "oklab(".toList ('O' :: 'k' :: 'L' :: 'a' :: 'b' :: '(' :: X) = .ok X () := by
  have l0 : lowerMatches 'o' 'O' = true := by decide
  have lk : lowerMatches 'k' 'k' = true := by decide
  have l1 : lowerMatches 'l' 'L' = true := by decide
  have l2 : lowerMatches 'a' 'a' = true := by decide
  have l3 : lowerMatches 'b' 'b' = true := by decide
  have l4 : lowerMatches '(' '(' = true := by decide
  have u0 : Char.utf8Size 'O' = 1 := by decide
  have uk : Char.utf8Size 'k' = 1 := by decide
  have u1 : Char.utf8Size 'L' = 1 := by decide
  have u2 : Char.utf8Size 'a' = 1 := by decide
  have u3 : Char.utf8Size 'b' = 1 := by decide
  have u4 : Char.utf8Size '(' = 1 := by decide
  unfold tagNoCase
  simp [l0, lk, l1, l2, l3, l4, u0, uk, u1, u2, u3, u4, dropBytes, List.zip]
  omega

/-- Three optionally signed fixed-point numbers, `A.a,B.b,C.c)`. -/
theorem three_sfracs (an bn cn : Bool) (a : Char) (as af : List Char) (b : Char) (bs bf : List Char)
    (c : Char) (cs cf : List Char) (sp : List Char) (hsp : sp = [] ∨ sp = [' '])
    (ha : (a :: as).all isDigit = true) (haf : af.all isDigit = true) (hb : (b :: bs).all isDigit = true)
    (hbf : bf.all isDigit = true) (hc : (c :: cs).all isDigit = true) (hcf : cf.all isDigit = true) :
    three number number number true (signL an ++ ((a :: as) ++ '.' :: (af ++ ',' :: (sp ++ (signL bn ++ ((b :: bs) ++ '.' :: (bf ++ ',' :: (sp ++
        (signL cn ++ ((c :: cs) ++ '.' :: (cf ++ [')']))))))))))) =
      .ok [] ((Num.dec an (digitsToNat ((a :: as) ++ af)) (-(af.length : Int))).toFloat,
        (Num.dec bn (digitsToNat ((b :: bs) ++ bf)) (-(bf.length : Int))).toFloat,
        (Num.dec cn (digitsToNat ((c :: cs) ++ cf)) (-(cf.length : Int))).toFloat, 1.0) := by
  have hda : isDigit a = true := by simp only [List.all_cons, Bool.and_eq_true] at ha; exact ha.1
  have hdb : isDigit b = true := by simp only [List.all_cons, Bool.and_eq_true] at hb; exact hb.1
  have hdc : isDigit c = true := by simp only [List.all_cons, Bool.and_eq_true] at hc; exact hc.1
  generalize hC : signL cn ++ ((c :: cs) ++ '.' :: (cf ++ [')'])) = Cseg
  generalize hB : signL bn ++ ((b :: bs) ++ '.' :: (bf ++ ',' :: (sp ++ Cseg))) = Bseg
  generalize hA : signL an ++ ((a :: as) ++ '.' :: (af ++ ',' :: (sp ++ Bseg))) = Aseg
  obtain ⟨x1, xs1, e1, nb1⟩ := isBlank_sign_digit an a (as ++ '.' :: (af ++ ',' :: (sp ++ Bseg))) hda
  obtain ⟨x2, xs2, e2, nb2⟩ := isBlank_sign_digit bn b (bs ++ '.' :: (bf ++ ',' :: (sp ++ Cseg))) hdb
  obtain ⟨x3, xs3, e3, nb3⟩ := isBlank_sign_digit cn c (cs ++ '.' :: (cf ++ [')'])) hdc
  have eA : Aseg = x1 :: xs1 := by rw [← hA, ← e1]; rfl
  have eB : Bseg = x2 :: xs2 := by rw [← hB, ← e2]; rfl
  have eC : Cseg = x3 :: xs3 := by rw [← hC, ← e3]; rfl
  apply three_ok number number number Aseg (',' :: (sp ++ Bseg)) Bseg (',' :: (sp ++ Cseg)) Cseg
  · rw [eA, space0_nonblank x1 xs1 nb1, ← eA, ← hA]
    exact number_sfrac_term an a as af ',' _ (Or.inl rfl) ha haf
  · rw [eB]; exact separator_comma_nb sp hsp x2 xs2 nb2
  · rw [← hB]; exact number_sfrac_term bn b bs bf ',' _ (Or.inl rfl) hb hbf
  · rw [eC]; exact separator_comma_nb sp hsp x3 xs3 nb3
  · rw [← hC]; exact number_sfrac_term cn c cs cf ')' [] (Or.inr rfl) hc hcf

end Pastel.P
