/-
What the formatter model prints for numbers, as digit lists the parser lemmas can consume:
`toString n` for naturals, `placePoint` (the digits of `{:.N}`), and their values.
-/
import Pastel.Lemmas.ParseStart
import Pastel.Model.Format

namespace Pastel.P
open Pastel

theorem isDigit_of_core {c : Char} (h : c.isDigit = true) : isDigit c = true := by
  unfold Char.isDigit at h
  unfold isDigit
  simp only [Bool.and_eq_true, decide_eq_true_eq] at h ⊢
  have h0 : (48 : UInt32) ≤ c.val := h.1
  have h1 : c.val ≤ (57 : UInt32) := h.2
  constructor
  · show '0'.val ≤ c.val
    exact h0
  · show c.val ≤ '9'.val
    exact h1

/-- The decimal digits of a natural number: non-empty, all digits, and they denote the number. -/
theorem natDigits_spec (n : Nat) :
    (Fmt.natDigits n).toList ≠ [] ∧ (Fmt.natDigits n).toList.all isDigit = true ∧
      digitsToNat (Fmt.natDigits n).toList = n := by
  have e : (Fmt.natDigits n).toList = Nat.toDigits 10 n := by
    simp [Fmt.natDigits, toString, Nat.repr]
  rw [e]
  refine ⟨Nat.toDigits_ne_nil, ?_, ?_⟩
  · rw [List.all_eq_true]
    intro c hc
    exact isDigit_of_core (Nat.isDigit_of_mem_toDigits (by decide) (by decide) hc)
  · have := @Nat.ofDigitChars_ten_toDigits n
    rw [Nat.ofDigitChars_eq_foldl] at this
    unfold digitsToNat
    have hf : (fun (acc : Nat) (c : Char) => acc * 10 + (c.toNat - '0'.toNat)) =
        (fun sofar c => 10 * sofar + (c.toNat - '0'.toNat)) := by
      funext a c; rw [Nat.mul_comm]
    rw [hf]
    exact this

theorem digitsToNat_append (a b : List Char) :
    digitsToNat (a ++ b) = b.foldl (fun acc c => acc * 10 + (c.toNat - '0'.toNat)) (digitsToNat a) := by
  unfold digitsToNat
  rw [List.foldl_append]

theorem digitsToNat_zeros (k : Nat) (b : List Char) : digitsToNat (List.replicate k '0' ++ b) = digitsToNat b := by
  rw [digitsToNat_append]
  have : digitsToNat (List.replicate k '0') = 0 := by
    induction k with
    | zero => rfl
    | succ k ih =>
      have e : List.replicate (k + 1) '0' = List.replicate k '0' ++ ['0'] := by
        rw [List.replicate_succ']
      rw [e, digitsToNat_append, ih]
      rfl
  rw [this]
  rfl

/-- The digit list `placePoint` splits: the digits of `q`, left-padded with zeros to more than
`prec` digits. -/
def paddedDigits (q prec : Nat) : List Char :=
  let ds := (Fmt.natDigits q).toList
  if ds.length ≤ prec then List.replicate (prec + 1 - ds.length) '0' ++ ds else ds

theorem paddedDigits_spec (q prec : Nat) :
    prec < (paddedDigits q prec).length ∧ (paddedDigits q prec).all isDigit = true ∧
      digitsToNat (paddedDigits q prec) = q := by
  obtain ⟨hne, hall, hval⟩ := natDigits_spec q
  unfold paddedDigits
  simp only []
  split
  · next h =>
    refine ⟨?_, ?_, ?_⟩
    · simp only [List.length_append, List.length_replicate]; omega
    · rw [List.all_append, hall, Bool.and_true, List.all_eq_true]
      intro c hc
      rw [List.mem_replicate] at hc
      rw [hc.2]; decide
    · rw [digitsToNat_zeros, hval]
  · next h => exact ⟨by omega, hall, hval⟩

/-- `{:.N}` with `N > 0`: the padded digits with a point `N` places from the right. -/
theorem placePoint_pos (q prec : Nat) (hp : 0 < prec) :
    (Fmt.placePoint q prec).toList =
      (paddedDigits q prec).take ((paddedDigits q prec).length - prec) ++ '.' ::
        (paddedDigits q prec).drop ((paddedDigits q prec).length - prec) := by
  have hl : (Fmt.natDigits q).toList.length = (Fmt.natDigits q).length := String.length_toList
  have hp' : ¬ prec = 0 := by omega
  by_cases h : (Fmt.natDigits q).length ≤ prec
  · have h' : (Fmt.natDigits q).toList.length ≤ prec := by omega
    simp [Fmt.placePoint, paddedDigits, h, h', hp', String.toList_append, hl]
  · have h' : ¬ (Fmt.natDigits q).toList.length ≤ prec := by omega
    simp [Fmt.placePoint, paddedDigits, h, h', hp', String.toList_append, hl]

theorem placePoint_zero (q : Nat) : (Fmt.placePoint q 0).toList = (Fmt.natDigits q).toList := by
  unfold Fmt.placePoint
  simp

end Pastel.P
