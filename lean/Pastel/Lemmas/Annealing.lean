/-
The annealing loop keeps an exact nearest-neighbour table, hence its closest pair always has
a free member, hence no fixed colour is ever mutated.  Combines C15's exactness with C14's
step lemmas.  Order-only; the metric is assumed symmetric, NaN-free and below the sentinel.
-/
import Pastel.Lemmas.DistinctTotals
import Pastel.Model.Distinct

namespace Pastel
open Sc ScOrd

/-- What the loop needs from a distance metric on Lab triples. -/
structure MetricOk {α : Type} [ScT α] (big : α) (m : Metric) : Prop where
  sym : ∀ a b : Lab3 α, metricDist m a b = metricDist m b a
  notNaN : ∀ a b : Lab3 α, isNaN (metricDist m a b) = false
  lt_big : ∀ a b : Lab3 α, metricDist m a b < big
  zero_ok : isNaN (0.0 : α) = false ∧ (0.0 : α) < big

variable {α : Type} [ScT α] [ScOrd α]

theorem labDist_ok (big : α) (m : Metric) (hm : MetricOk big m) (labs : List (Lab3 α)) :
    DistOk big (labDist m labs) := by
  refine ⟨?_, ?_, ?_⟩
  · intro i j
    unfold labDist
    cases hi : labs[i]? <;> cases hj : labs[j]? <;> simp [hm.sym]
  · intro i j
    unfold labDist
    cases hi : labs[i]? <;> cases hj : labs[j]? <;> simp [hm.notNaN, hm.zero_ok.1]
  · intro i j
    unfold labDist
    cases hi : labs[i]? <;> cases hj : labs[j]? <;> simp [hm.lt_big, hm.zero_ok.2]

/-- Changing the label at `c` does not change distances between other indices. -/
theorem labDist_set_agree (m : Metric) (labs : List (Lab3 α)) (c : Nat) (x : Lab3 α) :
    ∀ i j, i ≠ c → j ≠ c → labDist m (labs.set c x) i j = labDist m labs i j := by
  intro i j hi hj
  unfold labDist
  rw [List.getElem?_set_ne (Ne.symm hi), List.getElem?_set_ne (Ne.symm hj)]

/-- The invariant of the annealing loop. -/
structure SaInv (big : α) (p : SaParams α) (n : Nat) (st : SaState α) : Prop where
  clen : st.colors.length = n
  llen : st.labs.length = n
  exact : Exact (labDist p.metric st.labs) n st.result.closest
  fixed : st.result.numFixed = p.numFixed
  pairFromTotals : ∃ prev, st.result.pair = (updateTotals big st.result.numFixed prev st.result.closest).pair

/-- Under the invariant (and with a free colour) the recorded closest pair has a free member. -/
theorem SaInv.pair_free (big : α) (p : SaParams α) (n : Nat) (hm : MetricOk big p.metric)
    (st : SaState α) (h : SaInv big p n st) (hk : p.numFixed < n) :
    p.numFixed ≤ st.result.pair.1 ∨ p.numFixed ≤ st.result.pair.2 := by
  obtain ⟨prev, hp⟩ := h.pairFromTotals
  have hd := labDist_ok big p.metric hm st.labs
  -- the entry of the free colour `numFixed` is eligible
  have hlen : st.result.closest.length = n := h.exact.1
  have hkl : p.numFixed < st.result.closest.length := by rw [hlen]; exact hk
  have helig : ∃ j e, st.result.closest[j]? = some e ∧ Eligible st.result.numFixed j e := by
    refine ⟨p.numFixed, st.result.closest[p.numFixed], List.getElem?_eq_getElem hkl, ?_⟩
    unfold Eligible; rw [h.fixed]; omega
  obtain ⟨i, m', _, _, _, hpair, _, hfree⟩ :=
    @exact_totals_aux α _ _ big (labDist p.metric st.labs) n st.result.numFixed prev hd st.result.closest h.exact helig
  rw [hp, hpair]
  simp only []
  rw [h.fixed] at hfree
  exact hfree

end Pastel

namespace Pastel
open Sc ScOrd

variable {α : Type} [ScT α] [ScOrd α]

/-- The invariant holds initially (at least two colours). -/
theorem saInv_init (big : α) (p : SaParams α) (colors : List (Color α)) (d : Draws)
    (hm : MetricOk big p.metric) (hn : 2 ≤ colors.length) :
    SaInv big p colors.length
      { colors := colors, labs := colors.map lab3Of, temperature := p.initialTemperature,
        result := drNew big (labDist p.metric (colors.map lab3Of)) colors.length p.numFixed, draws := d } := by
  refine ⟨rfl, by simp, ?_, rfl, ⟨(usizeMax, usizeMax), rfl⟩⟩
  exact new_table_exact big _ colors.length (labDist_ok big p.metric hm _) hn

/-- Committing or rejecting a proposal keeps the invariant. -/
theorem saInv_commit (big : α) (p : SaParams α) (n : Nat) (hm : MetricOk big p.metric) (hn : 2 ≤ n)
    (st : SaState α) (h : SaInv big p n st) (idx : Nat) (hidx : idx < n)
    (rgb : UInt8 × UInt8 × UInt8) (d : Draws) :
    SaInv big p n (commitMove big p st idx rgb d) := by
  unfold commitMove
  simp only []
  have hex' : Exact (labDist p.metric (st.labs.set idx (lab3Of (fromRgba8 rgb.1 rgb.2.1 rgb.2.2 (1.0 : α))))) n
      (drUpdate big (labDist p.metric (st.labs.set idx (lab3Of (fromRgba8 rgb.1 rgb.2.1 rgb.2.2 (1.0 : α)))))
        st.colors.length st.result idx).closest := by
    rw [h.clen]
    exact update_table_exact big (labDist p.metric st.labs) _ n idx (labDist_ok big p.metric hm _) hn hidx
      (labDist_set_agree p.metric st.labs idx _) st.result.closest h.exact
  cases p.target <;> simp only [] <;> split
  all_goals first
    | exact ⟨by simp [h.clen], by simp [h.llen], hex', h.fixed, ⟨st.result.pair, rfl⟩⟩
    | exact ⟨h.clen, h.llen, h.exact, h.fixed, h.pairFromTotals⟩

theorem saInv_cool (big : α) (p : SaParams α) (n : Nat) (iter : Nat) (st : SaState α) (h : SaInv big p n st) :
    SaInv big p n (cool p iter st) := by
  unfold cool
  split
  · exact ⟨h.clen, h.llen, h.exact, h.fixed, h.pairFromTotals⟩
  · exact h

/-- One iteration keeps the invariant. -/
theorem saInv_step (big : α) (p : SaParams α) (n : Nat) (hm : MetricOk big p.metric) (hn : 2 ≤ n)
    (st st' : SaState α) (iter : Nat) (h : SaInv big p n st) (hs : saStep big p st iter = some st') :
    SaInv big p n st' := by
  unfold saStep at hs
  simp only [] at hs
  split at hs
  · exact absurd hs (by simp)
  · next old hold =>
    simp only [Option.some.injEq] at hs
    subst hs
    have hidx : (chooseIndex p st).1 < n := by
      rw [← h.clen]; exact (List.getElem?_eq_some_iff.mp hold).1
    exact saInv_cool big p n iter _ (saInv_commit big p n hm hn st h _ hidx _ _)

end Pastel
