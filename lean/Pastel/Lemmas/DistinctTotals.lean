/-
`update_totals` (distinct.rs:349): the reported minimum is the least entry among the colours
that are free or whose neighbour is free, the reported closest pair attains it and contains a
free colour.  Order-only.
-/
import Pastel.Lemmas.DistinctExact

namespace Pastel
open Sc ScOrd

variable {D : Type} [Sc D] [ScOrd D]

/-- An entry takes part in the aggregates unless both the colour and its neighbour are fixed. -/
def Eligible (k : Nat) (i : Nat) (e : Entry D) : Prop := ¬ (i < k ∧ e.2 < k)

instance (k i : Nat) (e : Entry D) : Decidable (Eligible k i e) := by unfold Eligible; infer_instance

/-- Invariant of the `update_totals` loop after the first `i` entries. -/
structure TotInv (big : D) (k : Nat) (prev : Nat × Nat) (seen : List (Entry D)) (a : Totals D) : Prop where
  minNotNaN : isNaN a.min = false
  minLe : ∀ j e, seen[j]? = some e → Eligible k j e → a.min ≤ e.1
  none_seen : (∀ j e, seen[j]? = some e → ¬ Eligible k j e) → a.pairSet = false ∧ a.pair = prev ∧ a.min = big
  some_seen : (∃ j e, seen[j]? = some e ∧ Eligible k j e) →
    a.pairSet = true ∧ ∃ j e, seen[j]? = some e ∧ Eligible k j e ∧ a.pair = (j, e.2) ∧ feq e.1 a.min = true

theorem fmin_spec {a b : D} (ha : isNaN a = false) (hb : isNaN b = false) :
    isNaN (fmin a b) = false ∧ fmin a b ≤ a ∧ fmin a b ≤ b ∧ (fmin a b = a ∨ fmin a b = b) := by
  rw [fmin_def]
  simp only [ha, hb, Bool.false_eq_true, if_false]
  by_cases h : b < a
  · rw [if_pos h]; exact ⟨hb, le_of_lt h, le_refl hb, Or.inr rfl⟩
  · rw [if_neg h]
    refine ⟨ha, le_refl ha, ?_, Or.inl rfl⟩
    rcases lt_or_le hb ha with h' | h'
    · exact absurd h' h
    · exact h'

theorem totalsStep_inv (big : D) (k : Nat) (prev : Nat × Nat) (hbig : isNaN big = false)
    (seen : List (Entry D)) (a : Totals D) (e : Entry D) (he : isNaN e.1 = false) (heb : e.1 ≤ big)
    (h : TotInv big k prev seen a) :
    TotInv big k prev (seen ++ [e]) (totalsStep k (a, seen.length) e).1 ∧
    (totalsStep k (a, seen.length) e).2 = seen.length + 1 := by
  have lookup : ∀ j x, (seen ++ [e])[j]? = some x → (j < seen.length ∧ seen[j]? = some x) ∨ (j = seen.length ∧ x = e) := by
    intro j x hx
    by_cases hj : j < seen.length
    · left; rw [List.getElem?_append_left hj] at hx; exact ⟨hj, hx⟩
    · right
      rw [List.getElem?_append_right (by omega)] at hx
      have : j - seen.length = 0 := by
        by_cases h0 : j - seen.length = 0
        · exact h0
        · rw [List.getElem?_eq_none (by simp; omega)] at hx; cases hx
      rw [this] at hx
      simp at hx
      exact ⟨by omega, hx.symm⟩
  unfold totalsStep
  by_cases hskip : seen.length < k ∧ e.2 < k
  · -- a fixed colour whose neighbour is fixed: skipped
    simp only []
    rw [if_pos hskip]
    refine ⟨⟨h.minNotNaN, ?_, ?_, ?_⟩, rfl⟩
    · intro j x hx hel
      rcases lookup j x hx with ⟨_, hx'⟩ | ⟨hj, hxe⟩
      · exact h.minLe j x hx' hel
      · subst hxe; subst hj; exact absurd hskip hel
    · intro hnone
      apply h.none_seen
      intro j x hx
      exact hnone j x (by rw [List.getElem?_append_left ((List.getElem?_eq_some_iff.mp hx).1)]; exact hx)
    · rintro ⟨j, x, hx, hel⟩
      rcases lookup j x hx with ⟨_, hx'⟩ | ⟨hj, hxe⟩
      · obtain ⟨hs, j', x', hx2, hel2, hp, hq⟩ := h.some_seen ⟨j, x, hx', hel⟩
        exact ⟨hs, j', x', by rw [List.getElem?_append_left ((List.getElem?_eq_some_iff.mp hx2).1)]; exact hx2, hel2, hp, hq⟩
      · subst hxe; subst hj; exact absurd hskip hel
  · -- an eligible entry
    simp only []
    rw [if_neg hskip]
    have hel : Eligible k seen.length e := hskip
    have hfree : seen.length ≥ k ∨ e.2 ≥ k := by
      unfold Eligible at hel
      by_cases h1 : seen.length < k
      · right; by_cases h2 : e.2 < k
        · exact absurd ⟨h1, h2⟩ hel
        · omega
      · left; omega
    have hm := fmin_spec h.minNotNaN he
    -- the accumulator after the pair update has the same `min` as before
    have key : ∀ (a1 : Totals D), a1.min = a.min →
        (a1.pairSet = true ∧ a1.pair = (seen.length, e.2) ∧ (e.1 < a.min ∨ a.pairSet = false) ∨
         a1.pairSet = a.pairSet ∧ a1.pair = a.pair ∧ ¬ (e.1 < a.min ∨ a.pairSet = false)) →
        TotInv big k prev (seen ++ [e]) { a1 with min := fmin a1.min e.1 } := by
      intro a1 hmin hcase
      rw [hmin]
      refine ⟨hm.1, ?_, ?_, ?_⟩
      · intro j x hx helx
        rcases lookup j x hx with ⟨_, hx'⟩ | ⟨hj, hxe⟩
        · exact le_trans hm.2.1 (h.minLe j x hx' helx)
        · subst hxe; exact hm.2.2.1
      · intro hnone
        exact absurd hel (hnone seen.length e (by simp))
      · intro _
        rcases hcase with ⟨hs, hp, hwhy⟩ | ⟨hs, hp, hwhy⟩
        · refine ⟨hs, seen.length, e, by simp, hel, hp, ?_⟩
          -- the new entry is the minimum
          rcases hwhy with hlt | hunset
          · have : fmin a.min e.1 = e.1 := by
              rw [fmin_def]; simp [h.minNotNaN, he, hlt]
            rw [this]; exact feq_refl he
          · -- nothing eligible seen before: min was the sentinel
            have hnone : ∀ j x, seen[j]? = some x → ¬ Eligible k j x := by
              intro j x hx helx
              have := (h.some_seen ⟨j, x, hx, helx⟩).1
              rw [hunset] at this; cases this
            have hbigmin := (h.none_seen hnone).2.2
            rw [hbigmin]
            rcases hm.2.2.2 with h1 | h1
            · -- fmin big e.1 = big, so big ≤ e.1 ≤ big
              rw [hbigmin] at h1
              have hle : big ≤ e.1 := by
                have := hm.2.2.1; rw [hbigmin, h1] at this; exact this
              rw [h1]; exact le_antisymm_feq heb hle
            · rw [hbigmin] at h1; rw [h1]; exact feq_refl he
        · -- the pair is kept: it was set and its distance is still the minimum
          have hnot := hwhy
          have hset : a.pairSet = true := by
            cases hq : a.pairSet
            · exact absurd (Or.inr hq) hnot
            · rfl
          have hnlt : ¬ e.1 < a.min := fun hh => hnot (Or.inl hh)
          have hsome : ∃ j x, seen[j]? = some x ∧ Eligible k j x := by
            by_cases hex : ∃ j x, seen[j]? = some x ∧ Eligible k j x
            · exact hex
            · have hnone : ∀ j x, seen[j]? = some x → ¬ Eligible k j x := fun j x hx hel' => hex ⟨j, x, hx, hel'⟩
              have := (h.none_seen hnone).1
              rw [hset] at this; cases this
          obtain ⟨_, j', x', hx2, hel2, hp2, hq2⟩ := h.some_seen hsome
          refine ⟨by rw [hs, hset], j', x', ?_, hel2, by rw [hp, hp2], ?_⟩
          · rw [List.getElem?_append_left ((List.getElem?_eq_some_iff.mp hx2).1)]; exact hx2
          · have : fmin a.min e.1 = a.min := by
              rw [fmin_def]; simp [h.minNotNaN, he, hnlt]
            rw [this]; exact hq2
    by_cases hc : (seen.length ≥ k ∨ e.2 ≥ k) ∧ (e.1 < a.min ∨ a.pairSet = false)
    · simp only []
      rw [if_pos hc]
      exact ⟨key { a with mean := a.mean + e.1, pair := (seen.length, e.2), pairSet := true } rfl
        (Or.inl ⟨rfl, rfl, hc.2⟩), by simp⟩
    · simp only []
      rw [if_neg hc]
      have : ¬ (e.1 < a.min ∨ a.pairSet = false) := fun hh => hc ⟨hfree, hh⟩
      exact ⟨key { a with mean := a.mean + e.1 } rfl (Or.inr ⟨rfl, rfl, this⟩), by simp⟩

/-- The invariant holds after the whole loop. -/
theorem totals_fold (big : D) (k : Nat) (prev : Nat × Nat) (hbig : isNaN big = false) :
    ∀ (rest seen : List (Entry D)) (a : Totals D),
      (∀ e ∈ rest, isNaN e.1 = false ∧ e.1 ≤ big) → TotInv big k prev seen a →
      TotInv big k prev (seen ++ rest) (rest.foldl (totalsStep k) (a, seen.length)).1 := by
  intro rest
  induction rest with
  | nil => intro seen a _ h; simpa using h
  | cons e es ih =>
    intro seen a hall h
    simp only [List.foldl_cons]
    have he := hall e List.mem_cons_self
    have hstep := totalsStep_inv big k prev hbig seen a e he.1 he.2 h
    have : (totalsStep k (a, seen.length) e) = ((totalsStep k (a, seen.length) e).1, (seen ++ [e]).length) := by
      rw [Prod.ext_iff]; exact ⟨rfl, by simp [hstep.2]⟩
    rw [this]
    have := ih (seen ++ [e]) _ (fun x hx => hall x (List.mem_cons_of_mem _ hx)) hstep.1
    simpa using this

/-- `update_totals` from the empty accumulator. -/
theorem totals_spec_aux (big : D) (k : Nat) (prev : Nat × Nat) (t : List (Entry D)) (hbig : isNaN big = false)
    (hall : ∀ e ∈ t, isNaN e.1 = false ∧ e.1 ≤ big) :
    (∀ j e, t[j]? = some e → Eligible k j e → (updateTotals big k prev t).min ≤ e.1) ∧
    ((∃ j e, t[j]? = some e ∧ Eligible k j e) →
      ∃ j e, t[j]? = some e ∧ Eligible k j e ∧ (updateTotals big k prev t).pair = (j, e.2) ∧
        feq e.1 (updateTotals big k prev t).min = true ∧ (j ≥ k ∨ e.2 ≥ k)) := by
  have h0 : TotInv big k prev [] { mean := 0.0, min := big, pair := prev, pairSet := false } :=
    ⟨hbig, fun j e h => by simp at h, fun _ => ⟨rfl, rfl, rfl⟩, fun ⟨j, e, h, _⟩ => by simp at h⟩
  have hinv := totals_fold big k prev hbig t [] _ hall h0
  simp only [List.nil_append, List.length_nil] at hinv
  unfold updateTotals
  simp only []
  refine ⟨hinv.minLe, ?_⟩
  intro hex
  obtain ⟨_, j, e, he, hel, hp, hq⟩ := hinv.some_seen hex
  refine ⟨j, e, he, hel, hp, hq, ?_⟩
  unfold Eligible at hel
  by_cases h1 : j < k
  · right
    by_cases h2 : e.2 < k
    · exact absurd ⟨h1, h2⟩ hel
    · omega
  · left; omega

theorem exact_totals_aux (big : D) (dist : Nat → Nat → D) (n k : Nat) (prev : Nat × Nat) (hd : DistOk big dist)
    (t : List (Entry D)) (hex : Exact dist n t)
    (helig : ∃ j e, t[j]? = some e ∧ Eligible k j e) :
    ∃ i m, i < n ∧ m < n ∧ m ≠ i ∧ (updateTotals big k prev t).pair = (i, m) ∧
      feq (dist i m) (updateTotals big k prev t).min = true ∧ (i ≥ k ∨ m ≥ k) := by
  have hbig : isNaN big = false := (not_nan_of_lt (hd.lt_big 0 0)).2
  have hall : ∀ e ∈ t, isNaN e.1 = false ∧ e.1 ≤ big := by
    intro e he
    obtain ⟨i, hi, hie⟩ := List.getElem_of_mem he
    have hin : i < n := by rw [← hex.1]; exact hi
    obtain ⟨m, _, _, hm, _⟩ := hex.2 i hin
    rw [List.getElem?_eq_getElem hi, hie] at hm
    have : e = (dist i m, m) := Option.some.inj hm
    rw [this]
    exact ⟨hd.notNaN i m, le_of_lt (hd.lt_big i m)⟩
  obtain ⟨j, e, he, _, hp, hq, hfree⟩ := (totals_spec_aux big k prev t hbig hall).2 helig
  have hjn : j < n := by rw [← hex.1]; exact (List.getElem?_eq_some_iff.mp he).1
  obtain ⟨m, hm, hmj, hme, _⟩ := hex.2 j hjn
  rw [he] at hme
  have : e = (dist j m, m) := Option.some.inj hme
  subst this
  exact ⟨j, m, hjn, hm, hmj, hp, hq, hfree⟩

end Pastel
