/-
Helper lemmas about the parser model on runs of decimal digits (used by the print → parse
theorems of C01/C02): `recognize_float`, `double`, the separator, the optional alpha and the shared
three-component shape, evaluated symbolically on `digits ++ ',' :: rest`.
-/
import Pastel.Model.Parser

namespace Pastel.P

/-- A string without whitespace at either end is untouched by `trim`. -/
theorem trim_id (a : Char) (mid : List Char) (z : Char) (ha : isWhitespace a = false) (hz : isWhitespace z = false) :
    trim (a :: (mid ++ [z])) = a :: (mid ++ [z]) := by
  unfold trim trimStart
  have h1 : (a :: (mid ++ [z])).dropWhile isWhitespace = a :: (mid ++ [z]) := by
    rw [List.dropWhile_cons]; simp [ha]
  rw [h1]
  have h2 : (a :: (mid ++ [z])).reverse = z :: (mid.reverse ++ [a]) := by simp
  rw [h2, List.dropWhile_cons]
  simp [hz]

theorem span_digits (ds : List Char) (c : Char) (rest : List Char) (hd : ds.all isDigit = true) (hc : isDigit c = false) :
    span isDigit (ds ++ c :: rest) = (ds, c :: rest) := by
  unfold span
  have h1 : ∀ x ∈ ds, isDigit x = true := by simpa using hd
  rw [List.takeWhile_append_of_pos h1, List.dropWhile_append_of_pos h1]
  simp [hc]

theorem digit_not_sign (d : Char) (h : isDigit d = true) : d ≠ '+' ∧ d ≠ '-' ∧ d ≠ '.' ∧ isBlank d = false := by
  unfold isDigit at h
  simp only [Bool.and_eq_true, decide_eq_true_eq] at h
  have h0 : '0'.toNat ≤ d.toNat := h.1
  have h9 : d.toNat ≤ '9'.toNat := h.2
  have e0 : '0'.toNat = 48 := by decide
  have e9 : '9'.toNat = 57 := by decide
  refine ⟨?_, ?_, ?_, ?_⟩
  · rintro rfl; revert h0; decide
  · rintro rfl; revert h0; decide
  · rintro rfl; revert h0; decide
  · unfold isBlank
    have : d ≠ ' ' := by rintro rfl; revert h0; decide
    have : d ≠ '\t' := by rintro rfl; revert h0; decide
    simp [*]

/-- A run of digits followed by `,` or `)` is read by `recognize_float` as that integer, and
the rest is left untouched. -/
theorem recognizeFloat_digits (d : Char) (ds : List Char) (c : Char) (rest : List Char)
    (hd : (d :: ds).all isDigit = true) (hc : c = ',' ∨ c = ')') :
    recognizeFloat ((d :: ds) ++ c :: rest) = .ok (c :: rest) (.dec false (digitsToNat (d :: ds)) 0) := by
  have hdd : isDigit d = true := by simp only [List.all_cons, Bool.and_eq_true] at hd; exact hd.1
  obtain ⟨np, nm, _, _⟩ := digit_not_sign d hdd
  have hcd : isDigit c = false := by rcases hc with rfl | rfl <;> decide
  have hsp := span_digits (d :: ds) c rest hd hcd
  have hsp' : span isDigit (d :: (ds ++ c :: rest)) = (d :: ds, c :: rest) := hsp
  unfold recognizeFloat
  simp only [List.cons_append]
  rcases hc with rfl | rfl <;> simp [np, nm, many1, hsp']


/-- The value `number` yields for a run of digits. -/
def digitsVal (ds : List Char) : Float := (Num.dec false (digitsToNat ds) 0).toFloat

theorem number_digits (d : Char) (ds : List Char) (c : Char) (rest : List Char)
    (hd : (d :: ds).all isDigit = true) (hc : c = ',' ∨ c = ')') :
    number ((d :: ds) ++ c :: rest) = .ok (c :: rest) (digitsVal (d :: ds)) := by
  unfold number double
  rw [recognizeFloat_digits d ds c rest hd hc]
  rfl

theorem space0_digit (d : Char) (tl : List Char) (hd : isDigit d = true) : space0 (d :: tl) = d :: tl := by
  unfold space0
  rw [List.dropWhile_cons, (digit_not_sign d hd).2.2.2]
  simp

/-- `,` optionally followed by one blank, then a digit: the separator consumes exactly that. -/
theorem separator_comma (sp : List Char) (hsp : sp = [] ∨ sp = [' ']) (d : Char) (tl : List Char) (hd : isDigit d = true) :
    separator (',' :: (sp ++ d :: tl)) = .ok (d :: tl) () := by
  have hb := (digit_not_sign d hd).2.2.2
  have hc : isBlank ',' = false := by decide
  have hs : isBlank ' ' = true := by decide
  unfold separator space0 char
  rcases hsp with rfl | rfl <;> simp [hb, hc, hs]

theorem alpha_close : alpha [')'] = .ok [')'] 1.0 := by
  have hc : isBlank ')' = false := by decide
  unfold alpha separator space0 char many1 span
  simp [hc, PR.bind]


/-- The text `A,B,C)` or `A, B, C)` with `A`, `B`, `C` runs of digits, read by the shared shape of
the functional notations. -/
theorem three_digits (a : Char) (as : List Char) (b : Char) (bs : List Char) (c : Char) (cs : List Char)
    (sp : List Char) (hsp : sp = [] ∨ sp = [' '])
    (ha : (a :: as).all isDigit = true) (hb : (b :: bs).all isDigit = true) (hc : (c :: cs).all isDigit = true) :
    three number number number true ((a :: as) ++ ',' :: (sp ++ ((b :: bs) ++ ',' :: (sp ++ ((c :: cs) ++ [')']))))) =
      .ok [] (digitsVal (a :: as), digitsVal (b :: bs), digitsVal (c :: cs), 1.0) := by
  have hda : isDigit a = true := by simp only [List.all_cons, Bool.and_eq_true] at ha; exact ha.1
  have hdb : isDigit b = true := by simp only [List.all_cons, Bool.and_eq_true] at hb; exact hb.1
  have hdc : isDigit c = true := by simp only [List.all_cons, Bool.and_eq_true] at hc; exact hc.1
  unfold three
  rw [show (a :: as) ++ ',' :: (sp ++ ((b :: bs) ++ ',' :: (sp ++ ((c :: cs) ++ [')'])))) =
      a :: (as ++ ',' :: (sp ++ ((b :: bs) ++ ',' :: (sp ++ ((c :: cs) ++ [')']))))) from rfl,
    space0_digit a _ hda,
    show a :: (as ++ ',' :: (sp ++ ((b :: bs) ++ ',' :: (sp ++ ((c :: cs) ++ [')']))))) =
      (a :: as) ++ ',' :: (sp ++ ((b :: bs) ++ ',' :: (sp ++ ((c :: cs) ++ [')'])))) from rfl,
    number_digits a as ',' _ ha (Or.inl rfl)]
  simp only [PR.bind]
  rw [show sp ++ ((b :: bs) ++ ',' :: (sp ++ ((c :: cs) ++ [')']))) = sp ++ b :: (bs ++ ',' :: (sp ++ ((c :: cs) ++ [')']))) from rfl,
    separator_comma sp hsp b _ hdb]
  simp only []
  rw [show b :: (bs ++ ',' :: (sp ++ ((c :: cs) ++ [')']))) = (b :: bs) ++ ',' :: (sp ++ ((c :: cs) ++ [')'])) from rfl,
    number_digits b bs ',' _ hb (Or.inl rfl)]
  simp only []
  rw [show sp ++ ((c :: cs) ++ [')']) = sp ++ c :: (cs ++ [')']) from rfl, separator_comma sp hsp c _ hdc]
  simp only []
  rw [show c :: (cs ++ [')']) = (c :: cs) ++ ')' :: [] from rfl, number_digits c cs ')' [] hc (Or.inr rfl)]
  simp only []
  rw [alpha_close]
  simp [space0, char, isBlank]


theorem parseHex_r (tl : List Char) : parseHex ('r' :: tl) = .err := by
  have h : isHexDigit 'r' = false := by decide
  unfold parseHex stripHash many1 span
  simp [h]

end Pastel.P
