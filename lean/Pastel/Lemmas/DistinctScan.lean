/-
The central lemma about one pass of `update_distances` (`scan` in the model): a complete
characterisation of the table and of the recalculation list after the pass.  Order-only.
-/
import Pastel.Order
import Pastel.Lemmas.Clamp
import Pastel.Lemmas.Distinct
import Mathlib.Tactic.Set

namespace Pastel
open Sc ScOrd

variable {D : Type} [Sc D] [ScOrd D]

/-- What the bookkeeping needs from the distance function: symmetric, never NaN, every value
strictly below the sentinel (`Scalar::MAX`). -/
structure DistOk (big : D) (dist : Nat → Nat → D) : Prop where
  sym : ∀ i j, dist i j = dist j i
  notNaN : ∀ i j, isNaN (dist i j) = false
  lt_big : ∀ i j, dist i j < big

/-- A general invariant rule for folds over `List.range n`. -/
theorem foldl_range_inv {σ : Type} (P : Nat → σ → Prop) (f : σ → Nat → σ) (s0 : σ) (n : Nat)
    (h0 : P 0 s0) (hstep : ∀ k, k < n → ∀ s, P k s → P (k + 1) (f s k)) :
    P n ((List.range n).foldl f s0) := by
  induction n with
  | zero => simpa using h0
  | succ m ih =>
    rw [List.range_succ, List.foldl_append]
    simp only [List.foldl_cons, List.foldl_nil]
    apply hstep m (Nat.lt_succ_self m)
    exact ih (fun k hk s hs => hstep k (Nat.lt_succ_of_lt hk) s hs)

/-- The entry of index `i` as the loop reads it. -/
def entryAt (t : List (Entry D)) (i : Nat) (d : D) : Entry D := t.getD i (d, usizeMax)

/-- The updated entry of `j ≠ color` after the pass. -/
def updEntry (dist : Nat → Nat → D) (color : Nat) (t0 : List (Entry D)) (j : Nat) : Entry D :=
  let e := entryAt t0 j (dist j color)
  if dist j color < e.1 then (dist j color, color) else e

/-- State of the `color` entry after processing the indices below `k`: still the sentinel if no
other index was seen, otherwise the first minimiser of `dist · color` among those seen. -/
def ColorE (big : D) (dist : Nat → Nat → D) (color k : Nat) (e : Entry D) : Prop :=
  (e = (big, usizeMax) ∧ ∀ j, j < k → j = color) ∨
  (∃ m, m < k ∧ m ≠ color ∧ e = (dist m color, m) ∧ ∀ j, j < k → j ≠ color → dist m color ≤ dist j color)

/-- The loop invariant of one pass. -/
structure ScanInv (big : D) (dist : Nat → Nat → D) (n color : Nat) (changed : Bool)
    (t0 : List (Entry D)) (k : Nat) (st : ScanState D) : Prop where
  len : st.tbl.length = n
  others : ∀ j, j < n → j ≠ color →
    st.tbl[j]? = if j < k then some (updEntry dist color t0 j) else t0[j]?
  colorE : ∃ e, st.tbl[color]? = some e ∧ ColorE big dist color k e
  todo : ∀ i, i ∈ st.todo ↔ (i < k ∧ i ≠ color ∧ changed = true ∧
      ¬ (dist i color < (entryAt t0 i (dist i color)).1) ∧ (entryAt t0 i (dist i color)).2 = color)

theorem getD_of_getElem? {t : List (Entry D)} {i : Nat} {e d : Entry D} (h : t[i]? = some e) :
    t.getD i d = e := by
  simp [List.getD, h]

theorem scanStep_inv (big : D) (dist : Nat → Nat → D) (n color : Nat) (changed : Bool)
    (hd : DistOk big dist) (t0 : List (Entry D)) (ht0 : t0.length = n) (hc : color < n)
    (k : Nat) (hk : k < n) (st : ScanState D) (h : ScanInv big dist n color changed t0 k st) :
    ScanInv big dist n color changed t0 (k + 1) (scanStep dist color changed st k) := by
  unfold scanStep
  by_cases hkc : k = color
  · -- the index of the changed colour itself is skipped
    simp only [hkc, if_true]
    refine ⟨h.len, ?_, ?_, ?_⟩
    · intro j hj hjc
      rw [h.others j hj hjc]
      have : (j < k + 1) = (j < k) := by
        apply propext; constructor
        · intro h1; omega
        · intro h1; omega
      rw [hkc] at this ⊢
      simp only [this]
    · obtain ⟨e, he, hce⟩ := h.colorE
      refine ⟨e, he, ?_⟩
      rcases hce with ⟨h1, h2⟩ | ⟨m, hm, hmc, hme, hmin⟩
      · left; refine ⟨h1, ?_⟩
        intro j hj
        by_cases hjk : j < k
        · exact h2 j hjk
        · omega
      · right; refine ⟨m, by omega, hmc, hme, ?_⟩
        intro j hj hjc
        apply hmin j _ hjc
        omega
    · intro i
      rw [h.todo i]
      constructor
      · rintro ⟨a, b, c⟩; exact ⟨by omega, b, c⟩
      · rintro ⟨a, b, c⟩; exact ⟨by omega, b, c⟩
  · simp only [hkc, if_false]
    -- the entry of k as the loop reads it is the original one
    have hkth : st.tbl[k]? = t0[k]? := by
      have := h.others k hk hkc
      simpa using this
    have hk0 : k < t0.length := by omega
    have hek : st.tbl.getD k (dist k color, usizeMax) = entryAt t0 k (dist k color) := by
      unfold entryAt
      simp only [List.getD, hkth]
    rw [hek]
    obtain ⟨e, he, hce⟩ := h.colorE
    -- first update (entry k)
    set d := dist k color with hdk
    set ek := entryAt t0 k d with hekdef
    -- table after the first conditional
    have key1 : ∀ (tbl1 : List (Entry D)), tbl1 = (if d < ek.1 then st.tbl.set k (d, color) else st.tbl) →
        tbl1.length = n ∧ tbl1[k]? = some (updEntry dist color t0 k) ∧ tbl1[color]? = some e ∧
        (∀ j, j ≠ k → tbl1[j]? = st.tbl[j]?) := by
      intro tbl1 h1
      have hlen : st.tbl.length = n := h.len
      by_cases hlt : d < ek.1
      · simp only [hlt, if_true] at h1
        subst h1
        refine ⟨by simp [hlen], ?_, ?_, ?_⟩
        · rw [List.getElem?_set_self (by omega)]
          simp [updEntry, ← hdk, ← hekdef, hlt]
        · rw [List.getElem?_set_ne (by omega)]; exact he
        · intro j hj; rw [List.getElem?_set_ne (by omega)]
      · simp only [hlt, if_false] at h1
        subst h1
        refine ⟨hlen, ?_, he, fun j _ => rfl⟩
        rw [hkth]
        have : t0[k]? = some ek := by
          simp only [hekdef, entryAt, List.getD]
          rw [List.getElem?_eq_getElem hk0]; simp
        rw [this]; simp [updEntry, ← hdk, ← hekdef, hlt]
    -- split on the three shapes of the first conditional; in every shape the table is `tbl1`
    have final : ∀ (st1 : ScanState D),
        st1.tbl = (if d < ek.1 then st.tbl.set k (d, color) else st.tbl) →
        (∀ i, i ∈ st1.todo ↔ (i ∈ st.todo ∨ (i = k ∧ ¬ d < ek.1 ∧ changed = true ∧ ek.2 = color))) →
        ScanInv big dist n color changed t0 (k + 1)
          (if d < (st1.tbl.getD color (d, usizeMax)).1 then { st1 with tbl := st1.tbl.set color (d, k) } else st1) := by
      intro st1 htbl htodo
      obtain ⟨l1, hk1, hc1, hoth⟩ := key1 st1.tbl htbl
      have hec : st1.tbl.getD color (d, usizeMax) = e := getD_of_getElem? hc1
      rw [hec]
      -- the new colour entry
      have hcolorE' : ColorE big dist color (k + 1) (if d < e.1 then (d, k) else e) := by
        have hdn : isNaN d = false := hd.notNaN k color
        rcases hce with ⟨h1, h2⟩ | ⟨m, hm, hmc, hme, hmin⟩
        · -- still the sentinel: replaced
          have : d < e.1 := by rw [h1]; exact hd.lt_big k color
          simp only [this, if_true]
          right
          refine ⟨k, by omega, hkc, rfl, ?_⟩
          intro j hj hjc
          by_cases hjk : j < k
          · exact absurd (h2 j hjk) hjc
          · have : j = k := by omega
            rw [this]; exact le_refl hdn
        · by_cases hlt : d < e.1
          · simp only [hlt, if_true]
            right
            refine ⟨k, by omega, hkc, rfl, ?_⟩
            intro j hj hjc
            by_cases hjk : j < k
            · have h1 := hmin j hjk hjc
              rw [hme] at hlt
              exact le_of_lt (lt_of_lt_of_le hlt h1)
            · have : j = k := by omega
              rw [this]; exact le_refl hdn
          · simp only [hlt, if_false]
            right
            refine ⟨m, by omega, hmc, hme, ?_⟩
            intro j hj hjc
            by_cases hjk : j < k
            · exact hmin j hjk hjc
            · have hjeq : j = k := by omega
              rw [hjeq]
              rw [hme] at hlt
              rcases lt_or_le hdn (hd.notNaN m color) with h' | h'
              · exact absurd h' hlt
              · exact h'
      have hothers' : ∀ (tblF : List (Entry D)), (tblF = st1.tbl.set color (d, k) ∨ tblF = st1.tbl) →
          ∀ j, j < n → j ≠ color → tblF[j]? = if j < k + 1 then some (updEntry dist color t0 j) else t0[j]? := by
        intro tblF hF j hj hjc
        have hbase : tblF[j]? = st1.tbl[j]? := by
          rcases hF with h | h
          · rw [h, List.getElem?_set_ne (by omega)]
          · rw [h]
        rw [hbase]
        by_cases hjk : j = k
        · rw [hjk, hk1]; simp
        · rw [hoth j hjk, h.others j hj hjc]
          have : (j < k + 1) = (j < k) := by
            apply propext; constructor <;> intro h1 <;> omega
          simp only [this]
      have htodo' : ∀ i, i ∈ st1.todo ↔ (i < k + 1 ∧ i ≠ color ∧ changed = true ∧
          ¬ (dist i color < (entryAt t0 i (dist i color)).1) ∧ (entryAt t0 i (dist i color)).2 = color) := by
        intro i
        rw [htodo i, h.todo i]
        constructor
        · rintro (⟨a, b, c⟩ | ⟨rfl, b, c, e'⟩)
          · exact ⟨by omega, b, c⟩
          · exact ⟨by omega, hkc, c, b, e'⟩
        · rintro ⟨a, b, c, e1, e2⟩
          by_cases hik : i < k
          · exact Or.inl ⟨hik, b, c, e1, e2⟩
          · have : i = k := by omega
            subst this
            exact Or.inr ⟨rfl, e1, c, e2⟩
      by_cases hlt : d < e.1
      · simp only [hlt, if_true]
        refine ⟨by simp [l1], hothers' _ (Or.inl rfl), ?_, htodo'⟩
        refine ⟨(d, k), ?_, by simpa [hlt] using hcolorE'⟩
        rw [List.getElem?_set_self (by omega)]
      · simp only [hlt, if_false]
        refine ⟨l1, hothers' _ (Or.inr rfl), ⟨e, hc1, by simpa [hlt] using hcolorE'⟩, htodo'⟩
    -- now the three shapes
    by_cases hlt : d < ek.1
    · simp only [hlt, if_true]
      have := final { st with tbl := st.tbl.set k (d, color) } (by simp [hlt])
        (by intro i; simp [hlt])
      simpa using this
    · simp only [hlt, if_false]
      by_cases hch : (changed && ek.2 == color) = true
      · simp only [hch, if_true]
        have hch' : changed = true ∧ ek.2 = color := by
          simp only [Bool.and_eq_true, beq_iff_eq] at hch; exact hch
        have := final { st with todo := st.todo ++ [k] } (by simp [hlt])
          (by intro i; simp [hlt, hch'.1, hch'.2])
        simpa using this
      · simp only [hch, Bool.false_eq_true, if_false]
        have hch' : ¬ (changed = true ∧ ek.2 = color) := by
          simp only [Bool.and_eq_true, beq_iff_eq] at hch; exact hch
        have := final st (by simp [hlt])
          (by
            intro i
            constructor
            · intro h1; exact Or.inl h1
            · rintro (h1 | ⟨_, _, h3, h4⟩)
              · exact h1
              · exact absurd ⟨h3, h4⟩ hch')
        simpa using this

/-- **Characterisation of one pass.** -/
theorem scan_spec (big : D) (dist : Nat → Nat → D) (n color : Nat) (changed : Bool)
    (hd : DistOk big dist) (t : List (Entry D)) (ht : t.length = n) (hc : color < n) :
    ScanInv big dist n color changed (t.set color (big, usizeMax)) n (scan big dist n color changed t) := by
  unfold scan
  apply foldl_range_inv (ScanInv big dist n color changed (t.set color (big, usizeMax)))
  · refine ⟨by simp [ht], ?_, ?_, ?_⟩
    · intro j _ _; simp
    · refine ⟨(big, usizeMax), ?_, Or.inl ⟨rfl, fun j hj => absurd hj (Nat.not_lt_zero j)⟩⟩
      rw [List.getElem?_set_self (by omega)]
    · intro i; simp
  · intro k hk s hs
    exact scanStep_inv big dist n color changed hd _ (by simp [ht]) hc k hk s hs

end Pastel
