/-
Order-only lemmas about `ColorScale` (model in `Pastel/Model/Scale.lean`).
-/
import Pastel.Order
import Pastel.Lemmas.Clamp
import Pastel.Model.Scale

namespace Pastel
open Sc ScOrd

variable {P C : Type} [Sc P] [ScOrd P]
set_option linter.unusedSectionVars false

/-- `a ≤ b` and not IEEE-equal gives `a < b`. -/
theorem lt_of_le_of_not_feq {a b : P} (h : a ≤ b) (hne : feq a b = false) : a < b := by
  have ⟨ha, hb⟩ := not_nan_of_le h
  rcases lt_or_le ha hb with h' | h'
  · exact h'
  · have := le_antisymm_feq h h'; rw [this] at hne; cases hne

theorem feq_symm {a b : P} (h : feq a b = true) : feq b a = true :=
  le_antisymm_feq (feq_ge h) (feq_le h)

theorem feq_trans {a b c : P} (h1 : feq a b = true) (h2 : feq b c = true) : feq a c = true :=
  le_antisymm_feq (le_trans (feq_le h1) (feq_le h2)) (le_trans (feq_ge h2) (feq_ge h1))

/-- Strictly increasing positions. -/
def SortedStops (l : List (Stop P C)) : Prop := l.Pairwise (fun a b => a.2 < b.2)

theorem replaceAt_positions (color : C) (pos : P) :
    ∀ (l l' : List (Stop P C)), replaceAt color pos l = some l' → l'.map (·.2) = l.map (·.2) := by
  intro l
  induction l with
  | nil => intro l' h; simp [replaceAt] at h
  | cons s rest ih =>
    intro l' h
    unfold replaceAt at h
    split at h
    · simp at h; subst h; rfl
    · cases hr : replaceAt color pos rest with
      | none => simp [hr] at h
      | some r => simp [hr] at h; subst h; simp [ih r hr]

theorem sorted_of_positions {l l' : List (Stop P C)} (h : l'.map (·.2) = l.map (·.2))
    (hs : SortedStops l) : SortedStops l' := by
  unfold SortedStops at *
  have h1 : (l.map (·.2)).Pairwise (· < ·) := List.pairwise_map.mpr hs
  rw [← h] at h1
  exact List.pairwise_map.mp h1

/-- `replaceAt` fails exactly when no stop has an equal position. -/
theorem replaceAt_none (color : C) (pos : P) :
    ∀ (l : List (Stop P C)), replaceAt color pos l = none → ∀ s ∈ l, feq pos s.2 = false := by
  intro l
  induction l with
  | nil => intro _ s hs; cases hs
  | cons a rest ih =>
    intro h s hs
    unfold replaceAt at h
    split at h
    · cases h
    · next hne =>
      cases hr : replaceAt color pos rest with
      | some r => simp [hr] at h
      | none =>
        rcases List.mem_cons.mp hs with rfl | hmem
        · simpa using hne
        · exact ih hr s hmem

theorem insertSorted_mem (color : C) (pos : P) :
    ∀ (l : List (Stop P C)) (x : Stop P C), x ∈ insertSorted color pos l → x = (color, pos) ∨ x ∈ l := by
  intro l
  induction l with
  | nil => intro x hx; simp [insertSorted] at hx; exact Or.inl hx
  | cons a rest ih =>
    intro x hx
    unfold insertSorted at hx
    split at hx
    · rcases List.mem_cons.mp hx with rfl | h
      · exact Or.inl rfl
      · exact Or.inr h
    · rcases List.mem_cons.mp hx with rfl | h
      · exact Or.inr (List.mem_cons_self)
      · rcases ih x h with h' | h'
        · exact Or.inl h'
        · exact Or.inr (List.mem_cons_of_mem _ h')

/-- Inserting a new (non-NaN, not yet present) position keeps the stops strictly increasing. -/
theorem insertSorted_sorted (color : C) (pos : P) (hp : isNaN pos = false) :
    ∀ (l : List (Stop P C)), SortedStops l → (∀ s ∈ l, isNaN s.2 = false) →
      (∀ s ∈ l, feq pos s.2 = false) → SortedStops (insertSorted color pos l) := by
  intro l
  induction l with
  | nil => intro _ _ _; simp [insertSorted, SortedStops]
  | cons a rest ih =>
    intro hs hn hne
    unfold insertSorted
    have hs' := List.pairwise_cons.mp hs
    split
    · next hlt =>
      apply List.pairwise_cons.mpr
      refine ⟨?_, hs⟩
      intro b hb
      rcases List.mem_cons.mp hb with rfl | hb'
      · exact hlt
      · exact lt_trans hlt (hs'.1 b hb')
    · next hnlt =>
      apply List.pairwise_cons.mpr
      constructor
      · intro b hb
        rcases insertSorted_mem color pos rest b hb with rfl | hb'
        · -- a.2 < pos : a.2 ≤ pos by totality, and they are not equal
          have ha := hn a List.mem_cons_self
          have hle : a.2 ≤ pos := by
            rcases lt_or_le hp ha with h | h
            · exact absurd h hnlt
            · exact h
          have hne' : feq a.2 pos = false := by
            have := hne a List.mem_cons_self
            cases hq : feq a.2 pos
            · rfl
            · have := feq_symm hq; simp_all
          exact lt_of_le_of_not_feq hle hne'
        · exact hs'.1 b hb'
      · exact ih hs'.2 (fun s hs => hn s (List.mem_cons_of_mem _ hs))
          (fun s hs => hne s (List.mem_cons_of_mem _ hs))

end Pastel
