/-
Exactness of the nearest-neighbour table: `new` builds an exact table, `update` keeps it exact.
Order-only; the distance is any symmetric, NaN-free function bounded by the sentinel.
-/
import Pastel.Lemmas.DistinctScan

namespace Pastel
open Sc ScOrd

variable {D : Type} [Sc D] [ScOrd D]

/-- Entry `i` of the table is *exact*: it records a neighbour `m ≠ i` at distance `dist i m`, and
no other colour is closer. (With ties or duplicates, any minimiser qualifies.) -/
def Good (dist : Nat → Nat → D) (n : Nat) (t : List (Entry D)) (i : Nat) : Prop :=
  ∃ m, m < n ∧ m ≠ i ∧ t[i]? = some (dist i m, m) ∧ ∀ j, j < n → j ≠ i → dist i m ≤ dist i j

/-- The whole table equals what recomputation from scratch would yield. -/
def Exact (dist : Nat → Nat → D) (n : Nat) (t : List (Entry D)) : Prop :=
  t.length = n ∧ ∀ i, i < n → Good dist n t i

theorem entryAt_set_ne (t : List (Entry D)) (c j : Nat) (x : Entry D) (d : D) (h : j ≠ c) :
    entryAt (t.set c x) j d = entryAt t j d := by
  unfold entryAt
  simp only [List.getD]
  rw [List.getElem?_set_ne (by omega)]

/-- After a pass for `color`, every other entry is the better of its old value and the distance
to `color`. -/
theorem scan_other (big : D) (dist : Nat → Nat → D) (n color : Nat) (changed : Bool)
    (hd : DistOk big dist) (t : List (Entry D)) (ht : t.length = n) (hc : color < n)
    (j : Nat) (hj : j < n) (hjc : j ≠ color) :
    (scan big dist n color changed t).tbl[j]? = some (updEntry dist color t j) := by
  have h := (scan_spec big dist n color changed hd t ht hc).others j hj hjc
  simp only [hj, if_true] at h
  rw [h]
  unfold updEntry
  rw [entryAt_set_ne t color j _ _ hjc]

/-- An exact entry is left alone by a pass for another colour. -/
theorem scan_keeps_good (big : D) (dist : Nat → Nat → D) (n color : Nat) (changed : Bool)
    (hd : DistOk big dist) (t : List (Entry D)) (ht : t.length = n) (hc : color < n)
    (j : Nat) (hj : j < n) (hjc : j ≠ color) (hg : Good dist n t j) :
    Good dist n (scan big dist n color changed t).tbl j := by
  obtain ⟨m, hm, hmj, he, hmin⟩ := hg
  refine ⟨m, hm, hmj, ?_, hmin⟩
  rw [scan_other big dist n color changed hd t ht hc j hj hjc]
  have hent : entryAt t j (dist j color) = (dist j m, m) := getD_of_getElem? he
  unfold updEntry
  rw [hent]
  have : ¬ dist j color < dist j m := not_lt_of_le (hmin color hc (Ne.symm hjc))
  simp [this]

/-- After a pass for `color` (with at least two colours) the entry of `color` is exact. -/
theorem scan_color_good (big : D) (dist : Nat → Nat → D) (n color : Nat) (changed : Bool)
    (hd : DistOk big dist) (t : List (Entry D)) (ht : t.length = n) (hc : color < n) (hn : 2 ≤ n) :
    Good dist n (scan big dist n color changed t).tbl color := by
  obtain ⟨e, he, hce⟩ := (scan_spec big dist n color changed hd t ht hc).colorE
  rcases hce with ⟨_, h2⟩ | ⟨m, hm, hmc, hme, hmin⟩
  · -- impossible: there is another index
    exfalso
    by_cases h0 : color = 0
    · have := h2 1 (by omega); omega
    · have := h2 0 (by omega); omega
  · refine ⟨m, hm, hmc, ?_, ?_⟩
    · rw [he, hme, hd.sym m color]
    · intro j hj hjc
      rw [hd.sym color m, hd.sym color j]
      exact hmin j hj hjc

theorem recalc_good (big : D) (dist : Nat → Nat → D) (n : Nat) (hd : DistOk big dist) (hn : 2 ≤ n)
    (t : List (Entry D)) (ht : t.length = n) (i : Nat) (hi : i < n) :
    Good dist n (recalc big dist n t i) i ∧
    (∀ j, j < n → j ≠ i → Good dist n t j → Good dist n (recalc big dist n t i) j) :=
  ⟨scan_color_good big dist n i false hd t ht hi hn,
   fun j hj hji hg => scan_keeps_good big dist n i false hd t ht hi j hj hji hg⟩

/-- With `changed = false` nothing is queued for recalculation. -/
theorem scan_false_todo (big : D) (dist : Nat → Nat → D) (n color : Nat)
    (hd : DistOk big dist) (t : List (Entry D)) (ht : t.length = n) (hc : color < n) :
    (scan big dist n color false t).todo = [] := by
  have h := (scan_spec big dist n color false hd t ht hc).todo
  apply List.eq_nil_iff_forall_not_mem.mpr
  intro i hi
  have := (h i).mp hi
  simp at this

theorem updateDistances_false (big : D) (dist : Nat → Nat → D) (n color : Nat)
    (hd : DistOk big dist) (t : List (Entry D)) (ht : t.length = n) (hc : color < n) :
    updateDistances big dist n color false t = recalc big dist n t color := by
  unfold updateDistances recalc
  simp only []
  rw [scan_false_todo big dist n color hd t ht hc]
  rfl

/-- Recalculating a list of indices keeps every exact entry exact and makes the listed ones exact. -/
theorem recalc_fold (big : D) (dist : Nat → Nat → D) (n : Nat) (hd : DistOk big dist) (hn : 2 ≤ n) :
    ∀ (todo : List Nat) (t : List (Entry D)), t.length = n → (∀ i ∈ todo, i < n) →
      (∀ j, j < n → Good dist n t j ∨ j ∈ todo) →
      (todo.foldl (recalc big dist n) t).length = n ∧
      ∀ j, j < n → Good dist n (todo.foldl (recalc big dist n) t) j := by
  intro todo
  induction todo with
  | nil =>
    intro t ht _ h
    refine ⟨ht, fun j hj => ?_⟩
    rcases h j hj with h | h
    · exact h
    · cases h
  | cons i is ih =>
    intro t ht hlt h
    simp only [List.foldl_cons]
    have hi : i < n := hlt i List.mem_cons_self
    have hr := recalc_good big dist n hd hn t ht i hi
    apply ih (recalc big dist n t i) (by rw [recalc_length]; exact ht)
      (fun x hx => hlt x (List.mem_cons_of_mem _ hx))
    intro j hj
    by_cases hji : j = i
    · left; rw [hji]; exact hr.1
    · rcases h j hj with hg | hm
      · left; exact hr.2 j hj hji hg
      · rcases List.mem_cons.mp hm with rfl | hm'
        · exact absurd rfl hji
        · right; exact hm'

/-- **`DistanceResult::new` builds an exact table** (at least two colours). -/
theorem new_table_exact (big : D) (dist : Nat → Nat → D) (n : Nat) (hd : DistOk big dist) (hn : 2 ≤ n) :
    Exact dist n ((List.range n).foldl (fun t i => updateDistances big dist n i false t)
      (List.replicate n (big, usizeMax))) := by
  have inv := foldl_range_inv
    (fun k (t : List (Entry D)) => t.length = n ∧ ∀ j, j < k → j < n → Good dist n t j)
    (fun t i => updateDistances big dist n i false t) (List.replicate n (big, usizeMax)) n
    ⟨by simp, fun j hj => absurd hj (Nat.not_lt_zero j)⟩
    (by
      intro k hk t ⟨ht, hg⟩
      rw [updateDistances_false big dist n k hd t ht hk]
      have hr := recalc_good big dist n hd hn t ht k hk
      refine ⟨by rw [recalc_length]; exact ht, ?_⟩
      intro j hj hjn
      by_cases hjk : j = k
      · rw [hjk]; exact hr.1
      · exact hr.2 j hjn hjk (hg j (by omega) hjn))
  exact ⟨inv.1, fun i hi => inv.2 i hi hi⟩

/-- **`DistanceResult::update` keeps the table exact.** `dist` is the distance before the change
of colour `c`, `dist'` the distance after it; they agree on all pairs not involving `c`. -/
theorem update_table_exact (big : D) (dist dist' : Nat → Nat → D) (n c : Nat)
    (hd' : DistOk big dist') (hn : 2 ≤ n) (hc : c < n)
    (hagree : ∀ i j, i ≠ c → j ≠ c → dist' i j = dist i j)
    (t : List (Entry D)) (hex : Exact dist n t) :
    Exact dist' n (updateDistances big dist' n c true t) := by
  obtain ⟨ht, hgood⟩ := hex
  unfold updateDistances
  simp only []
  have hspec := scan_spec big dist' n c true hd' t ht hc
  -- after the pass every entry is exact for the new distance, or queued
  have hafter : ∀ j, j < n → Good dist' n (scan big dist' n c true t).tbl j ∨ j ∈ (scan big dist' n c true t).todo := by
    intro j hj
    by_cases hjc : j = c
    · left; rw [hjc]; exact scan_color_good big dist' n c true hd' t ht hc hn
    · obtain ⟨m, hm, hmj, he, hmin⟩ := hgood j hj
      have hent : entryAt t j (dist' j c) = (dist j m, m) := getD_of_getElem? he
      have hentry := scan_other big dist' n c true hd' t ht hc j hj hjc
      unfold updEntry at hentry
      rw [hent] at hentry
      by_cases hlt : dist' j c < dist j m
      · -- the changed colour came closer
        left
        simp only [hlt, if_true] at hentry
        refine ⟨c, hc, Ne.symm hjc, hentry, ?_⟩
        intro j' hj' hj'j
        by_cases hj'c : j' = c
        · rw [hj'c]; exact le_refl (hd'.notNaN j c)
        · rw [hagree j j' hjc hj'c]
          exact le_of_lt (lt_of_lt_of_le hlt (hmin j' hj' hj'j))
      · simp only [hlt, if_false] at hentry
        by_cases hmc : m = c
        · -- the recorded neighbour was the changed colour and moved away: queued
          right
          apply (hspec.todo j).mpr
          refine ⟨hj, hjc, rfl, ?_, ?_⟩
          · rw [entryAt_set_ne t c j _ _ hjc, hent]; exact hlt
          · rw [entryAt_set_ne t c j _ _ hjc, hent]; exact hmc
        · -- the recorded neighbour is untouched and still the best
          left
          refine ⟨m, hm, hmj, ?_, ?_⟩
          · rw [hentry, hagree j m hjc hmc]
          · intro j' hj' hj'j
            rw [hagree j m hjc hmc]
            by_cases hj'c : j' = c
            · rw [hj'c]
              have hn1 : isNaN (dist' j c) = false := hd'.notNaN j c
              have hn2 : isNaN (dist j m) = false := (not_nan_of_le (hmin c hc (Ne.symm hjc))).1
              rcases lt_or_le hn1 hn2 with h | h
              · exact absurd h hlt
              · exact h
            · rw [hagree j j' hjc hj'c]; exact hmin j' hj' hj'j
  have htodo_lt : ∀ i ∈ (scan big dist' n c true t).todo, i < n := fun i hi => ((hspec.todo i).mp hi).1
  have := recalc_fold big dist' n hd' hn _ _ hspec.len htodo_lt hafter
  exact ⟨this.1, this.2⟩

end Pastel
