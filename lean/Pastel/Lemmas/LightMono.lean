/-
Exact-arithmetic facts behind "lightening never lowers the luminance" (C06) and
"hue values lie in [0, 360)" (C05):

* `real_modPositive_range` — `mod_positive(x, y) ∈ [0, y)` for every real `x`;
* `real_hueValue_range`, `real_hueValue_idem` — `Hue::value` lands in `[0, 360]` and is idempotent;
* `channel_mono` — with hue and saturation fixed, each float RGB channel is non-decreasing in the
  lightness (slope at least `1 − s ≥ 0`);
* `luminance_mono_light` — hence so is the luminance (`LumMono.lumF_mono`).
-/
import Pastel.Lemmas.Hexcone
import Pastel.Lemmas.LumMono

namespace Pastel
open Pastel

/-- `fmod x y ∈ [0, y)` for `x ≥ 0`. -/
theorem real_fmod_range_nonneg (x y : ℝ) (hx : 0 ≤ x) (hy : 0 < y) :
    0 ≤ Sc.fmod x y ∧ Sc.fmod x y < y := by
  rw [real_fmod_nonneg x y hx hy]
  have h1 := Int.floor_le (x / y)
  have h2 := Int.lt_floor_add_one (x / y)
  rw [le_div_iff₀ hy] at h1
  rw [div_lt_iff₀ hy] at h2
  constructor <;> nlinarith

/-- `fmod x y ∈ (−y, 0]` for `x < 0`. -/
theorem real_fmod_range_neg (x y : ℝ) (hx : x < 0) (hy : 0 < y) :
    -y < Sc.fmod x y ∧ Sc.fmod x y ≤ 0 := by
  show -y < x - y * ((rtrunc (x / y) : ℤ) : ℝ) ∧ x - y * ((rtrunc (x / y) : ℤ) : ℝ) ≤ 0
  unfold rtrunc
  have hneg : ¬ 0 ≤ x / y := by rw [not_le]; exact div_neg_of_neg_of_pos hx hy
  simp only [hneg, if_false]
  have h1 := Int.le_ceil (x / y)
  have h2 := Int.ceil_lt_add_one (x / y)
  rw [div_le_iff₀ hy] at h1
  have h3 : ((⌈x / y⌉ : ℤ) : ℝ) - 1 < x / y := by linarith
  rw [lt_div_iff₀ hy] at h3
  constructor <;> nlinarith

/-- `mod_positive(x, y) ∈ [0, y)` for every real `x` and positive `y`. -/
theorem real_modPositive_range (x y : ℝ) (hy : 0 < y) : 0 ≤ modPositive x y ∧ modPositive x y < y := by
  unfold modPositive
  have hz : 0 ≤ Sc.fmod x y + y := by
    by_cases hx : 0 ≤ x
    · have := (real_fmod_range_nonneg x y hx hy).1; linarith
    · have := (real_fmod_range_neg x y (not_le.mp hx) hy).1; linarith
  exact real_fmod_range_nonneg _ y hz hy

/-- `Hue::value` lands in `[0, 360]`. -/
theorem real_hueValue_range (h : ℝ) : 0 ≤ hueValue h ∧ hueValue h ≤ 360 := by
  unfold hueValue
  by_cases hq : Sc.feq h (360 : ℝ) = true
  · rw [if_pos hq]
    have := (real_feq _ _).mp hq
    simp only [real_lit] at this
    rw [this]; norm_num
  · rw [if_neg hq]
    have := real_modPositive_range h (360 : ℝ) (by simp only [real_lit]; norm_num)
    simp only [real_lit] at this ⊢
    push_cast at this ⊢
    exact ⟨this.1, this.2.le⟩

/-- `Hue::value` is idempotent. -/
theorem real_hueValue_idem (h : ℝ) : hueValue (hueValue h) = hueValue h := by
  by_cases hq : Sc.feq h (360 : ℝ) = true
  · have e : hueValue h = h := by unfold hueValue; rw [if_pos hq]
    rw [e, e]
  · have e : hueValue h = modPositive h 360 := by unfold hueValue; rw [if_neg hq]
    have r := real_modPositive_range h (360 : ℝ) (by simp only [real_lit]; norm_num)
    rw [e]
    apply real_hueValue_id
    · exact r.1
    · have := r.2; simp only [real_lit] at this; push_cast at this; exact this

/-- One float channel as a function of the lightness: `κ·chroma + l − chroma/2` with
`chroma = (1 − |2l − 1|)·s`.  For `κ, s ∈ [0, 1]` it is non-decreasing in `l`. -/
theorem channel_mono (κ s l l' : ℝ) (hκ0 : 0 ≤ κ) (hκ1 : κ ≤ 1) (hs0 : 0 ≤ s) (hs1 : s ≤ 1) (hl : l ≤ l') :
    κ * ((1 - |2 * l - 1|) * s) + (l - (1 - |2 * l - 1|) * s / 2)
      ≤ κ * ((1 - |2 * l' - 1|) * s) + (l' - (1 - |2 * l' - 1|) * s / 2) := by
  have he : |(|2 * l - 1| - |2 * l' - 1|)| ≤ 2 * (l' - l) := by
    have := abs_abs_sub_abs_le_abs_sub (2 * l - 1) (2 * l' - 1)
    have h2 : |(2 * l - 1) - (2 * l' - 1)| = 2 * (l' - l) := by
      rw [show (2 * l - 1) - (2 * l' - 1) = -(2 * (l' - l)) by ring, abs_neg, abs_of_nonneg (by linarith)]
    linarith
  have hq : |(κ - 1 / 2) * s| ≤ 1 / 2 := by
    rw [abs_mul, abs_of_nonneg hs0]
    have : |κ - 1 / 2| ≤ 1 / 2 := by rw [abs_le]; constructor <;> linarith
    nlinarith [abs_nonneg (κ - 1 / 2)]
  have hprod : |(κ - 1 / 2) * s * (|2 * l - 1| - |2 * l' - 1|)| ≤ l' - l := by
    rw [abs_mul]
    have h0 : 0 ≤ l' - l := by linarith
    calc |(κ - 1 / 2) * s| * |(|2 * l - 1| - |2 * l' - 1|)| ≤ (1 / 2) * (2 * (l' - l)) :=
          mul_le_mul hq he (abs_nonneg _) (by norm_num)
      _ = l' - l := by ring
  have := neg_abs_le ((κ - 1 / 2) * s * (|2 * l - 1| - |2 * l' - 1|))
  nlinarith

end Pastel

namespace Pastel

/-- With the hue value and the saturation fixed, every float RGB channel is non-decreasing in the
stored lightness. -/
theorem toRgbaFloat_mono_light (c c' : Color ℝ) (hh : hueValue c.hue = hueValue c'.hue)
    (hs : c.sat = c'.sat) (hs0 : 0 ≤ c.sat) (hs1 : c.sat ≤ 1) (hl : c.light ≤ c'.light) :
    (toRgbaFloat c).x ≤ (toRgbaFloat c').x ∧ (toRgbaFloat c).y ≤ (toRgbaFloat c').y ∧
    (toRgbaFloat c).z ≤ (toRgbaFloat c').z := by
  have hr := real_hueValue_range c.hue
  have hS0 : 0 ≤ hueValue c.hue / (60 : ℝ) := div_nonneg hr.1 (by norm_num)
  have hf := real_fmod_range_nonneg (hueValue c.hue / (60 : ℝ)) 2 hS0 (by norm_num)
  have ht0 : 0 ≤ 1 - |Sc.fmod (hueValue c.hue / (60 : ℝ)) 2 - 1| := by
    have : |Sc.fmod (hueValue c.hue / (60 : ℝ)) 2 - 1| ≤ 1 := by rw [abs_le]; constructor <;> linarith [hf.1, hf.2]
    linarith
  have ht1 : 1 - |Sc.fmod (hueValue c.hue / (60 : ℝ)) 2 - 1| ≤ 1 := by
    have := abs_nonneg (Sc.fmod (hueValue c.hue / (60 : ℝ)) 2 - 1); linarith
  have k1 := channel_mono 1 c.sat c.light c'.light (by norm_num) le_rfl hs0 hs1 hl
  have k0 := channel_mono 0 c.sat c.light c'.light le_rfl (by norm_num) hs0 hs1 hl
  have kt := channel_mono (1 - |Sc.fmod (hueValue c.hue / (60 : ℝ)) 2 - 1|) c.sat c.light c'.light ht0 ht1 hs0 hs1 hl
  simp only [toRgbaFloat, ← hh, ← hs]
  sc_norm
  norm_num at k1 k0 kt ⊢
  split_ifs <;> (refine ⟨?_, ?_, ?_⟩ <;> linarith)

/-- **With hue and saturation fixed, the luminance is non-decreasing in the lightness.** -/
theorem luminance_mono_light (c c' : Color ℝ) (hh : hueValue c.hue = hueValue c'.hue)
    (hs : c.sat = c'.sat) (hs0 : 0 ≤ c.sat) (hs1 : c.sat ≤ 1) (hl : c.light ≤ c'.light) :
    luminance c ≤ luminance c' := by
  obtain ⟨hx, hy, hz⟩ := toRgbaFloat_mono_light c c' hh hs hs0 hs1 hl
  have a := LumMono.lumF_mono hx
  have b := LumMono.lumF_mono hy
  have d := LumMono.lumF_mono hz
  unfold luminance
  sc_norm
  norm_num
  linarith

end Pastel
