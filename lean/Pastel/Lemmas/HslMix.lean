/-
HSL mixing of 8-bit colours at ℝ: the interpolated angle returns to an operand's hue up to whole
turns at the end points; a colour whose float channels are within 1/510 of byte levels has those
bytes; colours with equal saturation and lightness whose hues differ by whole turns (or whose
saturation is below 1/1000) have channels that close.  Used by C07's HSL end-point theorems.
-/
import Pastel.Props.C05
import Pastel.Lemmas.Turns
import Pastel.Lemmas.HslOutside
import Pastel.Lemmas.Hexcone

namespace Pastel
open Pastel

theorem interp_zero (a b : ℝ) : interpolate a b 0 = a := by simp [interpolate]
theorem interp_one (a b : ℝ) : interpolate a b 1 = b := by simp [interpolate]
theorem interp_self (a f : ℝ) : interpolate a a f = a := by simp [interpolate]

theorem modPositive_turns (x : ℝ) : ∃ k : ℤ, modPositive x (360 : ℝ) = x + 360 * k := by
  refine ⟨-⌊x / 360⌋, ?_⟩
  rw [real_modPositive_floor x 360 (by norm_num)]
  push_cast; ring

/-- The pair `interpolate_angle` settles on: the first angle and the second, each up to one turn. -/
theorem interpolateAngle_turns (a b f : ℝ) :
    ∃ (x y : ℝ), (x = a ∨ x = a + 360) ∧ (y = b ∨ y = b + 360) ∧
      interpolateAngle a b f = modPositive (interpolate x y f) 360 := by
  unfold interpolateAngle
  simp only []
  split_ifs
  · exact ⟨a + 360, b, Or.inr rfl, Or.inl rfl, rfl⟩
  · exact ⟨a, b + 360, Or.inl rfl, Or.inr rfl, rfl⟩
  · exact ⟨a + 360, b, Or.inr rfl, Or.inl rfl, rfl⟩
  · exact ⟨a, b, Or.inl rfl, Or.inl rfl, rfl⟩

/-- At fraction 0 the interpolated angle is the first angle up to whole turns; at fraction 1 the second. -/
theorem interpolateAngle_zero_turns (a b : ℝ) : ∃ k : ℤ, interpolateAngle a b 0 = a + 360 * k := by
  obtain ⟨x, y, hx, _, e⟩ := interpolateAngle_turns a b 0
  rw [e, interp_zero]
  obtain ⟨k, hk⟩ := modPositive_turns x
  rcases hx with rfl | rfl
  · exact ⟨k, hk⟩
  · exact ⟨k + 1, by rw [hk]; push_cast; ring⟩

theorem interpolateAngle_one_turns (a b : ℝ) : ∃ k : ℤ, interpolateAngle a b 1 = b + 360 * k := by
  obtain ⟨x, y, _, hy, e⟩ := interpolateAngle_turns a b 1
  rw [e, interp_one]
  obtain ⟨k, hk⟩ := modPositive_turns y
  rcases hy with rfl | rfl
  · exact ⟨k, hk⟩
  · exact ⟨k + 1, by rw [hk]; push_cast; ring⟩


/-- A real within half a unit of a byte value rounds and casts to that byte. -/
theorem real_toU8_round_near (x : ℝ) (k : UInt8) (h : |x - (k.toNat : ℝ)| < 1 / 2) : Sc.toU8 (Sc.round x) = k := by
  rw [abs_lt] at h
  have hk := k.toNat_lt
  show UInt8.ofNat (satInt 0 255 (rtrunc (if 0 ≤ x then (⌊x + 1 / 2⌋ : ℝ) else (⌈x - 1 / 2⌉ : ℝ)))).toNat = k
  have hz : (if 0 ≤ x then (⌊x + 1 / 2⌋ : ℝ) else (⌈x - 1 / 2⌉ : ℝ)) = ((k.toNat : ℤ) : ℝ) := by
    split_ifs with h0
    · have : ⌊x + 1 / 2⌋ = (k.toNat : ℤ) := by
        rw [Int.floor_eq_iff]; push_cast; constructor <;> linarith
      rw [this]
    · have hx : x < 0 := not_le.mp h0
      have hk0 : k.toNat = 0 := by
        by_contra hne
        have : (1 : ℝ) ≤ (k.toNat : ℝ) := by exact_mod_cast Nat.one_le_iff_ne_zero.mpr hne
        linarith
      have : ⌈x - 1 / 2⌉ = (k.toNat : ℤ) := by
        rw [Int.ceil_eq_iff, hk0]; push_cast
        rw [hk0] at h; push_cast at h
        constructor <;> linarith
      rw [this]
  rw [hz, real_rtrunc_int]
  have e : satInt 0 255 (k.toNat : ℤ) = (k.toNat : ℤ) := by unfold satInt; omega
  rw [e, Int.toNat_natCast]
  exact UInt8.ofNat_toNat


/-- Bytes of a colour whose float channels are within `1/510` of byte levels. -/
theorem bytes_near (m : Color ℝ) (r g b : UInt8)
    (hx : |(toRgbaFloat m).x - chan r| < 1 / 510) (hy : |(toRgbaFloat m).y - chan g| < 1 / 510)
    (hz : |(toRgbaFloat m).z - chan b| < 1 / 510) : bytes m = (r, g, b) := by
  have key : ∀ (v : ℝ) (k : UInt8), |v - chan k| < 1 / 510 → Sc.toU8 (Sc.round (255.0 * v : ℝ)) = k := by
    intro v k h
    apply real_toU8_round_near
    have e : (255.0 : ℝ) * v - (k.toNat : ℝ) = 255 * (v - chan k) := by unfold chan; norm_num; ring
    rw [e, abs_mul, abs_of_nonneg (by norm_num : (0:ℝ) ≤ 255)]
    linarith
  unfold bytes toRgba8
  simp only []
  rw [key _ r hx, key _ g hy, key _ b hz]

/-- Two colours with the same saturation and lightness whose hues differ by whole turns, or whose
common saturation is below `1/1000`, have float channels within `1/1000` of each other. -/
theorem channels_close (c m : Color ℝ) (hs : m.sat = c.sat) (hl : m.light = c.light)
    (hs0 : 0 ≤ c.sat) (hl0 : 0 ≤ c.light) (hl1 : c.light ≤ 1)
    (h : (∃ k : ℤ, m.hue = c.hue + 360 * k) ∨ c.sat < 1 / 1000) :
    |(toRgbaFloat m).x - (toRgbaFloat c).x| < 1 / 510 ∧ |(toRgbaFloat m).y - (toRgbaFloat c).y| < 1 / 510 ∧
    |(toRgbaFloat m).z - (toRgbaFloat c).z| < 1 / 510 := by
  rcases h with ⟨k, hk⟩ | hsmall
  · have e := toRgbaFloat_whole_turns c { m with alpha := c.alpha } k hk hs hl rfl
    have ex : (toRgbaFloat m).x = (toRgbaFloat c).x := by rw [← e]; rfl
    have ey : (toRgbaFloat m).y = (toRgbaFloat c).y := by rw [← e]; rfl
    have ez : (toRgbaFloat m).z = (toRgbaFloat c).z := by rw [← e]; rfl
    rw [ex, ey, ez]; norm_num
  · obtain ⟨cx, cy, cz⟩ := toRgbaFloat_isChan c
    obtain ⟨mx, my, mz⟩ := toRgbaFloat_isChan m
    have hchr0 : 0 ≤ 1 - |2 * c.light - 1| := by
      have : |2 * c.light - 1| ≤ 1 := by rw [abs_le]; constructor <;> linarith
      linarith
    have hchr1 : 1 - |2 * c.light - 1| ≤ 1 := by have := abs_nonneg (2 * c.light - 1); linarith
    have hC : 0 ≤ (1 - |2 * c.light - 1|) * c.sat ∧ (1 - |2 * c.light - 1|) * c.sat < 1 / 1000 := by
      constructor
      · exact mul_nonneg hchr0 hs0
      · nlinarith
    have key : ∀ v w : ℝ, IsChan m v → IsChan c w → |v - w| < 1 / 510 := by
      intro v w hv hw
      obtain ⟨k1, a0, a1, rfl⟩ := hv
      obtain ⟨k2, b0, b1, rfl⟩ := hw
      rw [hs, hl]
      have : k1 * ((1 - |2 * c.light - 1|) * c.sat) + (c.light - (1 - |2 * c.light - 1|) * c.sat / 2) -
          (k2 * ((1 - |2 * c.light - 1|) * c.sat) + (c.light - (1 - |2 * c.light - 1|) * c.sat / 2)) =
          (k1 - k2) * ((1 - |2 * c.light - 1|) * c.sat) := by ring
      rw [this, abs_lt]
      constructor <;> nlinarith [hC.1, hC.2]
    exact ⟨key _ _ mx cx, key _ _ my cy, key _ _ mz cz⟩


theorem real_valid_ranges (c : Color ℝ) (h : C05.Valid c) :
    0 ≤ c.sat ∧ c.sat ≤ 1 ∧ 0 ≤ c.light ∧ c.light ≤ 1 := by
  obtain ⟨_, ⟨_, s0, s1⟩, ⟨_, l0, l1⟩, _⟩ := h
  simp only [real_lit] at s0 s1 l0 l1
  push_cast at s0 s1 l0 l1
  exact ⟨s0, s1, l0, l1⟩

theorem fromHsla_fields_real (h s l a : ℝ) :
    (fromHsla h s l a).sat = max (min 1 s) 0 ∧ (fromHsla h s l a).light = max (min 1 l) 0 ∧ (fromHsla h s l a).hue = h := by
  refine ⟨?_, ?_, ?_⟩
  · unfold fromHsla clamp; sc_norm; norm_num
  · unfold fromHsla clamp; sc_norm; norm_num
  · unfold fromHsla hueFrom; simp only [real_isFinite, if_true]

theorem mixHue_zero_turns (thr s1 h1 s2 h2 : ℝ) : s1 < thr ∨ ∃ k : ℤ, mixHue thr s1 h1 s2 h2 0 = h1 + 360 * k := by
  by_cases hs : s1 < thr
  · exact Or.inl hs
  · right
    unfold mixHue
    simp only []
    rw [if_neg hs]
    exact interpolateAngle_zero_turns _ _

theorem mixHue_one_turns (thr s1 h1 s2 h2 : ℝ) : s2 < thr ∨ ∃ k : ℤ, mixHue thr s1 h1 s2 h2 1 = h2 + 360 * k := by
  by_cases hs : s2 < thr
  · exact Or.inl hs
  · right
    unfold mixHue
    simp only []
    rw [if_neg hs]
    exact interpolateAngle_one_turns _ _

/-- The mix in HSL space, field by field (exact arithmetic; `thr` is the model's gray threshold). -/
theorem mix_hsl_fields (c1 c2 : Color ℝ) (f : ℝ) :
    ∃ thr : ℝ, thr = 1 / 10000 ∧
      (mix .hsl c1 c2 f).hue = mixHue thr c1.sat (hueValue c1.hue) c2.sat (hueValue c2.hue) f ∧
      (mix .hsl c1 c2 f).sat = max (min 1 (interpolate c1.sat c2.sat f)) 0 ∧
      (mix .hsl c1 c2 f).light = max (min 1 (interpolate c1.light c2.light f)) 0 := by
  refine ⟨(0.0001 : ℝ), by norm_num, ?_, ?_, ?_⟩
  · simp only [mix, toHsla]
    rw [(fromHsla_fields_real _ _ _ _).2.2]
  · simp only [mix, toHsla]
    rw [(fromHsla_fields_real _ _ _ _).1]
  · simp only [mix, toHsla]
    rw [(fromHsla_fields_real _ _ _ _).2.1]

theorem interpolateAngle_self (a f : ℝ) : ∃ k : ℤ, interpolateAngle a a f = a + 360 * k := by
  have h1 : angleDistGreater |a - a| |a - (a + 360)| = false := by
    unfold angleDistGreater
    have : |a - (a + 360)| = 360 := by rw [show a - (a + 360) = -360 by ring]; norm_num
    rw [this, decide_eq_false_iff_not, sub_self, abs_zero]; norm_num
  have h2 : angleDistGreater |a - a| |a + 360 - a| = false := by
    unfold angleDistGreater
    have : |a + 360 - a| = 360 := by rw [show a + 360 - a = 360 by ring]; norm_num
    rw [this, decide_eq_false_iff_not, sub_self, abs_zero]; norm_num
  have e : interpolateAngle a a f = modPositive (interpolate a a f) 360 := by
    unfold interpolateAngle
    sc_norm
    simp only [h1, h2, Bool.false_eq_true, if_false]
  rw [e, interp_self]
  exact modPositive_turns a

end Pastel
