/-
Order-only lemmas about `fmin`, `fmax`, `clamp` (helper.rs): valid for every
`ScOrd` scalar, in particular for IEEE `Float` including NaN and infinities.
-/
import Pastel.Order
import Pastel.Model.Color

namespace Pastel
open Sc ScOrd

variable {α : Type} [Sc α] [ScOrd α]

theorem feq_refl {a : α} (h : isNaN a = false) : feq a a = true :=
  le_antisymm_feq (le_refl h) (le_refl h)

/-- IEEE equality of numbers implies `≤` both ways (law-level: from totality and `feq`). -/
theorem feq_le {a b : α} (h : feq a b = true) : a ≤ b := ScOrd.feq_le h
theorem feq_ge {a b : α} (h : feq a b = true) : b ≤ a := ScOrd.feq_ge h

/-- `fmin hi x` with a non-NaN `hi` is a number not above `hi`, whatever `x` is. -/
theorem fmin_le_left {hi : α} (x : α) (hhi : isNaN hi = false) :
    isNaN (fmin hi x) = false ∧ fmin hi x ≤ hi := by
  rw [fmin_def]
  simp only [hhi, Bool.false_eq_true, if_false]
  by_cases hx : isNaN x = true
  · simp only [hx, if_true]; exact ⟨hhi, le_refl hhi⟩
  · have hx' : isNaN x = false := by simpa using hx
    simp only [hx', Bool.false_eq_true, if_false]
    by_cases hlt : x < hi
    · simp only [hlt, if_true]; exact ⟨hx', le_of_lt hlt⟩
    · simp only [hlt, if_false]; exact ⟨hhi, le_refl hhi⟩

/-- `fmax m lo` for numbers `m`, `lo` is the larger one. -/
theorem fmax_spec {m lo : α} (hm : isNaN m = false) (hlo : isNaN lo = false) :
    isNaN (fmax m lo) = false ∧ lo ≤ fmax m lo ∧ (∀ hi, m ≤ hi → lo ≤ hi → fmax m lo ≤ hi) := by
  rw [fmax_def]
  simp only [hm, hlo, Bool.false_eq_true, if_false]
  by_cases hlt : m < lo
  · simp only [hlt, if_true]; exact ⟨hlo, le_refl hlo, fun _ _ h => h⟩
  · simp only [hlt, if_false]
    rcases lt_or_le hm hlo with h | h
    · exact absurd h hlt
    · exact ⟨hm, h, fun _ h' _ => h'⟩

/-- `clamp lo hi x ∈ [lo, hi]` for **every** `x` — NaN and ±∞ included — as soon as `lo ≤ hi`. -/
theorem clamp_range {lo hi : α} (x : α) (h : lo ≤ hi) :
    isNaN (clamp lo hi x) = false ∧ lo ≤ clamp lo hi x ∧ clamp lo hi x ≤ hi := by
  have ⟨hlo, hhi⟩ := not_nan_of_le h
  have ⟨hm, hmle⟩ := fmin_le_left x hhi
  have ⟨h1, h2, h3⟩ := fmax_spec hm hlo
  exact ⟨h1, h2, h3 hi hmle h⟩

/-- On its range `clamp` is the identity (up to IEEE equality, i.e. the sign of a zero). -/
theorem clamp_id {lo hi x : α} (h1 : lo ≤ x) (h2 : x ≤ hi) : feq (clamp lo hi x) x = true := by
  have ⟨hlo, hx⟩ := not_nan_of_le h1
  have ⟨_, hhi⟩ := not_nan_of_le h2
  unfold clamp
  rw [fmin_def]
  simp only [hhi, hx, Bool.false_eq_true, if_false]
  by_cases hlt : x < hi
  · simp only [hlt, if_true]
    rw [fmax_def]
    simp only [hx, hlo, Bool.false_eq_true, if_false]
    have : ¬ x < lo := not_lt_of_le h1
    simp only [this, if_false]
    exact feq_refl hx
  · simp only [hlt, if_false]
    have hle : hi ≤ x := by
      rcases lt_or_le hx hhi with h | h
      · exact absurd h hlt
      · exact h
    rw [fmax_def]
    simp only [hhi, hlo, Bool.false_eq_true, if_false]
    have : ¬ hi < lo := not_lt_of_le (le_trans h1 h2)
    simp only [this, if_false]
    exact le_antisymm_feq hle h2

end Pastel
