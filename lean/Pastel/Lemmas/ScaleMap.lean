/-
`ColorScale` as a last-write map (C08): the refinement from the stop list to the abstract map
"position ↦ colour most recently added at that position" (positions compared with IEEE `==`).
-/
import Pastel.Lemmas.Scale

namespace Pastel
open Sc ScOrd

variable {P C : Type} [Sc P] [ScOrd P]
set_option linter.unusedSectionVars false

/-- The abstraction: the colour stored at (a position IEEE-equal to) `q`. -/
def lookupStop (l : List (Stop P C)) (q : P) : Option C :=
  (l.find? (fun s => feq q s.2)).map (·.1)

theorem lookupStop_cons (s : Stop P C) (l : List (Stop P C)) (q : P) :
    lookupStop (s :: l) q = if feq q s.2 then some s.1 else lookupStop l q := by
  unfold lookupStop
  rw [List.find?_cons]
  cases h : feq q s.2 <;> simp

theorem feq_false_of {q p x : P} (h1 : feq q p = true) (h2 : feq p x = false) : feq q x = false := by
  cases h : feq q x
  · rfl
  · have := feq_trans (feq_symm h1) h
    rw [this] at h2; cases h2

/-- Replacing at an existing position updates the map at that position only. -/
theorem lookup_replaceAt (c : C) (p q : P) :
    ∀ (l l' : List (Stop P C)), replaceAt c p l = some l' →
      lookupStop l' q = if feq q p then some c else lookupStop l q := by
  intro l
  induction l with
  | nil => intro l' h; cases h
  | cons s rest ih =>
    intro l' h
    unfold replaceAt at h
    split at h
    · next hps =>
      cases h
      rw [lookupStop_cons, lookupStop_cons]
      cases hqp : feq q p
      · -- q ≠ p: then q ≠ s.2
        have : feq q s.2 = false := by
          cases hq : feq q s.2
          · rfl
          · have := feq_trans hq (feq_symm hps); rw [this] at hqp; cases hqp
        simp [this]
      · have : feq q s.2 = true := feq_trans hqp hps
        simp [this]
    · next hps =>
      cases hr : replaceAt c p rest with
      | none => simp [hr] at h
      | some r =>
        simp only [hr, Option.map_some, Option.some.injEq] at h
        subst h
        rw [lookupStop_cons, lookupStop_cons, ih r hr]
        cases hqs : feq q s.2
        · simp
        · have hps' : feq p s.2 = false := by simpa using hps
          have : feq q p = false := by
            cases hqp : feq q p
            · rfl
            · have := feq_trans (feq_symm hqp) hqs; rw [this] at hps'; cases hps'
          simp [this]

/-- Inserting at a fresh position adds that position to the map. -/
theorem lookup_insertSorted (c : C) (p q : P) :
    ∀ (l : List (Stop P C)), (∀ s ∈ l, feq p s.2 = false) →
      lookupStop (insertSorted c p l) q = if feq q p then some c else lookupStop l q := by
  intro l
  induction l with
  | nil =>
    intro _
    unfold insertSorted
    rw [lookupStop_cons]
  | cons s rest ih =>
    intro hne
    unfold insertSorted
    split
    · rw [lookupStop_cons]
    · rw [lookupStop_cons, lookupStop_cons, ih (fun x hx => hne x (List.mem_cons_of_mem _ hx))]
      cases hqs : feq q s.2
      · simp
      · have hps := hne s (List.mem_cons_self ..)
        have : feq q p = false := by
          cases hqp : feq q p
          · rfl
          · have := feq_trans (feq_symm hqp) hqs; rw [this] at hps; cases hps
        simp [this]

/-- **One `add_stop` is one write to the map.** -/
theorem lookup_addStop (l : List (Stop P C)) (c : C) (p q : P) :
    lookupStop (addStop l c p) q = if feq q p then some c else lookupStop l q := by
  unfold addStop
  split
  · next l' h => exact lookup_replaceAt c p q l l' h
  · next h => exact lookup_insertSorted c p q l (replaceAt_none c p l h)

/-- The abstract last-write map of a sequence of writes on top of a map `base`. -/
def lastWrite (base : P → Option C) (ops : List (C × P)) (q : P) : Option C :=
  match ops.reverse.find? (fun o => feq q o.2) with
  | some o => some o.1
  | none => base q

theorem lastWrite_cons (base : P → Option C) (o : C × P) (ops : List (C × P)) (q : P) :
    lastWrite base (o :: ops) q
      = lastWrite (fun q => if feq q o.2 then some o.1 else base q) ops q := by
  unfold lastWrite
  rw [List.reverse_cons, List.find?_append]
  cases h : ops.reverse.find? (fun o => feq q o.2) with
  | some x => simp
  | none =>
    simp only [Option.none_or, List.find?_cons, List.find?_nil]
    cases h2 : feq q o.2 <;> simp

/-- **Refinement**: after any sequence of `add_stop`s the stop list represents the last-write
map of the sequence. -/
theorem lookup_foldl (ops : List (C × P)) (l : List (Stop P C)) (q : P) :
    lookupStop (ops.foldl (fun (l : List (Stop P C)) (o : C × P) => addStop l o.1 o.2) l) q
      = lastWrite (lookupStop l) ops q := by
  induction ops generalizing l with
  | nil => simp [lastWrite]
  | cons o os ih =>
    rw [List.foldl_cons, ih, lastWrite_cons]
    congr 1
    funext q'
    exact lookup_addStop l o.1 o.2 q'

/-! ### The stop list is a canonical representation of the map -/

theorem lookup_some_mem (l : List (Stop P C)) (q : P) (c : C) (h : lookupStop l q = some c) :
    ∃ x ∈ l, feq q x.2 = true ∧ x.1 = c := by
  unfold lookupStop at h
  cases hf : l.find? (fun s => feq q s.2) with
  | none => simp [hf] at h
  | some x =>
    simp only [hf, Option.map_some, Option.some.injEq] at h
    exact ⟨x, List.mem_of_find?_eq_some hf, by simpa using List.find?_some hf, h⟩

theorem lookup_none_of_gt (t : List (Stop P C)) (q : P) (h : ∀ x ∈ t, q < x.2) : lookupStop t q = none := by
  unfold lookupStop
  rw [Option.map_eq_none_iff, List.find?_eq_none]
  intro x hx
  have hlt := h x hx
  cases hq : feq q x.2
  · simp
  · exact absurd hlt (not_lt_of_le (feq_ge hq))

theorem lookup_head (s : Stop P C) (t : List (Stop P C)) (hn : isNaN s.2 = false) :
    lookupStop (s :: t) s.2 = some s.1 := by
  rw [lookupStop_cons, feq_refl hn]; rfl

/-- Two strictly sorted, NaN-free stop lists that represent the same map are equal — provided
IEEE equality of positions is equality (true at `ℝ`; for floats, up to the sign of a zero). -/
theorem eq_of_lookup_eq (hfe : ∀ a b : P, feq a b = true → a = b) :
    ∀ (l1 l2 : List (Stop P C)), SortedStops l1 → SortedStops l2 →
      (∀ s ∈ l1, isNaN s.2 = false) → (∀ s ∈ l2, isNaN s.2 = false) →
      (∀ q, lookupStop l1 q = lookupStop l2 q) → l1 = l2 := by
  intro l1
  induction l1 with
  | nil =>
    intro l2 _ _ _ hn2 h
    cases l2 with
    | nil => rfl
    | cons s2 t2 =>
      have := h s2.2
      rw [lookup_head s2 t2 (hn2 s2 (List.mem_cons_self ..))] at this
      simp [lookupStop] at this
  | cons s1 t1 ih =>
    intro l2 hs1 hs2 hn1 hn2 h
    cases l2 with
    | nil =>
      have := h s1.2
      rw [lookup_head s1 t1 (hn1 s1 (List.mem_cons_self ..))] at this
      simp [lookupStop] at this
    | cons s2 t2 =>
      have n1 := hn1 s1 (List.mem_cons_self ..)
      have n2 := hn2 s2 (List.mem_cons_self ..)
      have hs1' := List.pairwise_cons.mp hs1
      have hs2' := List.pairwise_cons.mp hs2
      -- heads have the same position
      have le21 : s2.2 ≤ s1.2 := by
        have e := h s1.2
        rw [lookup_head s1 t1 n1] at e
        obtain ⟨x, hx, hq, _⟩ := lookup_some_mem _ _ _ e.symm
        have hxe := hfe _ _ hq
        rcases List.mem_cons.mp hx with rfl | hx'
        · rw [hxe]; exact le_refl n2
        · rw [hxe]; exact le_of_lt (hs2'.1 x hx')
      have le12 : s1.2 ≤ s2.2 := by
        have e := h s2.2
        rw [lookup_head s2 t2 n2] at e
        obtain ⟨x, hx, hq, _⟩ := lookup_some_mem _ _ _ e
        have hxe := hfe _ _ hq
        rcases List.mem_cons.mp hx with rfl | hx'
        · rw [hxe]; exact le_refl n1
        · rw [hxe]; exact le_of_lt (hs1'.1 x hx')
      have hpos : s1.2 = s2.2 := hfe _ _ (le_antisymm_feq le12 le21)
      have hcol : s1.1 = s2.1 := by
        have e := h s1.2
        rw [lookup_head s1 t1 n1, hpos, lookup_head s2 t2 n2] at e
        exact Option.some.inj e
      have hhead : s1 = s2 := Prod.ext hcol hpos
      subst hhead
      congr 1
      apply ih t2 hs1'.2 hs2'.2 (fun s hs => hn1 s (List.mem_cons_of_mem _ hs))
        (fun s hs => hn2 s (List.mem_cons_of_mem _ hs))
      intro q
      have e := h q
      rw [lookupStop_cons, lookupStop_cons] at e
      cases hq : feq q s1.2
      · simpa [hq] using e
      · have hqe := hfe _ _ hq
        rw [lookup_none_of_gt t1 q (fun x hx => by rw [hqe]; exact hs1'.1 x hx),
            lookup_none_of_gt t2 q (fun x hx => by rw [hqe]; exact hs2'.1 x hx)]

end Pastel
