/-
Rounding and quantisation at ℝ: `round` and the saturating `as u8` keep integer bounds, hence
`quantize` (clamp to [0,255], round, cast) maps a channel value lying between two byte levels to a
byte between them.  Used by C07 (RGB mixing) and C10 (compositing).
-/
import Pastel.Lemmas.Hexcone

namespace Pastel
open Pastel

/-- Rounding to the nearest integer keeps an integer-bounded interval: with integer channel
values `lo ≤ x ≤ hi`, `round x` (half away from zero, `x ≥ 0`) stays in `[lo, hi]` — this is
what `floor` violated from below only for the *same-colour* and *transparent-source* cases,
where the exact value is an integer that floats can miss by an ulp. -/
theorem round_between (x : ℝ) (lo hi : ℤ) (hx : 0 ≤ x) (h1 : (lo : ℝ) ≤ x) (h2 : x ≤ (hi : ℝ)) :
    (lo : ℝ) ≤ Sc.round x ∧ Sc.round x ≤ (hi : ℝ) := by
  have hr : Sc.round x = (⌊x + 1 / 2⌋ : ℝ) := by
    show (if 0 ≤ x then (⌊x + 1 / 2⌋ : ℝ) else (⌈x - 1 / 2⌉ : ℝ)) = _
    simp only [hx, if_true]
  rw [hr]
  constructor
  · have : lo ≤ ⌊x + 1 / 2⌋ := Int.le_floor.mpr (by linarith)
    exact_mod_cast this
  · have : ⌊x + 1 / 2⌋ ≤ hi := by
      have h3 : x + 1 / 2 < (hi : ℝ) + 1 := by linarith
      have := Int.floor_lt.mpr (show x + 1 / 2 < ((hi + 1 : ℤ) : ℝ) by push_cast; linarith)
      omega
    exact_mod_cast this


/-- `as u8` of a rounded real that lies between two byte values lies between them. -/
theorem toU8_round_between (x : ℝ) (lo hi : ℕ) (hhi : hi ≤ 255) (h1 : (lo : ℝ) ≤ x) (h2 : x ≤ (hi : ℝ)) :
    lo ≤ (Sc.toU8 (Sc.round x)).toNat ∧ (Sc.toU8 (Sc.round x)).toNat ≤ hi := by
  have hx : 0 ≤ x := _root_.le_trans (Nat.cast_nonneg lo) h1
  have hr : Sc.round x = (⌊x + 1 / 2⌋ : ℝ) := by
    show (if 0 ≤ x then (⌊x + 1 / 2⌋ : ℝ) else (⌈x - 1 / 2⌉ : ℝ)) = _
    simp only [hx, if_true]
  have hlo : (lo : ℤ) ≤ ⌊x + 1 / 2⌋ := Int.le_floor.mpr (by push_cast; linarith)
  have hhi' : ⌊x + 1 / 2⌋ ≤ (hi : ℤ) := by
    have := Int.floor_lt.mpr (show x + 1 / 2 < ((hi + 1 : ℤ) : ℝ) by push_cast; linarith)
    omega
  rw [hr]
  have hnn : 0 ≤ ⌊x + 1 / 2⌋ := _root_.le_trans (Int.natCast_nonneg lo) hlo
  have e : (Sc.toU8 ((⌊x + 1 / 2⌋ : ℤ) : ℝ)).toNat = ⌊x + 1 / 2⌋.toNat := by
    show (UInt8.ofNat (satInt 0 255 (rtrunc ((⌊x + 1 / 2⌋ : ℤ) : ℝ))).toNat).toNat = _
    have ht : rtrunc ((⌊x + 1 / 2⌋ : ℤ) : ℝ) = ⌊x + 1 / 2⌋ := by
      unfold rtrunc
      have h0 : (0 : ℝ) ≤ ((⌊x + 1 / 2⌋ : ℤ) : ℝ) := by exact_mod_cast hnn
      simp only [h0, if_true]
      exact Int.floor_intCast _
    rw [ht]
    have hsat : satInt 0 255 ⌊x + 1 / 2⌋ = ⌊x + 1 / 2⌋ := by unfold satInt; omega
    rw [hsat]
    have hlt : ⌊x + 1 / 2⌋.toNat < 256 := by omega
    exact UInt8.toNat_ofNat_of_lt' hlt
  rw [e]
  constructor <;> omega

/-- The byte a float channel value in `[0,1]`-scaled form quantises to, when it lies between two bytes. -/
theorem quantize_between (v : ℝ) (lo hi : UInt8) (h1 : chan lo ≤ v) (h2 : v ≤ chan hi) :
    lo.toNat ≤ (quantize v).toNat ∧ (quantize v).toNat ≤ hi.toNat := by
  have hlo := chan_range lo
  have hhi := chan_range hi
  unfold quantize clamp
  sc_norm
  push_cast
  have h255 : (0:ℝ) ≤ 255 * v := by nlinarith [hlo.1]
  have hle : 255 * v ≤ 255 := by nlinarith [hhi.2]
  rw [min_eq_right hle, max_eq_left h255]
  apply toU8_round_between _ _ _ (by have := hi.toNat_lt; omega)
  · unfold chan at h1; have : (lo.toNat : ℝ) = 255 * ((lo.toNat : ℝ) / 255) := by ring
    rw [this]; nlinarith
  · unfold chan at h2; have : (hi.toNat : ℝ) = 255 * ((hi.toNat : ℝ) / 255) := by ring
    rw [this]; nlinarith


theorem quantize_chan (x : UInt8) : quantize (chan x) = x := by
  have h := quantize_between (chan x) x x le_rfl le_rfl
  exact UInt8.toNat_inj.mp (by omega)

end Pastel
