/-
Strict monotonicity of the sRGB linearisation used by `Color::luminance`.

The piecewise function is cut at 0.04045, where the power branch starts 2.3e-9 *above* the end of
the linear branch (`cut_step`, a rational inequality `(0.04045/12.92)^5 < ((0.04045+0.055)/1.055)^12`),
so it is strictly increasing on all of `ℝ`.

History: the pinned code used the cut 0.03928 of the original WCAG 2.0 text.  There the power
branch starts 7.6e-7 *below* the linear branch, and the first attempt at this proof failed exactly
at the step across the cut; the failing step, replayed on the implementation
(`hsl(0,0%,3.9279%).lighten(2e-6)` has a lower luminance), is the defect repaired by the `fix:`
commit e8f6984.  (With 0.03928 the function is still increasing on the 256 8-bit levels, because
10/255 < 0.03928 < 11/255; that weaker statement was proved first.)
-/
import Pastel.RealInst
import Pastel.Model.Color
import Mathlib.Analysis.SpecialFunctions.Pow.Real

namespace Pastel.LumMono
open Pastel

/-- `lumF` at `ℝ` in Mathlib terms. -/
theorem lumF_real (s : ℝ) :
    lumF s = if s ≤ 0.04045 then s / 12.92 else ((s + 0.055) / 1.055) ^ (2.4 : ℝ) := by
  unfold lumF
  sc_norm

/-- `x ^ 2.4` compared through integer powers: `y ^ 5 < x ^ 12 → y < x ^ 2.4`. -/
theorem lt_rpow_of_pow (x y : ℝ) (hx : 0 < x) (hy : 0 ≤ y) (h : y ^ 5 < x ^ 12) : y < x ^ (2.4 : ℝ) := by
  have hp : 0 ≤ x ^ (2.4 : ℝ) := Real.rpow_nonneg hx.le _
  have e : (x ^ (2.4 : ℝ)) ^ 5 = x ^ 12 := by
    rw [← Real.rpow_natCast, ← Real.rpow_mul hx.le]
    norm_num
  by_contra hc
  have hc := not_lt.mp hc
  have := pow_le_pow_left₀ hp hc 5
  rw [e] at this
  linarith

/-- At the cut the power branch starts above the end of the linear branch. -/
theorem cut_step : (0.04045 : ℝ) / 12.92 < (((0.04045 : ℝ) + 0.055) / 1.055) ^ (2.4 : ℝ) := by
  apply lt_rpow_of_pow
  · norm_num
  · norm_num
  · norm_num

theorem pow_branch_mono (a b : ℝ) (ha : 0.04045 ≤ a) (hab : a < b) :
    ((a + 0.055) / 1.055) ^ (2.4 : ℝ) < ((b + 0.055) / 1.055) ^ (2.4 : ℝ) := by
  apply Real.rpow_lt_rpow
  · apply div_nonneg _ (by norm_num); linarith
  · apply div_lt_div_of_pos_right _ (by norm_num); linarith
  · norm_num

/-- **The linearisation is strictly increasing on all of `ℝ`.** -/
theorem lumF_strictMono : StrictMono (lumF : ℝ → ℝ) := by
  intro s t hst
  rw [lumF_real, lumF_real]
  by_cases ht : t ≤ 0.04045
  · have hs : s ≤ 0.04045 := by linarith
    rw [if_pos hs, if_pos ht]
    exact div_lt_div_of_pos_right hst (by norm_num)
  · rw [if_neg ht]
    have ht' := not_le.mp ht
    have hcut : (((0.04045 : ℝ) + 0.055) / 1.055) ^ (2.4 : ℝ) < ((t + 0.055) / 1.055) ^ (2.4 : ℝ) :=
      pow_branch_mono _ _ le_rfl ht'
    by_cases hs : s ≤ 0.04045
    · rw [if_pos hs]
      have : s / 12.92 ≤ (0.04045 : ℝ) / 12.92 := div_le_div_of_nonneg_right hs (by norm_num)
      linarith [cut_step]
    · rw [if_neg hs]
      exact pow_branch_mono _ _ (not_le.mp hs).le hst

theorem lumF_mono {s t : ℝ} (h : s ≤ t) : lumF s ≤ lumF t := lumF_strictMono.monotone h

/-- In particular on the 8-bit levels. -/
theorem lumF_lattice_strictMono (c d : ℕ) (hcd : c < d) : lumF ((c : ℝ) / 255) < lumF ((d : ℝ) / 255) := by
  apply lumF_strictMono
  have : (c : ℝ) < d := by exact_mod_cast hcd
  exact div_lt_div_of_pos_right this (by norm_num)

end Pastel.LumMono
