/-
Strict monotonicity of the sRGB linearisation used by `Color::luminance`, on the 8-bit lattice.

Over all reals the piecewise function of `luminance` (cut at 0.03928, as in WCAG 2.0 and in the
code) is *not* monotone: just above the cut the power branch is about 8e-7 below the linear
branch.  No 8-bit level falls into that gap: 10/255 < 0.03928 < 11/255, and the step from level 10
to level 11 is an increase, which is the rational inequality `(10/255/12.92)^5 < ((11/255+0.055)/1.055)^12`.
-/
import Pastel.RealInst
import Pastel.Model.Color
import Mathlib.Analysis.SpecialFunctions.Pow.Real

namespace Pastel.LumMono
open Pastel

/-- `lumF` at `ℝ` in Mathlib terms. -/
theorem lumF_real (s : ℝ) :
    lumF s = if s ≤ 0.03928 then s / 12.92 else ((s + 0.055) / 1.055) ^ (2.4 : ℝ) := by
  unfold lumF
  sc_norm

theorem level_le_cut (c : ℕ) (h : c ≤ 10) : ((c : ℝ) / 255) ≤ 0.03928 := by
  have : (c : ℝ) ≤ 10 := by exact_mod_cast h
  rw [div_le_iff₀ (by norm_num)]
  norm_num
  linarith

theorem cut_lt_level (c : ℕ) (h : 11 ≤ c) : ¬ ((c : ℝ) / 255) ≤ 0.03928 := by
  have : (11 : ℝ) ≤ c := by exact_mod_cast h
  rw [not_le, lt_div_iff₀ (by norm_num)]
  norm_num
  linarith

/-- `x ^ 2.4` compared through integer powers: `y ^ 5 < x ^ 12 → y < x ^ 2.4`. -/
theorem lt_rpow_of_pow (x y : ℝ) (hx : 0 < x) (hy : 0 ≤ y) (h : y ^ 5 < x ^ 12) : y < x ^ (2.4 : ℝ) := by
  have hp : 0 ≤ x ^ (2.4 : ℝ) := Real.rpow_nonneg hx.le _
  have e : (x ^ (2.4 : ℝ)) ^ 5 = x ^ 12 := by
    rw [← Real.rpow_natCast, ← Real.rpow_mul hx.le]
    norm_num
  by_contra hc
  have hc := not_lt.mp hc
  have := pow_le_pow_left₀ hp hc 5
  rw [e] at this
  linarith

/-- The step across the cut: level 10 (linear branch) to level 11 (power branch). -/
theorem step_10_11 : ((10 : ℝ) / 255) / 12.92 < (((11 : ℝ) / 255 + 0.055) / 1.055) ^ (2.4 : ℝ) := by
  apply lt_rpow_of_pow
  · norm_num
  · norm_num
  · norm_num

theorem lumF_level_low (c : ℕ) (h : c ≤ 10) : lumF ((c : ℝ) / 255) = ((c : ℝ) / 255) / 12.92 := by
  rw [lumF_real, if_pos (level_le_cut c h)]

theorem lumF_level_high (c : ℕ) (h : 11 ≤ c) :
    lumF ((c : ℝ) / 255) = (((c : ℝ) / 255 + 0.055) / 1.055) ^ (2.4 : ℝ) := by
  rw [lumF_real, if_neg (cut_lt_level c h)]

/-- **Strictly increasing on the 8-bit levels.** -/
theorem lumF_lattice_strictMono (c d : ℕ) (hcd : c < d) : lumF ((c : ℝ) / 255) < lumF ((d : ℝ) / 255) := by
  have hcd' : (c : ℝ) < d := by exact_mod_cast hcd
  by_cases hd : d ≤ 10
  · rw [lumF_level_low c (by omega), lumF_level_low d hd]
    apply div_lt_div_of_pos_right _ (by norm_num)
    exact div_lt_div_of_pos_right hcd' (by norm_num)
  · have hd : 11 ≤ d := by omega
    rw [lumF_level_high d hd]
    have hmono : ∀ a b : ℝ, 0 ≤ a → a < b →
        ((a / 255 + 0.055) / 1.055) ^ (2.4 : ℝ) < ((b / 255 + 0.055) / 1.055) ^ (2.4 : ℝ) := by
      intro a b ha hab
      apply Real.rpow_lt_rpow
      · positivity
      · apply div_lt_div_of_pos_right _ (by norm_num)
        have := div_lt_div_of_pos_right hab (show (0 : ℝ) < 255 by norm_num)
        linarith
      · norm_num
    by_cases hc : c ≤ 10
    · rw [lumF_level_low c hc]
      have h1 : ((c : ℝ) / 255) / 12.92 ≤ ((10 : ℝ) / 255) / 12.92 := by
        have : (c : ℝ) ≤ 10 := by exact_mod_cast hc
        apply div_le_div_of_nonneg_right _ (by norm_num)
        exact div_le_div_of_nonneg_right this (by norm_num)
      have h2 : (((11 : ℝ) / 255 + 0.055) / 1.055) ^ (2.4 : ℝ) ≤ (((d : ℝ) / 255 + 0.055) / 1.055) ^ (2.4 : ℝ) := by
        rcases Nat.eq_or_lt_of_le hd with h | h
        · rw [← h]; norm_num
        · have : (11 : ℝ) < d := by exact_mod_cast h
          exact (hmono 11 d (by norm_num) this).le
      linarith [step_10_11]
    · have hc : 11 ≤ c := by omega
      rw [lumF_level_high c hc]
      exact hmono c d (by positivity) hcd'

end Pastel.LumMono
