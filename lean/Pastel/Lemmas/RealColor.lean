/-
Helper lemmas for the exact-arithmetic (`ℝ`) reading of the colour model.
-/
import Pastel.RealInst
import Pastel.Model.Color

namespace Pastel

/-- A colour with zero hexcone chroma has three equal float channels, namely its lightness. -/
theorem toRgbaFloat_achromatic (c : Color ℝ) (h : (1.0 - |2.0 * c.light - 1.0|) * c.sat = 0) :
    (toRgbaFloat c).x = c.light ∧ (toRgbaFloat c).y = c.light ∧ (toRgbaFloat c).z = c.light := by
  simp only [toRgbaFloat, real_abs, h]
  split_ifs <;> norm_num

theorem black_fields : (black : Color ℝ).sat = 0 ∧ (black : Color ℝ).light = 0 ∧ (black : Color ℝ).alpha = 1 := by
  simp only [black, fromHsla, clamp, real_fmin, real_fmax, real_lit]
  norm_num

theorem white_fields : (white : Color ℝ).sat = 0 ∧ (white : Color ℝ).light = 1 ∧ (white : Color ℝ).alpha = 1 := by
  simp only [white, fromHsla, clamp, real_fmin, real_fmax, real_lit]
  norm_num

end Pastel
