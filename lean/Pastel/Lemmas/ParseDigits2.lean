/-
More symbolic evaluation of the parser model on runs of decimal digits: percentages, angles
without a unit, and the `hsl(` / `hsv(` / `gray(` / `lab(` / `lch(` notations built from them.
-/
import Pastel.Lemmas.ParseDigits

namespace Pastel.P

/-- A run of digits followed by `%` is read by `recognize_float` as that integer. -/
theorem recognizeFloat_digits_pct (d : Char) (ds : List Char) (rest : List Char)
    (hd : (d :: ds).all isDigit = true) :
    recognizeFloat ((d :: ds) ++ '%' :: rest) = .ok ('%' :: rest) (.dec false (digitsToNat (d :: ds)) 0) := by
  have hdd : isDigit d = true := by simp only [List.all_cons, Bool.and_eq_true] at hd; exact hd.1
  obtain ⟨np, nm, _, _⟩ := digit_not_sign d hdd
  have hcd : isDigit '%' = false := by decide
  have hsp := span_digits (d :: ds) '%' rest hd hcd
  have hsp' : span isDigit (d :: (ds ++ '%' :: rest)) = (d :: ds, '%' :: rest) := hsp
  unfold recognizeFloat
  simp only [List.cons_append]
  simp [np, nm, many1, hsp']

/-- `N%` read by `parse_percentage`: the integer divided by 100. -/
theorem percentage_digits (d : Char) (ds : List Char) (rest : List Char) (hd : (d :: ds).all isDigit = true) :
    percentage ((d :: ds) ++ '%' :: rest) = .ok rest (digitsVal (d :: ds) / 100.0) := by
  unfold percentage double
  rw [recognizeFloat_digits_pct d ds rest hd]
  simp [PR.bind, char, digitsVal]

/-- A run of digits followed by `,` read by `parse_angle`: no unit, degrees. -/
theorem angle_digits (d : Char) (ds : List Char) (rest : List Char) (hd : (d :: ds).all isDigit = true) :
    angle ((d :: ds) ++ ',' :: rest) = .ok (',' :: rest) (digitsVal (d :: ds)) := by
  unfold angle double
  rw [recognizeFloat_digits d ds ',' rest hd (Or.inl rfl)]
  simp [tag, List.isPrefixOf, digitsVal]

/-- `)` closes: no alpha. -/
theorem alpha_close' : alpha [')'] = .ok [')'] 1.0 := alpha_close

/-- The text `H,S%,L%)` (optionally one blank after each comma) read by the shape of `hsl(`/`hsv(`. -/
theorem three_angle_pct (a : Char) (as : List Char) (b : Char) (bs : List Char) (c : Char) (cs : List Char)
    (sp : List Char) (hsp : sp = [] ∨ sp = [' '])
    (ha : (a :: as).all isDigit = true) (hb : (b :: bs).all isDigit = true) (hc : (c :: cs).all isDigit = true) :
    three angle percentage percentage true
        ((a :: as) ++ ',' :: (sp ++ ((b :: bs) ++ '%' :: ',' :: (sp ++ ((c :: cs) ++ ['%', ')']))))) =
      .ok [] (digitsVal (a :: as), digitsVal (b :: bs) / 100.0, digitsVal (c :: cs) / 100.0, 1.0) := by
  have hda : isDigit a = true := by simp only [List.all_cons, Bool.and_eq_true] at ha; exact ha.1
  have hdb : isDigit b = true := by simp only [List.all_cons, Bool.and_eq_true] at hb; exact hb.1
  have hdc : isDigit c = true := by simp only [List.all_cons, Bool.and_eq_true] at hc; exact hc.1
  unfold three
  rw [show (a :: as) ++ ',' :: (sp ++ ((b :: bs) ++ '%' :: ',' :: (sp ++ ((c :: cs) ++ ['%', ')'])))) =
      a :: (as ++ ',' :: (sp ++ ((b :: bs) ++ '%' :: ',' :: (sp ++ ((c :: cs) ++ ['%', ')']))))) from rfl,
    space0_digit a _ hda,
    show a :: (as ++ ',' :: (sp ++ ((b :: bs) ++ '%' :: ',' :: (sp ++ ((c :: cs) ++ ['%', ')']))))) =
      (a :: as) ++ ',' :: (sp ++ ((b :: bs) ++ '%' :: ',' :: (sp ++ ((c :: cs) ++ ['%', ')'])))) from rfl,
    angle_digits a as _ ha]
  simp only [PR.bind]
  rw [show sp ++ ((b :: bs) ++ '%' :: ',' :: (sp ++ ((c :: cs) ++ ['%', ')']))) =
      sp ++ b :: (bs ++ '%' :: ',' :: (sp ++ ((c :: cs) ++ ['%', ')']))) from rfl,
    separator_comma sp hsp b _ hdb]
  simp only []
  rw [show b :: (bs ++ '%' :: ',' :: (sp ++ ((c :: cs) ++ ['%', ')']))) =
      (b :: bs) ++ '%' :: (',' :: (sp ++ ((c :: cs) ++ ['%', ')']))) from rfl,
    percentage_digits b bs _ hb]
  simp only []
  rw [show sp ++ ((c :: cs) ++ ['%', ')']) = sp ++ c :: (cs ++ ['%', ')']) from rfl, separator_comma sp hsp c _ hdc]
  simp only []
  rw [show c :: (cs ++ ['%', ')']) = (c :: cs) ++ '%' :: [')'] from rfl, percentage_digits c cs _ hc]
  simp only []
  rw [alpha_close]
  simp [space0, char, isBlank]

end Pastel.P
