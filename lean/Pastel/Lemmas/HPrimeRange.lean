/-
The primed hue angle `h'` of CIEDE2000 lies in [0, 360) for every input.
-/
import Pastel.RealInst
import Pastel.Model.DeltaE
import Mathlib.Analysis.SpecialFunctions.Complex.Arg

namespace Pastel.HPrimeRange
open Pastel

theorem getHPrime_range (x y : ℝ) : 0 ≤ getHPrime x y ∧ getHPrime x y < 360 := by
  unfold getHPrime radiansToDegrees
  simp only []
  split_ifs with h0 hneg
  · norm_num
  · have hlo : -Real.pi < Complex.arg ⟨y, x⟩ := Complex.neg_pi_lt_arg _
    have hpi := Real.pi_pos
    have e : ScT.atan2 x y = Complex.arg ⟨y, x⟩ := rfl
    rw [e] at hneg ⊢
    generalize Complex.arg ⟨y, x⟩ = t at *
    have h180 : t * ((180.0 : ℝ) / ScT.pi) = t / Real.pi * 180 := by
      rw [real_pi]; norm_num; field_simp
    rw [h180] at hneg ⊢
    have hb : -1 < t / Real.pi := by rw [lt_div_iff₀ hpi]; linarith
    norm_num at hneg ⊢
    constructor <;> linarith
  · have hhi : Complex.arg ⟨y, x⟩ ≤ Real.pi := Complex.arg_le_pi _
    have hpi := Real.pi_pos
    have e : ScT.atan2 x y = Complex.arg ⟨y, x⟩ := rfl
    rw [e] at hneg ⊢
    generalize Complex.arg ⟨y, x⟩ = t at *
    have h180 : t * ((180.0 : ℝ) / ScT.pi) = t / Real.pi * 180 := by
      rw [real_pi]; norm_num; field_simp
    rw [h180] at hneg ⊢
    have hb : t / Real.pi ≤ 1 := by rw [div_le_one hpi]; exact hhi
    norm_num at hneg ⊢
    constructor <;> linarith

end Pastel.HPrimeRange
