/-
HSL coordinates far outside their ranges (C04, inverse clause).  `from_hsla` clamps saturation and
lightness to [0,1] *before* the hexcone transform; the statement of C04 asks for the transform on
the coordinates as given followed by clamping each channel.  For a saturation in [0,1] the two
agree for every lightness (proved here, exact arithmetic); for a saturation outside [0,1] they do
not (kernel-evaluated witness in Props/C04).
-/
import Pastel.Lemmas.LightMono
namespace Pastel
open Pastel

theorem real_rtrunc_int (z : ℤ) : rtrunc (z : ℝ) = z := by
  unfold rtrunc
  split_ifs <;> simp

theorem real_toU8_round_ge (x : ℝ) (h : 255 ≤ x) : Sc.toU8 (Sc.round x) = 255 := by
  have hx : (0 : ℝ) ≤ x := by linarith
  show UInt8.ofNat (satInt 0 255 (rtrunc (if 0 ≤ x then (⌊x + 1 / 2⌋ : ℝ) else (⌈x - 1 / 2⌉ : ℝ)))).toNat = 255
  rw [if_pos hx, real_rtrunc_int]
  have : (255 : ℤ) ≤ ⌊x + 1 / 2⌋ := by
    apply Int.le_floor.mpr; push_cast; linarith
  have e : satInt 0 255 ⌊x + 1 / 2⌋ = 255 := by unfold satInt; omega
  rw [e]; rfl

theorem real_toU8_round_le (x : ℝ) (h : x ≤ 0) : Sc.toU8 (Sc.round x) = 0 := by
  show UInt8.ofNat (satInt 0 255 (rtrunc (if 0 ≤ x then (⌊x + 1 / 2⌋ : ℝ) else (⌈x - 1 / 2⌉ : ℝ)))).toNat = 0
  by_cases hx : 0 ≤ x
  · have : x = 0 := le_antisymm h hx
    subst this
    rw [if_pos le_rfl, real_rtrunc_int]
    have : ⌊(0 : ℝ) + 1 / 2⌋ = 0 := by rw [Int.floor_eq_iff]; norm_num
    rw [this]; rfl
  · rw [if_neg hx, real_rtrunc_int]
    have : ⌈x - 1 / 2⌉ ≤ 0 := by
      apply Int.ceil_le.mpr; push_cast; linarith
    have e : satInt 0 255 ⌈x - 1 / 2⌉ = 0 := by unfold satInt; omega
    rw [e]; rfl

end Pastel

namespace Pastel
open Pastel

theorem real_clamp01_id (x : ℝ) (h0 : 0 ≤ x) (h1 : x ≤ 1) : clamp (0 : ℝ) 1 x = x := by
  unfold clamp; sc_norm
  rw [min_eq_right h1, max_eq_left h0]
theorem real_clamp01_hi (x : ℝ) (h1 : 1 ≤ x) : clamp (0 : ℝ) 1 x = 1 := by
  unfold clamp; sc_norm
  rw [min_eq_left h1]; norm_num
theorem real_clamp01_lo (x : ℝ) (h0 : x ≤ 0) : clamp (0 : ℝ) 1 x = 0 := by
  unfold clamp; sc_norm
  rw [min_eq_right (by linarith), max_eq_right h0]

/-- `v` is `κ·chroma + (l − chroma/2)` for some `κ ∈ [0,1]`. -/
def IsChan (c : Color ℝ) (v : ℝ) : Prop :=
  ∃ k : ℝ, 0 ≤ k ∧ k ≤ 1 ∧ v = k * ((1 - |2 * c.light - 1|) * c.sat) + (c.light - (1 - |2 * c.light - 1|) * c.sat / 2)

theorem toRgbaFloat_isChan (c : Color ℝ) :
    IsChan c (toRgbaFloat c).x ∧ IsChan c (toRgbaFloat c).y ∧ IsChan c (toRgbaFloat c).z := by
  have hr := real_hueValue_range c.hue
  have hS0 : 0 ≤ hueValue c.hue / (60 : ℝ) := div_nonneg hr.1 (by norm_num)
  have hf := real_fmod_range_nonneg (hueValue c.hue / (60 : ℝ)) 2 hS0 (by norm_num)
  have ht0 : 0 ≤ 1 - |Sc.fmod (hueValue c.hue / (60 : ℝ)) 2 - 1| := by
    have : |Sc.fmod (hueValue c.hue / (60 : ℝ)) 2 - 1| ≤ 1 := by rw [abs_le]; constructor <;> linarith [hf.1, hf.2]
    linarith
  have ht1 : 1 - |Sc.fmod (hueValue c.hue / (60 : ℝ)) 2 - 1| ≤ 1 := by
    have := abs_nonneg (Sc.fmod (hueValue c.hue / (60 : ℝ)) 2 - 1); linarith
  obtain ⟨t, ht0, ht1, htd⟩ : ∃ t : ℝ, 0 ≤ t ∧ t ≤ 1 ∧ t = 1 - |Sc.fmod (hueValue c.hue / (60 : ℝ)) 2 - 1| :=
    ⟨_, ht0, ht1, rfl⟩
  unfold IsChan
  simp only [toRgbaFloat]
  sc_norm
  norm_num at htd ⊢
  rw [← htd]
  have k1 : ∃ k : ℝ, 0 ≤ k ∧ k ≤ 1 ∧ (1 - |2 * c.light - 1|) * c.sat = k * ((1 - |2 * c.light - 1|) * c.sat) :=
    ⟨1, by norm_num, le_rfl, by ring⟩
  have kt : ∃ k : ℝ, 0 ≤ k ∧ k ≤ 1 ∧ (1 - |2 * c.light - 1|) * c.sat * t = k * ((1 - |2 * c.light - 1|) * c.sat) :=
    ⟨t, ht0, ht1, by ring⟩
  have k0 : ∃ k : ℝ, 0 ≤ k ∧ k ≤ 1 ∧ (0 : ℝ) = k * ((1 - |2 * c.light - 1|) * c.sat) :=
    ⟨0, le_rfl, by norm_num, by ring⟩
  split_ifs <;> exact ⟨by assumption, by assumption, by assumption⟩


/-- A channel `κ·chroma + (l − chroma/2)` of a colour with saturation in `[0,1]` and lightness `≥ 1`
is `≥ 1`; with lightness `≤ 0` it is `≤ 0`. -/
theorem isChan_ge_one (c : Color ℝ) (v : ℝ) (hv : IsChan c v) (hs0 : 0 ≤ c.sat) (hs1 : c.sat ≤ 1) (hl : 1 ≤ c.light) : 1 ≤ v := by
  obtain ⟨k, hk0, hk1, rfl⟩ := hv
  have ha : |2 * c.light - 1| = 2 * c.light - 1 := abs_of_nonneg (by linarith)
  rw [ha]
  nlinarith [mul_nonneg hs0 (by linarith : (0:ℝ) ≤ c.light - 1), mul_nonneg (mul_nonneg hk0 hs0) (by linarith : (0:ℝ) ≤ c.light - 1),
    mul_nonneg (sub_nonneg.mpr hk1) (mul_nonneg hs0 (by linarith : (0:ℝ) ≤ c.light - 1)),
    mul_nonneg (sub_nonneg.mpr hs1) (by linarith : (0:ℝ) ≤ c.light - 1)]

theorem isChan_le_zero (c : Color ℝ) (v : ℝ) (hv : IsChan c v) (hs0 : 0 ≤ c.sat) (hs1 : c.sat ≤ 1) (hl : c.light ≤ 0) : v ≤ 0 := by
  obtain ⟨k, hk0, hk1, rfl⟩ := hv
  have ha : |2 * c.light - 1| = -(2 * c.light - 1) := abs_of_nonpos (by linarith)
  rw [ha]
  nlinarith [mul_nonneg hs0 (by linarith : (0:ℝ) ≤ -c.light), mul_nonneg (mul_nonneg hk0 hs0) (by linarith : (0:ℝ) ≤ -c.light),
    mul_nonneg (sub_nonneg.mpr hk1) (mul_nonneg hs0 (by linarith : (0:ℝ) ≤ -c.light)),
    mul_nonneg (sub_nonneg.mpr hs1) (by linarith : (0:ℝ) ≤ -c.light)]

/-- The three bytes of a colour. -/
noncomputable def bytes (c : Color ℝ) : UInt8 × UInt8 × UInt8 := ((toRgba8 c).r, (toRgba8 c).g, (toRgba8 c).b)

theorem bytes_of_light_ge_one (c : Color ℝ) (hs0 : 0 ≤ c.sat) (hs1 : c.sat ≤ 1) (hl : 1 ≤ c.light) : bytes c = (255, 255, 255) := by
  obtain ⟨hx, hy, hz⟩ := toRgbaFloat_isChan c
  have bx := isChan_ge_one c _ hx hs0 hs1 hl
  have by' := isChan_ge_one c _ hy hs0 hs1 hl
  have bz := isChan_ge_one c _ hz hs0 hs1 hl
  unfold bytes toRgba8
  simp only []
  rw [real_toU8_round_ge _ (by norm_num; linarith), real_toU8_round_ge _ (by norm_num; linarith),
    real_toU8_round_ge _ (by norm_num; linarith)]

theorem bytes_of_light_le_zero (c : Color ℝ) (hs0 : 0 ≤ c.sat) (hs1 : c.sat ≤ 1) (hl : c.light ≤ 0) : bytes c = (0, 0, 0) := by
  obtain ⟨hx, hy, hz⟩ := toRgbaFloat_isChan c
  have bx := isChan_le_zero c _ hx hs0 hs1 hl
  have by' := isChan_le_zero c _ hy hs0 hs1 hl
  have bz := isChan_le_zero c _ hz hs0 hs1 hl
  unfold bytes toRgba8
  simp only []
  rw [real_toU8_round_le _ (by norm_num; linarith), real_toU8_round_le _ (by norm_num; linarith),
    real_toU8_round_le _ (by norm_num; linarith)]

/-- **HSL lightness far outside `[0,1]`** (exact arithmetic, saturation in `[0,1]`, any hue, any
lightness): the bytes of `from_hsla(h, s, l, a)` — which clamps the lightness first — are the bytes
of the hexcone inverse applied to the coordinates as given, followed by clamping each channel and
rounding (the saturating `as u8`). This is the part of C04's inverse clause that holds for HSL; for a
saturation outside `[0,1]` it fails (see `hsl_saturation_clamped_first`). -/
theorem hsl_lightness_outside (h s l a : ℝ) (hs0 : 0 ≤ s) (hs1 : s ≤ 1) :
    bytes (fromHsla h s l a) = bytes { hue := hueFrom h, sat := s, light := l, alpha := (fromHsla h s l a).alpha } := by
  have fs : (fromHsla h s l a).sat = max (min 1 s) 0 := by unfold fromHsla clamp; sc_norm; norm_num
  have fl : (fromHsla h s l a).light = max (min 1 l) 0 := by unfold fromHsla clamp; sc_norm; norm_num
  have hsat : (fromHsla h s l a).sat = s := by rw [fs, min_eq_right hs1, max_eq_left hs0]
  rcases le_total l 0 with hl0 | hl0
  · rw [bytes_of_light_le_zero { hue := hueFrom h, sat := s, light := l, alpha := (fromHsla h s l a).alpha } hs0 hs1 hl0]
    apply bytes_of_light_le_zero
    · rw [hsat]; exact hs0
    · rw [hsat]; exact hs1
    · rw [fl, min_eq_right (by linarith), max_eq_right hl0]
  · rcases le_total l 1 with hl1 | hl1
    · have hlight : (fromHsla h s l a).light = l := by rw [fl, min_eq_right hl1, max_eq_left hl0]
      have : fromHsla h s l a = { hue := hueFrom h, sat := s, light := l, alpha := (fromHsla h s l a).alpha } := by
        have e : fromHsla h s l a = { hue := hueFrom h, sat := (fromHsla h s l a).sat, light := (fromHsla h s l a).light, alpha := (fromHsla h s l a).alpha } := rfl
        rw [e, hsat, hlight]
      rw [this]
    · rw [bytes_of_light_ge_one { hue := hueFrom h, sat := s, light := l, alpha := (fromHsla h s l a).alpha } hs0 hs1 hl1]
      apply bytes_of_light_ge_one
      · rw [hsat]; exact hs0
      · rw [hsat]; exact hs1
      · rw [fl, min_eq_left hl1]; norm_num

end Pastel
