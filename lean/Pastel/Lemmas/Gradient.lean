/-
`pastel gradient` builds its scale by adding the colours at the evenly spaced positions
`j/(k−1)` in increasing order: every stop is appended, so the scale is the list written out
(`evenStops`) — exact arithmetic.
-/
import Pastel.Lemmas.Scale
import Pastel.RealInst

namespace Pastel
open Pastel Sc ScOrd

section
variable {P C : Type} [Sc P] [ScOrd P]
set_option linter.unusedSectionVars false

/-- A stop added above every existing position is appended. -/
theorem addStop_append (l : List (Stop P C)) (c : C) (p : P) (h : ∀ s ∈ l, s.2 < p) :
    addStop l c p = l ++ [(c, p)] := by
  have hr : replaceAt c p l = none := by
    induction l with
    | nil => rfl
    | cons a rest ih =>
      have ha : feq p a.2 = false := by
        cases hq : feq p a.2
        · rfl
        · exact absurd (h a (List.mem_cons_self ..)) (not_lt_of_le (feq_le hq))
      unfold replaceAt
      rw [ha]
      simp only [Bool.false_eq_true, if_false]
      rw [ih (fun s hs => h s (List.mem_cons_of_mem _ hs))]
      rfl
  have hi : insertSorted c p l = l ++ [(c, p)] := by
    clear hr
    induction l with
    | nil => rfl
    | cons a rest ih =>
      have ha : ¬ p < a.2 := not_lt_of_le (le_of_lt (h a (List.mem_cons_self ..)))
      unfold insertSorted
      rw [if_neg ha, ih (fun s hs => h s (List.mem_cons_of_mem _ hs))]
      rfl
  unfold addStop
  rw [hr]
  exact hi

end

section gradient
variable {C : Type}

/-- The `k` evenly spaced stops of `pastel gradient`, written out. -/
noncomputable def evenStops (cs : List C) (n : Nat) (k : Nat) : List (Stop ℝ C) :=
  (cs.zipIdx n).map (fun ci => (ci.1, (ci.2 : ℝ) / ((k : ℝ) - 1)))

theorem real_fraction_id (x : ℝ) (h0 : 0 ≤ x) (h1 : x ≤ 1) : fraction x = x := by
  have : fraction x = max (min 1 x) 0 := by simp [fraction, clamp]
  rw [this, min_eq_right h1, max_eq_left h0]

theorem gradient_fold (k : Nat) (hk : 2 ≤ k) : ∀ (cs : List C) (n : Nat) (acc : List (Stop ℝ C)),
    (∀ s ∈ acc, s.2 < (n : ℝ) / ((k : ℝ) - 1)) → n + cs.length ≤ k →
    (cs.zipIdx n).foldl (fun (sc : List (Stop ℝ C)) (ci : C × Nat) =>
        addStop sc ci.1 (fraction (Sc.ofNat ci.2 / (Sc.ofNat k - 1.0)))) acc = acc ++ evenStops cs n k := by
  have hK : (0 : ℝ) < (k : ℝ) - 1 := by
    have : (2 : ℝ) ≤ (k : ℝ) := by exact_mod_cast hk
    linarith
  intro cs
  induction cs with
  | nil => intro n acc _ _; simp [evenStops]
  | cons c cs ih =>
    intro n acc hacc hlen
    simp only [List.length_cons] at hlen
    have hn : (n : ℝ) ≤ (k : ℝ) - 1 := by
      have : n + 1 ≤ k := by omega
      have : ((n + 1 : ℕ) : ℝ) ≤ (k : ℝ) := by exact_mod_cast this
      push_cast at this; linarith
    have hpos : fraction (Sc.ofNat n / (Sc.ofNat k - 1.0) : ℝ) = (n : ℝ) / ((k : ℝ) - 1) := by
      have e : (Sc.ofNat n / (Sc.ofNat k - 1.0) : ℝ) = (n : ℝ) / ((k : ℝ) - 1) := by
        simp only [real_ofNat]; norm_num
      rw [e]
      exact real_fraction_id _ (div_nonneg (Nat.cast_nonneg n) hK.le) ((div_le_one hK).mpr hn)
    rw [List.zipIdx_cons, List.foldl_cons]
    simp only []
    rw [hpos, addStop_append acc c _ hacc]
    rw [ih (n + 1) (acc ++ [(c, (n : ℝ) / ((k : ℝ) - 1))]) ?_ (by omega)]
    · simp [evenStops, List.zipIdx_cons]
    · intro s hs
      have hstep : (n : ℝ) / ((k : ℝ) - 1) < ((n + 1 : ℕ) : ℝ) / ((k : ℝ) - 1) := by
        apply div_lt_div_of_pos_right _ hK; push_cast; linarith
      rcases List.mem_append.mp hs with h | h
      · exact _root_.lt_trans (hacc s h) hstep
      · simp only [List.mem_singleton] at h; rw [h]; exact hstep

theorem gradientStops_real (cs : List C) (hk : 2 ≤ cs.length) :
    gradientStops (P := ℝ) cs = evenStops cs 0 cs.length := by
  unfold gradientStops
  have := gradient_fold cs.length hk cs 0 [] (by simp) (by omega)
  simpa using this

end gradient
end Pastel
