/-
Generic facts about `minByKey` (first minimum of an integer key), used by C12 (nearest palette
entry) and C18 (nearest colour name).
-/
import Pastel.Model.Ansi

namespace Pastel.MinBy
open Pastel

/-- `Iterator::min_by_key`: the result is an element of the list with a minimal key. -/
theorem minByKey_spec {β : Type} (key : β → Int) (l : List β) (x : β) (h : minByKey key l = some x) :
    x ∈ l ∧ ∀ y ∈ l, key x ≤ key y := by
  cases l with
  | nil => simp [minByKey] at h
  | cons a as =>
    simp only [minByKey, Option.some.injEq] at h
    subst h
    -- invariant of the fold: the running best is a member with a key ≤ all seen so far
    have inv : ∀ (ys : List β) (best : β),
        (ys.foldl (fun best y => if key y < key best then y else best) best ∈ best :: ys) ∧
        (∀ y ∈ best :: ys, key (ys.foldl (fun best y => if key y < key best then y else best) best) ≤ key y) := by
      intro ys
      induction ys with
      | nil => intro best; simp
      | cons y ys ih =>
        intro best
        simp only [List.foldl_cons]
        by_cases hlt : key y < key best
        · simp only [hlt, if_true]
          have := ih y
          refine ⟨?_, ?_⟩
          · rcases List.mem_cons.mp this.1 with h | h
            · rw [h]; simp
            · exact List.mem_cons_of_mem _ (List.mem_cons_of_mem _ h)
          · intro z hz
            rcases List.mem_cons.mp hz with rfl | hz
            · exact Int.le_trans (this.2 y (by simp)) (Int.le_of_lt hlt)
            · exact this.2 z hz
        · simp only [hlt, if_false]
          have := ih best
          refine ⟨?_, ?_⟩
          · rcases List.mem_cons.mp this.1 with h | h
            · rw [h]; simp
            · exact List.mem_cons_of_mem _ (List.mem_cons_of_mem _ h)
          · intro z hz
            rcases List.mem_cons.mp hz with rfl | hz
            · exact this.2 z (by simp)
            · rcases List.mem_cons.mp hz with rfl | hz
              · exact Int.le_trans (this.2 best (by simp)) (Int.not_lt.mp hlt)
              · exact this.2 z (List.mem_cons_of_mem _ hz)
    exact inv as a

theorem minByKey_none {β : Type} (key : β → Int) (l : List β) (h : minByKey key l = none) : l = [] := by
  cases l with
  | nil => rfl
  | cons a as => simp [minByKey] at h

end Pastel.MinBy
