/-
Whole turns of the hue (C05, C06): `mod_positive` is `x − y·⌊x/y⌋`, hence periodic; a colour's float
channels depend on the stored hue only through its canonical angle, so shifting the hue by any
integer number of turns gives the same colour.
-/
import Pastel.Lemmas.LightMono

namespace Pastel

/-- `mod_positive(x, y) = x − y·⌊x/y⌋` for every real `x` and positive `y`. -/
theorem real_modPositive_floor (x y : ℝ) (hy : 0 < y) : modPositive x y = x - y * (⌊x / y⌋ : ℝ) := by
  unfold modPositive
  have hz : 0 ≤ Sc.fmod x y + y := by
    by_cases hx : 0 ≤ x
    · have := (real_fmod_range_nonneg x y hx hy).1; linarith
    · have := (real_fmod_range_neg x y (not_le.mp hx) hy).1; linarith
  rw [real_fmod_nonneg _ y hz hy]
  have hf : Sc.fmod x y = x - y * ((rtrunc (x / y) : ℤ) : ℝ) := rfl
  rw [hf]
  have e : (x - y * ((rtrunc (x / y) : ℤ) : ℝ) + y) / y = x / y + ((1 - rtrunc (x / y) : ℤ) : ℝ) := by
    field_simp
    push_cast
    ring
  rw [e, Int.floor_add_intCast]
  push_cast
  ring

/-- `mod_positive` is periodic: adding whole multiples of `y` changes nothing. -/
theorem real_modPositive_periodic (x y : ℝ) (k : ℤ) (hy : 0 < y) : modPositive (x + y * k) y = modPositive x y := by
  rw [real_modPositive_floor _ y hy, real_modPositive_floor _ y hy]
  have e : (x + y * k) / y = x / y + (k : ℝ) := by field_simp
  rw [e, Int.floor_add_intCast]
  push_cast
  ring


/-- The float channels depend on the stored hue only through `Hue::value`. -/
theorem toRgbaFloat_hue_congr (c c' : Color ℝ) (hh : hueValue c'.hue = hueValue c.hue) (hs : c'.sat = c.sat)
    (hl : c'.light = c.light) (ha : c'.alpha = c.alpha) : toRgbaFloat c' = toRgbaFloat c := by
  simp only [toRgbaFloat, hh, hs, hl, ha]

theorem real_hueValue_zero : hueValue (0 : ℝ) = 0 := real_hueValue_id 0 le_rfl (by norm_num)

/-- A reported hue of exactly 360 denotes the same colour as hue 0. -/
theorem toRgbaFloat_hue360 (c : Color ℝ) (h : hueValue c.hue = 360) :
    toRgbaFloat c = toRgbaFloat { c with hue := 0 } := by
  have h0 : hueValue ({ c with hue := 0 } : Color ℝ).hue = 0 := real_hueValue_zero
  simp only [toRgbaFloat, h, h0]
  sc_norm
  have f6 : Sc.fmod (6 : ℝ) 2 = 0 := by
    have := real_fmod_band (6 : ℝ) 2 3 (by norm_num) (by norm_num) (by norm_num)
    rw [this]; norm_num
  have f0 : Sc.fmod (0 : ℝ) 2 = 0 := by
    have := real_fmod_band (0 : ℝ) 2 0 (by norm_num) (by norm_num) (by norm_num)
    rw [this]; norm_num
  norm_num
  constructor
  · right; rw [f0]; norm_num
  · right; rw [f6]; norm_num

/-- **A hue shifted by whole turns denotes the same colour** (exact arithmetic, any integer number
of turns, any saturation/lightness/alpha): the float RGB channels are identical. -/
theorem toRgbaFloat_whole_turns (c c' : Color ℝ) (k : ℤ) (hh : c'.hue = c.hue + 360 * k) (hs : c'.sat = c.sat)
    (hl : c'.light = c.light) (ha : c'.alpha = c.alpha) : toRgbaFloat c' = toRgbaFloat c := by
  have hval : ∀ h : ℝ, hueValue h = 360 ∨ hueValue h = modPositive h 360 := by
    intro h
    unfold hueValue
    by_cases hq : Sc.feq h (360 : ℝ) = true
    · left; rw [if_pos hq]; have := (real_feq _ _).mp hq; simp only [real_lit] at this; rw [this]; norm_num
    · right; rw [if_neg hq]
  have hper : modPositive c'.hue 360 = modPositive c.hue 360 := by
    rw [hh]; exact real_modPositive_periodic c.hue 360 k (by norm_num)
  -- reduce both to "the colour with the canonical angle", treating a reported 360 as 0
  have canon : ∀ d : Color ℝ, hueValue d.hue = 360 → modPositive d.hue 360 = 0 := by
    intro d h360
    rcases hval d.hue with _ | h2
    · -- hueValue = 360 only arises from the stored hue 360 itself (mod_positive < 360)
      have hr := real_modPositive_range d.hue 360 (by norm_num)
      by_cases hq : Sc.feq d.hue (360 : ℝ) = true
      · have := (real_feq _ _).mp hq; simp only [real_lit] at this; push_cast at this
        rw [this]
        have := real_modPositive_periodic 0 360 1 (by norm_num)
        simp only [Int.cast_one, mul_one, zero_add] at this
        rw [this]; exact real_modPositive_id 0 360 (by norm_num) le_rfl (by norm_num)
      · exfalso
        unfold hueValue at h360
        rw [if_neg hq] at h360
        simp only [real_lit] at h360; push_cast at h360
        linarith [hr.2]
    · rw [h2] at h360; have hr := real_modPositive_range d.hue 360 (by norm_num); linarith [hr.2]
  have key : ∀ d : Color ℝ, toRgbaFloat d = toRgbaFloat { d with hue := modPositive d.hue 360 } := by
    intro d
    have hr := real_modPositive_range d.hue 360 (by norm_num)
    have hid : hueValue (modPositive d.hue 360) = modPositive d.hue 360 := real_hueValue_id _ hr.1 hr.2
    rcases hval d.hue with h360 | hmod
    · rw [toRgbaFloat_hue360 d h360, canon d h360]
    · exact (toRgbaFloat_hue_congr d { d with hue := modPositive d.hue 360 } (by show hueValue (modPositive d.hue 360) = _; rw [hid, hmod]) rfl rfl rfl).symm
  rw [key c', key c]
  apply toRgbaFloat_hue_congr
  · show hueValue (modPositive c'.hue 360) = hueValue (modPositive c.hue 360); rw [hper]
  · exact hs
  · exact hl
  · exact ha


/-- `Hue::value` differs from the stored hue by a whole number of turns. -/
theorem real_hueValue_turns (h : ℝ) : ∃ j : ℤ, hueValue h = h + 360 * j := by
  unfold hueValue
  by_cases hq : Sc.feq h (360 : ℝ) = true
  · exact ⟨0, by rw [if_pos hq, Int.cast_zero, mul_zero, add_zero]⟩
  · rw [if_neg hq]
    refine ⟨-⌊h / 360⌋, ?_⟩
    have := real_modPositive_floor h 360 (by norm_num)
    simp only [real_lit]
    push_cast
    rw [this]; ring

/-- **`lch()` angles are reduced modulo a turn** (exact arithmetic, any integer number of turns):
the colour built from hue `h + 360·k` is the colour built from hue `h`. -/
theorem fromLch_whole_turns (l c h al : ℝ) (k : ℤ) : fromLch l c (h + 360 * k) al = fromLch l c h al := by
  have key : ∀ x : ℝ, ∃ n : ℤ, Sc.fmod x (360.0 : ℝ) * deg2rad = x * (Real.pi / 180) - n * (2 * Real.pi) := by
    intro x
    refine ⟨rtrunc (x / 360), ?_⟩
    show (x - (360.0 : ℝ) * ((rtrunc (x / (360.0 : ℝ)) : ℤ) : ℝ)) * deg2rad = _
    unfold deg2rad
    sc_norm
    norm_num
    ring
  obtain ⟨n1, h1⟩ := key (h + 360 * k)
  obtain ⟨n2, h2⟩ := key h
  have hc : Real.cos (Sc.fmod (h + 360 * k) (360.0 : ℝ) * deg2rad) = Real.cos (Sc.fmod h (360.0 : ℝ) * deg2rad) := by
    rw [h1, h2, Real.cos_sub_int_mul_two_pi, Real.cos_sub_int_mul_two_pi]
    have : (h + 360 * k) * (Real.pi / 180) = h * (Real.pi / 180) + k * (2 * Real.pi) := by ring
    rw [this, Real.cos_add_int_mul_two_pi]
  have hs : Real.sin (Sc.fmod (h + 360 * k) (360.0 : ℝ) * deg2rad) = Real.sin (Sc.fmod h (360.0 : ℝ) * deg2rad) := by
    rw [h1, h2, Real.sin_sub_int_mul_two_pi, Real.sin_sub_int_mul_two_pi]
    have : (h + 360 * k) * (Real.pi / 180) = h * (Real.pi / 180) + k * (2 * Real.pi) := by ring
    rw [this, Real.sin_add_int_mul_two_pi]
  unfold fromLch
  simp only [real_cos, real_sin, hc, hs]

end Pastel
