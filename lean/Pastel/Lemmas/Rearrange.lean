/-
`rearrange_sequence` is farthest-first (C14): the loop invariant of the two nested loops.

`minD key c pre` is the smallest key from colour `c` to the colours in `pre` (`i32::MAX` when
`pre` is empty) — what `min_distances[j]` holds for the colour at position `j` once the colours
`pre` have been placed.
-/
import Pastel.Model.Distinct

namespace Pastel

/-- Smallest key from colour id `c` to the ids in `pre`; `i32::MAX` for the empty prefix. -/
def minD (key : Nat → Nat → Int) (c : Nat) (pre : List Nat) : Int :=
  pre.foldl (fun m t => min m (key c t)) i32Max

theorem minD_nil (key : Nat → Nat → Int) (c : Nat) : minD key c [] = i32Max := rfl

theorem minD_append_one (key : Nat → Nat → Int) (c : Nat) (pre : List Nat) (t : Nat) :
    minD key c (pre ++ [t]) = min (minD key c pre) (key c t) := by
  simp [minD, List.foldl_append]

/-! ### swapping two positions -/

def swapIdx (i j x : Nat) : Nat := if x = i then j else if x = j then i else x

theorem swapIdx_lt {i j x n : Nat} (hi : i < n) (hj : j < n) (hx : x < n) : swapIdx i j x < n := by
  unfold swapIdx; split
  · exact hj
  · split
    · exact hi
    · exact hx

theorem swapIdx_ge {i j x k : Nat} (hi : k ≤ i) (hj : k ≤ j) (hx : k ≤ x) : k ≤ swapIdx i j x := by
  unfold swapIdx; split
  · exact hj
  · split
    · exact hi
    · exact hx

theorem swapIdx_fix {i j x : Nat} (h1 : x ≠ i) (h2 : x ≠ j) : swapIdx i j x = x := by
  unfold swapIdx; simp [h1, h2]

theorem swapList_getD {β : Type} (l : List β) (i j x : Nat) (d : β) (hi : i < l.length) (hj : j < l.length) :
    (swapList l i j).getD x d = l.getD (swapIdx i j x) d := by
  unfold swapList
  rw [List.getElem?_eq_getElem hi, List.getElem?_eq_getElem hj]
  simp only [List.getD_eq_getElem?_getD, List.getElem?_set, List.length_set]
  unfold swapIdx
  by_cases hxj : j = x
  · subst hxj
    by_cases hxi : j = i
    · subst hxi; simp [hj]
    · simp [hj, hxi, List.getElem?_eq_getElem hi]
  · by_cases hxi : i = x
    · subst hxi
      have : ¬ i = j := fun h => hxj h.symm
      simp [hxj, hi, List.getElem?_eq_getElem hj]
    · have h1 : ¬ x = i := fun h => hxi h.symm
      have h2 : ¬ x = j := fun h => hxj h.symm
      simp [hxj, hxi, h1, h2]

theorem swapList_length' {β : Type} (l : List β) (i j : Nat) : (swapList l i j).length = l.length := by
  unfold swapList
  split <;> simp

theorem swapList_take {β : Type} (l : List β) (i j k : Nat) (hi : k ≤ i) (hj : k ≤ j) :
    (swapList l i j).take k = l.take k := by
  unfold swapList
  split
  · apply List.ext_getElem?
    intro x
    simp only [List.getElem?_take, List.getElem?_set]
    by_cases hx : x < k
    · have h1 : ¬ j = x := by omega
      have h2 : ¬ i = x := by omega
      simp [hx, h1, h2]
    · simp [hx]
  · rfl

/-! ### the inner loop -/

/-- What the inner loop of `rearrange_sequence` has established after its first `m` steps
(`j = i, …, i+m−1`), started from `(md, n, i32::MIN)`. -/
structure InnerSpec (keyP : Nat → Nat → Int) (i n m : Nat) (md : List Int) (st : List Int × Nat × Int) : Prop where
  len : st.1.length = n
  upd : ∀ j, i ≤ j → j < i + m → st.1.getD j i32Max = min (md.getD j i32Max) (keyP j (i - 1))
  same : ∀ j, (j < i ∨ i + m ≤ j) → st.1.getD j i32Max = md.getD j i32Max
  le_max : ∀ j, i ≤ j → j < i + m → st.1.getD j i32Max ≤ st.2.2
  arg : st.2.1 < n → i ≤ st.2.1 ∧ st.2.1 < i + m ∧ st.1.getD st.2.1 i32Max = st.2.2
  bound : st.2.1 ≤ n
  init : st.2.1 = n → st.2.2 = i32Min

theorem getD_set_eq (l : List Int) (j : Nat) (v d : Int) (h : j < l.length) : (l.set j v).getD j d = v := by
  simp [List.getD_eq_getElem?_getD, h]

theorem getD_set_ne (l : List Int) (j x : Nat) (v d : Int) (h : j ≠ x) : (l.set j v).getD x d = l.getD x d := by
  simp [List.getD_eq_getElem?_getD, h]

theorem inner_spec (keyP : Nat → Nat → Int) (i n : Nat) (md : List Int) (hlen : md.length = n) :
    ∀ m, i + m ≤ n →
      InnerSpec keyP i n m md (((List.range m).map (· + i)).foldl (rearrangeInner keyP i n) (md, n, i32Min)) := by
  intro m
  induction m with
  | zero =>
    intro _
    simp only [List.range_zero, List.map_nil, List.foldl_nil]
    exact ⟨hlen, fun j h1 h2 => by omega, fun _ _ => rfl, fun j h1 h2 => by omega, fun h => by simp at h, Nat.le_refl n, fun _ => rfl⟩
  | succ m ih =>
    intro hm
    have ih := ih (by omega)
    rw [List.range_succ, List.map_append, List.foldl_append]
    generalize ((List.range m).map (· + i)).foldl (rearrangeInner keyP i n) (md, n, i32Min) = st at ih
    obtain ⟨tbl, maxI, maxD⟩ := st
    simp only [List.map_cons, List.map_nil, List.foldl_cons, List.foldl_nil]
    obtain ⟨len, upd, same, le_max, arg, bound, init⟩ := ih
    simp only at len upd same le_max arg bound init
    have hj : m + i < tbl.length := by omega
    have hv : tbl.getD (m + i) i32Max = md.getD (m + i) i32Max := same (m + i) (Or.inr (by omega))
    unfold rearrangeInner
    simp only []
    by_cases hgt : min (tbl.getD (m + i) i32Max) (keyP (m + i) (i - 1)) > maxD
    · simp only [hgt, if_true]
      refine ⟨by simp [len], ?_, ?_, ?_, ?_, ?_, ?_⟩ <;> dsimp only
      · intro j h1 h2
        by_cases hjm : j = m + i
        · subst hjm; rw [getD_set_eq _ _ _ _ hj, hv]
        · rw [getD_set_ne _ _ _ _ _ (Ne.symm hjm)]; exact upd j h1 (by omega)
      · intro j h
        rw [getD_set_ne _ _ _ _ _ (by omega)]; exact same j (by omega)
      · intro j h1 h2
        by_cases hjm : j = m + i
        · subst hjm; rw [getD_set_eq _ _ _ _ hj]; exact Int.le_refl _
        · rw [getD_set_ne _ _ _ _ _ (Ne.symm hjm)]
          have := le_max j h1 (by omega)
          omega
      · intro _
        exact ⟨by omega, by omega, getD_set_eq _ _ _ _ hj⟩
      · omega
      · intro h; omega
    · simp only [hgt, if_false]
      refine ⟨by simp [len], ?_, ?_, ?_, ?_, ?_, ?_⟩ <;> dsimp only
      · intro j h1 h2
        by_cases hjm : j = m + i
        · subst hjm; rw [getD_set_eq _ _ _ _ hj, hv]
        · rw [getD_set_ne _ _ _ _ _ (Ne.symm hjm)]; exact upd j h1 (by omega)
      · intro j h
        rw [getD_set_ne _ _ _ _ _ (by omega)]; exact same j (by omega)
      · intro j h1 h2
        by_cases hjm : j = m + i
        · subst hjm; rw [getD_set_eq _ _ _ _ hj]; omega
        · rw [getD_set_ne _ _ _ _ _ (Ne.symm hjm)]; exact le_max j h1 (by omega)
      · intro hlt
        obtain ⟨a1, a2, a3⟩ := arg hlt
        refine ⟨a1, by omega, ?_⟩
        rw [getD_set_ne _ _ _ _ _ (by omega)]; exact a3
      · exact bound
      · exact init


/-! ### the outer loop -/

/-- Invariant of the outer loop at the start of iteration `i`. -/
structure OuterInv (key : Nat → Nat → Int) (n i : Nat) (perm : List Nat) (md : List Int) : Prop where
  plen : perm.length = n
  mlen : md.length = n
  ipos : 1 ≤ i
  table : ∀ j, i ≤ j → j < n → md.getD j i32Max = minD key (perm.getD j 0) (perm.take (i - 1))
  greedy : ∀ k, 1 ≤ k → k < i → ∀ j, k ≤ j → j < n →
    minD key (perm.getD j 0) (perm.take k) ≤ minD key (perm.getD k 0) (perm.take k)

theorem take_succ_getD (l : List Nat) (k : Nat) (h : k < l.length) : l.take (k + 1) = l.take k ++ [l.getD k 0] := by
  rw [List.take_add_one, List.getD_eq_getElem?_getD, List.getElem?_eq_getElem h]
  simp

theorem outer_step (key : Nat → Nat → Int) (n i : Nat) (perm : List Nat) (md : List Int)
    (inv : OuterInv key n i perm md) (hin : i < n)
    (md' : List Int) (maxI : Nat) (maxD : Int)
    (hfold : ((List.range (n - i)).map (· + i)).foldl
      (rearrangeInner (fun a b => key (perm.getD a 0) (perm.getD b 0)) i n) (md, n, i32Min) = (md', maxI, maxD))
    (hmax : maxI < n) :
    OuterInv key n (i + 1) (swapList perm i maxI) (swapList md' i maxI) := by
  obtain ⟨plen, mlen, ipos, table, greedy⟩ := inv
  have spec := inner_spec (fun a b => key (perm.getD a 0) (perm.getD b 0)) i n md mlen (n - i) (by omega)
  rw [hfold] at spec
  obtain ⟨len, upd, same, le_max, arg, bound, _⟩ := spec
  simp only at len upd same le_max arg bound
  obtain ⟨a1, a2, a3⟩ := arg hmax
  -- after the inner loop, md'[j] is the minimal key to the first i colours
  have htake : perm.take i = perm.take (i - 1) ++ [perm.getD (i - 1) 0] := by
    have := take_succ_getD perm (i - 1) (by omega)
    rwa [show i - 1 + 1 = i by omega] at this
  have tbl' : ∀ j, i ≤ j → j < n → md'.getD j i32Max = minD key (perm.getD j 0) (perm.take i) := by
    intro j h1 h2
    rw [upd j h1 (by omega), table j h1 h2, htake, minD_append_one]
  have hi_p : i < perm.length := by omega
  have hm_p : maxI < perm.length := by omega
  have hi_m : i < md'.length := by omega
  have hm_m : maxI < md'.length := by omega
  have ptake : ∀ k, k ≤ i → (swapList perm i maxI).take k = perm.take k :=
    fun k hk => swapList_take perm i maxI k hk (by omega)
  have pget : ∀ x, (swapList perm i maxI).getD x 0 = perm.getD (swapIdx i maxI x) 0 :=
    fun x => swapList_getD perm i maxI x 0 hi_p hm_p
  have mget : ∀ x, (swapList md' i maxI).getD x i32Max = md'.getD (swapIdx i maxI x) i32Max :=
    fun x => swapList_getD md' i maxI x i32Max hi_m hm_m
  refine ⟨by rw [swapList_length']; exact plen, by rw [swapList_length']; exact len, by omega, ?_, ?_⟩
  · intro j h1 h2
    rw [mget, pget, show i + 1 - 1 = i by omega, ptake i (Nat.le_refl i)]
    exact tbl' _ (swapIdx_ge (Nat.le_refl i) a1 (by omega)) (swapIdx_lt hin hmax h2)
  · intro k hk1 hk2 j hj1 hj2
    rw [pget, pget, ptake k (by omega)]
    by_cases hki : k < i
    · -- an earlier position: untouched by the swap
      have hkfix : swapIdx i maxI k = k := swapIdx_fix (by omega) (by omega)
      rw [hkfix]
      by_cases hji : j < i
      · rw [swapIdx_fix (by omega) (by omega)]
        exact greedy k hk1 hki j hj1 hj2
      · exact greedy k hk1 hki _ (Nat.le_trans (by omega) (swapIdx_ge (Nat.le_refl i) a1 (by omega)))
          (swapIdx_lt hin hmax hj2)
    · -- the position filled in this iteration
      have hk : k = i := by omega
      subst hk
      have e1 : swapIdx k maxI k = maxI := by unfold swapIdx; simp
      rw [e1, ← tbl' maxI a1 hmax, ← tbl' _ (swapIdx_ge (Nat.le_refl k) a1 hj1) (swapIdx_lt hin hmax hj2), a3]
      exact le_max _ (swapIdx_ge (Nat.le_refl k) a1 hj1) (by have := swapIdx_lt hin hmax hj2; omega)


theorem rearrangeLoop_greedy (key : Nat → Nat → Int) (n : Nat) :
    ∀ (fuel i : Nat) (perm : List Nat) (md : List Int) (out : List Nat),
      OuterInv key n i perm md → n + 1 ≤ fuel + i →
      rearrangeLoop key n fuel i perm md = some out →
      ∀ k, 1 ≤ k → k < n → ∀ j, k ≤ j → j < n →
        minD key (out.getD j 0) (out.take k) ≤ minD key (out.getD k 0) (out.take k) := by
  intro fuel
  induction fuel with
  | zero =>
    intro i perm md out inv hf h
    simp [rearrangeLoop] at h; subst h
    intro k hk1 hk2 j hj1 hj2
    exact inv.greedy k hk1 (by omega) j hj1 hj2
  | succ fuel ih =>
    intro i perm md out inv hf h
    unfold rearrangeLoop at h
    by_cases hin : i ≥ n
    · simp only [hin, if_true, Option.some.injEq] at h; subst h
      intro k hk1 hk2 j hj1 hj2
      exact inv.greedy k hk1 (by omega) j hj1 hj2
    · simp only [hin, if_false] at h
      generalize hfold : ((List.range (n - i)).map (· + i)).foldl
        (rearrangeInner (fun a b => key (perm.getD a 0) (perm.getD b 0)) i n) (md, n, i32Min) = st at h
      obtain ⟨md', maxI, maxD⟩ := st
      simp only at h
      by_cases hmax : maxI ≥ n
      · simp [hmax] at h
      · simp only [hmax, if_false] at h
        exact ih (i + 1) _ _ out (outer_step key n i perm md inv (by omega) md' maxI maxD hfold (by omega)) (by omega) h

/-- **`rearrange_sequence` is farthest-first**: in the returned order, every colour from the second
on maximises — among the colours not yet placed — the minimal key to the colours placed before
it (`key` = distance × 1000 truncated to `i32`, i.e. at 0.001 resolution). -/
theorem rearrange_farthest_first (key : Nat → Nat → Int) (n : Nat) (out : List Nat)
    (h : rearrange key n = some out) :
    ∀ k, 1 ≤ k → k < n → ∀ j, k ≤ j → j < n →
      minD key (out.getD j 0) (out.take k) ≤ minD key (out.getD k 0) (out.take k) := by
  unfold rearrange at h
  refine rearrangeLoop_greedy key n n 1 (List.range n) (List.replicate n i32Max) out ?_ (by omega) h
  refine ⟨by simp, by simp, Nat.le_refl 1, ?_, fun k h1 h2 => by omega⟩
  intro j _ hj
  simp [List.getD_eq_getElem?_getD, hj, minD]



/-! ### no out-of-bounds swap when every key exceeds `i32::MIN` -/

theorem minD_gt (key : Nat → Nat → Int) (hk : ∀ a b, i32Min < key a b) (c : Nat) (pre : List Nat) :
    i32Min < minD key c pre := by
  unfold minD
  suffices h : ∀ (pre : List Nat) (m : Int), i32Min < m → i32Min < pre.foldl (fun m t => min m (key c t)) m from
    h pre i32Max (by decide)
  intro pre
  induction pre with
  | nil => intro m hm; exact hm
  | cons t ts ih =>
    intro m hm
    rw [List.foldl_cons]
    exact ih _ (by have := hk c t; omega)

theorem rearrangeLoop_total (key : Nat → Nat → Int) (hk : ∀ a b, i32Min < key a b) (n : Nat) :
    ∀ (fuel i : Nat) (perm : List Nat) (md : List Int),
      OuterInv key n i perm md → rearrangeLoop key n fuel i perm md ≠ none := by
  intro fuel
  induction fuel with
  | zero => intro i perm md _; simp [rearrangeLoop]
  | succ fuel ih =>
    intro i perm md inv
    unfold rearrangeLoop
    by_cases hin : i ≥ n
    · simp [hin]
    · simp only [hin, if_false]
      generalize hfold : ((List.range (n - i)).map (· + i)).foldl
        (rearrangeInner (fun a b => key (perm.getD a 0) (perm.getD b 0)) i n) (md, n, i32Min) = st
      obtain ⟨md', maxI, maxD⟩ := st
      simp only
      have spec := inner_spec (fun a b => key (perm.getD a 0) (perm.getD b 0)) i n md inv.mlen (n - i) (by omega)
      rw [hfold] at spec
      have hlt : maxI < n := by
        rcases Nat.lt_or_ge maxI n with h | h
        · exact h
        · exfalso
          have hb := spec.bound
          simp only at hb
          have hmax : maxI = n := by omega
          have hinit := spec.init hmax
          have hle := spec.le_max i (Nat.le_refl i) (by omega)
          have hupd := spec.upd i (Nat.le_refl i) (by omega)
          simp only at hinit hle hupd
          have h1 := inv.table i (Nat.le_refl i) (by omega)
          have h2 := minD_gt key hk (perm.getD i 0) (perm.take (i - 1))
          have h3 := hk (perm.getD i 0) (perm.getD (i - 1) 0)
          omega
      have : ¬ maxI ≥ n := by omega
      simp only [this, if_false]
      exact ih (i + 1) _ _ (outer_step key n i perm md inv (by omega) md' maxI maxD hfold hlt)

/-- **No out-of-bounds swap**: whenever every key exceeds `i32::MIN` — true of every key computed
from a distance that is not `−∞` — `rearrange_sequence` completes, for every length. -/
theorem rearrange_total (key : Nat → Nat → Int) (hk : ∀ a b, i32Min < key a b) (n : Nat) :
    rearrange key n ≠ none := by
  unfold rearrange
  apply rearrangeLoop_total key hk n n 1
  refine ⟨by simp, by simp, Nat.le_refl 1, ?_, fun k h1 h2 => by omega⟩
  intro j _ hj
  simp [List.getD_eq_getElem?_getD, hj, minD]

end Pastel
