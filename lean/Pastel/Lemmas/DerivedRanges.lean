/-
Ranges of the derived quantities of a valid colour, in exact arithmetic: float RGB channels,
brightness, luminance, HSV saturation/value, CIE L*, CMYK.
-/
import Pastel.Lemmas.HslOutside
import Pastel.Lemmas.LumMono

namespace Pastel
open Pastel.LumMono

/-- A channel `κ·chroma + (l − chroma/2)` of a colour with saturation and lightness in `[0,1]` lies in `[0,1]`. -/
theorem isChan_range (c : Color ℝ) (v : ℝ) (hv : IsChan c v) (hs0 : 0 ≤ c.sat) (hs1 : c.sat ≤ 1)
    (hl0 : 0 ≤ c.light) (hl1 : c.light ≤ 1) : 0 ≤ v ∧ v ≤ 1 := by
  obtain ⟨k, hk0, hk1, rfl⟩ := hv
  by_cases hh : 2 * c.light - 1 ≤ 0
  · rw [abs_of_nonpos hh]
    constructor
    · nlinarith [mul_nonneg hk0 (mul_nonneg hl0 hs0), mul_nonneg hl0 (sub_nonneg.mpr hs1)]
    · nlinarith [mul_nonneg (sub_nonneg.mpr hk1) (mul_nonneg hl0 hs0), mul_nonneg hl0 (sub_nonneg.mpr hs1),
        mul_nonneg hl0 hs0]
  · have hh' : 0 ≤ 2 * c.light - 1 := by linarith
    have h1l : 0 ≤ 1 - c.light := by linarith
    rw [abs_of_nonneg hh']
    constructor
    · nlinarith [mul_nonneg hk0 (mul_nonneg h1l hs0), mul_nonneg h1l (sub_nonneg.mpr hs1), mul_nonneg h1l hs0]
    · nlinarith [mul_nonneg (sub_nonneg.mpr hk1) (mul_nonneg h1l hs0), mul_nonneg h1l (sub_nonneg.mpr hs1),
        mul_nonneg h1l hs0]

theorem toRgbaFloat_range (c : Color ℝ) (hs0 : 0 ≤ c.sat) (hs1 : c.sat ≤ 1) (hl0 : 0 ≤ c.light) (hl1 : c.light ≤ 1) :
    (0 ≤ (toRgbaFloat c).x ∧ (toRgbaFloat c).x ≤ 1) ∧ (0 ≤ (toRgbaFloat c).y ∧ (toRgbaFloat c).y ≤ 1) ∧
    (0 ≤ (toRgbaFloat c).z ∧ (toRgbaFloat c).z ≤ 1) := by
  obtain ⟨hx, hy, hz⟩ := toRgbaFloat_isChan c
  exact ⟨isChan_range c _ hx hs0 hs1 hl0 hl1, isChan_range c _ hy hs0 hs1 hl0 hl1, isChan_range c _ hz hs0 hs1 hl0 hl1⟩

theorem lumF_zero : lumF (0 : ℝ) = 0 := by
  rw [lumF_real, if_pos (by norm_num)]; norm_num

theorem lumF_one : lumF (1 : ℝ) = 1 := by
  rw [lumF_real, if_neg (by norm_num)]
  have : ((1 : ℝ) + 0.055) / 1.055 = 1 := by norm_num
  rw [this, Real.one_rpow]

theorem lumF_range (s : ℝ) (h0 : 0 ≤ s) (h1 : s ≤ 1) : 0 ≤ lumF s ∧ lumF s ≤ 1 := by
  have a := lumF_mono h0
  have b := lumF_mono h1
  rw [lumF_zero] at a
  rw [lumF_one] at b
  exact ⟨a, b⟩

theorem srgbDecode_eq_lumF (s : ℝ) : srgbDecode s = lumF s := rfl

theorem labCut_real : (labCut : ℝ) = (6 / 29) ^ 3 := by
  unfold labCut
  sc_norm
  norm_num

theorem labF_real (t : ℝ) : labF t = if (6 / 29 : ℝ) ^ 3 < t then t ^ ((1 : ℝ) / 3) else (1 / 3) * (29 / 6) ^ 2 * t + 4 / 29 := by
  unfold labF
  rw [labCut_real]
  sc_norm
  norm_num

theorem labF_range (t : ℝ) (h0 : 0 ≤ t) (h1 : t ≤ 1) : 4 / 29 ≤ labF t ∧ labF t ≤ 1 := by
  rw [labF_real]
  split_ifs with h
  · constructor
    · have h6 : ((6 / 29 : ℝ) ^ 3) ^ ((1 : ℝ) / 3) = 6 / 29 := by
        rw [← Real.rpow_natCast, ← Real.rpow_mul (by norm_num)]
        norm_num
      have := Real.rpow_lt_rpow (by positivity) h (by norm_num : (0 : ℝ) < 1 / 3)
      rw [h6] at this
      linarith
    · exact Real.rpow_le_one h0 h1 (by norm_num)
  · have h := not_lt.mp h
    constructor
    · nlinarith
    · nlinarith


end Pastel
