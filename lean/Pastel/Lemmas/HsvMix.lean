/-
HSV mixing of 8-bit colours at ℝ: the HSV saturation bounds the chroma (`chroma = s_hsv · value`),
and a colour with the saturation and lightness of the colour rebuilt from an operand's own HSV
coordinates and that operand's hue up to whole turns has float channels within 1/510 of it (through
the exact HSV round trip of C03).  Used by C07's HSV end-point theorems.
-/
import Pastel.Props.C03
import Pastel.Lemmas.HslMix

namespace Pastel
open Pastel

/-- `channels_close` with the small-chroma alternative stated on the chroma itself. -/
theorem channels_close' (c m : Color ℝ) (hs : m.sat = c.sat) (hl : m.light = c.light)
    (hs0 : 0 ≤ c.sat) (hl0 : 0 ≤ c.light) (hl1 : c.light ≤ 1)
    (h : (∃ k : ℤ, m.hue = c.hue + 360 * k) ∨ (1 - |2 * c.light - 1|) * c.sat < 1 / 1000) :
    |(toRgbaFloat m).x - (toRgbaFloat c).x| < 1 / 510 ∧ |(toRgbaFloat m).y - (toRgbaFloat c).y| < 1 / 510 ∧
    |(toRgbaFloat m).z - (toRgbaFloat c).z| < 1 / 510 := by
  rcases h with ⟨k, hk⟩ | hsmall
  · exact channels_close c m hs hl hs0 hl0 hl1 (Or.inl ⟨k, hk⟩)
  · obtain ⟨cx, cy, cz⟩ := toRgbaFloat_isChan c
    obtain ⟨mx, my, mz⟩ := toRgbaFloat_isChan m
    have hchr0 : 0 ≤ 1 - |2 * c.light - 1| := by
      have : |2 * c.light - 1| ≤ 1 := by rw [abs_le]; constructor <;> linarith
      linarith
    have hC0 : 0 ≤ (1 - |2 * c.light - 1|) * c.sat := mul_nonneg hchr0 hs0
    have key : ∀ v w : ℝ, IsChan m v → IsChan c w → |v - w| < 1 / 510 := by
      intro v w hv hw
      obtain ⟨k1, a0, a1, rfl⟩ := hv
      obtain ⟨k2, b0, b1, rfl⟩ := hw
      rw [hs, hl]
      have : k1 * ((1 - |2 * c.light - 1|) * c.sat) + (c.light - (1 - |2 * c.light - 1|) * c.sat / 2) -
          (k2 * ((1 - |2 * c.light - 1|) * c.sat) + (c.light - (1 - |2 * c.light - 1|) * c.sat / 2)) =
          (k1 - k2) * ((1 - |2 * c.light - 1|) * c.sat) := by ring
      rw [this, abs_lt]
      constructor <;> nlinarith [hC0, hsmall]
    exact ⟨key _ _ mx cx, key _ _ my cy, key _ _ mz cz⟩

theorem one_sub_abs (l : ℝ) (h0 : 0 ≤ l) (h1 : l ≤ 1) : 1 - |2 * l - 1| = 2 * min l (1 - l) := by
  rcases le_total l (1 / 2) with h | h
  · rw [abs_of_nonpos (by linarith), min_eq_left (by linarith)]; ring
  · rw [abs_of_nonneg (by linarith), min_eq_right (by linarith)]; ring

/-- The HSV saturation bounds the chroma: `chroma = s_hsv · value ≤ s_hsv`. -/
theorem chroma_le_hsv_sat (c : Color ℝ) (hc : C05.Valid c) :
    (1 - |2 * c.light - 1|) * c.sat ≤ (toHsva c).y := by
  obtain ⟨s0, s1, l0, l1⟩ := real_valid_ranges c hc
  have hμ : 0 ≤ min c.light (1 - c.light) := le_min l0 (by linarith)
  have hμ1 : min c.light (1 - c.light) ≤ 1 - c.light := min_le_right _ _
  rw [one_sub_abs c.light l0 l1]
  simp only [toHsva]
  sc_norm
  norm_num
  by_cases hv : 0 < c.light + c.sat * min c.light (1 - c.light)
  · rw [if_pos hv]
    have hv1 : c.light + c.sat * min c.light (1 - c.light) ≤ 1 := by nlinarith
    have e : 2 * (1 - c.light / (c.light + c.sat * min c.light (1 - c.light))) =
        2 * (c.sat * min c.light (1 - c.light)) / (c.light + c.sat * min c.light (1 - c.light)) := by
      field_simp; ring
    rw [e, le_div_iff₀ hv]
    have hnn : 0 ≤ c.sat * min c.light (1 - c.light) := mul_nonneg s0 hμ
    nlinarith
  · rw [if_neg hv]
    have hz : c.light + c.sat * min c.light (1 - c.light) = 0 :=
      le_antisymm (not_lt.mp hv) (by have := mul_nonneg s0 hμ; linarith)
    have hl : c.light = 0 := by nlinarith [mul_nonneg s0 hμ]
    rw [hl]; norm_num


theorem fromHsva_hue_real (h s v a : ℝ) : (fromHsva h s v a).hue = h := by
  unfold fromHsva hueFrom; simp only [real_isFinite, if_true]

/-- The mix in HSV space, field by field: the hue is the mixed angle, saturation and lightness are
those of the colour built from the interpolated HSV saturation and value (whatever hue and alpha). -/
theorem mix_hsv_fields (c1 c2 : Color ℝ) (f : ℝ) (h a : ℝ) :
    ∃ thr : ℝ, thr = 1 / 10000 ∧
      (mix .hsv c1 c2 f).hue = mixHue thr (toHsva c1).y (toHsva c1).x (toHsva c2).y (toHsva c2).x f ∧
      (mix .hsv c1 c2 f).sat = (fromHsva h (interpolate (toHsva c1).y (toHsva c2).y f) (interpolate (toHsva c1).z (toHsva c2).z f) a).sat ∧
      (mix .hsv c1 c2 f).light = (fromHsva h (interpolate (toHsva c1).y (toHsva c2).y f) (interpolate (toHsva c1).z (toHsva c2).z f) a).light := by
  refine ⟨(0.0001 : ℝ), by norm_num, ?_, rfl, rfl⟩
  simp only [mix]
  rw [fromHsva_hue_real]

/-- A colour `m` with the saturation and lightness of the colour rebuilt from `c`'s own HSV
coordinates, whose hue is `c`'s reported hue up to whole turns — or arbitrary when `c`'s HSV
saturation is below the gray threshold — has float channels within `1/510` of `c`'s. -/
theorem hsv_rebuilt_close (c : Color ℝ) (hv : C05.Valid c) (m : Color ℝ) (thr : ℝ) (hthr : thr = 1 / 10000)
    (msat : m.sat = (fromHsva (toHsva c).x (toHsva c).y (toHsva c).z (toHsva c).alpha).sat)
    (mlight : m.light = (fromHsva (toHsva c).x (toHsva c).y (toHsva c).z (toHsva c).alpha).light)
    (mhue : (toHsva c).y < thr ∨ ∃ k : ℤ, m.hue = (toHsva c).x + 360 * k) :
    |(toRgbaFloat m).x - (toRgbaFloat c).x| < 1 / 510 ∧ |(toRgbaFloat m).y - (toRgbaFloat c).y| < 1 / 510 ∧
    |(toRgbaFloat m).z - (toRgbaFloat c).z| < 1 / 510 := by
  obtain ⟨hl, hsat, _, _, hrgb⟩ := C03.hsv_roundtrip_real c hv
  set c' := fromHsva (toHsva c).x (toHsva c).y (toHsva c).z (toHsva c).alpha with hc'
  obtain ⟨s0, s1, l0, l1⟩ := real_valid_ranges c hv
  obtain ⟨s0', s1', l0', l1'⟩ := real_valid_ranges c' (C05.fromHsva_valid _ _ _ _)
  have hc'hue : c'.hue = (toHsva c).x := fromHsva_hue_real _ _ _ _
  have hcase : (∃ k : ℤ, m.hue = c'.hue + 360 * k) ∨ (1 - |2 * c'.light - 1|) * c'.sat < 1 / 1000 := by
    rcases mhue with hsmall | ⟨k, hk⟩
    · right
      have hch := chroma_le_hsv_sat c hv
      -- the chroma of c' is the chroma of c
      have : (1 - |2 * c'.light - 1|) * c'.sat = (1 - |2 * c.light - 1|) * c.sat := by
        rw [hl]
        by_cases hmid : 0 < c.light ∧ c.light < 1
        · rw [hsat hmid.1 hmid.2]
        · have : c.light = 0 ∨ c.light = 1 := by
            by_cases h0 : 0 < c.light
            · right; have : ¬ c.light < 1 := fun h => hmid ⟨h0, h⟩; linarith
            · left; linarith
          rcases this with h | h <;> rw [h] <;> norm_num
      rw [this]; rw [hthr] at hsmall; linarith
    · left; exact ⟨k, by rw [hc'hue]; exact hk⟩
  have := channels_close' c' m msat mlight s0' l0' l1' hcase
  rw [hrgb] at this
  exact this

end Pastel
