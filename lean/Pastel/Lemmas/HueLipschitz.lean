/-
The hexcone in closed form: each float channel is `κ(t)·chroma + m` with `t = Hue::value / 60` and
`κ` a clamped tent function of `t` — hence 1-Lipschitz in `t`.  Used for the `hsl()` print → parse
error bound of C02.
-/
import Pastel.Lemmas.Turns
import Pastel.Lemmas.DerivedRanges

namespace Pastel

noncomputable def clamp01 (x : ℝ) : ℝ := max 0 (min 1 x)
noncomputable def kR (t : ℝ) : ℝ := clamp01 (|t - 3| - 1)
noncomputable def kG (t : ℝ) : ℝ := clamp01 (2 - |t - 2|)
noncomputable def kB (t : ℝ) : ℝ := clamp01 (2 - |t - 4|)

theorem clamp01_lip (x y : ℝ) : |clamp01 x - clamp01 y| ≤ |x - y| := by
  unfold clamp01
  rcases le_total x y with h | h
  · rw [abs_of_nonpos (by linarith : x - y ≤ 0), abs_le]
    constructor <;> (simp only [max_def, min_def]; split_ifs <;> linarith)
  · rw [abs_of_nonneg (by linarith : 0 ≤ x - y), abs_le]
    constructor <;> (simp only [max_def, min_def]; split_ifs <;> linarith)

theorem clamp01_range (x : ℝ) : 0 ≤ clamp01 x ∧ clamp01 x ≤ 1 := by
  unfold clamp01
  exact ⟨le_max_left _ _, max_le (by norm_num) (min_le_left _ _)⟩

theorem kR_lip (a b : ℝ) : |kR a - kR b| ≤ |a - b| := by
  unfold kR
  refine (clamp01_lip _ _).trans ?_
  have := abs_abs_sub_abs_le (a - 3) (b - 3)
  have e : |a - 3| - 1 - (|b - 3| - 1) = |a - 3| - |b - 3| := by ring
  rw [e]
  have e2 : a - 3 - (b - 3) = a - b := by ring
  rw [e2] at this
  exact this

theorem kG_lip (a b : ℝ) : |kG a - kG b| ≤ |a - b| := by
  unfold kG
  refine (clamp01_lip _ _).trans ?_
  have := abs_abs_sub_abs_le (b - 2) (a - 2)
  have e : 2 - |a - 2| - (2 - |b - 2|) = |b - 2| - |a - 2| := by ring
  rw [e]
  have e2 : b - 2 - (a - 2) = -(a - b) := by ring
  rw [e2, abs_neg] at this
  exact this

theorem kB_lip (a b : ℝ) : |kB a - kB b| ≤ |a - b| := by
  unfold kB
  refine (clamp01_lip _ _).trans ?_
  have := abs_abs_sub_abs_le (b - 4) (a - 4)
  have e : 2 - |a - 4| - (2 - |b - 4|) = |b - 4| - |a - 4| := by ring
  rw [e]
  have e2 : b - 4 - (a - 4) = -(a - b) := by ring
  rw [e2, abs_neg] at this
  exact this

/-- The three tents evaluated per sector. -/
theorem k_sector (t : ℝ) (h0 : 0 ≤ t) (h6 : t ≤ 6) :
    (t < 1 → kR t = 1 ∧ kG t = t ∧ kB t = 0) ∧
    (1 ≤ t → t < 2 → kR t = 2 - t ∧ kG t = 1 ∧ kB t = 0) ∧
    (2 ≤ t → t < 3 → kR t = 0 ∧ kG t = 1 ∧ kB t = t - 2) ∧
    (3 ≤ t → t < 4 → kR t = 0 ∧ kG t = 4 - t ∧ kB t = 1) ∧
    (4 ≤ t → t < 5 → kR t = t - 4 ∧ kG t = 0 ∧ kB t = 1) ∧
    (5 ≤ t → kR t = 1 ∧ kG t = 0 ∧ kB t = 6 - t) := by
  unfold kR kG kB clamp01
  refine ⟨?_, ?_, ?_, ?_, ?_, ?_⟩
  · intro h
    rw [abs_of_nonpos (by linarith : t - 3 ≤ 0), abs_of_nonpos (by linarith : t - 2 ≤ 0), abs_of_nonpos (by linarith : t - 4 ≤ 0)]
    refine ⟨?_, ?_, ?_⟩ <;> simp only [max_def, min_def] <;> split_ifs <;> linarith
  · intro h1 h2
    rw [abs_of_nonpos (by linarith : t - 3 ≤ 0), abs_of_nonpos (by linarith : t - 2 ≤ 0), abs_of_nonpos (by linarith : t - 4 ≤ 0)]
    refine ⟨?_, ?_, ?_⟩ <;> simp only [max_def, min_def] <;> split_ifs <;> linarith
  · intro h1 h2
    rw [abs_of_nonpos (by linarith : t - 3 ≤ 0), abs_of_nonneg (by linarith : 0 ≤ t - 2), abs_of_nonpos (by linarith : t - 4 ≤ 0)]
    refine ⟨?_, ?_, ?_⟩ <;> simp only [max_def, min_def] <;> split_ifs <;> linarith
  · intro h1 h2
    rw [abs_of_nonneg (by linarith : 0 ≤ t - 3), abs_of_nonneg (by linarith : 0 ≤ t - 2), abs_of_nonpos (by linarith : t - 4 ≤ 0)]
    refine ⟨?_, ?_, ?_⟩ <;> simp only [max_def, min_def] <;> split_ifs <;> linarith
  · intro h1 h2
    rw [abs_of_nonneg (by linarith : 0 ≤ t - 3), abs_of_nonneg (by linarith : 0 ≤ t - 2), abs_of_nonneg (by linarith : 0 ≤ t - 4)]
    refine ⟨?_, ?_, ?_⟩ <;> simp only [max_def, min_def] <;> split_ifs <;> linarith
  · intro h1
    rw [abs_of_nonneg (by linarith : 0 ≤ t - 3), abs_of_nonneg (by linarith : 0 ≤ t - 2), abs_of_nonneg (by linarith : 0 ≤ t - 4)]
    refine ⟨?_, ?_, ?_⟩ <;> simp only [max_def, min_def] <;> split_ifs <;> linarith

end Pastel

namespace Pastel

/-- Closed form of the float channels for a stored hue `60·t`, `0 ≤ t < 6`. -/
theorem toRgbaFloat_closed_lt (c : Color ℝ) (t : ℝ) (ht0 : 0 ≤ t) (ht6 : t < 6) (hh : c.hue = 60 * t) :
    toRgbaFloat c = ⟨kR t * ((1 - |2 * c.light - 1|) * c.sat) + (c.light - (1 - |2 * c.light - 1|) * c.sat / 2),
      kG t * ((1 - |2 * c.light - 1|) * c.sat) + (c.light - (1 - |2 * c.light - 1|) * c.sat / 2),
      kB t * ((1 - |2 * c.light - 1|) * c.sat) + (c.light - (1 - |2 * c.light - 1|) * c.sat / 2), c.alpha⟩ := by
  obtain ⟨s0, s1, s2, s3, s4, s5⟩ := toRgbaFloat_sector c t ht0 ht6 hh
  obtain ⟨k0, k1, k2, k3, k4, k5⟩ := k_sector t ht0 ht6.le
  by_cases h1 : t < 1
  · obtain ⟨a, b, d⟩ := k0 h1
    rw [s0 h1, a, b, d]; congr 1 <;> ring
  by_cases h2 : t < 2
  · obtain ⟨a, b, d⟩ := k1 (not_lt.mp h1) h2
    rw [s1 (not_lt.mp h1) h2, a, b, d]; congr 1 <;> ring
  by_cases h3 : t < 3
  · obtain ⟨a, b, d⟩ := k2 (not_lt.mp h2) h3
    rw [s2 (not_lt.mp h2) h3, a, b, d]; congr 1 <;> ring
  by_cases h4 : t < 4
  · obtain ⟨a, b, d⟩ := k3 (not_lt.mp h3) h4
    rw [s3 (not_lt.mp h3) h4, a, b, d]; congr 1 <;> ring
  by_cases h5 : t < 5
  · obtain ⟨a, b, d⟩ := k4 (not_lt.mp h4) h5
    rw [s4 (not_lt.mp h4) h5, a, b, d]; congr 1 <;> ring
  · obtain ⟨a, b, d⟩ := k5 (not_lt.mp h5)
    rw [s5 (not_lt.mp h5), a, b, d]; congr 1 <;> ring

/-- **The hexcone in closed form, for every colour**: with `t = Hue::value / 60 ∈ [0, 6]`, each float
channel is `κ(t)·chroma + m`. -/
theorem toRgbaFloat_closed (c : Color ℝ) :
    toRgbaFloat c = ⟨kR (hueValue c.hue / 60) * ((1 - |2 * c.light - 1|) * c.sat) + (c.light - (1 - |2 * c.light - 1|) * c.sat / 2),
      kG (hueValue c.hue / 60) * ((1 - |2 * c.light - 1|) * c.sat) + (c.light - (1 - |2 * c.light - 1|) * c.sat / 2),
      kB (hueValue c.hue / 60) * ((1 - |2 * c.light - 1|) * c.sat) + (c.light - (1 - |2 * c.light - 1|) * c.sat / 2), c.alpha⟩ := by
  have hr := real_hueValue_range c.hue
  rcases eq_or_lt_of_le hr.2 with h360 | hlt
  · -- a reported 360 is the colour of hue 0, and the tents agree at 0 and 6
    rw [toRgbaFloat_hue360 c h360]
    have e := toRgbaFloat_closed_lt { c with hue := 0 } 0 le_rfl (by norm_num) (by show (0 : ℝ) = 60 * 0; norm_num)
    rw [e, h360]
    obtain ⟨k0, _, _, _, _, _⟩ := k_sector 0 le_rfl (by norm_num)
    obtain ⟨_, _, _, _, _, k5⟩ := k_sector (360 / 60) (by norm_num) (by norm_num)
    obtain ⟨a0, b0, d0⟩ := k0 (by norm_num)
    obtain ⟨a6, b6, d6⟩ := k5 (by norm_num)
    rw [a0, b0, d0, a6, b6, d6]
    congr 1 <;> norm_num
  · have hcong := toRgbaFloat_hue_congr c { c with hue := hueValue c.hue } (real_hueValue_idem c.hue) rfl rfl rfl
    rw [← hcong]
    exact toRgbaFloat_closed_lt { c with hue := hueValue c.hue } (hueValue c.hue / 60)
      (div_nonneg hr.1 (by norm_num)) (by rw [div_lt_iff₀ (by norm_num)]; linarith)
      (by show hueValue c.hue = 60 * (hueValue c.hue / 60); ring)

end Pastel

namespace Pastel

/-- One channel `κ·C(s,l) + (l − C(s,l)/2)`: how far it moves when `κ`, `s`, `l` move. -/
theorem chan_form_diff (k k' s s' l l' : ℝ) (hk : 0 ≤ k ∧ k ≤ 1) (hs : 0 ≤ s ∧ s ≤ 1) (hs' : 0 ≤ s' ∧ s' ≤ 1)
    (hl : 0 ≤ l ∧ l ≤ 1) (hl' : 0 ≤ l' ∧ l' ≤ 1) :
    |(k' * ((1 - |2 * l' - 1|) * s') + (l' - (1 - |2 * l' - 1|) * s' / 2)) -
      (k * ((1 - |2 * l - 1|) * s) + (l - (1 - |2 * l - 1|) * s / 2))| ≤ |k' - k| + |s' - s| / 2 + 2 * |l' - l| := by
  -- A = 1 − |2l − 1| ∈ [0,1], and |A' − A| ≤ 2|l' − l|
  have hA : 0 ≤ 1 - |2 * l - 1| ∧ 1 - |2 * l - 1| ≤ 1 := by
    have := abs_nonneg (2 * l - 1)
    have : |2 * l - 1| ≤ 1 := by rw [abs_le]; constructor <;> linarith [hl.1, hl.2]
    constructor <;> linarith
  have hA' : 0 ≤ 1 - |2 * l' - 1| ∧ 1 - |2 * l' - 1| ≤ 1 := by
    have := abs_nonneg (2 * l' - 1)
    have : |2 * l' - 1| ≤ 1 := by rw [abs_le]; constructor <;> linarith [hl'.1, hl'.2]
    constructor <;> linarith
  have hAA : |(1 - |2 * l' - 1|) - (1 - |2 * l - 1|)| ≤ 2 * |l' - l| := by
    have := abs_abs_sub_abs_le (2 * l - 1) (2 * l' - 1)
    have e : (1 - |2 * l' - 1|) - (1 - |2 * l - 1|) = |2 * l - 1| - |2 * l' - 1| := by ring
    have e2 : 2 * l - 1 - (2 * l' - 1) = -(2 * (l' - l)) := by ring
    rw [e]
    rw [e2, abs_neg, abs_mul, abs_of_nonneg (by norm_num : (0 : ℝ) ≤ 2)] at this
    exact this
  generalize 1 - |2 * l - 1| = A at hA hAA ⊢
  generalize 1 - |2 * l' - 1| = A' at hA' hAA ⊢
  -- chroma difference
  have hC : |A' * s' - A * s| ≤ |s' - s| + 2 * |l' - l| := by
    have e : A' * s' - A * s = A' * (s' - s) + s * (A' - A) := by ring
    rw [e]
    refine (abs_add_le _ _).trans ?_
    rw [abs_mul, abs_mul, abs_of_nonneg hA'.1, abs_of_nonneg hs.1]
    have h1 : A' * |s' - s| ≤ |s' - s| := by nlinarith [abs_nonneg (s' - s)]
    have h2 : s * |A' - A| ≤ |A' - A| := by nlinarith [abs_nonneg (A' - A)]
    linarith
  have hC' : 0 ≤ A' * s' ∧ A' * s' ≤ 1 := ⟨mul_nonneg hA'.1 hs'.1, by nlinarith⟩
  have e : (k' * (A' * s') + (l' - A' * s' / 2)) - (k * (A * s) + (l - A * s / 2)) =
      (k' - k) * (A' * s') + (k - 1 / 2) * (A' * s' - A * s) + (l' - l) := by ring
  rw [e]
  refine (abs_add_le _ _).trans ?_
  refine (add_le_add_left (abs_add_le _ _) _).trans ?_
  rw [abs_mul (k' - k), abs_mul (k - 1 / 2), abs_of_nonneg hC'.1]
  have h1 : |k' - k| * (A' * s') ≤ |k' - k| := by nlinarith [abs_nonneg (k' - k)]
  have hk2 : |k - 1 / 2| ≤ 1 / 2 := by rw [abs_le]; constructor <;> linarith [hk.1, hk.2]
  have h2 : |k - 1 / 2| * |A' * s' - A * s| ≤ 1 / 2 * (|s' - s| + 2 * |l' - l|) :=
    mul_le_mul hk2 hC (abs_nonneg _) (by norm_num)
  linarith [abs_nonneg (l' - l)]

end Pastel
