/-
Helper lemmas about the bookkeeping model (`Pastel/Model/Distinct.lean`).
-/
import Pastel.Model.Distinct

namespace Pastel

variable {D : Type} [Sc D]

theorem scanStep_length (dist : Nat → Nat → D) (color : Nat) (changed : Bool) (st : ScanState D) (i : Nat) :
    (scanStep dist color changed st i).tbl.length = st.tbl.length := by
  unfold scanStep
  split
  · rfl
  · simp only []
    split <;> split <;> (try split) <;> simp

theorem scan_fold_length (dist : Nat → Nat → D) (color : Nat) (changed : Bool) :
    ∀ (is : List Nat) (st : ScanState D),
      (is.foldl (scanStep dist color changed) st).tbl.length = st.tbl.length := by
  intro is
  induction is with
  | nil => intro st; rfl
  | cons i is ih => intro st; simp only [List.foldl_cons]; rw [ih, scanStep_length]

theorem scan_length (big : D) (dist : Nat → Nat → D) (n color : Nat) (changed : Bool) (t : List (Entry D)) :
    (scan big dist n color changed t).tbl.length = t.length := by
  unfold scan; rw [scan_fold_length]; simp

theorem recalc_length (big : D) (dist : Nat → Nat → D) (n : Nat) (t : List (Entry D)) (i : Nat) :
    (recalc big dist n t i).length = t.length := scan_length big dist n i false t

theorem updateDistances_length (big : D) (dist : Nat → Nat → D) (n color : Nat) (changed : Bool)
    (t : List (Entry D)) : (updateDistances big dist n color changed t).length = t.length := by
  unfold updateDistances
  simp only []
  have : ∀ (rs : List Nat) (t' : List (Entry D)),
      (rs.foldl (recalc big dist n) t').length = t'.length := by
    intro rs
    induction rs with
    | nil => intro t'; rfl
    | cons r rs ih => intro t'; simp only [List.foldl_cons]; rw [ih, recalc_length]
  rw [this, scan_length]

theorem drNew_length (big : D) (dist : Nat → Nat → D) (n k : Nat) :
    (drNew big dist n k).closest.length = n := by
  unfold drNew
  simp only []
  have : ∀ (is : List Nat) (t' : List (Entry D)),
      (is.foldl (fun t i => updateDistances big dist n i false t) t').length = t'.length := by
    intro is
    induction is with
    | nil => intro t'; rfl
    | cons r rs ih => intro t'; simp only [List.foldl_cons]; rw [ih, updateDistances_length]
  rw [this]; simp

end Pastel
