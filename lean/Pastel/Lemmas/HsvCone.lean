/-
The HSV cone in exact arithmetic: what `from_hsva` builds for saturation and value in `[0,1]`
(chroma `V·S`, channels `κ(H/60)·V·S + V − V·S`), and small facts about `from_hsla` on in-range
arguments.  Used by C02 (the `hsv()` round-trip bound) and C04 (the inverse clause for HSV).
-/
import Pastel.Lemmas.HsvMix
import Pastel.Lemmas.HueLipschitz

namespace Pastel

theorem real_hueValue_360 : hueValue (360 : ℝ) = 360 := by
  unfold hueValue
  split_ifs with hq
  · simp only [real_lit]
  · exfalso; apply hq; rw [real_feq]

/-- `Hue::value` is the identity on `[0, 360]`. -/
theorem real_hueValue_id_closed (h : ℝ) (h0 : 0 ≤ h) (h1 : h ≤ 360) : hueValue h = h := by
  rcases eq_or_lt_of_le h1 with e | l
  · rw [e]; exact real_hueValue_360
  · exact real_hueValue_id h h0 l

theorem fromHsla_sat_real (H S L a : ℝ) (h0 : 0 ≤ S) (h1 : S ≤ 1) : (fromHsla H S L a : Color ℝ).sat = S := by
  unfold fromHsla clamp
  sc_norm
  rw [min_eq_right (by exact_mod_cast h1), max_eq_left (by exact_mod_cast h0)]

theorem fromHsla_light_real (H S L a : ℝ) (h0 : 0 ≤ L) (h1 : L ≤ 1) : (fromHsla H S L a : Color ℝ).light = L := by
  unfold fromHsla clamp
  sc_norm
  rw [min_eq_right (by exact_mod_cast h1), max_eq_left (by exact_mod_cast h0)]

/-- `from_hsva` for saturation and value in `[0,1]`: the chroma of the colour built is `V·S` and its
lightness is `V − V·S/2` (exact arithmetic). -/
theorem fromHsva_chroma_real (H S V a : ℝ) (hS : 0 ≤ S ∧ S ≤ 1) (hV : 0 ≤ V ∧ V ≤ 1) :
    (fromHsva H S V a : Color ℝ).light = V * (1 - S / 2) ∧
    (0 ≤ (fromHsva H S V a : Color ℝ).sat ∧ (fromHsva H S V a : Color ℝ).sat ≤ 1) ∧
    (1 - |2 * (fromHsva H S V a : Color ℝ).light - 1|) * (fromHsva H S V a : Color ℝ).sat = V * S := by
  unfold fromHsva clamp
  sc_norm
  push_cast
  have hl0 : 0 ≤ V * (1 - S / 2) := mul_nonneg hV.1 (by linarith [hS.2])
  have hl1 : V * (1 - S / 2) ≤ 1 := by nlinarith [hS.1, hS.2, hV.1, hV.2]
  rw [min_eq_right hl1, max_eq_left hl0]
  refine ⟨rfl, ?_, ?_⟩
  · exact ⟨le_max_right _ _, max_le (min_le_left _ _) (by norm_num)⟩
  · rw [one_sub_abs _ hl0 hl1]
    by_cases hin : 0 < V * (1 - S / 2) ∧ V * (1 - S / 2) < 1
    · rw [if_pos hin]
      have hm : 0 < min (V * (1 - S / 2)) (1 - V * (1 - S / 2)) := lt_min hin.1 (by linarith [hin.2])
      have hq0 : 0 ≤ (V - V * (1 - S / 2)) / min (V * (1 - S / 2)) (1 - V * (1 - S / 2)) :=
        div_nonneg (by nlinarith [hS.1, hV.1]) hm.le
      have hq1 : (V - V * (1 - S / 2)) / min (V * (1 - S / 2)) (1 - V * (1 - S / 2)) ≤ 1 := by
        rw [div_le_one hm]
        apply le_min <;> nlinarith [hS.1, hS.2, hV.1, hV.2]
      rw [min_eq_right hq1, max_eq_left hq0]
      generalize min (V * (1 - S / 2)) (1 - V * (1 - S / 2)) = mm at hm ⊢
      have hne : mm ≠ 0 := hm.ne'
      have e : 2 * mm * ((V - V * (1 - S / 2)) / mm) = 2 * (V - V * (1 - S / 2)) := by
        rw [show 2 * mm * ((V - V * (1 - S / 2)) / mm) = 2 * (V - V * (1 - S / 2)) * (mm / mm) by ring, div_self hne, mul_one]
      rw [e]; ring
    · rw [if_neg hin]
      norm_num
      -- the lightness is 0 or 1: then V·S = 0
      rcases not_and_or.mp hin with h | h
      · have hz : V * (1 - S / 2) = 0 := le_antisymm (not_lt.mp h) hl0
        have : V = 0 := by
          rcases mul_eq_zero.mp hz with h' | h'
          · exact h'
          · exfalso; linarith [hS.2]
        left; exact this
      · have h1 : V * (1 - S / 2) = 1 := le_antisymm hl1 (not_lt.mp h)
        have hS0 : S = 0 := by nlinarith [hS.1, hS.2, hV.1, hV.2]
        right; exact hS0

/-- The float channels of `from_hsva(H, S, V, a)` for `H ∈ [0,360]`, `S, V ∈ [0,1]`, in HSV terms. -/
theorem fromHsva_channels (H S V a : ℝ) (hH : 0 ≤ H ∧ H ≤ 360) (hS : 0 ≤ S ∧ S ≤ 1) (hV : 0 ≤ V ∧ V ≤ 1) :
    (toRgbaFloat (fromHsva H S V a : Color ℝ)).x = kR (H / 60) * (V * S) + (V - V * S) ∧
    (toRgbaFloat (fromHsva H S V a : Color ℝ)).y = kG (H / 60) * (V * S) + (V - V * S) ∧
    (toRgbaFloat (fromHsva H S V a : Color ℝ)).z = kB (H / 60) * (V * S) + (V - V * S) := by
  obtain ⟨hl, _, hc⟩ := fromHsva_chroma_real H S V a hS hV
  have hhue : hueValue (fromHsva H S V a : Color ℝ).hue = H := by
    rw [fromHsva_hue_real]; exact real_hueValue_id_closed H hH.1 hH.2
  have cl := toRgbaFloat_closed (fromHsva H S V a : Color ℝ)
  rw [hhue, hc] at cl
  rw [cl, hl]
  refine ⟨?_, ?_, ?_⟩ <;> simp only [] <;> ring

end Pastel
