/-
CIEDE2000 as implemented equals the formula as printed by Sharma, Wu & Dalal,
in exact arithmetic, outside one wrap-around branch of the mean hue.
-/
import Pastel.RealInst
import Pastel.Model.DeltaE
import Mathlib.Analysis.SpecialFunctions.Trigonometric.Basic

namespace Pastel.SharmaEq
open Pastel

theorem powiAux_eq (fuel : ℕ) : ∀ (a r : ℝ) (b : ℕ), b < 2 ^ fuel → powiAux fuel a r b = r * a ^ b := by
  induction fuel with
  | zero =>
    intro a r b hb
    have : b = 0 := by omega
    subst this; simp [powiAux]
  | succ n ih =>
    intro a r b hb
    have hb2 : b / 2 < 2 ^ n := by rw [pow_succ] at hb; omega
    have hdecomp : b = 2 * (b / 2) + b % 2 := by omega
    unfold powiAux
    simp only []
    by_cases h0 : b / 2 = 0
    · rw [if_pos h0]
      rcases Nat.mod_two_eq_zero_or_one b with h | h
      · have : b = 0 := by omega
        simp [this]
      · have : b = 1 := by omega
        simp [this]
    · rw [if_neg h0, ih _ _ _ hb2]
      rcases Nat.mod_two_eq_zero_or_one b with h | h
      · rw [if_neg (by omega)]
        conv_rhs => rw [hdecomp, h]
        rw [add_zero, pow_mul]; ring_nf
      · rw [if_pos h]
        conv_rhs => rw [hdecomp, h]
        rw [pow_add, pow_mul, pow_one]; ring

theorem powi_eq (x : ℝ) (n : ℕ) (hn : n < 2 ^ 64) : powi x n = x ^ n := by
  unfold powi; rw [powiAux_eq _ _ _ _ hn]; simp

theorem powi_two (x : ℝ) : powi x 2 = x ^ 2 := powi_eq x 2 (by norm_num)
theorem powi_seven (x : ℝ) : powi x 7 = x ^ 7 := powi_eq x 7 (by norm_num)

theorem mul_self_powi (x : ℝ) : x * x = powi x 2 := by rw [powi_two]; ring

theorem pow25 : (6103515625.0 : ℝ) = pow25_7 := by
  unfold pow25_7; rw [powi_seven]; norm_num

theorem sharmaHPrime_eq (b a : ℝ) : sharmaHPrime b a = getHPrime b a := rfl

theorem kfac_nonneg (c : ℝ) (hc : 0 ≤ c) :
    0 ≤ (1.0 : ℝ) - ScT.sqrt (powi c 7 / (powi c 7 + pow25_7)) := by
  rw [real_sqrt, powi_seven, ← pow25]
  have hx : 0 ≤ c ^ 7 := pow_nonneg hc 7
  have hle : c ^ 7 / (c ^ 7 + 6103515625.0) ≤ 1 := by
    rw [div_le_one (by norm_num; positivity)]; norm_num
  have : Real.sqrt (c ^ 7 / (c ^ 7 + 6103515625.0)) ≤ 1 := by
    rw [Real.sqrt_le_left (by norm_num)]; linarith
  norm_num at this ⊢
  linarith

theorem chroma_zero_iff (a b k : ℝ) (hk : 0 ≤ k) :
    ScT.sqrt (powi a 2 + powi b 2) = 0 ↔ ScT.sqrt (powi (a + a / 2.0 * k) 2 + powi b 2) = 0 := by
  rw [real_sqrt, real_sqrt, powi_two, powi_two, powi_two]
  rw [Real.sqrt_eq_zero', Real.sqrt_eq_zero']
  have e : a + a / 2.0 * k = a * (1 + k / 2) := by norm_num; ring
  rw [e]
  have hpos : 0 < 1 + k / 2 := by linarith
  constructor
  · intro h
    have ha : a = 0 := by nlinarith [sq_nonneg a, sq_nonneg b]
    have hb : b = 0 := by nlinarith [sq_nonneg a, sq_nonneg b]
    subst ha hb; norm_num
  · intro h
    have h1 : (a * (1 + k / 2)) ^ 2 = 0 := by nlinarith [sq_nonneg (a * (1 + k / 2)), sq_nonneg b]
    have hb : b = 0 := by nlinarith [sq_nonneg (a * (1 + k / 2)), sq_nonneg b]
    have ha : a = 0 := by
      have := pow_eq_zero_iff (two_ne_zero) |>.mp h1
      rcases mul_eq_zero.mp this with h | h
      · exact h
      · linarith
    subst ha hb; simp

/-- The two primed hue angles `h'₁`, `h'₂` of a pair (shared by the code and the paper). -/
noncomputable def primedHues (p q : Lab3 ℝ) : ℝ × ℝ :=
  (getHPrime p.b (p.a + p.a / 2.0 * ((1.0 : ℝ) - ScT.sqrt (powi ((ScT.sqrt (powi p.a 2 + powi p.b 2) + ScT.sqrt (powi q.a 2 + powi q.b 2)) / 2.0) 7 / (powi ((ScT.sqrt (powi p.a 2 + powi p.b 2) + ScT.sqrt (powi q.a 2 + powi q.b 2)) / 2.0) 7 + pow25_7)))),
   getHPrime q.b (q.a + q.a / 2.0 * ((1.0 : ℝ) - ScT.sqrt (powi ((ScT.sqrt (powi p.a 2 + powi p.b 2) + ScT.sqrt (powi q.a 2 + powi q.b 2)) / 2.0) 7 / (powi ((ScT.sqrt (powi p.a 2 + powi p.b 2) + ScT.sqrt (powi q.a 2 + powi q.b 2)) / 2.0) 7 + pow25_7)))))

/-- The one branch in which the code's mean hue is the paper's plus 360°. -/
def WrapHigh (p q : Lab3 ℝ) : Prop :=
  180 < |(primedHues p q).1 - (primedHues p q).2| ∧ 360 ≤ (primedHues p q).1 + (primedHues p q).2

theorem dh_eq (h1 h2 : ℝ) :
    (if Sc.abs (h2 - h1) ≤ (180.0 : ℝ) then h2 - h1 else if (180.0 : ℝ) < h2 - h1 then h2 - h1 - 360.0 else h2 - h1 + 360.0)
      = (if Sc.abs (h1 - h2) ≤ (180.0 : ℝ) then h2 - h1 else if h2 ≤ h1 then h2 - h1 + 360.0 else h2 - h1 - 360.0) := by
  simp only [real_abs, abs_sub_comm h2 h1]
  split_ifs with A B C C
  · rfl
  · exfalso; linarith
  · rfl
  · rfl
  · exfalso
    rcases abs_cases (h1 - h2) with ⟨e, _⟩ | ⟨e, _⟩ <;> norm_num at * <;> linarith

theorem hb_eq (h1 h2 : ℝ) (hw : ¬ (180 < |h1 - h2| ∧ 360 ≤ h1 + h2)) :
    (if Sc.abs (h1 - h2) ≤ (180.0 : ℝ) then (h1 + h2) / 2.0
      else if h1 + h2 < (360.0 : ℝ) then (h1 + h2 + 360.0) / 2.0 else (h1 + h2 - 360.0) / 2.0)
      = getUpcaseHBarPrime h1 h2 := by
  unfold getUpcaseHBarPrime
  simp only [real_abs]
  split_ifs <;>
    first
    | rfl
    | (exfalso; norm_num at *; first | linarith | (have := hw (by assumption); linarith))

theorem dhp_eq (c1 c2 h1 h2 : ℝ) (h : ¬ c1 = 0 ∧ ¬ c2 = 0) :
    getDeltaHPrime c1 c2 h1 h2 =
      (if Sc.abs (h1 - h2) ≤ (180.0 : ℝ) then h2 - h1 else if h2 ≤ h1 then h2 - h1 + 360.0 else h2 - h1 - 360.0) := by
  unfold getDeltaHPrime
  have e1 : ¬ (Sc.feq (0.0 : ℝ) c1 = true) := by rw [real_feq]; norm_num; exact fun e => h.1 e.symm
  have e2 : ¬ (Sc.feq (0.0 : ℝ) c2 = true) := by rw [real_feq]; norm_num; exact fun e => h.2 e.symm
  simp [e1, e2]

theorem gray_chroma_zero (a b : ℝ) (h : a = 0 ∧ b = 0) : ScT.sqrt (powi a 2 + powi b 2) = 0 := by
  rw [h.1, h.2, real_sqrt, powi_two]; norm_num

theorem ciede2000_eq_sharma_of (p q : Lab3 ℝ)
    (hw : (p.a = 0 ∧ p.b = 0) ∨ (q.a = 0 ∧ q.b = 0) ∨ ¬ WrapHigh p q) :
    ciede2000 p q = ciede2000Sharma p q := by
  unfold ciede2000 ciede2000Sharma
  simp only [mul_self_powi, pow25, sharmaHPrime_eq]
  simp only [WrapHigh, primedHues] at hw
  have hg1 := gray_chroma_zero p.a p.b
  have hg2 := gray_chroma_zero q.a q.b
  have hc1n : 0 ≤ ScT.sqrt (powi p.a 2 + powi p.b 2) := Real.sqrt_nonneg _
  have hc2n : 0 ≤ ScT.sqrt (powi q.a 2 + powi q.b 2) := Real.sqrt_nonneg _
  have hkn := kfac_nonneg ((ScT.sqrt (powi p.a 2 + powi p.b 2) + ScT.sqrt (powi q.a 2 + powi q.b 2)) / 2.0)
    (div_nonneg (add_nonneg hc1n hc2n) (by norm_num))
  have hz1 := chroma_zero_iff p.a p.b _ hkn
  have hz2 := chroma_zero_iff q.a q.b _ hkn
  generalize ScT.sqrt (powi p.a 2 + powi p.b 2) = c1 at *
  generalize ScT.sqrt (powi q.a 2 + powi q.b 2) = c2 at *
  generalize (1.0 : ℝ) - ScT.sqrt (powi ((c1 + c2) / 2.0) 7 / (powi ((c1 + c2) / 2.0) 7 + pow25_7)) = k at *
  have ha : ∀ x : ℝ, (1.0 + 0.5 * k) * x = x + x / 2.0 * k := by intro x; norm_num; ring
  simp only [ha]
  have hp1n : 0 ≤ ScT.sqrt (powi (p.a + p.a / 2.0 * k) 2 + powi p.b 2) := Real.sqrt_nonneg _
  have hp2n : 0 ≤ ScT.sqrt (powi (q.a + q.a / 2.0 * k) 2 + powi q.b 2) := Real.sqrt_nonneg _
  generalize ScT.sqrt (powi (p.a + p.a / 2.0 * k) 2 + powi p.b 2) = cp1 at *
  generalize ScT.sqrt (powi (q.a + q.a / 2.0 * k) 2 + powi q.b 2) = cp2 at *
  generalize getHPrime p.b (p.a + p.a / 2.0 * k) = h1 at *
  generalize getHPrime q.b (q.a + q.a / 2.0 * k) = h2 at *
  generalize (q.l - p.l) = dl
  generalize ScT.sqrt (20.0 + powi ((p.l + q.l) / 2.0 - 50.0) 2) = sl
  generalize powi ((p.l + q.l) / 2.0 - 50.0) 2 = l50
  by_cases hz : c1 = 0 ∨ c2 = 0
  · have hprod : cp1 * cp2 = 0 := by
      rcases hz with h | h
      · rw [hz1.mp h, zero_mul]
      · rw [hz2.mp h, mul_zero]
    have hsq : ScT.sqrt (cp1 * cp2) = 0 := by rw [hprod, real_sqrt, Real.sqrt_zero]
    rw [hsq]
    simp only [mul_zero, zero_mul, zero_div, powi_two]
    congr 1
    norm_num
  · have hz' : ¬ (c1 = 0) ∧ ¬ (c2 = 0) := by tauto
    have hprod : cp1 * cp2 ≠ 0 :=
      mul_ne_zero (fun h => hz'.1 (hz1.mpr h)) (fun h => hz'.2 (hz2.mpr h))
    have hf : ¬ (Sc.feq (cp1 * cp2) (0.0 : ℝ) = true) := by
      rw [real_feq]; norm_num
      exact ⟨fun h => hz'.1 (hz1.mpr h), fun h => hz'.2 (hz2.mpr h)⟩
    have hw : ¬ (180 < |h1 - h2| ∧ 360 ≤ h1 + h2) := by
      rcases hw with h | h | h
      · exact absurd (hg1 h) hz'.1
      · exact absurd (hg2 h) hz'.2
      · exact h
    simp only [if_neg hf, dh_eq]
    rw [dhp_eq c1 c2 h1 h2 hz']
    simp only [hb_eq h1 h2 hw]
    generalize (if Sc.abs (h1 - h2) ≤ (180.0 : ℝ) then h2 - h1 else if h2 ≤ h1 then h2 - h1 + 360.0 else h2 - h1 - 360.0) = dh
    generalize getUpcaseHBarPrime h1 h2 = hb
    unfold getUpcaseT getRSubT degreesToRadians
    have e1 : dh * ((ScT.pi : ℝ) / 180.0) / 2.0 = dh / 2.0 * (ScT.pi / 180.0) := by
      generalize (2.0 : ℝ) = t; generalize ((ScT.pi : ℝ) / 180.0) = u; ring
    have e2 : ∀ E : ℝ, 2.0 * (30.0 * E) * ((ScT.pi : ℝ) / 180.0) = 60.0 * E * (ScT.pi / 180.0) := by
      intro E; norm_num; ring
    rw [e1, e2]
    generalize ScT.sin (dh / 2.0 * ((ScT.pi : ℝ) / 180.0)) = sn
    generalize ScT.sin (60.0 * ScT.exp (-powi ((hb - 275.0) / 25.0) 2) * ((ScT.pi : ℝ) / 180.0)) = sr
    generalize ScT.sqrt (powi ((cp1 + cp2) / 2.0) 7 / (powi ((cp1 + cp2) / 2.0) 7 + pow25_7)) = rc
    generalize ScT.sqrt (cp1 * cp2) = sq
    generalize (1.0 - 0.17 * ScT.cos ((hb - 30.0) * ((ScT.pi : ℝ) / 180.0)) +
                          0.24 * ScT.cos (2.0 * hb * (ScT.pi / 180.0)) +
                        0.32 * ScT.cos ((3.0 * hb + 6.0) * (ScT.pi / 180.0)) -
                      0.20 * ScT.cos ((4.0 * hb - 63.0) * (ScT.pi / 180.0))) = tt
    simp only [powi_two]
    congr 1
    have one_mul' : ∀ x : ℝ, (1.0 : ℝ) * x = x := by intro x; norm_num
    simp only [one_mul']
    generalize (cp2 - cp1) / (1.0 + 45e-3 * ((cp1 + cp2) / 2.0)) = X
    generalize (2.0 : ℝ) * sq * sn / (1.0 + 15e-3 * ((cp1 + cp2) / 2.0) * tt) = Y
    generalize dl / ((1.0 : ℝ) + 15e-3 * l50 / sl) = L
    generalize (2.0 : ℝ) = two
    ring

theorem ciede2000_eq_sharma_of_not_wrapHigh (p q : Lab3 ℝ) (hw : ¬ WrapHigh p q) :
    ciede2000 p q = ciede2000Sharma p q :=
  ciede2000_eq_sharma_of p q (Or.inr (Or.inr hw))

end Pastel.SharmaEq

